/-
  EG.Lemmas.JoinsBBoxWidth1Off — `Line::extents(1, StrokeOffset::Left / Right)` returns the line
  itself twice (like `StrokeOffset::None`, EG.Lemmas.JoinsWidth1): with thickness 1 the parallels
  iterator yields the centre line only, on whichever side it starts. Hence every corner of a
  width-1 join is the vertex, for every stroke alignment.
-/
import EG.Lemmas.JoinsWidth1
set_option linter.unusedSimpArgs false
namespace EG
namespace Thick
open ParallelsIterator

/-- `ParallelsIterator::new(line, t, StrokeOffset::Right)`: as for `None`. -/
theorem new_right (l : Line) (t : Int) :
    ∃ iter, ParallelsIterator.new l t .right = some iter ∧
      iter.right = ⟨l.start, 0⟩ ∧ iter.rightError = 0 ∧ iter.nextSide = .right ∧
      iter.strokeOffset = .right ∧
      iter.parallelParameters = BresenhamParameters.new (paramLine l) ∧
      iter.perpendicularParameters = BresenhamParameters.new (paramLine l).perpendicular ∧
      iter.thicknessAccumulator = Line.dmaj (paramLine l) + Line.dmin (paramLine l) ∧
      iter.thicknessThreshold =
        t * 2 * (t * 2) * (Line.dxOf (paramLine l) * Line.dxOf (paramLine l) +
          Line.dyOf (paramLine l) * Line.dyOf (paramLine l)) := by
  have hthr : 0 ≤ (BresenhamParameters.new (paramLine l).perpendicular).errorThreshold := by
    rw [Line.params_new]; exact Line.dmaj_nonneg _
  unfold ParallelsIterator.new
  simp only [LineSide.swap]
  rw [nextParallel_left_fresh _ l.start rfl hthr]
  refine ⟨_, rfl, rfl, rfl, rfl, rfl, rfl, rfl, ?_, ?_⟩
  · show tdiv2 ((BresenhamParameters.new (paramLine l)).errorStep.minor +
        (BresenhamParameters.new (paramLine l)).errorStep.major) = _
    rw [Line.params_new]
    have := Line.dmin_nonneg (paramLine l)
    have := Line.dmaj_nonneg (paramLine l)
    unfold tdiv2
    simp only
    omega
  · rfl

/-- `ParallelsIterator::new(line, t, StrokeOffset::Left)`: the skipped centre point is taken from
the right side. -/
theorem new_left (l : Line) (t : Int) :
    ∃ iter, ParallelsIterator.new l t .left = some iter ∧
      iter.left = ⟨l.start, 0⟩ ∧ iter.leftError = 0 ∧ iter.nextSide = .left ∧
      iter.strokeOffset = .left ∧
      iter.parallelParameters = BresenhamParameters.new (paramLine l) ∧
      iter.perpendicularParameters = BresenhamParameters.new (paramLine l).perpendicular ∧
      iter.thicknessAccumulator = Line.dmaj (paramLine l) + Line.dmin (paramLine l) ∧
      iter.thicknessThreshold =
        t * 2 * (t * 2) * (Line.dxOf (paramLine l) * Line.dxOf (paramLine l) +
          Line.dyOf (paramLine l) * Line.dyOf (paramLine l)) := by
  have hthr : 0 < (BresenhamParameters.new (paramLine l).perpendicular).errorThreshold := by
    rw [Line.params_new, dmaj_perpendicular]; exact dmaj_paramLine_pos l
  unfold ParallelsIterator.new
  simp only [LineSide.swap]
  rw [nextParallel_right_fresh _ l.start rfl hthr]
  refine ⟨_, rfl, rfl, rfl, rfl, rfl, rfl, rfl, ?_, ?_⟩
  · show tdiv2 ((BresenhamParameters.new (paramLine l)).errorStep.minor +
        (BresenhamParameters.new (paramLine l)).errorStep.major) = _
    rw [Line.params_new]
    have := Line.dmin_nonneg (paramLine l)
    have := Line.dmaj_nonneg (paramLine l)
    unfold tdiv2
    simp only
    omega
  · rfl

/-- First call of `next` for `StrokeOffset::Right`: the centre line; the side is kept. -/
theorem next_first_right (it : ParallelsIterator) (start : Pt)
    (hr : it.right = ⟨start, 0⟩) (hre : it.rightError = 0) (hs : it.nextSide = .right)
    (hso : it.strokeOffset = .right)
    (hthr : 0 < it.perpendicularParameters.errorThreshold)
    (hacc : ¬ it.thicknessAccumulator * it.thicknessAccumulator > it.thicknessThreshold) :
    ∃ it1 : ParallelsIterator,
      it.next = some (some (⟨start, 0⟩, .normal), it1) ∧
      it1.thicknessThreshold = it.thicknessThreshold ∧
      it1.thicknessAccumulator =
        it.thicknessAccumulator + it.perpendicularParameters.errorStep.minor := by
  refine ⟨{ it with
      right := ⟨start - it.perpendicularParameters.positionStep.major,
                0 - it.perpendicularParameters.errorStep.major⟩
      thicknessAccumulator := it.thicknessAccumulator + it.perpendicularParameters.errorStep.minor },
    ?_, rfl, rfl⟩
  unfold ParallelsIterator.next
  rw [if_neg hacc, hs, nextParallel_right_fresh it start hr hthr]
  simp only [hre, hso, ↓reduceIte, Bresenham.withInitialError, hs, LineSide.swap, reduceCtorEq]

/-- First call of `next` for `StrokeOffset::Left`: the centre line; the side is kept. -/
theorem next_first_left (it : ParallelsIterator) (start : Pt)
    (hl : it.left = ⟨start, 0⟩) (hle : it.leftError = 0) (hs : it.nextSide = .left)
    (hso : it.strokeOffset = .left)
    (hthr : 0 ≤ it.perpendicularParameters.errorThreshold)
    (hacc : ¬ it.thicknessAccumulator * it.thicknessAccumulator > it.thicknessThreshold) :
    ∃ it1 : ParallelsIterator,
      it.next = some (some (⟨start, 0⟩, .normal), it1) ∧
      it1.thicknessThreshold = it.thicknessThreshold ∧
      it1.thicknessAccumulator =
        it.thicknessAccumulator + it.perpendicularParameters.errorStep.minor := by
  refine ⟨{ it with
      left := ⟨start + it.perpendicularParameters.positionStep.major,
               0 + it.perpendicularParameters.errorStep.major⟩
      thicknessAccumulator := it.thicknessAccumulator + it.perpendicularParameters.errorStep.minor },
    ?_, rfl, rfl⟩
  unfold ParallelsIterator.next
  rw [if_neg hacc, hs, nextParallel_left_fresh it start hl hthr]
  simp only [hle, hso, ↓reduceIte, Bresenham.withInitialError, hs, LineSide.swap, reduceCtorEq]

end Thick

namespace Joins
open Thick (LineSide StrokeOffset ParallelsIterator ParallelLineType)

/-- `Line::extents(1, StrokeOffset::Right)`: both edge lines are the line itself. -/
theorem extents_width1_right (l : Line) : extents l 1 .right = some (l, l) := by
  obtain ⟨iter, hnew, hr, hre, hs, hso, hpp, hperp, hacc, hthr⟩ := Thick.new_right l 1
  have hD := Thick.dmaj_paramLine_pos l
  have hd0 := Line.dmin_nonneg (Thick.paramLine l)
  have hdD := Line.dmin_le_dmaj (Thick.paramLine l)
  have hmin : iter.perpendicularParameters.errorStep.minor = 2 * Line.dmaj (Thick.paramLine l) := by
    rw [hperp, Line.params_new, Thick.dmaj_perpendicular]
  have hpthr : 0 < iter.perpendicularParameters.errorThreshold := by
    rw [hperp, Line.params_new, Thick.dmaj_perpendicular]; exact hD
  obtain ⟨ha1, ha2⟩ := Thick.width1_arith (Line.dmaj (Thick.paramLine l)) (Line.dmin (Thick.paramLine l)) _
    hd0 hdD hD (Thick.dmaj_dmin_squares (Thick.paramLine l)).symm
  obtain ⟨it1, hn1, e2, e3⟩ := Thick.next_first_right iter l.start hr hre hs hso hpthr
    (by rw [hacc, hthr]; exact ha1)
  have hn2 : it1.next = some (none, it1) :=
    Thick.next_done it1 (by rw [e3, e2, hacc, hthr, hmin]; exact ha2)
  have hloop : lastParallel (4 * 1 + 8) iter none = some (some (⟨l.start, 0⟩, ParallelLineType.normal)) := by
    show lastParallel 12 iter none = _
    unfold lastParallel
    rw [hn1]
    simp only []
    unfold lastParallel
    rw [hn2]
  have hone : satAsI32 1 = 1 := by decide
  unfold extents
  rw [hone, hnew]
  simp only [Option.bind_eq_bind, Option.bind_some, hloop, pure, line_rebuild]

/-- `Line::extents(1, StrokeOffset::Left)`: both edge lines are the line itself. -/
theorem extents_width1_left (l : Line) : extents l 1 .left = some (l, l) := by
  obtain ⟨iter, hnew, hl, hle, hs, hso, hpp, hperp, hacc, hthr⟩ := Thick.new_left l 1
  have hD := Thick.dmaj_paramLine_pos l
  have hd0 := Line.dmin_nonneg (Thick.paramLine l)
  have hdD := Line.dmin_le_dmaj (Thick.paramLine l)
  have hmin : iter.perpendicularParameters.errorStep.minor = 2 * Line.dmaj (Thick.paramLine l) := by
    rw [hperp, Line.params_new, Thick.dmaj_perpendicular]
  have hpthr : 0 ≤ iter.perpendicularParameters.errorThreshold := by
    rw [hperp, Line.params_new, Thick.dmaj_perpendicular]; exact Int.le_of_lt hD
  obtain ⟨ha1, ha2⟩ := Thick.width1_arith (Line.dmaj (Thick.paramLine l)) (Line.dmin (Thick.paramLine l)) _
    hd0 hdD hD (Thick.dmaj_dmin_squares (Thick.paramLine l)).symm
  obtain ⟨it1, hn1, e2, e3⟩ := Thick.next_first_left iter l.start hl hle hs hso hpthr
    (by rw [hacc, hthr]; exact ha1)
  have hn2 : it1.next = some (none, it1) :=
    Thick.next_done it1 (by rw [e3, e2, hacc, hthr, hmin]; exact ha2)
  have hloop : lastParallel (4 * 1 + 8) iter none = some (some (⟨l.start, 0⟩, ParallelLineType.normal)) := by
    show lastParallel 12 iter none = _
    unfold lastParallel
    rw [hn1]
    simp only []
    unfold lastParallel
    rw [hn2]
  have hone : satAsI32 1 = 1 := by decide
  unfold extents
  rw [hone, hnew]
  simp only [Option.bind_eq_bind, Option.bind_some, hloop, pure, line_rebuild]

/-- `Line::extents(1, _)` for every stroke offset. -/
theorem extents_width1 (l : Line) (off : StrokeOffset) : extents l 1 off = some (l, l) := by
  cases off with
  | none => exact extents_width1_none l
  | left => exact extents_width1_left l
  | right => exact extents_width1_right l

/-- `LineJoin::from_points(a, m, b, 1, off)` always exists and all its corners are `m`, for every
stroke offset. -/
theorem fromPoints_width1_off (a m b : Pt) (off : StrokeOffset) (hx : inI32 m.x) (hy : inI32 m.y) :
    ∃ j, LineJoin.fromPoints a m b 1 off = some j ∧
      j.firstEdgeEnd = ⟨m, m⟩ ∧ j.secondEdgeStart = ⟨m, m⟩ := by
  unfold LineJoin.fromPoints
  rw [extents_width1, extents_width1]
  simp only [Option.bind_eq_bind, Option.bind_some, pure]
  exact ⟨_, rfl, fromExtents_width1_corners a m b hx hy⟩

end Joins
end EG
