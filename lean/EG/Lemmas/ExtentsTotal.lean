/-
  EG.Lemmas.ExtentsTotal — `Line::extents` is total in the model: for every line, every stroke
  width and every stroke offset `Joins.extents l w off` (and `Thick.extents l w`) returns `some`
  pair of edge lines. The recursion bounds of the model's loops (`extentsLoop`: `2 w + 4` rounds of
  two parallels; `lastParallel`: `4 w + 8` parallels) are never exhausted, so the `Option` of
  everything built on `extents` (`LineJoin::start / end / from_points`, thick segments, styled
  polylines and triangles) is `some`: the C07 / C02 statements about them, which are equalities /
  implications on `Option`s, are not vacuous.

  Why the bounds suffice (the measure `pm` of Lemmas/ThickTotal.lean only gives "at most
  `threshold + 1` parallels"; here the count is linear in the width):
  * each side walks the perpendicular of the line with its own Bresenham error; a `Normal`
    perpendicular point adds `2 M` (`M = max(|dx|, |dy|)`) to the thickness accumulator, an `Extra`
    one `2 m >= 0`;
  * after an `Extra` parallel of a side the next perpendicular point of that side is `Normal`
    (`Ready`, from the invariant `PInv` of ThickTotal.lean), so the potential
    `psi = accumulator + M [left ready] + M [right ready]` grows by at least `M` with every
    parallel returned, whichever side it is taken from (`next_step`);
  * the iterator stops once `accumulator^2 > (2 t)^2 (dx^2 + dy^2)`, and `dx^2 + dy^2 <= 2 M^2`,
    so `accumulator >= 3 t M + 1` ends it (`done_of_psi`): at most `3 t + 2` parallels are
    returned, where `t = min(w, i32::MAX)`.
-/
import EG.Lemmas.ThickTotal
import EG.Lemmas.JoinsBBoxWidth1Off
import Mathlib.Tactic.Linarith
import Mathlib.Tactic.Ring
namespace EG
namespace Thick
open ParallelsIterator

/-- The perpendicular walk `next_parallel(side)` does not touch. -/
def WalkKept (side : LineSide) (a b : ParallelsIterator) : Prop :=
  match side with
  | .left => b.right = a.right
  | .right => b.left = a.left

theorem nextParallelFuel_walkKept : ∀ (fuel : Nat) (it : ParallelsIterator) (side : LineSide)
    (r : BresenhamPoint × Int) (it' : ParallelsIterator),
    nextParallelFuel fuel it side = some (r, it') → WalkKept side it it' := by
  intro fuel
  induction fuel with
  | zero => intro it side r it' h; simp [nextParallelFuel] at h
  | succ n ih =>
    intro it side r it' h
    cases side
    all_goals
      simp only [nextParallelFuel] at h
      split at h
      · simp only [Option.some.injEq, Prod.mk.injEq] at h
        obtain ⟨-, rfl⟩ := h
        exact rfl
      · split at h
        · split at h
          · simp only [Option.some.injEq, Prod.mk.injEq] at h
            obtain ⟨-, rfl⟩ := h
            exact rfl
          · have hk := ih _ _ _ _ h
            exact hk
        · split at h
          · simp only [Option.some.injEq, Prod.mk.injEq] at h
            obtain ⟨-, rfl⟩ := h
            exact rfl
          · have hk := ih _ _ _ _ h
            exact hk

/-- `nextParallelFuel_total` of ThickTotal.lean with one more fact: an `Extra` parallel is returned
only when the side was not `Ready`, and leaves the side `Ready` (its next point is `Normal`). -/
theorem nextParallelFuel_spec (fuel : Nat) (it : ParallelsIterator) (side : LineSide) (hi : PInv it) :
    ∃ pt e it', nextParallelFuel (fuel + 2) it side = some ((pt, e), it') ∧ PInv it' ∧
      SameFrame it it' ∧
      (∀ q, pt = .extra q → ¬ Ready it side ∧ Ready it' side) := by
  have h1 := hi.thr_pos; have h2 := hi.smaj_nonneg; have h3 := hi.smaj_le; have h4 := hi.smin_pos
  have h5 := hi.left_le; have h6 := hi.right_gt; have h7 := hi.zero_l; have h8 := hi.zero_r
  have key : ∀ it2 : ParallelsIterator, PInv it2 → Ready it2 side → SameFrame it it2 →
      ∃ pt e it', nextParallelFuel (fuel + 1) it2 side = some ((pt, e), it') ∧ PInv it' ∧
        SameFrame it it' ∧
        (∀ q, pt = .extra q → ¬ Ready it side ∧ Ready it' side) := by
    intro it2 hi2 hr2 hs2
    obtain ⟨p, e, it', h, hinv, hsf⟩ := nextParallelFuel_ready fuel it2 side hi2 hr2
    exact ⟨_, _, _, h, hinv, hs2.trans hsf, fun q hq => by cases hq⟩
  by_cases hr : Ready it side
  · obtain ⟨p, e, it', h, hinv, hsf⟩ := nextParallelFuel_ready (fuel + 1) it side hi hr
    exact ⟨_, _, _, h, hinv, hsf, fun q hq => by cases hq⟩
  · cases side with
    | left =>
      have hx : it.left.error > it.perpendicularParameters.errorThreshold := by
        unfold Ready at hr; omega
      rw [nextParallelFuel]
      simp only [Bresenham.nextAll, hx, ↓reduceIte, sideError, setSideError]
      split
      · split
        · refine ⟨_, _, _, rfl, ?_, ⟨rfl, rfl, rfl, rfl, rfl, rfl, rfl⟩, fun _ _ => ⟨hr, ?_⟩⟩
          · constructor <;> first | assumption | (dsimp only; omega)
          · show _ ≤ _
            dsimp only; omega
        · apply key
          · constructor <;> first | assumption | (dsimp only; omega)
          · show _ ≤ _
            dsimp only; omega
          · exact ⟨rfl, rfl, rfl, rfl, rfl, rfl, rfl⟩
      · split
        · refine ⟨_, _, _, rfl, ?_, ⟨rfl, rfl, rfl, rfl, rfl, rfl, rfl⟩, fun _ _ => ⟨hr, ?_⟩⟩
          · constructor <;> first | assumption | (dsimp only; omega)
          · show _ ≤ _
            dsimp only; omega
        · apply key
          · constructor <;> first | assumption | (dsimp only; omega)
          · show _ ≤ _
            dsimp only; omega
          · exact ⟨rfl, rfl, rfl, rfl, rfl, rfl, rfl⟩
    | right =>
      have hx : it.right.error ≤ -it.perpendicularParameters.errorThreshold := by
        unfold Ready at hr; omega
      rw [nextParallelFuel]
      simp only [Bresenham.previousAll, hx, ↓reduceIte, sideError, setSideError]
      split
      · split
        · refine ⟨_, _, _, rfl, ?_, ⟨rfl, rfl, rfl, rfl, rfl, rfl, rfl⟩, fun _ _ => ⟨hr, ?_⟩⟩
          · constructor <;> first | assumption | (dsimp only; omega)
          · show _ < _
            dsimp only; omega
        · apply key
          · constructor <;> first | assumption | (dsimp only; omega)
          · show _ < _
            dsimp only; omega
          · exact ⟨rfl, rfl, rfl, rfl, rfl, rfl, rfl⟩
      · split
        · refine ⟨_, _, _, rfl, ?_, ⟨rfl, rfl, rfl, rfl, rfl, rfl, rfl⟩, fun _ _ => ⟨hr, ?_⟩⟩
          · constructor <;> first | assumption | (dsimp only; omega)
          · show _ < _
            dsimp only; omega
        · apply key
          · constructor <;> first | assumption | (dsimp only; omega)
          · show _ < _
            dsimp only; omega
          · exact ⟨rfl, rfl, rfl, rfl, rfl, rfl, rfl⟩

instance (it : ParallelsIterator) (s : LineSide) : Decidable (Ready it s) := by
  cases s <;> unfold Ready <;> exact inferInstance

/-- `M` if the next perpendicular point of the side is `Normal`, else 0. -/
def rdy (it : ParallelsIterator) (s : LineSide) : Int :=
  if Ready it s then it.perpendicularParameters.errorThreshold else 0

/-- The potential: thickness accumulated so far plus `M` for every side whose next perpendicular
point is `Normal`. -/
def psi (it : ParallelsIterator) : Int :=
  it.thicknessAccumulator + rdy it .left + rdy it .right

theorem rdy_congr_left {a b : ParallelsIterator}
    (h1 : b.perpendicularParameters = a.perpendicularParameters) (h2 : b.left = a.left) :
    rdy b .left = rdy a .left := by
  simp only [rdy, Ready, h1, h2]

theorem rdy_congr_right {a b : ParallelsIterator}
    (h1 : b.perpendicularParameters = a.perpendicularParameters) (h2 : b.right = a.right) :
    rdy b .right = rdy a .right := by
  simp only [rdy, Ready, h1, h2]

theorem rdy_bounds (it : ParallelsIterator) (s : LineSide)
    (h : 0 ≤ it.perpendicularParameters.errorThreshold) :
    0 ≤ rdy it s ∧ rdy it s ≤ it.perpendicularParameters.errorThreshold := by
  unfold rdy; split <;> omega

theorem rdy_of_ready {it : ParallelsIterator} {s : LineSide} (h : Ready it s) :
    rdy it s = it.perpendicularParameters.errorThreshold := by
  unfold rdy; rw [if_pos h]

theorem rdy_of_not_ready {it : ParallelsIterator} {s : LineSide} (h : ¬ Ready it s) :
    rdy it s = 0 := by
  unfold rdy; rw [if_neg h]

/-- The invariant of the count: `PInv`, and the perpendicular parameters are those of a line whose
longer side is `M`. -/
structure QInv (M : Int) (it : ParallelsIterator) : Prop where
  pinv : PInv it
  thrM : it.perpendicularParameters.errorThreshold = M
  smin : it.perpendicularParameters.errorStep.minor = 2 * M

/-- One parallel returned by `ParallelsIterator::next` raises the potential by at least `M`. -/
theorem next_step (M : Int) (it : ParallelsIterator) (hq : QInv M it)
    (hacc : ¬ it.thicknessAccumulator * it.thicknessAccumulator > it.thicknessThreshold) :
    ∃ b ty it', it.next = some (some (b, ty), it') ∧ QInv M it' ∧ psi it + M ≤ psi it' ∧
      it'.thicknessThreshold = it.thicknessThreshold := by
  obtain ⟨pt, e, it1, h, hinv, hsf, hex⟩ := nextParallelFuel_spec 2 it it.nextSide hq.pinv
  have hk := nextParallelFuel_walkKept _ _ _ _ _ h
  obtain ⟨f1, f2, f3, f4, f5, f6, f7⟩ := hsf
  have hM0 : 0 ≤ it.perpendicularParameters.errorThreshold := by have := hq.pinv.thr_pos; omega
  have hM1 : 0 ≤ it1.perpendicularParameters.errorThreshold := by rw [f2]; exact hM0
  have hsmaj := hq.pinv.smaj_nonneg
  have hthrM := hq.thrM
  have hsmin := hq.smin
  have bl := rdy_bounds it .left hM0
  have br := rdy_bounds it .right hM0
  have bl1 := rdy_bounds it1 .left hM1
  have br1 := rdy_bounds it1 .right hM1
  have h' : it.nextParallel it.nextSide = some ((pt, e), it1) := h
  unfold ParallelsIterator.next
  rw [if_neg hacc, h']
  -- the potential of the state before the accumulator is raised, against the old one
  have hq1 : QInv M it1 := ⟨hinv, by rw [f2]; exact hq.thrM, by rw [f2]; exact hq.smin⟩
  cases pt with
  | normal p =>
    have hpsi : psi it + M ≤ it1.thicknessAccumulator + it1.perpendicularParameters.errorStep.minor +
        rdy it1 .left + rdy it1 .right := by
      rw [f2, f3, hsmin]
      unfold psi
      cases hs : it.nextSide with
      | left =>
        rw [hs] at hk
        have := rdy_congr_right f2 hk
        rw [f2] at bl1
        omega
      | right =>
        rw [hs] at hk
        have := rdy_congr_left f2 hk
        rw [f2] at br1
        omega
    dsimp only
    split
    · exact ⟨_, _, _, rfl, ⟨hinv.of_eq rfl rfl rfl, hq1.thrM, hq1.smin⟩, hpsi, f4⟩
    · exact ⟨_, _, _, rfl, ⟨hinv.of_eq rfl rfl rfl, hq1.thrM, hq1.smin⟩, hpsi, f4⟩
  | extra p =>
    obtain ⟨hnr, hr1⟩ := hex p rfl
    have hpsi : psi it + M ≤ it1.thicknessAccumulator + it1.perpendicularParameters.errorStep.major +
        rdy it1 .left + rdy it1 .right := by
      rw [f2, f3]
      unfold psi
      cases hs : it.nextSide with
      | left =>
        rw [hs] at hk hnr hr1
        have := rdy_congr_right f2 hk
        have e0 := rdy_of_not_ready hnr
        have e1 := rdy_of_ready hr1
        rw [f2] at e1
        omega
      | right =>
        rw [hs] at hk hnr hr1
        have := rdy_congr_left f2 hk
        have e0 := rdy_of_not_ready hnr
        have e1 := rdy_of_ready hr1
        rw [f2] at e1
        omega
    dsimp only
    split
    · exact ⟨_, _, _, rfl, ⟨hinv.of_eq rfl rfl rfl, hq1.thrM, hq1.smin⟩, hpsi, f4⟩
    · exact ⟨_, _, _, rfl, ⟨hinv.of_eq rfl rfl rfl, hq1.thrM, hq1.smin⟩, hpsi, f4⟩

/-- A potential of `3 t M + 2 M + 1` ends the iterator: `accumulator >= 3 t M + 1`, and the
threshold `(2 t)^2 (dx^2 + dy^2)` is at most `8 (t M)^2`. -/
theorem done_of_psi (t M : Int) (it : ParallelsIterator) (hq : QInv M it) (ht : 0 ≤ t)
    (hthr : it.thicknessThreshold ≤ 8 * ((t * M) * (t * M)))
    (hpsi : 3 * (t * M) + 2 * M + 1 ≤ psi it) :
    it.thicknessAccumulator * it.thicknessAccumulator > it.thicknessThreshold := by
  have hM : 1 ≤ M := by have := hq.pinv.thr_pos; rw [hq.thrM] at this; exact this
  have hM0 : 0 ≤ it.perpendicularParameters.errorThreshold := by rw [hq.thrM]; omega
  have bl := rdy_bounds it .left hM0
  have br := rdy_bounds it .right hM0
  rw [hq.thrM] at bl br
  have hu : 0 ≤ t * M := Int.mul_nonneg ht (by omega)
  have hacc : 3 * (t * M) + 1 ≤ it.thicknessAccumulator := by unfold psi at hpsi; omega
  nlinarith [Int.mul_nonneg hu hu]


/-! ### The initial state, for every stroke offset -/

theorem perpParams_paramLine (l : Line) :
    BresenhamParameters.new (paramLine l).perpendicular =
      ⟨Line.dmaj (paramLine l), ⟨2 * Line.dmin (paramLine l), 2 * Line.dmaj (paramLine l)⟩,
        ⟨Line.pmaj (paramLine l).perpendicular, Line.pmin (paramLine l).perpendicular⟩⟩ := by
  rw [Line.params_new, dmaj_perpendicular, dmin_perpendicular]

/-- `ParallelsIterator::new(line, t, offset)` exists for every stroke offset and satisfies the
invariant of the count, with `M = max(|dx|, |dy|)` of the line that sets the parameters. -/
theorem new_qinv (l : Line) (t : Int) (off : StrokeOffset) :
    ∃ iter, ParallelsIterator.new l t off = some iter ∧ QInv (Line.dmaj (paramLine l)) iter ∧
      iter.thicknessAccumulator = Line.dmaj (paramLine l) + Line.dmin (paramLine l) ∧
      iter.thicknessThreshold =
        t * 2 * (t * 2) * (Line.dxOf (paramLine l) * Line.dxOf (paramLine l) +
          Line.dyOf (paramLine l) * Line.dyOf (paramLine l)) := by
  have hD := dmaj_paramLine_pos l
  have hd0 := Line.dmin_nonneg (paramLine l)
  have hdD := Line.dmin_le_dmaj (paramLine l)
  have hperp := perpParams_paramLine l
  have hthr0 : 0 ≤ (BresenhamParameters.new (paramLine l).perpendicular).errorThreshold := by
    rw [hperp]; dsimp only; omega
  have hthr1 : 0 < (BresenhamParameters.new (paramLine l).perpendicular).errorThreshold := by
    rw [hperp]; dsimp only; omega
  cases off with
  | none =>
    obtain ⟨iter0, hnew0, _, _, _, _, _, hperp0, hacc0, hthr⟩ := new_any l t
    have hnew := hnew0
    unfold ParallelsIterator.new at hnew
    simp only [LineSide.swap] at hnew
    rw [nextParallel_left_fresh _ l.start rfl hthr0] at hnew
    simp only [Option.some.injEq] at hnew
    have hl : iter0.left.error = 0 + (BresenhamParameters.new (paramLine l).perpendicular).errorStep.major := by
      rw [← hnew]; rfl
    have hr : iter0.right.error = 0 := by rw [← hnew]; rfl
    rw [hperp] at hl
    dsimp only at hl
    refine ⟨iter0, hnew0, ⟨?_, by rw [hperp0, hperp], by rw [hperp0, hperp]⟩, hacc0, hthr⟩
    constructor <;> rw [hperp0, hperp] <;> dsimp only <;> omega
  | right =>
    obtain ⟨iter0, hnew0, _, _, _, _, _, hperp0, hacc0, hthr⟩ := new_right l t
    have hnew := hnew0
    unfold ParallelsIterator.new at hnew
    simp only [LineSide.swap] at hnew
    rw [nextParallel_left_fresh _ l.start rfl hthr0] at hnew
    simp only [Option.some.injEq] at hnew
    have hl : iter0.left.error = 0 + (BresenhamParameters.new (paramLine l).perpendicular).errorStep.major := by
      rw [← hnew]; rfl
    have hr : iter0.right.error = 0 := by rw [← hnew]; rfl
    rw [hperp] at hl
    dsimp only at hl
    refine ⟨iter0, hnew0, ⟨?_, by rw [hperp0, hperp], by rw [hperp0, hperp]⟩, hacc0, hthr⟩
    constructor <;> rw [hperp0, hperp] <;> dsimp only <;> omega
  | left =>
    obtain ⟨iter0, hnew0, _, _, _, _, _, hperp0, hacc0, hthr⟩ := new_left l t
    have hnew := hnew0
    unfold ParallelsIterator.new at hnew
    simp only [LineSide.swap] at hnew
    rw [nextParallel_right_fresh _ l.start rfl hthr1] at hnew
    simp only [Option.some.injEq] at hnew
    have hr : iter0.right.error = 0 - (BresenhamParameters.new (paramLine l).perpendicular).errorStep.major := by
      rw [← hnew]; rfl
    have hl : iter0.left.error = 0 := by rw [← hnew]; rfl
    rw [hperp] at hr
    dsimp only at hr
    refine ⟨iter0, hnew0, ⟨?_, by rw [hperp0, hperp], by rw [hperp0, hperp]⟩, hacc0, hthr⟩
    constructor <;> rw [hperp0, hperp] <;> dsimp only <;> omega

/-- `(2 t)^2 (dx^2 + dy^2) <= 8 (t M)^2`. -/
theorem thicknessThreshold_le (l : Line) (t : Int) :
    t * 2 * (t * 2) * (Line.dxOf (paramLine l) * Line.dxOf (paramLine l) +
        Line.dyOf (paramLine l) * Line.dyOf (paramLine l)) ≤
      8 * ((t * Line.dmaj (paramLine l)) * (t * Line.dmaj (paramLine l))) := by
  have hD := dmaj_paramLine_pos l
  have hd0 := Line.dmin_nonneg (paramLine l)
  have hdD := Line.dmin_le_dmaj (paramLine l)
  rw [← dmaj_dmin_squares]
  have h1 : Line.dmin (paramLine l) * Line.dmin (paramLine l) ≤
      Line.dmaj (paramLine l) * Line.dmaj (paramLine l) := Int.mul_le_mul hdD hdD hd0 (by omega)
  have h2 : 0 ≤ t * t := mul_self_nonneg t
  nlinarith [Int.mul_le_mul_of_nonneg_left h1 h2]

end Thick

namespace Joins
open Thick (LineSide StrokeOffset ParallelsIterator ParallelLineType extentsLoop QInv psi next_step
  done_of_psi next_done)

/-- `Iterator::last` on the parallels (the `Left / Right` arms of `extents`) never runs out of
fuel when the fuel covers the potential still missing. -/
theorem lastParallel_total (t M : Int) (ht : 0 ≤ t) : ∀ (f : Nat) (it : ParallelsIterator)
    (acc : Option (Bresenham × ParallelLineType)), QInv M it →
    it.thicknessThreshold ≤ 8 * ((t * M) * (t * M)) →
    3 * (t * M) + 2 * M + 1 ≤ psi it + (f : Int) * M →
    ∃ r, lastParallel (f + 1) it acc = some r := by
  intro f
  induction f with
  | zero =>
    intro it acc hq hthr hpsi
    have hd := done_of_psi t M it hq ht hthr (by simpa using hpsi)
    exact ⟨acc, by rw [lastParallel, next_done it hd]⟩
  | succ n ih =>
    intro it acc hq hthr hpsi
    by_cases hacc : it.thicknessAccumulator * it.thicknessAccumulator > it.thicknessThreshold
    · exact ⟨acc, by rw [lastParallel, next_done it hacc]⟩
    · obtain ⟨b, ty, it', hn, hq', hp, e⟩ := next_step M it hq hacc
      rw [lastParallel, hn]
      apply ih it' (some (b, ty)) hq' (by rw [e]; exact hthr)
      have : ((n + 1 : Nat) : Int) * M = (n : Int) * M + M := by push_cast; ring
      rw [this] at hpsi
      omega

/-- The `loop` of `extents` for `StrokeOffset::None` (two parallels per round) never runs out of
fuel when the fuel covers the potential still missing. -/
theorem extentsLoop_total (t M : Int) (ht : 0 ≤ t) : ∀ (f : Nat) (it : ParallelsIterator)
    (left right : Pt × ParallelLineType), QInv M it →
    it.thicknessThreshold ≤ 8 * ((t * M) * (t * M)) →
    3 * (t * M) + 2 * M + 1 ≤ psi it + (2 * (f : Int) + 1) * M →
    ∃ r, extentsLoop (f + 1) it left right = some r := by
  intro f
  induction f with
  | zero =>
    intro it left right hq hthr hpsi
    by_cases hacc : it.thicknessAccumulator * it.thicknessAccumulator > it.thicknessThreshold
    · exact ⟨(left, right), by rw [extentsLoop, next_done it hacc]⟩
    · obtain ⟨b, ty, it', hn, hq', hp, e⟩ := next_step M it hq hacc
      have hd := done_of_psi t M it' hq' ht (by rw [e]; exact hthr) (by simp at hpsi; omega)
      exact ⟨(left, (b.point, ty)), by rw [extentsLoop, hn]; simp only []; rw [next_done it' hd]⟩
  | succ n ih =>
    intro it left right hq hthr hpsi
    by_cases hacc : it.thicknessAccumulator * it.thicknessAccumulator > it.thicknessThreshold
    · exact ⟨(left, right), by rw [extentsLoop, next_done it hacc]⟩
    · obtain ⟨b, ty, it', hn, hq', hp, e⟩ := next_step M it hq hacc
      by_cases hacc' : it'.thicknessAccumulator * it'.thicknessAccumulator > it'.thicknessThreshold
      · exact ⟨(left, (b.point, ty)), by rw [extentsLoop, hn]; simp only []; rw [next_done it' hacc']⟩
      · obtain ⟨b2, ty2, it2, hn2, hq2, hp2, e2⟩ := next_step M it' hq' hacc'
        have hthr2 : it2.thicknessThreshold ≤ 8 * ((t * M) * (t * M)) := by rw [e2, e]; exact hthr
        have hneed : 3 * (t * M) + 2 * M + 1 ≤ psi it2 + (2 * (n : Int) + 1) * M := by
          have : (2 * ((n + 1 : Nat) : Int) + 1) * M = (2 * (n : Int) + 1) * M + M + M := by
            push_cast; ring
          rw [this] at hpsi
          omega
        obtain ⟨r, hr⟩ := ih it2 (b2.point, ty2) (b.point, ty) hq2 hthr2 hneed
        exact ⟨r, by rw [extentsLoop, hn]; simp only []; rw [hn2]; simp only []; exact hr⟩


theorem satAsI32_bounds (w : Nat) : 0 ≤ satAsI32 w ∧ satAsI32 w ≤ (w : Int) := by
  unfold satAsI32; split <;> omega

/-- **`Line::extents` is total**: for every line, stroke width and stroke offset the model returns
a pair of edge lines; no loop bound is exhausted. -/
theorem extents_total (l : Line) (w : Nat) (off : StrokeOffset) : ∃ r, extents l w off = some r := by
  obtain ⟨iter, hnew, hq, hacc, hthr⟩ := Thick.new_qinv l (satAsI32 w) off
  obtain ⟨ht0, htw⟩ := satAsI32_bounds w
  have hD := Thick.dmaj_paramLine_pos l
  have hd0 := Line.dmin_nonneg (Thick.paramLine l)
  have hthr' : iter.thicknessThreshold ≤
      8 * ((satAsI32 w * Line.dmaj (Thick.paramLine l)) * (satAsI32 w * Line.dmaj (Thick.paramLine l))) := by
    rw [hthr]; exact Thick.thicknessThreshold_le l _
  have hM0 : 0 ≤ iter.perpendicularParameters.errorThreshold := by rw [hq.thrM]; omega
  have bl := Thick.rdy_bounds iter .left hM0
  have br := Thick.rdy_bounds iter .right hM0
  have hpsi0 : Line.dmaj (Thick.paramLine l) ≤ psi iter := by unfold Thick.psi; omega
  have hneed : 3 * (satAsI32 w * Line.dmaj (Thick.paramLine l)) + 2 * Line.dmaj (Thick.paramLine l) + 1 ≤
      psi iter + (4 * (w : Int) + 7) * Line.dmaj (Thick.paramLine l) := by
    nlinarith [mul_nonneg (show (0 : Int) ≤ 4 * (w : Int) - 3 * satAsI32 w by omega)
      (show (0 : Int) ≤ Line.dmaj (Thick.paramLine l) by omega)]
  unfold extents
  rw [hnew]
  simp only [Option.bind_eq_bind, Option.bind_some]
  cases off with
  | none =>
    obtain ⟨r, hr⟩ := extentsLoop_total (satAsI32 w) _ ht0 (2 * w + 3) iter (l.start, .normal)
      (l.start, .normal) hq hthr' (by
        have : (2 * ((2 * w + 3 : Nat) : Int) + 1) = 4 * (w : Int) + 7 := by push_cast; ring
        rw [this]; exact hneed)
    have e : 2 * w + 4 = 2 * w + 3 + 1 := rfl
    simp only [e, hr, Option.bind_some, pure]
    exact ⟨_, rfl⟩
  | left =>
    obtain ⟨r, hr⟩ := lastParallel_total (satAsI32 w) _ ht0 (4 * w + 7) iter none hq hthr' (by
        have : ((4 * w + 7 : Nat) : Int) = 4 * (w : Int) + 7 := by push_cast; ring
        rw [this]; exact hneed)
    have e : 4 * w + 8 = 4 * w + 7 + 1 := rfl
    simp only [e, hr]
    rcases r with _ | ⟨b, ty⟩ <;> exact ⟨_, rfl⟩
  | right =>
    obtain ⟨r, hr⟩ := lastParallel_total (satAsI32 w) _ ht0 (4 * w + 7) iter none hq hthr' (by
        have : ((4 * w + 7 : Nat) : Int) = 4 * (w : Int) + 7 := by push_cast; ring
        rw [this]; exact hneed)
    have e : 4 * w + 8 = 4 * w + 7 + 1 := rfl
    simp only [e, hr]
    rcases r with _ | ⟨b, ty⟩ <;> exact ⟨_, rfl⟩

/-- The same for the `StrokeOffset::None`-only copy used by the stroked-line model. -/
theorem thick_extents_total (l : Line) (w : Nat) : ∃ r, Thick.extents l w = some r := by
  obtain ⟨r, hr⟩ := extents_total l w .none
  obtain ⟨iter, hnew, -⟩ := Thick.new_qinv l (satAsI32 w) .none
  unfold extents at hr
  rw [hnew] at hr
  simp only [Option.bind_eq_bind, Option.bind_some] at hr
  unfold Thick.extents
  rw [hnew]
  dsimp only
  cases hl : extentsLoop (2 * w + 4) iter (l.start, .normal) (l.start, .normal) with
  | none => rw [hl] at hr; simp at hr
  | some lr => exact ⟨_, rfl⟩

/-- `styled_bounding_box` of a stroked line is total. -/
theorem thick_styledBoundingBox_total (l : Line) (w : Nat) : ∃ r, Thick.styledBoundingBox l w = some r := by
  obtain ⟨⟨a, b⟩, h⟩ := thick_extents_total l w
  unfold Thick.styledBoundingBox
  rw [h]
  exact ⟨_, rfl⟩

/-! ### Joins -/

theorem start_total (s m : Pt) (w : Nat) (off : StrokeOffset) : ∃ j, LineJoin.start s m w off = some j := by
  obtain ⟨⟨a, b⟩, h⟩ := extents_total ⟨s, m⟩ w off
  unfold LineJoin.start
  rw [h]
  exact ⟨_, rfl⟩

theorem stop_total (m e : Pt) (w : Nat) (off : StrokeOffset) : ∃ j, LineJoin.stop m e w off = some j := by
  obtain ⟨⟨a, b⟩, h⟩ := extents_total ⟨m, e⟩ w off
  unfold LineJoin.stop
  rw [h]
  exact ⟨_, rfl⟩

theorem fromPoints_total (s m e : Pt) (w : Nat) (off : StrokeOffset) :
    ∃ j, LineJoin.fromPoints s m e w off = some j := by
  obtain ⟨⟨a, b⟩, h1⟩ := extents_total ⟨s, m⟩ w off
  obtain ⟨⟨c, d⟩, h2⟩ := extents_total ⟨m, e⟩ w off
  unfold LineJoin.fromPoints
  rw [h1, h2]
  exact ⟨_, rfl⟩

end Joins
end EG
