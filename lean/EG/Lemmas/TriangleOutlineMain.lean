/-
  EG.Lemmas.TriangleOutlineMain — part 3 of the one-pixel outline: assembling the closed form and
  the final statement `mem_outline_iff`: the pixels of
  `into_styled(PrimitiveStyle::with_stroke(c, 1)).pixels()` are exactly the pixels of the three edge
  lines `v2 v3`, `v3 v1`, `v1 v2` of the `sorted_clockwise` triangle.
-/
import EG.Lemmas.TriangleOutlineIter
import EG.Lemmas.TriangleTranslate
namespace EG
open Scanline ScanlineIterator

theorem moreRows_all (pend : Int → List Scanline) : ∀ (ys : List Int),
    (∀ y ∈ ys, pend y ≠ []) → moreRows pend ys = ys.flatMap pend := by
  intro ys
  induction ys with
  | nil => intro _; rfl
  | cons y ys ih =>
    intro h
    simp only [moreRows, h y List.mem_cons_self, ↓reduceIte, List.flatMap_cons]
    rw [ih (fun y' hy' => h y' (List.mem_cons_of_mem _ hy'))]

namespace Triangle

theorem vertex_bounds (w : Triangle) (i : Nat) :
    xMin w ≤ (w.vertex i).x ∧ (w.vertex i).x ≤ xMax w ∧
    yMin w ≤ (w.vertex i).y ∧ (w.vertex i).y ≤ yMax w := by
  unfold vertex xMin xMax yMin yMax
  split <;> refine ⟨?_, ?_, ?_, ?_⟩ <;> omega

/-- Every pixel of an outline line lies within the extreme coordinates of the vertices. -/
theorem outlineLine_pixel_bounds (w : Triangle) (i : Nat) {q : Pt}
    (hq : q ∈ Line.points (outlineLine w i)) :
    xMin w ≤ q.x ∧ q.x ≤ xMax w ∧ yMin w ≤ q.y ∧ q.y ≤ yMax w := by
  obtain ⟨k, hk, rfl⟩ := Line.mem_points.mp hq
  have hb := Line.ptAt_in_box (outlineLine w i) k hk
  have v1 := vertex_bounds w (i + 1)
  have v2 := vertex_bounds w (i + 2)
  have e1 : (outlineLine w i).start = w.vertex (i + 1) := rfl
  have e2 : (outlineLine w i).stop = w.vertex (i + 2) := rfl
  rw [e1, e2] at hb
  refine ⟨?_, ?_, ?_, ?_⟩ <;> omega

/-- Every row between the extreme vertices has a piece. -/
theorem outlinePend_ne_nil (w : Triangle) (y : Int) (h1 : yMin w ≤ y) (h2 : y ≤ yMax w) :
    outlinePend w y ≠ [] := by
  unfold yMin at h1
  unfold yMax at h2
  have hspan : (min w.v2.y w.v3.y ≤ y ∧ y ≤ max w.v2.y w.v3.y) ∨
      (min w.v3.y w.v1.y ≤ y ∧ y ≤ max w.v3.y w.v1.y) ∨
      (min w.v1.y w.v2.y ≤ y ∧ y ≤ max w.v1.y w.v2.y) := by omega
  have key : ∀ (l : Line), (∀ x, (⟨x, y⟩ : Pt) ∈ Line.points l →
        ((⟨x, y⟩ : Pt) ∈ Line.points (outlineLine w 0) ∨ (⟨x, y⟩ : Pt) ∈ Line.points (outlineLine w 1) ∨
          (⟨x, y⟩ : Pt) ∈ Line.points (outlineLine w 2))) →
      (min l.start.y l.stop.y ≤ y ∧ y ≤ max l.start.y l.stop.y) → outlinePend w y ≠ [] := by
    intro l inj hr
    obtain ⟨q, hq, hy⟩ := Line.exists_point_in_row_any l y hr.1 hr.2
    have hq' : (⟨q.x, y⟩ : Pt) ∈ Line.points l := by rw [← hy, Line.pt_eta]; exact hq
    obtain ⟨p, hp, _⟩ := ((outlinePend_spec w y).2 q.x).mpr (inj q.x hq')
    intro he; rw [he] at hp; cases hp
  rcases hspan with h | h | h
  · exact key (outlineLine w 0) (fun x hx => Or.inl hx) (by rw [outlineLine_0]; exact h)
  · exact key (outlineLine w 1) (fun x hx => Or.inr (Or.inl hx)) (by rw [outlineLine_1]; exact h)
  · exact key (outlineLine w 2) (fun x hx => Or.inr (Or.inr hx)) (by rw [outlineLine_2]; exact h)

/-- A piece lies within the columns of the extreme vertices. -/
theorem outlinePend_piece_bounds (w : Triangle) (y : Int) {p : Scanline} (hp : p ∈ outlinePend w y) :
    p.y = y ∧ xMin w ≤ p.xs ∧ p.xs < p.xe ∧ p.xe ≤ xMax w + 1 := by
  obtain ⟨h1, h2⟩ := outlinePend_spec w y
  obtain ⟨hne, hy⟩ := h1 p hp
  have b : ∀ x, p.Covers x → xMin w ≤ x ∧ x ≤ xMax w := by
    intro x hc
    rcases (h2 x).mp ⟨p, hp, hc⟩ with hm | hm | hm <;>
      have := outlineLine_pixel_bounds w _ hm <;> dsimp only at this <;> omega
  have b1 := b p.xs (by unfold Covers; omega)
  have b2 := b (p.xe - 1) (by unfold Covers; omega)
  exact ⟨hy, b1.1, hne, by omega⟩

theorem outlinePend_length (w : Triangle) (y : Int) : (outlinePend w y).length ≤ 2 := by
  unfold outlinePend EdgeIt.rowPend
  dsimp only
  rw [List.length_append]
  have : ∀ o : Option Scanline, o.toList.length ≤ 1 := by intro o; cases o <;> simp
  have a := this (EdgeIt.next 1 (outlineSeg w y) y ⟨0, Scanline.newEmpty y, Scanline.newEmpty y⟩).1
  have b := this (EdgeIt.next 1 (outlineSeg w y) y
    (EdgeIt.next 1 (outlineSeg w y) y ⟨0, Scanline.newEmpty y, Scanline.newEmpty y⟩).2).1
  omega

/-- The pixels of a row of the outline, in iteration order. -/
def outlineRow (w : Triangle) (y : Int) : List Pt := (outlinePend w y).flatMap Scanline.points

theorem outlineRow_length (w : Triangle) (y : Int) :
    (outlineRow w y).length ≤ 2 * (xMax w + 1 - xMin w).toNat := by
  unfold outlineRow
  have h := length_flatMap_le Scanline.points (xMax w + 1 - xMin w).toNat (outlinePend w y) (by
    intro p hp
    rw [Scanline.points_length]
    have := outlinePend_piece_bounds w y hp
    omega)
  have := outlinePend_length w y
  calc (List.flatMap Scanline.points (outlinePend w y)).length
      ≤ (outlinePend w y).length * (xMax w + 1 - xMin w).toNat := h
    _ ≤ 2 * (xMax w + 1 - xMin w).toNat := Nat.mul_le_mul_right _ this

/-- The `ScanlineIntersections` value before the first `reset_with_new_scanline`. -/
def strokeTemplate (w : Triangle) : ScanlineIntersections :=
  { lines := ScanlineIntersections.empty.lines, triangle := w, strokeWidth := 1, hasFill := false,
    isCollapsed := false }

theorem min_le_max (t : Triangle) : xMin t ≤ xMax t ∧ yMin t ≤ yMax t := by
  unfold xMin xMax yMin yMax; refine ⟨?_, ?_⟩ <;> omega

/-- **The one-pixel outline in closed form**: the rows of the bounding box from top to bottom, each
contributing its one or two pieces. -/
theorem outlinePixels_eq (t : Triangle) (c : Nat) (h : t.boundingBox.InRange) :
    t.outlinePixels c =
      ((rowList t).flatMap (outlineRow t.sortedClockwise)).map (fun p => (p, c)) := by
  obtain ⟨etl, ew, eh⟩ := boundingBox_eq t
  obtain ⟨x1, x2, y1, y2⟩ := extremes_of_mem_orders (sortedClockwise_mem_orders t)
  have hre : t.boundingBox.rowsEnd = yMax t + 1 := by
    rw [Rect.rowsEnd_eq h, etl]; dsimp only; omega
  have hrs : t.boundingBox.tl.y = yMin t := by rw [etl]
  have hmm := min_le_max t
  have hlt : yMin t < yMax t + 1 := by omega
  -- the scanline iterator and its invariant
  let tpl : ScanlineIntersections := strokeTemplate t.sortedClockwise
  have hli : ScanlineIterator.new t 1 false t.boundingBox =
      ⟨yMin t + 1, yMax t + 1, yMin t, tpl.reset (yMin t)⟩ := by
    unfold ScanlineIterator.new
    simp only [hre, hrs, hlt, ↓reduceIte]
    rfl
  obtain ⟨hpend, hie⟩ := ScanlineIntersections.pendOf_generateLines tpl (yMin t) rfl rfl rfl
  have hinv : StrokeInv t.sortedClockwise ⟨yMin t + 1, yMax t + 1, yMin t, tpl.reset (yMin t)⟩ :=
    ⟨rfl, rfl, rfl, rfl, hie⟩
  have hall : ∀ y, yMin t ≤ y → y < yMax t + 1 → outlinePend t.sortedClockwise y ≠ [] := by
    intro y h1 h2
    exact outlinePend_ne_nil _ y (by omega) (by omega)
  have hseen : seenS t.sortedClockwise ⟨yMin t + 1, yMax t + 1, yMin t, tpl.reset (yMin t)⟩ =
      (rowList t).flatMap (outlinePend t.sortedClockwise) := by
    unfold seenS
    dsimp only
    simp only [ScanlineIntersections.reset]
    rw [hpend, moreRows_all _ _ (fun y hy => by
      rw [mem_irange] at hy; exact hall y (by omega) hy.2)]
    unfold rowList
    rw [irange_cons hlt, List.flatMap_cons]
    rfl
  have hne : seenS t.sortedClockwise ⟨yMin t + 1, yMax t + 1, yMin t, tpl.reset (yMin t)⟩ ≠ [] := by
    rw [hseen]
    unfold rowList
    rw [irange_cons hlt, List.flatMap_cons]
    intro he
    exact hall (yMin t) (Int.le_refl _) hlt (List.append_eq_nil_iff.mp he).1
  -- the first scanline is fetched by `new`
  unfold outlinePixels TriPixelsIt.new
  simp only [Option.isSome_none, hli]
  cases hn : (ScanlineIterator.next ⟨yMin t + 1, yMax t + 1, yMin t, tpl.reset (yMin t)⟩) with
  | mk r si' =>
    cases r with
    | none => exact absurd (nextS_none hinv hn) hne
    | some lt =>
      obtain ⟨l, ty⟩ := lt
      obtain ⟨inv', hl, hty, hs⟩ := nextS_some hinv hn
      subst hty
      dsimp only [Option.getD_some]
      rw [TriPixelsIt.toListFuel_eq_take t.sortedClockwise c _ _ ⟨inv', rfl, rfl⟩]
      unfold TriPixelsIt.rest
      dsimp only
      have hflat : l.points ++ (seenS t.sortedClockwise si').flatMap Scanline.points =
          (rowList t).flatMap (outlineRow t.sortedClockwise) := by
        have : l.points ++ (seenS t.sortedClockwise si').flatMap Scanline.points =
            (l :: seenS t.sortedClockwise si').flatMap Scanline.points := by
          rw [List.flatMap_cons]
        rw [this, ← hs, hseen, List.flatMap_assoc]
        rfl
      rw [hflat]
      apply List.take_of_length_le
      rw [List.length_map]
      have hlen := length_flatMap_le (outlineRow t.sortedClockwise)
        (2 * (xMax t + 1 - xMin t).toNat) (rowList t) (by
          intro y _
          have := outlineRow_length t.sortedClockwise y
          rw [x1, x2] at this
          exact this)
      unfold rowList at hlen ⊢
      rw [irange_length] at hlen
      have e1 : (yMax t + 1 - yMin t).toNat = t.boundingBox.size.h := by omega
      have e2 : (xMax t + 1 - xMin t).toNat = t.boundingBox.size.w := by omega
      rw [e1, e2] at hlen
      calc _ ≤ t.boundingBox.size.h * (2 * t.boundingBox.size.w) := hlen
        _ = 2 * t.boundingBox.size.w * t.boundingBox.size.h := by
          rw [Nat.mul_comm]
        _ ≤ 2 * t.boundingBox.size.w * t.boundingBox.size.h + 1 := Nat.le_succ _

/-- **A one-pixel triangle outline consists of its three edge lines**: a point is a pixel of
`into_styled(PrimitiveStyle::with_stroke(c, 1)).pixels()` iff it is a pixel of `Line(v2, v3)`,
`Line(v3, v1)` or `Line(v1, v2)` of the `sorted_clockwise` triangle. -/
theorem mem_outline_iff (t : Triangle) (c : Nat) (h : t.boundingBox.InRange) (p : Pt) :
    p ∈ (t.outlinePixels c).map (·.1) ↔
      (p ∈ Line.points ⟨t.sortedClockwise.v2, t.sortedClockwise.v3⟩ ∨
       p ∈ Line.points ⟨t.sortedClockwise.v3, t.sortedClockwise.v1⟩ ∨
       p ∈ Line.points ⟨t.sortedClockwise.v1, t.sortedClockwise.v2⟩) := by
  obtain ⟨x1, x2, y1, y2⟩ := extremes_of_mem_orders (sortedClockwise_mem_orders t)
  rw [outlinePixels_eq t c h, List.map_map]
  have : ((fun x : Pt × Nat => x.1) ∘ fun p : Pt => (p, c)) = id := by funext q; rfl
  rw [this, List.map_id]
  generalize t.sortedClockwise = w at *
  rw [← outlineLine_0, ← outlineLine_1, ← outlineLine_2]
  unfold rowList outlineRow
  simp only [List.mem_flatMap, mem_irange, Scanline.mem_points]
  constructor
  · rintro ⟨y, _, piece, hpiece, hy, hx1, hx2⟩
    obtain ⟨ey, _⟩ := outlinePend_piece_bounds w y hpiece
    have := ((outlinePend_spec w y).2 p.x).mp ⟨piece, hpiece, ⟨hx1, hx2⟩⟩
    rw [← ey, ← hy, Line.pt_eta] at this
    exact this
  · intro hm
    have hb : yMin w ≤ p.y ∧ p.y ≤ yMax w := by
      rcases hm with hm | hm | hm <;> have := outlineLine_pixel_bounds w _ hm <;> omega
    rw [← Line.pt_eta p] at hm
    obtain ⟨piece, hpiece, hc⟩ := ((outlinePend_spec w p.y).2 p.x).mpr hm
    obtain ⟨ey, _⟩ := outlinePend_piece_bounds w p.y hpiece
    exact ⟨p.y, ⟨by omega, by omega⟩, piece, hpiece, ey.symm, hc.1, hc.2⟩


theorem mem_line_points_translate (a b d p : Pt) :
    p + d ∈ Line.points ⟨a + d, b + d⟩ ↔ p ∈ Line.points ⟨a, b⟩ := by
  have e : Line.points ⟨a + d, b + d⟩ = (Line.points ⟨a, b⟩).map (· + d) :=
    Line.points_translate ⟨a, b⟩ d
  rw [e, List.mem_map]
  constructor
  · rintro ⟨q, hq, he⟩
    rw [Pt.add_right_cancel'.mp he] at hq
    exact hq
  · intro h; exact ⟨p, h, rfl⟩

/-- The pixel set of the one-pixel outline moves with the triangle. -/
theorem mem_outline_translate (t : Triangle) (c : Nat) (d p : Pt) (h1 : t.boundingBox.InRange)
    (h2 : (t.translate d).boundingBox.InRange) :
    p + d ∈ ((t.translate d).outlinePixels c).map (·.1) ↔ p ∈ (t.outlinePixels c).map (·.1) := by
  rw [mem_outline_iff _ c h2, mem_outline_iff _ c h1, sortedClockwise_translate]
  unfold translate
  dsimp only
  rw [mem_line_points_translate, mem_line_points_translate, mem_line_points_translate]

end Triangle
end EG
