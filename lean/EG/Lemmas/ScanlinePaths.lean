/-
  EG.Lemmas.ScanlinePaths — the two renderers of scanline-based styled shapes, generically:
  * the `fill_solid` rectangle of a scanline lowers (natively and through the trait defaults) to the
    scanline's coloured points,
  * hence the draw path of a list of styled scanlines writes exactly `pixelsSpec`,
  * the `StyledPixelsIterator` state machine yields exactly `pixelsSpec`,
  * membership in `pixelsSpec`, and the pixel map of a write list in which every point has one
    colour.
-/
import EG.Lemmas.Scanline
namespace EG

/-! ### pixel maps of "functional" write lists -/
namespace Scan

/-- One write (the step function of `PMap.apply`). -/
def pset (m : PMap) (w : Pt × Color) : PMap := fun q => if q = w.1 then some w.2 else m q

theorem pset_eq (m : PMap) (w : Pt × Color) (q : Pt) :
    pset m w q = if q = w.1 then some w.2 else m q := rfl

theorem apply_cons (m : PMap) (w : Pt × Color) (ws : Writes) :
    m.apply (w :: ws) = PMap.apply (pset m w) ws := rfl

theorem flatMap_congr' {α β : Type} {f g : α → List β} : ∀ (l : List α), (∀ a ∈ l, f a = g a) →
    l.flatMap f = l.flatMap g := by
  intro l
  induction l with
  | nil => intro _; rfl
  | cons a l ih =>
    intro h
    simp only [List.flatMap_cons]
    rw [h a List.mem_cons_self, ih (fun b hb => h b (List.mem_cons_of_mem _ hb))]

theorem apply_untouched (ws : Writes) : ∀ (m : PMap) (p : Pt), (∀ c, (p, c) ∉ ws) →
    (m.apply ws) p = m p := by
  induction ws with
  | nil => intro m p _; rfl
  | cons w ws ih =>
    intro m p h
    rw [apply_cons, ih (pset m w) p (fun c hc => h c (List.mem_cons_of_mem _ hc)), pset_eq]
    have hne : p ≠ w.1 := by
      intro hc
      exact h w.2 (by rw [hc]; exact List.mem_cons_self)
    simp [hne]

theorem apply_functional (ws : Writes) : ∀ (m : PMap) (p : Pt) (c : Color), (p, c) ∈ ws →
    (∀ c', (p, c') ∈ ws → c' = c) → (m.apply ws) p = some c := by
  induction ws with
  | nil => intro m p c h _; cases h
  | cons w ws ih =>
    intro m p c hmem hfun
    rw [apply_cons]
    by_cases hin : (p, c) ∈ ws
    · exact ih _ p c hin (fun c' hc' => hfun c' (List.mem_cons_of_mem _ hc'))
    · have hw : w = (p, c) := by
        rcases List.mem_cons.mp hmem with h | h
        · exact h.symm
        · exact absurd h hin
      have hno : ∀ c', (p, c') ∉ ws := by
        intro c' hc'
        have := hfun c' (List.mem_cons_of_mem _ hc')
        subst this; exact hin hc'
      rw [apply_untouched ws (pset m w) p hno, pset_eq, hw]
      simp

/-- The pixel map of a write list whose membership is described by a partial function `e`. -/
theorem apply_eq_of_mem_iff (ws : Writes) (e : Pt → Option Color)
    (h : ∀ p c, (p, c) ∈ ws ↔ e p = some c) (p : Pt) : (PMap.empty.apply ws) p = e p := by
  cases he : e p with
  | none =>
    rw [apply_untouched ws PMap.empty p (by intro c hc; rw [h, he] at hc; cases hc)]
    rfl
  | some c =>
    exact apply_functional ws PMap.empty p c ((h p c).mpr he)
      (by intro c' hc'; rw [h, he] at hc'; cases hc'; rfl)

theorem mem_clipWrites {B : Rect} {ws : Writes} {w : Pt × Color} :
    w ∈ clipWrites B ws ↔ w ∈ ws ∧ B.contains w.1 = true := by
  unfold clipWrites; rw [List.mem_filter]

theorem zip_replicate {α β : Type} (l : List α) (c : β) :
    l.zip (List.replicate l.length c) = l.map (fun a => (a, c)) := by
  induction l with
  | nil => rfl
  | cons a l ih => simp only [List.length_cons, List.replicate_succ, List.zip_cons_cons, List.map_cons, ih]

/-- For `fill_solid` the trait default (`R1`) and the native meaning (`R2`) write the same. -/
theorem lowerDefault_fillSolid (B a : Rect) (c : Color) :
    Call.lowerDefault B (.fillSolid a c) = Call.lowerNative B (.fillSolid a c) := by
  unfold Call.lowerDefault Call.lowerNative
  simp only
  rw [zip_replicate, Rect.points_eq_spec]

end Scan

/-! ### a scanline's `fill_solid` rectangle -/

/-- The scanline's rectangle does not saturate / overflow `i32` (true of every scanline inside an
`i32` bounding box that does not touch `i32::MAX`). -/
def Scanline.WF (s : Scanline) : Prop :=
  (⟨⟨s.xs, s.y⟩, ⟨(s.xe - s.xs).toNat, 1⟩⟩ : Rect).InRange
instance (s : Scanline) : Decidable s.WF := by unfold Scanline.WF; exact inferInstance

def StyledScanline.WF (l : StyledScanline) : Prop := l.strokeLeft.WF ∧ l.fill.WF ∧ l.strokeRight.WF
instance (l : StyledScanline) : Decidable l.WF := by unfold StyledScanline.WF; exact inferInstance

theorem Scanline.draw_lowerNative (s : Scanline) (h : s.WF) (B : Rect) (c : Color) :
    (s.draw c).flatMap (Call.lowerNative B) = s.points.map (fun p => (p, c)) := by
  unfold Scanline.draw Scanline.isEmpty
  by_cases hx : s.xs < s.xe
  · simp only [hx, decide_true, Bool.not_true, Bool.false_eq_true, ↓reduceIte, List.flatMap_cons,
      List.flatMap_nil, List.append_nil]
    unfold Call.lowerNative
    simp only
    congr 1
    unfold Rect.pointsSpec
    have hz : (⟨⟨s.xs, s.y⟩, ⟨(s.xe - s.xs).toNat, 1⟩⟩ : Rect).isZeroSized = false := by
      simp only [Rect.isZeroSized, Bool.or_eq_false_iff, beq_eq_false_iff_ne]
      omega
    rw [hz]
    simp only [Bool.false_eq_true, ↓reduceIte]
    have hr := Rect.rowsEnd_eq h
    have hc := Rect.columnsEnd_eq h
    unfold Rect.rowsEnd at hr; unfold Rect.columnsEnd at hc
    simp only [Rect.rows, Rect.columns, hr, hc]
    have e1 : s.y + ((1 : Nat) : Int) = s.y + 1 := by omega
    have e2 : s.xs + (((s.xe - s.xs).toNat : Nat) : Int) = s.xe := by omega
    rw [e1, e2, irange_cons (a := s.y) (b := s.y + 1) (by omega),
      irange_empty (a := s.y + 1) (b := s.y + 1) (by omega)]
    simp [Scanline.points]
  · simp only [hx, decide_false, Bool.not_false, ↓reduceIte, List.flatMap_nil]
    rw [Scanline.points_empty hx]; rfl

/-- Every call of `Scanline::draw` is a `fill_solid`. -/
theorem Scanline.draw_fillSolid (s : Scanline) (c : Color) :
    ∀ call ∈ s.draw c, ∃ a, call = Call.fillSolid a c := by
  unfold Scanline.draw
  split
  · intro call h; cases h
  · intro call h
    simp only [List.mem_singleton] at h
    exact ⟨_, h⟩

theorem Scanline.draw_lowerDefault (s : Scanline) (B : Rect) (c : Color) :
    (s.draw c).flatMap (Call.lowerDefault B) = (s.draw c).flatMap (Call.lowerNative B) := by
  apply Scan.flatMap_congr' _
  intro call hc
  obtain ⟨a, rfl⟩ := s.draw_fillSolid c call hc
  exact Scan.lowerDefault_fillSolid B a c

/-! ### the draw path writes `pixelsSpec` -/

theorem StyledScanline.drawStroke_lower (l : StyledScanline) (h : l.WF) (B : Rect) (sc : Color) :
    (l.drawStroke sc).flatMap (Call.lowerNative B) = l.pixelsSpec (some sc) none := by
  unfold StyledScanline.drawStroke StyledScanline.pixelsSpec
  rw [List.flatMap_append, Scanline.draw_lowerNative _ h.1, Scanline.draw_lowerNative _ h.2.2]

theorem StyledScanline.drawStrokeAndFill_lower (l : StyledScanline) (h : l.WF) (B : Rect) (sc fc : Color) :
    (l.drawStrokeAndFill sc fc).flatMap (Call.lowerNative B) = l.pixelsSpec (some sc) (some fc) := by
  unfold StyledScanline.drawStrokeAndFill StyledScanline.pixelsSpec
  rw [List.flatMap_append, List.flatMap_append, Scanline.draw_lowerNative _ h.1,
    Scanline.draw_lowerNative _ h.2.1, Scanline.draw_lowerNative _ h.2.2]

theorem flatMap_flatMap' {α β γ : Type} (l : List α) (f : α → List β) (g : β → List γ) :
    (l.flatMap f).flatMap g = l.flatMap (fun a => (f a).flatMap g) := by
  induction l with
  | nil => rfl
  | cons a l ih => simp only [List.flatMap_cons, List.flatMap_append, ih]

/-- **Draw path = `pixelsSpec` (native lowering).** For every list of styled scanlines the writes
of the `fill_solid` rectangles are, as a list, the coloured points of the scanlines in order. -/
theorem drawLines_lowerNative (sc : Color) (fc : Option Color) (lines : List StyledScanline)
    (h : ∀ l ∈ lines, l.WF) (B : Rect) :
    (drawLines sc fc lines).flatMap (Call.lowerNative B) = pixelsSpec (some sc) fc lines := by
  unfold drawLines pixelsSpec
  cases fc with
  | none =>
    simp only
    rw [flatMap_flatMap']
    exact Scan.flatMap_congr' _ (fun l hl => l.drawStroke_lower (h l hl) B sc)
  | some fc =>
    simp only
    rw [flatMap_flatMap']
    exact Scan.flatMap_congr' _ (fun l hl => l.drawStrokeAndFill_lower (h l hl) B sc fc)

theorem drawLines_lowerDefault (sc : Color) (fc : Option Color) (lines : List StyledScanline) (B : Rect) :
    (drawLines sc fc lines).flatMap (Call.lowerDefault B) =
      (drawLines sc fc lines).flatMap (Call.lowerNative B) := by
  unfold drawLines
  cases fc with
  | none =>
    simp only
    rw [flatMap_flatMap', flatMap_flatMap']
    apply Scan.flatMap_congr' _
    intro l _
    unfold StyledScanline.drawStroke
    rw [List.flatMap_append, List.flatMap_append, Scanline.draw_lowerDefault, Scanline.draw_lowerDefault]
  | some fc =>
    simp only
    rw [flatMap_flatMap', flatMap_flatMap']
    apply Scan.flatMap_congr' _
    intro l _
    unfold StyledScanline.drawStrokeAndFill
    rw [List.flatMap_append, List.flatMap_append, List.flatMap_append, List.flatMap_append,
      Scanline.draw_lowerDefault, Scanline.draw_lowerDefault, Scanline.draw_lowerDefault]

theorem drawFillLines_lowerNative (fc : Color) (lines : List Scanline) (h : ∀ l ∈ lines, l.WF) (B : Rect) :
    (drawFillLines fc lines).flatMap (Call.lowerNative B) =
      lines.flatMap (fun l => l.points.map (fun p => (p, fc))) := by
  unfold drawFillLines
  rw [flatMap_flatMap']
  exact Scan.flatMap_congr' _ (fun l hl => l.draw_lowerNative (h l hl) B fc)

theorem drawFillLines_lowerDefault (fc : Color) (lines : List Scanline) (B : Rect) :
    (drawFillLines fc lines).flatMap (Call.lowerDefault B) =
      (drawFillLines fc lines).flatMap (Call.lowerNative B) := by
  unfold drawFillLines
  rw [flatMap_flatMap', flatMap_flatMap']
  exact Scan.flatMap_congr' _ (fun l _ => l.draw_lowerDefault B fc)

/-- `writes* B` of a call list is the clipped lowering. -/
theorem flatMap_writesNative (B : Rect) (calls : List Call) :
    calls.flatMap (Call.writesNative B) = clipWrites B (calls.flatMap (Call.lowerNative B)) := by
  unfold clipWrites Call.writesNative clipWrites
  induction calls with
  | nil => rfl
  | cons a l ih => simp only [List.flatMap_cons, List.filter_append, ih]

theorem flatMap_writesDefault (B : Rect) (calls : List Call) :
    calls.flatMap (Call.writesDefault B) = clipWrites B (calls.flatMap (Call.lowerDefault B)) := by
  unfold clipWrites Call.writesDefault clipWrites
  induction calls with
  | nil => rfl
  | cons a l ih => simp only [List.flatMap_cons, List.filter_append, ih]

/-! ### the pixels path yields `pixelsSpec` -/

namespace StyledPixelsIt

/-- What the scanlines currently held by the iterator still yield. -/
def curSpec (it : StyledPixelsIt) : Writes :=
  match it.strokeColor, it.fillColor with
  | some sc, none =>
    it.strokeLeft.points.map (fun p => (p, sc)) ++ it.strokeRight.points.map (fun p => (p, sc))
  | some sc, some fc =>
    it.strokeLeft.points.map (fun p => (p, sc)) ++ it.fill.points.map (fun p => (p, fc)) ++
      it.strokeRight.points.map (fun p => (p, sc))
  | none, some fc => it.fill.points.map (fun p => (p, fc))
  | none, none => []

/-- Closed form of what the iterator state still has to yield. -/
def rest (it : StyledPixelsIt) : Writes :=
  it.curSpec ++ pixelsSpec it.strokeColor it.fillColor it.src

theorem loopStroke_spec (sc : Color) : ∀ (src : List StyledScanline) (sl f sr : Scanline),
    match loopStroke sc src sl f sr with
    | some (w, it') => rest ⟨src, sl, f, sr, some sc, none⟩ = w :: it'.rest
    | none => rest ⟨src, sl, f, sr, some sc, none⟩ = [] := by
  intro src
  induction src with
  | nil =>
    intro sl f sr
    unfold loopStroke Scanline.next
    by_cases h1 : sl.xs < sl.xe
    · simp only [h1, ↓reduceIte, rest, curSpec]
      rw [Scanline.points_cons h1]; rfl
    · by_cases h2 : sr.xs < sr.xe
      · simp only [h1, h2, ↓reduceIte, rest, curSpec]
        rw [Scanline.points_empty h1, Scanline.points_cons h2]; rfl
      · simp only [h1, h2, ↓reduceIte, rest, curSpec]
        rw [Scanline.points_empty h1, Scanline.points_empty h2]; rfl
  | cons l src ih =>
    intro sl f sr
    unfold loopStroke Scanline.next
    by_cases h1 : sl.xs < sl.xe
    · simp only [h1, ↓reduceIte, rest, curSpec]
      rw [Scanline.points_cons h1]; rfl
    · by_cases h2 : sr.xs < sr.xe
      · simp only [h1, h2, ↓reduceIte, rest, curSpec]
        rw [Scanline.points_empty h1, Scanline.points_cons h2]; rfl
      · simp only [h1, h2, ↓reduceIte]
        have := ih l.strokeLeft f l.strokeRight
        have e : rest ⟨l :: src, sl, f, sr, some sc, none⟩ =
            rest ⟨src, l.strokeLeft, f, l.strokeRight, some sc, none⟩ := by
          simp only [rest, curSpec, pixelsSpec, List.flatMap_cons, StyledScanline.pixelsSpec]
          rw [Scanline.points_empty h1, Scanline.points_empty h2]
          simp
        rw [e]; exact this

theorem loopBoth_spec (sc fc : Color) : ∀ (src : List StyledScanline) (sl f sr : Scanline),
    match loopBoth sc fc src sl f sr with
    | some (w, it') => rest ⟨src, sl, f, sr, some sc, some fc⟩ = w :: it'.rest
    | none => rest ⟨src, sl, f, sr, some sc, some fc⟩ = [] := by
  intro src
  induction src with
  | nil =>
    intro sl f sr
    unfold loopBoth Scanline.next
    by_cases h1 : sl.xs < sl.xe
    · simp only [h1, ↓reduceIte, rest, curSpec]
      rw [Scanline.points_cons h1]; rfl
    · by_cases h3 : f.xs < f.xe
      · simp only [h1, h3, ↓reduceIte, rest, curSpec]
        rw [Scanline.points_empty h1, Scanline.points_cons h3]; rfl
      · by_cases h2 : sr.xs < sr.xe
        · simp only [h1, h2, h3, ↓reduceIte, rest, curSpec]
          rw [Scanline.points_empty h1, Scanline.points_empty h3, Scanline.points_cons h2]; rfl
        · simp only [h1, h2, h3, ↓reduceIte, rest, curSpec]
          rw [Scanline.points_empty h1, Scanline.points_empty h2, Scanline.points_empty h3]; rfl
  | cons l src ih =>
    intro sl f sr
    unfold loopBoth Scanline.next
    by_cases h1 : sl.xs < sl.xe
    · simp only [h1, ↓reduceIte, rest, curSpec]
      rw [Scanline.points_cons h1]; rfl
    · by_cases h3 : f.xs < f.xe
      · simp only [h1, h3, ↓reduceIte, rest, curSpec]
        rw [Scanline.points_empty h1, Scanline.points_cons h3]; rfl
      · by_cases h2 : sr.xs < sr.xe
        · simp only [h1, h2, h3, ↓reduceIte, rest, curSpec]
          rw [Scanline.points_empty h1, Scanline.points_empty h3, Scanline.points_cons h2]; rfl
        · simp only [h1, h2, h3, ↓reduceIte]
          have := ih l.strokeLeft l.fill l.strokeRight
          have e : rest ⟨l :: src, sl, f, sr, some sc, some fc⟩ =
              rest ⟨src, l.strokeLeft, l.fill, l.strokeRight, some sc, some fc⟩ := by
            simp only [rest, curSpec, pixelsSpec, List.flatMap_cons, StyledScanline.pixelsSpec]
            rw [Scanline.points_empty h1, Scanline.points_empty h2, Scanline.points_empty h3]
            simp
          rw [e]; exact this

theorem loopFill_spec (fc : Color) : ∀ (src : List StyledScanline) (sl f sr : Scanline),
    match loopFill fc src sl f sr with
    | some (w, it') => rest ⟨src, sl, f, sr, none, some fc⟩ = w :: it'.rest
    | none => rest ⟨src, sl, f, sr, none, some fc⟩ = [] := by
  intro src
  induction src with
  | nil =>
    intro sl f sr
    unfold loopFill Scanline.next
    by_cases h3 : f.xs < f.xe
    · simp only [h3, ↓reduceIte, rest, curSpec]
      rw [Scanline.points_cons h3]; rfl
    · simp only [h3, ↓reduceIte, rest, curSpec]
      rw [Scanline.points_empty h3]; rfl
  | cons l src ih =>
    intro sl f sr
    unfold loopFill Scanline.next
    by_cases h3 : f.xs < f.xe
    · simp only [h3, ↓reduceIte, rest, curSpec]
      rw [Scanline.points_cons h3]; rfl
    · simp only [h3, ↓reduceIte]
      have := ih sl l.fill sr
      have e : rest ⟨l :: src, sl, f, sr, none, some fc⟩ = rest ⟨src, sl, l.fill, sr, none, some fc⟩ := by
        simp only [rest, curSpec, pixelsSpec, List.flatMap_cons, StyledScanline.pixelsSpec]
        rw [Scanline.points_empty h3]
        simp
      rw [e]; exact this

theorem next_spec (it : StyledPixelsIt) :
    match it.next with
    | some (w, it') => it.rest = w :: it'.rest
    | none => it.rest = [] := by
  obtain ⟨src, sl, f, sr, scol, fcol⟩ := it
  unfold next
  cases scol with
  | none =>
    cases fcol with
    | none => simp [rest, curSpec, pixelsSpec, StyledScanline.pixelsSpec]
    | some fc => exact loopFill_spec fc src sl f sr
  | some sc =>
    cases fcol with
    | none => exact loopStroke_spec sc src sl f sr
    | some fc => exact loopBoth_spec sc fc src sl f sr

theorem toListFuel_eq : ∀ (fuel : Nat) (it : StyledPixelsIt), it.rest.length < fuel →
    it.toListFuel fuel = it.rest := by
  intro fuel
  induction fuel with
  | zero => intro it h; omega
  | succ fuel ih =>
    intro it h
    unfold toListFuel
    have := it.next_spec
    split <;> rename_i heq <;> rw [heq] at this <;> simp only at this
    · rw [this] at h ⊢
      rw [ih _ (by simpa using h)]
    · exact this.symm

theorem pixelsSpec_line_length (scol fcol : Option Color) (l : StyledScanline) :
    (l.pixelsSpec scol fcol).length ≤ lenOf l.strokeLeft + lenOf l.fill + lenOf l.strokeRight := by
  unfold StyledScanline.pixelsSpec lenOf
  cases scol <;> cases fcol <;>
    simp only [List.length_append, List.length_map, Scanline.points_length, List.length_nil] <;> omega

theorem pixelsSpec_length (scol fcol : Option Color) (lines : List StyledScanline) :
    (pixelsSpec scol fcol lines).length ≤
      (lines.map (fun l => lenOf l.strokeLeft + lenOf l.fill + lenOf l.strokeRight)).sum := by
  induction lines with
  | nil => simp [pixelsSpec]
  | cons l lines ih =>
    have := pixelsSpec_line_length scol fcol l
    unfold pixelsSpec at ih ⊢
    simp only [List.flatMap_cons, List.length_append, List.map_cons, List.sum_cons]
    omega

theorem rest_length_le (it : StyledPixelsIt) : it.rest.length ≤ it.budget := by
  unfold rest budget
  rw [List.length_append]
  have h1 := pixelsSpec_length it.strokeColor it.fillColor it.src
  have h2 : it.curSpec.length ≤ lenOf it.strokeLeft + lenOf it.fill + lenOf it.strokeRight := by
    unfold curSpec lenOf
    cases it.strokeColor <;> cases it.fillColor <;>
      simp only [List.length_append, List.length_map, Scanline.points_length, List.length_nil] <;> omega
  omega

/-- **Pixels path = `pixelsSpec`.** What a `for` loop over the `StyledPixelsIterator` sees. -/
theorem toList_new (lines : List StyledScanline) (scol fcol : Option Color) :
    (StyledPixelsIt.new lines scol fcol).toList = pixelsSpec scol fcol lines := by
  unfold toList
  rw [toListFuel_eq _ _ (by have := rest_length_le (StyledPixelsIt.new lines scol fcol); omega)]
  unfold rest new curSpec
  simp only [Scanline.newEmpty]
  rw [Scanline.points_empty (s := ⟨0, 0, 0⟩) (by simp)]
  cases scol <;> cases fcol <;> simp

end StyledPixelsIt

/-! ### membership in `pixelsSpec` -/

theorem StyledScanline.mem_pixelsSpec {scol fcol : Option Color} {l : StyledScanline} {p : Pt} {col : Color} :
    (p, col) ∈ l.pixelsSpec scol fcol ↔
      p.y = l.y ∧ ((scol = some col ∧ (l.ss ≤ p.x ∧ p.x < l.fs ∨ l.fe ≤ p.x ∧ p.x < l.se)) ∨
        (fcol = some col ∧ l.fs ≤ p.x ∧ p.x < l.fe)) := by
  have hm : ∀ (s : Scanline) (c : Color), (p, col) ∈ s.points.map (fun q => (q, c)) ↔
      (c = col ∧ p.y = s.y ∧ s.xs ≤ p.x ∧ p.x < s.xe) := by
    intro s c
    simp only [List.mem_map, Prod.mk.injEq]
    constructor
    · rintro ⟨q, hq, rfl, rfl⟩; exact ⟨rfl, Scanline.mem_points.mp hq⟩
    · rintro ⟨rfl, h⟩; exact ⟨p, Scanline.mem_points.mpr h, rfl, rfl⟩
  unfold StyledScanline.pixelsSpec
  cases scol with
  | none =>
    cases fcol with
    | none => simp
    | some fc =>
      simp only [hm, StyledScanline.fill]
      constructor
      · rintro ⟨rfl, h1, h2⟩; exact ⟨h1, Or.inr ⟨rfl, h2⟩⟩
      · rintro ⟨h1, h | h⟩
        · cases h.1
        · exact ⟨by cases h.1; rfl, h1, h.2⟩
  | some sc =>
    cases fcol with
    | none =>
      simp only [List.mem_append, hm, StyledScanline.strokeLeft, StyledScanline.strokeRight]
      constructor
      · rintro (⟨rfl, h1, h2⟩ | ⟨rfl, h1, h2⟩)
        · exact ⟨h1, Or.inl ⟨rfl, Or.inl h2⟩⟩
        · exact ⟨h1, Or.inl ⟨rfl, Or.inr h2⟩⟩
      · rintro ⟨h1, h | h⟩
        · obtain ⟨hc, h | h⟩ := h
          · left; exact ⟨by cases hc; rfl, h1, h⟩
          · right; exact ⟨by cases hc; rfl, h1, h⟩
        · cases h.1
    | some fc =>
      simp only [List.mem_append, hm, StyledScanline.strokeLeft, StyledScanline.strokeRight,
        StyledScanline.fill]
      constructor
      · rintro ((⟨rfl, h1, h2⟩ | ⟨rfl, h1, h2⟩) | ⟨rfl, h1, h2⟩)
        · exact ⟨h1, Or.inl ⟨rfl, Or.inl h2⟩⟩
        · exact ⟨h1, Or.inr ⟨rfl, h2⟩⟩
        · exact ⟨h1, Or.inl ⟨rfl, Or.inr h2⟩⟩
      · rintro ⟨h1, h | h⟩
        · obtain ⟨hc, h | h⟩ := h
          · left; left; exact ⟨by cases hc; rfl, h1, h⟩
          · right; exact ⟨by cases hc; rfl, h1, h⟩
        · left; right; exact ⟨by cases h.1; rfl, h1, h.2⟩

theorem mem_pixelsSpec {scol fcol : Option Color} {lines : List StyledScanline} {w : Pt × Color} :
    w ∈ pixelsSpec scol fcol lines ↔ ∃ l ∈ lines, w ∈ l.pixelsSpec scol fcol := by
  unfold pixelsSpec; rw [List.mem_flatMap]

end EG
