/-
  EG.Lemmas.Triangle — vertex-order facts about the triangle model:
  the sorting network `sorted_yx` is canonical (all six vertex orders sort to the same triple),
  the bounding box and the vanishing of `area_doubled` do not depend on the order, and therefore
  neither do the edge lines nor `scanline_intersection`.
-/
import EG.Lemmas.TriangleArith
namespace EG
namespace Triangle

/-- The six vertex orders of a triangle. -/
def orders (t : Triangle) : List Triangle :=
  [⟨t.v1, t.v2, t.v3⟩, ⟨t.v1, t.v3, t.v2⟩, ⟨t.v2, t.v1, t.v3⟩,
   ⟨t.v2, t.v3, t.v1⟩, ⟨t.v3, t.v1, t.v2⟩, ⟨t.v3, t.v2, t.v1⟩]

theorem mem_orders {t t' : Triangle} : t' ∈ orders t ↔
    t' = ⟨t.v1, t.v2, t.v3⟩ ∨ t' = ⟨t.v1, t.v3, t.v2⟩ ∨ t' = ⟨t.v2, t.v1, t.v3⟩ ∨
    t' = ⟨t.v2, t.v3, t.v1⟩ ∨ t' = ⟨t.v3, t.v1, t.v2⟩ ∨ t' = ⟨t.v3, t.v2, t.v1⟩ := by
  simp [orders]

/-! ## `sorted_yx` -/

theorem sortedYx_swap12 (a b c : Pt) : sortedYx ⟨b, a, c⟩ = sortedYx ⟨a, b, c⟩ := by
  simp only [sortedYx, sortTwoYx]
  repeat' split
  all_goals try dsimp only at *
  all_goals
    unfold yxLt at *
    rw [Triangle.mk.injEq]
    refine ⟨?_, ?_, ?_⟩ <;> rw [Pt.ext_iff'] <;> constructor <;> omega

theorem sortedYx_swap23 (a b c : Pt) : sortedYx ⟨a, c, b⟩ = sortedYx ⟨a, b, c⟩ := by
  simp only [sortedYx, sortTwoYx]
  repeat' split
  all_goals try dsimp only at *
  all_goals
    unfold yxLt at *
    rw [Triangle.mk.injEq]
    refine ⟨?_, ?_, ?_⟩ <;> rw [Pt.ext_iff'] <;> constructor <;> omega

/-- All six vertex orders sort to the same triple. -/
theorem sortedYx_of_mem_orders {t t' : Triangle} (h : t' ∈ orders t) : sortedYx t' = sortedYx t := by
  obtain ⟨a, b, c⟩ := t
  rcases mem_orders.mp h with rfl | rfl | rfl | rfl | rfl | rfl <;> dsimp only
  · exact sortedYx_swap23 a b c
  · exact sortedYx_swap12 a b c
  · rw [sortedYx_swap23 b a c, sortedYx_swap12 a b c]
  · rw [sortedYx_swap12 a c b, sortedYx_swap23 a b c]
  · rw [sortedYx_swap12 b c a, sortedYx_swap23 b a c, sortedYx_swap12 a b c]


/-- Pick the matching one of the six arrangements. -/
macro "pick_order" : tactic =>
  `(tactic| first
    | exact Or.inl rfl
    | exact Or.inr (Or.inl rfl)
    | exact Or.inr (Or.inr (Or.inl rfl))
    | exact Or.inr (Or.inr (Or.inr (Or.inl rfl)))
    | exact Or.inr (Or.inr (Or.inr (Or.inr (Or.inl rfl))))
    | exact Or.inr (Or.inr (Or.inr (Or.inr (Or.inr rfl)))))

/-- `sorted_yx` returns one of the six arrangements of the vertices. -/
theorem sortedYx_mem_orders (t : Triangle) : sortedYx t ∈ orders t := by
  rw [mem_orders]
  simp only [sortedYx, sortTwoYx]
  repeat' split
  all_goals pick_order

theorem self_mem_orders (t : Triangle) : t ∈ orders t := by
  rw [mem_orders]; exact Or.inl rfl

/-- "Is a vertex order of" is symmetric ... -/
theorem mem_orders_symm {t t' : Triangle} (h : t' ∈ orders t) : t ∈ orders t' := by
  obtain ⟨a, b, c⟩ := t
  rcases mem_orders.mp h with rfl | rfl | rfl | rfl | rfl | rfl <;> rw [mem_orders] <;> pick_order

/-- ... and transitive. -/
theorem mem_orders_trans {t t' t'' : Triangle} (h : t' ∈ orders t) (h' : t'' ∈ orders t') :
    t'' ∈ orders t := by
  obtain ⟨a, b, c⟩ := t
  rcases mem_orders.mp h with rfl | rfl | rfl | rfl | rfl | rfl <;>
    rcases mem_orders.mp h' with rfl | rfl | rfl | rfl | rfl | rfl <;>
    rw [mem_orders] <;> pick_order

/-! ## `area_doubled` changes at most its sign -/

theorem areaDoubled_of_mem_orders {t t' : Triangle} (h : t' ∈ orders t) :
    t'.areaDoubled = t.areaDoubled ∨ t'.areaDoubled = -t.areaDoubled := by
  obtain ⟨a, b, c⟩ := t
  rcases mem_orders.mp h with rfl | rfl | rfl | rfl | rfl | rfl <;> dsimp only
  · exact Or.inl rfl
  · exact Or.inr (areaDoubled_swap23 a b c)
  · exact Or.inr (areaDoubled_swap12 a b c)
  · left; rw [areaDoubled_swap23 b a c, areaDoubled_swap12 a b c]; omega
  · left; rw [areaDoubled_swap12 a c b, areaDoubled_swap23 a b c]; omega
  · right; rw [areaDoubled_swap12 b c a, areaDoubled_swap23 b a c, areaDoubled_swap12 a b c]; omega

theorem areaDoubled_eq_zero_iff_of_mem_orders {t t' : Triangle} (h : t' ∈ orders t) :
    t'.areaDoubled = 0 ↔ t.areaDoubled = 0 := by
  rcases areaDoubled_of_mem_orders h with e | e
  · rw [e]
  · rw [e]; omega

/-! ## the bounding box does not depend on the order -/

theorem boundingBox_of_mem_orders {t t' : Triangle} (h : t' ∈ orders t) :
    t'.boundingBox = t.boundingBox := by
  obtain ⟨a, b, c⟩ := t
  rcases mem_orders.mp h with rfl | rfl | rfl | rfl | rfl | rfl <;>
    simp only [boundingBox, Rect.withCorners, Rect.mk.injEq, Pt.mk.injEq, Sz.mk.injEq] <;>
    refine ⟨⟨?_, ?_⟩, ?_, ?_⟩ <;> omega

/-! ## `sorted_clockwise`, edge lines, `scanline_intersection` -/

theorem sortedClockwise_mem_orders (t : Triangle) : sortedClockwise t ∈ orders t := by
  unfold sortedClockwise
  split
  · rw [mem_orders]; pick_order
  · split
    · exact self_mem_orders t
    · exact sortedYx_mem_orders t

theorem edgeLines_of_mem_orders {t t' : Triangle} (h : t' ∈ orders t) :
    t'.edgeLines = t.edgeLines := by
  unfold edgeLines; rw [sortedYx_of_mem_orders h]

theorem edgePoints_of_mem_orders {t t' : Triangle} (h : t' ∈ orders t) :
    t'.edgePoints = t.edgePoints := by
  unfold edgePoints; rw [edgeLines_of_mem_orders h]

/-- `scanline_intersection` only looks at the sorted triple and at whether the area vanishes. -/
theorem scanlineIntersection_of_mem_orders {t t' : Triangle} (h : t' ∈ orders t) (y : Int) :
    t'.scanlineIntersection y = t.scanlineIntersection y := by
  unfold scanlineIntersection
  rw [sortedYx_of_mem_orders h]
  by_cases hz : t.areaDoubled = 0
  · have hz' := (areaDoubled_eq_zero_iff_of_mem_orders h).mpr hz
    simp only [hz, hz', ↓reduceIte]
  · have hz' : ¬ t'.areaDoubled = 0 := fun c => hz ((areaDoubled_eq_zero_iff_of_mem_orders h).mp c)
    simp only [hz, hz', ↓reduceIte]

/-- For a non-degenerate triangle the row span is the fold of `bresenham_intersection` over the
three edge lines. -/
theorem scanlineIntersection_eq_foldl (t : Triangle) (y : Int) (h : t.areaDoubled ≠ 0) :
    t.scanlineIntersection y = t.edgeLines.foldl Scanline.bint (Scanline.newEmpty y) := by
  unfold scanlineIntersection edgeLines
  simp only [h, ↓reduceIte, List.foldl_cons, List.foldl_nil]


/-! ## edges are rasterised between the sorted pair of their end points -/

/-- The line between two vertices as the triangle code rasterises it: from the `(y, x)`-smaller to
the larger end point. -/
def sortedLine (u v : Pt) : Line := ⟨(sortTwoYx u v).1, (sortTwoYx u v).2⟩

theorem sortedLine_comm (u v : Pt) : sortedLine u v = sortedLine v u := by
  simp only [sortedLine, sortTwoYx]
  repeat' split
  all_goals try dsimp only at *
  all_goals
    unfold yxLt at *
    rw [Line.mk.injEq]
    refine ⟨?_, ?_⟩ <;> rw [Pt.ext_iff'] <;> constructor <;> omega

theorem sortedLine_mem_edgeLines_12 (a b c : Pt) : sortedLine a b ∈ edgeLines ⟨a, b, c⟩ := by
  simp only [edgeLines, sortedYx, sortTwoYx, sortedLine]
  repeat' split
  all_goals try dsimp only at *
  all_goals
    unfold yxLt at *
    simp only [List.mem_cons, List.mem_nil_iff, or_false, Line.mk.injEq, Pt.ext_iff', true_and,
      and_true, true_or, or_true]
    try omega

/-- Whenever `u`, `v` are two of the three vertices, `sortedLine u v` is one of the three edge
lines the triangle code rasterises. -/
theorem sortedLine_mem_edgeLines {t : Triangle} {u v w : Pt} (h : (⟨u, v, w⟩ : Triangle) ∈ orders t) :
    sortedLine u v ∈ edgeLines t := by
  rw [← edgeLines_of_mem_orders h]
  exact sortedLine_mem_edgeLines_12 u v w

end Triangle
end EG
