/-
  EG.Lemmas.CheckedThickIter — ties the checked thick-line scalars (`Chk.thickScalars`,
  `Chk.thickAccStep`) to the plain `Thick.ParallelsIterator` model: `next_parallel` never touches
  the threshold, the accumulator or the Bresenham parameters, so
    * `ParallelsIterator.new` stores exactly the scalars `Chk.thickScalars` computes, and
    * every `ParallelsIterator.next` that yields a parallel performs exactly one
      `Chk.thickAccStep`, which succeeds and keeps the range invariant `ScalarsInRange`.
-/
import EG.Lemmas.CheckedThick
namespace EG.Thick.ParallelsIterator
open EG

structure SameScalars (a b : ParallelsIterator) : Prop where
  th : b.thicknessThreshold = a.thicknessThreshold
  acc : b.thicknessAccumulator = a.thicknessAccumulator
  perp : b.perpendicularParameters = a.perpendicularParameters
  par : b.parallelParameters = a.parallelParameters
  so : b.strokeOffset = a.strokeOffset
  ns : b.nextSide = a.nextSide

theorem SameScalars.refl (a : ParallelsIterator) : SameScalars a a := ⟨rfl, rfl, rfl, rfl, rfl, rfl⟩
theorem SameScalars.trans {a b c : ParallelsIterator} (h1 : SameScalars a b) (h2 : SameScalars b c) :
    SameScalars a c :=
  ⟨h2.th.trans h1.th, h2.acc.trans h1.acc, h2.perp.trans h1.perp, h2.par.trans h1.par,
    h2.so.trans h1.so, h2.ns.trans h1.ns⟩

theorem setSideError_same (it : ParallelsIterator) (s : LineSide) (e : Int) :
    SameScalars it (it.setSideError s e) := by
  cases s <;> exact ⟨rfl, rfl, rfl, rfl, rfl, rfl⟩

theorem nextParallelFuel_same : ∀ (fuel : Nat) (it : ParallelsIterator) (side : LineSide) r it',
    nextParallelFuel fuel it side = some (r, it') → SameScalars it it' := by
  intro fuel
  induction fuel with
  | zero => intro it side r it' h; simp [nextParallelFuel] at h
  | succ fuel ih =>
    intro it side r it' h
    unfold nextParallelFuel at h
    cases side
    · simp only at h
      generalize hq : it.left.nextAll it.perpendicularParameters = q at h
      obtain ⟨pt, b⟩ := q
      simp only at h
      have hs : SameScalars it { it with left := b } := ⟨rfl, rfl, rfl, rfl, rfl, rfl⟩
      cases pt with
      | normal p =>
        simp only [Option.some.injEq, Prod.mk.injEq] at h
        rw [← h.2]; exact hs
      | extra p =>
        simp only at h
        split at h
        · split at h
          · simp only [Option.some.injEq, Prod.mk.injEq] at h
            rw [← h.2]; exact hs.trans (setSideError_same _ _ _)
          · exact (hs.trans (setSideError_same _ _ _)).trans (ih _ _ _ _ h)
        · split at h
          · simp only [Option.some.injEq, Prod.mk.injEq] at h
            rw [← h.2]; exact hs.trans (setSideError_same _ _ _)
          · exact (hs.trans (setSideError_same _ _ _)).trans (ih _ _ _ _ h)
    · simp only at h
      generalize hq : it.right.previousAll it.perpendicularParameters = q at h
      obtain ⟨pt, b⟩ := q
      simp only at h
      have hs : SameScalars it { it with right := b } := ⟨rfl, rfl, rfl, rfl, rfl, rfl⟩
      cases pt with
      | normal p =>
        simp only [Option.some.injEq, Prod.mk.injEq] at h
        rw [← h.2]; exact hs
      | extra p =>
        simp only at h
        split at h
        · split at h
          · simp only [Option.some.injEq, Prod.mk.injEq] at h
            rw [← h.2]; exact hs.trans (setSideError_same _ _ _)
          · exact (hs.trans (setSideError_same _ _ _)).trans (ih _ _ _ _ h)
        · split at h
          · simp only [Option.some.injEq, Prod.mk.injEq] at h
            rw [← h.2]; exact hs.trans (setSideError_same _ _ _)
          · exact (hs.trans (setSideError_same _ _ _)).trans (ih _ _ _ _ h)


theorem nextParallel_same {it : ParallelsIterator} {side : LineSide} {r it'}
    (h : it.nextParallel side = some (r, it')) : SameScalars it it' :=
  nextParallelFuel_same _ _ _ _ _ h

/-- What `ParallelsIterator::new` stores. -/
theorem new_scalars {l : Line} {t : Int} {so : StrokeOffset} {it : ParallelsIterator}
    (h : ParallelsIterator.new l t so = some it) :
    let line := if l.start = l.stop then horizontalLine else l
    it.thicknessThreshold = Chk.plainThickThreshold t line.delta ∧
    it.thicknessAccumulator =
      tdiv2 ((BresenhamParameters.new line).errorStep.minor + (BresenhamParameters.new line).errorStep.major) ∧
    it.perpendicularParameters = BresenhamParameters.new line.perpendicular := by
  unfold ParallelsIterator.new at h
  simp only at h
  split at h
  · cases h
  · rename_i r it0 hnp
    simp only [Option.some.injEq] at h
    subst h
    have hs := nextParallel_same hnp
    exact ⟨hs.th, hs.acc, hs.perp⟩

/-- What a `ParallelsIterator::next` that yields a parallel does to the scalars. -/
theorem next_scalars {it : ParallelsIterator} {r it'} (h : it.next = some (some r, it')) :
    ¬ (it.thicknessAccumulator * it.thicknessAccumulator > it.thicknessThreshold) ∧
    it'.thicknessThreshold = it.thicknessThreshold ∧
    it'.perpendicularParameters = it.perpendicularParameters ∧
    (it'.thicknessAccumulator = it.thicknessAccumulator + it.perpendicularParameters.errorStep.minor ∨
     it'.thicknessAccumulator = it.thicknessAccumulator + it.perpendicularParameters.errorStep.major) := by
  unfold ParallelsIterator.next at h
  split at h
  · simp at h
  · rename_i hc
    split at h
    · cases h
    · rename_i point error it1 hnp
      have hs := nextParallel_same hnp
      simp only [Option.some.injEq, Prod.mk.injEq] at h
      obtain ⟨_, h2⟩ := h
      subst h2
      cases point with
      | normal p =>
        simp only
        refine ⟨hc, ?_, ?_, Or.inl ?_⟩ <;> split <;> simp only [hs.th, hs.perp, hs.acc]
      | extra p =>
        simp only
        refine ⟨hc, ?_, ?_, Or.inr ?_⟩ <;> split <;> simp only [hs.th, hs.perp, hs.acc]

theorem dmaj_le_max (l : Line) {B : Int} (hx : -B ≤ Line.dxOf l ∧ Line.dxOf l ≤ B)
    (hy : -B ≤ Line.dyOf l ∧ Line.dyOf l ≤ B) : Line.dmaj l ≤ B := by
  unfold Line.dmaj Line.aabs; split <;> split <;> omega

/-- The range invariant of the scalars. -/
structure ScalarsInRange (it : ParallelsIterator) : Prop where
  acc : -2147483648 ≤ it.thicknessAccumulator ∧ it.thicknessAccumulator ≤ 2147483647
  th : it.thicknessThreshold ≤ 1152921504606846976
  minor : -1073741823 ≤ it.perpendicularParameters.errorStep.minor ∧
    it.perpendicularParameters.errorStep.minor ≤ 1073741823
  major : -1073741823 ≤ it.perpendicularParameters.errorStep.major ∧
    it.perpendicularParameters.errorStep.major ≤ 1073741823

/-- Every `next` that yields a parallel is one successful checked accumulator step (no `i64`
overflow of the square, no `i32` overflow of the increment) and keeps the invariant. -/
theorem next_in_range {it : ParallelsIterator} (hr : ScalarsInRange it) {r it'}
    (h : it.next = some (some r, it')) :
    (Chk.thickAccStep it.thicknessAccumulator it.thicknessThreshold
        it.perpendicularParameters.errorStep.minor = some (some it'.thicknessAccumulator) ∨
     Chk.thickAccStep it.thicknessAccumulator it.thicknessThreshold
        it.perpendicularParameters.errorStep.major = some (some it'.thicknessAccumulator)) ∧
    ScalarsInRange it' := by
  obtain ⟨hc, hth, hperp, hacc⟩ := next_scalars h
  have e1 := Chk.thickAccStep_ok hr.acc hr.th hr.minor
  have e2 := Chk.thickAccStep_ok hr.acc hr.th hr.major
  simp only [hc, ↓reduceIte] at e1 e2
  have hb : -1073741824 ≤ it.thicknessAccumulator ∧ it.thicknessAccumulator ≤ 1073741824 := by
    have h3 : it.thicknessAccumulator * it.thicknessAccumulator ≤ 1073741824 * 1073741824 := by
      have := hr.th; omega
    constructor
    · by_contra hcon
      have : (1073741825 : Int) * 1073741825 ≤ it.thicknessAccumulator * it.thicknessAccumulator := by
        nlinarith
      omega
    · by_contra hcon
      have : (1073741825 : Int) * 1073741825 ≤ it.thicknessAccumulator * it.thicknessAccumulator := by
        nlinarith
      omega
  have hm := hr.minor
  have hM := hr.major
  refine ⟨?_, ⟨?_, by rw [hth]; exact hr.th, by rw [hperp]; exact hr.minor, by rw [hperp]; exact hr.major⟩⟩
  · rcases hacc with ha | ha
    · left; rw [ha]; exact e1
    · right; rw [ha]; exact e2
  · rcases hacc with ha | ha <;> rw [ha] <;> omega

/-- ... and the iterator starts inside it for end points within `+-16383` and thickness up to
32767 (display scale: `+-1024`, `128`). -/
theorem new_in_range {l : Line}
    (hs : (-16383 ≤ l.start.x ∧ l.start.x ≤ 16383) ∧ (-16383 ≤ l.start.y ∧ l.start.y ≤ 16383))
    (he : (-16383 ≤ l.stop.x ∧ l.stop.x ≤ 16383) ∧ (-16383 ≤ l.stop.y ∧ l.stop.y ≤ 16383))
    {t : Int} (ht : 0 ≤ t ∧ t ≤ 8191) {so : StrokeOffset} {it : ParallelsIterator}
    (h : ParallelsIterator.new l t so = some it) :
    Chk.thickScalars l t = some (it.thicknessThreshold, it.thicknessAccumulator) ∧
    ScalarsInRange it := by
  obtain ⟨h1, h2, h3⟩ := new_scalars h
  have hsc := Chk.thickScalars_ok hs he (t := t) (by omega)
  simp only at h1 h2 h3 hsc
  refine ⟨by rw [hsc, h1, h2], ?_⟩
  obtain ⟨⟨_, _⟩, ⟨_, _⟩⟩ := hs
  obtain ⟨⟨_, _⟩, ⟨_, _⟩⟩ := he
  generalize hl : (if l.start = l.stop then horizontalLine else l) = line at h1 h2 h3
  have hb : ((-16383 ≤ line.start.x ∧ line.start.x ≤ 16383) ∧ (-16383 ≤ line.start.y ∧ line.start.y ≤ 16383)) ∧
      ((-16383 ≤ line.stop.x ∧ line.stop.x ≤ 16383) ∧ (-16383 ≤ line.stop.y ∧ line.stop.y ≤ 16383)) := by
    subst hl; split
    · simp only [horizontalLine]; omega
    · omega
  obtain ⟨⟨⟨_, _⟩, ⟨_, _⟩⟩, ⟨⟨_, _⟩, ⟨_, _⟩⟩⟩ := hb
  have hd1 := Line.dmin_nonneg line
  have hd2 := Line.dmin_le_dmaj line
  have hd3 : Line.dmaj line ≤ 32766 := by
    unfold Line.dmaj Line.aabs Line.dxOf Line.dyOf
    split <;> split <;> omega
  have hp1 := Line.dmin_nonneg line.perpendicular
  have hp2 := Line.dmin_le_dmaj line.perpendicular
  have hp3 : Line.dmaj line.perpendicular ≤ 32766 := by
    apply dmaj_le_max
    · simp only [Line.dxOf, Line.perpendicular, Pt.add_x, Pt.sub_y]; omega
    · simp only [Line.dyOf, Line.perpendicular, Pt.add_y, Pt.sub_x]; omega
  have hx : -32766 ≤ line.delta.x ∧ line.delta.x ≤ 32766 := by
    simp only [Line.delta, Pt.sub_x]; omega
  have hy : -32766 ≤ line.delta.y ∧ line.delta.y ≤ 32766 := by
    simp only [Line.delta, Pt.sub_y]; omega
  have hls : 0 ≤ line.delta.lengthSquared ∧ line.delta.lengthSquared ≤ 2147352578 := by
    have := Chk.sq_le_of_abs_le (B := 32767) (a := line.delta.x) (by omega) (by omega)
    have := Chk.sq_le_of_abs_le (B := 32767) (a := line.delta.y) (by omega) (by omega)
    have := Chk.sq_nonneg' line.delta.x
    have := Chk.sq_nonneg' line.delta.y
    unfold Pt.lengthSquared; omega
  have hth : it.thicknessThreshold ≤ (16382 * 16382) * 2147352578 := by
    rw [h1]; unfold Chk.plainThickThreshold
    have h5 : 0 ≤ (t * 2) * (t * 2) ∧ (t * 2) * (t * 2) ≤ 16382 * 16382 :=
      Chk.mul_bounds_nonneg (by omega) (by omega)
    exact (Chk.mul_bounds_nonneg h5 hls).2
  constructor
  · rw [h2, Line.params_new]; simp only [tdiv2]; split <;> omega
  · omega
  · rw [h3, Line.params_new]; simp only; omega
  · rw [h3, Line.params_new]; simp only; omega

end EG.Thick.ParallelsIterator
