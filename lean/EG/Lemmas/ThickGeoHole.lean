/-
  EG.Lemmas.ThickGeoHole — a stroked line is SOLID: every lattice point within `w/2 - 1` of the
  ideal line whose projection lies at least one major step inside both ends is a stroked pixel.
  * `band_index`: every lattice point lies in exactly one band `tau n`;
  * `idx_bound`: the accumulator that ends the run exceeds `2 w L`, it counts at most `2 D` per
    parallel, so the bands of the points within `w/2 - 1` of the line have all been yielded;
  * `band_column`: a point of a band whose projection is a major step inside both ends lies in one
    of the columns of the band's parallel;
  * `thickPoints_solid`: the assembly.
-/
import EG.Lemmas.ThickGeoCover
import Mathlib.Tactic.Ring
set_option linter.unusedSimpArgs false
namespace EG
namespace Thick
open ParallelsIterator StrokeCtx Line

/-- Every value lies in exactly one band. -/
theorem band_index (D tau X : Int) (hD : 0 < D) (ht : tau = 2 * D ∨ tau = -(2 * D)) :
    ∃ n : Int, -D < X - tau * n ∧ X - tau * n ≤ D := by
  have h1 := Int.emod_add_mul_ediv (X + D - 1) (2 * D)
  have h2 := Int.emod_nonneg (X + D - 1) (show 2 * D ≠ 0 by omega)
  have h3 := Int.emod_lt_of_pos (X + D - 1) (show 0 < 2 * D by omega)
  rcases ht with rfl | rfl
  · exact ⟨(X + D - 1) / (2 * D), by omega, by omega⟩
  · refine ⟨-((X + D - 1) / (2 * D)), ?_, ?_⟩ <;> rw [Int.neg_mul_neg] <;> omega

/-- Sum of two square-root bounds, without square roots. -/
theorem sq_add_le (a b p r S : Int) (_ha : 0 ≤ a) (hb : 0 ≤ b) (hp : 0 ≤ p) (hr : 0 ≤ r) (hS : 0 ≤ S)
    (h1 : a * a ≤ p * p * S) (h2 : b * b ≤ r * r * S) : (a + b) * (a + b) ≤ (p + r) * (p + r) * S := by
  have hab : a * b ≤ p * r * S := by
    by_contra hc
    have hc' : p * r * S < a * b := by omega
    have h0 : 0 ≤ p * r * S := Int.mul_nonneg (Int.mul_nonneg hp hr) hS
    have hlt : (p * r * S) * (p * r * S) < (a * b) * (a * b) := by nlinarith
    have hle : (a * a) * (b * b) ≤ (p * p * S) * (r * r * S) :=
      Int.mul_le_mul h1 h2 (Int.mul_nonneg hb hb) (by nlinarith)
    nlinarith
  nlinarith

theorem abs_exists (X : Int) : ∃ Y : Int, 0 ≤ Y ∧ Y * Y = X * X ∧ -Y ≤ X ∧ X ≤ Y := by
  by_cases h : 0 ≤ X
  · exact ⟨X, h, rfl, by omega, by omega⟩
  · exact ⟨-X, by omega, by rw [Int.neg_mul_neg], by omega, by omega⟩

/-- The bands of the points within `w/2 - 1` of the line have been yielded. -/
theorem idx_bound (D d w A X tau n : Int) (nL nR : Nat) (hD : 0 < D) (hd0 : 0 ≤ d) (hdD : d ≤ D)
    (hw : 2 ≤ w) (hA0 : 0 ≤ A) (hA : A * A > w * 2 * (w * 2) * (D * D + d * d))
    (hX : X * X ≤ (w - 2) * (w - 2) * (D * D + d * d)) (ht : tau = 2 * D ∨ tau = -(2 * D))
    (hb1 : -D < X - tau * n) (hb2 : X - tau * n ≤ D)
    (hAle : A ≤ D + d + 2 * D * ((nL : Int) + nR)) (hlr : nR = nL ∨ nR = nL + 1) :
    (0 < n → n ≤ nL) ∧ (n ≤ 0 → -(nR : Int) < n) := by
  obtain ⟨Y, hY0, hYY, hY1, hY2⟩ := abs_exists X
  have hS : 0 ≤ D * D + d * d := by nlinarith
  have hSpos : 0 < D * D + d * d := by nlinarith
  have hYsq : (2 * Y) * (2 * Y) ≤ (2 * w - 4) * (2 * w - 4) * (D * D + d * d) := by
    rw [← hYY] at hX; nlinarith
  -- 2 D |n| <= |X| + D
  have hn1 : 2 * D * n ≤ Y + D := by rcases ht with rfl | rfl <;> nlinarith
  have hn2 : -(Y + D) ≤ 2 * D * n := by rcases ht with rfl | rfl <;> nlinarith
  constructor
  · intro hpos
    by_contra hc
    have hc' : (nL : Int) + 1 ≤ n := by omega
    have h1 : D * ((nL : Int) + 1) ≤ D * n := Int.mul_le_mul_of_nonneg_left hc' (by omega)
    have hAle' : A ≤ 2 * Y + (D + d) := by
      have : (nR : Int) ≤ nL + 1 := by rcases hlr with h | h <;> omega
      have : D * ((nL : Int) + nR) ≤ D * (2 * nL + 1) := Int.mul_le_mul_of_nonneg_left (by omega) (by omega)
      nlinarith
    have hDd : (D + d) * (D + d) ≤ 2 * 2 * (D * D + d * d) := by nlinarith
    have hsum := sq_add_le (2 * Y) (D + d) (2 * w - 4) 2 (D * D + d * d) (by omega) (by omega)
      (by omega) (by omega) hS hYsq hDd
    have h5 : A * A ≤ (2 * Y + (D + d)) * (2 * Y + (D + d)) :=
      Int.mul_le_mul hAle' hAle' hA0 (by omega)
    have h6 : (2 * w - 4 + 2) * (2 * w - 4 + 2) ≤ w * 2 * (w * 2) := by nlinarith
    have h7 := Int.mul_le_mul_of_nonneg_right h6 hS
    omega
  · intro hneg
    by_contra hc
    have hc' : n ≤ -(nR : Int) := by omega
    have h1 : D * n ≤ D * (-(nR : Int)) := Int.mul_le_mul_of_nonneg_left hc' (by omega)
    have hAle' : A ≤ 2 * Y + (3 * D + d) := by
      have : (nL : Int) ≤ nR := by rcases hlr with h | h <;> omega
      have : D * ((nL : Int) + nR) ≤ D * (2 * nR) := Int.mul_le_mul_of_nonneg_left (by omega) (by omega)
      nlinarith
    have hDd : (3 * D + d) * (3 * D + d) ≤ 4 * 4 * (D * D + d * d) := by nlinarith
    have hsum := sq_add_le (2 * Y) (3 * D + d) (2 * w - 4) 4 (D * D + d * d) (by omega) (by omega)
      (by omega) (by omega) hS hYsq hDd
    have h5 : A * A ≤ (2 * Y + (3 * D + d)) * (2 * Y + (3 * D + d)) :=
      Int.mul_le_mul hAle' hAle' hA0 (by omega)
    have h6 : (2 * w - 4 + 4) * (2 * w - 4 + 4) = w * 2 * (w * 2) := by ring
    rw [h6] at hsum
    omega

/-- A point of the band of the parallel `(b, ty)` whose projection lies a major step inside both
ends of the segment is one of the points of the parallel. -/
theorem band_column (c : StrokeCtx) (hv : c.Valid) (s : Pt) (K : Int) (b : Bresenham)
    (ty : ParallelLineType) (hok : ParOK c s K b ty) (n : Nat)
    (hn1 : ty = .normal → (n : Int) = c.D + 1) (hn2 : ty = .extra → (n : Int) = c.D) (q : Pt)
    (hb1 : -c.D < c.ph q - c.ph s - K) (hb2 : c.ph q - c.ph s - K ≤ c.D)
    (h1 : 2 * c.D ≤ 2 * (c.dt q - c.dt s))
    (h2 : 2 * (c.dt q - c.dt s) ≤ 2 * (c.D * c.D + c.d * c.d) - 2 * c.D) :
    q ∈ parPts n b c.pp := by
  have hD := hv.hD
  have hd0 := hv.hd0
  have hdD := hv.hdD
  obtain ⟨e1, e2⟩ := parOK_err hv hok
  obtain ⟨hK, _, o1, o2⟩ := hok
  -- coordinates of `q` relative to the start `P` of the parallel
  obtain ⟨k, hk⟩ : ∃ k, c.amaj q = c.amaj b.point + k := ⟨c.amaj q - c.amaj b.point, by omega⟩
  obtain ⟨j, hj⟩ : ∃ j, c.amin q = c.amin b.point + j := ⟨c.amin q - c.amin b.point, by omega⟩
  have hph : c.ph q - c.ph b.point = 2 * c.d * k - 2 * c.D * j := by
    unfold ph; rw [hk, hj]; ring
  have hdt : c.dt q - c.dt b.point = c.D * k + c.d * j := by
    unfold dt; rw [hk, hj]; ring
  have heD : b.error ≤ c.D := by
    cases ty with
    | normal => exact (o1 rfl).1
    | extra => have := (o2 rfl).1; omega
  apply parPts_complete c hv n b e1 e2 q
  · -- not before the first column
    by_contra hc
    have hk1 : k ≤ -1 := by omega
    have hj0 : j ≤ 0 := by
      by_contra hj'
      have : c.D * 1 ≤ c.D * j := Int.mul_le_mul_of_nonneg_left (by omega) (by omega)
      have : c.d * k ≤ 0 := Int.mul_nonpos_of_nonneg_of_nonpos hd0 (by omega)
      nlinarith
    have : c.D * k ≤ c.D * (-1) := Int.mul_le_mul_of_nonneg_left hk1 (by omega)
    have : c.d * j ≤ 0 := Int.mul_nonpos_of_nonneg_of_nonpos hd0 hj0
    cases ty with
    | normal => obtain ⟨_, _, g⟩ := o1 rfl; omega
    | extra => obtain ⟨_, _, _, g⟩ := o2 rfl; omega
  · -- not after the last column
    by_contra hc
    have hkn : (n : Int) ≤ k := by omega
    cases ty with
    | normal =>
      obtain ⟨_, g, _⟩ := o1 rfl
      have hn := hn1 rfl
      have hjd : c.d ≤ j := by
        by_contra hj'
        have : c.D * j ≤ c.D * (c.d - 1) := Int.mul_le_mul_of_nonneg_left (by omega) (by omega)
        have : c.d * (c.D + 1) ≤ c.d * k := Int.mul_le_mul_of_nonneg_left (by omega) hd0
        nlinarith
      have : c.D * (c.D + 1) ≤ c.D * k := Int.mul_le_mul_of_nonneg_left (by omega) (by omega)
      have : c.d * c.d ≤ c.d * j := Int.mul_le_mul_of_nonneg_left hjd hd0
      nlinarith
    | extra =>
      obtain ⟨_, _, g, _⟩ := o2 rfl
      have hn := hn2 rfl
      have hjd : c.d ≤ j := by
        by_contra hj'
        have : c.D * j ≤ c.D * (c.d - 1) := Int.mul_le_mul_of_nonneg_left (by omega) (by omega)
        have : c.d * c.D ≤ c.d * k := Int.mul_le_mul_of_nonneg_left (by omega) hd0
        nlinarith
      have : c.D * c.D ≤ c.D * k := Int.mul_le_mul_of_nonneg_left (by omega) (by omega)
      have : c.d * c.d ≤ c.d * j := Int.mul_le_mul_of_nonneg_left hjd hd0
      nlinarith
  · unfold InBandK bandK
    constructor <;> omega

/-- **A stroked line is solid**: a lattice point `q` whose band value `X = ph q - ph start`
(`= -+ 2 cross(q)`) satisfies `X^2 <= (w - 2)^2 L2` (perpendicular distance at most `w/2 - 1`) and
whose projection lies at least a major step inside both ends is a stroked pixel. -/
theorem thickPoints_solid (l : Line) (hnd : l.start ≠ l.stop) (w : Nat) (hw : 2 ≤ w)
    (hw2 : w ≤ 2147483647) (ps : List Pt) (hps : thickPoints l w = some ps) (q : Pt)
    (hX : ((ctxOf l).ph q - (ctxOf l).ph l.start) * ((ctxOf l).ph q - (ctxOf l).ph l.start) ≤
      ((w : Int) - 2) * ((w : Int) - 2) * ((ctxOf l).D * (ctxOf l).D + (ctxOf l).d * (ctxOf l).d))
    (h1 : (ctxOf l).D ≤ (ctxOf l).dt q - (ctxOf l).dt l.start)
    (h2 : (ctxOf l).dt q - (ctxOf l).dt l.start ≤
      (ctxOf l).D * (ctxOf l).D + (ctxOf l).d * (ctxOf l).d - (ctxOf l).D) : q ∈ ps := by
  have hv := ctxOf_valid l
  have hfr := frameOK_ctxOf l
  have hsat : satAsI32 w = (w : Int) := by unfold satAsI32; simp only [hw2, ↓reduceIte]
  obtain ⟨it, xs, hnew, hrun, rfl⟩ := thickPoints_run l w (by omega) ps hps
  obtain ⟨it', hnew', hside, hg, hacc, hthr⟩ := new_ninv l (satAsI32 w)
  rw [hnew] at hnew'
  simp only [Option.some.injEq] at hnew'
  subst hnew'
  rw [hsat, L2_eq] at hthr
  obtain ⟨nL, nR, A, _, _, hlr, hA0, hA, hAle, hcov⟩ := run_cover (ctxOf l) hv _ hfr l.start _ hrun 0 0 hg
    (Or.inl ⟨hside, rfl⟩) hthr (by rw [hacc]; simp) (by rw [hacc]; have := hv.hD; have := hv.hd0; omega)
  obtain ⟨n, hb1, hb2⟩ := band_index (ctxOf l).D ((ctxOf l).ph (ctxOf l).M')
    ((ctxOf l).ph q - (ctxOf l).ph l.start) hv.hD (tau_cases hfr)
  obtain ⟨i1, i2⟩ := idx_bound (ctxOf l).D (ctxOf l).d w A _ _ n nL nR hv.hD hv.hd0 hv.hdD (by omega) hA0
    hA hX (tau_cases hfr) hb1 hb2 hAle hlr
  obtain ⟨x, hx, hok⟩ := hcov n (by
    by_cases hn : 0 < n
    · left; exact ⟨by simpa using hn, i1 hn⟩
    · right; exact ⟨i2 (by omega), by simp; omega⟩)
  apply List.mem_flatMap.mpr
  refine ⟨x, hx, ?_⟩
  have hp : paramLine l = l := by simp [paramLine, hnd]
  have hDl : (ctxOf l).D = dmaj l := by unfold ctxOf; rw [hp]
  have hlen : (majorLength l : Int) = (ctxOf l).D + 1 := by
    rw [majorLength_eq, hDl]; have := dmaj_nonneg l; omega
  apply band_column (ctxOf l) hv l.start _ x.2.1 x.2.2 hok _ _ _ q hb1 hb2 (by omega) (by omega)
  · intro hty; rw [hty]; exact hlen
  · intro hty; rw [hty]; show ((majorLength l - 1 : Nat) : Int) = _; omega

end Thick
end EG
