/-
  EG.Lemmas.TriangleI32 — the `i32` products of `Triangle::area_doubled` and `Triangle::contains`
  (src/primitives/triangle/mod.rs) stay inside `i32` when every coordinate is within +-8192.
  The Lean model computes them in unbounded integers; this is the range in which that is the real
  computation (no wrap in release builds, no panic with overflow checks).
-/
import EG.Model.Triangle
import Mathlib.Tactic.Linarith
namespace EG
namespace Triangle

/-- `|a| ≤ B`, `|b| ≤ C` bound the product by `B C`. -/
theorem mul_bound {a b B C : Int} (ha : -B ≤ a ∧ a ≤ B) (hb : -C ≤ b ∧ b ≤ C) :
    -(B * C) ≤ a * b ∧ a * b ≤ B * C := by
  obtain ⟨a1, a2⟩ := ha
  obtain ⟨b1, b2⟩ := hb
  constructor
  · nlinarith [mul_nonneg (sub_nonneg.2 a2) (sub_nonneg.2 b2),
      mul_nonneg (by linarith : (0 : Int) ≤ B + a) (by linarith : (0 : Int) ≤ C + b)]
  · nlinarith [mul_nonneg (sub_nonneg.2 a2) (by linarith : (0 : Int) ≤ C + b),
      mul_nonneg (by linarith : (0 : Int) ≤ B + a) (sub_nonneg.2 b2)]

/-- Coordinates within `+-8192`. -/
def SmallPt (p : Pt) : Prop := (-8192 ≤ p.x ∧ p.x ≤ 8192) ∧ (-8192 ≤ p.y ∧ p.y ≤ 8192)
instance (p : Pt) : Decidable (SmallPt p) := by unfold SmallPt; exact inferInstance

/-- A coordinate times a coordinate: at most `2^26`. -/
theorem cc {a b : Int} (ha : -8192 ≤ a ∧ a ≤ 8192) (hb : -8192 ≤ b ∧ b ≤ 8192) :
    -67108864 ≤ a * b ∧ a * b ≤ 67108864 := by
  have := mul_bound ha hb; omega

/-- A coordinate (or difference) times a difference of coordinates: at most `2^27` / `2^28`. -/
theorem cd {a b : Int} (ha : -8192 ≤ a ∧ a ≤ 8192) (hb : -16384 ≤ b ∧ b ≤ 16384) :
    -134217728 ≤ a * b ∧ a * b ≤ 134217728 := by
  have := mul_bound ha hb; omega

theorem dc {a b : Int} (ha : -16384 ≤ a ∧ a ≤ 16384) (hb : -8192 ≤ b ∧ b ≤ 8192) :
    -134217728 ≤ a * b ∧ a * b ≤ 134217728 := by
  have := mul_bound ha hb; omega

end Triangle
end EG
