/-
  EG.Lemmas.RectPoints — the `rectangle::Points` iterator (state machine) equals its closed form,
  and the closed form is exactly the set accepted by `contains`, row-major, each point once.
-/
import EG.Lemmas.Rect
namespace EG
namespace Rect

/-- Closed form of what the iterator state still has to yield. -/
def PointsIt.rest (it : PointsIt) : List Pt :=
  if it.y < it.yEnd then
    (irange it.x it.xEnd).map (fun x => (⟨x, it.y⟩ : Pt)) ++
      (irange (it.y + 1) it.yEnd).flatMap (fun y => (irange it.xStart it.xEnd).map (fun x => (⟨x, y⟩ : Pt)))
  else []

theorem PointsIt.nextFuel_spec : ∀ (fuel : Nat) (it : PointsIt), (it.yEnd - it.y).toNat < fuel →
    match it.nextFuel fuel with
    | some (p, it') => it.rest = p :: it'.rest
    | none => it.rest = [] := by
  intro fuel
  induction fuel with
  | zero => intro it h; omega
  | succ fuel ih =>
    intro it h
    unfold PointsIt.nextFuel
    by_cases hy : it.y < it.yEnd
    · rw [if_pos hy]
      by_cases hx : it.x < it.xEnd
      · rw [if_pos hx]
        simp only [PointsIt.rest, if_pos hy]
        rw [irange_cons hx]
        simp
      · rw [if_neg hx]
        have hrest : it.rest = ({ it with y := it.y + 1, x := it.xStart } : PointsIt).rest := by
          simp only [PointsIt.rest, if_pos hy]
          rw [irange_empty (by omega)]
          by_cases hy2 : it.y + 1 < it.yEnd
          · rw [if_pos hy2, irange_cons hy2]; simp
          · rw [if_neg hy2, irange_empty (a := it.y + 1) (b := it.yEnd) (by omega)]; simp
        have := ih { it with y := it.y + 1, x := it.xStart } (by dsimp only; omega)
        rw [hrest]
        exact this
    · rw [if_neg hy]
      simp [PointsIt.rest, hy]

theorem PointsIt.next_spec (it : PointsIt) :
    match it.next with
    | some (p, it') => it.rest = p :: it'.rest
    | none => it.rest = [] :=
  PointsIt.nextFuel_spec _ it (by omega)

theorem PointsIt.toListFuel_eq : ∀ (fuel : Nat) (it : PointsIt), it.rest.length < fuel →
    it.toListFuel fuel = it.rest := by
  intro fuel
  induction fuel with
  | zero => intro it h; omega
  | succ fuel ih =>
    intro it h
    unfold PointsIt.toListFuel
    have := it.next_spec
    split <;> rename_i heq <;> rw [heq] at this <;> simp only at this
    · rw [this] at h ⊢
      rw [ih _ (by simpa using h)]
    · exact this.symm

theorem length_flatMap_const {α β : Type} (l : List α) (f : α → List β) (n : Nat)
    (h : ∀ a ∈ l, (f a).length = n) : (l.flatMap f).length = l.length * n := by
  induction l with
  | nil => simp
  | cons a l ih =>
    simp only [List.flatMap_cons, List.length_append, List.length_cons]
    rw [ih (fun b hb => h b (List.mem_cons_of_mem _ hb)), h a List.mem_cons_self, Nat.succ_mul]
    omega

theorem PointsIt.rest_length (it : PointsIt) (hy : it.y < it.yEnd) :
    it.rest.length = (it.xEnd - it.x).toNat + (it.yEnd - (it.y + 1)).toNat * (it.xEnd - it.xStart).toNat := by
  simp only [PointsIt.rest, if_pos hy, List.length_append, List.length_map, irange_length]
  rw [length_flatMap_const _ _ (it.xEnd - it.xStart).toNat (by intro a _; simp [irange_length]), irange_length]

/-- The iterator yields exactly its closed form (for every rectangle, also saturating ones). -/
theorem points_eq_spec (r : Rect) : r.points = r.pointsSpec := by
  unfold points pointsSpec pointsIt
  by_cases hz : r.isZeroSized = true
  · simp only [hz, if_true]
    rfl
  · simp only [hz]
    simp only [Bool.false_eq_true, if_false]
    rw [PointsIt.toListFuel_eq]
    · simp only [PointsIt.rest, rows, columns, rowsEnd, columnsEnd]
      by_cases hy : r.tl.y < satAddI32 r.tl.y (satAsI32 r.size.h)
      · simp only [hy, ↓reduceIte]; rw [irange_cons hy]; simp
      · simp only [hy, ↓reduceIte]
        rw [irange_empty (a := r.tl.y) (b := satAddI32 r.tl.y (satAsI32 r.size.h)) (by omega)]; simp
    · by_cases hy : r.tl.y < r.rowsEnd
      · rw [PointsIt.rest_length _ hy]
        dsimp only
        have : (r.rowsEnd - r.tl.y).toNat = (r.rowsEnd - (r.tl.y + 1)).toNat + 1 := by omega
        rw [this, Nat.succ_mul]; omega
      · simp [PointsIt.rest, hy]

theorem rowsEnd_eq {r : Rect} (h : r.InRange) : r.rowsEnd = r.tl.y + r.size.h := by
  unfold InRange inI32 at h
  unfold rowsEnd satAddI32 satAsI32
  split <;> split <;> (try split) <;> omega

theorem columnsEnd_eq {r : Rect} (h : r.InRange) : r.columnsEnd = r.tl.x + r.size.w := by
  unfold InRange inI32 at h
  unfold columnsEnd satAddI32 satAsI32
  split <;> split <;> (try split) <;> omega

theorem mem_pointsSpec {r : Rect} (h : r.InRange) {p : Pt} :
    p ∈ r.pointsSpec ↔ r.contains p = true := by
  unfold pointsSpec
  rw [contains_iff]
  by_cases hz : r.isZeroSized = true
  · rw [if_pos hz]
    rw [isZeroSized_iff] at hz
    simp only [List.not_mem_nil, false_iff]; omega
  · rw [if_neg hz]
    have hr := rowsEnd_eq h
    have hc := columnsEnd_eq h
    unfold rowsEnd at hr; unfold columnsEnd at hc
    simp only [rows, columns, hr, hc, List.mem_flatMap, List.mem_map, mem_irange]
    constructor
    · rintro ⟨y, hy, x, hx, rfl⟩; simp only; omega
    · intro hp; exact ⟨p.y, by omega, p.x, by omega, rfl⟩

/-- **`points()` yields exactly the points `contains()` accepts.** -/
theorem mem_points {r : Rect} (h : r.InRange) {p : Pt} : p ∈ r.points ↔ r.contains p = true := by
  rw [points_eq_spec, mem_pointsSpec h]

theorem pairwise_flatMap_rows (ys xs : List Int) (hy : ys.Pairwise (· < ·)) (hx : xs.Pairwise (· < ·)) :
    (ys.flatMap (fun y => xs.map (fun x => (⟨x, y⟩ : Pt)))).Pairwise Pt.rowMajorLt := by
  induction ys with
  | nil => simp
  | cons y ys ih =>
    rw [List.pairwise_cons] at hy
    simp only [List.flatMap_cons]
    rw [List.pairwise_append]
    refine ⟨?_, ih hy.2, ?_⟩
    · rw [List.pairwise_map]
      exact hx.imp (by intro a b hab; right; exact ⟨rfl, hab⟩)
    · intro a ha b hb
      simp only [List.mem_map] at ha
      simp only [List.mem_flatMap, List.mem_map] at hb
      obtain ⟨x, _, rfl⟩ := ha
      obtain ⟨y', hy', x', _, rfl⟩ := hb
      left; exact hy.1 y' hy'

/-- **Row-major order, hence each point once.** -/
theorem points_rowMajor (r : Rect) : r.points.Pairwise Pt.rowMajorLt := by
  rw [points_eq_spec]
  unfold pointsSpec
  split
  · simp
  · exact pairwise_flatMap_rows _ _ (irange_pairwise_lt _ _) (irange_pairwise_lt _ _)

theorem points_nodup (r : Rect) : r.points.Nodup :=
  (points_rowMajor r).imp (by
    intro a b h heq
    subst heq
    unfold Pt.rowMajorLt at h
    omega)

theorem points_length {r : Rect} (h : r.InRange) : r.points.length = r.size.w * r.size.h := by
  rw [points_eq_spec]
  unfold pointsSpec
  by_cases hz : r.isZeroSized = true
  · rw [if_pos hz]; rw [isZeroSized_iff] at hz
    rcases hz with hz | hz <;> simp [hz]
  · rw [if_neg hz]
    have hr := rowsEnd_eq h
    have hc := columnsEnd_eq h
    unfold rowsEnd at hr; unfold columnsEnd at hc
    rw [length_flatMap_const _ _ r.size.w (by intro a _; simp only [columns, List.length_map, irange_length, hc]; omega)]
    simp only [rows, irange_length, hr]
    have : (r.tl.y + ↑r.size.h - r.tl.y).toNat = r.size.h := by omega
    rw [this, Nat.mul_comm]

end Rect
end EG
