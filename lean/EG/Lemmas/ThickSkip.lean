/-
  EG.Lemmas.ThickSkip — counting the perpendicular steps of `ParallelsIterator::next_parallel`.
  `skipsFuel` = how often the `loop` of `next_parallel` goes round again, i.e. the number of `Extra`
  perpendicular steps it takes WITHOUT returning a parallel (the counter `skipped[side]` of the
  harness port `joins_port::skipped_extras`, harness/src/m_thick.rs).
  Pure bookkeeping of the code, no geometry: with `x = 1` for a returned `Extra` point, `0` for a
  `Normal` one, and `k` skipped steps, one call changes
      the walker's own Bresenham error by  +-(2 d (1 - x) - 2 D (k + x)),
      the parallel error of the side by    +-(2 d (k + x) - 2 D x)
  (`2 d`, `2 D` = `error_step.major`, `error_step.minor`, the same numbers for the line and its
  perpendicular), and leaves the other side alone.
-/
import EG.Lemmas.ThickBBoxSide
import EG.Model.ThickSkips
import Mathlib.Tactic.Linarith
set_option linter.unusedSimpArgs false
namespace EG
namespace Thick
open ParallelsIterator

theorem skips_left_normal (fuel : Nat) (it : ParallelsIterator)
    (h : ¬ it.left.error > it.perpendicularParameters.errorThreshold) :
    skipsFuel (fuel + 1) it .left = 0 := by
  rw [skipsFuel]
  simp only [nextAll_normal _ _ h]

theorem skips_left_extra (fuel : Nat) (it : ParallelsIterator)
    (h : it.left.error > it.perpendicularParameters.errorThreshold) :
    skipsFuel (fuel + 1) it .left =
      (let w : Bresenham := ⟨it.left.point + it.perpendicularParameters.positionStep.minor,
          it.left.error - it.perpendicularParameters.errorStep.minor⟩
       if it.flip then
         if (it.parallelParameters.decreaseError it.leftError).2 then 0
         else skipsFuel fuel
           { it with left := w, leftError := (it.parallelParameters.decreaseError it.leftError).1 } .left + 1
       else
         if (it.parallelParameters.increaseError it.leftError).2 then 0
         else skipsFuel fuel
           { it with left := w, leftError := (it.parallelParameters.increaseError it.leftError).1 } .left + 1) := by
  rw [skipsFuel]
  simp only [nextAll_extra _ _ h, sideError, setSideError]

theorem skips_right_normal (fuel : Nat) (it : ParallelsIterator)
    (h : ¬ it.right.error ≤ -it.perpendicularParameters.errorThreshold) :
    skipsFuel (fuel + 1) it .right = 0 := by
  rw [skipsFuel]
  simp only [previousAll_normal _ _ h]

theorem skips_right_extra (fuel : Nat) (it : ParallelsIterator)
    (h : it.right.error ≤ -it.perpendicularParameters.errorThreshold) :
    skipsFuel (fuel + 1) it .right =
      (let w : Bresenham := ⟨it.right.point - it.perpendicularParameters.positionStep.minor,
          it.right.error + it.perpendicularParameters.errorStep.minor⟩
       if !it.flip then
         if (it.parallelParameters.decreaseError it.rightError).2 then 0
         else skipsFuel fuel
           { it with right := w, rightError := (it.parallelParameters.decreaseError it.rightError).1 } .right + 1
       else
         if (it.parallelParameters.increaseError it.rightError).2 then 0
         else skipsFuel fuel
           { it with right := w, rightError := (it.parallelParameters.increaseError it.rightError).1 } .right + 1) := by
  rw [skipsFuel]
  simp only [previousAll_extra _ _ h, sideError, setSideError]

/-- `1` for an `Extra` perpendicular point, `0` for a `Normal` one. -/
def exOf : BresenhamPoint → Int
  | .normal _ => 0
  | .extra _ => 1

/-- The sign with which the left / right parallel error moves: `increase_error` (`+`) or
`decrease_error` (`-`). -/
def sgL (flip : Bool) : Int := if flip then -1 else 1
def sgR (flip : Bool) : Int := if flip then 1 else -1

/-- **One call of `next_parallel(Left)`, counted.** -/
theorem npf_left_counts (c : StrokeCtx) :
    ∀ (fuel : Nat) (it : ParallelsIterator) (pt : BresenhamPoint) (e : Int) (it' : ParallelsIterator),
    it.perpendicularParameters = c.perp → it.parallelParameters = c.pp →
    nextParallelFuel fuel it .left = some ((pt, e), it') →
    it'.left.error = it.left.error + 2 * c.d * (1 - exOf pt) -
      2 * c.D * ((skipsFuel fuel it .left : Int) + exOf pt) ∧
    it'.leftError = it.leftError + sgL it.flip *
      (2 * c.d * ((skipsFuel fuel it .left : Int) + exOf pt) - 2 * c.D * exOf pt) ∧
    it'.right = it.right ∧ it'.rightError = it.rightError ∧ it'.flip = it.flip
  | 0, _, _, _, _, _, _, h => by simp [nextParallelFuel] at h
  | fuel + 1, it, pt, e, it', hperp, hpp, h => by
    have hthr : it.perpendicularParameters.errorThreshold = c.D := by rw [hperp]; rfl
    have hEMaj : it.perpendicularParameters.errorStep.major = 2 * c.d := by rw [hperp]; rfl
    have hEMin : it.perpendicularParameters.errorStep.minor = 2 * c.D := by rw [hperp]; rfl
    have hdecE : it.parallelParameters.decreaseError it.leftError =
        c.pp.decreaseError it.leftError := by rw [hpp]
    have hincE : it.parallelParameters.increaseError it.leftError =
        c.pp.increaseError it.leftError := by rw [hpp]
    by_cases hE : it.left.error > it.perpendicularParameters.errorThreshold
    · rw [npf_left_extra fuel it hE] at h
      rw [skips_left_extra fuel it hE]
      simp only [hEMin] at h ⊢
      cases hfl : it.flip with
      | true =>
        simp only [hfl, ↓reduceIte] at h ⊢
        rw [hdecE] at h ⊢
        rcases decreaseError_spec c it.leftError with ⟨hs, _⟩ | ⟨hs, _⟩
        · rw [hs] at h ⊢
          simp only [↓reduceIte, Option.some.injEq, Prod.mk.injEq] at h ⊢
          obtain ⟨⟨rfl, rfl⟩, rfl⟩ := h
          simp only [exOf, sgL, hfl, ↓reduceIte, Nat.cast_zero]
          refine ⟨by ring, by ring, trivial, trivial, trivial⟩
        · rw [hs] at h ⊢
          simp only [Bool.false_eq_true, ↓reduceIte] at h ⊢
          obtain ⟨r1, r2, r3, r4, r5⟩ := npf_left_counts c fuel _ pt e it' (by exact hperp) (by exact hpp) h
          simp only at r1 r2 r3 r4 r5
          simp only [sgL, ↓reduceIte] at r2 ⊢
          push_cast
          refine ⟨by rw [r1]; ring, by rw [r2]; ring, r3, r4, r5⟩
      | false =>
        simp only [hfl, ↓reduceIte, Bool.false_eq_true] at h ⊢
        rw [hincE] at h ⊢
        rcases increaseError_spec c it.leftError with ⟨hs, _⟩ | ⟨hs, _⟩
        · rw [hs] at h ⊢
          simp only [↓reduceIte, Option.some.injEq, Prod.mk.injEq] at h ⊢
          obtain ⟨⟨rfl, rfl⟩, rfl⟩ := h
          simp only [exOf, sgL, hfl, ↓reduceIte, Nat.cast_zero, Bool.false_eq_true]
          refine ⟨by ring, by ring, trivial, trivial, trivial⟩
        · rw [hs] at h ⊢
          simp only [Bool.false_eq_true, ↓reduceIte] at h ⊢
          obtain ⟨r1, r2, r3, r4, r5⟩ := npf_left_counts c fuel _ pt e it' (by exact hperp) (by exact hpp) h
          simp only at r1 r2 r3 r4 r5
          simp only [sgL, ↓reduceIte, Bool.false_eq_true] at r2 ⊢
          push_cast
          refine ⟨by rw [r1]; ring, by rw [r2]; ring, r3, r4, r5⟩
    · rw [npf_left_normal fuel it hE] at h
      rw [skips_left_normal fuel it hE]
      simp only [hEMaj, Option.some.injEq, Prod.mk.injEq] at h
      obtain ⟨⟨rfl, rfl⟩, rfl⟩ := h
      simp only [exOf, Nat.cast_zero]
      refine ⟨by ring, by ring, trivial, trivial, trivial⟩

/-- **One call of `next_parallel(Right)`, counted.** -/
theorem npf_right_counts (c : StrokeCtx) :
    ∀ (fuel : Nat) (it : ParallelsIterator) (pt : BresenhamPoint) (e : Int) (it' : ParallelsIterator),
    it.perpendicularParameters = c.perp → it.parallelParameters = c.pp →
    nextParallelFuel fuel it .right = some ((pt, e), it') →
    it'.right.error = it.right.error - 2 * c.d * (1 - exOf pt) +
      2 * c.D * ((skipsFuel fuel it .right : Int) + exOf pt) ∧
    it'.rightError = it.rightError + sgR it.flip *
      (2 * c.d * ((skipsFuel fuel it .right : Int) + exOf pt) - 2 * c.D * exOf pt) ∧
    it'.left = it.left ∧ it'.leftError = it.leftError ∧ it'.flip = it.flip
  | 0, _, _, _, _, _, _, h => by simp [nextParallelFuel] at h
  | fuel + 1, it, pt, e, it', hperp, hpp, h => by
    have hthr : it.perpendicularParameters.errorThreshold = c.D := by rw [hperp]; rfl
    have hEMaj : it.perpendicularParameters.errorStep.major = 2 * c.d := by rw [hperp]; rfl
    have hEMin : it.perpendicularParameters.errorStep.minor = 2 * c.D := by rw [hperp]; rfl
    have hdecE : it.parallelParameters.decreaseError it.rightError =
        c.pp.decreaseError it.rightError := by rw [hpp]
    have hincE : it.parallelParameters.increaseError it.rightError =
        c.pp.increaseError it.rightError := by rw [hpp]
    by_cases hE : it.right.error ≤ -it.perpendicularParameters.errorThreshold
    · rw [npf_right_extra fuel it hE] at h
      rw [skips_right_extra fuel it hE]
      simp only [hEMin] at h ⊢
      cases hfl : it.flip with
      | false =>
        simp only [hfl, ↓reduceIte, Bool.not_false] at h ⊢
        rw [hdecE] at h ⊢
        rcases decreaseError_spec c it.rightError with ⟨hs, _⟩ | ⟨hs, _⟩
        · rw [hs] at h ⊢
          simp only [↓reduceIte, Option.some.injEq, Prod.mk.injEq] at h ⊢
          obtain ⟨⟨rfl, rfl⟩, rfl⟩ := h
          simp only [exOf, sgR, hfl, ↓reduceIte, Nat.cast_zero, Bool.false_eq_true]
          refine ⟨by ring, by ring, trivial, trivial, trivial⟩
        · rw [hs] at h ⊢
          simp only [Bool.false_eq_true, ↓reduceIte] at h ⊢
          obtain ⟨r1, r2, r3, r4, r5⟩ := npf_right_counts c fuel _ pt e it' (by exact hperp) (by exact hpp) h
          simp only at r1 r2 r3 r4 r5
          simp only [sgR, ↓reduceIte, Bool.false_eq_true] at r2 ⊢
          push_cast
          refine ⟨by rw [r1]; ring, by rw [r2]; ring, r3, r4, r5⟩
      | true =>
        simp only [hfl, ↓reduceIte, Bool.not_true, Bool.false_eq_true] at h ⊢
        rw [hincE] at h ⊢
        rcases increaseError_spec c it.rightError with ⟨hs, _⟩ | ⟨hs, _⟩
        · rw [hs] at h ⊢
          simp only [↓reduceIte, Option.some.injEq, Prod.mk.injEq] at h ⊢
          obtain ⟨⟨rfl, rfl⟩, rfl⟩ := h
          simp only [exOf, sgR, hfl, ↓reduceIte, Nat.cast_zero]
          refine ⟨by ring, by ring, trivial, trivial, trivial⟩
        · rw [hs] at h ⊢
          simp only [Bool.false_eq_true, ↓reduceIte] at h ⊢
          obtain ⟨r1, r2, r3, r4, r5⟩ := npf_right_counts c fuel _ pt e it' (by exact hperp) (by exact hpp) h
          simp only at r1 r2 r3 r4 r5
          simp only [sgR, ↓reduceIte] at r2 ⊢
          push_cast
          refine ⟨by rw [r1]; ring, by rw [r2]; ring, r3, r4, r5⟩
    · rw [npf_right_normal fuel it hE] at h
      rw [skips_right_normal fuel it hE]
      simp only [hEMaj, Option.some.injEq, Prod.mk.injEq] at h
      obtain ⟨⟨rfl, rfl⟩, rfl⟩ := h
      simp only [exOf, Nat.cast_zero]
      refine ⟨by ring, by ring, trivial, trivial, trivial⟩

end Thick
end EG
