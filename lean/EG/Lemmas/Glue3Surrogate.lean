/-
  EG.Lemmas.Glue3Surrogate — `RangeInclusive<char>` across the surrogate gap: a `\0 s e` range of a
  glyph-mapping string with `s <= U+D7FF` and `e >= U+E000` lists `s ..= U+D7FF` and then
  `U+E000 ..= e` (`<char as Step>::forward` skips U+D800 ..= U+DFFF), closed form of `charRange`.
-/
import EG.Lemmas.FontMapping
namespace EG
namespace Font

/-- From `cur <= U+D7FF` up to `e >= U+E000`: the scalars up to the gap, then those after it. -/
theorem charRangeGo_crossing : ∀ (fuel cur e : Nat), cur ≤ 0xD7FF → 0xE000 ≤ e →
    (0xD800 - cur) + (e + 1 - 0xE000) ≤ fuel →
    charRangeGo fuel cur e = List.range' cur (0xD800 - cur) ++ List.range' 0xE000 (e + 1 - 0xE000) := by
  intro fuel
  induction fuel with
  | zero => intro cur e h1 h2 h3; omega
  | succ fuel ih =>
    intro cur e h1 h2 h3
    unfold charRangeGo
    have hlt : cur < e := by omega
    simp only [hlt, ↓reduceIte]
    by_cases hc : cur = 0xD7FF
    · have hns : nextScalar cur = 0xE000 := by unfold nextScalar; simp [hc]
      rw [hns, charRangeGo_plain fuel 0xE000 e h2 (by omega) (Or.inr (by omega))]
      have hlen : 0xD800 - cur = 1 := by omega
      rw [hlen, List.range'_one, List.singleton_append]
    · have hns : nextScalar cur = cur + 1 := by unfold nextScalar; simp [hc]
      rw [hns, ih (cur + 1) e (by omega) h2 (by omega)]
      have hlen : 0xD800 - cur = (0xD800 - (cur + 1)) + 1 := by omega
      rw [hlen, List.range'_succ, List.cons_append]

/-- **A range that crosses the surrogate gap** is `s ..= U+D7FF` followed by `U+E000 ..= e`. -/
theorem charRange_crossing (s e : Nat) (hs : s ≤ 0xD7FF) (he : 0xE000 ≤ e) :
    charRange s e = List.range' s (0xD800 - s) ++ List.range' 0xE000 (e + 1 - 0xE000) :=
  charRangeGo_crossing _ s e hs he (by omega)

/-- Membership in a range between two scalar values (neither end a surrogate), whether or not it
crosses the gap: the scalar values between the ends. -/
theorem mem_charRange_scalar (s e c : Nat) (hs : ¬ isSurrogate s) (he : ¬ isSurrogate e) :
    c ∈ charRange s e ↔ s ≤ c ∧ c ≤ e ∧ ¬ isSurrogate c := by
  unfold isSurrogate at *
  by_cases hg : e ≤ 0xD7FF ∨ 0xD7FF < s
  · rw [mem_charRange_plain s e c hg]; omega
  · have h1 : s ≤ 0xD7FF := by omega
    have h2 : 0xE000 ≤ e := by omega
    rw [charRange_crossing s e h1 h2, List.mem_append, List.mem_range'_1, List.mem_range'_1]
    omega

/-- A range between two scalar values lists no character twice. -/
theorem charRange_nodup_scalar (s e : Nat) (hs : ¬ isSurrogate s) (he : ¬ isSurrogate e) :
    (charRange s e).Nodup := by
  unfold isSurrogate at *
  by_cases hg : e ≤ 0xD7FF ∨ 0xD7FF < s
  · exact charRange_nodup_plain s e hg
  · have h1 : s ≤ 0xD7FF := by omega
    have h2 : 0xE000 ≤ e := by omega
    rw [charRange_crossing s e h1 h2, List.nodup_append]
    refine ⟨List.nodup_range', List.nodup_range', ?_⟩
    intro a ha b hb
    rw [List.mem_range'_1] at ha hb
    omega

/-- Number of characters of a crossing range: 2048 fewer than `end - start + 1`. -/
theorem charRange_crossing_length (s e : Nat) (hs : s ≤ 0xD7FF) (he : 0xE000 ≤ e) :
    (charRange s e).length + 2048 = e + 1 - s := by
  rw [charRange_crossing s e hs he, List.length_append, List.length_range', List.length_range']
  omega

end Font
end EG
