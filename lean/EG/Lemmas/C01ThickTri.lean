/-
  EG.Lemmas.C01ThickTri — styled triangles (every style): the `fill_solid` calls of `draw_styled`
  (`Joins.triDraw`) write, in the same order and with the same colours, exactly the pixels
  `pixels()` (`Joins.triPixels`) yields.

  Both walk the same `ScanlineIterator` (`TriScanlines`), whose items are (scanline, kind):
  `draw_styled` turns every scanline whose kind has a colour into a 1-px-high `fill_solid`,
  `StyledPixelsIterator` walks it point by point and skips scanlines without a colour. Overlapping
  scanlines (stroke over fill) come in the same order on both paths, so "last write wins" decides
  alike.
  The real `ScanlineIterator` is NOT fused and the model keeps that (`TriScanlines.next` returns the
  successor state with `None` too); `draw_styled` stops at the first `None`, `StyledPixelsIterator::new`
  forgives one. The two agree because a first `None` is followed by `None`s only (`TriFirstNoneFinal`,
  proved in EG/Lemmas/TriTopRow.lean).
  * `triLines`: the complete scanline run (up to the first `None` of the non-fused iterator) exists,
    is what the `for` loop of `draw_styled` sees (`toList`'s fuel is never used up), non-empty lines;
  * `triPix_run`: the pixel iterator's complete run is the concatenation of the coloured scanlines'
    points (the `loop` of `next` never uses up its fuel); `triPixels_eq_run`: the model's `pixels()`
    IS that run (its fuel, the total length of the scanlines, is never used up);
  * `tri_writes`: the write sequences coincide.
-/
import EG.Lemmas.C01ThickPoly
import EG.Lemmas.JoinsTotalTri
namespace EG
namespace C01Thick
open EG.Tgt EG.Joins

/-! ### the model drains are `listFuel` -/

theorem triScanlines_toListFuel_eq : ∀ (fuel : Nat) (it : TriScanlines),
    it.toListFuel fuel = listFuel TriScanlines.nextLoop fuel it := by
  intro fuel
  induction fuel with
  | zero => intro it; rfl
  | succ n ih =>
    intro it
    rw [TriScanlines.toListFuel, listFuel]
    cases it.nextLoop with
    | none => rfl
    | some r =>
      cases r with
      | none => rfl
      | some p =>
        obtain ⟨s, it'⟩ := p
        simp only [Option.bind_eq_bind, Option.bind_some, ih it']
        cases listFuel TriScanlines.nextLoop n it' <;> rfl

theorem triPixels_toListFuel_eq : ∀ (fuel : Nat) (it : TriPixels),
    it.toListFuel fuel = listFuel TriPixels.next fuel it := by
  intro fuel
  induction fuel with
  | zero => intro it; rfl
  | succ n ih =>
    intro it
    rw [TriPixels.toListFuel, listFuel]
    cases it.next with
    | none => rfl
    | some r =>
      cases r with
      | none => rfl
      | some p =>
        obtain ⟨s, it'⟩ := p
        simp only [Option.bind_eq_bind, Option.bind_some, ih it']
        cases listFuel TriPixels.next n it' <;> rfl

/-! ### the scanline run -/

theorem tryTake_eq {s r : Scanline} (h : s.tryTake.1 = some r) : r = s ∧ s.isEmpty = false := by
  unfold Scanline.tryTake at h
  cases he : s.isEmpty with
  | true => simp [he] at h
  | false => simp [he] at h; exact ⟨h.symm, rfl⟩

/-- `ScanlineIntersections::next` only returns non-empty scanlines. -/
theorem triIntersections_next_nonempty {it it' : TriIntersections} {x : Scanline × PointType}
    (h : it.next = some (x, it')) : x.1.isEmpty = false := by
  unfold TriIntersections.next at h
  cases h1 : it.lines.internal.tryTake with
  | mk o1 rest1 =>
    have e1 : it.lines.internal.tryTake.1 = o1 := by rw [h1]
    rw [h1] at h
    cases o1 with
    | some a =>
      simp only [Option.some.injEq, Prod.mk.injEq] at h
      obtain ⟨rfl, -⟩ := h
      obtain ⟨rfl, hne⟩ := tryTake_eq e1
      exact hne
    | none =>
      dsimp only at h
      cases h2 : it.lines.first.tryTake with
      | mk o2 rest2 =>
        have e2 : it.lines.first.tryTake.1 = o2 := by rw [h2]
        rw [h2] at h
        cases o2 with
        | some a =>
          simp only [Option.some.injEq, Prod.mk.injEq] at h
          obtain ⟨rfl, -⟩ := h
          obtain ⟨rfl, hne⟩ := tryTake_eq e2
          exact hne
        | none =>
          dsimp only at h
          cases h3 : it.lines.second.tryTake with
          | mk o3 rest3 =>
            have e3 : it.lines.second.tryTake.1 = o3 := by rw [h3]
            rw [h3] at h
            cases o3 with
            | some a =>
              simp only [Option.some.injEq, Prod.mk.injEq] at h
              obtain ⟨rfl, -⟩ := h
              obtain ⟨rfl, hne⟩ := tryTake_eq e3
              exact hne
            | none => simp at h

/-- `ScanlineIterator::next` only returns non-empty scanlines. -/
theorem triScanlines_next_nonempty {it it' : TriScanlines} {x : Scanline × PointType}
    (h : it.nextLoop = some (some (x, it'))) : x.1.isEmpty = false := by
  rw [TriScanlines.nextLoop_eq_def] at h
  unfold TriScanlines.nextLoopDef at h
  cases h1 : it.intersections.next with
  | some p =>
    obtain ⟨r, ints⟩ := p
    rw [h1] at h
    simp only [Option.some.injEq, Prod.mk.injEq] at h
    obtain ⟨rfl, -⟩ := h
    exact triIntersections_next_nonempty h1
  | none =>
    rw [h1] at h
    dsimp only at h
    split at h
    · cases hr : it.intersections.resetWithNewScanline it.rowsStart with
      | none => rw [hr] at h; cases h
      | some ints =>
        rw [hr] at h
        simp only [Option.bind_eq_bind, Option.bind_some] at h
        cases h2 : ints.next with
        | none => rw [h2] at h; cases h
        | some p =>
          obtain ⟨r, ints2⟩ := p
          rw [h2] at h
          simp only [pure, Option.some.injEq, Prod.mk.injEq] at h
          obtain ⟨rfl, -⟩ := h
          exact triIntersections_next_nonempty h2
    · cases h

theorem triScanlines_next_mu {it it' : TriScanlines} {x : Scanline × PointType}
    (h : it.nextLoop = some (some (x, it'))) : TriScanlines.mu it' < TriScanlines.mu it := by
  obtain ⟨r, hr, hmu⟩ := TriScanlines.next_spec it
  rw [h] at hr
  simp only [Option.some.injEq] at hr
  exact hmu x it' hr.symm

/-- A run of the scanline iterator has at most `mu` (<= three per remaining row plus three) items. -/
theorem triRun_length {it : TriScanlines} {L : List (Scanline × PointType)}
    (h : Run TriScanlines.nextLoop it L) : L.length ≤ TriScanlines.mu it := by
  induction h with
  | done _ => exact Nat.zero_le _
  | step h1 _ ih =>
    have := triScanlines_next_mu h1
    simp only [List.length_cons]
    omega

theorem triMu_le (it : TriScanlines) :
    TriScanlines.mu it ≤ 3 * ((it.rowsEnd - it.rowsStart).toNat + 1) := by
  have := TriIntersections.m_le it.intersections
  unfold TriScanlines.mu
  omega

/-- **The complete scanline run of a triangle's `ScanlineIterator`**: it exists, it is what
`toList` (the `for` loop of `draw_styled`) returns, and every scanline in it is non-empty. -/
theorem triLines (it : TriScanlines) :
    ∃ L, it.toList = some L ∧ Run TriScanlines.nextLoop it L ∧ ∀ x ∈ L, x.1.isEmpty = false := by
  obtain ⟨L, hL⟩ := TriScanlines.toListFuel_total (3 * ((it.rowsEnd - it.rowsStart).toNat + 1) + 1) it
  have hL' : listFuel TriScanlines.nextLoop (3 * ((it.rowsEnd - it.rowsStart).toNat + 1) + 1) it = some L := by
    rw [← triScanlines_toListFuel_eq]; exact hL
  have hlen : L.length ≤ TriScanlines.mu it :=
    listFuel_length_le_mu (fun _ => True) TriScanlines.mu
      (fun s a s' _ hn => ⟨trivial, triScanlines_next_mu hn⟩) _ it L trivial hL'
  have hrun : Run TriScanlines.nextLoop it L :=
    listFuel_run _ it L hL' (by have := triMu_le it; omega)
  exact ⟨L, hL, hrun, Run.forall (fun x => x.1.isEmpty = false)
    (fun s a s' hn => triScanlines_next_nonempty hn) hrun⟩

/-! ### the pixel iterator -/

/-- The colour of a scanline kind in the pixel iterator. -/
def kindColor (fc sc : Option Nat) : PointType → Option Nat
  | .stroke => sc
  | .fill => fc

/-- The pixels of a scanline with an optional colour: none without a colour. -/
def linePixels (s : Scanline) (col : Option Nat) : Writes :=
  match col with
  | some c => s.points.map (fun p => (p, c))
  | none => []

/-- The pixels of a typed scanline. -/
def typedPixels (fc sc : Option Nat) (x : Scanline × PointType) : Writes :=
  linePixels x.1 (kindColor fc sc x.2)

/-- The first statement of the `loop` of `StyledPixelsIterator::next`. -/
def triHit (it : TriPixels) : Option ((Pt × Nat) × TriPixels) :=
  match it.currentColor with
  | some color =>
    match it.currentLine.next with
    | some (p, l) => some ((p, color), { it with currentLine := l })
    | none => none
  | none => none

theorem triPixels_nextFuel_succ (fuel : Nat) (it : TriPixels) :
    it.nextFuel (fuel + 1) =
      match triHit it with
      | some r => some (some r)
      | none =>
        match it.linesIter.nextLoop with
        | none => none
        | some none => some none
        | some (some ((nextLine, nextType), li)) =>
          TriPixels.nextFuel fuel { it with
            linesIter := li, currentLine := nextLine
            currentColor := kindColor it.fillColor it.strokeColor nextType } := by
  rw [TriPixels.nextFuel]
  unfold triHit
  cases it.currentColor with
  | none =>
    dsimp only
    cases it.linesIter.nextLoop with
    | none => rfl
    | some r =>
      cases r with
      | none => rfl
      | some p =>
        obtain ⟨⟨nl, nt⟩, li⟩ := p
        cases nt <;> rfl
  | some color =>
    dsimp only
    cases it.currentLine.next with
    | some q => rfl
    | none =>
      dsimp only
      cases it.linesIter.nextLoop with
      | none => rfl
      | some r =>
        cases r with
        | none => rfl
        | some p =>
          obtain ⟨⟨nl, nt⟩, li⟩ := p
          cases nt <;> rfl

/-- With enough fuel for the remaining scanlines the `loop` of `next` does not depend on the fuel. -/
theorem triPixels_nextFuel_indep {li : TriScanlines} {L : List (Scanline × PointType)}
    (h : Run TriScanlines.nextLoop li L) :
    ∀ (f1 f2 : Nat) (cur : Scanline) (col fc sc : Option Nat), L.length < f1 → L.length < f2 →
      TriPixels.nextFuel f1 ⟨li, cur, col, fc, sc⟩ = TriPixels.nextFuel f2 ⟨li, cur, col, fc, sc⟩ := by
  induction h with
  | done h1 =>
    intro f1 f2 cur col fc sc hf1 hf2
    obtain ⟨a, rfl⟩ : ∃ a, f1 = a + 1 := ⟨f1 - 1, by omega⟩
    obtain ⟨b, rfl⟩ : ∃ b, f2 = b + 1 := ⟨f2 - 1, by omega⟩
    rw [triPixels_nextFuel_succ, triPixels_nextFuel_succ]
    cases triHit ⟨_, cur, col, fc, sc⟩ with
    | some r => rfl
    | none => dsimp only; rw [h1]
  | @step s s' x l h1 _ ih =>
    intro f1 f2 cur col fc sc hf1 hf2
    simp only [List.length_cons] at hf1 hf2
    obtain ⟨a, rfl⟩ : ∃ a, f1 = a + 1 := ⟨f1 - 1, by omega⟩
    obtain ⟨b, rfl⟩ : ∃ b, f2 = b + 1 := ⟨f2 - 1, by omega⟩
    rw [triPixels_nextFuel_succ, triPixels_nextFuel_succ]
    cases triHit ⟨s, cur, col, fc, sc⟩ with
    | some r => rfl
    | none =>
      dsimp only
      rw [h1]
      obtain ⟨nl, nt⟩ := x
      dsimp only
      exact ih a b nl _ fc sc (by omega) (by omega)

theorem Run.of_next_eq {σ α : Type} {next : σ → Option (Option (α × σ))} {s1 s2 : σ} {l : List α}
    (he : next s1 = next s2) (h : Run next s2 l) : Run next s1 l := by
  cases h with
  | done h1 => exact Run.done (he.trans h1)
  | step h1 hr => exact Run.step (he.trans h1) hr

/-- Draining the current line first (cf. `polyPix_drain`): `hR` covers the states that have no
pixel of the current line to give (no colour, or the line is used up). -/
theorem triPix_drain (li : TriScanlines) (fc sc : Option Nat) (R : Writes)
    (hR : ∀ (cur : Scanline) (col : Option Nat), triHit ⟨li, cur, col, fc, sc⟩ = none →
      Run TriPixels.next ⟨li, cur, col, fc, sc⟩ R) :
    ∀ (n : Nat) (cur : Scanline) (col : Option Nat), (cur.xe - cur.xs).toNat = n →
      Run TriPixels.next ⟨li, cur, col, fc, sc⟩ (linePixels cur col ++ R) := by
  intro n
  induction n with
  | zero =>
    intro cur col hn
    have he : cur.isEmpty = true := by unfold Scanline.isEmpty; simp; omega
    have hp : linePixels cur col = [] := by
      unfold linePixels; cases col <;> simp [scanline_points_nil he]
    rw [hp]
    apply hR
    unfold triHit
    cases col with
    | none => rfl
    | some c => dsimp only; rw [scanline_next_none he]
  | succ n ih =>
    intro cur col hn
    cases col with
    | none => exact hR cur none rfl
    | some c =>
      have he : cur.isEmpty = false := by unfold Scanline.isEmpty; simp; omega
      obtain ⟨h1, h2⟩ := scanline_next_some he
      unfold linePixels
      dsimp only
      rw [h2, List.map_cons, List.cons_append]
      refine Run.step (s' := ⟨li, { cur with xs := cur.xs + 1 }, some c, fc, sc⟩) ?_ ?_
      · unfold TriPixels.next
        rw [triPixels_nextFuel_succ]
        unfold triHit
        dsimp only
        rw [h1]
      · have := ih { cur with xs := cur.xs + 1 } (some c) (by dsimp only; omega)
        unfold linePixels at this
        exact this

/-- **The run of the pixel iterator** whose scanline iterator runs `L` and whose current line is
`cur` with colour `col`: the pixels of `cur`, then those of every coloured scanline of `L`. -/
theorem triPix_run (fc sc : Option Nat) {li : TriScanlines} {L : List (Scanline × PointType)}
    (h : Run TriScanlines.nextLoop li L) (cur : Scanline) (col : Option Nat) :
    Run TriPixels.next ⟨li, cur, col, fc, sc⟩ (linePixels cur col ++ L.flatMap (typedPixels fc sc)) := by
  induction h generalizing cur col with
  | done h1 =>
    apply triPix_drain _ fc sc _ _ _ cur col rfl
    intro cur0 col0 hh
    apply Run.done
    unfold TriPixels.next
    rw [triPixels_nextFuel_succ, hh]
    dsimp only
    rw [h1]
  | @step s s' x l h1 hr ih =>
    apply triPix_drain _ fc sc _ _ _ cur col rfl
    intro cur0 col0 hh
    obtain ⟨nl, nt⟩ := x
    rw [List.flatMap_cons]
    have hrun := ih nl (kindColor fc sc nt)
    refine Run.of_next_eq ?_ hrun
    unfold TriPixels.next
    rw [triPixels_nextFuel_succ, hh]
    dsimp only
    rw [h1]
    dsimp only
    apply triPixels_nextFuel_indep hr
    · have h2 := triRun_length (Run.step h1 hr)
      have h3 := triMu_le s
      simp only [List.length_cons] at h2
      omega
    · have h2 := triRun_length hr
      have h3 := triMu_le s'
      omega

theorem linePixels_newEmpty (y : Int) (col : Option Nat) : linePixels (Scanline.newEmpty y) col = [] := by
  unfold linePixels
  cases col with
  | none => rfl
  | some c => simp [Scanline.points, Scanline.newEmpty, irange_empty]

theorem colorOf_eq_kindColor (style : TriStyle) (k : PointType) :
    style.colorOf k = kindColor style.fillColor style.effectiveStrokeColor k := by
  cases k <;> rfl

/-- **After a first `None` only `None`s**: if the FIRST call of `next()` on the scanline iterator of a
styled triangle returns `None`, the call after it (on the iterator as the first call left it — it is
not fused) returns `None` too. This is what makes `StyledPixelsIterator::new`, which forgives one
`None`, agree with the `for` loop of `draw_styled`, which stops at it. Proved in
EG/Lemmas/TriTopRow.lean: the top row of the styled bounding box always has a scanline unless no row
has one (`triFirstNoneFinal_of_i32` and the guard-free special cases). -/
def TriFirstNoneFinal (t : Tri) (style : TriStyle) : Prop :=
  ∀ li li', triScanlines t style = some li → li.next = some (none, li') → li'.nextLoop = some none

/-- The pixel iterator `StyledPixelsIterator::new` builds runs the pixels of all coloured scanlines. -/
theorem triPix_new (t : Tri) (style : TriStyle) (hf : TriFirstNoneFinal t style) (li : TriScanlines)
    (hli : triScanlines t style = some li)
    (L : List (Scanline × PointType)) (hL : Run TriScanlines.nextLoop li L) :
    ∃ it, TriPixels.new t style = some it ∧
      Run TriPixels.next it (L.flatMap (typedPixels style.fillColor style.effectiveStrokeColor)) := by
  unfold TriPixels.new
  simp only [hli, Option.bind_eq_bind, Option.bind_some]
  cases hL with
  | done h1 =>
    obtain ⟨li', hn⟩ := (TriScanlines.next_none_iff li).mpr h1
    rw [hn]
    refine ⟨_, rfl, ?_⟩
    have := triPix_run style.fillColor style.effectiveStrokeColor (Run.done (hf li li' hli hn))
      (Scanline.newEmpty 0) (style.colorOf .stroke)
    rw [linePixels_newEmpty] at this
    exact this
  | @step _ s' x l h1 hr =>
    obtain ⟨nl, nt⟩ := x
    rw [(TriScanlines.next_some_iff li s' (nl, nt)).mpr h1]
    refine ⟨_, rfl, ?_⟩
    have := triPix_run style.fillColor style.effectiveStrokeColor hr nl (style.colorOf nt)
    rw [List.flatMap_cons]
    unfold typedPixels
    dsimp only
    rw [← colorOf_eq_kindColor]
    exact this

/-! ### `Joins.triDraw` and `Joins.triPixels` in terms of the scanline run -/

/-- The typed scanlines of a styled triangle, as the `for` loop of `draw_styled` sees them. -/
def triScanlineRun (t : Tri) (style : TriStyle) : Option (List (Scanline × PointType)) :=
  (triScanlines t style).bind TriScanlines.toList

theorem triScanlineRun_total (t : Tri) (style : TriStyle) : ∃ L, triScanlineRun t style = some L := by
  obtain ⟨it, hit⟩ := triScanlines_total t style
  obtain ⟨L, hL, -, -⟩ := triLines it
  exact ⟨L, by unfold triScanlineRun; rw [hit]; exact hL⟩

theorem typedPixels_length_le (fc sc : Option Nat) (x : Scanline × PointType) :
    (typedPixels fc sc x).length ≤ (x.1.xe - x.1.xs).toNat := by
  unfold typedPixels linePixels
  cases kindColor fc sc x.2 with
  | none => exact Nat.zero_le _
  | some c => simp only [List.length_map, Scanline.points_length]; exact Nat.le_refl _

/-- The model's fuel for `pixels()` in terms of the scanline run. -/
theorem triPixelFuel_eq (t : Tri) (style : TriStyle) (L : List (Scanline × PointType))
    (hL : triScanlineRun t style = some L) :
    triPixelFuel t style = some ((L.map (fun x => (x.1.xe - x.1.xs).toNat)).sum + 1) := by
  unfold triScanlineRun at hL
  unfold triPixelFuel
  cases hli : triScanlines t style with
  | none => rw [hli] at hL; cases hL
  | some li =>
    rw [hli] at hL
    simp only [Option.bind_some] at hL
    simp only [hL, Option.bind_eq_bind, Option.bind_some, pure]

/-- **`pixels()` of a styled triangle is the complete pixel run**: it walks the coloured scanlines of
the scanline run (what the `for` loop of `draw_styled` sees) point by point; the model's fuel is never
used up. -/
theorem triPixels_eq_run (t : Tri) (style : TriStyle) (hf : TriFirstNoneFinal t style) :
    ∃ L, triScanlineRun t style = some L ∧ (∀ x ∈ L, x.1.isEmpty = false) ∧
      triPixels t style = some (L.flatMap (typedPixels style.fillColor style.effectiveStrokeColor)) := by
  obtain ⟨li, hli⟩ := triScanlines_total t style
  obtain ⟨L, hL, hrun, hne⟩ := triLines li
  have hLr : triScanlineRun t style = some L := by unfold triScanlineRun; rw [hli]; exact hL
  refine ⟨L, hLr, hne, ?_⟩
  obtain ⟨it, hit, hpix⟩ := triPix_new t style hf li hli L hrun
  unfold triPixels
  simp only [triPixelFuel_eq t style L hLr, hit, Option.bind_eq_bind, Option.bind_some]
  rw [triPixels_toListFuel_eq]
  apply hpix.listFuel
  have := flatMap_length_le_sum L (typedPixels style.fillColor style.effectiveStrokeColor)
    (fun x => (x.1.xe - x.1.xs).toNat) (typedPixels_length_le _ _)
  omega

theorem isTransparent_colors {style : TriStyle} (h : style.isTransparent = true) :
    style.fillColor = none ∧ style.effectiveStrokeColor = none := by
  unfold TriStyle.isTransparent at h
  unfold TriStyle.effectiveStrokeColor
  simp only [Bool.and_eq_true, Bool.or_eq_true, Option.isNone_iff_eq_none, beq_iff_eq] at h
  refine ⟨h.2, ?_⟩
  rcases h.1 with h1 | h1
  · rw [h1]; split <;> rfl
  · rw [h1]; rfl

theorem flatMap_typedPixels_none (L : List (Scanline × PointType)) :
    L.flatMap (typedPixels none none) = [] := by
  rw [List.flatMap_eq_nil_iff]
  intro x _
  obtain ⟨s, k⟩ := x
  cases k <;> rfl

/-- **Styled triangle, every style: the writes of `draw()` are the pixels of `pixels()`, in the same
order and with the same colours.** `hr`: no `fill_solid` rectangle saturates `i32`. -/
theorem tri_writes (t : Tri) (style : TriStyle) (hf : TriFirstNoneFinal t style) (B : Rect)
    (calls : List (Rect × Nat)) (px : Writes)
    (hd : triDraw t style = some calls) (hpx : triPixels t style = some px)
    (hr : ∀ rc ∈ calls, rc.1.InRange) :
    (solidCalls calls).flatMap (Call.lowerNative B) = px := by
  obtain ⟨L, hL, hne, hpx''⟩ := triPixels_eq_run t style hf
  have hpx' : px = L.flatMap (typedPixels style.fillColor style.effectiveStrokeColor) := by
    rw [hpx] at hpx''; exact Option.some.inj hpx''
  rw [triDraw_eq] at hd
  by_cases htr : style.isTransparent = true
  · simp only [htr, ↓reduceIte, Option.some.injEq] at hd
    subst hd
    obtain ⟨h1, h2⟩ := isTransparent_colors htr
    rw [hpx', h1, h2, flatMap_typedPixels_none]
    rfl
  · simp only [htr, Bool.false_eq_true, ↓reduceIte] at hd
    unfold triScanlineRun at hL
    rw [hL] at hd
    simp only [Option.map_some, Option.some.injEq] at hd
    subst hd
    rw [hpx']
    clear hpx' hpx'' hL hpx
    induction L with
    | nil => rfl
    | cons x L ih =>
      obtain ⟨s, k⟩ := x
      have hs : s.isEmpty = false := hne (s, k) List.mem_cons_self
      rw [List.flatMap_cons, List.filterMap_cons]
      have hz : s.toRectangle.isZeroSized = false := by
        rw [toRectangle_of_nonempty hs]
        unfold Scanline.isEmpty at hs
        have hx : s.xs < s.xe := by simpa using hs
        unfold Rect.isZeroSized
        simp
        omega
      unfold triCall typedPixels
      dsimp only
      rw [← colorOf_eq_kindColor]
      cases hc : style.colorOf k with
      | none =>
        dsimp only
        unfold linePixels
        dsimp only
        rw [List.nil_append]
        apply ih (fun y hy => hne y (List.mem_cons_of_mem _ hy))
        intro rc hrc
        apply hr
        rw [List.filterMap_cons]
        unfold triCall
        dsimp only
        rw [hc]
        exact hrc
      | some c =>
        have hfm : (List.filterMap (triCall style) ((s, k) :: L)) =
            (s.toRectangle, c) :: List.filterMap (triCall style) L := by
          rw [List.filterMap_cons]
          unfold triCall
          dsimp only
          rw [hc]
          simp only [hz, Bool.not_false, ↓reduceIte]
        simp only [hz, Bool.not_false, ↓reduceIte]
        unfold solidCalls
        rw [List.map_cons, List.flatMap_cons]
        unfold linePixels
        dsimp only
        rw [fillSolid_toRectangle_lower s hs (hr (s.toRectangle, c) (by rw [hfm]; exact List.mem_cons_self))]
        congr 1
        apply ih (fun y hy => hne y (List.mem_cons_of_mem _ hy))
        intro rc hrc
        apply hr
        rw [hfm]
        exact List.mem_cons_of_mem _ hrc

/-! ### guards -/

/-- Guard: no `fill_solid` rectangle of `draw_styled` saturates `i32`. -/
def TriRectsInRange (t : Tri) (style : TriStyle) : Prop :=
  match triDraw t style with
  | some calls => ∀ rc ∈ calls, rc.1.InRange
  | none => True

instance (t : Tri) (style : TriStyle) : Decidable (TriRectsInRange t style) := by
  unfold TriRectsInRange; split <;> exact inferInstance

/-- `tri_writes` with the range guard. -/
theorem triStyled_writes (t : Tri) (style : TriStyle) (hf : TriFirstNoneFinal t style) (B : Rect)
    (hr : TriRectsInRange t style) (calls : List (Rect × Nat)) (px : Writes)
    (hd : triDraw t style = some calls) (hpx : triPixels t style = some px) :
    (solidCalls calls).flatMap (Call.lowerNative B) = px := by
  apply tri_writes t style hf B calls px hd hpx
  unfold TriRectsInRange at hr
  rw [hd] at hr
  exact hr

/-- `draw()` and `pixels()` visit the same typed scanlines in the same order: one list `L` gives
both the `fill_solid` calls (coloured scanlines, as rectangles) and the pixels (coloured scanlines,
point by point). -/
theorem tri_same_scanlines (t : Tri) (style : TriStyle) (hf : TriFirstNoneFinal t style) :
    ∃ L : List (Scanline × PointType), (∀ x ∈ L, x.1.isEmpty = false) ∧
      triDraw t style = some (if style.isTransparent then [] else L.filterMap (triCall style)) ∧
      triPixels t style = some (L.flatMap (typedPixels style.fillColor style.effectiveStrokeColor)) := by
  obtain ⟨L, hL, hne, hpx'⟩ := triPixels_eq_run t style hf
  refine ⟨L, hne, ?_, hpx'⟩
  rw [triDraw_eq]
  unfold triScanlineRun at hL
  by_cases htr : style.isTransparent = true
  · simp only [htr, ↓reduceIte]
  · simp only [htr, Bool.false_eq_true, ↓reduceIte, hL, Option.map_some]

end C01Thick
end EG
