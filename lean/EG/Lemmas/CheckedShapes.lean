/-
  EG.Lemmas.CheckedShapes — range theorems of the `Circle` / `Ellipse` / `EllipseContains` kernels.

  Shape domain `S` (4 times the display scale in the coordinates, 8 times in the sizes):
    `S.coord x`  : |x| <= 4096      (top-left corners; covers stroke areas: 1024 + 128)
    `S.size n`   : n <= 8192        (sizes / diameters; covers stroke areas: 1024 + 2 * 128)
    `S.probe x`  : |x| <= 8192      (probe points of `contains`; covers every point of a stroke area)
  With these bounds the doubled difference `center_2x - 2 p` is at most 32767 in absolute value,
  the largest value whose squared length `x^2 + y^2` still fits `i32` (circle), and below 46341,
  the largest `i32` whose square fits (ellipse).
-/
import EG.Lemmas.Checked
import EG.Model.CheckedShapes
import Mathlib.Tactic.Linarith
namespace EG.Chk
open EG

def S.coord (x : Int) : Prop := -4096 ≤ x ∧ x ≤ 4096
def S.size (n : Nat) : Prop := n ≤ 8192
def S.probe (x : Int) : Prop := -8192 ≤ x ∧ x ≤ 8192
instance (x : Int) : Decidable (S.coord x) := by unfold S.coord; exact inferInstance
instance (n : Nat) : Decidable (S.size n) := by unfold S.size; exact inferInstance
instance (x : Int) : Decidable (S.probe x) := by unfold S.probe; exact inferInstance

/-! ## Squares and products under bounds -/

theorem sq_le_of_abs_le {a B : Int} (h1 : -B ≤ a) (h2 : a ≤ B) : a * a ≤ B * B := by
  nlinarith [mul_nonneg (show 0 ≤ B - a by omega) (show 0 ≤ B + a by omega)]

theorem sq_nonneg' (a : Int) : 0 ≤ a * a := mul_self_nonneg a

theorem nat_sq_le {a B : Nat} (h : a ≤ B) : a * a ≤ B * B := Nat.mul_le_mul h h

/-! ## `diameter_to_threshold`, `length_squared` -/

theorem diameterToThreshold_ok {d : Nat} (h : d ≤ 65535) :
    diameterToThreshold d = some (EG.diameterToThreshold d) := by
  have h2 : d * d ≤ 65535 * 65535 := nat_sq_le h
  unfold diameterToThreshold EG.diameterToThreshold
  split
  · have : d / 2 ≤ d * d := by
      rcases Nat.eq_zero_or_pos d with h0 | h0
      · subst h0; simp
      · calc d / 2 ≤ d := Nat.div_le_self d 2
          _ = d * 1 := (Nat.mul_one d).symm
          _ ≤ d * d := Nat.mul_le_mul_left d h0
    chk_simp
  · chk_simp

theorem lengthSquared_ok {p : Pt} (hx : -32767 ≤ p.x ∧ p.x ≤ 32767) (hy : -32767 ≤ p.y ∧ p.y ≤ 32767) :
    lengthSquared p = some (EG.lengthSquared p) := by
  have h1 := sq_le_of_abs_le hx.1 hx.2
  have h2 := sq_le_of_abs_le hy.1 hy.2
  have h3 := sq_nonneg' p.x
  have h4 := sq_nonneg' p.y
  unfold lengthSquared EG.lengthSquared
  chk_simp

/-! ## `Circle` -/

theorem Circle.center2x_ok {c : EG.Circle} (ht : W.pt c.tl) (hd : W.size c.d) :
    Circle.center2x c = some c.center2x := by
  obtain ⟨⟨_, _⟩, ⟨_, _⟩⟩ := ht
  unfold W.size at hd
  unfold Circle.center2x EG.Circle.center2x
  rw [ptMul_ok (by omega) (by omega)]
  chk_simp
  rw [ptAddSize_ok (by simp only; omega) (by simp only; omega) (by simp only; omega) (by simp only; omega)]

theorem Circle.contains_ok {c : EG.Circle} (hx : S.coord c.tl.x) (hy : S.coord c.tl.y) (hd : S.size c.d)
    {p : Pt} (hpx : S.probe p.x) (hpy : S.probe p.y) :
    Circle.contains c p = some (c.contains p) := by
  obtain ⟨_, _⟩ := hx
  obtain ⟨_, _⟩ := hy
  obtain ⟨_, _⟩ := hpx
  obtain ⟨_, _⟩ := hpy
  unfold S.size at hd
  unfold Circle.contains
  rw [Circle.center2x_ok (by unfold W.pt W.coord; omega) (by unfold W.size; omega)]
  rw [ptMul_ok (by omega) (by omega)]
  chk_simp
  have e1 : c.center2x.x = c.tl.x * 2 + ((c.d - 1 : Nat) : Int) := rfl
  have e2 : c.center2x.y = c.tl.y * 2 + ((c.d - 1 : Nat) : Int) := rfl
  rw [ptSub_ok (by simp only; omega) (by simp only; omega)]
  chk_simp
  rw [lengthSquared_ok (by simp only [Pt.sub_x]; omega) (by simp only [Pt.sub_y]; omega)]
  chk_simp
  rw [diameterToThreshold_ok (by omega)]
  chk_simp
  have hn : 0 ≤ EG.lengthSquared (c.center2x - ⟨p.x * 2, p.y * 2⟩) := by
    unfold EG.lengthSquared
    have := sq_nonneg' (c.center2x - ⟨p.x * 2, p.y * 2⟩ : Pt).x
    have := sq_nonneg' (c.center2x - ⟨p.x * 2, p.y * 2⟩ : Pt).y
    omega
  rw [i32AsU32_nonneg hn]
  rfl

theorem Circle.withCenter_ok {ctr : Pt} {d : Nat}
    (hc : (-1073741824 ≤ ctr.x ∧ ctr.x ≤ 1073741824) ∧ (-1073741824 ≤ ctr.y ∧ ctr.y ≤ 1073741824))
    (hd : d ≤ 2147483648) : Circle.withCenter ctr d = some (EG.Circle.withCenter ctr d) := by
  unfold Circle.withCenter EG.Circle.withCenter
  rw [Chk.withCenter_ok hc ⟨hd, hd⟩]
  rfl

/-- `Circle::offset` for `|offset| <= 2^28`. -/
theorem Circle.offset_ok {c : EG.Circle} (ht : W.pt c.tl) (hd : W.size c.d) {o : Int} (ho : W.coord o) :
    Circle.offset c o = some (c.offset o) := by
  have hcb := center_bounds c.boundingBox
  have e1 : c.boundingBox.tl = c.tl := rfl
  have e2 : c.boundingBox.size = ⟨c.d, c.d⟩ := rfl
  rw [e1, e2] at hcb
  simp only at hcb
  obtain ⟨⟨_, _⟩, ⟨_, _⟩⟩ := ht
  obtain ⟨_, _⟩ := ho
  unfold W.size at hd
  unfold Circle.offset EG.Circle.offset
  by_cases hpos : o ≥ 0
  · simp only [hpos, ↓reduceIte]
    rw [ptSub_ok (by simp only; omega) (by simp only; omega)]
    chk_simp
  · simp only [hpos, ↓reduceIte]
    rw [center_ok (by rw [e1]; unfold W.pt W.coord; omega) (by rw [e2]; simp only; omega)]
    chk_simp
    apply Circle.withCenter_ok (by omega)
    omega

/-! ## `EllipseContains` -/

theorem pow2_nat (n : Nat) : n ^ 2 = n * n := Nat.pow_two n
theorem pow2_int (a : Int) : a ^ 2 = a * a := pow_two a

theorem EllipseContains.new_ok {s : Sz} (hw : s.w ≤ 65535) (hh : s.h ≤ 65535) :
    EllipseContains.new s = some (EG.EllipseContains.new s) := by
  have h1 : s.w * s.w ≤ 65535 * 65535 := nat_sq_le hw
  have h2 : s.h * s.h ≤ 65535 * 65535 := nat_sq_le hh
  have h3 : (s.h * s.h) * (s.w * s.w) ≤ (65535 * 65535) * (65535 * 65535) := Nat.mul_le_mul h2 h1
  unfold EllipseContains.new EG.EllipseContains.new
  simp only [pow2_nat]
  chk_simp
  split
  · rw [diameterToThreshold_ok hw]; rfl
  · chk_simp

/-- `contains` for every `EllipseContains` built from `u32` squares (`a, b < 2^32`) and every point
whose coordinates have squares in `i32` (`|x|, |y| <= 46340`): the `u64` products cannot
overflow. -/
theorem EllipseContains.contains_ok {e : EG.EllipseContains} (ha : e.a ≤ 4294967295) (hb : e.b ≤ 4294967295)
    {p : Pt} (hx : -46340 ≤ p.x ∧ p.x ≤ 46340) (hy : -46340 ≤ p.y ∧ p.y ≤ 46340) :
    EllipseContains.contains e p = some (e.contains p) := by
  have h1 := sq_le_of_abs_le hx.1 hx.2
  have h2 := sq_le_of_abs_le hy.1 hy.2
  have h3 := sq_nonneg' p.x
  have h4 := sq_nonneg' p.y
  have h5 : e.b * (p.x * p.x).toNat ≤ 4294967295 * 2147395600 :=
    Nat.mul_le_mul hb (by omega)
  have h6 : e.a * (p.y * p.y).toNat ≤ 4294967295 * 2147395600 :=
    Nat.mul_le_mul ha (by omega)
  unfold EllipseContains.contains EG.EllipseContains.contains
  simp only [pow2_int]
  chk_simp
  split <;> chk_simp

/-! ## `Ellipse` -/

theorem Ellipse.center2x_ok {e : EG.Ellipse} (ht : W.pt e.tl) (hs : W.sz e.size) :
    Ellipse.center2x e = some e.center2x := by
  obtain ⟨⟨_, _⟩, ⟨_, _⟩⟩ := ht
  obtain ⟨_, _⟩ := hs
  unfold W.size at *
  unfold Ellipse.center2x Ellipse.center2xOf EG.Ellipse.center2x EG.Ellipse.center2xOf
  rw [ptMul_ok (by omega) (by omega)]
  chk_simp
  rw [ptAddSize_ok (by simp only; omega) (by simp only; omega) (by simp only; omega) (by simp only; omega)]

theorem Ellipse.contains_ok {e : EG.Ellipse} (hx : S.coord e.tl.x) (hy : S.coord e.tl.y)
    (hw : S.size e.size.w) (hh : S.size e.size.h) {p : Pt} (hpx : S.probe p.x) (hpy : S.probe p.y) :
    Ellipse.contains e p = some (e.contains p) := by
  obtain ⟨_, _⟩ := hx
  obtain ⟨_, _⟩ := hy
  obtain ⟨_, _⟩ := hpx
  obtain ⟨_, _⟩ := hpy
  unfold S.size at *
  unfold Ellipse.contains EG.Ellipse.contains
  rw [EllipseContains.new_ok (by omega) (by omega)]
  rw [ptMul_ok (by omega) (by omega)]
  rw [Ellipse.center2x_ok (by unfold W.pt W.coord; omega) (by unfold W.sz W.size; omega)]
  chk_simp
  have e1 : e.center2x.x = e.tl.x * 2 + ((e.size.w - 1 : Nat) : Int) := rfl
  have e2 : e.center2x.y = e.tl.y * 2 + ((e.size.h - 1 : Nat) : Int) := rfl
  rw [ptSub_ok (by simp only; omega) (by simp only; omega)]
  chk_simp
  have ha : (EG.EllipseContains.new e.size).a ≤ 4294967295 := by
    have : e.size.w * e.size.w ≤ 8192 * 8192 := nat_sq_le (by omega)
    simp only [EG.EllipseContains.new, pow2_nat]; omega
  have hb : (EG.EllipseContains.new e.size).b ≤ 4294967295 := by
    have : e.size.h * e.size.h ≤ 8192 * 8192 := nat_sq_le (by omega)
    simp only [EG.EllipseContains.new, pow2_nat]; omega
  exact EllipseContains.contains_ok ha hb (by simp only [Pt.sub_x]; omega) (by simp only [Pt.sub_y]; omega)

theorem Ellipse.withCenter_ok {ctr : Pt} {s : Sz}
    (hc : (-1073741824 ≤ ctr.x ∧ ctr.x ≤ 1073741824) ∧ (-1073741824 ≤ ctr.y ∧ ctr.y ≤ 1073741824))
    (hs : s.w ≤ 2147483648 ∧ s.h ≤ 2147483648) :
    Ellipse.withCenter ctr s = some (EG.Ellipse.withCenter ctr s) := by
  unfold Ellipse.withCenter EG.Ellipse.withCenter
  rw [Chk.withCenter_ok hc hs]
  rfl

/-- `Ellipse::offset` for `|offset| <= 2^28`. -/
theorem Ellipse.offset_ok {e : EG.Ellipse} (ht : W.pt e.tl) (hs : W.sz e.size) {o : Int} (ho : W.coord o) :
    Ellipse.offset e o = some (e.offset o) := by
  have hcb := center_bounds e.boundingBox
  have e1 : e.boundingBox.tl = e.tl := rfl
  have e2 : e.boundingBox.size = e.size := rfl
  rw [e1, e2] at hcb
  obtain ⟨⟨_, _⟩, ⟨_, _⟩⟩ := ht
  obtain ⟨_, _⟩ := hs
  obtain ⟨_, _⟩ := ho
  unfold W.size at *
  unfold Ellipse.offset EG.Ellipse.offset
  by_cases hpos : o ≥ 0
  · simp only [hpos, ↓reduceIte]
    rw [ptSub_ok (by simp only; omega) (by simp only; omega)]
    chk_simp
  · simp only [hpos, ↓reduceIte]
    rw [center_ok (by rw [e1]; unfold W.pt W.coord; omega) (by rw [e2]; omega)]
    chk_simp
    apply Ellipse.withCenter_ok (by omega)
    simp only [Sz.satSub, Sz.newEqual]
    omega

/-! ## Why `u64`: the old `u32` arithmetic overflows inside the display scale -/

/-- The old `u32` threshold `w^2 * h^2` of a 320 x 240 ellipse does not fit. -/
theorem Old.ellipse_threshold_exceeds_u32 : ¬ (320 ^ 2 * 240 ^ 2 ≤ 4294967295) := by decide

/-- The old constructor panics for the 320 x 240 ellipse, the current one does not. -/
theorem Old.ellipseNew_320x240 :
    Old.ellipseNew ⟨320, 240⟩ = none ∧ (EllipseContains.new ⟨320, 240⟩).isSome = true := by
  constructor <;> decide

/-- The old `contains` sum `b x + a y` overflows `u32` although the threshold fits:
256 x 255 ellipse (threshold 65536 * 65025 < 2^32), probe point (256, 255) in doubled
coordinates (the corner of the bounding box). -/
theorem Old.ellipseContains_256x255 :
    (Old.ellipseNew ⟨256, 255⟩).isSome = true ∧
    Old.ellipseContains ⟨65536, 65025, 4261478400⟩ ⟨256, 255⟩ = none ∧
    (EllipseContains.contains ⟨65536, 65025, 4261478400⟩ ⟨256, 255⟩).isSome = true := by
  refine ⟨?_, ?_, ?_⟩ <;> decide

end EG.Chk
