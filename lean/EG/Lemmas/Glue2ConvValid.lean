/-
  EG.Lemmas.Glue2ConvValid — every generated colour conversion returns a value of its target type
  (`ColorSpec.Valid`), whatever number it is applied to. Used by the C03 / C13 glue
  (Props/C03/Conversions.lean): the colours a colour-converted target hands to its parent are values of
  the parent's colour type.
-/
import EG.Lemmas.ColorConvLift
namespace EG.Glue2
open EG EG.Generated EG.ColorSpec EG.Conv

/-- both ends of every resolved conversion are records of the colour table -/
theorem conv_ends_in_table : ∀ x ∈ resolvedTable, x.a ∈ colorTable ∧ x.b ∈ colorTable := by decide +kernel

/-- the conversions out of `BinaryColor` start at the binary type, those into it end there -/
theorem conv_binary_ends : ∀ x ∈ resolvedTable,
    (x.kind = .fromBinary → x.a.kind = .binary) ∧
    ((x.kind = .grayBinary ∨ x.kind = .rgbBinary) → x.b.kind = .binary) := by decide +kernel

/-- `BLACK` and `WHITE` are values of their type -/
theorem black_white_valid : ∀ s ∈ colorTable, s.Valid (black s) ∧ s.Valid (white s) := by decide +kernel

theorem valid_binary_of_lt {s : ColorSpec} (hk : s.kind = .binary) {c : Nat} (hc : c < 2) : s.Valid c := by
  unfold ColorSpec.Valid; rw [hk]; exact hc

/-- **Every generated conversion returns a value of its target type.** -/
theorem apply_valid : ∀ x ∈ resolvedTable, ∀ c, x.b.Valid (x.apply c) := by
  intro x hx c
  obtain ⟨_, hb⟩ := conv_ends_in_table x hx
  cases hk : x.kind with
  | rgbRgb =>
    rw [apply_rgbRgb hk]
    exact Color.new_valid x.b hb (typed_rgbRgb x hx hk).2.2.2 _ _ _
  | grayGray =>
    rw [apply_grayGray hk]
    exact Color.grayNew_valid x.b hb (typed_grayGray x hx hk).2.2.2 _
  | grayRgb =>
    rw [apply_grayRgb hk]
    exact Color.new_valid x.b hb (typed_grayRgb x hx hk).2.2.2 _ _ _
  | rgbGray =>
    rw [apply_rgbGray hk]
    obtain ⟨_, _, _, hg, hgk, _⟩ := typed_via x hx
    unfold rgbToGray
    simp only
    split
    · rename_i hn
      have hn' : x.b.name = x.g8.name := by simpa using hn
      rw [names_unique x.b hb x.g8 hg hn']
      exact Color.grayNew_valid x.g8 hg hgk _
    · exact Color.grayNew_valid x.b hb (typed_rgbGray x hx hk).2.2.2 _
  | fromBinary =>
    have : x.apply c = fromBinary x.b c := by unfold Resolved.apply; rw [hk]
    rw [this]
    unfold fromBinary
    split
    · exact (black_white_valid x.b hb).2
    · exact (black_white_valid x.b hb).1
  | grayBinary =>
    rw [apply_grayBinary hk]
    apply valid_binary_of_lt ((conv_binary_ends x hx).2 (Or.inl hk))
    unfold grayToBinary; split <;> omega
  | rgbBinary =>
    rw [apply_rgbBinary hk]
    apply valid_binary_of_lt ((conv_binary_ends x hx).2 (Or.inr hk))
    unfold rgbToBinary; split <;> omega

end EG.Glue2
