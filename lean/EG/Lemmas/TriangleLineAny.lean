/-
  EG.Lemmas.TriangleLineAny — the row lemmas of EG.Lemmas.TriangleLine / TriangleExact for lines of
  either direction (the one-pixel outline rasterises the edges in the cyclic order of the
  `sorted_clockwise` triangle, so some run upwards): rows along `points()` are monotone, every row
  between the end points is hit, the pixels of one row are contiguous, and
  `bresenham_intersection` extends the scanline by exactly the pixels of its row.
-/
import EG.Lemmas.TriangleExact
namespace EG
namespace Line

theorem sgn_of_neg {a : Int} (h : a < 0) : sgn a = -1 := by
  unfold sgn; simp; omega

/-- One step of an upward line moves the row by 0 or -1. -/
theorem ptAt_y_step_up {l : Line} (h : dyOf l < 0) (k : Nat) :
    (ptAt l (k + 1)).y = (ptAt l k).y ∨ (ptAt l (k + 1)).y = (ptAt l k).y - 1 := by
  obtain ⟨hy, hx⟩ := ptAt_step l k
  have hs := sgn_of_neg h
  by_cases hm : yMajor l
  · have := (hy hm).1; omega
  · have := (hx hm).2; omega

theorem ptAt_y_ge_up {l : Line} (h : dyOf l < 0) {i j : Nat} (hij : i ≤ j) :
    (ptAt l j).y ≤ (ptAt l i).y := by
  obtain ⟨n, rfl⟩ := Nat.exists_eq_add_of_le hij
  induction n with
  | zero => exact Int.le_refl _
  | succ n ih =>
    have := ptAt_y_step_up h (i + n)
    have := ih (by omega)
    rw [← Nat.add_assoc]; omega

theorem points_pairwise_y_up {l : Line} (h : dyOf l < 0) :
    (points l).Pairwise (fun a b => b.y ≤ a.y) := by
  rw [points_eq, List.pairwise_map]
  have : (List.range ((dmaj l).toNat + 1)).Pairwise (· < ·) := List.pairwise_lt_range
  refine this.imp ?_
  intro i j hij
  exact ptAt_y_ge_up h (by omega)

/-- Every row between the end points of an upward line is hit. -/
theorem exists_point_in_row_up {l : Line} (h : dyOf l < 0) (y : Int) (h1 : l.stop.y ≤ y)
    (h2 : y ≤ l.start.y) : ∃ p ∈ points l, p.y = y := by
  have key : ∀ k : Nat, (ptAt l k).y ≤ y → ∃ j : Nat, j ≤ k ∧ (ptAt l j).y = y := by
    intro k
    induction k with
    | zero =>
      intro hk
      rw [ptAt_zero] at hk
      exact ⟨0, Nat.le_refl _, by rw [ptAt_zero]; omega⟩
    | succ k ih =>
      intro hk
      by_cases hc : (ptAt l k).y ≤ y
      · obtain ⟨j, hj, e⟩ := ih hc
        exact ⟨j, by omega, e⟩
      · have := ptAt_y_step_up h k
        exact ⟨k + 1, Nat.le_refl _, by omega⟩
  have hd := dmaj_nonneg l
  have hlast := ptAt_last l (dmaj l).toNat (by omega)
  obtain ⟨j, hj, e⟩ := key (dmaj l).toNat (by rw [hlast]; exact h1)
  exact ⟨ptAt l j, mem_points.mpr ⟨j, by omega, rfl⟩, e⟩

/-- Every row between the end points of a line is hit (either direction). -/
theorem exists_point_in_row_any (l : Line) (y : Int) (h1 : min l.start.y l.stop.y ≤ y)
    (h2 : y ≤ max l.start.y l.stop.y) : ∃ p ∈ points l, p.y = y := by
  by_cases h : 0 ≤ dyOf l
  · have := h; unfold dyOf at this
    exact exists_point_in_row h y (by omega) (by omega)
  · have := h; unfold dyOf at this
    exact exists_point_in_row_up (by omega) y (by omega) (by omega)

/-- Within one row the pixels of an upward line are contiguous. -/
theorem row_contiguous_up {l : Line} (h : dyOf l < 0) {q q' : Pt} (hq : q ∈ points l)
    (hq' : q' ∈ points l) (hy : q.y = q'.y) {x : Int} (h1 : q.x ≤ x) (h2 : x ≤ q'.x) :
    (⟨x, q.y⟩ : Pt) ∈ points l := by
  obtain ⟨k, hk, rfl⟩ := mem_points.mp hq
  obtain ⟨k', hk', rfl⟩ := mem_points.mp hq'
  by_cases hm : yMajor l
  · rw [ptAt_of_yMajor hm, ptAt_of_yMajor hm] at hy
    dsimp only at hy
    rw [sgn_of_neg h] at hy
    have e : k = k' := by omega
    subst e
    have : x = (ptAt l k).x := by omega
    rw [this, pt_eta]
    exact mem_points.mpr ⟨k, hk, rfl⟩
  · have ex : ∀ m : Nat, (ptAt l m).x = l.start.x + (m : Int) * sgn (dxOf l) := by
      intro m; rw [ptAt_of_xMajor hm]
    rw [ex k] at h1
    rw [ex k'] at h2
    rcases sgn_cases (dxOf l) with ⟨_, hs, _⟩ | ⟨_, hs, _⟩
    · rw [hs] at h1 h2
      have hm0 : 0 ≤ x - l.start.x := by omega
      obtain ⟨m, em⟩ := Int.eq_ofNat_of_zero_le hm0
      have hkm : k ≤ m := by omega
      have hmk : m ≤ k' := by omega
      have y1 := ptAt_y_ge_up h hkm
      have y2 := ptAt_y_ge_up h hmk
      refine mem_points.mpr ⟨m, by omega, ?_⟩
      rw [Pt.ext_iff']
      refine ⟨?_, ?_⟩
      · rw [ex m, hs]; dsimp only; omega
      · dsimp only; omega
    · rw [hs] at h1 h2
      have hm0 : 0 ≤ l.start.x - x := by omega
      obtain ⟨m, em⟩ := Int.eq_ofNat_of_zero_le hm0
      have hkm : k' ≤ m := by omega
      have hmk : m ≤ k := by omega
      have y1 := ptAt_y_ge_up h hkm
      have y2 := ptAt_y_ge_up h hmk
      refine mem_points.mpr ⟨m, by omega, ?_⟩
      rw [Pt.ext_iff']
      refine ⟨?_, ?_⟩
      · rw [ex m, hs]; dsimp only; omega
      · dsimp only; omega

/-- Within one row the pixels of a line are contiguous (either direction). -/
theorem row_contiguous_any (l : Line) {q q' : Pt} (hq : q ∈ points l) (hq' : q' ∈ points l)
    (hy : q.y = q'.y) {x : Int} (h1 : q.x ≤ x) (h2 : x ≤ q'.x) : (⟨x, q.y⟩ : Pt) ∈ points l := by
  by_cases h : 0 ≤ dyOf l
  · exact row_contiguous h hq hq' hy h1 h2
  · exact row_contiguous_up (by omega) hq hq' hy h1 h2

end Line

/-! ## `skip_while(.. != y).take_while(.. == y)` on a list with non-increasing rows -/

theorem takeWhile_eq_filter_of_le (y : Int) : ∀ (l : List Pt),
    l.Pairwise (fun a b => b.y ≤ a.y) → (∀ p ∈ l, p.y ≤ y) →
    l.takeWhile (fun p => p.y == y) = l.filter (fun p => p.y == y) := by
  intro l
  induction l with
  | nil => intro _ _; rfl
  | cons a l ih =>
    intro hp hge
    rw [List.pairwise_cons] at hp
    by_cases ha : a.y = y
    · have : (a.y == y) = true := by simpa using ha
      rw [List.takeWhile_cons, List.filter_cons]
      simp only [this, ↓reduceIte]
      rw [ih hp.2 (fun p hp' => hge p (List.mem_cons_of_mem _ hp'))]
    · have hf : (a.y == y) = false := by simpa using ha
      rw [List.takeWhile_cons, List.filter_cons]
      simp only [hf, Bool.false_eq_true, ↓reduceIte]
      symm
      rw [List.filter_eq_nil_iff]
      intro p hp'
      have h1 := hp.1 p hp'
      have h2 := hge a List.mem_cons_self
      simp only [beq_iff_eq]; omega

theorem dropTake_eq_filter_up (y : Int) : ∀ (l : List Pt), l.Pairwise (fun a b => b.y ≤ a.y) →
    (l.dropWhile (fun p => p.y != y)).takeWhile (fun p => p.y == y) =
      l.filter (fun p => p.y == y) := by
  intro l
  induction l with
  | nil => intro _; rfl
  | cons a l ih =>
    intro hp
    have hp' := hp
    rw [List.pairwise_cons] at hp
    by_cases ha : a.y = y
    · have h1 : (a.y != y) = false := by simp [ha]
      rw [List.dropWhile_cons]
      simp only [h1, Bool.false_eq_true, ↓reduceIte]
      apply takeWhile_eq_filter_of_le y _ hp'
      intro p hp''
      rcases List.mem_cons.mp hp'' with rfl | hm
      · omega
      · have := hp.1 p hm; omega
    · have h1 : (a.y != y) = true := by simp [ha]
      have h2 : (a.y == y) = false := by simpa using ha
      rw [List.dropWhile_cons, List.filter_cons]
      simp only [h1, h2, ↓reduceIte, Bool.false_eq_true]
      exact ih hp.2

namespace Scanline

theorem bint_eq_extendAll_up (s : Scanline) {l : Line} (h : Line.dyOf l < 0) :
    s.bint l = s.extendAll (rowPixels l s.y) := by
  have hd : ¬ l.start.y ≤ l.stop.y := by unfold Line.dyOf at h; omega
  unfold bint bresenhamIntersection
  simp only [hd, ↓reduceIte]
  by_cases hin : l.stop.y ≤ s.y ∧ s.y ≤ l.start.y
  · simp only [hin, and_self, decide_true, Bool.not_true, Bool.false_eq_true, ↓reduceIte]
    rw [dropTake_eq_filter_up s.y _ (Line.points_pairwise_y_up h)]
    rfl
  · simp only [hin, decide_false, Bool.not_false, ↓reduceIte]
    have : rowPixels l s.y = [] := by
      unfold rowPixels
      rw [List.filter_eq_nil_iff]
      intro p hp
      obtain ⟨k, hk, rfl⟩ := Line.mem_points.mp hp
      have hb := Line.ptAt_in_box l k hk
      simp only [beq_iff_eq]; omega
    rw [this]; rfl

/-- `bresenham_intersection` extends the scanline by exactly the pixels of the line in its row. -/
theorem bint_eq_extendAll_any (s : Scanline) (l : Line) :
    s.bint l = s.extendAll (rowPixels l s.y) := by
  by_cases h : 0 ≤ Line.dyOf l
  · exact bint_eq_extendAll s h
  · exact bint_eq_extendAll_up s (by omega)

/-- The scanline of one edge in one row: exactly the pixels of the line in that row. -/
theorem edgeSpan_covers_iff (l : Line) (y x : Int) :
    ((newEmpty y).bint l).Covers x ↔ (⟨x, y⟩ : Pt) ∈ Line.points l := by
  rw [bint_eq_extendAll_any]
  have hy0 : (newEmpty y).y = y := rfl
  rw [hy0]
  constructor
  · intro hc
    have hne : ((newEmpty y).extendAll (rowPixels l y)).xs < ((newEmpty y).extendAll (rowPixels l y)).xe := by
      unfold Covers at hc; omega
    obtain ⟨e1, e2⟩ := extendAll_ends (rowPixels l y) (newEmpty y) hne
    have hn0 : ¬ ((newEmpty y).xs < (newEmpty y).xe) := by simp [newEmpty]
    have ⟨q1, hq1, ex1⟩ : ∃ q ∈ rowPixels l y, q.x = ((newEmpty y).extendAll (rowPixels l y)).xs := by
      rcases e1 with e | ⟨c, _⟩
      · exact e
      · exact absurd c hn0
    have ⟨q2, hq2, ex2⟩ : ∃ q ∈ rowPixels l y, q.x + 1 = ((newEmpty y).extendAll (rowPixels l y)).xe := by
      rcases e2 with e | ⟨c, _⟩
      · exact e
      · exact absurd c hn0
    obtain ⟨hm1, hy1⟩ := mem_rowPixels.mp hq1
    obtain ⟨hm2, hy2⟩ := mem_rowPixels.mp hq2
    unfold Covers at hc
    have := Line.row_contiguous_any l hm1 hm2 (by omega) (show q1.x ≤ x by omega)
      (show x ≤ q2.x by omega)
    rw [hy1] at this
    exact this
  · intro hm
    exact extendAll_covers _ _ ⟨x, y⟩ (mem_rowPixels.mpr ⟨hm, rfl⟩)

theorem edgeSpan_y (l : Line) (y : Int) : ((newEmpty y).bint l).y = y := by
  rw [bint_eq_extendAll_any, extendAll_y]; rfl

end Scanline
end EG
