/-
  EG.Lemmas.CheckedLine — range theorems of the Bresenham kernels (`BresenhamParameters::new`,
  `Bresenham::next`, `major_length`, `Line::points()`): for end points within `|x| <= 2^28`
  (`Chk.W`) the checked walk returns `some` of the plain walk.

  The proof does not need the closed form of the walk, only an inductive invariant of the plain
  state: `-T <= error <= T + M` (`T` = error threshold = major delta, `M = 2 * minor delta`) and
  "each call moves the point by at most one pixel per axis".
-/
import EG.Lemmas.CheckedShapes
import EG.Model.CheckedLine
import EG.Lemmas.LinePoints
namespace EG.Chk
open EG

theorem ptAbs_ok {p : Pt} (hx : -2147483647 ≤ p.x ∧ p.x ≤ 2147483647)
    (hy : -2147483647 ≤ p.y ∧ p.y ≤ 2147483647) : ptAbs p = some p.abs := by
  unfold ptAbs Pt.abs
  rw [chkI32_ok (by split <;> omega) (by split <;> omega),
    chkI32_ok (by split <;> omega) (by split <;> omega)]
  rfl

theorem abs_x_cases (p : Pt) : (p.abs.x = p.x ∧ 0 ≤ p.x) ∨ (p.abs.x = -p.x ∧ p.x < 0) := by
  unfold Pt.abs; simp only; split <;> omega
theorem abs_y_cases (p : Pt) : (p.abs.y = p.y ∧ 0 ≤ p.y) ∨ (p.abs.y = -p.y ∧ p.y < 0) := by
  unfold Pt.abs; simp only; split <;> omega

/-- `BresenhamParameters::new` for end points within `|x| <= 2^28`. -/
theorem bresenhamParametersNew_ok {l : Line} (hs : W.pt l.start) (he : W.pt l.stop) :
    bresenhamParametersNew l = some (BresenhamParameters.new l) := by
  obtain ⟨⟨_, _⟩, ⟨_, _⟩⟩ := hs
  obtain ⟨⟨_, _⟩, ⟨_, _⟩⟩ := he
  unfold bresenhamParametersNew BresenhamParameters.new
  rw [ptSub_ok (by omega) (by omega)]
  chk_simp
  rw [ptAbs_ok (by simp only [Pt.sub_x]; omega) (by simp only [Pt.sub_y]; omega)]
  chk_simp
  have hx := abs_x_cases (l.stop - l.start)
  have hy := abs_y_cases (l.stop - l.start)
  simp only [Pt.sub_x, Pt.sub_y] at hx hy
  split
  · chk_simp
  · chk_simp

theorem majorLength_ok {l : Line} (hs : W.pt l.start) (he : W.pt l.stop) :
    majorLength l = some (EG.majorLength l) := by
  obtain ⟨⟨_, _⟩, ⟨_, _⟩⟩ := hs
  obtain ⟨⟨_, _⟩, ⟨_, _⟩⟩ := he
  unfold majorLength EG.majorLength
  rw [ptSub_ok (by omega) (by omega)]
  chk_simp
  rw [ptAbs_ok (by simp only [Pt.sub_x]; omega) (by simp only [Pt.sub_y]; omega)]
  chk_simp
  have hx := abs_x_cases (l.stop - l.start)
  have hy := abs_y_cases (l.stop - l.start)
  simp only [Pt.sub_x, Pt.sub_y] at hx hy
  chk_simp

/-- Unit steps: per axis the major and the minor step together move by at most one pixel. -/
structure UnitSteps (P : BresenhamParameters) : Prop where
  ax : -1 ≤ P.positionStep.major.x ∧ P.positionStep.major.x ≤ 1
  cx : -1 ≤ P.positionStep.minor.x ∧ P.positionStep.minor.x ≤ 1
  sx : -1 ≤ P.positionStep.major.x + P.positionStep.minor.x ∧
        P.positionStep.major.x + P.positionStep.minor.x ≤ 1
  ay : -1 ≤ P.positionStep.major.y ∧ P.positionStep.major.y ≤ 1
  cy : -1 ≤ P.positionStep.minor.y ∧ P.positionStep.minor.y ≤ 1
  sy : -1 ≤ P.positionStep.major.y + P.positionStep.minor.y ∧
        P.positionStep.major.y + P.positionStep.minor.y ≤ 1

/-- One checked `Bresenham::next` equals the plain one and keeps the invariant, with the point
bound growing by one. -/
theorem bresenhamNext_ok {P : BresenhamParameters} {T M : Int} (hT : P.errorThreshold = T)
    (hM : P.errorStep.major = M) (hm : P.errorStep.minor = 2 * T) (h0 : 0 ≤ M) (h1 : M ≤ 2 * T)
    (hTb : T ≤ 536870912) (hu : UnitSteps P) {b : Bresenham} {B : Int} (hB : 0 ≤ B ∧ B ≤ 1073741824)
    (hx : -B ≤ b.point.x ∧ b.point.x ≤ B) (hy : -B ≤ b.point.y ∧ b.point.y ≤ B)
    (he : -T ≤ b.error ∧ b.error ≤ T + M) :
    bresenhamNext b P = some (b.next P) ∧
    (-(B + 1) ≤ (b.next P).2.point.x ∧ (b.next P).2.point.x ≤ B + 1) ∧
    (-(B + 1) ≤ (b.next P).2.point.y ∧ (b.next P).2.point.y ≤ B + 1) ∧
    (-T ≤ (b.next P).2.error ∧ (b.next P).2.error ≤ T + M) := by
  obtain ⟨⟨_, _⟩, ⟨_, _⟩, ⟨_, _⟩, ⟨_, _⟩, ⟨_, _⟩, ⟨_, _⟩⟩ := hu
  obtain ⟨bp, be⟩ := b
  simp only at hx hy he
  unfold bresenhamNext Bresenham.next
  simp only [hT, hM, hm]
  by_cases hc : be > T
  · simp only [hc, ↓reduceIte]
    rw [ptAdd_ok (by omega) (by omega)]
    chk_simp
    rw [ptAdd_ok (by simp only [Pt.add_x]; omega) (by simp only [Pt.add_y]; omega)]
    chk_simp
    simp only [Pt.add_x, Pt.add_y]
    refine ⟨trivial, ⟨?_, ?_⟩, ⟨?_, ?_⟩, ?_, ?_⟩ <;> omega
  · simp only [hc, ↓reduceIte]
    chk_simp
    rw [ptAdd_ok (by omega) (by omega)]
    chk_simp
    simp only [Pt.add_x, Pt.add_y]
    refine ⟨trivial, ⟨?_, ?_⟩, ⟨?_, ?_⟩, ?_, ?_⟩ <;> omega

/-- The checked drain of `line::Points` equals the plain one. -/
theorem linePointsFuel_ok {P : BresenhamParameters} {T M : Int} (hT : P.errorThreshold = T)
    (hM : P.errorStep.major = M) (hm : P.errorStep.minor = 2 * T) (h0 : 0 ≤ M) (h1 : M ≤ 2 * T)
    (hTb : T ≤ 536870912) (hu : UnitSteps P) :
    ∀ (fuel : Nat) (b : Bresenham) (n : Nat) (B : Int), 0 ≤ B → B + fuel ≤ 1073741824 →
      (-B ≤ b.point.x ∧ b.point.x ≤ B) → (-B ≤ b.point.y ∧ b.point.y ≤ B) →
      (-T ≤ b.error ∧ b.error ≤ T + M) →
      linePointsFuel fuel ⟨P, b, n⟩ = some (Line.PointsIt.toListFuel fuel ⟨P, b, n⟩) := by
  intro fuel
  induction fuel with
  | zero => intro b n B _ _ _ _ _; rfl
  | succ fuel ih =>
    intro b n B hB0 hBf hx hy he
    unfold linePointsFuel Line.PointsIt.toListFuel
    simp only [Line.PointsIt.next]
    by_cases hn : n > 0
    · simp only [hn, ↓reduceIte]
      obtain ⟨h1', h2', h3', h4'⟩ :=
        bresenhamNext_ok hT hM hm h0 h1 hTb hu (B := B) ⟨hB0, by omega⟩ hx hy he
      rw [h1']
      chk_simp
      rw [ih (b.next P).2 (n - 1) (B + 1) (by omega) (by push_cast at hBf ⊢; omega) h2' h3' h4']
      rfl
    · simp only [hn, ↓reduceIte]
      rfl

theorem unitSteps_new (l : Line) : UnitSteps (BresenhamParameters.new l) := by
  rw [Line.params_new]
  unfold Line.pmaj Line.pmin Line.sgn
  constructor <;> simp only <;> split <;> (try split) <;> (try split) <;> simp only <;> omega

theorem dmaj_le {l : Line} (hs : W.pt l.start) (he : W.pt l.stop) : Line.dmaj l ≤ 536870912 := by
  obtain ⟨⟨_, _⟩, ⟨_, _⟩⟩ := hs
  obtain ⟨⟨_, _⟩, ⟨_, _⟩⟩ := he
  unfold Line.dmaj Line.aabs Line.dxOf Line.dyOf
  split <;> split <;> omega

/-- **`Line::points()`**: for end points within `|x| <= 2^28` no `i32` operation of
`Points::new` and of the whole walk overflows. -/
theorem linePoints_ok {l : Line} (hs : W.pt l.start) (he : W.pt l.stop) :
    linePoints l = some (Line.points l) := by
  unfold linePoints
  rw [majorLength_ok hs he, bresenhamParametersNew_ok hs he]
  chk_simp
  have hd := dmaj_le hs he
  have hd0 := Line.dmaj_nonneg l
  have hP := Line.params_new l
  obtain ⟨⟨_, _⟩, ⟨_, _⟩⟩ := hs
  rw [linePointsFuel_ok (T := Line.dmaj l) (M := 2 * Line.dmin l) (by rw [hP]) (by rw [hP]) (by rw [hP])
    (by have := Line.dmin_nonneg l; omega) (by have := Line.dmin_le_dmaj l; omega) hd
    (unitSteps_new l) (EG.majorLength l) (Bresenham.new l.start) (EG.majorLength l) 268435456 (by omega)
    (by rw [Line.majorLength_eq]; push_cast; omega)
    (by simp only [Bresenham.new]; omega) (by simp only [Bresenham.new]; omega)
    (by simp only [Bresenham.new]; have := Line.dmin_nonneg l; omega)]
  rfl

end EG.Chk
