/-
  EG.Lemmas.RoundedRectPoints — `RoundedRectangle::points()` / `contains()`:
  * the `RoundedRectangleContains` of a rounded rectangle whose bounding box is in range has the
    geometry (`Geo`) the row lemma needs (the confined radii fit into the rectangle),
  * the `Points` iterator in closed form,
  * `points = bounding_box.points.filter contains`.
-/
import EG.Lemmas.RoundedRectRow
namespace EG
namespace RoundedRect

/-- The bounding box does not saturate / overflow `i32` (decidable guard, as for the other shapes). -/
def InRange (r : RoundedRect) : Prop := r.rect.InRange
instance (r : RoundedRect) : Decidable r.InRange := by unfold InRange; exact inferInstance

theorem cq_tl (r : RoundedRect) : r.cornerQuadrant .topLeft =
    EllipseQuadrant.new r.rect.tl (r.corners.confine r.rect.size).tl .topLeft := rfl
theorem cq_tr (r : RoundedRect) : r.cornerQuadrant .topRight =
    EllipseQuadrant.new ⟨r.rect.tl.x + r.rect.size.w - (r.corners.confine r.rect.size).tr.w, r.rect.tl.y⟩
      (r.corners.confine r.rect.size).tr .topRight := rfl
theorem cq_br (r : RoundedRect) : r.cornerQuadrant .bottomRight =
    EllipseQuadrant.new ⟨r.rect.tl.x + r.rect.size.w - (r.corners.confine r.rect.size).br.w,
        r.rect.tl.y + r.rect.size.h - (r.corners.confine r.rect.size).br.h⟩
      (r.corners.confine r.rect.size).br .bottomRight := rfl
theorem cq_bl (r : RoundedRect) : r.cornerQuadrant .bottomLeft =
    EllipseQuadrant.new ⟨r.rect.tl.x, r.rect.tl.y + r.rect.size.h - (r.corners.confine r.rect.size).bl.h⟩
      (r.corners.confine r.rect.size).bl .bottomLeft := rfl

theorem new_rows (r : RoundedRect) (h : r.InRange) :
    (RRContains.new r).rowsStart = r.rect.tl.y ∧
      (RRContains.new r).rowsEnd = r.rect.tl.y + r.rect.size.h := by
  refine ⟨rfl, ?_⟩
  show r.rect.rowsEnd = _
  exact Rect.rowsEnd_eq h

theorem new_cols (r : RoundedRect) (h : r.InRange) :
    (RRContains.new r).colsStart = r.rect.tl.x ∧
      (RRContains.new r).colsEnd = r.rect.tl.x + r.rect.size.w := by
  refine ⟨rfl, ?_⟩
  show r.rect.columnsEnd = _
  exact Rect.columnsEnd_eq h

theorem new_geo (r : RoundedRect) (h : r.InRange) : (RRContains.new r).Geo := by
  obtain ⟨c1, c2, c3, c4, c5, c6, c7, c8⟩ := CornerRadii.confine_radius_le r.corners r.rect.size
  obtain ⟨hcs, hce⟩ := new_cols r h
  have hR := h
  unfold InRange Rect.InRange inI32 at hR
  obtain ⟨⟨x1, x2⟩, ⟨y1, y2⟩, hw, hh, hxw, hyh⟩ := hR
  have itl : (⟨r.rect.tl, (r.corners.confine r.rect.size).tl⟩ : Rect).InRange := by
    unfold Rect.InRange inI32; dsimp only; omega
  have itr : (⟨⟨r.rect.tl.x + r.rect.size.w - (r.corners.confine r.rect.size).tr.w, r.rect.tl.y⟩,
      (r.corners.confine r.rect.size).tr⟩ : Rect).InRange := by
    unfold Rect.InRange inI32; dsimp only; omega
  have ibr : (⟨⟨r.rect.tl.x + r.rect.size.w - (r.corners.confine r.rect.size).br.w,
      r.rect.tl.y + r.rect.size.h - (r.corners.confine r.rect.size).br.h⟩,
      (r.corners.confine r.rect.size).br⟩ : Rect).InRange := by
    unfold Rect.InRange inI32; dsimp only; omega
  have ibl : (⟨⟨r.rect.tl.x, r.rect.tl.y + r.rect.size.h - (r.corners.confine r.rect.size).bl.h⟩,
      (r.corners.confine r.rect.size).bl⟩ : Rect).InRange := by
    unfold Rect.InRange inI32; dsimp only; omega
  have etl : (RRContains.new r).topLeft = r.cornerQuadrant .topLeft := rfl
  have etr : (RRContains.new r).topRight = r.cornerQuadrant .topRight := rfl
  have ebr : (RRContains.new r).bottomRight = r.cornerQuadrant .bottomRight := rfl
  have ebl : (RRContains.new r).bottomLeft = r.cornerQuadrant .bottomLeft := rfl
  refine ⟨by omega, ?_, ?_, ?_, ?_⟩
  · rw [etl, cq_tl]
    unfold RRContains.LeftOK
    rw [EllipseQuadrant.new_colsStart, EllipseQuadrant.new_colsEnd _ _ _ itl, hcs, hce]
    exact ⟨rfl, by omega, by omega, EllipseQuadrant.new_leftMono _ _ _ (Or.inl rfl) itl⟩
  · rw [ebl, cq_bl]
    unfold RRContains.LeftOK
    rw [EllipseQuadrant.new_colsStart, EllipseQuadrant.new_colsEnd _ _ _ ibl, hcs, hce]
    exact ⟨rfl, by dsimp only; omega, by dsimp only; omega,
      EllipseQuadrant.new_leftMono _ _ _ (Or.inr rfl) ibl⟩
  · rw [etr, cq_tr]
    unfold RRContains.RightOK
    rw [EllipseQuadrant.new_colsStart, EllipseQuadrant.new_colsEnd _ _ _ itr, hcs, hce]
    exact ⟨by dsimp only; omega, by dsimp only; omega, by dsimp only; omega,
      EllipseQuadrant.new_rightMono _ _ _ (Or.inl rfl) itr⟩
  · rw [ebr, cq_br]
    unfold RRContains.RightOK
    rw [EllipseQuadrant.new_colsStart, EllipseQuadrant.new_colsEnd _ _ _ ibr, hcs, hce]
    exact ⟨by dsimp only; omega, by dsimp only; omega, by dsimp only; omega,
      EllipseQuadrant.new_rightMono _ _ _ (Or.inr rfl) ibr⟩

/-- `contains` in a row: exactly the scanline of that row. -/
theorem contains_iff_row (r : RoundedRect) (h : r.InRange) (x y : Int) :
    r.contains ⟨x, y⟩ = true ↔
      (r.rect.tl.y ≤ y ∧ y < r.rect.tl.y + r.rect.size.h) ∧
        (RRContains.new r).xStart y ≤ x ∧ x < (RRContains.new r).xEnd y := by
  unfold contains
  rw [RRContains.contains_row_iff (new_geo r h), (new_rows r h).1, (new_rows r h).2]

/-- `contains` implies the bounding box. -/
theorem contains_imp_bbox (r : RoundedRect) (h : r.InRange) {p : Pt} (hc : r.contains p = true) :
    r.boundingBox.contains p = true := by
  unfold contains at hc
  rw [RRContains.contains_iff] at hc
  obtain ⟨hr, hcc, _, _⟩ := hc
  rw [(new_rows r h).1, (new_rows r h).2] at hr
  rw [(new_cols r h).1, (new_cols r h).2] at hcc
  unfold boundingBox
  rw [Rect.contains_iff]
  omega

/-! ### the `Points` iterator -/

/-- Closed form of what is still to come. -/
def PointsIt.rest (it : PointsIt) : List Pt :=
  it.current.points ++
    (irange it.scanlines.rowsStart it.scanlines.rowsEnd).flatMap (fun y => (it.scanlines.row y).points)

theorem PointsIt.nextFuel_spec : ∀ (fuel : Nat) (it : PointsIt),
    (it.scanlines.rowsEnd - it.scanlines.rowsStart).toNat < fuel →
    match it.nextFuel fuel with
    | some (p, it') => it.rest = p :: it'.rest
    | none => it.rest = [] := by
  intro fuel
  induction fuel with
  | zero => intro it h; omega
  | succ fuel ih =>
    intro it h
    unfold PointsIt.nextFuel
    by_cases hx : it.current.xs < it.current.xe
    · have hn : it.current.next = some (⟨it.current.xs, it.current.y⟩,
          { it.current with xs := it.current.xs + 1 }) := by
        unfold Scanline.next; simp only [hx, ↓reduceIte]
      rw [hn]
      simp only [PointsIt.rest]
      rw [Scanline.points_cons hx]; rfl
    · have hn : it.current.next = none := by unfold Scanline.next; simp only [hx, ↓reduceIte]
      rw [hn]
      simp only
      unfold RRContains.next
      by_cases hy : it.scanlines.rowsStart < it.scanlines.rowsEnd
      · simp only [hy, ↓reduceIte]
        have := ih ⟨{ it.scanlines with rowsStart := it.scanlines.rowsStart + 1 },
          it.scanlines.row it.scanlines.rowsStart⟩ (by dsimp only; omega)
        have e : it.rest = (⟨{ it.scanlines with rowsStart := it.scanlines.rowsStart + 1 },
            it.scanlines.row it.scanlines.rowsStart⟩ : PointsIt).rest := by
          simp only [PointsIt.rest, RRContains.row_advance]
          rw [Scanline.points_empty hx, irange_cons hy]
          simp only [List.flatMap_cons, List.nil_append]
        rw [e]
        exact this
      · simp only [hy, ↓reduceIte]
        simp only [PointsIt.rest]
        rw [Scanline.points_empty hx, irange_empty (a := it.scanlines.rowsStart)
          (b := it.scanlines.rowsEnd) (by omega)]
        rfl

theorem PointsIt.next_spec (it : PointsIt) :
    match it.next with
    | some (p, it') => it.rest = p :: it'.rest
    | none => it.rest = [] :=
  PointsIt.nextFuel_spec _ it (by omega)

theorem PointsIt.toListFuel_eq : ∀ (fuel : Nat) (it : PointsIt), it.rest.length < fuel →
    it.toListFuel fuel = it.rest := by
  intro fuel
  induction fuel with
  | zero => intro it h; omega
  | succ fuel ih =>
    intro it h
    unfold PointsIt.toListFuel
    have hs := PointsIt.next_spec it
    cases hn : it.next with
    | none => rw [hn] at hs; simp only at hs ⊢; exact hs.symm
    | some v =>
      obtain ⟨p, it'⟩ := v
      rw [hn] at hs
      simp only at hs ⊢
      rw [hs] at h ⊢
      rw [ih it' (by simp only [List.length_cons] at h; omega)]

theorem length_flatMap_sum {α β : Type} (l : List α) (f : α → List β) :
    (l.flatMap f).length = (l.map (fun a => (f a).length)).sum := by
  induction l with
  | nil => rfl
  | cons a l ih => simp only [List.flatMap_cons, List.length_append, List.map_cons, List.sum_cons, ih]

theorem PointsIt.rest_length (it : PointsIt) : it.rest.length = it.budget := by
  unfold PointsIt.rest PointsIt.budget
  rw [List.length_append, Scanline.points_length, length_flatMap_sum]
  congr 2
  apply List.map_congr_left
  intro y _
  exact Scanline.points_length _

/-- A `for` loop over `points()` sees the scanlines of all rows, in order. -/
theorem points_eq_rows (r : RoundedRect) :
    r.points = (irange (RRContains.new r).rowsStart (RRContains.new r).rowsEnd).flatMap
      (fun y => ((RRContains.new r).row y).points) := by
  unfold points
  simp only
  rw [PointsIt.toListFuel_eq _ _ (by rw [PointsIt.rest_length]; omega)]
  unfold PointsIt.rest pointsIt scanlines
  simp only
  have : (Scanline.newEmpty 0).points = [] := Scanline.points_empty (by decide)
  rw [this, List.nil_append]

/-! ### `points = bounding_box.points.filter contains` -/

theorem filter_flatMap' {α β : Type} (p : β → Bool) (f : α → List β) : ∀ (l : List α),
    (l.flatMap f).filter p = l.flatMap (fun a => (f a).filter p) := by
  intro l
  induction l with
  | nil => rfl
  | cons a l ih => simp only [List.flatMap_cons, List.filter_append, ih]

theorem filter_map' {α β : Type} (p : β → Bool) (f : α → β) : ∀ (l : List α),
    (l.map f).filter p = (l.filter (fun a => p (f a))).map f := by
  intro l
  induction l with
  | nil => rfl
  | cons a l ih =>
    simp only [List.map_cons, List.filter_cons, ih]
    split <;> simp

theorem flatMap_congr_mem {α β : Type} {f g : α → List β} : ∀ (l : List α), (∀ a ∈ l, f a = g a) →
    l.flatMap f = l.flatMap g := by
  intro l
  induction l with
  | nil => intro _; rfl
  | cons a l ih =>
    intro h
    simp only [List.flatMap_cons]
    rw [h a List.mem_cons_self, ih (fun b hb => h b (List.mem_cons_of_mem _ hb))]

theorem points_eq_filter (r : RoundedRect) (h : r.InRange) :
    r.points = r.boundingBox.points.filter r.contains := by
  have hg := new_geo r h
  obtain ⟨hrs, hre⟩ := new_rows r h
  obtain ⟨hcs, hce⟩ := new_cols r h
  rw [points_eq_rows, hrs, hre]
  unfold boundingBox
  rw [Rect.points_eq_spec]
  unfold Rect.pointsSpec
  have hrows : r.rect.rows = irange r.rect.tl.y (r.rect.tl.y + r.rect.size.h) := by
    have := Rect.rowsEnd_eq h
    unfold Rect.rowsEnd at this
    unfold Rect.rows; rw [this]
  have hcols : r.rect.columns = irange r.rect.tl.x (r.rect.tl.x + r.rect.size.w) := by
    have := Rect.columnsEnd_eq h
    unfold Rect.columnsEnd at this
    unfold Rect.columns; rw [this]
  -- one row
  have hrow : ∀ y ∈ irange r.rect.tl.y (r.rect.tl.y + r.rect.size.h),
      ((RRContains.new r).row y).points =
        ((irange r.rect.tl.x (r.rect.tl.x + r.rect.size.w)).map (fun x => (⟨x, y⟩ : Pt))).filter
          r.contains := by
    intro y hy
    rw [mem_irange] at hy
    obtain ⟨a1, a2, _⟩ := RRContains.xStart_spec hg y
    obtain ⟨b1, b2, _⟩ := RRContains.xEnd_spec hg y
    rw [hcs] at a1 b1; rw [hce] at a2 b2
    rw [filter_map']
    rw [filter_irange_interval (fun x => r.contains ⟨x, y⟩) _ _ _
      ((RRContains.new r).xStart y) ((RRContains.new r).xEnd y) rfl _ a1 b2]
    · rfl
    · intro x _ _
      rw [contains_iff_row r h]
      constructor
      · intro hc; exact hc.2
      · intro hc; exact ⟨hy, hc⟩
  by_cases hz : r.rect.isZeroSized = true
  · simp only [hz, ↓reduceIte, List.filter_nil]
    rw [Rect.isZeroSized_iff] at hz
    rw [List.flatMap_eq_nil_iff]
    intro y hy
    rw [hrow y hy]
    rcases hz with hz | hz
    · rw [hz, irange_empty (by omega)]; rfl
    · rw [mem_irange] at hy; omega
  · simp only [hz, Bool.false_eq_true, ↓reduceIte]
    rw [hrows, hcols, filter_flatMap']
    exact flatMap_congr_mem _ hrow

end RoundedRect
end EG
