/-
  EG.Lemmas.Target — algebra of write lists and pixel maps (`lastWrite`, `PMap.apply`), and the
  equality of the trait-default lowering with the documented (native) meaning.
-/
import EG.Lemmas.RectPoints
import EG.Model.Target
namespace EG
-- Namespace `EG.Tgt`: keeps these generic names apart from other topics' lemma files.
namespace Tgt

/-! ### `lastWrite` -/

theorem lastWrite_nil (p : Pt) : lastWrite [] p = none := rfl

theorem lastWrite_append (a b : Writes) (p : Pt) :
    lastWrite (a ++ b) p = (lastWrite b p).or (lastWrite a p) := by
  unfold lastWrite
  rw [List.reverse_append, List.find?_append]
  cases List.find? (fun w => w.1 == p) b.reverse <;> simp

theorem lastWrite_singleton (w : Pt × Color) (p : Pt) :
    lastWrite [w] p = if w.1 = p then some w.2 else none := by
  unfold lastWrite
  by_cases h : w.1 = p <;> simp [h]

theorem lastWrite_cons (w : Pt × Color) (ws : Writes) (p : Pt) :
    lastWrite (w :: ws) p = (lastWrite ws p).or (if w.1 = p then some w.2 else none) := by
  rw [← List.singleton_append, lastWrite_append, lastWrite_singleton]

theorem lastWrite_flatMap_congr {α : Type} (l : List α) (f g : α → Writes) (T : Option Color → Option Color)
    (hT : ∀ x y : Option Color, T (x.or y) = (T x).or (T y)) (hn : T none = none)
    (p q : Pt) (h : ∀ a ∈ l, lastWrite (f a) p = T (lastWrite (g a) q)) :
    lastWrite (l.flatMap f) p = T (lastWrite (l.flatMap g) q) := by
  induction l with
  | nil => simp [lastWrite_nil, hn]
  | cons a l ih =>
    simp only [List.flatMap_cons, lastWrite_append]
    rw [hT, ih (fun b hb => h b (List.mem_cons_of_mem _ hb)), h a List.mem_cons_self]

/-- Keeping only the writes whose point satisfies `P`. -/
theorem lastWrite_filter (P : Pt → Bool) (ws : Writes) (p : Pt) :
    lastWrite (ws.filter (fun w => P w.1)) p = if P p = true then lastWrite ws p else none := by
  induction ws with
  | nil => simp [lastWrite_nil]
  | cons w ws ih =>
    by_cases hw : P w.1 = true
    · rw [List.filter_cons_of_pos (by simpa using hw), lastWrite_cons, lastWrite_cons, ih]
      by_cases hp : P p = true
      · simp [hp]
      · have : w.1 ≠ p := by intro h; rw [h] at hw; exact hp hw
        simp [hp, this]
    · rw [List.filter_cons_of_neg (by simpa using hw), lastWrite_cons, ih]
      by_cases hp : P p = true
      · have : w.1 ≠ p := by intro h; rw [h] at hw; exact hw hp
        simp [hp, this]
      · simp [hp]

theorem Pt.add_eq_iff (a d p : Pt) : a + d = p ↔ a = p - d := by
  rw [Pt.ext_iff', Pt.ext_iff']; simp only [Pt.add_x, Pt.add_y, Pt.sub_x, Pt.sub_y]; omega

/-- Shifting every write by `d`. -/
theorem lastWrite_map_shift (d : Pt) (ws : Writes) (p : Pt) :
    lastWrite (ws.map (fun w => (w.1 + d, w.2))) p = lastWrite ws (p - d) := by
  induction ws with
  | nil => simp [lastWrite_nil]
  | cons w ws ih =>
    rw [List.map_cons, lastWrite_cons, lastWrite_cons, ih]
    simp only [Pt.add_eq_iff]

/-- Mapping every colour through `f`. -/
theorem lastWrite_map_color (f : Color → Color) (ws : Writes) (p : Pt) :
    lastWrite (ws.map (fun w => (w.1, f w.2))) p = (lastWrite ws p).map f := by
  induction ws with
  | nil => simp [lastWrite_nil]
  | cons w ws ih =>
    rw [List.map_cons, lastWrite_cons, lastWrite_cons, ih]
    cases lastWrite ws p <;> by_cases h : w.1 = p <;> simp [h]

/-- Every listed point gets the same colour. -/
theorem lastWrite_map_const (ps : List Pt) (c : Color) (p : Pt) :
    lastWrite (ps.map (fun q => (q, c))) p = if p ∈ ps then some c else none := by
  induction ps with
  | nil => simp [lastWrite_nil]
  | cons a ps ih =>
    rw [List.map_cons, lastWrite_cons, ih]
    by_cases h1 : p ∈ ps <;> by_cases h2 : a = p
    · simp [h1]
    · simp [h1]
    · simp [h1, h2]
    · have : ¬ p = a := fun h => h2 h.symm
      simp [h1, h2, this]

/-- Distinct points zipped with a colour stream: point number `k` gets colour number `k`. -/
theorem lastWrite_zip_nodup (ps : List Pt) (hn : ps.Nodup) (cs : List Color) (p : Pt) :
    lastWrite (ps.zip cs) p = if p ∈ ps then cs[ps.idxOf p]? else none := by
  induction ps generalizing cs with
  | nil => simp [lastWrite_nil]
  | cons a ps ih =>
    rw [List.nodup_cons] at hn
    cases cs with
    | nil => simp [lastWrite_nil]
    | cons c cs =>
      rw [List.zip_cons_cons, lastWrite_cons, ih hn.2]
      by_cases h2 : a = p
      · subst h2
        simp [hn.1]
      · have h3 : ¬ p = a := fun h => h2 h.symm
        have h4 : (a == p) = false := by simpa using h2
        by_cases h1 : p ∈ ps
        · simp [h1, h2, List.idxOf_cons, h4]
        · simp [h1, h2, h3]

/-! ### `PMap.apply` -/

/-- One write. -/
def PMap.set (m : PMap) (w : Pt × Color) : PMap := fun p => if p = w.1 then some w.2 else m p

theorem PMap.apply_cons (m : PMap) (w : Pt × Color) (ws : Writes) :
    m.apply (w :: ws) = (PMap.set m w).apply ws := rfl

/-- `apply` = last write, else the old content. -/
theorem PMap.apply_eq (m : PMap) (ws : Writes) (p : Pt) :
    m.apply ws p = (lastWrite ws p).or (m p) := by
  induction ws generalizing m with
  | nil =>
    show m p = (lastWrite [] p).or (m p)
    simp [lastWrite_nil]
  | cons w ws ih =>
    rw [PMap.apply_cons, ih, lastWrite_cons]
    show (lastWrite ws p).or (if p = w.1 then some w.2 else m p) = _
    cases lastWrite ws p with
    | some c => simp
    | none =>
      by_cases h : w.1 = p
      · simp [h]
      · have : ¬ p = w.1 := fun h' => h h'.symm
        simp [h, this]

theorem PMap.empty_apply (ws : Writes) (p : Pt) : PMap.empty.apply ws p = lastWrite ws p := by
  rw [PMap.apply_eq]; simp [PMap.empty]

theorem lastWrite_clipWrites (B : Rect) (ws : Writes) (p : Pt) :
    lastWrite (clipWrites B ws) p = if B.contains p = true then lastWrite ws p else none :=
  lastWrite_filter (fun q => B.contains q) ws p

/-! ### trait defaults = documented meaning -/

theorem flatMap_congr_left {α β : Type} (l : List α) (f g : α → List β) (h : ∀ a ∈ l, f a = g a) :
    l.flatMap f = l.flatMap g := by
  induction l with
  | nil => rfl
  | cons a l ih =>
    simp only [List.flatMap_cons]
    rw [h a List.mem_cons_self, ih (fun b hb => h b (List.mem_cons_of_mem _ hb))]

theorem map_fst_zip_sublist {α β : Type} (l : List α) (r : List β) :
    ((l.zip r).map Prod.fst).Sublist l := by
  induction l generalizing r with
  | nil => simp
  | cons a l ih =>
    cases r with
    | nil => simp
    | cons b r => simp only [List.zip_cons_cons, List.map_cons]; exact (ih r).cons_cons a

theorem zip_replicate_length {α β : Type} (l : List α) (c : β) :
    l.zip (List.replicate l.length c) = l.map (fun a => (a, c)) := by
  induction l with
  | nil => rfl
  | cons a l ih => simp [List.replicate_succ, ih]

/-- The three trait defaults offer exactly the writes of the documented meaning, as lists
(any area, also zero sized / saturating; any stream length). -/
theorem Call.lowerDefault_eq_lowerNative (B : Rect) (c : Call) : c.lowerDefault B = c.lowerNative B := by
  cases c with
  | drawIter px => rfl
  | fillContiguous area cs => simp only [Call.lowerDefault, Call.lowerNative, Rect.points_eq_spec]
  | fillSolid area c =>
    simp only [Call.lowerDefault, Call.lowerNative, zip_replicate_length, Rect.points_eq_spec]
  | clear c =>
    simp only [Call.lowerDefault, Call.lowerNative, zip_replicate_length, Rect.points_eq_spec]

theorem Call.writesDefault_eq_writesNative (B : Rect) (c : Call) : c.writesDefault B = c.writesNative B := by
  unfold Call.writesDefault Call.writesNative; rw [Call.lowerDefault_eq_lowerNative]

theorem runDefault_eq_runNative (B : Rect) (calls : List Call) : runDefault B calls = runNative B calls := by
  unfold runDefault runNative
  congr 1
  apply flatMap_congr_left
  intro c _; exact Call.writesDefault_eq_writesNative B c

end Tgt
end EG
