/-
  EG.Lemmas.AdaptersExact — each adapter turns the point-wise meaning of a call into the meaning of
  the call its parent receives by one transformation (clip region, shift, colour map).
-/
import EG.Lemmas.AdaptersCropIndex
import EG.Model.Adapters
namespace EG
open Tgt

/-! ### Point-wise meaning of a call -/

/-- What a call writes (documented meaning) on a target that reports box `T`, as a point-wise (optional) map:
the colour last written to `p` by this call, `none` if the call does not touch `p`. Not yet
clipped to `T` (only `clear` depends on `T`). -/
def Call.sem (T : Rect) (c : Call) (p : Pt) : Option Color := lastWrite (c.lowerNative T) p

/-- Range guard for one rectangle: empty, or no `i32`/`u32` saturation in `points()`. -/
def Rect.Ok (r : Rect) : Prop := r.isZeroSized = true ∨ r.InRange
instance (r : Rect) : Decidable r.Ok := by unfold Rect.Ok; exact inferInstance

/-- Range guard of a call on a target with box `T`. -/
def Call.Ok (T : Rect) : Call → Prop
  | .drawIter _ => True
  | .fillContiguous a _ => a.Ok
  | .fillSolid a _ => a.Ok
  | .clear _ => T.Ok
instance (T : Rect) (c : Call) : Decidable (c.Ok T) := by
  cases c <;> unfold Call.Ok <;> exact inferInstance

theorem Call.sem_drawIter (T : Rect) (px : Writes) (p : Pt) :
    (Call.drawIter px).sem T p = lastWrite px p := rfl

theorem Call.sem_fillContiguous (T a : Rect) (h : a.Ok) (cs : List Color) (p : Pt) :
    (Call.fillContiguous a cs).sem T p = if a.contains p = true then cs[a.indexOf p]? else none :=
  Rect.lastWrite_pointsSpec_zip h cs p

theorem Call.sem_fillSolid (T a : Rect) (h : a.Ok) (c : Color) (p : Pt) :
    (Call.fillSolid a c).sem T p = if a.contains p = true then some c else none :=
  Rect.lastWrite_pointsSpec_const h c p

theorem Call.sem_clear (T : Rect) (h : T.Ok) (c : Color) (p : Pt) :
    (Call.clear c).sem T p = if T.contains p = true then some c else none :=
  Rect.lastWrite_pointsSpec_const h c p

/-! ### Transformations -/

/-- A target transformation: region of the parent that can be reached, shift (child coordinates +
`d` = parent coordinates), colour map. -/
structure Xf where
  G : Pt → Bool
  d : Pt
  f : Color → Color

/-- Action on point-wise (optional) pixel maps: parent point `q` shows `f` of what the child map has at `q - d`,
if `q` is in the region; nothing otherwise. -/
def Xf.act (x : Xf) (m : Pt → Option Color) (q : Pt) : Option Color :=
  if x.G q = true then (m (q - x.d)).map x.f else none

def Xf.id : Xf := ⟨fun _ => true, Pt.zero, fun c => c⟩

/-- `outer` is nearer to the root. -/
def Xf.comp (outer inner : Xf) : Xf :=
  ⟨fun q => outer.G q && inner.G (q - outer.d), outer.d + inner.d, fun c => outer.f (inner.f c)⟩

theorem Pt.sub_zero (q : Pt) : q - Pt.zero = q := by
  rw [Pt.ext_iff']; simp [Pt.zero]

theorem Pt.sub_add (q a b : Pt) : q - (a + b) = q - a - b := by
  rw [Pt.ext_iff']; simp only [Pt.sub_x, Pt.sub_y, Pt.add_x, Pt.add_y]; omega

theorem Xf.act_id (m : Pt → Option Color) (q : Pt) : Xf.id.act m q = m q := by
  simp [Xf.act, Xf.id, Pt.sub_zero]

theorem Xf.act_comp (outer inner : Xf) (m : Pt → Option Color) (q : Pt) :
    (outer.comp inner).act m q = outer.act (inner.act m) q := by
  simp only [Xf.act, Xf.comp, Pt.sub_add]
  by_cases h1 : outer.G q = true <;> by_cases h2 : inner.G (q - outer.d) = true <;>
    simp [h1, h2, Option.map_map, Function.comp_def]

/-- `act` distributes over "later write wins". -/
theorem Xf.act_or (x : Xf) (a b : Pt → Option Color) (q : Pt) :
    x.act (fun p => (a p).or (b p)) q = (x.act a q).or (x.act b q) := by
  simp only [Xf.act]
  by_cases h : x.G q = true
  · simp only [h, ↓reduceIte]
    cases a (q - x.d) <;> simp
  · simp [h]

namespace Adapter

/-- The transformation an adapter over a parent with box `B` performs. -/
def xf (a : Adapter) (B : Rect) : Xf :=
  match a with
  | clipped r => ⟨fun q => (r.intersection B).contains q, Pt.zero, fun c => c⟩
  | cropped r => ⟨fun _ => true, (r.intersection B).tl, fun c => c⟩
  | translated d => ⟨fun _ => true, d, fun c => c⟩
  | converted f => ⟨fun _ => true, Pt.zero, f⟩

/-! ### translated -/

theorem translate_contains (a : Rect) (d q : Pt) :
    (a.translate d).contains q = a.contains (q - d) := by
  rw [Bool.eq_iff_iff, Rect.contains_iff, Rect.contains_iff]
  simp only [Rect.translate, Pt.add_x, Pt.add_y, Pt.sub_x, Pt.sub_y]; omega

theorem translate_indexOf (a : Rect) (d q : Pt) :
    (a.translate d).indexOf q = a.indexOf (q - d) := by
  simp only [Rect.indexOf, Rect.translate, Pt.add_x, Pt.add_y, Pt.sub_x, Pt.sub_y]
  have h1 : (q.y - (a.tl.y + d.y)).toNat = (q.y - d.y - a.tl.y).toNat := by omega
  have h2 : (q.x - (a.tl.x + d.x)).toNat = (q.x - d.x - a.tl.x).toNat := by omega
  rw [h1, h2]

theorem translated_sem (d : Pt) (B : Rect) (c : Call) (h1 : c.Ok (B.translate (-d)))
    (h2 : (lowerTranslated d c).Ok B) (q : Pt) :
    (lowerTranslated d c).sem B q = c.sem (B.translate (-d)) (q - d) := by
  cases c with
  | drawIter px => exact lastWrite_map_shift d px q
  | fillContiguous a cs =>
    simp only [lowerTranslated]
    rw [Call.sem_fillContiguous _ _ h2, Call.sem_fillContiguous _ _ h1, translate_contains,
      translate_indexOf]
  | fillSolid a c =>
    simp only [lowerTranslated]
    rw [Call.sem_fillSolid _ _ h2, Call.sem_fillSolid _ _ h1, translate_contains]
  | clear c =>
    simp only [lowerTranslated]
    rw [Call.sem_clear _ h2, Call.sem_clear _ h1, translate_contains]
    have : q - d - -d = q := by
      rw [Pt.ext_iff']; simp only [Pt.sub_x, Pt.sub_y, Pt.neg_x, Pt.neg_y]; omega
    rw [this]

/-! ### colour converted -/

theorem converted_sem (f : Color → Color) (B : Rect) (c : Call) (h1 : c.Ok B) (q : Pt) :
    (lowerConverted f c).sem B q = (c.sem B q).map f := by
  cases c with
  | drawIter px => exact lastWrite_map_color f px q
  | fillContiguous a cs =>
    simp only [lowerConverted]
    rw [Call.sem_fillContiguous _ _ h1, Call.sem_fillContiguous _ _ h1]
    by_cases h : a.contains q = true <;> simp [h]
  | fillSolid a c =>
    simp only [lowerConverted]
    rw [Call.sem_fillSolid _ _ h1, Call.sem_fillSolid _ _ h1]
    by_cases h : a.contains q = true <;> simp [h]
  | clear c =>
    simp only [lowerConverted]
    rw [Call.sem_clear _ h1, Call.sem_clear _ h1]
    by_cases h : B.contains q = true <;> simp [h]

theorem converted_ok (f : Color → Color) (B : Rect) (c : Call) (h : c.Ok B) : (lowerConverted f c).Ok B := by
  cases c <;> exact h

/-! ### cropped -/

theorem cropped_sem (A B : Rect) (c : Call) (h1 : c.Ok ⟨Pt.zero, A.size⟩)
    (h2 : (lowerCropped A c).Ok B) (q : Pt) :
    (lowerCropped A c).sem B q = c.sem ⟨Pt.zero, A.size⟩ (q - A.tl) := by
  cases c with
  | drawIter px => exact lastWrite_map_shift A.tl px q
  | fillContiguous a cs =>
    simp only [lowerCropped, lowerTranslated]
    rw [Call.sem_fillContiguous _ _ h2, Call.sem_fillContiguous _ _ h1, translate_contains,
      translate_indexOf]
  | fillSolid a c =>
    simp only [lowerCropped, lowerTranslated]
    rw [Call.sem_fillSolid _ _ h2, Call.sem_fillSolid _ _ h1, translate_contains]
  | clear c =>
    simp only [lowerCropped, lowerTranslated]
    rw [Call.sem_fillSolid _ _ h2, Call.sem_clear _ h1, translate_contains]

/-! ### clipped -/

theorem ok_contains_inRange {r : Rect} (h : r.Ok) {p : Pt} (hp : r.contains p = true) : r.InRange := by
  rcases h with hz | h
  · rw [Rect.isZeroSized_iff] at hz; rw [Rect.contains_false_of_zero hz] at hp; cases hp
  · exact h

/-- `Clipped::fill_contiguous`, the branch that re-cuts the colour stream. -/
theorem clipped_fc_cropped (R a : Rect) (cs : List Color) (ha : a.Ok) (hi : (R.intersection a).Ok)
    (q : Pt) :
    (Call.fillContiguous (R.intersection a)
        (croppedList cs a.size ((R.intersection a).translate (-a.tl)))).sem R q =
      if R.contains q = true then (Call.fillContiguous a cs).sem R q else none := by
  rw [Call.sem_fillContiguous _ _ hi, Call.sem_fillContiguous _ _ ha, croppedList_eq_spec]
  by_cases hq : (R.intersection a).contains q = true
  · have hRa := (Rect.mem_intersection R a q).mp hq
    rw [if_pos hq, if_pos hRa.1, if_pos hRa.2]
    have hqi := hq; rw [Rect.contains_iff] at hqi
    have hqa := hRa.2; rw [Rect.contains_iff] at hqa
    have hf := Rect.intersection_fields R a (by omega) (by omega)
    have hRc := hRa.1; rw [Rect.contains_iff] at hRc
    -- the crop area used by `Cropped::new` is the translated intersection
    have hcrop : CropIt.cropOf a.size ((R.intersection a).translate (-a.tl))
        = (R.intersection a).translate (-a.tl) := by
      unfold CropIt.cropOf
      apply Rect.intersection_eq_of_subset <;>
        simp only [Rect.translate, Pt.add_x, Pt.add_y, Pt.neg_x, Pt.neg_y, Pt.zero] <;> omega
    have hidx := croppedSpec_getElem? cs a.size ((R.intersection a).translate (-a.tl))
      (by rw [hcrop]; simp only [Rect.translate]; omega)
      (q.y - (R.intersection a).tl.y).toNat (q.x - (R.intersection a).tl.x).toNat
      (by rw [hcrop]; simp only [Rect.translate]; omega)
      (by rw [hcrop]; simp only [Rect.translate]; omega)
    rw [hcrop] at hidx
    simp only [Rect.indexOf]
    refine Eq.trans hidx ?_
    simp only [Rect.translate, Pt.add_x, Pt.add_y, Pt.neg_x, Pt.neg_y]
    congr 1
    have e1 : ((R.intersection a).tl.y + -a.tl.y).toNat + (q.y - (R.intersection a).tl.y).toNat
        = (q.y - a.tl.y).toNat := by omega
    have e2 : ((R.intersection a).tl.x + -a.tl.x).toNat + (q.x - (R.intersection a).tl.x).toNat
        = (q.x - a.tl.x).toNat := by omega
    rw [e1, e2]
  · rw [if_neg hq]
    have : ¬ (R.contains q = true ∧ a.contains q = true) := fun h => hq ((Rect.mem_intersection R a q).mpr h)
    by_cases h1 : R.contains q = true
    · have h2 : ¬ a.contains q = true := fun h => this ⟨h1, h⟩
      simp [h1, h2]
    · simp [h1]

theorem clipped_sem (R B : Rect) (c : Call) (h1 : c.Ok R) (h2 : (lowerClipped R c).Ok B) (q : Pt) :
    (lowerClipped R c).sem B q = if R.contains q = true then c.sem R q else none := by
  cases c with
  | drawIter px => exact lastWrite_filter (fun p => R.contains p) px q
  | fillContiguous a cs =>
    simp only [lowerClipped] at h2 ⊢
    by_cases he : R.intersection a = a
    · simp only [he, ↓reduceIte]
      rw [Call.sem_fillContiguous _ _ h1, Call.sem_fillContiguous _ _ h1]
      by_cases hq : a.contains q = true
      · have : R.contains q = true := by
          rw [← he] at hq; exact ((Rect.mem_intersection R a q).mp hq).1
        simp [this]
      · simp [hq]
    · simp only [he, ↓reduceIte] at h2 ⊢
      exact clipped_fc_cropped R a cs h1 h2 q
  | fillSolid a c =>
    simp only [lowerClipped] at h2 ⊢
    rw [Call.sem_fillSolid _ _ h2, Call.sem_fillSolid _ _ h1]
    by_cases hq : (a.intersection R).contains q = true
    · have := (Rect.mem_intersection a R q).mp hq
      simp [hq, this.1, this.2]
    · have : ¬ (a.contains q = true ∧ R.contains q = true) := fun h => hq ((Rect.mem_intersection a R q).mpr h)
      by_cases h1 : R.contains q = true
      · have h2 : ¬ a.contains q = true := fun h => this ⟨h, h1⟩
        simp [hq, h1, h2]
      · simp [hq, h1]
  | clear c =>
    simp only [lowerClipped] at h2 ⊢
    rw [Call.sem_fillSolid _ _ h2, Call.sem_clear _ h1]
    by_cases hq : R.contains q = true
    · have := (Rect.mem_intersection R R q).mpr ⟨hq, hq⟩
      simp [hq, this]
    · have : ¬ (R.intersection R).contains q = true := fun h => hq ((Rect.mem_intersection R R q).mp h).1
      simp [hq, this]

/-- Everything a clipped target offers its parent lies inside the stored clip area
(= user clip area ∩ parent box). -/
theorem clipped_inside (R B : Rect) (c : Call) (h2 : (lowerClipped R c).Ok B) :
    ∀ w ∈ (lowerClipped R c).lowerNative B, R.contains w.1 = true := by
  intro w hw
  cases c with
  | drawIter px =>
    simp only [lowerClipped, Call.lowerNative, List.mem_filter] at hw
    exact hw.2
  | fillContiguous a cs =>
    simp only [lowerClipped] at hw h2
    by_cases he : R.intersection a = a
    · simp only [he, ↓reduceIte, Call.lowerNative] at hw h2
      have hm := (List.of_mem_zip hw).1
      have hc : a.contains w.1 = true := by
        rcases h2 with hz | hr
        · rw [Rect.pointsSpec_of_zero hz] at hm; cases hm
        · exact (Rect.mem_pointsSpec hr).mp hm
      rw [← he] at hc
      exact ((Rect.mem_intersection R a w.1).mp hc).1
    · simp only [he, ↓reduceIte, Call.lowerNative] at hw h2
      have hm := (List.of_mem_zip hw).1
      have hc : (R.intersection a).contains w.1 = true := by
        rcases h2 with hz | hr
        · rw [Rect.pointsSpec_of_zero hz] at hm; cases hm
        · exact (Rect.mem_pointsSpec hr).mp hm
      exact ((Rect.mem_intersection R a w.1).mp hc).1
  | fillSolid a c =>
    simp only [lowerClipped, Call.lowerNative, List.mem_map] at hw h2
    obtain ⟨p, hp, rfl⟩ := hw
    have hc : (a.intersection R).contains p = true := by
      rcases h2 with hz | hr
      · rw [Rect.pointsSpec_of_zero hz] at hp; cases hp
      · exact (Rect.mem_pointsSpec hr).mp hp
    exact ((Rect.mem_intersection a R p).mp hc).2
  | clear c =>
    simp only [lowerClipped, Call.lowerNative, List.mem_map] at hw h2
    obtain ⟨p, hp, rfl⟩ := hw
    have hc : (R.intersection R).contains p = true := by
      rcases h2 with hz | hr
      · rw [Rect.pointsSpec_of_zero hz] at hp; cases hp
      · exact (Rect.mem_pointsSpec hr).mp hp
    exact ((Rect.mem_intersection R R p).mp hc).2

/-! ### all four in one statement -/

/-- **Per-adapter exactness**: the meaning of the call the parent receives is the adapter's
transformation of the meaning of the call issued on the adapter. -/
theorem lower_sem (a : Adapter) (B : Rect) (c : Call) (h1 : c.Ok (a.bbox B)) (h2 : (a.lower B c).Ok B)
    (q : Pt) : (a.lower B c).sem B q = (a.xf B).act (c.sem (a.bbox B)) q := by
  cases a with
  | clipped r =>
    simp only [lower, xf, bbox, Xf.act, Pt.sub_zero] at h1 h2 ⊢
    rw [clipped_sem _ _ _ h1 h2]
    by_cases h : (r.intersection B).contains q = true <;> simp [h]
  | cropped r =>
    simp only [lower, xf, bbox, Xf.act] at h1 h2 ⊢
    rw [cropped_sem _ _ _ h1 h2]; simp
  | translated d =>
    simp only [lower, xf, bbox, Xf.act] at h1 h2 ⊢
    rw [translated_sem _ _ _ h1 h2]; simp
  | converted f =>
    simp only [lower, xf, bbox, Xf.act, Pt.sub_zero] at h1 h2 ⊢
    rw [converted_sem _ _ _ h1]; simp

end Adapter
end EG

namespace EG
open Tgt

/-! ### The range guard survives intersection (so clipping never needs a guard of its own) -/

theorem Rect.ok_of_inside (i a : Rect) (ha : a.Ok) (hw : 0 < i.size.w) (hh : 0 < i.size.h)
    (hx0 : a.tl.x ≤ i.tl.x) (hx1 : i.tl.x + i.size.w ≤ a.tl.x + a.size.w)
    (hy0 : a.tl.y ≤ i.tl.y) (hy1 : i.tl.y + i.size.h ≤ a.tl.y + a.size.h) : i.Ok := by
  right
  rcases ha with hz | hr
  · rw [Rect.isZeroSized_iff] at hz; omega
  · unfold Rect.InRange inI32 at hr ⊢; omega

theorem Rect.ok_intersection_left (a b : Rect) (ha : a.Ok) : (a.intersection b).Ok := by
  by_cases hz : (a.intersection b).isZeroSized = true
  · exact Or.inl hz
  · rw [Rect.isZeroSized_iff] at hz
    have hf := Rect.intersection_fields a b (by omega) (by omega)
    exact Rect.ok_of_inside _ a ha (by omega) (by omega) (by omega) (by omega) (by omega) (by omega)

theorem Rect.ok_intersection_right (a b : Rect) (hb : b.Ok) : (a.intersection b).Ok := by
  by_cases hz : (a.intersection b).isZeroSized = true
  · exact Or.inl hz
  · rw [Rect.isZeroSized_iff] at hz
    have hf := Rect.intersection_fields a b (by omega) (by omega)
    exact Rect.ok_of_inside _ b hb (by omega) (by omega) (by omega) (by omega) (by omega) (by omega)

/-- What a clipped target hands to its parent is in range whenever the call was. -/
theorem Adapter.clipped_lower_ok (R B : Rect) (c : Call) (h1 : c.Ok R) : (Adapter.lowerClipped R c).Ok B := by
  cases c with
  | drawIter px => trivial
  | fillContiguous a cs =>
    simp only [Adapter.lowerClipped]
    by_cases he : R.intersection a = a
    · simp only [he, ↓reduceIte]; exact h1
    · simp only [he, ↓reduceIte]; exact Rect.ok_intersection_right R a h1
  | fillSolid a col => exact Rect.ok_intersection_left a R h1
  | clear col => exact Rect.ok_intersection_left R R h1

end EG
