/-
  EG.Lemmas.Glue2RRectBand — glue for C18 (rounded rectangles): the half-pixel band of the corners,
  derived from the exact ideal-ellipse theorems.

  Doubled coordinates: `X = dx2`, `Y = dy2` are the squared doubled offsets between the centre of the
  pixel and the centre of the corner ellipse (both odd squares, so >= 1); the ideal corner ellipse has
  doubled semi-axes `A = 2 rw`, `B = 2 rh`; the ellipse grown / shrunk by half a pixel has doubled
  semi-axes `A ± 1`, `B ± 1`. "Centre strictly inside the ellipse with doubled semi-axes a, b" is
  `b² X + a² Y < b² a²`.
-/
import EG.Lemmas.GlueRRectNested
import Mathlib.Tactic.Linarith
import Mathlib.Tactic.Ring
namespace EG.Glue2
open EG EG.RoundedRect EG.Glue

/-! ### arithmetic: nested ellipses -/

/-- A point strictly inside an ellipse is strictly inside every ellipse with larger semi-axes. -/
theorem ellipse_grow {A B A' B' X Y : Nat} (hA : 1 ≤ A) (hB : 1 ≤ B) (hA' : A ≤ A') (hB' : B ≤ B')
    (h : B ^ 2 * X + A ^ 2 * Y < B ^ 2 * A ^ 2) : B' ^ 2 * X + A' ^ 2 * Y < B' ^ 2 * A' ^ 2 := by
  have hP : A ^ 2 ≤ A' ^ 2 := Nat.pow_le_pow_left hA' 2
  have hQ : B ^ 2 ≤ B' ^ 2 := Nat.pow_le_pow_left hB' 2
  have pP : 0 < A ^ 2 := Nat.pow_pos (by omega)
  have pQ : 0 < B ^ 2 := Nat.pow_pos (by omega)
  have pP' : 0 < A' ^ 2 := Nat.pow_pos (by omega)
  have pQ' : 0 < B' ^ 2 := Nat.pow_pos (by omega)
  generalize A ^ 2 = P at *
  generalize B ^ 2 = Q at *
  generalize A' ^ 2 = P' at *
  generalize B' ^ 2 = Q' at *
  have k1 : P * (Q * X * Q') ≤ P' * (Q * X * Q') := Nat.mul_le_mul_right _ hP
  have k2 : Q * (P * Y * P') ≤ Q' * (P * Y * P') := Nat.mul_le_mul_right _ hQ
  have k3 : (Q' * P') * (Q * X + P * Y) < (Q' * P') * (Q * P) :=
    Nat.mul_lt_mul_of_pos_left h (Nat.mul_pos pQ' pP')
  have k4 : (Q' * X + P' * Y) * (Q * P) < (Q' * P') * (Q * P) := by
    have e1 : (Q' * X + P' * Y) * (Q * P) = P * (Q * X * Q') + Q * (P * Y * P') := by ring
    have e2 : (Q' * P') * (Q * X + P * Y) = P' * (Q * X * Q') + Q' * (P * Y * P') := by ring
    omega
  exact Nat.lt_of_mul_lt_mul_right k4

/-- A point with a non-zero x offset inside or ON an ellipse is strictly inside the ellipse whose
semi-axes are larger by one. -/
theorem ellipse_grow_of_le {a b X Y : Nat} (ha : 1 ≤ a) (hb : 1 ≤ b) (hX : 1 ≤ X)
    (h : b ^ 2 * X + a ^ 2 * Y ≤ b ^ 2 * a ^ 2) :
    (b + 1) ^ 2 * X + (a + 1) ^ 2 * Y < (b + 1) ^ 2 * (a + 1) ^ 2 := by
  have hP : a ^ 2 < (a + 1) ^ 2 := Nat.pow_lt_pow_left (by omega) (by decide)
  have hQ : b ^ 2 ≤ (b + 1) ^ 2 := Nat.pow_le_pow_left (by omega) 2
  have pP : 0 < a ^ 2 := Nat.pow_pos (by omega)
  have pQ : 0 < b ^ 2 := Nat.pow_pos (by omega)
  have pP' : 0 < (a + 1) ^ 2 := Nat.pow_pos (by omega)
  have pQ' : 0 < (b + 1) ^ 2 := Nat.pow_pos (by omega)
  generalize a ^ 2 = P at *
  generalize b ^ 2 = Q at *
  generalize (a + 1) ^ 2 = P' at *
  generalize (b + 1) ^ 2 = Q' at *
  have pz : 0 < Q * X * Q' := Nat.mul_pos (Nat.mul_pos pQ (by omega)) pQ'
  have k1 : P * (Q * X * Q') < P' * (Q * X * Q') := Nat.mul_lt_mul_of_pos_right hP pz
  have k2 : Q * (P * Y * P') ≤ Q' * (P * Y * P') := Nat.mul_le_mul_right _ hQ
  have k3 : (Q' * P') * (Q * X + P * Y) ≤ (Q' * P') * (Q * P) := Nat.mul_le_mul_left _ h
  have k4 : (Q' * X + P' * Y) * (Q * P) < (Q' * P') * (Q * P) := by
    have e1 : (Q' * X + P' * Y) * (Q * P) = P * (Q * X * Q') + Q * (P * Y * P') := by ring
    have e2 : (Q' * P') * (Q * X + P * Y) = P' * (Q * X * Q') + Q' * (P * Y * P') := by ring
    omega
  exact Nat.lt_of_mul_lt_mul_right k4

/-! ### the offsets are odd -/

theorem odd_sq_pos (z : Int) (h : z % 2 = 1) : 1 ≤ (z ^ 2).toNat := by
  have hz : z ≠ 0 := by omega
  have : 0 < z ^ 2 := by
    rw [Int.pow_succ, Int.pow_succ, Int.pow_zero, Int.one_mul]
    rcases Int.lt_or_gt_of_ne hz with hn | hp
    · exact Int.mul_pos_of_neg_of_neg hn hn
    · exact Int.mul_pos hp hp
  omega

theorem dx2_pos (tl : Pt) (r : Sz) (k : Quadrant) (p : Pt) : 1 ≤ EllipseQuadrant.dx2 tl r k p := by
  unfold EllipseQuadrant.dx2
  exact odd_sq_pos _ (by omega)

theorem dy2_pos (tl : Pt) (r : Sz) (k : Quadrant) (p : Pt) : 1 ≤ EllipseQuadrant.dy2 tl r k p := by
  unfold EllipseQuadrant.dy2
  exact odd_sq_pos _ (by omega)

/-! ### one corner -/

open EllipseQuadrant in
/-- Every accepted pixel has its centre strictly inside the IDEAL quarter ellipse — all radii >= 1,
also the small circular corners (thresholds 3 < 4 and 14 < 16). -/
theorem quadrant_contains_imp_ideal (tl : Pt) (r : Sz) (k : Quadrant) (hw : 1 ≤ r.w) (hh : 1 ≤ r.h)
    (p : Pt) (h : (EllipseQuadrant.new tl r k).contains p = true) :
    (r.h * 2) ^ 2 * dx2 tl r k p + (r.w * 2) ^ 2 * dy2 tl r k p < (r.h * 2) ^ 2 * (r.w * 2) ^ 2 := by
  by_cases hne : r.w = r.h
  · have hc : dx2 tl r k p + dy2 tl r k p < (r.w * 2) ^ 2 := by
      by_cases h2 : 2 < r.w
      · exact (contains_iff_ideal_circle tl r k hne h2 p).mp h
      · have hs := (contains_iff_small_circle tl r k hne hw (by omega) p).mp h
        have hr : r.w = 1 ∨ r.w = 2 := by omega
        rcases hr with hr | hr
        · rw [hr] at hs ⊢; simp only [↓reduceIte] at hs; omega
        · rw [hr] at hs ⊢
          simp only [show ¬ ((2 : Nat) = 1) by omega, ↓reduceIte] at hs
          omega
    rw [← hne, ← Nat.mul_add]
    exact Nat.mul_lt_mul_of_pos_left hc (Nat.pow_pos (by omega))
  · exact (contains_iff_ideal_ellipse tl r k hw hh hne p).mp h

open EllipseQuadrant in
/-- **Outer edge of the band**: an accepted pixel's centre is strictly inside the quarter ellipse
GROWN by half a pixel (doubled semi-axes `2 rw + 1`, `2 rh + 1`). -/
theorem quadrant_band_outer (tl : Pt) (r : Sz) (k : Quadrant) (hw : 1 ≤ r.w) (hh : 1 ≤ r.h)
    (p : Pt) (h : (EllipseQuadrant.new tl r k).contains p = true) :
    (r.h * 2 + 1) ^ 2 * dx2 tl r k p + (r.w * 2 + 1) ^ 2 * dy2 tl r k p <
      (r.h * 2 + 1) ^ 2 * (r.w * 2 + 1) ^ 2 :=
  ellipse_grow (by omega) (by omega) (by omega) (by omega)
    (quadrant_contains_imp_ideal tl r k hw hh p h)

open EllipseQuadrant in
/-- **Inner edge of the band**: a pixel whose centre is inside or on the quarter ellipse SHRUNK by
half a pixel (doubled semi-axes `2 rw - 1`, `2 rh - 1`) is accepted — all radii >= 1. -/
theorem quadrant_band_inner (tl : Pt) (r : Sz) (k : Quadrant) (hw : 1 ≤ r.w) (hh : 1 ≤ r.h)
    (p : Pt)
    (h : (r.h * 2 - 1) ^ 2 * dx2 tl r k p + (r.w * 2 - 1) ^ 2 * dy2 tl r k p ≤
      (r.h * 2 - 1) ^ 2 * (r.w * 2 - 1) ^ 2) :
    (EllipseQuadrant.new tl r k).contains p = true := by
  have hX := dx2_pos tl r k p
  have hY := dy2_pos tl r k p
  have hi := ellipse_grow_of_le (a := r.w * 2 - 1) (b := r.h * 2 - 1) (by omega) (by omega) hX h
  have ea : r.w * 2 - 1 + 1 = r.w * 2 := by omega
  have eb : r.h * 2 - 1 + 1 = r.h * 2 := by omega
  rw [ea, eb] at hi
  by_cases hne : r.w = r.h
  · rw [← hne] at h hi
    rw [← Nat.mul_add] at h hi
    have hc : dx2 tl r k p + dy2 tl r k p < (r.w * 2) ^ 2 :=
      Nat.lt_of_mul_lt_mul_left hi
    by_cases h2 : 2 < r.w
    · exact (contains_iff_ideal_circle tl r k hne h2 p).mpr hc
    · rw [contains_iff_small_circle tl r k hne hw (by omega) p]
      have hr : r.w = 1 ∨ r.w = 2 := by omega
      rcases hr with hr | hr
      · rw [hr] at h ⊢; simp only [↓reduceIte]
        have : (1 * 2 - 1 : Nat) ^ 2 = 1 := by decide
        rw [this] at h
        omega
      · rw [hr] at h ⊢
        simp only [show ¬ ((2 : Nat) = 1) by omega, ↓reduceIte]
        have : (2 * 2 - 1 : Nat) ^ 2 = 9 := by decide
        rw [this] at h
        omega
  · exact (contains_iff_ideal_ellipse tl r k hw hh hne p).mpr hi

/-! ### the whole shape, corner by corner -/

/-- A condition `T top_left radius quadrant p` imposed at each of the four corners whose box (the
`radius`-sized box at that corner of the rectangle) contains `p`; the radii are taken as they are. -/
def CornerWise (T : Pt → Sz → Quadrant → Pt → Prop) (r : RoundedRect) (p : Pt) : Prop :=
  (p.y < r.rect.tl.y + r.corners.tl.h → p.x < r.rect.tl.x + r.corners.tl.w →
    T r.rect.tl r.corners.tl .topLeft p) ∧
  (r.rect.tl.y + r.rect.size.h - r.corners.bl.h ≤ p.y → p.x < r.rect.tl.x + r.corners.bl.w →
    T ⟨r.rect.tl.x, r.rect.tl.y + r.rect.size.h - r.corners.bl.h⟩ r.corners.bl .bottomLeft p) ∧
  (p.y < r.rect.tl.y + r.corners.tr.h → r.rect.tl.x + r.rect.size.w - r.corners.tr.w ≤ p.x →
    T ⟨r.rect.tl.x + r.rect.size.w - r.corners.tr.w, r.rect.tl.y⟩ r.corners.tr .topRight p) ∧
  (r.rect.tl.y + r.rect.size.h - r.corners.br.h ≤ p.y →
    r.rect.tl.x + r.rect.size.w - r.corners.br.w ≤ p.x →
    T ⟨r.rect.tl.x + r.rect.size.w - r.corners.br.w,
      r.rect.tl.y + r.rect.size.h - r.corners.br.h⟩ r.corners.br .bottomRight p)

theorem cornerConds_iff_cornerWise (r : RoundedRect) (p : Pt) :
    CornerConds r p ↔
      CornerWise (fun tl rad k q => (EllipseQuadrant.new tl rad k).contains q = true) r p := Iff.rfl

/-- Inside the rectangle a corner box that contains the point has radii >= 1, so a corner-wise
condition can be replaced by any condition it implies for such radii. -/
theorem CornerWise.imp {T T' : Pt → Sz → Quadrant → Pt → Prop} {r : RoundedRect} {p : Pt}
    (hb : r.rect.contains p = true)
    (himp : ∀ tl rad k, 1 ≤ rad.w → 1 ≤ rad.h → T tl rad k p → T' tl rad k p)
    (h : CornerWise T r p) : CornerWise T' r p := by
  rw [Rect.contains_iff] at hb
  obtain ⟨h1, h2, h3, h4⟩ := h
  refine ⟨?_, ?_, ?_, ?_⟩
  · intro hy hx; exact himp _ _ _ (by omega) (by omega) (h1 hy hx)
  · intro hy hx; exact himp _ _ _ (by omega) (by omega) (h2 hy hx)
  · intro hy hx; exact himp _ _ _ (by omega) (by omega) (h3 hy hx)
  · intro hy hx; exact himp _ _ _ (by omega) (by omega) (h4 hy hx)

/-- `contains` only looks at the confined radii. -/
theorem contains_confineRadii (r : RoundedRect) (p : Pt) : r.confineRadii.contains p = r.contains p := by
  have e : ∀ k, r.confineRadii.cornerQuadrant k = r.cornerQuadrant k := by
    intro k
    unfold RoundedRect.cornerQuadrant RoundedRect.confineRadii
    simp only [CornerRadii.confine_confine]
  unfold RoundedRect.contains RRContains.new
  simp only [e]
  rfl

/-- **Membership of ANY rounded rectangle, corner by corner**: inside the rectangle and, in each of
the four corner boxes of the confined radii, accepted by that corner's quarter ellipse. -/
theorem contains_iff_cornerWise (r : RoundedRect) (h : r.InRange) (p : Pt) :
    r.contains p = true ↔ r.rect.contains p = true ∧
      CornerWise (fun tl rad k q => (EllipseQuadrant.new tl rad k).contains q = true) r.confineRadii p := by
  rw [← contains_confineRadii r p,
    contains_iff_of_fits r.confineRadii h (CornerRadii.confine_fits' r.corners r.rect.size) p]
  exact Iff.rfl

end EG.Glue2
