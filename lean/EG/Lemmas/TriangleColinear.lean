/-
  EG.Lemmas.TriangleColinear — triangles of zero area (colinear or coincident vertices).
  What the code does: `scanline_intersection` takes its colinear arm, the row span is the Bresenham
  intersection with the single line `Line(p1, p3)` between the `(y, x)`-extreme vertices of
  `sorted_yx`; `points()` is, as a set, exactly the pixels of that line (`degenerate_points_iff`).
  The middle vertex `p2` lies on the segment `p1 p3` (`sorted_between`), so by
  EG.Lemmas.LineColinear `Line(p1, p3).points() = Line(p1, p2).points() ++ tail
  (Line(p2, p3).points())`: the long line contains the pixels of all three edge lines
  (`edgeLine_pixel_mem_long`). Hence every pixel of every edge line is a point of the filled
  triangle for ALL triangles (`edge_pixel_mem_points_all`), which removes the non-zero-area guard of
  the shared-edge theorem.
-/
import EG.Lemmas.LineColinear
import EG.Lemmas.TriangleNear
namespace EG
namespace Triangle
open Line

/-- `sorted_yx` is in non-decreasing `(y, x)` order. -/
theorem sortedYx_sorted (t : Triangle) :
    ¬ yxLt t.sortedYx.v2 t.sortedYx.v1 ∧ ¬ yxLt t.sortedYx.v3 t.sortedYx.v2 := by
  simp only [sortedYx, sortTwoYx]
  repeat' split
  all_goals try dsimp only at *
  all_goals
    unfold yxLt at *
    refine ⟨?_, ?_⟩ <;> omega

/-- Three colinear points in `(y, x)` order: the middle one lies on the segment of the outer two. -/
theorem between_of_sorted_colinear {A B C : Pt} (h1 : ¬ yxLt B A) (h2 : ¬ yxLt C B)
    (ha : (Triangle.mk A B C).areaDoubled = 0) : Between A B C := by
  have hc : (B.x - A.x) * (C.y - A.y) = (B.y - A.y) * (C.x - A.x) := by
    have e : (B.x - A.x) * (C.y - A.y) - (B.y - A.y) * (C.x - A.x) =
        (Triangle.mk A B C).areaDoubled := by
      unfold areaDoubled; ring
    omega
  unfold yxLt at h1 h2
  refine ⟨hc, ?_⟩
  by_cases hdy : C.y - A.y = 0
  · refine ⟨?_, ?_, ?_, ?_⟩ <;> omega
  · have hdy' : 0 < C.y - A.y := by omega
    have hey : 0 ≤ B.y - A.y := by omega
    have hfy : 0 ≤ C.y - B.y := by omega
    -- `(dx - ex) dy = dx fy`
    have hc2 : ((C.x - A.x) - (B.x - A.x)) * (C.y - A.y) = (C.x - A.x) * (C.y - B.y) := by
      have e : ((C.x - A.x) - (B.x - A.x)) * (C.y - A.y) - (C.x - A.x) * (C.y - B.y) =
          -((B.x - A.x) * (C.y - A.y) - (B.y - A.y) * (C.x - A.x)) := by ring
      omega
    generalize C.y - A.y = dy at *
    generalize B.y - A.y = ey at *
    generalize C.y - B.y = fy at *
    have hx : (0 ≤ C.x - A.x → 0 ≤ B.x - A.x ∧ B.x - A.x ≤ C.x - A.x) ∧
        (C.x - A.x < 0 → B.x - A.x ≤ 0 ∧ C.x - A.x ≤ B.x - A.x) := by
      generalize C.x - A.x = dx at *
      generalize B.x - A.x = ex at *
      constructor
      · intro hdx
        constructor
        · by_contra hn
          have a1 : ex * dy < 0 := Int.mul_neg_of_neg_of_pos (by omega) hdy'
          have a2 : 0 ≤ ey * dx := Int.mul_nonneg hey hdx
          omega
        · by_contra hn
          have a1 : (dx - ex) * dy < 0 := Int.mul_neg_of_neg_of_pos (by omega) hdy'
          have a2 : 0 ≤ dx * fy := Int.mul_nonneg hdx hfy
          omega
      · intro hdx
        constructor
        · by_contra hn
          have a1 : 0 < ex * dy := Int.mul_pos (by omega) hdy'
          have a2 : ey * dx ≤ 0 := Int.mul_nonpos_of_nonneg_of_nonpos hey (by omega)
          omega
        · by_contra hn
          have a1 : 0 < (dx - ex) * dy := Int.mul_pos (by omega) hdy'
          have a2 : dx * fy ≤ 0 := Int.mul_nonpos_of_nonpos_of_nonneg (by omega) hfy
          omega
    refine ⟨?_, ?_, ?_, ?_⟩ <;> omega

/-- For a zero-area triangle the middle vertex of `sorted_yx` lies on the segment between the
`(y, x)`-extreme vertices. -/
theorem sorted_between (t : Triangle) (ha : t.areaDoubled = 0) :
    Between t.sortedYx.v1 t.sortedYx.v2 t.sortedYx.v3 := by
  obtain ⟨h1, h2⟩ := sortedYx_sorted t
  exact between_of_sorted_colinear h1 h2
    ((areaDoubled_eq_zero_iff_of_mem_orders (sortedYx_mem_orders t)).mpr ha)

/-- The one line a zero-area triangle is rasterised as. -/
def longLine (t : Triangle) : Line := ⟨t.sortedYx.v1, t.sortedYx.v3⟩

/-- **The long line is the two short edge lines with the joint emitted once.** -/
theorem longLine_points (t : Triangle) (ha : t.areaDoubled = 0) :
    Line.points (longLine t) =
      Line.points ⟨t.sortedYx.v1, t.sortedYx.v2⟩ ++ (Line.points ⟨t.sortedYx.v2, t.sortedYx.v3⟩).tail :=
  (sorted_between t ha).points_append

/-- Zero area: every pixel of each of the three edge lines is a pixel of the long line. -/
theorem edgeLine_pixel_mem_long (t : Triangle) (ha : t.areaDoubled = 0) {l : Line}
    (hl : l ∈ t.edgeLines) {p : Pt} (hp : p ∈ Line.points l) : p ∈ Line.points (longLine t) := by
  have hb := sorted_between t ha
  unfold edgeLines at hl
  simp only [List.mem_cons, List.mem_nil_iff, or_false] at hl
  rcases hl with rfl | rfl | rfl
  · exact hb.mem_left hp
  · exact hp
  · exact hb.mem_right hp

/-- **Every pixel of each of the three edge lines is a point of `points()`, for every triangle**
(zero area included). -/
theorem edge_pixel_mem_points_all (t : Triangle) (h : t.boundingBox.InRange) {l : Line}
    (hl : l ∈ t.edgeLines) {p : Pt} (hp : p ∈ Line.points l) : p ∈ t.points := by
  by_cases ha : t.areaDoubled = 0
  · exact edge_pixel_mem_points t h (long_edge_mem_usedLines t) (edgeLine_pixel_mem_long t ha hl hp)
  · exact edge_pixel_mem_points t h (by rw [usedLines_of_nonzero ha]; exact hl) hp

/-- **A zero-area triangle is, as a point set, exactly the Bresenham line between its
`(y, x)`-extreme vertices.** -/
theorem degenerate_points_iff (t : Triangle) (h : t.boundingBox.InRange) (ha : t.areaDoubled = 0)
    (p : Pt) : p ∈ t.points ↔ p ∈ Line.points (longLine t) := by
  constructor
  · intro hp
    rcases closedIn_or_edge_pixel t h p hp with ⟨hn, _⟩ | ⟨l, hl, hpl⟩
    · exact absurd ha hn
    · have hu : usedLines t = [longLine t] := by unfold usedLines longLine; simp [ha]
      rw [hu] at hl
      simp only [List.mem_cons, List.mem_nil_iff, or_false] at hl
      subst hl
      exact hpl
  · intro hp
    exact edge_pixel_mem_points t h (long_edge_mem_usedLines t) hp

end Triangle
end EG
