/-
  EG.Lemmas.CheckedData — range theorems of the data-side kernels (`ImageRaw`, `Framebuffer`,
  raw `load`/`store`, sub-image crop). Text metrics: EG/Lemmas/CheckedText.lean.
-/
import EG.Lemmas.Checked
import EG.Lemmas.Rect
import EG.Model.CheckedData
namespace EG.Chk
open EG EG.Raw EG.Img

theorem validBits_cases {bits : Nat} (h : validBits bits = true) :
    bits = 1 ∨ bits = 2 ∨ bits = 4 ∨ bits = 8 ∨ bits = 16 ∨ bits = 24 ∨ bits = 32 := by
  simp only [validBits, Bool.or_eq_true, beq_iff_eq] at h; omega

/-! ## `ImageRaw` -/

/-- `bytes_per_row` cannot overflow `usize` for any `u32` width and any of the 7 depths. -/
theorem bytesPerRow_ok {width bits : Nat} (hw : width ≤ 4294967295) (hb : bits ≤ 32) :
    bytesPerRow width bits = some (Img.bytesPerRow width bits) := by
  have h : width * bits ≤ 4294967295 * 32 := Nat.mul_le_mul hw hb
  unfold bytesPerRow Img.bytesPerRow
  chk_simp

theorem bytesPerRow_le {width bits : Nat} (hw : width ≤ 268435456) (hb : bits ≤ 32) :
    Img.bytesPerRow width bits ≤ 1073741824 := by
  have h : width * bits ≤ 268435456 * 32 := Nat.mul_le_mul hw hb
  unfold Img.bytesPerRow; omega

/-- `ImageRaw::new` for sizes up to 2^28 x 2^28: the expected length fits `usize`. -/
theorem imageNew_ok {bits : Nat} (hb : bits ≤ 32) (o : Order) (data : List Nat) {size : Sz}
    (hw : size.w ≤ 268435456) (hh : size.h ≤ 268435456) :
    imageNew bits o data size = some (ImageRaw.new bits o data size) := by
  have h1 := bytesPerRow_le hw hb
  have h2 : Img.bytesPerRow size.w bits * size.h ≤ 1073741824 * 268435456 := Nat.mul_le_mul h1 hh
  unfold imageNew ImageRaw.new
  rw [bytesPerRow_ok (by omega) hb]
  chk_simp

theorem imageDataWidth_ok {bits : Nat} (hv : validBits bits = true) {w : Nat} (hw : w ≤ 268435456) :
    imageDataWidth bits w = some (ImageRaw.dataWidth ⟨bits, .le, [], ⟨w, 0⟩⟩) ∧
      ImageRaw.dataWidth ⟨bits, .le, [], ⟨w, 0⟩⟩ ≤ 268435456 + 7 := by
  have hc := validBits_cases hv
  unfold imageDataWidth ImageRaw.dataWidth
  simp only
  by_cases hb : bits < 8
  · simp only [hb, ↓reduceIte]
    have hbits : bits = 1 ∨ bits = 2 ∨ bits = 4 := by omega
    rw [bytesPerRow_ok (by omega) (by omega)]
    have h8 : Img.bytesPerRow w bits * (8 / bits) ≤ w + 7 := by
      unfold Img.bytesPerRow
      rcases hbits with h | h | h <;> subst h <;> omega
    have hl := bytesPerRow_le hw (show bits ≤ 32 by omega)
    have hmod : Img.bytesPerRow w bits % 4294967296 = Img.bytesPerRow w bits := Nat.mod_eq_of_lt (by omega)
    refine ⟨?_, by omega⟩
    chk_simp
    rw [hmod]
    chk_simp
  · simp only [hb, ↓reduceIte]
    exact ⟨rfl, by omega⟩

/-- `pixel`: for EVERY point (no bound on `p`) the index arithmetic does not overflow; points
outside are rejected before any arithmetic. Images up to 2^28 x 2^28. -/
theorem imagePixelIndex_ok {im : ImageRaw} (hv : validBits im.bits = true)
    (hw : im.size.w ≤ 268435456) (hh : im.size.h ≤ 268435456) (p : Pt) :
    imagePixelIndex im p =
      some (if p.x < 0 ∨ p.y < 0 ∨ p.x ≥ asI32 im.size.w ∨ p.y ≥ asI32 im.size.h then none
            else some (p.x.toNat + p.y.toNat * im.dataWidth)) := by
  unfold imagePixelIndex
  split
  · rfl
  · rename_i hc
    obtain ⟨e, hle⟩ := imageDataWidth_ok hv hw
    have hdw : ImageRaw.dataWidth ⟨im.bits, .le, [], ⟨im.size.w, 0⟩⟩ = im.dataWidth := rfl
    rw [hdw] at e hle
    rw [e]
    have a1 : asI32 im.size.w = im.size.w := by unfold asI32; omega
    have a2 : asI32 im.size.h = im.size.h := by unfold asI32; omega
    rw [a1, a2] at hc
    have hy : p.y.toNat ≤ 268435456 := by omega
    have hm : p.y.toNat * im.dataWidth ≤ 268435456 * (268435456 + 7) := Nat.mul_le_mul hy hle
    chk_simp

/-! ## `Framebuffer` -/

theorem bufferSize_ok {width height bits : Nat} (hw : width ≤ 16777216) (hh : height ≤ 16777216)
    (hb : bits ≤ 32) : bufferSize width height bits = some (Fb.bufferSize width height bits) := by
  have h : width * bits ≤ 16777216 * 32 := Nat.mul_le_mul hw hb
  have h2 : (width * bits + 7) / 8 * height ≤ 67108865 * 16777216 := Nat.mul_le_mul (by omega) hh
  unfold bufferSize Fb.bufferSize
  chk_simp

/-- `set_pixel`: for EVERY point the index arithmetic does not overflow (framebuffers up to
2^24 x 2^24); points outside are a no-op. -/
theorem fbIndex_ok {bits : Nat} (hv : validBits bits = true) {width height : Nat}
    (hw : width ≤ 16777216) (hh : height ≤ 16777216) (p : Pt) :
    fbIndex bits width height p =
      some (if 0 ≤ p.x ∧ 0 ≤ p.y ∧ p.x.toNat < width ∧ p.y.toNat < height
            then some (fbIndexPlain bits width p) else none) := by
  have hc := validBits_cases hv
  unfold fbIndex fbIndexPlain
  by_cases h1 : 0 ≤ p.x ∧ 0 ≤ p.y
  · by_cases h2 : p.x.toNat < width ∧ p.y.toNat < height
    · have h3 : 0 ≤ p.x ∧ 0 ≤ p.y ∧ p.x.toNat < width ∧ p.y.toNat < height := ⟨h1.1, h1.2, h2.1, h2.2⟩
      simp only [h1, h2, and_self, ↓reduceIte]
      have hwb : width * bits ≤ 16777216 * 32 := Nat.mul_le_mul hw (by omega)
      have hyw : p.y.toNat * width ≤ 16777216 * 16777216 := Nat.mul_le_mul (by omega) hw
      by_cases hb : bits < 8
      · simp only [hb, ↓reduceIte]
        have hbits : bits = 1 ∨ bits = 2 ∨ bits = 4 := by omega
        have h8 : (width * bits + 7) / 8 * (8 / bits) ≤ width + 7 := by
          rcases hbits with h | h | h <;> subst h <;> omega
        have hm : (width * bits + 7) / 8 * (8 / bits) * p.y.toNat ≤ (16777216 + 7) * 16777216 :=
          Nat.mul_le_mul (by omega) (by omega)
        chk_simp
      · simp only [hb, ↓reduceIte]
        by_cases h8 : bits = 8
        · simp only [h8, ↓reduceIte]
          chk_simp
        · simp only [h8, ↓reduceIte]
          have hm : (p.y.toNat * width + p.x.toNat) * (bits / 8) ≤ (16777216 * 16777216 + 16777216) * 4 :=
            Nat.mul_le_mul (by omega) (by omega)
          chk_simp
    · have h3 : ¬ (0 ≤ p.x ∧ 0 ≤ p.y ∧ p.x.toNat < width ∧ p.y.toNat < height) := by
        intro h; exact h2 ⟨h.2.2.1, h.2.2.2⟩
      simp only [h1, h2, and_self, ↓reduceIte]
      rfl
  · have h3 : ¬ (0 ≤ p.x ∧ 0 ≤ p.y ∧ p.x.toNat < width ∧ p.y.toNat < height) := by
      intro h; exact h1 ⟨h.1, h.2.1⟩
    simp only [h1, h3, ↓reduceIte]
    rfl

/-! ## Raw `load` / `store`: `checked_mul` -/

/-- For EVERY index (also beyond `usize::MAX / n`, where `checked_mul` yields `None`) the repaired
`load` is the plain `load`: a buffer is never longer than `usize::MAX`, so the plain model
rejects those indices too. No operation of the repaired code can panic. -/
theorem loadBytes_eq (n : Nat) (o : Order) {buf : List Nat} (hl : buf.length ≤ usizeMax) (i : Nat) :
    Chk.loadBytes n o buf i = Raw.loadBytes n o buf i := by
  unfold Chk.loadBytes Raw.loadBytes checkedMulUsize
  split
  · rename_i h
    split at h
    · cases h
    · rename_i hov
      have : sliceFrom buf (i * n) = none := by
        unfold sliceFrom; rw [if_neg]; omega
      rw [this]
  · rename_i start h
    split at h
    · simp only [Option.some.injEq] at h; subst h; rfl
    · cases h

theorem storeBytes_eq (n : Nat) (o : Order) (v : Nat) {buf : List Nat} (hl : buf.length ≤ usizeMax)
    (i : Nat) : Chk.storeBytes n o v buf i = Raw.storeBytes n o v buf i := by
  unfold Chk.storeBytes Raw.storeBytes checkedMulUsize
  simp only
  split
  · rename_i h
    split at h
    · cases h
    · rename_i hov
      have : sliceFrom buf (i * n) = none := by
        unfold sliceFrom; rw [if_neg]; omega
      rw [this]
  · rename_i start h
    split at h
    · simp only [Option.some.injEq] at h; subst h; rfl
    · cases h

/-! ## Sub-images: `crop_range`, `crop_area`, `SubImage::new` -/

/-- `crop_range` stays inside `i64` for ANY `i32` start and ANY `u32` lengths; the cropped
length is at most `length`, so the final `as u32` is lossless. -/
theorem cropRange_ok {start : Int} (hs : -2147483648 ≤ start ∧ start ≤ 2147483647) {length parent : Nat}
    (hl : length ≤ 4294967295) (hp : parent ≤ 4294967295) :
    cropRange start length parent = some (Img.cropRange start length parent) ∧
      (Img.cropRange start length parent).2 ≤ length := by
  unfold cropRange Img.cropRange
  simp only
  refine ⟨?_, by omega⟩
  chk_simp
  have : (max (min (start + (length : Int)) ((parent : Int) + 1) - max start (-1)) 0).toNat % 4294967296 =
      (max (min (start + (length : Int)) ((parent : Int) + 1) - max start (-1)) 0).toNat :=
    Nat.mod_eq_of_lt (by omega)
  rw [this]

def inI32Pt (p : Pt) : Prop :=
  (-2147483648 ≤ p.x ∧ p.x ≤ 2147483647) ∧ (-2147483648 ≤ p.y ∧ p.y ≤ 2147483647)
def inU32Sz (s : Sz) : Prop := s.w ≤ 4294967295 ∧ s.h ≤ 4294967295

theorem cropArea_ok {area : Rect} (ht : inI32Pt area.tl) (hz : inU32Sz area.size) {ps : Sz}
    (hp : inU32Sz ps) : cropArea area ps = some (Img.cropArea area ps) := by
  unfold cropArea Img.cropArea
  split
  · rfl
  · rw [(cropRange_ok ht.1 hz.1 hp.1).1, (cropRange_ok ht.2 hz.2 hp.2).1]
    rfl

/-- A rectangle whose `bottom_right()` can be computed: zero sized (no arithmetic happens), or
`top_left + size` fits `i32`. -/
def BrFits (r : Rect) : Prop :=
  inI32Pt r.tl ∧ (r.size.w = 0 ∨ r.size.h = 0 ∨
    (r.size.w ≤ 2147483647 ∧ r.size.h ≤ 2147483647 ∧
      r.tl.x + r.size.w ≤ 2147483647 ∧ r.tl.y + r.size.h ≤ 2147483647))

theorem bottomRight_ok' {r : Rect} (h : BrFits r) : bottomRight r = some r.bottomRight := by
  obtain ⟨⟨⟨_, _⟩, ⟨_, _⟩⟩, hz⟩ := h
  unfold bottomRight Rect.bottomRight
  split
  · have hz' : r.size.w ≤ 2147483647 ∧ r.size.h ≤ 2147483647 ∧
        r.tl.x + r.size.w ≤ 2147483647 ∧ r.tl.y + r.size.h ≤ 2147483647 := by omega
    rw [ptAddSize_ok (by omega) (by omega) (by omega) (by omega)]
    chk_simp
    rw [ptSub_ok (by simp only; omega) (by simp only; omega)]
    rfl
  · rfl

theorem contains_ok' {r : Rect} (h : BrFits r) (p : Pt) : contains r p = some (r.contains p) := by
  unfold contains Rect.contains
  rw [bottomRight_ok' h]
  split <;> rfl

/-- `Rectangle::intersection` whenever both corners can be computed (whatever the coordinates). -/
theorem intersection_ok' {a b : Rect} (ha : BrFits a) (hb : BrFits b) :
    intersection a b = some (a.intersection b) := by
  unfold intersection Rect.intersection
  rw [bottomRight_ok' ha, bottomRight_ok' hb]
  chk_simp
  cases hobr : b.bottomRight <;> cases hsbr : a.bottomRight <;> simp only
  · rw [contains_ok' ha]; rfl
  · rw [contains_ok' hb]; rfl
  · have h1 := bottomRight_eq hobr
    have h2 := bottomRight_eq hsbr
    have hbz : 0 < b.size.w ∧ 0 < b.size.h := by
      by_cases hcon : 0 < b.size.w ∧ 0 < b.size.h
      · exact hcon
      · rw [Rect.bottomRight_none hcon] at hobr; cases hobr
    have haz : 0 < a.size.w ∧ 0 < a.size.h := by
      by_cases hcon : 0 < a.size.w ∧ 0 < a.size.h
      · exact hcon
      · rw [Rect.bottomRight_none hcon] at hsbr; cases hsbr
    obtain ⟨⟨⟨_, _⟩, ⟨_, _⟩⟩, hza⟩ := ha
    obtain ⟨⟨⟨_, _⟩, ⟨_, _⟩⟩, hzb⟩ := hb
    split
    · rename_i ho
      rw [Bool.and_eq_true, Rect.overlaps_iff (by omega) (by omega),
        Rect.overlaps_iff (by omega) (by omega)] at ho
      apply withCorners_ok <;> simp only [Pt.componentMax, Pt.componentMin] <;> omega
    · rfl

theorem cropRange_bounds (start : Int) (length parent : Nat) :
    (Img.cropRange start length parent).1 = max start (-1) ∧
    ((Img.cropRange start length parent).2 = 0 ∨
      ((Img.cropRange start length parent).1 + ((Img.cropRange start length parent).2 : Int) ≤ (parent : Int) + 1 ∧
       ((Img.cropRange start length parent).2 : Int) ≤ (parent : Int) + 2)) := by
  unfold Img.cropRange
  dsimp only
  refine ⟨rfl, ?_⟩
  omega

/-- **`SubImage::new` (as repaired) does not overflow for ANY `i32` coordinates and ANY `u32`
sizes of the area**, for parents up to `i32::MAX - 2` pixels wide / high. -/
theorem subImageArea_ok {ps : Sz} (hp : ps.w ≤ 2147483645 ∧ ps.h ≤ 2147483645) {area : Rect}
    (ht : inI32Pt area.tl) (hz : inU32Sz area.size) :
    subImageArea ps area = some (Img.subImageArea ps area) := by
  unfold subImageArea Img.subImageArea
  rw [cropArea_ok ht hz ⟨by omega, by omega⟩]
  chk_simp
  apply intersection_ok'
  · refine ⟨?_, ?_⟩
    · unfold inI32Pt; simp only [Pt.zero]; omega
    · simp only [Pt.zero]; omega
  · unfold Img.cropArea
    split
    · rename_i hzs
      rw [Rect.isZeroSized_iff] at hzs
      exact ⟨ht, by omega⟩
    · have bx := cropRange_bounds area.tl.x area.size.w ps.w
      have by' := cropRange_bounds area.tl.y area.size.h ps.h
      obtain ⟨⟨_, _⟩, ⟨_, _⟩⟩ := ht
      refine ⟨⟨?_, ?_⟩, ?_⟩ <;> simp only <;> omega

/-- **The crop does not change the result**: the cropped area has the same points in common
with the parent's box as the original area (`-1..=parent_length` keeps a one pixel border). -/
theorem crop_preserves_points (ps : Sz) (area : Rect) (p : Pt) :
    ((⟨Pt.zero, ps⟩ : Rect).contains p = true ∧ (Img.cropArea area ps).contains p = true) ↔
    ((⟨Pt.zero, ps⟩ : Rect).contains p = true ∧ area.contains p = true) := by
  unfold Img.cropArea
  split
  · rfl
  · rename_i hzs
    rw [Rect.contains_iff, Rect.contains_iff, Rect.contains_iff]
    simp only [Img.cropRange, Pt.zero]
    omega

/-- ... so `SubImage::new` selects exactly the common points of the parent's box and the ORIGINAL
area, as before the repair. -/
theorem crop_preserves_intersection (ps : Sz) (area : Rect) (p : Pt) :
    (Img.subImageArea ps area).contains p = true ↔
      ((⟨Pt.zero, ps⟩ : Rect).intersection area).contains p = true := by
  unfold Img.subImageArea
  rw [Rect.mem_intersection, Rect.mem_intersection]
  exact crop_preserves_points ps area p


/-! ## `draw_sub_image` called directly -/

theorem dataWidth_ge {bits : Nat} (hv : validBits bits = true) (w : Nat) :
    w ≤ ImageRaw.dataWidth ⟨bits, .le, [], ⟨w, 0⟩⟩ := by
  have hc := validBits_cases hv
  unfold ImageRaw.dataWidth
  simp only
  split
  · unfold Img.bytesPerRow
    rcases hc with h | h | h | h | h | h | h <;> subst h <;> omega
  · exact Nat.le_refl _

/-- What the guard of `draw_sub_image` decides and what it hands to `ContiguousPixels::new`, in
unbounded integers (the plain `Img.ImageRaw.drawSubImage`). -/
def plainSubImageSkips (im : ImageRaw) (area : Rect) : Option (Nat × Nat) :=
  if area.isZeroSized = true ∨ area.tl.x < 0 ∨ area.tl.y < 0 ∨
      area.tl.x.toNat + area.size.w > im.size.w ∨ area.tl.y.toNat + area.size.h > im.size.h then none
  else some (area.tl.y.toNat * ImageRaw.dataWidth ⟨im.bits, .le, [], ⟨im.size.w, 0⟩⟩ + area.tl.x.toNat,
    ImageRaw.dataWidth ⟨im.bits, .le, [], ⟨im.size.w, 0⟩⟩ - area.size.w)

/-- **`ImageRaw::draw_sub_image` (as repaired) cannot panic for ANY area**: every `i32` corner,
every `u32` size, an image up to 2^28 x 2^28 of any depth. The `u64` sums of two `u32` values
always fit; behind the guard the area lies inside the image, so `data_width()` and both `usize`
skips fit. -/
theorem drawSubImageSkips_total {im : ImageRaw} (hv : validBits im.bits = true) (hw : im.size.w ≤ 268435456)
    (hh : im.size.h ≤ 268435456) {area : Rect}
    (hx : -2147483648 ≤ area.tl.x ∧ area.tl.x ≤ 2147483647)
    (hy : -2147483648 ≤ area.tl.y ∧ area.tl.y ≤ 2147483647) (haw : area.size.w ≤ 4294967295)
    (hah : area.size.h ≤ 4294967295) :
    drawSubImageSkips im area = some (plainSubImageSkips im area) := by
  obtain ⟨_, _⟩ := hx
  obtain ⟨_, _⟩ := hy
  obtain ⟨edw, hdw⟩ := imageDataWidth_ok hv hw
  have hge := dataWidth_ge hv im.size.w
  unfold drawSubImageSkips plainSubImageSkips
  by_cases hz : area.isZeroSized = true
  · simp [hz]
  · by_cases hnx : area.tl.x < 0
    · simp [hnx]
    · by_cases hny : area.tl.y < 0
      · simp [hny]
      · have e1 : i32AsU32 area.tl.x = area.tl.x.toNat := i32AsU32_nonneg (by omega)
        have e2 : i32AsU32 area.tl.y = area.tl.y.toNat := i32AsU32_nonneg (by omega)
        simp only [hz, hnx, hny, or_self, e1, e2, false_or]
        rw [chkU64_ok (by omega)]
        simp only [Option.bind_eq_bind, Option.bind_some]
        by_cases hxr : area.tl.x.toNat + area.size.w > im.size.w
        · simp [hxr]
        · simp only [hxr, ↓reduceIte, false_or]
          rw [chkU64_ok (by omega)]
          simp only [Option.bind_some]
          by_cases hyb : area.tl.y.toNat + area.size.h > im.size.h
          · simp [hyb]
          · simp only [hyb, ↓reduceIte]
            rw [edw]
            simp only [Option.bind_some]
            have hm : area.tl.y.toNat * ImageRaw.dataWidth ⟨im.bits, .le, [], ⟨im.size.w, 0⟩⟩ ≤
                268435456 * (268435456 + 7) := Nat.mul_le_mul (by omega) hdw
            rw [chkUsize_ok (by omega), Option.bind_some, chkUsize_ok (by omega), Option.bind_some,
              subU_ok (by omega)]
            rfl

/-- **`SubImage::draw_sub_image` (as repaired) cannot panic for ANY area either**, and decides
like the plain model on the corner `area + own corner` computed in unbounded integers: a corner
that is not representable in `i32` is rejected by `checked_add`, and the plain guard rejects it
too (negative, or beyond every image). -/
theorem subDrawSubImageSkips_total {im : ImageRaw} (hv : validBits im.bits = true)
    (hw : im.size.w ≤ 268435456) (hh : im.size.h ≤ 268435456) {own area : Rect}
    (hox : -2147483648 ≤ own.tl.x ∧ own.tl.x ≤ 2147483647) (hoy : -2147483648 ≤ own.tl.y ∧ own.tl.y ≤ 2147483647)
    (hx : -2147483648 ≤ area.tl.x ∧ area.tl.x ≤ 2147483647)
    (hy : -2147483648 ≤ area.tl.y ∧ area.tl.y ≤ 2147483647) (haw : area.size.w ≤ 4294967295)
    (hah : area.size.h ≤ 4294967295) :
    subDrawSubImageSkips im own area = some (plainSubImageSkips im (area.translate own.tl)) := by
  obtain ⟨_, _⟩ := hox
  obtain ⟨_, _⟩ := hoy
  obtain ⟨_, _⟩ := hx
  obtain ⟨_, _⟩ := hy
  have etx : (area.translate own.tl).tl.x = area.tl.x + own.tl.x := rfl
  have ety : (area.translate own.tl).tl.y = area.tl.y + own.tl.y := rfl
  have ets : (area.translate own.tl).size = area.size := rfl
  have ez : (area.translate own.tl).isZeroSized = area.isZeroSized := rfl
  unfold subDrawSubImageSkips subImageForwardArea
  by_cases hfx : -2147483648 ≤ area.tl.x + own.tl.x ∧ area.tl.x + own.tl.x ≤ 2147483647
  · by_cases hfy : -2147483648 ≤ area.tl.y + own.tl.y ∧ area.tl.y + own.tl.y ≤ 2147483647
    · rw [chkI32_ok hfx.1 hfx.2, chkI32_ok hfy.1 hfy.2]
      simp only
      have e : (⟨⟨area.tl.x + own.tl.x, area.tl.y + own.tl.y⟩, area.size⟩ : Rect) = area.translate own.tl := rfl
      rw [e]
      exact drawSubImageSkips_total hv hw hh (by rw [etx]; exact hfx) (by rw [ety]; exact hfy)
        (by rw [ets]; exact haw) (by rw [ets]; exact hah)
    · rw [chkI32_ok hfx.1 hfx.2, chkI32_none (by omega)]
      simp only [Option.pure_def, Option.some.injEq]
      unfold plainSubImageSkips
      rw [ety, etx, ets, ez]
      rw [if_pos]
      by_cases hneg : area.tl.y + own.tl.y < 0
      · exact Or.inr (Or.inr (Or.inl hneg))
      · by_cases hz : area.isZeroSized = true
        · exact Or.inl hz
        · exact Or.inr (Or.inr (Or.inr (Or.inr (by omega))))
  · rw [chkI32_none (by omega)]
    simp only [Option.pure_def, Option.some.injEq]
    unfold plainSubImageSkips
    rw [ety, etx, ets, ez]
    rw [if_pos]
    by_cases hneg : area.tl.x + own.tl.x < 0
    · exact Or.inr (Or.inl hneg)
    · exact Or.inr (Or.inr (Or.inr (Or.inl (by omega))))

/-- Before a083ac5 the `u32` sum panicked for a non-negative corner and a huge width. -/
theorem old_drawSubImageSkips_overflows :
    Old.drawSubImageSkips ⟨1, .le, [], ⟨5, 3⟩⟩ ⟨⟨1, 0⟩, ⟨4294967295, 1⟩⟩ = none ∧
    Old.drawSubImageSkips ⟨1, .le, [], ⟨5, 3⟩⟩ ⟨⟨0, 1⟩, ⟨1, 4294967295⟩⟩ = none ∧
    drawSubImageSkips ⟨1, .le, [], ⟨5, 3⟩⟩ ⟨⟨1, 0⟩, ⟨4294967295, 1⟩⟩ = some none ∧
    drawSubImageSkips ⟨1, .le, [], ⟨5, 3⟩⟩ ⟨⟨0, 1⟩, ⟨1, 4294967295⟩⟩ = some none := by
  refine ⟨?_, ?_, ?_, ?_⟩ <;> decide

/-- Before a083ac5 `area.translate(own corner)` panicked for a corner at `i32::MAX`; now the area
is rejected. -/
theorem old_subImageForwardArea_overflows :
    Old.subImageForwardArea ⟨⟨1, 1⟩, ⟨3, 2⟩⟩ ⟨⟨2147483647, 0⟩, ⟨0, 0⟩⟩ = none ∧
    subDrawSubImageSkips ⟨1, .le, [], ⟨5, 3⟩⟩ ⟨⟨1, 1⟩, ⟨3, 2⟩⟩ ⟨⟨2147483647, 0⟩, ⟨0, 0⟩⟩ = some none := by
  constructor <;> decide

/-- **Without the sign tests the old guard itself panics**: for a non-zero-sized area whose corner
is negative by at most its width, `x as u32 + width` is at least 2^32. -/
theorem Seeded.drawSubImageRejects_panics (im : ImageRaw) {area : Rect} (hz : area.isZeroSized = false)
    (hx : -2147483648 ≤ area.tl.x ∧ area.tl.x < 0) (hw : -area.tl.x ≤ (area.size.w : Int)) :
    Seeded.drawSubImageRejects im area = none := by
  obtain ⟨_, _⟩ := hx
  unfold Seeded.drawSubImageRejects
  simp only [hz, Bool.false_eq_true, ↓reduceIte]
  have e : i32AsU32 area.tl.x = (area.tl.x + 4294967296).toNat := by
    unfold i32AsU32; rw [if_neg (by omega)]
  rw [e, chkU32_none (by omega)]
  rfl

end EG.Chk
