/-
  EG.Lemmas.JoinsBBoxTri — every scanline a styled triangle paints lies in the columns `lo ..= hi`
  and the rows `r0 .. rEnd`, given (`TriCtx`)
  * every outline line of the three edge segments ends in these columns (needed when the stroke is
    drawn from the edge segments: width > 0, not the collapsed case), and
  * the three vertices lie in these columns (needed when the plain triangle scanline is used: the
    collapsed inside stroke, or the fill of a row without stroke scanlines).
  Invariants of triangle/scanline_intersections.rs (`edge_intersections`, `generate_lines`,
  `ScanlineIntersections::next`), scanline_iterator.rs and `StyledPixelsIterator`.
-/
import EG.Lemmas.JoinsBBoxPoly
import EG.Lemmas.JoinsTriMove
import EG.Model.ThickTriangle
set_option linter.unusedSimpArgs false
namespace EG
namespace Joins
open Thick (LineSide StrokeOffset)

/-- An empty scanline, or a non-empty one inside the columns and rows. -/
def LineOK (lo hi r0 rEnd : Int) (sc : Scanline) : Prop :=
  ¬ sc.xs < sc.xe ∨ GoodLine lo hi r0 rEnd sc

theorem lineOK_of_within {lo hi r0 rEnd y : Int} {sc : Scanline} (hw : Within sc lo hi)
    (hy : sc.y = y) (h1 : r0 ≤ y) (h2 : y < rEnd) : LineOK lo hi r0 rEnd sc := by
  by_cases h : sc.xs < sc.xe
  · right
    rcases hw with hw | hw
    · rw [isEmpty_iff] at hw; exact absurd h hw
    · exact ⟨h, hw.1, hw.2, by omega, by omega⟩
  · left; exact h

theorem lineOK_newEmpty (lo hi r0 rEnd y : Int) : LineOK lo hi r0 rEnd (Scanline.newEmpty y) := by
  left; simp [Scanline.newEmpty]

/-- What the triangle passed to `ScanlineIntersections` has to satisfy. -/
structure TriCtx (tc : Tri) (w : Nat) (off : StrokeOffset) (lo hi : Int) (collapsed hasFill : Bool) :
    Prop where
  edges : w ≠ 0 → collapsed = false → ∀ idx, ∀ a b,
    LineJoin.fromPoints (tc.vertex idx) (tc.vertex (idx + 1)) (tc.vertex (idx + 2)) w off = some a →
    LineJoin.fromPoints (tc.vertex (idx + 1)) (tc.vertex (idx + 1 + 1)) (tc.vertex (idx + 1 + 2)) w off = some b →
    SegOK lo hi ⟨a, b⟩
  verts : collapsed = true ∨ hasFill = true →
    (lo ≤ tc.v1.x ∧ tc.v1.x ≤ hi) ∧ (lo ≤ tc.v2.x ∧ tc.v2.x ≤ hi) ∧ (lo ≤ tc.v3.x ∧ tc.v3.x ≤ hi)

/-! ### The plain triangle scanline -/

theorem sortTwoYx_cases (p q : Pt) : Tri.sortTwoYx p q = (p, q) ∨ Tri.sortTwoYx p q = (q, p) := by
  unfold Tri.sortTwoYx; split
  · left; rfl
  · right; rfl

/-- `sorted_yx` permutes the vertices. -/
theorem sortedYx_all (P : Pt → Prop) (t : Tri) (h1 : P t.v1) (h2 : P t.v2) (h3 : P t.v3) :
    P t.sortedYx.v1 ∧ P t.sortedYx.v2 ∧ P t.sortedYx.v3 := by
  unfold Tri.sortedYx
  rcases sortTwoYx_cases t.v1 t.v2 with e1 | e1 <;> rw [e1] <;> simp only
  · rcases sortTwoYx_cases t.v3 t.v1 with e2 | e2 <;> rw [e2] <;> simp only
    · rcases sortTwoYx_cases t.v1 t.v2 with e3 | e3 <;> rw [e3] <;> exact ⟨by assumption, by assumption, by assumption⟩
    · rcases sortTwoYx_cases t.v3 t.v2 with e3 | e3 <;> rw [e3] <;> exact ⟨by assumption, by assumption, by assumption⟩
  · rcases sortTwoYx_cases t.v3 t.v2 with e2 | e2 <;> rw [e2] <;> simp only
    · rcases sortTwoYx_cases t.v2 t.v1 with e3 | e3 <;> rw [e3] <;> exact ⟨by assumption, by assumption, by assumption⟩
    · rcases sortTwoYx_cases t.v3 t.v1 with e3 | e3 <;> rw [e3] <;> exact ⟨by assumption, by assumption, by assumption⟩

/-- `Triangle::scanline_intersection` stays inside the columns of the vertices. -/
theorem tri_scanlineIntersection_within (t : Tri) (y lo hi : Int)
    (hv : (lo ≤ t.v1.x ∧ t.v1.x ≤ hi) ∧ (lo ≤ t.v2.x ∧ t.v2.x ≤ hi) ∧ (lo ≤ t.v3.x ∧ t.v3.x ≤ hi)) :
    Within (t.scanlineIntersection y) lo hi ∧ (t.scanlineIntersection y).y = y := by
  obtain ⟨s1, s2, s3⟩ := sortedYx_all (fun p => lo ≤ p.x ∧ p.x ≤ hi) t hv.1 hv.2.1 hv.2.2
  unfold Tri.scanlineIntersection
  simp only
  have h0 : Within (Scanline.newEmpty y) lo hi := within_newEmpty y lo hi
  split
  · exact bint_within _ ⟨t.sortedYx.v1, t.sortedYx.v3⟩ lo hi h0 s1.1 s3.1 s1.2 s3.2
  · obtain ⟨a1, a2⟩ := bint_within _ ⟨t.sortedYx.v1, t.sortedYx.v2⟩ lo hi h0 s1.1 s2.1 s1.2 s2.2
    obtain ⟨b1, b2⟩ := bint_within _ ⟨t.sortedYx.v1, t.sortedYx.v3⟩ lo hi a1 s1.1 s3.1 s1.2 s3.2
    obtain ⟨c1, c2⟩ := bint_within _ ⟨t.sortedYx.v2, t.sortedYx.v3⟩ lo hi b1 s2.1 s3.1 s2.2 s3.2
    exact ⟨c1, by rw [c2, b2, a2]; rfl⟩

/-! ### `edge_intersections` -/

/-- Both accumulators of the edge closure are inside the columns, in row `y`. -/
def ESInv (lo hi y : Int) (st : EdgeState) : Prop :=
  (Within st.left lo hi ∧ st.left.y = y) ∧ (Within st.right lo hi ∧ st.right.y = y)

theorem edgeLoop_inv {lo hi : Int} (it : TriIntersections)
    (hseg : ∀ idx, ∀ a b,
      LineJoin.fromPoints (it.triangle.vertex idx) (it.triangle.vertex (idx + 1))
        (it.triangle.vertex (idx + 2)) it.strokeWidth it.strokeOffset = some a →
      LineJoin.fromPoints (it.triangle.vertex (idx + 1)) (it.triangle.vertex (idx + 1 + 1))
        (it.triangle.vertex (idx + 1 + 2)) it.strokeWidth it.strokeOffset = some b →
      SegOK lo hi ⟨a, b⟩) (y : Int) :
    ∀ (fuel : Nat) (st st' : EdgeState), ESInv lo hi y st → it.edgeLoop y fuel st = some st' →
      ESInv lo hi y st'
  | 0, st, st', hs, h => by
    simp only [TriIntersections.edgeLoop, Option.some.injEq] at h
    subst h; exact hs
  | fuel + 1, st, st', hs, h => by
    unfold TriIntersections.edgeLoop at h
    by_cases hi' : st.idx < 3
    · simp only [hi', ↓reduceIte, Option.bind_eq_bind] at h
      cases h1 : LineJoin.fromPoints (it.triangle.vertex st.idx) (it.triangle.vertex (st.idx + 1))
          (it.triangle.vertex (st.idx + 2)) it.strokeWidth it.strokeOffset with
      | none => rw [h1] at h; cases h
      | some j1 =>
        cases h2 : LineJoin.fromPoints (it.triangle.vertex (st.idx + 1))
            (it.triangle.vertex (st.idx + 1 + 1)) (it.triangle.vertex (st.idx + 1 + 2))
            it.strokeWidth it.strokeOffset with
        | none => rw [h1, h2] at h; cases h
        | some j2 =>
          rw [h1, h2] at h
          simp only [Option.bind_some] at h
          obtain ⟨n1, n2⟩ := intersection_within_outline ⟨j1, j2⟩ y lo hi (hseg st.idx j1 j2 h1 h2)
          by_cases hl : st.left.isEmpty = true
          · simp only [hl, Bool.not_true, Bool.false_eq_true, ↓reduceIte] at h
            refine edgeLoop_inv it hseg y fuel _ st' ?_ h
            exact ⟨⟨n1, n2⟩, hs.2⟩
          · have hl' : st.left.isEmpty = false := by simpa using hl
            simp only [hl', Bool.not_false, ↓reduceIte] at h
            by_cases he : (st.left.tryExtend ((ThickSegment.mk j1 j2).intersection y)).1 = true
            · simp only [he, ↓reduceIte] at h
              obtain ⟨x1, x2⟩ := tryExtend_within hs.1.1 n1
              refine edgeLoop_inv it hseg y fuel _ st' ?_ h
              exact ⟨⟨x1, by rw [x2]; exact hs.1.2⟩, hs.2⟩
            · simp only [he, Bool.false_eq_true, ↓reduceIte] at h
              by_cases hr : st.right.isEmpty = true
              · simp only [hr, Bool.not_true, Bool.false_eq_true, ↓reduceIte] at h
                refine edgeLoop_inv it hseg y fuel _ st' ?_ h
                exact ⟨hs.1, ⟨n1, n2⟩⟩
              · have hr' : st.right.isEmpty = false := by simpa using hr
                simp only [hr', Bool.not_false, ↓reduceIte] at h
                obtain ⟨x1, x2⟩ := tryExtend_within hs.2.1 n1
                refine edgeLoop_inv it hseg y fuel _ st' ?_ h
                exact ⟨hs.1, ⟨x1, by rw [x2]; exact hs.2.2⟩⟩
    · simp only [hi', ↓reduceIte, Option.some.injEq] at h
      subst h; exact hs

/-- One call of the edge closure: the returned scanline is non-empty, inside the columns, in row
`y`; the state keeps its invariant. -/
theorem edgeNext_inv {lo hi : Int} (it : TriIntersections)
    (hseg : it.strokeWidth ≠ 0 → ∀ idx, ∀ a b,
      LineJoin.fromPoints (it.triangle.vertex idx) (it.triangle.vertex (idx + 1))
        (it.triangle.vertex (idx + 2)) it.strokeWidth it.strokeOffset = some a →
      LineJoin.fromPoints (it.triangle.vertex (idx + 1)) (it.triangle.vertex (idx + 1 + 1))
        (it.triangle.vertex (idx + 1 + 2)) it.strokeWidth it.strokeOffset = some b →
      SegOK lo hi ⟨a, b⟩) (y : Int) (st st' : EdgeState) (r : Option Scanline)
    (hs : ESInv lo hi y st) (h : it.edgeNext y st = some (r, st')) :
    ESInv lo hi y st' ∧ ∀ sc, r = some sc → sc.xs < sc.xe ∧ Within sc lo hi ∧ sc.y = y := by
  unfold TriIntersections.edgeNext at h
  by_cases hw : it.strokeWidth = 0
  · simp only [hw, ↓reduceIte, Option.some.injEq, Prod.mk.injEq] at h
    obtain ⟨h1, h2⟩ := h
    subst h1 h2
    exact ⟨hs, by intro sc h; cases h⟩
  · simp only [hw, ↓reduceIte, Option.bind_eq_bind] at h
    cases hl : it.edgeLoop y 3 st with
    | none => rw [hl] at h; cases h
    | some st1 =>
      rw [hl] at h
      simp only [Option.bind_some] at h
      have hs1 := edgeLoop_inv it (hseg hw) y 3 st st1 hs hl
      -- the merge of the two accumulators
      have hs2 : ESInv lo hi y
          (if (st1.left.tryExtend st1.right).1 = true then
            { st1 with left := (st1.left.tryExtend st1.right).2, right := Scanline.newEmpty y }
          else st1) := by
        split
        · obtain ⟨x1, x2⟩ := tryExtend_within hs1.1.1 hs1.2.1
          exact ⟨⟨x1, by rw [x2]; exact hs1.1.2⟩, ⟨within_newEmpty _ _ _, rfl⟩⟩
        · exact hs1
      generalize (if (st1.left.tryExtend st1.right).1 = true then
            ({ st1 with left := (st1.left.tryExtend st1.right).2, right := Scanline.newEmpty y } : EdgeState)
          else st1) = st2 at h hs2
      have nonempty_of_take : ∀ (s sc : Scanline), s.tryTake.1 = some sc → sc = s ∧ s.xs < s.xe := by
        intro s sc hsc
        unfold Scanline.tryTake at hsc
        by_cases he : s.isEmpty = true
        · simp only [he, Bool.not_true, Bool.false_eq_true, ↓reduceIte] at hsc; cases hsc
        · have he' : s.isEmpty = false := by simpa using he
          simp only [he', Bool.not_false, ↓reduceIte, Option.some.injEq] at hsc
          refine ⟨hsc.symm, ?_⟩
          by_cases hlt : s.xs < s.xe
          · exact hlt
          · rw [(isEmpty_iff s).mpr hlt] at he'; cases he'
      obtain ⟨t1, t2, _⟩ := tryTake_within hs2.1.1
      obtain ⟨u1, u2, _⟩ := tryTake_within hs2.2.1
      cases hk : st2.left.tryTake.1 with
      | some sc =>
        have hk' : st2.left.tryTake = (some sc, st2.left.tryTake.2) := by rw [← hk]
        rw [hk'] at h
        simp only [pure, Option.some.injEq, Prod.mk.injEq] at h
        obtain ⟨h1, h2⟩ := h
        subst h1 h2
        obtain ⟨e1, e2⟩ := nonempty_of_take _ _ hk
        refine ⟨⟨⟨t1, by rw [t2]; exact hs2.1.2⟩, hs2.2⟩, ?_⟩
        intro sc' hsc'
        cases hsc'
        rw [e1]
        exact ⟨e2, hs2.1.1, hs2.1.2⟩
      | none =>
        have hk' : st2.left.tryTake = (none, st2.left.tryTake.2) := by rw [← hk]
        rw [hk'] at h
        simp only [pure, Option.some.injEq, Prod.mk.injEq] at h
        obtain ⟨h1, h2⟩ := h
        subst h1 h2
        refine ⟨⟨hs2.1, ⟨u1, by rw [u2]; exact hs2.2.2⟩⟩, ?_⟩
        intro sc' hsc'
        obtain ⟨e1, e2⟩ := nonempty_of_take _ _ hsc'
        rw [e1]
        exact ⟨e2, hs2.2.1, hs2.2.2⟩

/-! ### `generate_lines` -/

theorem generateLines_ok {tc : Tri} {w : Nat} {off : StrokeOffset} {lo hi r0 rEnd : Int}
    {collapsed hasFill : Bool} (ctx : TriCtx tc w off lo hi collapsed hasFill) (it : TriIntersections)
    (e1 : it.triangle = tc) (e2 : it.strokeWidth = w) (e3 : it.strokeOffset = off)
    (e4 : it.hasFill = hasFill) (e5 : it.isCollapsed = collapsed) (y : Int) (hy1 : r0 ≤ y)
    (hy2 : y < rEnd) (lines : LineConfig) (h : it.generateLines y = some lines) :
    LineOK lo hi r0 rEnd lines.internal ∧ LineOK lo hi r0 rEnd lines.first ∧
      LineOK lo hi r0 rEnd lines.second := by
  unfold TriIntersections.generateLines at h
  by_cases hc : it.isCollapsed = true
  · simp only [hc, ↓reduceIte, Option.some.injEq] at h
    subst h
    have hv := ctx.verts (Or.inl (by rw [← e5]; exact hc))
    rw [← e1] at hv
    obtain ⟨a, b⟩ := tri_scanlineIntersection_within it.triangle y lo hi hv
    exact ⟨lineOK_of_within a b hy1 hy2, lineOK_newEmpty _ _ _ _ _, lineOK_newEmpty _ _ _ _ _⟩
  · have hc' : it.isCollapsed = false := by simpa using hc
    simp only [hc', Bool.false_eq_true, ↓reduceIte, Option.bind_eq_bind] at h
    have hseg : it.strokeWidth ≠ 0 → ∀ idx, ∀ a b,
        LineJoin.fromPoints (it.triangle.vertex idx) (it.triangle.vertex (idx + 1))
          (it.triangle.vertex (idx + 2)) it.strokeWidth it.strokeOffset = some a →
        LineJoin.fromPoints (it.triangle.vertex (idx + 1)) (it.triangle.vertex (idx + 1 + 1))
          (it.triangle.vertex (idx + 1 + 2)) it.strokeWidth it.strokeOffset = some b →
        SegOK lo hi ⟨a, b⟩ := by
      rw [e1, e2, e3]
      intro hw
      exact ctx.edges hw (by rw [← e5]; exact hc')
    have hs0 : ESInv lo hi y ⟨0, Scanline.newEmpty y, Scanline.newEmpty y⟩ :=
      ⟨⟨within_newEmpty _ _ _, rfl⟩, ⟨within_newEmpty _ _ _, rfl⟩⟩
    cases hn1 : it.edgeNext y ⟨0, Scanline.newEmpty y, Scanline.newEmpty y⟩ with
    | none => rw [hn1] at h; cases h
    | some x1 =>
      obtain ⟨first, st1⟩ := x1
      rw [hn1] at h
      simp only [Option.bind_some] at h
      obtain ⟨hs1, hf⟩ := edgeNext_inv it hseg y _ st1 first hs0 hn1
      cases hn2 : it.edgeNext y st1 with
      | none => rw [hn2] at h; cases h
      | some x2 =>
        obtain ⟨second, st2⟩ := x2
        rw [hn2] at h
        simp only [Option.bind_some, pure, Option.some.injEq] at h
        obtain ⟨_, hsnd⟩ := edgeNext_inv it hseg y _ st2 second hs1 hn2
        subst h
        have hfirst : LineOK lo hi r0 rEnd (first.getD (Scanline.newEmpty y)) := by
          cases first with
          | none => exact lineOK_newEmpty _ _ _ _ _
          | some f => obtain ⟨_, a, b⟩ := hf f rfl; exact lineOK_of_within a b hy1 hy2
        have hsecond : LineOK lo hi r0 rEnd (second.getD (Scanline.newEmpty y)) := by
          cases second with
          | none => exact lineOK_newEmpty _ _ _ _ _
          | some f => obtain ⟨_, a, b⟩ := hsnd f rfl; exact lineOK_of_within a b hy1 hy2
        refine ⟨?_, hfirst, hsecond⟩
        simp only
        by_cases hfill : it.hasFill = true
        · simp only [hfill, ↓reduceIte]
          cases first with
          | none =>
            cases second with
            | none =>
              have hv := ctx.verts (Or.inr (by rw [← e4]; exact hfill))
              rw [← e1] at hv
              obtain ⟨a, b⟩ := tri_scanlineIntersection_within it.triangle y lo hi hv
              exact lineOK_of_within a b hy1 hy2
            | some s => exact lineOK_newEmpty _ _ _ _ _
          | some f =>
            cases second with
            | none => exact lineOK_newEmpty _ _ _ _ _
            | some s =>
              obtain ⟨f1, f2, f3⟩ := hf f rfl
              obtain ⟨s1, s2, s3⟩ := hsnd s rfl
              rcases f2 with f2 | f2
              · rw [isEmpty_iff] at f2; exact absurd f1 f2
              rcases s2 with s2 | s2
              · rw [isEmpty_iff] at s2; exact absurd s1 s2
              simp only
              by_cases hlt : min f.xe s.xe < max f.xs s.xs
              · right
                exact ⟨hlt, by dsimp only; omega, by dsimp only; omega, hy1, hy2⟩
              · left; exact hlt
        · have hfill' : it.hasFill = false := by simpa using hfill
          simp only [hfill', Bool.false_eq_true, ↓reduceIte]
          exact lineOK_newEmpty _ _ _ _ _

/-! ### `ScanlineIntersections`, `ScanlineIterator` -/

/-- The invariant of `triangle::scanline_intersections::ScanlineIntersections`. -/
structure TIInv (tc : Tri) (w : Nat) (off : StrokeOffset) (hasFill collapsed : Bool)
    (lo hi r0 rEnd : Int) (it : TriIntersections) : Prop where
  tri : it.triangle = tc
  width : it.strokeWidth = w
  off : it.strokeOffset = off
  fill : it.hasFill = hasFill
  coll : it.isCollapsed = collapsed
  internal : LineOK lo hi r0 rEnd it.lines.internal
  first : LineOK lo hi r0 rEnd it.lines.first
  second : LineOK lo hi r0 rEnd it.lines.second

theorem tryTake_lineOK {lo hi r0 rEnd : Int} {s : Scanline} (h : LineOK lo hi r0 rEnd s) :
    LineOK lo hi r0 rEnd s.tryTake.2 ∧ ∀ sc, s.tryTake.1 = some sc → GoodLine lo hi r0 rEnd sc := by
  unfold Scanline.tryTake
  by_cases he : s.isEmpty = true
  · simp only [he, Bool.not_true, Bool.false_eq_true, ↓reduceIte]
    exact ⟨h, by intro sc h; cases h⟩
  · have he' : s.isEmpty = false := by simpa using he
    simp only [he', Bool.not_false, ↓reduceIte]
    refine ⟨Or.inl (by dsimp only; omega), ?_⟩
    intro sc hsc
    cases hsc
    rcases h with h | h
    · rw [(isEmpty_iff s).mpr h] at he'; cases he'
    · exact h

theorem TriIntersections.next_inv {tc : Tri} {w : Nat} {off : StrokeOffset} {hasFill collapsed : Bool}
    {lo hi r0 rEnd : Int} (it : TriIntersections)
    (hi' : TIInv tc w off hasFill collapsed lo hi r0 rEnd it) (sc : Scanline) (ty : PointType)
    (it' : TriIntersections) (h : it.next = some ((sc, ty), it')) :
    TIInv tc w off hasFill collapsed lo hi r0 rEnd it' ∧ GoodLine lo hi r0 rEnd sc := by
  unfold TriIntersections.next at h
  obtain ⟨a1, a2⟩ := tryTake_lineOK hi'.internal
  obtain ⟨b1, b2⟩ := tryTake_lineOK hi'.first
  obtain ⟨c1, c2⟩ := tryTake_lineOK hi'.second
  cases hk : it.lines.internal.tryTake.1 with
  | some x =>
    have hk' : it.lines.internal.tryTake = (some x, it.lines.internal.tryTake.2) := by rw [← hk]
    rw [hk'] at h
    simp only [Option.some.injEq, Prod.mk.injEq] at h
    obtain ⟨⟨h1, _⟩, h2⟩ := h
    subst h1 h2
    exact ⟨⟨hi'.tri, hi'.width, hi'.off, hi'.fill, hi'.coll, a1, hi'.first, hi'.second⟩, a2 _ hk⟩
  | none =>
    have hk' : it.lines.internal.tryTake = (none, it.lines.internal.tryTake.2) := by rw [← hk]
    rw [hk'] at h
    simp only at h
    cases hk1 : it.lines.first.tryTake.1 with
    | some x =>
      have hk1' : it.lines.first.tryTake = (some x, it.lines.first.tryTake.2) := by rw [← hk1]
      rw [hk1'] at h
      simp only [Option.some.injEq, Prod.mk.injEq] at h
      obtain ⟨⟨h1, _⟩, h2⟩ := h
      subst h1 h2
      exact ⟨⟨hi'.tri, hi'.width, hi'.off, hi'.fill, hi'.coll, hi'.internal, b1, hi'.second⟩, b2 _ hk1⟩
    | none =>
      have hk1' : it.lines.first.tryTake = (none, it.lines.first.tryTake.2) := by rw [← hk1]
      rw [hk1'] at h
      simp only at h
      cases hk2 : it.lines.second.tryTake.1 with
      | some x =>
        have hk2' : it.lines.second.tryTake = (some x, it.lines.second.tryTake.2) := by rw [← hk2]
        rw [hk2'] at h
        simp only [Option.some.injEq, Prod.mk.injEq] at h
        obtain ⟨⟨h1, _⟩, h2⟩ := h
        subst h1 h2
        exact ⟨⟨hi'.tri, hi'.width, hi'.off, hi'.fill, hi'.coll, hi'.internal, hi'.first, c1⟩, c2 _ hk2⟩
      | none =>
        have hk2' : it.lines.second.tryTake = (none, it.lines.second.tryTake.2) := by rw [← hk2]
        rw [hk2'] at h
        cases h

theorem TriIntersections.reset_inv {tc : Tri} {w : Nat} {off : StrokeOffset} {hasFill collapsed : Bool}
    {lo hi r0 rEnd : Int} (ctx : TriCtx tc w off lo hi collapsed hasFill) (it : TriIntersections)
    (e1 : it.triangle = tc) (e2 : it.strokeWidth = w) (e3 : it.strokeOffset = off)
    (e4 : it.hasFill = hasFill) (e5 : it.isCollapsed = collapsed) (y : Int) (hy1 : r0 ≤ y)
    (hy2 : y < rEnd) (it' : TriIntersections) (h : it.resetWithNewScanline y = some it') :
    TIInv tc w off hasFill collapsed lo hi r0 rEnd it' := by
  unfold TriIntersections.resetWithNewScanline at h
  cases hg : it.generateLines y with
  | none => rw [hg] at h; cases h
  | some lines =>
    rw [hg] at h
    simp only [Option.bind_eq_bind, Option.bind_some, pure, Option.some.injEq] at h
    subst h
    obtain ⟨a, b, c⟩ := generateLines_ok ctx it e1 e2 e3 e4 e5 y hy1 hy2 lines hg
    exact ⟨e1, e2, e3, e4, e5, a, b, c⟩

/-- The invariant of `triangle::scanline_iterator::ScanlineIterator`. -/
structure TriRowsInv (tc : Tri) (w : Nat) (off : StrokeOffset) (hasFill collapsed : Bool)
    (lo hi r0 rEnd : Int) (it : TriScanlines) : Prop where
  ti : TIInv tc w off hasFill collapsed lo hi r0 rEnd it.intersections
  rows : r0 ≤ it.rowsStart
  rend : it.rowsEnd = rEnd

theorem TriScanlines.next_inv {tc : Tri} {w : Nat} {off : StrokeOffset} {hasFill collapsed : Bool}
    {lo hi r0 rEnd : Int} (ctx : TriCtx tc w off lo hi collapsed hasFill) (it : TriScanlines)
    (hi' : TriRowsInv tc w off hasFill collapsed lo hi r0 rEnd it) (sc : Scanline) (ty : PointType)
    (it' : TriScanlines) (h : it.nextLoop = some (some ((sc, ty), it'))) :
    TriRowsInv tc w off hasFill collapsed lo hi r0 rEnd it' ∧ GoodLine lo hi r0 rEnd sc := by
  rw [TriScanlines.nextLoop_eq_def] at h
  unfold TriScanlines.nextLoopDef at h
  cases hn : it.intersections.next with
  | some x =>
    obtain ⟨⟨sc0, ty0⟩, ints⟩ := x
    rw [hn] at h
    simp only [Option.some.injEq, Prod.mk.injEq] at h
    obtain ⟨⟨h1, _⟩, h2⟩ := h
    subst h1 h2
    obtain ⟨a, b⟩ := TriIntersections.next_inv it.intersections hi'.ti sc0 ty0 ints hn
    exact ⟨⟨a, hi'.rows, hi'.rend⟩, b⟩
  | none =>
    rw [hn] at h
    simp only at h
    by_cases hr : it.rowsStart < it.rowsEnd
    · simp only [hr, ↓reduceIte, Option.bind_eq_bind] at h
      cases hre : it.intersections.resetWithNewScanline it.rowsStart with
      | none => rw [hre] at h; cases h
      | some ints =>
        rw [hre] at h
        simp only [Option.bind_some] at h
        have hinv := TriIntersections.reset_inv ctx it.intersections hi'.ti.tri hi'.ti.width hi'.ti.off
          hi'.ti.fill hi'.ti.coll it.rowsStart hi'.rows (hi'.rend ▸ hr) ints hre
        cases hn2 : ints.next with
        | none => rw [hn2] at h; simp only [pure, Option.some.injEq] at h; cases h
        | some x =>
          obtain ⟨⟨sc0, ty0⟩, ints2⟩ := x
          rw [hn2] at h
          simp only [pure, Option.some.injEq, Prod.mk.injEq] at h
          obtain ⟨⟨h1, _⟩, h2⟩ := h
          subst h1 h2
          obtain ⟨a, b⟩ := TriIntersections.next_inv ints hinv sc0 ty0 ints2 hn2
          exact ⟨⟨a, by show r0 ≤ it.rowsStart + 1; have := hi'.rows; omega, hi'.rend⟩, b⟩
    · simp only [hr, ↓reduceIte, Option.some.injEq] at h
      cases h

/-- The invariant also survives a call that returns `None` (the iterator is not fused: it then stands
on the next row, or is unchanged when `rows` is exhausted). -/
theorem TriScanlines.next_none_inv {tc : Tri} {w : Nat} {off : StrokeOffset} {hasFill collapsed : Bool}
    {lo hi r0 rEnd : Int} (ctx : TriCtx tc w off lo hi collapsed hasFill) (it : TriScanlines)
    (hi' : TriRowsInv tc w off hasFill collapsed lo hi r0 rEnd it)
    (it' : TriScanlines) (h : it.next = some (none, it')) :
    TriRowsInv tc w off hasFill collapsed lo hi r0 rEnd it' := by
  obtain ⟨-, hcase⟩ := TriScanlines.next_none_state h
  rcases hcase with ⟨-, rfl⟩ | ⟨hr, ints, hre, -, rfl⟩
  · exact hi'
  · have hinv := TriIntersections.reset_inv ctx it.intersections hi'.ti.tri hi'.ti.width hi'.ti.off
      hi'.ti.fill hi'.ti.coll it.rowsStart hi'.rows (hi'.rend ▸ hr) ints hre
    exact ⟨hinv, by show r0 ≤ it.rowsStart + 1; have := hi'.rows; omega, hi'.rend⟩

theorem TriScanlines.toListFuel_inv {tc : Tri} {w : Nat} {off : StrokeOffset} {hasFill collapsed : Bool}
    {lo hi r0 rEnd : Int} (ctx : TriCtx tc w off lo hi collapsed hasFill) :
    ∀ (fuel : Nat) (it : TriScanlines), TriRowsInv tc w off hasFill collapsed lo hi r0 rEnd it →
    ∀ l, it.toListFuel fuel = some l → ∀ x ∈ l, GoodLine lo hi r0 rEnd x.1
  | 0, it, _, l, h => by
    simp only [TriScanlines.toListFuel, Option.some.injEq] at h
    subst h; intro x hx; cases hx
  | fuel + 1, it, hi', l, h => by
    unfold TriScanlines.toListFuel at h
    cases hn : it.nextLoop with
    | none => rw [hn] at h; cases h
    | some x =>
      rw [hn] at h
      cases x with
      | none =>
        simp only [Option.bind_eq_bind, Option.bind_some, pure, Option.some.injEq] at h
        subst h; intro x hx; cases hx
      | some y =>
        obtain ⟨⟨sc0, ty0⟩, it1⟩ := y
        simp only [Option.bind_eq_bind, Option.bind_some] at h
        obtain ⟨a, b⟩ := TriScanlines.next_inv ctx it hi' sc0 ty0 it1 hn
        cases hr : TriScanlines.toListFuel fuel it1 with
        | none => rw [hr] at h; cases h
        | some rest =>
          rw [hr] at h
          simp only [Option.bind_some, pure, Option.some.injEq] at h
          subst h
          intro x hx
          rcases List.mem_cons.mp hx with rfl | hx
          · exact b
          · exact TriScanlines.toListFuel_inv ctx fuel it1 a rest hr x hx

/-! ### `StyledPixelsIterator` -/

/-- The invariant of `triangle::styled::StyledPixelsIterator`. -/
structure TPInv (tc : Tri) (w : Nat) (off : StrokeOffset) (hasFill collapsed : Bool)
    (lo hi r0 rEnd : Int) (it : TriPixels) : Prop where
  si : it.linesIter = TriScanlines.empty ∨ TriRowsInv tc w off hasFill collapsed lo hi r0 rEnd it.linesIter
  line : LineOK lo hi r0 rEnd it.currentLine

/-- The arm of the `loop` that fetches the next scanline (`ih`: the statement for the remaining
fuel). -/
theorem TriPixels.nextFuel_step {tc : Tri} {w : Nat} {off : StrokeOffset} {hasFill collapsed : Bool}
    {lo hi r0 rEnd : Int} (ctx : TriCtx tc w off lo hi collapsed hasFill) (fuel : Nat)
    (ih : ∀ (it : TriPixels), TPInv tc w off hasFill collapsed lo hi r0 rEnd it →
      ∀ p c it', it.nextFuel fuel = some (some ((p, c), it')) →
        TPInv tc w off hasFill collapsed lo hi r0 rEnd it' ∧
          (lo ≤ p.x ∧ p.x ≤ hi ∧ r0 ≤ p.y ∧ p.y < rEnd))
    (it : TriPixels)
    (hi' : TPInv tc w off hasFill collapsed lo hi r0 rEnd it) (p : Pt) (c : Nat) (it' : TriPixels)
    (h : (match it.linesIter.nextLoop with
      | none => none
      | some none => some none
      | some (some ((nextLine, nextType), li)) =>
        TriPixels.nextFuel fuel { it with
          linesIter := li, currentLine := nextLine
          currentColor := match nextType with
            | .stroke => it.strokeColor
            | .fill => it.fillColor }) = some (some ((p, c), it'))) :
    TPInv tc w off hasFill collapsed lo hi r0 rEnd it' ∧
      (lo ≤ p.x ∧ p.x ≤ hi ∧ r0 ≤ p.y ∧ p.y < rEnd) := by
  cases hn : it.linesIter.nextLoop with
  | none => rw [hn] at h; cases h
  | some x =>
    rw [hn] at h
    cases x with
    | none => simp only [Option.some.injEq] at h; cases h
    | some y =>
      obtain ⟨⟨nl, nt⟩, li⟩ := y
      simp only at h
      rcases hi'.si with he | hinv
      · rw [he, TriScanlines.empty_nextLoop] at hn; cases hn
      · obtain ⟨a, b⟩ := TriScanlines.next_inv ctx _ hinv nl nt li hn
        exact ih _ ⟨Or.inr a, Or.inr b⟩ p c it' h

theorem TriPixels.nextFuel_inv {tc : Tri} {w : Nat} {off : StrokeOffset} {hasFill collapsed : Bool}
    {lo hi r0 rEnd : Int} (ctx : TriCtx tc w off lo hi collapsed hasFill) :
    ∀ (fuel : Nat) (it : TriPixels), TPInv tc w off hasFill collapsed lo hi r0 rEnd it →
    ∀ p c it', it.nextFuel fuel = some (some ((p, c), it')) →
      TPInv tc w off hasFill collapsed lo hi r0 rEnd it' ∧
        (lo ≤ p.x ∧ p.x ≤ hi ∧ r0 ≤ p.y ∧ p.y < rEnd)
  | 0, it, _, p, c, it', h => by simp [TriPixels.nextFuel] at h
  | fuel + 1, it, hi', p, c, it', h => by
    unfold TriPixels.nextFuel at h
    have ih := TriPixels.nextFuel_inv (r0 := r0) (rEnd := rEnd) ctx fuel
    -- the `hit` of the current line
    cases hc : it.currentColor with
    | some color =>
      cases hl : it.currentLine.next with
      | some x =>
        obtain ⟨q, l⟩ := x
        simp only [hc, hl, Option.some.injEq, Prod.mk.injEq] at h
        obtain ⟨⟨h1, _⟩, h2⟩ := h
        subst h1 h2
        obtain ⟨a, b⟩ := scanline_next_good hi'.line hl
        exact ⟨⟨hi'.si, b⟩, a⟩
      | none =>
        simp only [hc, hl] at h
        exact TriPixels.nextFuel_step ctx fuel ih it hi' p c it' h
    | none =>
      simp only [hc] at h
      exact TriPixels.nextFuel_step ctx fuel ih it hi' p c it' h

end Joins
end EG
