/-
  EG.Lemmas.FixedTrig — closed forms of the `fixed_point` trigonometry model (EG.Model.FixedReal,
  FixedTrig, PlaneSectorNew), for ALL raw angles:

  * `degreeOf a` (the whole degree the code rounds the raw angle `a` to) is `deg a =
    roundHalfAway (truncDiv (180 * 65536 * a) 205887)` whenever `180 * a` fits `i32`, and a panic
    otherwise (`degreeOf_eq`, `degreeOf_none`);
  * `deg` is within half a degree (+ 2^-16) of `a * 180 / PI_bits` (`deg_nearest`);
  * the cosine's degree `deg (a + FRAC_PI_2)` is `deg a + 90` or `deg a + 91` (`deg_shift`): adding the
    I16F16 constant for 90 degrees (102944 bits = 90.00022 degrees by the code's own conversion)
    before rounding rounds a few raw angles just below `k + 1/2` degrees up;
  * `sin` / `cos` are table lookups of these degrees (`sin_eq`, `cos_eq`; `sinT k` = the table sine of
    the whole degree `k`, any integer `k`, as I16F16 bits), `with_angle` is the integer part toward
    zero of `1024 * (cosT, sinT)` rotated by 90 degrees (`withAngle_eq`);
  * `PlaneSector::new` in closed form (`planeSectorNew_eq`).
  Finite facts about the 91-entry table are `decide +kernel` over the 360 degrees, lifted to all
  integers by periodicity; everything about raw bits is by proof (`omega`).
-/
import EG.Model.PlaneSectorNew
namespace EG.Fx
open EG EG.Generated

/-! ### the literals the proofs use (the generated file changes => these break) -/

theorem lits :
    fracPi2Bits = 102944 ∧ piBits = 205887 ∧ tauBits = 411775 ∧ degFactor = 180 ∧ degModulus = 360 ∧
    trigNormalVectorScale = 1024 ∧ withAngleSpecialBits = 205887 ∧ normalizeModBits = 411775 ∧
    bevelExteriorBits = 62910 ∧ bevelInteriorLoBits = 348865 ∧ bevelInteriorHiBits = 411775 ∧
    seenSinLen = 91 ∧ sinTable.length = 91 := by decide

/-- The bevel branch of the styled sector halves the sweep through f32: exact below `2^24` bits. -/
theorem bevel_limits_small : bevelExteriorBits < 16777216 ∧ bevelInteriorHiBits < 16777216 := by decide

/-! ### truncating division, rounding -/

/-- Truncation toward zero for a positive divisor, in `omega`'s language. -/
def truncDiv (x b : Int) : Int := if 0 ≤ x then x / b else -((-x) / b)

theorem tdiv_eq_truncDiv (x b : Int) : Int.tdiv x b = truncDiv x b := by
  unfold truncDiv
  split
  · rename_i h; exact Int.tdiv_eq_ediv_of_nonneg h
  · rename_i h
    have : x = -(-x) := by omega
    rw [this, Int.neg_tdiv, Int.tdiv_eq_ediv_of_nonneg (by omega)]
    simp

/-- Round half away from zero, to whole units of 65536. -/
def roundHalfAway (q : Int) : Int := if 0 ≤ q then (q + 32768) / 65536 else -((-q + 32768) / 65536)

theorem round_eq (q : Int) (h : -2147483648 ≤ q ∧ q ≤ 2147483647 - 65536) :
    round q = some (65536 * roundHalfAway q) := by
  unfold round intPart roundHalfAway chk
  by_cases h0 : 0 ≤ q
  · simp only [h0, ↓reduceIte]
    split
    · congr 1; omega
    · split
      · omega
      · rw [if_pos (by omega)]; congr 1; omega
  · simp only [h0, ↓reduceIte]
    split
    · congr 1; omega
    · split
      · congr 1; omega
      · rw [if_pos (by omega)]; congr 1; omega

/-- `i32::from(Real)` is truncation toward zero. -/
theorem toI32_eq (x : Int) : toI32 x = truncDiv x 65536 := by
  unfold toI32 toNumI32 roundToZero intPart truncDiv
  split <;> split <;> omega

theorem chk_of_fits {x : Int} (h : -2147483648 ≤ x ∧ x ≤ 2147483647) : chk x = some x := by
  unfold chk; rw [if_pos h]

theorem chk_of_not_fits {x : Int} (h : ¬ (-2147483648 ≤ x ∧ x ≤ 2147483647)) : chk x = none := by
  unfold chk; rw [if_neg h]

/-! ### the degree -/

/-- `(Real::from(180) * angle) / PI` as I16F16 bits: degrees in units of 1/65536. -/
def q16 (a : Int) : Int := truncDiv (11796480 * a) 205887

/-- The whole degree the code rounds the raw angle `a` to (before `rem_euclid(360)`). -/
def deg (a : Int) : Int := roundHalfAway (q16 a)

/-- `Real::from(180) * angle` fits: `|a| <= 11930464` bits (about 182 radians, 29 turns). -/
def DegFits (a : Int) : Prop := -2147483648 ≤ 180 * a ∧ 180 * a ≤ 2147483647
instance (a : Int) : Decidable (DegFits a) := by unfold DegFits; exact inferInstance

theorem degreeOf_eq (a : Int) (h : DegFits a) : degreeOf a = some (deg a) := by
  unfold DegFits at h
  unfold degreeOf fromI32 mul div
  have e1 : chk (degFactor * 65536) = some 11796480 := by decide
  have e2 : (11796480 * a / 65536 : Int) = 180 * a := by omega
  have e4 : piBits = 205887 := rfl
  simp only [e1, Option.bind_eq_bind, Option.bind_some, e2, chk_of_fits h, e4]
  rw [if_neg (by decide), tdiv_eq_truncDiv]
  have hq : truncDiv (180 * a * 65536) 205887 = q16 a := by unfold q16; congr 1; omega
  rw [hq]
  have hb : -2147483648 ≤ q16 a ∧ q16 a ≤ 2147483647 - 65536 := by
    unfold q16 truncDiv; split <;> omega
  have e5 : chk (q16 a) = some (q16 a) := chk_of_fits (by omega)
  simp only [e5, Option.bind_some, round_eq _ hb, toI32_eq]
  have : truncDiv (65536 * roundHalfAway (q16 a)) 65536 = deg a := by
    unfold deg truncDiv; split <;> omega
  rw [← this]; rfl

theorem degreeOf_none (a : Int) (h : ¬ DegFits a) : degreeOf a = none := by
  unfold DegFits at h
  unfold degreeOf fromI32 mul
  have e1 : chk (degFactor * 65536) = some 11796480 := by decide
  have e2 : (11796480 * a / 65536 : Int) = 180 * a := by omega
  simp only [e1, Option.bind_eq_bind, Option.bind_some, e2, chk_of_not_fits h, Option.bind_none]

/-- **Whole-degree rounding**: `deg a` is the nearest whole degree of `a * 180 / 205887` (the raw
angle in degrees by the code's own `PI`), up to the 1/65536 degree lost by the truncating division:
`|180 * 65536 * a - 205887 * 65536 * deg a| <= 205887 * 32768 + 205886`. -/
theorem deg_nearest (a : Int) :
    11796480 * a - 13493010432 * deg a ≤ 6746505216 + 205886 ∧
    -(6746505216 + 205886) ≤ 11796480 * a - 13493010432 * deg a := by
  unfold deg roundHalfAway q16 truncDiv
  split <;> split <;> omega

/-- The degree of the cosine's argument `a + FRAC_PI_2`. -/
theorem deg_shift (a : Int) : deg (a + 102944) = deg a + 90 ∨ deg (a + 102944) = deg a + 91 := by
  unfold deg roundHalfAway q16 truncDiv
  split <;> split <;> split <;> split <;> omega

theorem deg_mono (a b : Int) (h : a ≤ b) : deg a ≤ deg b := by
  unfold deg roundHalfAway q16 truncDiv
  split <;> split <;> split <;> split <;> omega

/-- Below 180 degrees of sweep (`PI` = 205887 bits) the two boundary degrees differ by 0..180. -/
theorem deg_diff_intersection (s w : Int) (hw : 0 ≤ w) (hw2 : w < 205887) :
    0 ≤ deg (s + w) - deg s ∧ deg (s + w) - deg s ≤ 180 := by
  unfold deg roundHalfAway q16 truncDiv
  split <;> split <;> split <;> split <;> omega

/-! ### the table -/

/-- The table sine of the whole degree `k` (any integer; I16F16 bits): what `sin` returns for an
angle that rounds to `k` degrees. -/
def sinT (k : Int) : Int := (sinOfDegree k).getD 0
/-- The table cosine of the whole degree `k`. -/
def cosT (k : Int) : Int := sinT (k + 90)

theorem int_range_of_nat {P : Int → Prop} (N : Nat) (h : ∀ n : Nat, n < N → P (n : Int)) (m : Int)
    (h0 : 0 ≤ m) (h1 : m < N) : P m := by
  have := h m.toNat (by omega)
  rwa [Int.toNat_of_nonneg h0] at this

theorem sinQuadrant_isSome_nat : ∀ n : Nat, n < 360 → (sinQuadrant (n : Int)).isSome = true := by
  decide +kernel

theorem sinQuadrant_bound_nat : ∀ n : Nat, n < 360 →
    -65536 ≤ (sinQuadrant (n : Int)).getD 0 ∧ (sinQuadrant (n : Int)).getD 0 ≤ 65536 := by
  decide +kernel

theorem sinT_step_nat : ∀ n : Nat, n < 360 →
    (sinQuadrant (((n : Int) + 91) % 360)).getD 0 - (sinQuadrant (((n : Int) + 90) % 360)).getD 0 ≤ 1144 ∧
    -1144 ≤ (sinQuadrant (((n : Int) + 91) % 360)).getD 0 - (sinQuadrant (((n : Int) + 90) % 360)).getD 0 := by
  decide +kernel

/-- The quadrant chain never leaves the table: `sin` of a whole degree is always defined. -/
theorem sinOfDegree_eq (k : Int) : sinOfDegree k = some (sinT k) := by
  unfold sinT
  have h := int_range_of_nat (P := fun m => (sinQuadrant m).isSome = true) 360 sinQuadrant_isSome_nat
    (k % 360) (by omega) (by omega)
  unfold sinOfDegree
  have e : degModulus = 360 := rfl
  rw [e]
  cases hq : sinQuadrant (k % 360) with
  | none => rw [hq] at h; cases h
  | some v => rfl

theorem sinT_congr {a b : Int} (h : a % 360 = b % 360) : sinT a = sinT b := by
  unfold sinT sinOfDegree
  have e : degModulus = 360 := rfl
  rw [e, h]

theorem sinT_bound (k : Int) : -65536 ≤ sinT k ∧ sinT k ≤ 65536 :=
  int_range_of_nat (P := fun m => -65536 ≤ (sinQuadrant m).getD 0 ∧ (sinQuadrant m).getD 0 ≤ 65536) 360
    sinQuadrant_bound_nat (k % 360) (by omega) (by omega)

/-- Neighbouring table entries differ by at most 1144 bits (`1024 * 1144 / 65536 = 17.9` of 1024). -/
theorem sinT_step (k : Int) : sinT (k + 91) - sinT (k + 90) ≤ 1144 ∧ -1144 ≤ sinT (k + 91) - sinT (k + 90) := by
  have h := int_range_of_nat (P := fun m =>
    (sinQuadrant ((m + 91) % 360)).getD 0 - (sinQuadrant ((m + 90) % 360)).getD 0 ≤ 1144 ∧
    -1144 ≤ (sinQuadrant ((m + 91) % 360)).getD 0 - (sinQuadrant ((m + 90) % 360)).getD 0) 360
    sinT_step_nat (k % 360) (by omega) (by omega)
  have e1 : (k % 360 + 91) % 360 = (k + 91) % 360 := by omega
  have e2 : (k % 360 + 90) % 360 = (k + 90) % 360 := by omega
  rw [e1, e2] at h
  exact h

/-- `sin (180° - x) = sin x` holds exactly for the table. -/
theorem sinT_reflect (k : Int) : sinT (180 - k) = sinT k := by
  have h := int_range_of_nat (P := fun m => sinT (180 - m) = sinT m) 360 (by decide +kernel)
    (k % 360) (by omega) (by omega)
  rw [sinT_congr (a := 180 - k % 360) (b := 180 - k) (by omega),
    sinT_congr (a := k % 360) (b := k) (by omega)] at h
  exact h

/-- `sin (x + 180°) = -sin x` holds exactly for the table. -/
theorem sinT_half_turn (k : Int) : sinT (k + 180) = -sinT k := by
  have h := int_range_of_nat (P := fun m => sinT (m + 180) = -sinT m) 360 (by decide +kernel)
    (k % 360) (by omega) (by omega)
  rw [sinT_congr (a := k % 360 + 180) (b := k + 180) (by omega),
    sinT_congr (a := k % 360) (b := k) (by omega)] at h
  exact h

/-- The first quadrant of `sinT` is the source's table. -/
theorem sinT_eq_table : ∀ k : Nat, k ≤ 90 → sinT (k : Int) = sinTable.getD k 0 := by decide +kernel

/-! ### sin, cos, with_angle -/

theorem sin_eq (a : Int) (h : DegFits a) : sin a = some (sinT (deg a)) := by
  unfold sin
  simp only [degreeOf_eq a h, Option.bind_eq_bind, Option.bind_some, sinOfDegree_eq]

theorem sin_none (a : Int) (h : ¬ DegFits a) : sin a = none := by
  unfold sin
  simp only [degreeOf_none a h, Option.bind_eq_bind, Option.bind_none]

/-- `angle + FRAC_PI_2` and `Real::from(180) * (angle + FRAC_PI_2)` fit. -/
def CosFits (a : Int) : Prop := DegFits (a + 102944)
instance (a : Int) : Decidable (CosFits a) := by unfold CosFits; exact inferInstance

theorem cos_eq (a : Int) (h : CosFits a) : cos a = some (sinT (deg (a + 102944))) := by
  unfold CosFits at h
  unfold cos add
  have e : fracPi2Bits = 102944 := rfl
  have hf : -2147483648 ≤ a + 102944 ∧ a + 102944 ≤ 2147483647 := by unfold DegFits at h; omega
  simp only [e, chk_of_fits hf, Option.bind_eq_bind, Option.bind_some, sin_eq _ h]

theorem cos_none (a : Int) (h : ¬ CosFits a) : cos a = none := by
  unfold CosFits at h
  unfold cos add
  have e : fracPi2Bits = 102944 := rfl
  rw [e]
  by_cases hf : -2147483648 ≤ a + 102944 ∧ a + 102944 ≤ 2147483647
  · simp only [chk_of_fits hf, Option.bind_eq_bind, Option.bind_some, sin_none _ h]
  · simp only [chk_of_not_fits hf, Option.bind_eq_bind, Option.bind_none]

/-- The integer part toward zero of `s * 1024 / 65536`: a component of a normal vector. -/
def t64 (s : Int) : Int := truncDiv s 64

/-- The normal vector built from the table entries of the degrees `d` (sine) and `c` (cosine). -/
def tableNormal (d c : Int) : Pt := ⟨-(t64 (sinT d)), t64 (sinT c)⟩

/-- `angle.sin() * Real::from(NORMAL_VECTOR_SCALE)` converted with `i32::from`. -/
theorem scaled_component (s : Int) (h : -65536 ≤ s ∧ s ≤ 65536) :
    (do let sc ← fromI32 trigNormalVectorScale; let y ← mul s sc; pure (toI32 y)) = some (t64 s) := by
  have e1 : fromI32 trigNormalVectorScale = some 67108864 := by decide
  have e2 : s * 67108864 / 65536 = 1024 * s := by omega
  simp only [e1, Option.bind_eq_bind, Option.bind_some, mul, e2, chk_of_fits (x := 1024 * s) (by omega),
    toI32_eq, Option.pure_def]
  unfold t64 truncDiv
  congr 1
  split <;> omega

/-- The raw angles for which `with_angle` does not panic. -/
def AngleFits (a : Int) : Prop := DegFits a ∧ CosFits a
instance (a : Int) : Decidable (AngleFits a) := by unfold AngleFits; exact inferInstance

theorem angleFits_iff (a : Int) : AngleFits a ↔ -2147483648 ≤ 180 * a ∧ 180 * (a + 102944) ≤ 2147483647 := by
  unfold AngleFits CosFits DegFits; omega

theorem withAngle_eq (a : Int) (h : AngleFits a) :
    withAngle a = some (tableNormal (deg a) (deg (a + 102944))) := by
  unfold withAngle
  by_cases hs : a = withAngleSpecialBits
  · rw [if_pos hs, hs]; decide
  · rw [if_neg hs]
    have hc := scaled_component (sinT (deg (a + 102944))) (sinT_bound _)
    have hsn := scaled_component (sinT (deg a)) (sinT_bound _)
    simp only [Option.bind_eq_bind, Option.pure_def] at hc hsn
    simp only [cos_eq a h.2, sin_eq a h.1, Option.bind_eq_bind, Option.bind_some, Option.pure_def]
    cases h1 : fromI32 trigNormalVectorScale with
    | none => rw [h1] at hc; simp at hc
    | some sc =>
      rw [h1] at hc hsn
      simp only [Option.bind_some] at hc hsn ⊢
      cases h2 : mul (sinT (deg (a + 102944))) sc with
      | none => rw [h2] at hc; simp at hc
      | some x =>
        rw [h2] at hc
        simp only [Option.bind_some] at hc ⊢
        cases h3 : mul (sinT (deg a)) sc with
        | none => rw [h3] at hsn; simp at hsn
        | some y =>
          rw [h3] at hsn
          simp only [Option.bind_some, Option.some.injEq] at hc hsn ⊢
          unfold rotate90 tableNormal
          simp only [hc, hsn]

theorem withAngle_none (a : Int) (h : ¬ AngleFits a) : withAngle a = none := by
  unfold withAngle
  have hs : a ≠ withAngleSpecialBits := by
    intro e; apply h; rw [e]; decide
  rw [if_neg hs]
  by_cases hc : CosFits a
  · have hd : ¬ DegFits a := fun hd => h ⟨hd, hc⟩
    simp only [cos_eq a hc, sin_none a hd, Option.bind_eq_bind, Option.bind_some]
    cases fromI32 trigNormalVectorScale with
    | none => rfl
    | some sc =>
      simp only [Option.bind_some]
      cases mul (sinT (deg (a + 102944))) sc with
      | none => rfl
      | some x => simp
  · simp only [cos_none a hc, Option.bind_eq_bind, Option.bind_none]

/-! ### `PlaneSector::new` -/

/-- The raw angles of the right (lower) and of the left (upper) boundary: `angle_start` and
`angle_end` after the swap for negative sweeps. -/
def boundaryAngles (start sweep : Int) : Int × Int :=
  if sweep < 0 then (start + sweep, start) else (start, start + sweep)

/-- `|sweep|` in bits (`i32::MIN` has none). -/
def sweepAbs (sweep : Int) : Int := if sweep < 0 then -sweep else sweep

theorem planeSectorNew_entire (start sweep : Int) (h1 : -2147483648 < sweep) (h2 : sweep ≤ 2147483647)
    (hw : 411775 ≤ sweepAbs sweep) : planeSectorNew start sweep = some PlaneSector.entire := by
  unfold planeSectorNew angleAbs abs
  unfold sweepAbs at hw
  have e : tauBits = 411775 := rfl
  rw [chk_of_fits (by split <;> omega)]
  simp only [Option.bind_eq_bind, Option.bind_some, e, ge_iff_le, hw, ↓reduceIte]
  rfl

/-- **`PlaneSector::new` in closed form**, below a full turn. -/
theorem planeSectorNew_eq (start sweep : Int) (h1 : -2147483648 < sweep) (h2 : sweep ≤ 2147483647)
    (hw : sweepAbs sweep < 411775)
    (hsum : -2147483648 ≤ start + sweep ∧ start + sweep ≤ 2147483647)
    (hr : AngleFits (boundaryAngles start sweep).1) (hl : AngleFits (boundaryAngles start sweep).2) :
    planeSectorNew start sweep = some
      ⟨if 205887 ≤ sweepAbs sweep then .union else .intersection,
       tableNormal (deg (boundaryAngles start sweep).2) (deg ((boundaryAngles start sweep).2 + 102944)),
       tableNormal (deg (boundaryAngles start sweep).1) (deg ((boundaryAngles start sweep).1 + 102944))⟩ := by
  unfold planeSectorNew angleAbs abs add
  unfold sweepAbs at hw ⊢
  unfold boundaryAngles at hr hl ⊢
  have e : tauBits = 411775 := rfl
  have e' : piBits = 205887 := rfl
  rw [chk_of_fits (by split <;> omega), chk_of_fits hsum]
  have hw' : ¬ (411775 ≤ if sweep < 0 then -sweep else sweep) := by omega
  simp only [Option.bind_eq_bind, Option.bind_some, e, e', ge_iff_le, hw', ↓reduceIte]
  by_cases hneg : sweep < 0
  · simp only [hneg, ↓reduceIte] at hr hl ⊢
    simp only [withAngle_eq _ hr, withAngle_eq _ hl, Option.bind_some, Option.pure_def]
  · simp only [hneg, ↓reduceIte] at hr hl ⊢
    simp only [withAngle_eq _ hr, withAngle_eq _ hl, Option.bind_some, Option.pure_def]

/-- Whenever `PlaneSector::new` returns (no panic), the sweep has an absolute value, and below a full
turn the sum and both boundary angles are in the range where `with_angle` is defined. -/
theorem planeSectorNew_some_fits (start sweep : Int) (ps : PlaneSector)
    (h : planeSectorNew start sweep = some ps) :
    -2147483648 < sweep ∧ sweep ≤ 2147483647 ∧
    (sweepAbs sweep < 411775 →
      (-2147483648 ≤ start + sweep ∧ start + sweep ≤ 2147483647) ∧
      AngleFits (boundaryAngles start sweep).1 ∧ AngleFits (boundaryAngles start sweep).2) := by
  unfold planeSectorNew angleAbs abs at h
  have e : tauBits = 411775 := rfl
  by_cases hf : -2147483648 ≤ (if sweep < 0 then -sweep else sweep) ∧ (if sweep < 0 then -sweep else sweep) ≤ 2147483647
  · refine ⟨by split at hf <;> omega, by split at hf <;> omega, ?_⟩
    intro hw
    unfold sweepAbs at hw
    have hw' : ¬ (411775 ≤ if sweep < 0 then -sweep else sweep) := by omega
    simp only [chk_of_fits hf, Option.bind_eq_bind, Option.bind_some, e, ge_iff_le, hw', ↓reduceIte] at h
    unfold add at h
    by_cases hsum : -2147483648 ≤ start + sweep ∧ start + sweep ≤ 2147483647
    · refine ⟨hsum, ?_⟩
      simp only [chk_of_fits hsum, Option.bind_some] at h
      unfold boundaryAngles
      by_cases hneg : sweep < 0
      · simp only [hneg, ↓reduceIte] at h ⊢
        by_cases hr : AngleFits (start + sweep)
        · refine ⟨hr, ?_⟩
          by_cases hl : AngleFits start
          · exact hl
          · simp [withAngle_eq _ hr, withAngle_none _ hl] at h
        · simp [withAngle_none _ hr] at h
      · simp only [hneg, ↓reduceIte] at h ⊢
        by_cases hr : AngleFits start
        · refine ⟨hr, ?_⟩
          by_cases hl : AngleFits (start + sweep)
          · exact hl
          · simp [withAngle_eq _ hr, withAngle_none _ hl] at h
        · simp [withAngle_none _ hr] at h
    · simp [chk_of_not_fits hsum] at h
  · simp [chk_of_not_fits hf] at h

end EG.Fx
