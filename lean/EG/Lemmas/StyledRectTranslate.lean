/-
  EG.Lemmas.StyledRectTranslate — the styled rectangle commutes with translation: areas, border
  rectangles, the call list of `draw()` and the pixel list of `pixels()`.
-/
import EG.Lemmas.StyledRectDraw
import EG.Lemmas.PMapTranslate
namespace EG
namespace StyledRect
open Rect

theorem strokeArea_translate (s : Style) (r : Rect) (d : Pt) :
    strokeArea s (r.translate d) = (strokeArea s r).translate d := offset_translate r d _

theorem fillArea_translate (s : Style) (r : Rect) (d : Pt) :
    fillArea s (r.translate d) = (fillArea s r).translate d := offset_translate r d _

theorem styledBoundingBox_translate (s : Style) (r : Rect) (d : Pt) :
    styledBoundingBox s (r.translate d) = (styledBoundingBox s r).translate d := offset_translate r d _

theorem topBorder_translate (s : Style) (r : Rect) (d : Pt) :
    topBorder s (r.translate d) = (topBorder s r).translate d := by
  simp only [topBorder, strokeArea_translate]
  simp only [translate]

theorem bottomStrokeWidth_translate (s : Style) (r : Rect) (d : Pt) :
    bottomStrokeWidth s (r.translate d) = bottomStrokeWidth s r := by
  simp only [bottomStrokeWidth, topBorder, strokeArea_translate]
  simp only [translate]

theorem bottomBorder_translate (s : Style) (r : Rect) (d : Pt) :
    bottomBorder s (r.translate d) = (bottomBorder s r).translate d := by
  simp only [bottomBorder, bottomStrokeWidth_translate, topBorder, strokeArea_translate]
  simp only [translate, Rect.mk.injEq, and_true]
  rw [Pt.ext_iff']; simp only [Pt.add_x, Pt.add_y]; omega

theorem leftBorder_translate (s : Style) (r : Rect) (d : Pt) :
    leftBorder s (r.translate d) = (leftBorder s r).translate d := by
  simp only [leftBorder, topBorder, strokeArea_translate, fillArea_translate]
  simp only [translate, Rect.mk.injEq, and_true]
  rw [Pt.ext_iff']; simp only [Pt.add_x, Pt.add_y]; omega

theorem rightBorder_translate (s : Style) (r : Rect) (d : Pt) :
    rightBorder s (r.translate d) = (rightBorder s r).translate d := by
  unfold rightBorder
  rw [leftBorder_translate, strokeArea_translate]
  simp only [translate_size, translate_translate]
  congr 1
  rw [Pt.ext_iff']; simp only [Pt.add_x, Pt.add_y]; omega

/-- **`draw()` of the moved rectangle makes the moved calls**, for every rectangle, style and
vector (no guard: every formula of `draw_styled` is relative to `top_left`). -/
theorem drawCalls_translate (s : Style) (r : Rect) (d : Pt) :
    drawCalls s (r.translate d) = (drawCalls s r).map (Call.translate d) := by
  unfold drawCalls fillCalls strokeCalls
  rw [fillArea_translate, topBorder_translate, bottomBorder_translate, leftBorder_translate,
    rightBorder_translate]
  simp only [translate_size]
  cases s.fill <;> cases s.effectiveStrokeColor <;>
    by_cases hf : (fillArea s r).size.h > 0 <;> simp [hf, Call.translate]

theorem drawSolids_translate (s : Style) (r : Rect) (d : Pt) :
    drawSolids s (r.translate d) = (drawSolids s r).map (fun ac => (ac.1.translate d, ac.2)) := by
  unfold drawSolids strokeRects
  rw [fillArea_translate, topBorder_translate, bottomBorder_translate, leftBorder_translate,
    rightBorder_translate]
  simp only [translate_size]
  cases s.fill <;> cases s.effectiveStrokeColor <;>
    by_cases hf : (fillArea s r).size.h > 0 <;> simp [hf]

theorem pixelOf_translate (s : Style) (r : Rect) (d p : Pt) :
    pixelOf s (r.translate d) (p + d) = (pixelOf s r p).map (fun w => (w.1 + d, w.2)) := by
  unfold pixelOf
  simp only [fillArea_translate, contains_translate]
  cases (if (fillArea s r).contains p = true then s.fill else s.stroke) <;> rfl

/-- **`pixels()` of the moved rectangle are the moved pixels**, in the same order (stroke area in
the `i32` range before and after the move, where `points()` does not saturate). -/
theorem pixelsList_translate (s : Style) (r : Rect) (d : Pt)
    (h : (strokeArea s r).InRange) (h' : (strokeArea s (r.translate d)).InRange) :
    pixelsList s (r.translate d) = Writes.translate d (pixelsList s r) := by
  rw [pixelsList_eq_spec, pixelsList_eq_spec]
  unfold pixelsSpec Writes.translate
  rw [strokeArea_translate] at h' ⊢
  by_cases ht : s.isTransparent = true
  · simp [ht]
  · have ht' : s.isTransparent = false := by simpa using ht
    simp only [ht', Bool.not_false, ↓reduceIte]
    rw [points_translate _ d h h', List.filterMap_map, List.map_filterMap]
    congr 1
    funext p
    simp only [Function.comp, pixelOf_translate]

end StyledRect
end EG
