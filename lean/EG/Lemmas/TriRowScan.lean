/-
  EG.Lemmas.TriRowScan — when a row of a styled triangle HAS a scanline
  (`ScanlineIntersections::next` of the row's line configuration is not `None`).
  * `bint_nonempty_of_row`: a Bresenham line hits every row between its end points, so
    `bresenham_intersection` leaves a non-empty scanline there; `bint_nonempty_mono`: it never empties
    a scanline;
  * `intersection_nonempty`: a thick segment has a scanline in every row that one of its outline
    lines reaches;
  * `edgeLoop_left_nonempty` / `edgeNext_first_some`: the edge closure then returns a first scanline;
  * `reset_next_isSome_of_edge`, `reset_next_isSome_of_plain`: the line configuration of such a row
    yields a scanline (stroke drawn from the edge segments / plain triangle scanline of the collapsed
    and the fill-only cases);
  * `tri_scanlineIntersection_nonempty`: the plain triangle scanline is non-empty in every row between
    the lowest and the highest vertex;
  * `reset_next_none_of_nothing`: stroke width 0 without fill (not collapsed): no row has a scanline.
-/
import EG.Lemmas.JoinsBBoxTriMain
import EG.Lemmas.TriangleLineAny
set_option linter.unusedSimpArgs false
namespace EG
namespace Joins
open Thick (LineSide StrokeOffset)

/-! ### Bresenham intersections -/

theorem bint_eq_scanline_bint (s : Scanline) (l : Line) : bint s l = s.bint l := by
  unfold bint Scanline.bint Scanline.bresenhamIntersection
  dsimp only
  generalize (if l.start.y ≤ l.stop.y then decide (l.start.y ≤ s.y ∧ s.y ≤ l.stop.y)
    else decide (l.stop.y ≤ s.y ∧ s.y ≤ l.start.y)) = b
  cases b <;> rfl

theorem nonempty_of_covers {s : Scanline} {x : Int} (h : s.Covers x) : s.isEmpty = false := by
  unfold Scanline.Covers at h
  unfold Scanline.isEmpty
  simp
  omega

theorem covers_of_nonempty {s : Scanline} (h : s.isEmpty = false) : s.Covers s.xs := by
  unfold Scanline.isEmpty at h
  unfold Scanline.Covers
  simp at h
  omega

/-- `bresenham_intersection` never empties a scanline. -/
theorem bint_nonempty_mono (s : Scanline) (l : Line) (h : s.isEmpty = false) :
    (bint s l).isEmpty = false := by
  rw [bint_eq_scanline_bint, Scanline.bint_eq_extendAll_any]
  exact nonempty_of_covers (Scanline.extendAll_mono _ (covers_of_nonempty h))

theorem bint_y (s : Scanline) (l : Line) : (bint s l).y = s.y := by
  rw [bint_eq_scanline_bint, Scanline.bint_eq_extendAll_any, Scanline.extendAll_y]

/-- A Bresenham line hits every row between its end points: the scanline is non-empty afterwards. -/
theorem bint_nonempty_of_row (s : Scanline) (l : Line) (h1 : min l.start.y l.stop.y ≤ s.y)
    (h2 : s.y ≤ max l.start.y l.stop.y) : (bint s l).isEmpty = false := by
  rw [bint_eq_scanline_bint, Scanline.bint_eq_extendAll_any]
  obtain ⟨q, hq, hy⟩ := Line.exists_point_in_row_any l s.y h1 h2
  exact nonempty_of_covers
    (Scanline.extendAll_covers _ s q (Scanline.mem_rowPixels.mpr ⟨hq, hy⟩))

theorem foldl_bint_y (ls : List Line) (s : Scanline) : (ls.foldl bint s).y = s.y := by
  induction ls generalizing s with
  | nil => rfl
  | cons l ls ih => simp only [List.foldl_cons]; rw [ih, bint_y]

theorem foldl_bint_nonempty_mono (ls : List Line) (s : Scanline) (h : s.isEmpty = false) :
    (ls.foldl bint s).isEmpty = false := by
  induction ls generalizing s with
  | nil => exact h
  | cons l ls ih => simp only [List.foldl_cons]; exact ih _ (bint_nonempty_mono s l h)

theorem foldl_bint_nonempty (ls : List Line) (s : Scanline) (l : Line) (hl : l ∈ ls)
    (h1 : min l.start.y l.stop.y ≤ s.y) (h2 : s.y ≤ max l.start.y l.stop.y) :
    (ls.foldl bint s).isEmpty = false := by
  induction ls generalizing s with
  | nil => cases hl
  | cons m ls ih =>
    simp only [List.foldl_cons]
    rcases List.mem_cons.mp hl with rfl | hl
    · exact foldl_bint_nonempty_mono ls _ (bint_nonempty_of_row s l h1 h2)
    · exact ih (bint s m) hl (by rw [bint_y]; exact h1) (by rw [bint_y]; exact h2)

/-- **A thick segment has a scanline in every row that one of its outline lines reaches.** -/
theorem intersection_nonempty (s : ThickSegment) (y : Int) (l : Line) (hl : l ∈ s.outline)
    (h1 : min l.start.y l.stop.y ≤ y) (h2 : y ≤ max l.start.y l.stop.y) :
    (s.intersection y).isEmpty = false := by
  unfold ThickSegment.intersection
  exact foldl_bint_nonempty s.outline (Scanline.newEmpty y) l hl h1 h2

/-! ### The plain triangle scanline -/

theorem sortTwoYx_spec (p q : Pt) :
    (Tri.sortTwoYx p q = (p, q) ∧ p.y ≤ q.y) ∨ (Tri.sortTwoYx p q = (q, p) ∧ q.y ≤ p.y) := by
  unfold Tri.sortTwoYx
  split
  · left; exact ⟨rfl, by omega⟩
  · right; exact ⟨rfl, by omega⟩

theorem sortedYx_ys (t : Tri) :
    t.sortedYx.v1.y = min (min t.v1.y t.v2.y) t.v3.y ∧ t.sortedYx.v3.y = max (max t.v1.y t.v2.y) t.v3.y := by
  unfold Tri.sortedYx
  rcases sortTwoYx_spec t.v1 t.v2 with ⟨e1, o1⟩ | ⟨e1, o1⟩ <;> rw [e1] <;> dsimp only
  · rcases sortTwoYx_spec t.v3 t.v1 with ⟨e2, o2⟩ | ⟨e2, o2⟩ <;> rw [e2] <;> dsimp only
    · rcases sortTwoYx_spec t.v1 t.v2 with ⟨e3, o3⟩ | ⟨e3, o3⟩ <;> rw [e3] <;> dsimp only <;> omega
    · rcases sortTwoYx_spec t.v3 t.v2 with ⟨e3, o3⟩ | ⟨e3, o3⟩ <;> rw [e3] <;> dsimp only <;> omega
  · rcases sortTwoYx_spec t.v3 t.v2 with ⟨e2, o2⟩ | ⟨e2, o2⟩ <;> rw [e2] <;> dsimp only
    · rcases sortTwoYx_spec t.v2 t.v1 with ⟨e3, o3⟩ | ⟨e3, o3⟩ <;> rw [e3] <;> dsimp only <;> omega
    · rcases sortTwoYx_spec t.v3 t.v1 with ⟨e3, o3⟩ | ⟨e3, o3⟩ <;> rw [e3] <;> dsimp only <;> omega

/-- **`Triangle::scanline_intersection` is non-empty in every row between the lowest and the highest
vertex** (the line from the first to the last vertex in y-order reaches all of them). -/
theorem tri_scanlineIntersection_nonempty (t : Tri) (y : Int)
    (h1 : min (min t.v1.y t.v2.y) t.v3.y ≤ y) (h2 : y ≤ max (max t.v1.y t.v2.y) t.v3.y) :
    (t.scanlineIntersection y).isEmpty = false := by
  obtain ⟨e1, e3⟩ := sortedYx_ys t
  have hy : (Scanline.newEmpty y).y = y := rfl
  have hr1 : min (⟨t.sortedYx.v1, t.sortedYx.v3⟩ : Line).start.y (⟨t.sortedYx.v1, t.sortedYx.v3⟩ : Line).stop.y ≤ y := by
    dsimp only; omega
  have hr2 : y ≤ max (⟨t.sortedYx.v1, t.sortedYx.v3⟩ : Line).start.y (⟨t.sortedYx.v1, t.sortedYx.v3⟩ : Line).stop.y := by
    dsimp only; omega
  unfold Tri.scanlineIntersection
  dsimp only
  split
  · exact bint_nonempty_of_row _ _ (by rw [hy]; exact hr1) (by rw [hy]; exact hr2)
  · apply bint_nonempty_mono
    exact bint_nonempty_of_row _ _ (by rw [bint_y, hy]; exact hr1) (by rw [bint_y, hy]; exact hr2)

theorem sortedClockwise_ys (t : Tri) :
    min (min t.sortedClockwise.v1.y t.sortedClockwise.v2.y) t.sortedClockwise.v3.y =
      min (min t.v1.y t.v2.y) t.v3.y ∧
    max (max t.sortedClockwise.v1.y t.sortedClockwise.v2.y) t.sortedClockwise.v3.y =
      max (max t.v1.y t.v2.y) t.v3.y := by
  unfold Tri.sortedClockwise
  split
  · dsimp only; omega
  · split
    · exact ⟨rfl, rfl⟩
    · obtain ⟨a, b⟩ := sortedYx_ys t
      have hmid : min (min t.sortedYx.v1.y t.sortedYx.v2.y) t.sortedYx.v3.y ≤ t.sortedYx.v1.y ∧
          t.sortedYx.v3.y ≤ max (max t.sortedYx.v1.y t.sortedYx.v2.y) t.sortedYx.v3.y := by omega
      obtain ⟨c1, c2, c3⟩ := sortedYx_all (fun p => min (min t.v1.y t.v2.y) t.v3.y ≤ p.y ∧
        p.y ≤ max (max t.v1.y t.v2.y) t.v3.y) t (by omega) (by omega) (by omega)
      omega

/-! ### `edge_intersections`: the first scanline of a row -/

theorem tryExtend_nonempty (s o : Scanline) (h : s.isEmpty = false) : (s.tryExtend o).2.isEmpty = false := by
  unfold Scanline.tryExtend
  split
  · have hx : s.xs < s.xe := by
      by_cases hlt : s.xs < s.xe
      · exact hlt
      · rw [(isEmpty_iff s).mpr hlt] at h; cases h
    unfold Scanline.isEmpty
    simp
    omega
  · exact h

/-- The thick segment of edge `k` (as the edge closure builds it) has a scanline in row `y`. -/
def ScanNonempty (it : TriIntersections) (y : Int) (k : Nat) : Prop :=
  ∀ a b,
    LineJoin.fromPoints (it.triangle.vertex k) (it.triangle.vertex (k + 1)) (it.triangle.vertex (k + 2))
      it.strokeWidth it.strokeOffset = some a →
    LineJoin.fromPoints (it.triangle.vertex (k + 1)) (it.triangle.vertex (k + 2)) (it.triangle.vertex (k + 3))
      it.strokeWidth it.strokeOffset = some b →
    ((ThickSegment.mk a b).intersection y).isEmpty = false

/-- The `while idx < 3` loop: `left` is non-empty afterwards if it was before or if one of the edges
still to come has a scanline in the row (`left` takes the first non-empty one and is never emptied). -/
theorem edgeLoop_left_nonempty (it : TriIntersections) (y : Int) :
    ∀ (fuel : Nat) (st st' : EdgeState), it.edgeLoop y fuel st = some st' →
      (st.left.isEmpty = false ∨ ∃ k, st.idx ≤ k ∧ k < st.idx + fuel ∧ k < 3 ∧ ScanNonempty it y k) →
      st'.left.isEmpty = false
  | 0, st, st', h, hs => by
    simp only [TriIntersections.edgeLoop, Option.some.injEq] at h
    subst h
    rcases hs with hs | ⟨k, h1, h2, -, -⟩
    · exact hs
    · omega
  | fuel + 1, st, st', h, hs => by
    unfold TriIntersections.edgeLoop at h
    by_cases hi' : st.idx < 3
    · simp only [hi', ↓reduceIte, Option.bind_eq_bind] at h
      cases h1 : LineJoin.fromPoints (it.triangle.vertex st.idx) (it.triangle.vertex (st.idx + 1))
          (it.triangle.vertex (st.idx + 2)) it.strokeWidth it.strokeOffset with
      | none => rw [h1] at h; cases h
      | some j1 =>
        cases h2 : LineJoin.fromPoints (it.triangle.vertex (st.idx + 1))
            (it.triangle.vertex (st.idx + 2)) (it.triangle.vertex (st.idx + 3))
            it.strokeWidth it.strokeOffset with
        | none => rw [h1, h2] at h; cases h
        | some j2 =>
          rw [h1, h2] at h
          simp only [Option.bind_some] at h
          by_cases hl : st.left.isEmpty = true
          · simp only [hl, Bool.not_true, Bool.false_eq_true, ↓reduceIte] at h
            refine edgeLoop_left_nonempty it y fuel _ st' h ?_
            rcases hs with hs | ⟨k, k1, k2, k3, k4⟩
            · rw [hl] at hs; cases hs
            · by_cases hk : k = st.idx
              · left
                subst hk
                exact k4 j1 j2 h1 h2
              · right
                exact ⟨k, by dsimp only; omega, by dsimp only; omega, k3, k4⟩
          · have hl' : st.left.isEmpty = false := by simpa using hl
            simp only [hl', Bool.not_false, ↓reduceIte] at h
            by_cases he : (st.left.tryExtend ((ThickSegment.mk j1 j2).intersection y)).1 = true
            · simp only [he, ↓reduceIte] at h
              refine edgeLoop_left_nonempty it y fuel _ st' h (Or.inl ?_)
              exact tryExtend_nonempty _ _ hl'
            · simp only [he, Bool.false_eq_true, ↓reduceIte] at h
              by_cases hr : st.right.isEmpty = true
              · simp only [hr, Bool.not_true, Bool.false_eq_true, ↓reduceIte] at h
                exact edgeLoop_left_nonempty it y fuel _ st' h (Or.inl hl')
              · have hr' : st.right.isEmpty = false := by simpa using hr
                simp only [hr', Bool.not_false, ↓reduceIte] at h
                exact edgeLoop_left_nonempty it y fuel _ st' h (Or.inl hl')
    · simp only [hi', ↓reduceIte, Option.some.injEq] at h
      subst h
      rcases hs with hs | ⟨k, k1, k2, k3, k4⟩
      · exact hs
      · omega

theorem tryTake_of_nonempty (s : Scanline) (h : s.isEmpty = false) :
    s.tryTake = (some s, { s with xs := 0, xe := 0 }) := by
  unfold Scanline.tryTake
  simp only [h, Bool.not_false, ↓reduceIte]

/-- The first call of the edge closure in a row where some edge segment has a scanline returns a
(non-empty) scanline. -/
theorem edgeNext_first_some (it : TriIntersections) (hw : it.strokeWidth ≠ 0) (y : Int) (k : Nat)
    (hk : k < 3) (hsc : ScanNonempty it y k) (r : Option Scanline) (st' : EdgeState)
    (h : it.edgeNext y ⟨0, Scanline.newEmpty y, Scanline.newEmpty y⟩ = some (r, st')) :
    ∃ sc, r = some sc ∧ sc.isEmpty = false := by
  unfold TriIntersections.edgeNext at h
  simp only [hw, ↓reduceIte, Option.bind_eq_bind] at h
  cases hl : it.edgeLoop y 3 ⟨0, Scanline.newEmpty y, Scanline.newEmpty y⟩ with
  | none => rw [hl] at h; cases h
  | some st1 =>
    rw [hl] at h
    simp only [Option.bind_some] at h
    have h1 : st1.left.isEmpty = false :=
      edgeLoop_left_nonempty it y 3 _ st1 hl (Or.inr ⟨k, Nat.zero_le _, by dsimp only; omega, hk, hsc⟩)
    have h2 : (if (st1.left.tryExtend st1.right).1 = true then
          ({ st1 with left := (st1.left.tryExtend st1.right).2, right := Scanline.newEmpty y } : EdgeState)
        else st1).left.isEmpty = false := by
      split
      · exact tryExtend_nonempty _ _ h1
      · exact h1
    generalize (if (st1.left.tryExtend st1.right).1 = true then
          ({ st1 with left := (st1.left.tryExtend st1.right).2, right := Scanline.newEmpty y } : EdgeState)
        else st1) = st2 at h h2
    rw [tryTake_of_nonempty _ h2] at h
    simp only [pure, Option.some.injEq, Prod.mk.injEq] at h
    exact ⟨st2.left, h.1.symm, h2⟩

/-! ### `generate_lines`, `reset_with_new_scanline`, `ScanlineIntersections::next` -/

theorem next_isSome_of_first (it : TriIntersections) (h : it.lines.first.isEmpty = false) :
    it.next.isSome = true := by
  unfold TriIntersections.next
  by_cases hi : it.lines.internal.isEmpty = true
  · have e : it.lines.internal.tryTake = (none, it.lines.internal) := by
      unfold Scanline.tryTake; simp only [hi, Bool.not_true, Bool.false_eq_true, ↓reduceIte]
    rw [e, tryTake_of_nonempty _ h]
    rfl
  · have hi' : it.lines.internal.isEmpty = false := by simpa using hi
    rw [tryTake_of_nonempty _ hi']
    rfl

theorem next_isSome_of_internal (it : TriIntersections) (h : it.lines.internal.isEmpty = false) :
    it.next.isSome = true := by
  unfold TriIntersections.next
  rw [tryTake_of_nonempty _ h]
  rfl

theorem next_none_of_empty (it : TriIntersections) (h1 : it.lines.internal.isEmpty = true)
    (h2 : it.lines.first.isEmpty = true) (h3 : it.lines.second.isEmpty = true) : it.next = none := by
  have e : ∀ s : Scanline, s.isEmpty = true → s.tryTake = (none, s) := by
    intro s hs
    unfold Scanline.tryTake; simp only [hs, Bool.not_true, Bool.false_eq_true, ↓reduceIte]
  unfold TriIntersections.next
  rw [e _ h1, e _ h2, e _ h3]

/-- **A row where some edge segment has a scanline** (stroke drawn from the edge segments: width > 0,
not the collapsed case): the row's line configuration yields a scanline. -/
theorem reset_next_isSome_of_edge (it : TriIntersections) (hw : it.strokeWidth ≠ 0)
    (hc : it.isCollapsed = false) (y : Int) (k : Nat) (hk : k < 3) (hsc : ScanNonempty it y k)
    (ints : TriIntersections) (h : it.resetWithNewScanline y = some ints) : ints.next.isSome = true := by
  unfold TriIntersections.resetWithNewScanline at h
  cases hg : it.generateLines y with
  | none => rw [hg] at h; cases h
  | some lines =>
    rw [hg] at h
    simp only [Option.bind_eq_bind, Option.bind_some, pure, Option.some.injEq] at h
    subst h
    apply next_isSome_of_first
    dsimp only
    unfold TriIntersections.generateLines at hg
    simp only [hc, Bool.false_eq_true, ↓reduceIte, Option.bind_eq_bind] at hg
    cases hn1 : it.edgeNext y ⟨0, Scanline.newEmpty y, Scanline.newEmpty y⟩ with
    | none => rw [hn1] at hg; cases hg
    | some x1 =>
      obtain ⟨first, st1⟩ := x1
      rw [hn1] at hg
      simp only [Option.bind_some] at hg
      obtain ⟨sc, rfl, hne⟩ := edgeNext_first_some it hw y k hk hsc first st1 hn1
      cases hn2 : it.edgeNext y st1 with
      | none => rw [hn2] at hg; cases hg
      | some x2 =>
        obtain ⟨second, st2⟩ := x2
        rw [hn2] at hg
        simp only [Option.bind_some, pure, Option.some.injEq] at hg
        subst hg
        exact hne

/-- **A row between the lowest and the highest vertex, when the plain triangle scanline is used**
(the collapsed inside stroke, or a fill colour with stroke width 0): the row's line configuration
yields a scanline. -/
theorem reset_next_isSome_of_plain (it : TriIntersections)
    (hc : it.isCollapsed = true ∨ (it.strokeWidth = 0 ∧ it.hasFill = true)) (y : Int)
    (h1 : min (min it.triangle.v1.y it.triangle.v2.y) it.triangle.v3.y ≤ y)
    (h2 : y ≤ max (max it.triangle.v1.y it.triangle.v2.y) it.triangle.v3.y)
    (ints : TriIntersections) (h : it.resetWithNewScanline y = some ints) : ints.next.isSome = true := by
  have hne := tri_scanlineIntersection_nonempty it.triangle y h1 h2
  unfold TriIntersections.resetWithNewScanline at h
  cases hg : it.generateLines y with
  | none => rw [hg] at h; cases h
  | some lines =>
    rw [hg] at h
    simp only [Option.bind_eq_bind, Option.bind_some, pure, Option.some.injEq] at h
    subst h
    apply next_isSome_of_internal
    dsimp only
    unfold TriIntersections.generateLines at hg
    by_cases hcc : it.isCollapsed = true
    · simp only [hcc, ↓reduceIte, Option.some.injEq] at hg
      subst hg
      exact hne
    · have hcc' : it.isCollapsed = false := by simpa using hcc
      rcases hc with hc | ⟨hw, hf⟩
      · exact absurd hc hcc
      · simp only [hcc', Bool.false_eq_true, ↓reduceIte, Option.bind_eq_bind,
          TriIntersections.edgeNext, hw, Option.bind_some, hf, pure, Option.some.injEq] at hg
        subst hg
        exact hne

/-- **Stroke width 0 without a fill colour (not collapsed): no row has a scanline.** -/
theorem reset_next_none_of_nothing (it : TriIntersections) (hw : it.strokeWidth = 0)
    (hf : it.hasFill = false) (hc : it.isCollapsed = false) (y : Int)
    (ints : TriIntersections) (h : it.resetWithNewScanline y = some ints) :
    ints.next = none ∧ ints.strokeWidth = 0 ∧ ints.hasFill = false ∧ ints.isCollapsed = false := by
  unfold TriIntersections.resetWithNewScanline at h
  cases hg : it.generateLines y with
  | none => rw [hg] at h; cases h
  | some lines =>
    rw [hg] at h
    simp only [Option.bind_eq_bind, Option.bind_some, pure, Option.some.injEq] at h
    subst h
    refine ⟨?_, hw, hf, hc⟩
    unfold TriIntersections.generateLines at hg
    simp only [hc, Bool.false_eq_true, ↓reduceIte, Option.bind_eq_bind,
      TriIntersections.edgeNext, hw, Option.bind_some, hf, pure, Option.some.injEq] at hg
    subst hg
    exact next_none_of_empty _ rfl rfl rfl

end Joins
end EG
