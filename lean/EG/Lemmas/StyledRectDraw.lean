/-
  EG.Lemmas.StyledRectDraw — what `draw()` and `pixels()` of a styled rectangle leave on a target:
  exact pixel map of the call list (C06), equality of the two paths (C01), containment in the
  styled bounding box and transparency (C02).
-/
import EG.Lemmas.StyledRect
import EG.Lemmas.StyledRectPixels
import EG.Lemmas.PMap
namespace EG
namespace StyledRect
open Rect

/-! ### Guards -/

theorem Guard.noSat {s : Style} {r : Rect} (h : Guard s r) : NoSat s r := by
  obtain ⟨hw, hr⟩ := h
  have hsz : (strokeArea s r).size = r.size.satAdd (Sz.newEqual (s.outsideStrokeWidth * 2)) := by
    unfold strokeArea Rect.offset
    rw [s.strokeOffset_eq hw]
    simp [withCenter]
  unfold InRange at hr
  rw [hsz] at hr
  simp only [Sz.satAdd, Sz.newEqual, satAddU32] at hr
  refine ⟨hw, ?_, ?_⟩
  · by_cases hc : r.size.w + s.outsideStrokeWidth * 2 ≤ 4294967295
    · omega
    · simp only [hc, ↓reduceIte] at hr
      omega
  · by_cases hc : r.size.h + s.outsideStrokeWidth * 2 ≤ 4294967295
    · omega
    · simp only [hc, ↓reduceIte] at hr
      omega

/-- `q` lies weakly within `sa` (also meaningful for zero-sized `q`). -/
def Within (q sa : Rect) : Prop :=
  (sa.tl.x ≤ q.tl.x ∧ q.tl.x + q.size.w ≤ sa.tl.x + sa.size.w) ∧
  (sa.tl.y ≤ q.tl.y ∧ q.tl.y + q.size.h ≤ sa.tl.y + sa.size.h)

theorem Within.contains {q sa : Rect} (h : Within q sa) {p : Pt} (hp : q.contains p = true) :
    sa.contains p = true := by
  unfold Within at h
  rw [contains_iff] at hp ⊢
  omega

/-- The fill area lies within the stroke area (also when collapsed). -/
theorem fillArea_within (s : Style) (r : Rect) (h : NoSat s r) :
    Within (fillArea s r) (strokeArea s r) := by
  unfold Within
  simp only [strokeArea_eq s r h, fillArea_eq s r h]
  refine ⟨⟨?_, ?_⟩, ?_, ?_⟩ <;> omega

/-- Every border rectangle lies within the stroke area. -/
theorem strokeRects_within (s : Style) (r : Rect) (h : NoSat s r) :
    ∀ a ∈ strokeRects s r, Within a (strokeArea s r) := by
  obtain ⟨R1, R2, R3⟩ := rows_facts s r h
  obtain ⟨C1, C2, C3⟩ := cols_facts s r h
  have hb : bottomStrokeWidth s r ≤ (strokeArea s r).size.h := by omega
  intro a ha
  unfold strokeRects at ha
  by_cases hf : (fillArea s r).size.h > 0
  · have h3 := R3 hf
    simp only [hf, ↓reduceIte, List.cons_append, List.nil_append, List.mem_cons, List.not_mem_nil, or_false] at ha
    rcases ha with rfl | rfl | rfl | rfl
    · unfold Within; simp only [topBorder] at R1 ⊢; omega
    · unfold Within; simp only [bottomBorder, topBorder] at R1 ⊢; omega
    · unfold Within
      have e1 : (leftBorder s r).tl.x = (strokeArea s r).tl.x := by simp [leftBorder]
      have e2 : (leftBorder s r).tl.y = (strokeArea s r).tl.y + ((topBorder s r).size.h : Int) := rfl
      have e3 : (leftBorder s r).size.h = (fillArea s r).size.h := rfl
      omega
    · unfold Within
      have e1 : (rightBorder s r).tl.x = (strokeArea s r).tl.x +
          (((strokeArea s r).size.w - (leftBorder s r).size.w : Nat) : Int) := by
        simp [rightBorder, Rect.translate, leftBorder]
      have e2 : (rightBorder s r).tl.y = (strokeArea s r).tl.y + ((topBorder s r).size.h : Int) := by
        simp [rightBorder, Rect.translate, leftBorder]
      have e3 : (rightBorder s r).size.h = (fillArea s r).size.h := rfl
      have e4 : (rightBorder s r).size.w = (leftBorder s r).size.w := rfl
      omega
  · simp only [hf, ↓reduceIte, List.append_nil, List.mem_cons, List.not_mem_nil, or_false] at ha
    rcases ha with rfl | rfl
    · unfold Within; simp only [topBorder] at R1 ⊢; omega
    · unfold Within; simp only [bottomBorder, topBorder] at R1 ⊢; omega

/-! ### `draw()` as a list of solid fills -/

/-- The `(area, colour)` pairs of the `fill_solid` calls of `draw_styled`, in order. -/
def drawSolids (s : Style) (r : Rect) : List (Rect × Color) :=
  (match s.fill with
   | some fc => [(fillArea s r, fc)]
   | none => []) ++
  (match s.effectiveStrokeColor with
   | none => []
   | some sc => (strokeRects s r).map (fun a => (a, sc)))

theorem drawCalls_eq_solidCalls (s : Style) (r : Rect) :
    drawCalls s r = solidCalls (drawSolids s r) := by
  unfold drawCalls drawSolids fillCalls solidCalls
  cases s.fill <;> cases s.effectiveStrokeColor <;>
    simp [strokeCalls_eq, List.map_map, Function.comp_def]

theorem mem_drawSolids {s : Style} {r : Rect} {ac : Rect × Color} :
    ac ∈ drawSolids s r ↔
      ((s.fill = some ac.2 ∧ ac.1 = fillArea s r) ∨
       (s.effectiveStrokeColor = some ac.2 ∧ ac.1 ∈ strokeRects s r)) := by
  obtain ⟨a, c⟩ := ac
  unfold drawSolids
  rw [List.mem_append]
  constructor
  · rintro (h | h)
    · left
      cases hf : s.fill with
      | none => rw [hf] at h; cases h
      | some fc =>
        rw [hf] at h
        simp only [List.mem_singleton, Prod.mk.injEq] at h
        obtain ⟨rfl, rfl⟩ := h
        exact ⟨rfl, rfl⟩
    · right
      cases he : s.effectiveStrokeColor with
      | none => rw [he] at h; cases h
      | some sc =>
        rw [he] at h
        simp only [List.mem_map, Prod.mk.injEq] at h
        obtain ⟨a', ha', rfl, rfl⟩ := h
        exact ⟨rfl, ha'⟩
  · rintro (⟨h1, h2⟩ | ⟨h1, h2⟩)
    · left
      simp only at h1 h2
      rw [h1, h2]
      exact List.mem_singleton.mpr rfl
    · right
      simp only at h1 h2
      rw [h1]
      exact List.mem_map.mpr ⟨a, h2, rfl⟩

theorem drawSolids_inRange {s : Style} {r : Rect} (h : Guard s r) :
    ∀ ac ∈ drawSolids s r, ac.1.InRange := by
  intro ac hac
  have hn := h.noSat
  rcases mem_drawSolids.mp hac with ⟨_, e⟩ | ⟨_, hm⟩
  · rw [e]
    have := fillArea_within s r hn
    exact InRange.of_within h.2 this.1 this.2
  · have := strokeRects_within s r hn _ hm
    exact InRange.of_within h.2 this.1 this.2

/-- The colour the property text prescribes for a point (`want` of the harness oracle). -/
def expectedColor (s : Style) (r : Rect) (p : Pt) : Option Color :=
  if (fillArea s r).contains p = true then s.fill
  else if (strokeArea s r).contains p = true ∧ s.width > 0 then s.stroke
  else none

theorem lastSolid_drawSolids (s : Style) (r : Rect) (h : NoSat s r) (p : Pt) :
    lastSolid (drawSolids s r) p = expectedColor s r p := by
  have key := mem_strokeRects_iff s r h p
  have heff := s.effectiveStrokeColor_eq
  unfold expectedColor
  by_cases hfa : (fillArea s r).contains p = true
  · -- in the fill area: no border rectangle contains p
    rw [if_pos hfa]
    have hno : ¬ ∃ a ∈ strokeRects s r, a.contains p = true := fun hex => (key.mp hex).2 hfa
    cases hfill : s.fill with
    | none =>
      rw [lastSolid_eq_none_iff]
      intro ac hac hc
      rcases mem_drawSolids.mp hac with ⟨e, _⟩ | ⟨_, hm⟩
      · rw [hfill] at e; cases e
      · exact hno ⟨ac.1, hm, hc⟩
    | some fc =>
      cases hl : lastSolid (drawSolids s r) p with
      | none =>
        rw [lastSolid_eq_none_iff] at hl
        exact absurd hfa (hl (fillArea s r, fc) (mem_drawSolids.mpr (Or.inl ⟨hfill, rfl⟩)))
      | some c =>
        obtain ⟨ac, hac, hc, rfl⟩ := lastSolid_eq_some hl
        rcases mem_drawSolids.mp hac with ⟨e, _⟩ | ⟨_, hm⟩
        · rw [hfill] at e; exact e.symm
        · exact absurd ⟨ac.1, hm, hc⟩ hno
  · rw [if_neg hfa]
    by_cases hsa : (strokeArea s r).contains p = true ∧ s.width > 0
    · rw [if_pos hsa]
      obtain ⟨a, ha, hac⟩ := key.mpr ⟨hsa.1, hfa⟩
      rw [if_pos hsa.2] at heff
      cases hst : s.stroke with
      | none =>
        rw [hst] at heff
        rw [lastSolid_eq_none_iff]
        intro ac hac' hc
        rcases mem_drawSolids.mp hac' with ⟨_, e⟩ | ⟨e, _⟩
        · rw [e] at hc; exact hfa hc
        · rw [heff] at e; cases e
      | some sc =>
        rw [hst] at heff
        cases hl : lastSolid (drawSolids s r) p with
        | none =>
          rw [lastSolid_eq_none_iff] at hl
          exact absurd hac (hl (a, sc) (mem_drawSolids.mpr (Or.inr ⟨heff, ha⟩)))
        | some c =>
          obtain ⟨ac, hac', hc, rfl⟩ := lastSolid_eq_some hl
          rcases mem_drawSolids.mp hac' with ⟨_, e⟩ | ⟨e, _⟩
          · rw [e] at hc; exact absurd hc hfa
          · rw [heff] at e; exact e.symm
    · rw [if_neg hsa, lastSolid_eq_none_iff]
      intro ac hac hc
      rcases mem_drawSolids.mp hac with ⟨_, e⟩ | ⟨e, hm⟩
      · rw [e] at hc; exact hfa hc
      · have hw : s.width > 0 := by
          by_cases hw : s.width > 0
          · exact hw
          · rw [if_neg hw] at heff; rw [heff] at e; cases e
        exact hsa ⟨(key.mp ⟨ac.1, hm, hc⟩).1, hw⟩

/-- **Exact picture of `draw()`** on a native target with box `B`. -/
theorem runNative_drawCalls (s : Style) (r : Rect) (h : Guard s r) (B : Rect) (p : Pt) :
    runNative B (drawCalls s r) p = if B.contains p = true then expectedColor s r p else none := by
  rw [drawCalls_eq_solidCalls, runNative_solidCalls _ _ (drawSolids_inRange h),
    lastSolid_drawSolids s r h.noSat]

/-- Nothing outside the stroke area is ever painted. -/
theorem expectedColor_ne_none {s : Style} {r : Rect} (h : NoSat s r) {p : Pt}
    (hp : expectedColor s r p ≠ none) : (strokeArea s r).contains p = true := by
  unfold expectedColor at hp
  by_cases hfa : (fillArea s r).contains p = true
  · exact (fillArea_within s r h).contains hfa
  · rw [if_neg hfa] at hp
    by_cases hsa : (strokeArea s r).contains p = true ∧ s.width > 0
    · exact hsa.1
    · rw [if_neg hsa] at hp; exact absurd rfl hp

/-! ### Transparent styles -/

theorem drawCalls_of_transparent (s : Style) (r : Rect) (h : s.isTransparent = true) :
    drawCalls s r = [] := by
  rw [Style.isTransparent_iff] at h
  unfold drawCalls fillCalls
  rw [h.2, s.effectiveStrokeColor_eq]
  rcases h.1 with h1 | h1
  · rw [h1]; simp
  · have : ¬ s.width > 0 := by omega
    simp [this]

theorem pixelsList_of_transparent (s : Style) (r : Rect) (h : s.isTransparent = true) :
    pixelsList s r = [] := by
  rw [pixelsList_eq_spec]
  unfold pixelsSpec
  simp [h]

/-! ### `pixels()` -/

theorem pixelOf_eq_some {s : Style} {r : Rect} {p q : Pt} {c : Color} :
    pixelOf s r p = some (q, c) ↔
      (q = p ∧ (if (fillArea s r).contains p = true then s.fill else s.stroke) = some c) := by
  unfold pixelOf
  simp only
  cases h : (if (fillArea s r).contains p = true then s.fill else s.stroke) with
  | none => simp
  | some c' =>
    simp only [Option.some.injEq, Prod.mk.injEq]
    constructor
    · rintro ⟨rfl, rfl⟩; exact ⟨rfl, rfl⟩
    · rintro ⟨rfl, rfl⟩; exact ⟨rfl, rfl⟩

theorem mem_pixelsList {s : Style} {r : Rect} (h : Guard s r) {p : Pt} {c : Color} :
    (p, c) ∈ pixelsList s r ↔
      (s.isTransparent = false ∧ (strokeArea s r).contains p = true ∧
        (if (fillArea s r).contains p = true then s.fill else s.stroke) = some c) := by
  rw [pixelsList_eq_spec]
  unfold pixelsSpec
  rw [List.mem_filterMap]
  by_cases ht : s.isTransparent = true
  · simp [ht]
  · have ht' : s.isTransparent = false := by simpa using ht
    simp only [ht', Bool.not_false, ↓reduceIte, true_and]
    constructor
    · rintro ⟨q, hq, hpx⟩
      obtain ⟨rfl, hc⟩ := pixelOf_eq_some.mp hpx
      exact ⟨(mem_points h.2).mp hq, hc⟩
    · rintro ⟨hsa, hc⟩
      exact ⟨p, (mem_points h.2).mpr hsa, pixelOf_eq_some.mpr ⟨rfl, hc⟩⟩

/-- `pixels()` yields every point at most once. -/
theorem pixelsList_nodup (s : Style) (r : Rect) : ((pixelsList s r).map Prod.fst).Nodup := by
  rw [pixelsList_eq_spec]
  unfold pixelsSpec
  have hsub : ∀ l : List Pt, ((l.filterMap (pixelOf s r)).map Prod.fst).Sublist l := by
    intro l
    induction l with
    | nil => simp
    | cons a l ih =>
      rw [List.filterMap_cons]
      cases hpa : pixelOf s r a with
      | none => exact List.Sublist.cons _ ih
      | some qc =>
        obtain ⟨q, c⟩ := qc
        obtain ⟨rfl, _⟩ := pixelOf_eq_some.mp hpa
        simp only [List.map_cons]
        exact List.Sublist.cons_cons _ ih
  by_cases ht : s.isTransparent = true
  · simp [ht]
  · have ht' : s.isTransparent = false := by simpa using ht
    simp only [ht', Bool.not_false, ↓reduceIte]
    exact List.Pairwise.sublist (hsub _) (points_nodup _)

/-- **Exact picture of `pixels()` fed to `draw_iter`**: the same as `draw()`. -/
theorem apply_pixelsList (s : Style) (r : Rect) (h : Guard s r) (B : Rect) (p : Pt) :
    PMap.empty.apply (clipWrites B (pixelsList s r)) p =
      if B.contains p = true then expectedColor s r p else none := by
  have hn := h.noSat
  have hw0 := s.offsets_of_width_zero
  -- the value prescribed, in terms of membership in `pixels()`
  have hspec : ∀ c, ((p, c) ∈ pixelsList s r) ↔ expectedColor s r p = some c := by
    intro c
    rw [mem_pixelsList h]
    unfold expectedColor
    by_cases hfa : (fillArea s r).contains p = true
    · have hsa := (fillArea_within s r hn).contains hfa
      simp only [hfa, ↓reduceIte, hsa, true_and]
      constructor
      · exact fun hh => hh.2
      · intro hh
        refine ⟨?_, hh⟩
        cases ht : s.isTransparent with
        | false => rfl
        | true => rw [Style.isTransparent_iff] at ht; rw [ht.2] at hh; cases hh
    · simp only [hfa, Bool.false_eq_true, ↓reduceIte]
      by_cases hsa : (strokeArea s r).contains p = true
      · by_cases hw : s.width > 0
        · simp only [hsa, hw, and_self, ↓reduceIte, true_and]
          constructor
          · exact fun hh => hh.2
          · intro hh
            refine ⟨?_, hh⟩
            cases ht : s.isTransparent with
            | false => rfl
            | true =>
              rw [Style.isTransparent_iff] at ht
              rcases ht.1 with h1 | h1
              · rw [h1] at hh; cases hh
              · omega
        · -- width 0: stroke area = fill area
          exfalso
          have := hw0 (by omega)
          unfold strokeArea at hsa
          unfold fillArea at hfa
          rw [this.1] at hsa
          rw [this.2] at hfa
          exact hfa hsa
      · simp [hsa]
  by_cases hB : B.contains p = true
  · rw [if_pos hB]
    cases he : expectedColor s r p with
    | none =>
      rw [PMap.apply_clip_eq_none]
      rintro ⟨_, c, hc⟩
      rw [hspec, he] at hc; cases hc
    | some c =>
      rw [PMap.apply_clip_nodup _ _ (pixelsList_nodup s r)]
      exact ⟨(hspec c).mpr he, hB⟩
  · rw [if_neg hB, PMap.apply_clip_eq_none]
    rintro ⟨hB', _⟩
    exact hB hB'

/-! ### Every write lies in the stroke area (= styled bounding box) -/

theorem mem_drawCalls_lowerNative {s : Style} {r : Rect} (h : Guard s r) (B : Rect) {c : Call}
    (hc : c ∈ drawCalls s r) {w : Pt × Color} (hw : w ∈ c.lowerNative B) :
    (strokeArea s r).contains w.1 = true := by
  rw [drawCalls_eq_solidCalls] at hc
  unfold solidCalls at hc
  obtain ⟨ac, hac, rfl⟩ := List.mem_map.mp hc
  have hin := drawSolids_inRange h ac hac
  simp only [Call.lowerNative, List.mem_map] at hw
  obtain ⟨q, hq, rfl⟩ := hw
  have hq' := (mem_pointsSpec hin).mp hq
  have hn := h.noSat
  rcases mem_drawSolids.mp hac with ⟨_, e⟩ | ⟨_, hm⟩
  · rw [e] at hq'
    exact (fillArea_within s r hn).contains hq'
  · exact (strokeRects_within s r hn _ hm).contains hq'

theorem mem_pixelsList_contains {s : Style} {r : Rect} (h : Guard s r) {w : Pt × Color}
    (hw : w ∈ pixelsList s r) : (strokeArea s r).contains w.1 = true := by
  obtain ⟨p, c⟩ := w
  exact ((mem_pixelsList h).mp hw).2.1

end StyledRect
end EG
