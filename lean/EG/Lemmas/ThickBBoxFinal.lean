/-
  EG.Lemmas.ThickBBoxFinal — assembly: every point of `thickPoints l w` lies in
  `styledBoundingBox l w` (see EG.Lemmas.ThickBBoxMain).
-/
import EG.Lemmas.ThickBBoxMain
set_option linter.unusedSimpArgs false
namespace EG
namespace Thick
open ParallelsIterator Line

/-- Coordinate-wise between. -/
def Btw (a b q : Pt) : Prop :=
  (min a.x b.x ≤ q.x ∧ q.x ≤ max a.x b.x) ∧ (min a.y b.y ≤ q.y ∧ q.y ≤ max a.y b.y)

theorem contains_btw {U : Rect} {a b q : Pt} (ha : U.contains a = true) (hb : U.contains b = true)
    (h : Btw a b q) : U.contains q = true := by
  unfold Btw at h
  rw [Rect.contains_iff] at ha hb ⊢
  omega

theorem contains_corner4 (a b c e p : Pt) (h : p = a ∨ p = b ∨ p = c ∨ p = e) :
    (Rect.withCorners (((a.componentMin b).componentMin c).componentMin e)
      (((a.componentMax b).componentMax c).componentMax e)).contains p = true := by
  rw [Rect.contains_withCorners]
  simp only [Pt.componentMin, Pt.componentMax]
  rcases h with rfl | rfl | rfl | rfl <;> omega

theorem smul_pred (k : Int) (v : Pt) : smul (k - 1) v = smul k v - v := by
  rw [Pt.ext_iff']
  simp only [smul_x, smul_y, Pt.sub_x, Pt.sub_y]
  constructor <;> rw [Int.sub_mul, Int.one_mul]

/-- **Every point of a parallel lies between its start and its shortened end**
`start + delta - red(type)` (the two corners `Line::extents` computes for it). -/
theorem par_points_btw (l : Line) (p : Pt) (e0 : Int) (ty : ParallelLineType)
    (herr : ErrOK (ctxOf l) ⟨p, e0⟩ ty) (q : Pt)
    (hq : q ∈ parPts (lenOf (majorLength l) ty) ⟨p, e0⟩ (ctxOf l).pp) :
    Btw p (p - (ctxOf l).redOf ty + (l.stop - l.start)) q := by
  have hv := ctxOf_valid l
  by_cases hdeg : l.start = l.stop
  · -- a zero-length line: one point per normal parallel, none per extra parallel
    have hlen : majorLength l = 1 := by
      rw [majorLength_eq, (dmaj_zero_iff l).mpr hdeg]; rfl
    rw [hlen] at hq
    cases ty with
    | extra => simp [lenOf, parPts] at hq
    | normal =>
      have he : ¬ (e0 > (ctxOf l).D) := by have := herr.1 rfl; simp only at this; omega
      simp only [lenOf, parPts, List.mem_cons, List.not_mem_nil, or_false] at hq
      have hnext : ((⟨p, e0⟩ : Bresenham).next (ctxOf l).pp).1 = p := by
        unfold Bresenham.next StrokeCtx.pp
        simp only [he, ↓reduceIte]
      rw [hnext] at hq
      subst hq
      unfold Btw
      refine ⟨⟨?_, ?_⟩, ?_, ?_⟩ <;> omega
  · have hp : paramLine l = l := by simp [paramLine, hdeg]
    have hD : (ctxOf l).D = dmaj l := by unfold ctxOf; rw [hp]
    have hd : (ctxOf l).d = dmin l := by unfold ctxOf; rw [hp]
    have hM : (ctxOf l).M = pmaj l := by unfold ctxOf; rw [hp]
    have hm : (ctxOf l).m = pmin l := by unfold ctxOf; rw [hp]
    have hdelta := delta_decomp l
    rw [← hD, ← hd, ← hM, ← hm] at hdelta
    have hlen : majorLength l = ((ctxOf l).D).toNat + 1 := by rw [majorLength_eq, hD]
    have hDpos := hv.hD
    rw [hlen] at hq
    cases ty with
    | normal =>
      have he := herr.1 rfl
      simp only at he
      have h1 := normal_parallel_between hv.ax (ctxOf l).D (ctxOf l).d hv.hD hv.hd0 p e0 he
        (((ctxOf l).D).toNat + 1) (by omega) q hq
      unfold Btw
      have hx : (p - (ctxOf l).redOf .normal + (l.stop - l.start)) =
          p + smul (ctxOf l).D (ctxOf l).M + smul (ctxOf l).d (ctxOf l).m := by
        rw [hdelta]; pt_arith
      rw [hx]
      exact h1
    | extra =>
      obtain ⟨he, hd1⟩ := herr.2 rfl
      simp only at he
      have hq' : q ∈ parPts ((ctxOf l).D).toNat ⟨p, e0⟩ (ctxOf l).pp := by
        simpa [lenOf] using hq
      have h1 := extra_parallel_between hv.ax (ctxOf l).D (ctxOf l).d hv.hD (by omega) p e0 he
        (((ctxOf l).D).toNat) (by omega) q hq'
      unfold Btw
      have hx : (p - (ctxOf l).redOf .extra + (l.stop - l.start)) =
          p + smul ((ctxOf l).D - 1) (ctxOf l).M + smul ((ctxOf l).d - 1) (ctxOf l).m := by
        rw [hdelta, smul_pred, smul_pred]; pt_arith
      rw [hx]
      exact h1

theorem btw_of_cones {A a : Pt} (h : AxisPair A a) {p q r : Pt} (h1 : Cone A a (q - p))
    (h2 : Cone A a (r - q)) : Btw p r q := between_of_cone h h1 h2

theorem cone_shift {A a u v : Pt} (d : Pt) (h : Cone A a (u - v)) : Cone A a (u + d - (v + d)) := by
  have : u + d - (v + d) = u - v := by pt_arith
  rw [this]; exact h

/-- A drain that succeeds within its budget is what `toListFuel` (take-`n` semantics) returns. -/
theorem toListFuel_of_drainFuel : ∀ (fuel : Nat) (it : ThickPointsIt) (ps : List Pt),
    it.drainFuel fuel = some ps → it.toListFuel fuel = some ps := by
  intro fuel
  induction fuel with
  | zero => intro it ps h; simp [ThickPointsIt.drainFuel] at h
  | succ n ih =>
    intro it ps h
    rw [ThickPointsIt.drainFuel] at h
    rw [ThickPointsIt.toListFuel]
    cases hn : it.next with
    | none => rw [hn] at h; cases h
    | some r =>
      rw [hn] at h
      cases r with
      | none => simpa using h
      | some pr =>
        obtain ⟨p, it'⟩ := pr
        simp only at h ⊢
        cases hd : ThickPointsIt.drainFuel n it' with
        | none => rw [hd] at h; cases h
        | some qs =>
          rw [hd] at h
          rw [ih it' qs hd]
          exact h

/-- **Every pixel of a stroked line lies inside its styled bounding box.** -/
theorem thickPoints_in_bbox (l : Line) (w : Nat) (ps : List Pt) (hps : thickPoints l w = some ps)
    (bb : Rect) (hbb : styledBoundingBox l w = some bb) : ∀ q ∈ ps, bb.contains q = true := by
  have hv := ctxOf_valid l
  obtain ⟨it0, hnew, hside, hg0⟩ := new_ginv l (satAsI32 w)
  -- the points
  unfold thickPoints ThickPointsIt.new at hps
  rw [hnew] at hps
  simp only at hps
  by_cases hw0 : w = 0
  · simp only [hw0, ↓reduceIte, Option.some.injEq] at hps
    subst hps; intro q hq; cases hq
  simp only [hw0, ↓reduceIte] at hps
  intro q hq
  have hps := toListFuel_of_drainFuel _ _ _ hps
  have hacc := toListFuel_acc (ctxOf l) hv l.start _ _ ps ⟨_, _, hg0⟩ hps q hq
  rcases hacc with hacc | ⟨F, x, hx, hqx⟩
  · simp [parPts] at hacc
  simp only at hx hqx
  -- the box
  unfold styledBoundingBox extents at hbb
  rw [hnew] at hbb
  simp only at hbb
  cases hel : extentsLoop (2 * w + 4) it0 (l.start, ParallelLineType.normal)
      (l.start, ParallelLineType.normal) with
  | none => rw [hel] at hbb; cases hbb
  | some r =>
    obtain ⟨Lf, Rf⟩ := r
    rw [hel] at hbb
    simp only [Option.some.injEq] at hbb
    obtain ⟨hl, hcomplete⟩ := extentsLoop_run (ctxOf l) hv l.start (2 * w + 4) it0 _ _ Lf Rf hg0 hside hel
    have hxrun := hcomplete F x hx
    obtain ⟨_, _, _, _, hall⟩ := run_order (ctxOf l) hv l.start (2 * (2 * w + 4)) it0 _ _ hg0
    obtain ⟨o1, o2, o3, o4, herr⟩ := hall x hxrun
    rw [← hl] at o1 o2 o3 o4
    simp only at o1 o2 o3 o4
    -- the reduction vector of `extents` is `M + m`
    have hred : it0.parallelParameters.positionStep.major + it0.parallelParameters.positionStep.minor =
        (ctxOf l).M + (ctxOf l).m := by rw [hg0.hpp]; rfl
    rw [hred] at hbb
    -- the four corners are in the box
    have hbb' : Rect.withCorners
        (((Lf.1.componentMin (Lf.1 + (l.stop - l.start) - (ctxOf l).redOf Lf.2)).componentMin
          Rf.1).componentMin (Rf.1 + (l.stop - l.start) - (ctxOf l).redOf Rf.2))
        (((Lf.1.componentMax (Lf.1 + (l.stop - l.start) - (ctxOf l).redOf Lf.2)).componentMax
          Rf.1).componentMax (Rf.1 + (l.stop - l.start) - (ctxOf l).redOf Rf.2)) = bb := by
      rw [← hbb]
      obtain ⟨pL, tyL⟩ := Lf
      obtain ⟨pR, tyR⟩ := Rf
      cases tyL <;> cases tyR <;> rfl
    have hc := fun p h => contains_corner4 Lf.1 (Lf.1 + (l.stop - l.start) - (ctxOf l).redOf Lf.2)
      Rf.1 (Rf.1 + (l.stop - l.start) - (ctxOf l).redOf Rf.2) p h
    rw [hbb'] at hc
    have c1 := hc _ (Or.inl rfl)
    have c2 := hc _ (Or.inr (Or.inl rfl))
    have c3 := hc _ (Or.inr (Or.inr (Or.inl rfl)))
    have c4 := hc _ (Or.inr (Or.inr (Or.inr rfl)))
    -- the start and the shortened end of the parallel `x` are in the box
    have hstart : bb.contains x.2.1.point = true :=
      contains_btw c3 c1 (btw_of_cones hv.ax' o2 o1)
    have hend : bb.contains (x.2.1.point - (ctxOf l).redOf x.2.2 + (l.stop - l.start)) = true := by
      have e1 : Lf.1 + (l.stop - l.start) - (ctxOf l).redOf Lf.2 =
          adj (ctxOf l) Lf + (l.stop - l.start) := by unfold adj; pt_arith
      have e2 : Rf.1 + (l.stop - l.start) - (ctxOf l).redOf Rf.2 =
          adj (ctxOf l) Rf + (l.stop - l.start) := by unfold adj; pt_arith
      rw [e1] at c2
      rw [e2] at c4
      have e3 : x.2.1.point - (ctxOf l).redOf x.2.2 + (l.stop - l.start) =
          adj (ctxOf l) (x.2.1.point, x.2.2) + (l.stop - l.start) := rfl
      rw [e3]
      exact contains_btw c4 c2 (btw_of_cones hv.ax' (cone_shift _ o4) (cone_shift _ o3))
    -- every point of the parallel lies between the two
    have hb : Btw x.2.1.point (x.2.1.point - (ctxOf l).redOf x.2.2 + (l.stop - l.start)) q := by
      obtain ⟨side, ⟨p, e0⟩, ty⟩ := x
      exact par_points_btw l p e0 ty herr q hqx
    exact contains_btw hstart hend hb

end Thick
end EG
