/-
  EG.Lemmas.ThickGeoSide — one call of `ParallelsIterator::next_parallel(side)`, measured with the
  forms `ph` (phase / band) and `dt` (position along the line) of EG.Lemmas.ThickGeoFrame.

  The point of the phase logic of `next_parallel`: with `i` the number of parallels the side has
  yielded so far, the side's perpendicular walker `w` and parallel error `e` always satisfy
      ph(w.point) - ph(start) - e = tau (i + 1),            tau = ph(M') = +-2 D,
  i.e. a parallel started at the walker with the current error is exactly the next band of height
  `2 D`; skipped `Extra` steps leave the equation untouched, and a returned `Extra` parallel (with
  its mirrored start point and its returned error) satisfies it too. Hence the bands of all
  parallels tile the plane: no pixel twice, no hole.
  The walker's own error is twice its position along the line: `2 (dt(w) - dt(start)) = sg w.error`;
  a `Normal` parallel starts within half a major step of the perpendicular through `start`, an
  `Extra` one between `D/2` and `D/2 + d` ahead of it.
-/
import EG.Lemmas.ThickGeoBres
import Mathlib.Tactic.Linarith
set_option linter.unusedSimpArgs false
namespace EG
namespace Thick
open ParallelsIterator StrokeCtx

/-- The sign that relates the walker's error to its position along the line. -/
def sg (c : StrokeCtx) : Int := if c.perp.mirrorExtraPoints then -1 else 1

/-- A parallel `(b, ty)` in band `K`, with the bounds on its initial error and on the position of
its start point along the line. -/
def ParOK (c : StrokeCtx) (s : Pt) (K : Int) (b : Bresenham) (ty : ParallelLineType) : Prop :=
  c.ph b.point - c.ph s - b.error = K ∧ -c.D < b.error ∧
  (ty = .normal → b.error ≤ c.D ∧ -c.D ≤ 2 * (c.dt b.point - c.dt s) ∧
    2 * (c.dt b.point - c.dt s) ≤ c.D) ∧
  (ty = .extra → b.error ≤ 2 * c.d - c.D ∧ 0 < c.d ∧ c.D ≤ 2 * (c.dt b.point - c.dt s) ∧
    2 * (c.dt b.point - c.dt s) ≤ c.D + 2 * c.d)

/-! ### The left side -/

structure LNum (c : StrokeCtx) (s : Pt) (it : ParallelsIterator) (i : Int) : Prop where
  hph : c.ph it.left.point - c.ph s - it.leftError = c.ph c.M' * (i + 1)
  hdt : 2 * (c.dt it.left.point - c.dt s) = sg c * it.left.error
  el1 : -c.D < it.leftError
  el2 : it.leftError ≤ c.D
  ew1 : -c.D < it.left.error
  ew2 : it.left.error ≤ c.D + 2 * c.d
  d0 : c.d = 0 → it.left.error = 0

def LOut (c : StrokeCtx) (s : Pt) (it it' : ParallelsIterator) (i : Int) (pt : BresenhamPoint)
    (e : Int) : Prop :=
  ∃ P ty, ((pt = .normal P ∧ ty = .normal) ∨ (pt = .extra P ∧ ty = .extra)) ∧
    LNum c s it' (i + 1) ∧ ParOK c s (c.ph c.M' * (i + 1)) ⟨P, e⟩ ty ∧
    it' = { it with left := it'.left, leftError := it'.leftError }

theorem nextParallel_left_geo (c : StrokeCtx) (hv : c.Valid) (fl : Bool) (hfr : c.FrameOK fl) (s : Pt) :
    ∀ (fuel : Nat) (it : ParallelsIterator) (i : Int),
    it.perpendicularParameters = c.perp → it.parallelParameters = c.pp → it.flip = fl →
    LNum c s it i →
    ∀ pt e it', nextParallelFuel fuel it .left = some ((pt, e), it') → LOut c s it it' i pt e
  | 0, _, _, _, _, _, _, _, _, _, h => by simp [nextParallelFuel] at h
  | fuel + 1, it, i, hperp, hpp, hflip, hn, pt, e, it', h => by
    have hD := hv.hD
    have hd0 := hv.hd0
    have hdD := hv.hdD
    obtain ⟨hph, hdt, el1, el2, ew1, ew2, hz⟩ := hn
    have hthr : it.perpendicularParameters.errorThreshold = c.D := by rw [hperp]; rfl
    have hMaj : it.perpendicularParameters.positionStep.major = c.M' := by rw [hperp]; rfl
    have hMin : it.perpendicularParameters.positionStep.minor = c.m' := by rw [hperp]; rfl
    have hEMaj : it.perpendicularParameters.errorStep.major = 2 * c.d := by rw [hperp]; rfl
    have hEMin : it.perpendicularParameters.errorStep.minor = 2 * c.D := by rw [hperp]; rfl
    have hMir : it.perpendicularParameters.mirrorExtraPoints = c.perp.mirrorExtraPoints := by rw [hperp]
    have hdecE : it.parallelParameters.decreaseError it.leftError =
        c.pp.decreaseError it.leftError := by rw [hpp]
    have hincE : it.parallelParameters.increaseError it.leftError =
        c.pp.increaseError it.leftError := by rw [hpp]
    by_cases hE : it.left.error > it.perpendicularParameters.errorThreshold
    · rw [npf_left_extra fuel it hE] at h
      simp only [hMaj, hMin, hEMin, hMir] at h
      rw [hthr] at hE
      have hd : 0 < c.d := by
        by_contra hc
        have : c.d = 0 := by omega
        have := hz this
        omega
      -- the skip case, common to all frames: the loop goes on with the same band equation
      have skip : ∀ (e' : Int) (mu : Int) (fl2 : Bool), fl2 = it.flip → c.ph c.m' = mu →
          e' = it.leftError + mu → -c.D < e' → e' ≤ c.D →
          nextParallelFuel fuel
            { it with left := ⟨it.left.point + c.m', it.left.error - 2 * c.D⟩, leftError := e',
                      flip := fl2 } .left =
            some ((pt, e), it') → c.dt c.m' = -(sg c * c.D) → LOut c s it it' i pt e := by
        intro e' mu fl2 hfl2 hmu he' b1 b2 hrec hdtm
        subst hfl2
        have hrec' := nextParallel_left_geo c hv fl hfr s fuel
          { it with left := ⟨it.left.point + c.m', it.left.error - 2 * c.D⟩, leftError := e' } i
          hperp hpp hflip
          ⟨by show c.ph (it.left.point + c.m') - c.ph s - e' = _
              rw [ph_add, hmu, he']; linarith,
           by show 2 * (c.dt (it.left.point + c.m') - c.dt s) = sg c * (it.left.error - 2 * c.D)
              rw [dt_add, hdtm]; linarith,
           b1, b2, by show -c.D < it.left.error - 2 * c.D; omega,
           by show it.left.error - 2 * c.D ≤ c.D + 2 * c.d; omega,
           fun h0 => by omega⟩ pt e it' hrec
        obtain ⟨P', ty', g1, g2, g3, g4⟩ := hrec'
        exact ⟨P', ty', g1, g2, g3, by rw [g4]⟩
      rcases hfr with ⟨h0, _⟩ | ⟨_, hmir, hfl, t1, t2, t3, t4⟩ | ⟨_, hmir, hfl, t1, t2, t3, t4⟩ |
          ⟨_, hDd, hmir, hfl, t1, t2, t3, t4⟩ | ⟨_, hDd, hmir, hfl, t1, t2, t3, t4⟩
      · omega
      · -- perpendicular major = -minor of the line, mirrored, no flip: `increase_error`
        have hsg : sg c = -1 := by simp [sg, hmir]
        rw [hsg] at hdt
        have hfl' : it.flip = fl := hflip
        rw [hfl] at hfl'
        simp only [hmir, hfl', ↓reduceIte, Bool.false_eq_true] at h
        rcases increaseError_spec c it.leftError with ⟨hs, hb⟩ | ⟨hs, hb⟩
        · rw [hincE, hs] at h
          simp only [↓reduceIte, Option.some.injEq, Prod.mk.injEq] at h
          obtain ⟨⟨rfl, rfl⟩, rfl⟩ := h
          refine ⟨_, .extra, Or.inr ⟨rfl, rfl⟩, ⟨?_, ?_, ?_, ?_, ?_, ?_, ?_⟩,
            ⟨?_, ?_, (fun hc => by cases hc), fun _ => ⟨?_, hd, ?_, ?_⟩⟩, by rw [hfl']⟩
          · show c.ph (it.left.point + c.m') - c.ph s - (it.leftError + 2 * c.d - 2 * c.D) = _
            rw [ph_add, t1, t2]; rw [t1] at hph; linarith
          · show 2 * (c.dt (it.left.point + c.m') - c.dt s) = sg c * (it.left.error - 2 * c.D)
            rw [dt_add, t4, hsg]; linarith
          · show -c.D < it.leftError + 2 * c.d - 2 * c.D; omega
          · show it.leftError + 2 * c.d - 2 * c.D ≤ c.D; omega
          · show -c.D < it.left.error - 2 * c.D; omega
          · show it.left.error - 2 * c.D ≤ c.D + 2 * c.d; omega
          · intro h0; omega
          · show c.ph (it.left.point + c.m' - c.M') - c.ph s - (it.leftError + 2 * c.d - 2 * c.D) = _
            rw [ph_sub, ph_add, t1, t2]; rw [t1] at hph; linarith
          · show -c.D < it.leftError + 2 * c.d - 2 * c.D; omega
          · show it.leftError + 2 * c.d - 2 * c.D ≤ 2 * c.d - c.D; omega
          · show c.D ≤ 2 * (c.dt (it.left.point + c.m' - c.M') - c.dt s)
            rw [dt_sub, dt_add, t3, t4]; linarith
          · show 2 * (c.dt (it.left.point + c.m' - c.M') - c.dt s) ≤ c.D + 2 * c.d
            rw [dt_sub, dt_add, t3, t4]; linarith
        · rw [hincE, hs] at h
          simp only [Bool.false_eq_true, ↓reduceIte] at h
          exact skip _ (2 * c.d) _ hfl'.symm t2 rfl (by omega) hb h (by rw [t4, hsg]; omega)
      · -- perpendicular major = minor of the line, not mirrored, flip: `decrease_error`
        have hsg : sg c = 1 := by simp [sg, hmir]
        rw [hsg] at hdt
        have hfl' : it.flip = fl := hflip
        rw [hfl] at hfl'
        simp only [hmir, hfl', ↓reduceIte, Bool.false_eq_true] at h
        rcases decreaseError_spec c it.leftError with ⟨hs, hb⟩ | ⟨hs, hb⟩
        · rw [hdecE, hs] at h
          simp only [↓reduceIte, Option.some.injEq, Prod.mk.injEq] at h
          obtain ⟨⟨rfl, rfl⟩, rfl⟩ := h
          refine ⟨_, .extra, Or.inr ⟨rfl, rfl⟩, ⟨?_, ?_, ?_, ?_, ?_, ?_, ?_⟩,
            ⟨?_, ?_, (fun hc => by cases hc), fun _ => ⟨?_, hd, ?_, ?_⟩⟩, by rw [hfl']⟩
          · show c.ph (it.left.point + c.m') - c.ph s - (it.leftError - 2 * c.d + 2 * c.D) = _
            rw [ph_add, t1, t2]; rw [t1] at hph; linarith
          · show 2 * (c.dt (it.left.point + c.m') - c.dt s) = sg c * (it.left.error - 2 * c.D)
            rw [dt_add, t4, hsg]; linarith
          · show -c.D < it.leftError - 2 * c.d + 2 * c.D; omega
          · show it.leftError - 2 * c.d + 2 * c.D ≤ c.D; omega
          · show -c.D < it.left.error - 2 * c.D; omega
          · show it.left.error - 2 * c.D ≤ c.D + 2 * c.d; omega
          · intro h0; omega
          · show c.ph it.left.point - c.ph s - it.leftError = _
            exact hph
          · exact el1
          · show it.leftError ≤ 2 * c.d - c.D; omega
          · show c.D ≤ 2 * (c.dt it.left.point - c.dt s); linarith
          · show 2 * (c.dt it.left.point - c.dt s) ≤ c.D + 2 * c.d; linarith
        · rw [hdecE, hs] at h
          simp only [Bool.false_eq_true, ↓reduceIte] at h
          exact skip _ (-(2 * c.d)) _ hfl'.symm t2 (by omega) hb (by omega) h (by rw [t4, hsg]; omega)
      · -- diagonal, perpendicular major = -major of the line, mirrored: the error always wraps
        have hsg : sg c = -1 := by simp [sg, hmir]
        rw [hsg] at hdt
        have hfl' : it.flip = fl := hflip
        rw [hfl] at hfl'
        simp only [hmir, hfl', ↓reduceIte, Bool.false_eq_true] at h
        rcases increaseError_spec c it.leftError with ⟨hs, hb⟩ | ⟨hs, hb⟩
        · rw [hincE, hs] at h
          simp only [↓reduceIte, Option.some.injEq, Prod.mk.injEq] at h
          obtain ⟨⟨rfl, rfl⟩, rfl⟩ := h
          refine ⟨_, .extra, Or.inr ⟨rfl, rfl⟩, ⟨?_, ?_, ?_, ?_, ?_, ?_, ?_⟩,
            ⟨?_, ?_, (fun hc => by cases hc), fun _ => ⟨?_, hd, ?_, ?_⟩⟩, by rw [hfl']⟩
          · show c.ph (it.left.point + c.m') - c.ph s - (it.leftError + 2 * c.d - 2 * c.D) = _
            rw [ph_add, t1, t2]; rw [t1] at hph; linarith
          · show 2 * (c.dt (it.left.point + c.m') - c.dt s) = sg c * (it.left.error - 2 * c.D)
            rw [dt_add, t4, hsg]; linarith
          · show -c.D < it.leftError + 2 * c.d - 2 * c.D; omega
          · show it.leftError + 2 * c.d - 2 * c.D ≤ c.D; omega
          · show -c.D < it.left.error - 2 * c.D; omega
          · show it.left.error - 2 * c.D ≤ c.D + 2 * c.d; omega
          · intro h0; omega
          · show c.ph (it.left.point + c.m' - c.M') - c.ph s - (it.leftError + 2 * c.d - 2 * c.D) = _
            rw [ph_sub, ph_add, t1, t2]; rw [t1] at hph; linarith
          · show -c.D < it.leftError + 2 * c.d - 2 * c.D; omega
          · show it.leftError + 2 * c.d - 2 * c.D ≤ 2 * c.d - c.D; omega
          · show c.D ≤ 2 * (c.dt (it.left.point + c.m' - c.M') - c.dt s)
            rw [dt_sub, dt_add, t3, t4]; linarith
          · show 2 * (c.dt (it.left.point + c.m' - c.M') - c.dt s) ≤ c.D + 2 * c.d
            rw [dt_sub, dt_add, t3, t4]; linarith
        · omega
      · -- diagonal, perpendicular major = major of the line, not mirrored: the error always wraps
        have hsg : sg c = 1 := by simp [sg, hmir]
        rw [hsg] at hdt
        have hfl' : it.flip = fl := hflip
        rw [hfl] at hfl'
        simp only [hmir, hfl', ↓reduceIte, Bool.false_eq_true] at h
        rcases increaseError_spec c it.leftError with ⟨hs, hb⟩ | ⟨hs, hb⟩
        · rw [hincE, hs] at h
          simp only [↓reduceIte, Option.some.injEq, Prod.mk.injEq] at h
          obtain ⟨⟨rfl, rfl⟩, rfl⟩ := h
          refine ⟨_, .extra, Or.inr ⟨rfl, rfl⟩, ⟨?_, ?_, ?_, ?_, ?_, ?_, ?_⟩,
            ⟨?_, ?_, (fun hc => by cases hc), fun _ => ⟨?_, hd, ?_, ?_⟩⟩, by rw [hfl']⟩
          · show c.ph (it.left.point + c.m') - c.ph s - (it.leftError + 2 * c.d - 2 * c.D) = _
            rw [ph_add, t1, t2]; rw [t1] at hph; linarith
          · show 2 * (c.dt (it.left.point + c.m') - c.dt s) = sg c * (it.left.error - 2 * c.D)
            rw [dt_add, t4, hsg]; linarith
          · show -c.D < it.leftError + 2 * c.d - 2 * c.D; omega
          · show it.leftError + 2 * c.d - 2 * c.D ≤ c.D; omega
          · show -c.D < it.left.error - 2 * c.D; omega
          · show it.left.error - 2 * c.D ≤ c.D + 2 * c.d; omega
          · intro h0; omega
          · show c.ph it.left.point - c.ph s - (it.leftError + 2 * c.d - 2 * c.D) = _
            rw [t1] at hph ⊢; linarith
          · show -c.D < it.leftError + 2 * c.d - 2 * c.D; omega
          · show it.leftError + 2 * c.d - 2 * c.D ≤ 2 * c.d - c.D; omega
          · show c.D ≤ 2 * (c.dt it.left.point - c.dt s); linarith
          · show 2 * (c.dt it.left.point - c.dt s) ≤ c.D + 2 * c.d; linarith
        · omega
    · -- a normal perpendicular point
      rw [npf_left_normal fuel it hE] at h
      simp only [hMaj, hEMaj, Option.some.injEq, Prod.mk.injEq] at h
      obtain ⟨⟨rfl, rfl⟩, rfl⟩ := h
      rw [hthr] at hE
      have hdtM : c.dt c.M' = sg c * c.d := by
        rcases hfr with ⟨h0, _, t3⟩ | ⟨_, hmir, _, _, _, t3, _⟩ | ⟨_, hmir, _, _, _, t3, _⟩ |
            ⟨_, hDd, hmir, _, _, _, t3, _⟩ | ⟨_, hDd, hmir, _, _, _, t3, _⟩
        · rw [t3, h0]; simp
        · rw [t3]; simp [sg, hmir]
        · rw [t3]; simp [sg, hmir]
        · rw [t3, hDd]; simp [sg, hmir]
        · rw [t3, hDd]; simp [sg, hmir]
      have hsgc : sg c = 1 ∨ sg c = -1 := by unfold sg; split <;> simp
      refine ⟨_, .normal, Or.inl ⟨rfl, rfl⟩, ⟨?_, ?_, el1, el2, ?_, ?_, ?_⟩,
        ⟨hph, el1, fun _ => ⟨el2, ?_, ?_⟩, fun hc => by cases hc⟩, rfl⟩
      · show c.ph (it.left.point + c.M') - c.ph s - it.leftError = _
        rw [ph_add]; linarith
      · show 2 * (c.dt (it.left.point + c.M') - c.dt s) = sg c * (it.left.error + 2 * c.d)
        rw [dt_add, hdtM]; linarith
      · show -c.D < it.left.error + 2 * c.d; omega
      · show it.left.error + 2 * c.d ≤ c.D + 2 * c.d; omega
      · intro h0; show it.left.error + 2 * c.d = 0; have := hz h0; omega
      · show -c.D ≤ 2 * (c.dt it.left.point - c.dt s)
        rcases hsgc with h1 | h1 <;> rw [h1] at hdt <;> omega
      · show 2 * (c.dt it.left.point - c.dt s) ≤ c.D
        rcases hsgc with h1 | h1 <;> rw [h1] at hdt <;> omega

/-! ### The right side (the first right parallel is the centre line, band 0) -/

structure RNum (c : StrokeCtx) (s : Pt) (it : ParallelsIterator) (j : Int) : Prop where
  hph : c.ph it.right.point - c.ph s - it.rightError = -(c.ph c.M' * j)
  hdt : 2 * (c.dt it.right.point - c.dt s) = sg c * it.right.error
  er1 : -c.D < it.rightError
  er2 : it.rightError ≤ c.D
  ew1 : -c.D - 2 * c.d < it.right.error
  ew2 : it.right.error ≤ c.D
  d0 : c.d = 0 → it.right.error = 0

def ROut (c : StrokeCtx) (s : Pt) (it it' : ParallelsIterator) (j : Int) (pt : BresenhamPoint)
    (e : Int) : Prop :=
  ∃ P ty, ((pt = .normal P ∧ ty = .normal) ∨ (pt = .extra P ∧ ty = .extra)) ∧
    RNum c s it' (j + 1) ∧ ParOK c s (-(c.ph c.M' * j)) ⟨P, e⟩ ty ∧
    it' = { it with right := it'.right, rightError := it'.rightError }

theorem nextParallel_right_geo (c : StrokeCtx) (hv : c.Valid) (fl : Bool) (hfr : c.FrameOK fl) (s : Pt) :
    ∀ (fuel : Nat) (it : ParallelsIterator) (j : Int),
    it.perpendicularParameters = c.perp → it.parallelParameters = c.pp → it.flip = fl →
    RNum c s it j →
    ∀ pt e it', nextParallelFuel fuel it .right = some ((pt, e), it') → ROut c s it it' j pt e
  | 0, _, _, _, _, _, _, _, _, _, h => by simp [nextParallelFuel] at h
  | fuel + 1, it, j, hperp, hpp, hflip, hn, pt, e, it', h => by
    have hD := hv.hD
    have hd0 := hv.hd0
    have hdD := hv.hdD
    obtain ⟨hph, hdt, el1, el2, ew1, ew2, hz⟩ := hn
    have hthr : it.perpendicularParameters.errorThreshold = c.D := by rw [hperp]; rfl
    have hMaj : it.perpendicularParameters.positionStep.major = c.M' := by rw [hperp]; rfl
    have hMin : it.perpendicularParameters.positionStep.minor = c.m' := by rw [hperp]; rfl
    have hEMaj : it.perpendicularParameters.errorStep.major = 2 * c.d := by rw [hperp]; rfl
    have hEMin : it.perpendicularParameters.errorStep.minor = 2 * c.D := by rw [hperp]; rfl
    have hMir : it.perpendicularParameters.mirrorExtraPoints = c.perp.mirrorExtraPoints := by rw [hperp]
    have hdecE : it.parallelParameters.decreaseError it.rightError =
        c.pp.decreaseError it.rightError := by rw [hpp]
    have hincE : it.parallelParameters.increaseError it.rightError =
        c.pp.increaseError it.rightError := by rw [hpp]
    by_cases hE : it.right.error ≤ -it.perpendicularParameters.errorThreshold
    · rw [npf_right_extra fuel it hE] at h
      simp only [hMaj, hMin, hEMin, hMir] at h
      rw [hthr] at hE
      have hd : 0 < c.d := by
        by_contra hc
        have : c.d = 0 := by omega
        have := hz this
        omega
      have skip : ∀ (e' : Int) (mu : Int) (fl2 : Bool), fl2 = it.flip → c.ph c.m' = mu →
          e' = it.rightError - mu → -c.D < e' → e' ≤ c.D →
          nextParallelFuel fuel
            { it with right := ⟨it.right.point - c.m', it.right.error + 2 * c.D⟩, rightError := e',
                      flip := fl2 } .right =
            some ((pt, e), it') → c.dt c.m' = -(sg c * c.D) → ROut c s it it' j pt e := by
        intro e' mu fl2 hfl2 hmu he' b1 b2 hrec hdtm
        subst hfl2
        have hrec' := nextParallel_right_geo c hv fl hfr s fuel
          { it with right := ⟨it.right.point - c.m', it.right.error + 2 * c.D⟩, rightError := e' } j
          hperp hpp hflip
          ⟨by show c.ph (it.right.point - c.m') - c.ph s - e' = _
              rw [ph_sub, hmu, he']; linarith,
           by show 2 * (c.dt (it.right.point - c.m') - c.dt s) = sg c * (it.right.error + 2 * c.D)
              rw [dt_sub, hdtm]; linarith,
           b1, b2, by show -c.D - 2 * c.d < it.right.error + 2 * c.D; omega,
           by show it.right.error + 2 * c.D ≤ c.D; omega,
           fun h0 => by omega⟩ pt e it' hrec
        obtain ⟨P', ty', g1, g2, g3, g4⟩ := hrec'
        exact ⟨P', ty', g1, g2, g3, by rw [g4]⟩
      rcases hfr with ⟨h0, _⟩ | ⟨_, hmir, hfl, t1, t2, t3, t4⟩ | ⟨_, hmir, hfl, t1, t2, t3, t4⟩ |
          ⟨_, hDd, hmir, hfl, t1, t2, t3, t4⟩ | ⟨_, hDd, hmir, hfl, t1, t2, t3, t4⟩
      · omega
      · -- mirrored, no flip: `decrease_error`, the extra point is the walker's point
        have hsg : sg c = -1 := by simp [sg, hmir]
        rw [hsg] at hdt
        have hfl' : it.flip = fl := hflip
        rw [hfl] at hfl'
        simp only [hmir, hfl', ↓reduceIte, Bool.false_eq_true, Bool.not_true, Bool.not_false] at h
        rcases decreaseError_spec c it.rightError with ⟨hs, hb⟩ | ⟨hs, hb⟩
        · rw [hdecE, hs] at h
          simp only [↓reduceIte, Option.some.injEq, Prod.mk.injEq] at h
          obtain ⟨⟨rfl, rfl⟩, rfl⟩ := h
          refine ⟨_, .extra, Or.inr ⟨rfl, rfl⟩, ⟨?_, ?_, ?_, ?_, ?_, ?_, ?_⟩,
            ⟨?_, ?_, (fun hc => by cases hc), fun _ => ⟨?_, hd, ?_, ?_⟩⟩, by rw [hfl']⟩
          · show c.ph (it.right.point - c.m') - c.ph s - (it.rightError - 2 * c.d + 2 * c.D) = _
            rw [ph_sub, t1, t2]; rw [t1] at hph; linarith
          · show 2 * (c.dt (it.right.point - c.m') - c.dt s) = sg c * (it.right.error + 2 * c.D)
            rw [dt_sub, t4, hsg]; linarith
          · show -c.D < it.rightError - 2 * c.d + 2 * c.D; omega
          · show it.rightError - 2 * c.d + 2 * c.D ≤ c.D; omega
          · show -c.D - 2 * c.d < it.right.error + 2 * c.D; omega
          · show it.right.error + 2 * c.D ≤ c.D; omega
          · intro h0; omega
          · show c.ph it.right.point - c.ph s - it.rightError = _
            exact hph
          · exact el1
          · show it.rightError ≤ 2 * c.d - c.D; omega
          · show c.D ≤ 2 * (c.dt it.right.point - c.dt s); linarith
          · show 2 * (c.dt it.right.point - c.dt s) ≤ c.D + 2 * c.d; linarith
        · rw [hdecE, hs] at h
          simp only [Bool.false_eq_true, ↓reduceIte] at h
          exact skip _ (2 * c.d) _ hfl'.symm t2 rfl hb (by omega) h (by rw [t4, hsg]; omega)
      · -- not mirrored, flip: `increase_error`, the extra point is shifted by `M' - m'`
        have hsg : sg c = 1 := by simp [sg, hmir]
        rw [hsg] at hdt
        have hfl' : it.flip = fl := hflip
        rw [hfl] at hfl'
        simp only [hmir, hfl', ↓reduceIte, Bool.false_eq_true, Bool.not_true, Bool.not_false] at h
        rcases increaseError_spec c it.rightError with ⟨hs, hb⟩ | ⟨hs, hb⟩
        · rw [hincE, hs] at h
          simp only [↓reduceIte, Option.some.injEq, Prod.mk.injEq] at h
          obtain ⟨⟨rfl, rfl⟩, rfl⟩ := h
          refine ⟨_, .extra, Or.inr ⟨rfl, rfl⟩, ⟨?_, ?_, ?_, ?_, ?_, ?_, ?_⟩,
            ⟨?_, ?_, (fun hc => by cases hc), fun _ => ⟨?_, hd, ?_, ?_⟩⟩, by rw [hfl']⟩
          · show c.ph (it.right.point - c.m') - c.ph s - (it.rightError + 2 * c.d - 2 * c.D) = _
            rw [ph_sub, t1, t2]; rw [t1] at hph; linarith
          · show 2 * (c.dt (it.right.point - c.m') - c.dt s) = sg c * (it.right.error + 2 * c.D)
            rw [dt_sub, t4, hsg]; linarith
          · show -c.D < it.rightError + 2 * c.d - 2 * c.D; omega
          · show it.rightError + 2 * c.d - 2 * c.D ≤ c.D; omega
          · show -c.D - 2 * c.d < it.right.error + 2 * c.D; omega
          · show it.right.error + 2 * c.D ≤ c.D; omega
          · intro h0; omega
          · show c.ph (it.right.point - c.m' + c.M') - c.ph s - (it.rightError + 2 * c.d - 2 * c.D) = _
            rw [ph_add, ph_sub, t1, t2]; rw [t1] at hph; linarith
          · show -c.D < it.rightError + 2 * c.d - 2 * c.D; omega
          · show it.rightError + 2 * c.d - 2 * c.D ≤ 2 * c.d - c.D; omega
          · show c.D ≤ 2 * (c.dt (it.right.point - c.m' + c.M') - c.dt s)
            rw [dt_add, dt_sub, t3, t4]; linarith
          · show 2 * (c.dt (it.right.point - c.m' + c.M') - c.dt s) ≤ c.D + 2 * c.d
            rw [dt_add, dt_sub, t3, t4]; linarith
        · rw [hincE, hs] at h
          simp only [Bool.false_eq_true, ↓reduceIte] at h
          exact skip _ (-(2 * c.d)) _ hfl'.symm t2 (by omega) (by omega) hb h (by rw [t4, hsg]; omega)
      · -- diagonal, mirrored, no flip: `decrease_error` always wraps
        have hsg : sg c = -1 := by simp [sg, hmir]
        rw [hsg] at hdt
        have hfl' : it.flip = fl := hflip
        rw [hfl] at hfl'
        simp only [hmir, hfl', ↓reduceIte, Bool.false_eq_true, Bool.not_true, Bool.not_false] at h
        rcases decreaseError_spec c it.rightError with ⟨hs, hb⟩ | ⟨hs, hb⟩
        · rw [hdecE, hs] at h
          simp only [↓reduceIte, Option.some.injEq, Prod.mk.injEq] at h
          obtain ⟨⟨rfl, rfl⟩, rfl⟩ := h
          refine ⟨_, .extra, Or.inr ⟨rfl, rfl⟩, ⟨?_, ?_, ?_, ?_, ?_, ?_, ?_⟩,
            ⟨?_, ?_, (fun hc => by cases hc), fun _ => ⟨?_, hd, ?_, ?_⟩⟩, by rw [hfl']⟩
          · show c.ph (it.right.point - c.m') - c.ph s - (it.rightError - 2 * c.d + 2 * c.D) = _
            rw [ph_sub, t1, t2]; rw [t1] at hph; linarith
          · show 2 * (c.dt (it.right.point - c.m') - c.dt s) = sg c * (it.right.error + 2 * c.D)
            rw [dt_sub, t4, hsg]; linarith
          · show -c.D < it.rightError - 2 * c.d + 2 * c.D; omega
          · show it.rightError - 2 * c.d + 2 * c.D ≤ c.D; omega
          · show -c.D - 2 * c.d < it.right.error + 2 * c.D; omega
          · show it.right.error + 2 * c.D ≤ c.D; omega
          · intro h0; omega
          · show c.ph it.right.point - c.ph s - it.rightError = _
            exact hph
          · exact el1
          · show it.rightError ≤ 2 * c.d - c.D; omega
          · show c.D ≤ 2 * (c.dt it.right.point - c.dt s); linarith
          · show 2 * (c.dt it.right.point - c.dt s) ≤ c.D + 2 * c.d; linarith
        · omega
      · -- diagonal, not mirrored, no flip: `decrease_error` always wraps, shifted extra point
        have hsg : sg c = 1 := by simp [sg, hmir]
        rw [hsg] at hdt
        have hfl' : it.flip = fl := hflip
        rw [hfl] at hfl'
        simp only [hmir, hfl', ↓reduceIte, Bool.false_eq_true, Bool.not_true, Bool.not_false] at h
        rcases decreaseError_spec c it.rightError with ⟨hs, hb⟩ | ⟨hs, hb⟩
        · rw [hdecE, hs] at h
          simp only [↓reduceIte, Option.some.injEq, Prod.mk.injEq] at h
          obtain ⟨⟨rfl, rfl⟩, rfl⟩ := h
          refine ⟨_, .extra, Or.inr ⟨rfl, rfl⟩, ⟨?_, ?_, ?_, ?_, ?_, ?_, ?_⟩,
            ⟨?_, ?_, (fun hc => by cases hc), fun _ => ⟨?_, hd, ?_, ?_⟩⟩, by rw [hfl']⟩
          · show c.ph (it.right.point - c.m') - c.ph s - (it.rightError - 2 * c.d + 2 * c.D) = _
            rw [ph_sub, t1, t2]; rw [t1] at hph; linarith
          · show 2 * (c.dt (it.right.point - c.m') - c.dt s) = sg c * (it.right.error + 2 * c.D)
            rw [dt_sub, t4, hsg]; linarith
          · show -c.D < it.rightError - 2 * c.d + 2 * c.D; omega
          · show it.rightError - 2 * c.d + 2 * c.D ≤ c.D; omega
          · show -c.D - 2 * c.d < it.right.error + 2 * c.D; omega
          · show it.right.error + 2 * c.D ≤ c.D; omega
          · intro h0; omega
          · show c.ph (it.right.point - c.m' + c.M') - c.ph s - it.rightError = _
            rw [ph_add, ph_sub, t1, t2]; rw [t1] at hph; linarith
          · exact el1
          · show it.rightError ≤ 2 * c.d - c.D; omega
          · show c.D ≤ 2 * (c.dt (it.right.point - c.m' + c.M') - c.dt s)
            rw [dt_add, dt_sub, t3, t4]; linarith
          · show 2 * (c.dt (it.right.point - c.m' + c.M') - c.dt s) ≤ c.D + 2 * c.d
            rw [dt_add, dt_sub, t3, t4]; linarith
        · omega
    · -- a normal perpendicular point
      rw [npf_right_normal fuel it hE] at h
      simp only [hMaj, hEMaj, Option.some.injEq, Prod.mk.injEq] at h
      obtain ⟨⟨rfl, rfl⟩, rfl⟩ := h
      rw [hthr] at hE
      have hdtM : c.dt c.M' = sg c * c.d := by
        rcases hfr with ⟨h0, _, t3⟩ | ⟨_, hmir, _, _, _, t3, _⟩ | ⟨_, hmir, _, _, _, t3, _⟩ |
            ⟨_, hDd, hmir, _, _, _, t3, _⟩ | ⟨_, hDd, hmir, _, _, _, t3, _⟩
        · rw [t3, h0]; simp
        · rw [t3]; simp [sg, hmir]
        · rw [t3]; simp [sg, hmir]
        · rw [t3, hDd]; simp [sg, hmir]
        · rw [t3, hDd]; simp [sg, hmir]
      have hsgc : sg c = 1 ∨ sg c = -1 := by unfold sg; split <;> simp
      refine ⟨_, .normal, Or.inl ⟨rfl, rfl⟩, ⟨?_, ?_, el1, el2, ?_, ?_, ?_⟩,
        ⟨hph, el1, fun _ => ⟨el2, ?_, ?_⟩, fun hc => by cases hc⟩, rfl⟩
      · show c.ph (it.right.point - c.M') - c.ph s - it.rightError = _
        rw [ph_sub]; linarith
      · show 2 * (c.dt (it.right.point - c.M') - c.dt s) = sg c * (it.right.error - 2 * c.d)
        rw [dt_sub, hdtM]; linarith
      · show -c.D - 2 * c.d < it.right.error - 2 * c.d; omega
      · show it.right.error - 2 * c.d ≤ c.D; omega
      · intro h0; show it.right.error - 2 * c.d = 0; have := hz h0; omega
      · show -c.D ≤ 2 * (c.dt it.right.point - c.dt s)
        rcases hsgc with h1 | h1 <;> rw [h1] at hdt <;> omega
      · show 2 * (c.dt it.right.point - c.dt s) ≤ c.D
        rcases hsgc with h1 | h1 <;> rw [h1] at hdt <;> omega

end Thick
end EG
