/-
  EG.Lemmas.TriangleNear — "every covered point is inside the triangle or within one pixel of an
  edge". Metric (the oracle's, harness/src/m_tri.rs): Euclidean distance to the edge SEGMENT at
  most 1, in exact integer form (`NearSegment`).
  A Bresenham pixel is within half a pixel of its segment (`pixel_near_segment`); a covered point of
  a non-degenerate triangle passes `contains()` (EG.Lemmas.TriangleExact), i.e. is in the closed
  triangle or an edge pixel; a degenerate triangle yields exactly the pixels of its line `p1 p3`.
-/
import EG.Lemmas.TriangleExact
namespace EG
namespace Triangle
open Line

/-- The Euclidean distance from `p` to the segment `a b` is at most 1: with `s = (p-a)·(b-a)` and
`L = |b-a|²`, `s ≤ 0`: `|p-a|² ≤ 1`; `s ≥ L`: `|p-b|² ≤ 1`; otherwise `((b-a)×(p-a))² ≤ L`. -/
def NearSegment (a b p : Pt) : Prop :=
  let l := (b.x - a.x) * (b.x - a.x) + (b.y - a.y) * (b.y - a.y)
  let s := (p.x - a.x) * (b.x - a.x) + (p.y - a.y) * (b.y - a.y)
  if s ≤ 0 then (p.x - a.x) * (p.x - a.x) + (p.y - a.y) * (p.y - a.y) ≤ 1
  else if s ≥ l then (p.x - b.x) * (p.x - b.x) + (p.y - b.y) * (p.y - b.y) ≤ 1
  else edgeFn a b p * edgeFn a b p ≤ l

/-- The distance to a segment does not depend on its direction. -/
theorem nearSegment_symm {a b p : Pt} (h : NearSegment a b p) : NearSegment b a p := by
  unfold NearSegment at h ⊢
  dsimp only at h ⊢
  have el : (a.x - b.x) * (a.x - b.x) + (a.y - b.y) * (a.y - b.y) =
      (b.x - a.x) * (b.x - a.x) + (b.y - a.y) * (b.y - a.y) := by ring
  have es : (p.x - b.x) * (a.x - b.x) + (p.y - b.y) * (a.y - b.y) =
      ((b.x - a.x) * (b.x - a.x) + (b.y - a.y) * (b.y - a.y)) -
      ((p.x - a.x) * (b.x - a.x) + (p.y - a.y) * (b.y - a.y)) := by ring
  have ec : edgeFn b a p * edgeFn b a p = edgeFn a b p * edgeFn a b p := by
    rw [edgeFn_swap]; ring
  rw [el, es, ec]
  have hl : (b.x - a.x) * (b.x - a.x) + (b.y - a.y) * (b.y - a.y) = 0 → a = b := by
    intro h0
    rw [Pt.ext_iff']
    constructor
    · nlinarith [mul_self_nonneg (b.x - a.x), mul_self_nonneg (b.y - a.y)]
    · nlinarith [mul_self_nonneg (b.x - a.x), mul_self_nonneg (b.y - a.y)]
  generalize hL : (b.x - a.x) * (b.x - a.x) + (b.y - a.y) * (b.y - a.y) = L at *
  generalize hS : (p.x - a.x) * (b.x - a.x) + (p.y - a.y) * (b.y - a.y) = s at *
  by_cases c1 : s ≤ 0
  · simp only [c1, ↓reduceIte] at h
    by_cases c2 : L - s ≤ 0
    · -- `L ≤ s ≤ 0`: the segment is a point
      have hL0 : L = 0 := by
        have : 0 ≤ L := by rw [← hL]; nlinarith [mul_self_nonneg (b.x - a.x), mul_self_nonneg (b.y - a.y)]
        omega
      have := hl hL0
      subst this
      simp only [c2, ↓reduceIte]; exact h
    · have c3 : L - s ≥ L := by omega
      simp only [c2, c3, ↓reduceIte]; exact h
  · simp only [c1, ↓reduceIte] at h
    by_cases c2 : s ≥ L
    · have c3 : L - s ≤ 0 := by omega
      simp only [c2, ↓reduceIte] at h
      simp only [c3, ↓reduceIte]; exact h
    · have c3 : ¬ L - s ≤ 0 := by omega
      have c4 : ¬ L - s ≥ L := by omega
      simp only [c2, ↓reduceIte] at h
      simp only [c3, c4, ↓reduceIte]; exact h

/-- A Bresenham pixel is within (half) a pixel of its segment. -/
theorem pixel_near_segment (l : Line) {q : Pt} (hq : q ∈ Line.points l) :
    NearSegment l.start l.stop q := by
  obtain ⟨k, hk, rfl⟩ := Line.mem_points.mp hq
  obtain ⟨bx1, bx2, by1, by2⟩ := ptAt_in_box l k hk
  obtain ⟨c1, c2⟩ := ptAt_cross l k hk
  have hd : dmaj l * dmaj l ≤ (l.stop.x - l.start.x) * (l.stop.x - l.start.x) +
      (l.stop.y - l.start.y) * (l.stop.y - l.start.y) := by
    unfold dmaj
    split
    · unfold aabs dyOf; split <;> nlinarith [mul_self_nonneg (l.stop.x - l.start.x)]
    · unfold aabs dxOf; split <;> nlinarith [mul_self_nonneg (l.stop.y - l.start.y)]
  have hdn := dmaj_nonneg l
  unfold dxOf dyOf at c1 c2
  unfold NearSegment edgeFn
  dsimp only
  generalize (ptAt l k).x = qx at *
  generalize (ptAt l k).y = qy at *
  -- both products of the dot product are non-negative, and so are those of `L - s`
  have px : 0 ≤ (qx - l.start.x) * (l.stop.x - l.start.x) := by
    by_cases hx : l.start.x ≤ l.stop.x
    · exact mul_nonneg (by omega) (by omega)
    · exact mul_nonneg_of_nonpos_of_nonpos (by omega) (by omega)
  have py : 0 ≤ (qy - l.start.y) * (l.stop.y - l.start.y) := by
    by_cases hy : l.start.y ≤ l.stop.y
    · exact mul_nonneg (by omega) (by omega)
    · exact mul_nonneg_of_nonpos_of_nonpos (by omega) (by omega)
  have rx : 0 ≤ (l.stop.x - qx) * (l.stop.x - l.start.x) := by
    by_cases hx : l.start.x ≤ l.stop.x
    · exact mul_nonneg (by omega) (by omega)
    · exact mul_nonneg_of_nonpos_of_nonpos (by omega) (by omega)
  have ry : 0 ≤ (l.stop.y - qy) * (l.stop.y - l.start.y) := by
    by_cases hy : l.start.y ≤ l.stop.y
    · exact mul_nonneg (by omega) (by omega)
    · exact mul_nonneg_of_nonpos_of_nonpos (by omega) (by omega)
  split
  · -- `s ≤ 0`: the pixel is the start point
    rename_i hs
    have ex : (qx - l.start.x) * (l.stop.x - l.start.x) = 0 := by omega
    have ey : (qy - l.start.y) * (l.stop.y - l.start.y) = 0 := by omega
    have hx : qx = l.start.x := by
      rcases Int.mul_eq_zero.mp ex with e | e <;> omega
    have hy : qy = l.start.y := by
      rcases Int.mul_eq_zero.mp ey with e | e <;> omega
    rw [hx, hy]; simp
  · split
    · -- `s ≥ L`: the pixel is the end point
      rename_i hs hs2
      have e : (l.stop.x - l.start.x) * (l.stop.x - l.start.x) +
          (l.stop.y - l.start.y) * (l.stop.y - l.start.y) -
          ((qx - l.start.x) * (l.stop.x - l.start.x) + (qy - l.start.y) * (l.stop.y - l.start.y)) =
          (l.stop.x - qx) * (l.stop.x - l.start.x) + (l.stop.y - qy) * (l.stop.y - l.start.y) := by
        ring
      have ex : (l.stop.x - qx) * (l.stop.x - l.start.x) = 0 := by omega
      have ey : (l.stop.y - qy) * (l.stop.y - l.start.y) = 0 := by omega
      have hx : qx = l.stop.x := by
        rcases Int.mul_eq_zero.mp ex with e | e <;> omega
      have hy : qy = l.stop.y := by
        rcases Int.mul_eq_zero.mp ey with e | e <;> omega
      rw [hx, hy]; simp
    · -- in between: half a pixel from the ideal line
      generalize (l.stop.x - l.start.x) * (qy - l.start.y) - (l.stop.y - l.start.y) * (qx - l.start.x)
        = c at *
      nlinarith [mul_nonneg (show 0 ≤ dmaj l - 2 * c by omega) (show 0 ≤ dmaj l + 2 * c by omega),
        mul_self_nonneg c]


/-- The three lines between the sorted vertices are the three edges of the triangle. -/
theorem near_edge_of_orders {t s : Triangle} (h : s ∈ orders t) (p : Pt)
    (hn : NearSegment s.v1 s.v2 p ∨ NearSegment s.v1 s.v3 p ∨ NearSegment s.v2 s.v3 p) :
    NearSegment t.v1 t.v2 p ∨ NearSegment t.v2 t.v3 p ∨ NearSegment t.v3 t.v1 p := by
  obtain ⟨a, b, c⟩ := t
  rcases mem_orders.mp h with rfl | rfl | rfl | rfl | rfl | rfl <;> dsimp only at hn ⊢ <;>
    rcases hn with hn | hn | hn <;>
    first
    | exact Or.inl hn
    | exact Or.inl (nearSegment_symm hn)
    | exact Or.inr (Or.inl hn)
    | exact Or.inr (Or.inl (nearSegment_symm hn))
    | exact Or.inr (Or.inr hn)
    | exact Or.inr (Or.inr (nearSegment_symm hn))

theorem usedLines_subset (t : Triangle) : ∀ l ∈ usedLines t,
    l = ⟨t.sortedYx.v1, t.sortedYx.v2⟩ ∨ l = ⟨t.sortedYx.v1, t.sortedYx.v3⟩ ∨
    l = ⟨t.sortedYx.v2, t.sortedYx.v3⟩ := by
  intro l hl
  unfold usedLines edgeLines at hl
  split at hl
  · simp only [List.mem_cons, List.mem_nil_iff, or_false] at hl
    exact Or.inr (Or.inl hl)
  · simpa using hl

/-- A covered point is in the closed triangle or a pixel of one of the edge lines in use. -/
theorem closedIn_or_edge_pixel (t : Triangle) (h : t.boundingBox.InRange) (p : Pt)
    (hp : p ∈ t.points) :
    (t.areaDoubled ≠ 0 ∧ ClosedIn t p) ∨ ∃ l ∈ usedLines t, p ∈ Line.points l := by
  by_cases ha : t.areaDoubled = 0
  · right
    have hu : usedLines t = [⟨t.sortedYx.v1, t.sortedYx.v3⟩] := by unfold usedLines; simp [ha]
    obtain ⟨q1, q2, hq1, hq2, hx1, hx2⟩ := (mem_points_iff_between t h p).mp hp
    obtain ⟨l1, hl1, hq1, hy1⟩ := mem_rowPix.mp hq1
    obtain ⟨l2, hl2, hq2, hy2⟩ := mem_rowPix.mp hq2
    have hd := usedLines_downward t _ hl1
    rw [hu] at hl1 hl2
    simp only [List.mem_cons, List.mem_nil_iff, or_false] at hl1 hl2
    subst hl1 hl2
    refine ⟨⟨t.sortedYx.v1, t.sortedYx.v3⟩, by rw [hu]; simp, ?_⟩
    have := row_contiguous hd hq1 hq2 (by omega) hx1 hx2
    rw [hy1, pt_eta] at this
    exact this
  · by_cases he : p ∈ t.edgePoints
    · right
      unfold edgePoints at he
      obtain ⟨l, hl, hpl⟩ := List.mem_flatMap.mp he
      exact ⟨l, by rw [usedLines_of_nonzero ha]; exact hl, hpl⟩
    · exact Or.inl ⟨ha, closedIn_of_mem_points t h ha p hp he⟩

/-- **Every covered point is inside the closed triangle or within one pixel (Euclidean distance to
the edge segment at most 1; in fact at most 1/2) of an edge** — for every triangle, degenerate ones
included, whose bounding box is within the `i32` range. -/
theorem covered_within_one_pixel (t : Triangle) (h : t.boundingBox.InRange) (p : Pt)
    (hp : p ∈ t.points) :
    (t.areaDoubled ≠ 0 ∧ ClosedIn t p) ∨
      NearSegment t.v1 t.v2 p ∨ NearSegment t.v2 t.v3 p ∨ NearSegment t.v3 t.v1 p := by
  rcases closedIn_or_edge_pixel t h p hp with hc | ⟨l, hl, hpl⟩
  · exact Or.inl hc
  · right
    apply near_edge_of_orders (sortedYx_mem_orders t) p
    have hn := pixel_near_segment l hpl
    rcases usedLines_subset t l hl with rfl | rfl | rfl
    · exact Or.inl hn
    · exact Or.inr (Or.inl hn)
    · exact Or.inr (Or.inr hn)

end Triangle
end EG
