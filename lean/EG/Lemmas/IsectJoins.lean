/-
  EG.Lemmas.IsectJoins — the two plain models of the join kernels are the same functions.

  `EG.Isect` (Model/CheckedLine.lean) is the plain (unbounded) form against which the CHECKED
  kernels `Chk.Isect.*` of C08 are stated. `EG.Joins` (Model/LinearEquation.lean,
  Model/Intersection.lean, Model/LineJoin.lean) is the plain model the geometric theorems of
  C02 / C07 / C17 / C19 and the driver `Driver/Thick.lean` are about. They were written
  independently from the same source (src/primitives/common/linear_equation.rs,
  line/intersection_params.rs, common/line_join.rs). This file proves, for every function both
  define, that they agree for ALL inputs (no range hypothesis), so "checked = plain" of C08 is a
  statement about the model the other properties use.

  Shape differences bridged here:
    * `Isect.LinearEquation` has fields `normal`, `originDistance`; `Joins.LinearEquation` has
      `normalVector`, `originDistance` (`toJoins`);
    * `Isect.intersection` takes the two equations and the denominator and returns
      `Option (Pt × Bool)` (`none` = colinear, `true` = outer side left); `Joins` bundles them in
      `IntersectionParams` and returns `Intersection` (`isectResult`);
    * `Isect.roundDiv sign den num` receives `sign = signum d` and `den = |d|`;
      `Joins.roundDiv n d` computes both itself;
    * `Isect.miterWithinLimit` is the comparison `Joins.LineJoin.fromExtents` performs inline.
-/
import EG.Model.CheckedLine
import EG.Model.LineJoin
namespace EG.IsectJoins
open EG

/-- An `Isect.LinearEquation` as a `Joins.LinearEquation`. -/
def toJoins (le : Isect.LinearEquation) : Joins.LinearEquation := ⟨le.normal, le.originDistance⟩

/-- An `Isect.intersection` result as a `Joins.Intersection`. -/
def isectResult : Option (Pt × Bool) → Joins.Intersection
  | none => .colinear
  | some (p, left) => .point p (if left then .left else .right)

theorem rotate90_eq (p : Pt) : Isect.rotate90 p = Joins.rotate90 p := rfl
theorem dot_eq (a b : Pt) : Isect.dot a b = Joins.dot a b := rfl
theorem det_eq (a b : Pt) : Isect.det a b = Joins.det a b := rfl

theorem fromLine_eq (l : Line) : toJoins (Isect.fromLine l) = Joins.LinearEquation.fromLine l := rfl

theorem fromLine_normal (l : Line) :
    (Isect.fromLine l).normal = (Joins.LinearEquation.fromLine l).normalVector := rfl

theorem fromLine_originDistance (l : Line) :
    (Isect.fromLine l).originDistance = (Joins.LinearEquation.fromLine l).originDistance := rfl

theorem distance_eq (le : Isect.LinearEquation) (p : Pt) :
    Isect.distance le p = (toJoins le).distance p := rfl

theorem denominator_eq (l1 l2 : Line) :
    Isect.denominator l1 l2 = (Joins.IntersectionParams.fromLines l1 l2).denominator := rfl

theorem signum_eq (a : Int) : Isect.signum a = Joins.isignum a := by
  unfold Isect.signum Joins.isignum
  split <;> split <;> (try split) <;> omega

theorem satI32_eq (a : Int) : Isect.satI32 a = Joins.satI32 a := rfl

theorem iabs_eq (a : Int) : (if a < 0 then -a else a) = Joins.iabs a := rfl

/-- The rounding closure: `Isect` is handed the sign and the absolute value, `Joins` derives them. -/
theorem roundDiv_eq (n d : Int) :
    Isect.roundDiv (Isect.signum d) (if d < 0 then -d else d) n = Joins.roundDiv n d := by
  unfold Isect.roundDiv Joins.roundDiv
  simp only [signum_eq, iabs_eq, satI32_eq]

theorem nearlyColinearHasError_eq (l1 l2 : Line) :
    Isect.nearlyColinearHasError l1 l2 =
      (Joins.IntersectionParams.fromLines l1 l2).nearlyColinearHasError := rfl

/-- `IntersectionParams::intersection`: the `Isect` form applied to the equations and the
denominator of `from_lines` is the `Joins` form. -/
theorem intersection_eq (l1 l2 : Line) :
    isectResult (Isect.intersection (Isect.fromLine l1) (Isect.fromLine l2) (Isect.denominator l1 l2)) =
      (Joins.IntersectionParams.fromLines l1 l2).intersection := by
  unfold Isect.intersection Joins.IntersectionParams.intersection
  rw [← denominator_eq]
  by_cases hd : Isect.denominator l1 l2 = 0
  · simp only [hd, ↓reduceIte, isectResult]
  · simp only [hd, ↓reduceIte, isectResult, roundDiv_eq]
    have hx : (Isect.fromLine l1).originDistance * (Isect.fromLine l2).normal.y -
        (Isect.fromLine l2).originDistance * (Isect.fromLine l1).normal.y =
        (Joins.IntersectionParams.fromLines l1 l2).xNumerator := rfl
    have hy : (Isect.fromLine l1).normal.x * (Isect.fromLine l2).originDistance -
        (Isect.fromLine l2).normal.x * (Isect.fromLine l1).originDistance =
        (Joins.IntersectionParams.fromLines l1 l2).yNumerator := rfl
    rw [hx, hy]
    by_cases hneg : Isect.denominator l1 l2 < 0
    · simp only [hneg, decide_true, ↓reduceIte]
    · simp only [hneg, decide_false, Bool.false_eq_true, ↓reduceIte]

/-- The miter test of `LineJoin::from_points`: `Isect.miterWithinLimit` is the comparison
`Joins.LineJoin.fromExtents` makes (`miterLengthSquared ≤ miterLimit`). -/
theorem miterWithinLimit_eq (mid outerPoint : Pt) (width : Nat) :
    Isect.miterWithinLimit (Line.delta ⟨mid, outerPoint⟩) width =
      decide ((Line.delta ⟨mid, outerPoint⟩).lengthSquared ≤ (((width * 2) * (width * 2) : Nat) : Int)) := rfl

end EG.IsectJoins
