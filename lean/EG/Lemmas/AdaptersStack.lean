/-
  EG.Lemmas.AdaptersStack — any nesting of adapters behaves as the composition of the adapters'
  transformations (induction over the stack, no depth bound), per call and for whole histories.
-/
import EG.Lemmas.AdaptersExact
namespace EG

/-- The composed transformation of a stack over a root with box `B`: accumulated clip region (in
root coordinates), total shift, composed colour map. -/
def stackXf (B : Rect) : Stack → Xf
  | [] => Xf.id
  | a :: rest => (a.xf B).comp (stackXf (a.bbox B) rest)

/-- Range guard: at every level of the stack the call that level receives satisfies `Call.Ok`
for the box of that level (no `i32`/`u32` saturation on the way down). -/
def stackOk (B : Rect) : Stack → Call → Prop
  | [], c => c.Ok B
  | a :: rest, c => stackOk (a.bbox B) rest c ∧ (lowerStack B (a :: rest) c).Ok B

instance stackOkDec : (B : Rect) → (s : Stack) → (c : Call) → Decidable (stackOk B s c)
  | B, [], c => by unfold stackOk; exact inferInstance
  | B, a :: rest, c => by
    unfold stackOk
    have := stackOkDec (a.bbox B) rest c
    exact inferInstance

theorem stackOk_lowered (B : Rect) (s : Stack) (c : Call) (h : stackOk B s c) :
    (lowerStack B s c).Ok B := by
  cases s with
  | nil => exact h
  | cons a rest => exact h.2

/-- **Stack exactness, per call.** -/
theorem stack_sem (B : Rect) (s : Stack) (c : Call) (h : stackOk B s c) (q : Pt) :
    (lowerStack B s c).sem B q = (stackXf B s).act (c.sem (stackBox B s)) q := by
  induction s generalizing B q with
  | nil => simp only [lowerStack, stackXf, stackBox, Xf.act_id]
  | cons a rest ih =>
    simp only [lowerStack, stackXf, stackBox]
    rw [Adapter.lower_sem a B _ (stackOk_lowered _ _ _ h.1) h.2, Xf.act_comp]
    have : (lowerStack (a.bbox B) rest c).sem (a.bbox B)
        = (stackXf (a.bbox B) rest).act (c.sem (stackBox (a.bbox B) rest)) := by
      funext q'; exact ih (a.bbox B) h.1 q'
    rw [this]

/-- The meaning of a whole history issued directly (documented meaning, unclipped) on a target
that reports box `T`: the colour last written to `p`. -/
def runDirect (T : Rect) (calls : List Call) (p : Pt) : Option Color :=
  lastWrite (calls.flatMap (Call.lowerNative T)) p

/-- **Stack exactness for histories** (root with native fills): after any sequence of calls issued
on the top of any nesting, the root's pixel map is, inside the root box, the composed
transformation of the direct meaning of the history, and empty elsewhere. -/
theorem stack_run_native (B : Rect) (s : Stack) (calls : List Call) (h : ∀ c ∈ calls, stackOk B s c)
    (q : Pt) :
    runStackNative B s calls q =
      if B.contains q = true then (stackXf B s).act (runDirect (stackBox B s) calls) q else none := by
  unfold runStackNative runNative
  rw [PMap.empty_apply, List.flatMap_map]
  unfold runDirect Xf.act
  by_cases hB : B.contains q = true
  · rw [if_pos hB]
    by_cases hG : (stackXf B s).G q = true
    · rw [if_pos hG]
      apply lastWrite_flatMap_congr (T := fun o => o.map (stackXf B s).f)
      · intro x y; cases x <;> simp
      · rfl
      · intro c hc
        show lastWrite (Call.writesNative B (lowerStack B s c)) q = _
        unfold Call.writesNative
        rw [lastWrite_clipWrites, if_pos hB]
        have := stack_sem B s c (h c hc) q
        unfold Call.sem Xf.act at this
        rw [this, if_pos hG]
    · rw [if_neg hG]
      have := lastWrite_flatMap_congr calls (fun c => Call.writesNative B (lowerStack B s c))
        (fun c => Call.lowerNative (stackBox B s) c) (fun _ => none) (by intro x y; rfl) rfl q q
        (by
          intro c hc
          unfold Call.writesNative
          rw [lastWrite_clipWrites, if_pos hB]
          have := stack_sem B s c (h c hc) q
          unfold Call.sem Xf.act at this
          rw [this, if_neg hG])
      exact this
  · rw [if_neg hB]
    have := lastWrite_flatMap_congr calls (fun c => Call.writesNative B (lowerStack B s c))
      (fun c => Call.lowerNative (stackBox B s) c) (fun _ => none) (by intro x y; rfl) rfl q q
      (by
        intro c _
        unfold Call.writesNative
        rw [lastWrite_clipWrites, if_neg hB])
    exact this

/-- The same for a root that only implements `draw_iter`. -/
theorem stack_run_default (B : Rect) (s : Stack) (calls : List Call) (h : ∀ c ∈ calls, stackOk B s c)
    (q : Pt) :
    runStackDefault B s calls q =
      if B.contains q = true then (stackXf B s).act (runDirect (stackBox B s) calls) q else none := by
  unfold runStackDefault
  rw [runDefault_eq_runNative]
  exact stack_run_native B s calls h q

/-- A point is touched by a write list iff some write names it. -/
theorem lastWrite_eq_none_iff (ws : Writes) (p : Pt) : lastWrite ws p = none ↔ ∀ w ∈ ws, w.1 ≠ p := by
  induction ws with
  | nil => simp [lastWrite_nil]
  | cons w ws ih =>
    rw [lastWrite_cons]
    by_cases h : w.1 = p
    · simp [h]
    · simp [h, ih]

/-- **Nothing outside the accumulated region is ever offered to the root.** -/
theorem stack_inside (B : Rect) (s : Stack) (c : Call) (h : stackOk B s c) :
    ∀ w ∈ (lowerStack B s c).lowerNative B, (stackXf B s).G w.1 = true := by
  intro w hw
  have hs := stack_sem B s c h w.1
  unfold Call.sem Xf.act at hs
  by_cases hG : (stackXf B s).G w.1 = true
  · exact hG
  · rw [if_neg hG, lastWrite_eq_none_iff] at hs
    exact absurd rfl (hs w hw)

end EG
