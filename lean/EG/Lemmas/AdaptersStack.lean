/-
  EG.Lemmas.AdaptersStack — any nesting of adapters behaves as the composition of the adapters'
  transformations (induction over the stack, no depth bound), per call and for whole histories.
-/
import EG.Lemmas.AdaptersExact
namespace EG
open Tgt

/-- The composed transformation of a stack over a root with box `B`: accumulated clip region (in
root coordinates), total shift, composed colour map. -/
def stackXf (B : Rect) : Stack → Xf
  | [] => Xf.id
  | a :: rest => (a.xf B).comp (stackXf (a.bbox B) rest)

/-- Range guard: at every level of the stack the call that level receives satisfies `Call.Ok`
for the box of that level (no `i32`/`u32` saturation on the way down). -/
def stackOk (B : Rect) : Stack → Call → Prop
  | [], c => c.Ok B
  | a :: rest, c => stackOk (a.bbox B) rest c ∧ (lowerStack B (a :: rest) c).Ok B

instance stackOkDec : (B : Rect) → (s : Stack) → (c : Call) → Decidable (stackOk B s c)
  | B, [], c => by unfold stackOk; exact inferInstance
  | B, a :: rest, c => by
    unfold stackOk
    have := stackOkDec (a.bbox B) rest c
    exact inferInstance

theorem stackOk_lowered (B : Rect) (s : Stack) (c : Call) (h : stackOk B s c) :
    (lowerStack B s c).Ok B := by
  cases s with
  | nil => exact h
  | cons a rest => exact h.2

/-- **Stack exactness, per call.** -/
theorem stack_sem (B : Rect) (s : Stack) (c : Call) (h : stackOk B s c) (q : Pt) :
    (lowerStack B s c).sem B q = (stackXf B s).act (c.sem (stackBox B s)) q := by
  induction s generalizing B q with
  | nil => simp only [lowerStack, stackXf, stackBox, Xf.act_id]
  | cons a rest ih =>
    simp only [lowerStack, stackXf, stackBox]
    rw [Adapter.lower_sem a B _ (stackOk_lowered _ _ _ h.1) h.2, Xf.act_comp]
    have : (lowerStack (a.bbox B) rest c).sem (a.bbox B)
        = (stackXf (a.bbox B) rest).act (c.sem (stackBox (a.bbox B) rest)) := by
      funext q'; exact ih (a.bbox B) h.1 q'
    rw [this]

/-- The meaning of a whole history issued directly (documented meaning, unclipped) on a target
that reports box `T`: the colour last written to `p`. -/
def runDirect (T : Rect) (calls : List Call) (p : Pt) : Option Color :=
  lastWrite (calls.flatMap (Call.lowerNative T)) p

/-- **Stack exactness for histories** (root with native fills): after any sequence of calls issued
on the top of any nesting, the root's pixel map is, inside the root box, the composed
transformation of the direct meaning of the history, and empty elsewhere. -/
theorem stack_run_native (B : Rect) (s : Stack) (calls : List Call) (h : ∀ c ∈ calls, stackOk B s c)
    (q : Pt) :
    runStackNative B s calls q =
      if B.contains q = true then (stackXf B s).act (runDirect (stackBox B s) calls) q else none := by
  unfold runStackNative runNative
  rw [PMap.empty_apply, List.flatMap_map]
  unfold runDirect Xf.act
  by_cases hB : B.contains q = true
  · rw [if_pos hB]
    by_cases hG : (stackXf B s).G q = true
    · rw [if_pos hG]
      apply lastWrite_flatMap_congr (T := fun o => o.map (stackXf B s).f)
      · intro x y; cases x <;> simp
      · rfl
      · intro c hc
        show lastWrite (Call.writesNative B (lowerStack B s c)) q = _
        unfold Call.writesNative
        rw [lastWrite_clipWrites, if_pos hB]
        have := stack_sem B s c (h c hc) q
        unfold Call.sem Xf.act at this
        rw [this, if_pos hG]
    · rw [if_neg hG]
      have := lastWrite_flatMap_congr calls (fun c => Call.writesNative B (lowerStack B s c))
        (fun c => Call.lowerNative (stackBox B s) c) (fun _ => none) (by intro x y; rfl) rfl q q
        (by
          intro c hc
          unfold Call.writesNative
          rw [lastWrite_clipWrites, if_pos hB]
          have := stack_sem B s c (h c hc) q
          unfold Call.sem Xf.act at this
          rw [this, if_neg hG])
      exact this
  · rw [if_neg hB]
    have := lastWrite_flatMap_congr calls (fun c => Call.writesNative B (lowerStack B s c))
      (fun c => Call.lowerNative (stackBox B s) c) (fun _ => none) (by intro x y; rfl) rfl q q
      (by
        intro c _
        unfold Call.writesNative
        rw [lastWrite_clipWrites, if_neg hB])
    exact this

/-- The same for a root that only implements `draw_iter`. -/
theorem stack_run_default (B : Rect) (s : Stack) (calls : List Call) (h : ∀ c ∈ calls, stackOk B s c)
    (q : Pt) :
    runStackDefault B s calls q =
      if B.contains q = true then (stackXf B s).act (runDirect (stackBox B s) calls) q else none := by
  unfold runStackDefault
  rw [runDefault_eq_runNative]
  exact stack_run_native B s calls h q

/-- A point is touched by a write list iff some write names it. -/
theorem Tgt.lastWrite_eq_none_iff (ws : Writes) (p : Pt) : lastWrite ws p = none ↔ ∀ w ∈ ws, w.1 ≠ p := by
  induction ws with
  | nil => simp [lastWrite_nil]
  | cons w ws ih =>
    rw [lastWrite_cons]
    by_cases h : w.1 = p
    · simp [h]
    · simp [h, ih]

/-- **Nothing outside the accumulated region is ever offered to the root.** -/
theorem stack_inside (B : Rect) (s : Stack) (c : Call) (h : stackOk B s c) :
    ∀ w ∈ (lowerStack B s c).lowerNative B, (stackXf B s).G w.1 = true := by
  intro w hw
  have hs := stack_sem B s c h w.1
  unfold Call.sem Xf.act at hs
  by_cases hG : (stackXf B s).G w.1 = true
  · exact hG
  · rw [if_neg hG, lastWrite_eq_none_iff] at hs
    exact absurd rfl (hs w hw)

end EG

namespace EG
open Tgt

/-- The meaning of a call depends on the target's box only through `clear`, and there only
through membership of the point. -/
theorem Call.sem_box_irrelevant (T T' : Rect) (c : Call) (q : Pt) (hT : T.Ok) (hT' : T'.Ok)
    (h : T.contains q = T'.contains q) : c.sem T q = c.sem T' q := by
  cases c with
  | clear col => rw [Call.sem_clear _ hT, Call.sem_clear _ hT', h]
  | _ => rfl

/-- `runNative` point-wise: inside the box the direct meaning of the history, nothing outside. -/
theorem runNative_eq_runDirect (B : Rect) (calls : List Call) (q : Pt) :
    runNative B calls q = if B.contains q = true then runDirect B calls q else none := by
  unfold runNative runDirect
  rw [PMap.empty_apply]
  by_cases hB : B.contains q = true
  · rw [if_pos hB]
    have := lastWrite_flatMap_congr calls (Call.writesNative B) (Call.lowerNative B) (fun o => o)
      (by intro x y; rfl) rfl q q
      (by intro c _; unfold Call.writesNative; rw [lastWrite_clipWrites, if_pos hB])
    exact this
  · rw [if_neg hB]
    have := lastWrite_flatMap_congr calls (Call.writesNative B) (Call.lowerNative B) (fun _ => none)
      (by intro x y; rfl) rfl q q
      (by intro c _; unfold Call.writesNative; rw [lastWrite_clipWrites, if_neg hB])
    exact this

theorem runDirect_box_irrelevant (T T' : Rect) (calls : List Call) (q : Pt) (hT : T.Ok) (hT' : T'.Ok)
    (h : T.contains q = T'.contains q) : runDirect T calls q = runDirect T' calls q := by
  unfold runDirect
  exact lastWrite_flatMap_congr calls (Call.lowerNative T) (Call.lowerNative T') (fun o => o)
    (by intro x y; rfl) rfl q q (by intro c _; exact Call.sem_box_irrelevant T T' c q hT hT' h)

end EG

namespace EG
open Tgt

/-! ### Nestings of nestings -/

theorem Pt.zero_add' (a : Pt) : Pt.zero + a = a := by rw [Pt.ext_iff']; simp [Pt.zero]
theorem Pt.add_assoc' (a b c : Pt) : a + b + c = a + (b + c) := by
  rw [Pt.ext_iff']; simp only [Pt.add_x, Pt.add_y]; omega

theorem Xf.ext' {x y : Xf} (hG : ∀ q, x.G q = y.G q) (hd : x.d = y.d) (hf : ∀ c, x.f c = y.f c) : x = y := by
  cases x; cases y
  simp only at hG hd hf
  simp only [Xf.mk.injEq]
  exact ⟨funext hG, hd, funext hf⟩

theorem Xf.id_comp (x : Xf) : Xf.id.comp x = x := by
  apply Xf.ext'
  · intro q; simp [Xf.comp, Xf.id, Pt.sub_zero]
  · simp [Xf.comp, Xf.id, Pt.zero_add']
  · intro c; rfl

theorem Xf.comp_assoc (a b c : Xf) : (a.comp b).comp c = a.comp (b.comp c) := by
  apply Xf.ext'
  · intro q; simp only [Xf.comp, Pt.sub_add, Bool.and_assoc]
  · simp only [Xf.comp, Pt.add_assoc']
  · intro col; rfl

theorem stackBox_append (B : Rect) (s1 s2 : Stack) :
    stackBox B (s1 ++ s2) = stackBox (stackBox B s1) s2 := by
  induction s1 generalizing B with
  | nil => rfl
  | cons a rest ih => simp only [List.cons_append, stackBox]; exact ih (a.bbox B)

theorem lowerStack_append (B : Rect) (s1 s2 : Stack) (c : Call) :
    lowerStack B (s1 ++ s2) c = lowerStack B s1 (lowerStack (stackBox B s1) s2 c) := by
  induction s1 generalizing B with
  | nil => rfl
  | cons a rest ih => simp only [List.cons_append, lowerStack, stackBox]; rw [ih (a.bbox B)]

theorem stackXf_append (B : Rect) (s1 s2 : Stack) :
    stackXf B (s1 ++ s2) = (stackXf B s1).comp (stackXf (stackBox B s1) s2) := by
  induction s1 generalizing B with
  | nil => simp only [List.nil_append, stackXf, stackBox, Xf.id_comp]
  | cons a rest ih =>
    simp only [List.cons_append, stackXf, stackBox]
    rw [ih (a.bbox B), Xf.comp_assoc]

end EG

namespace EG
open Tgt

/-- Adapters that do not move coordinates. -/
def Adapter.noShift : Adapter → Bool
  | .clipped _ => true
  | .converted _ => true
  | _ => false

/-- The range guard of the call with the box replaced (only `clear` looks at the box). -/
theorem Call.ok_box (T T' : Rect) (c : Call) (h : c.Ok T) (hT' : T'.Ok) : c.Ok T' := by
  cases c with
  | clear col => exact hT'
  | _ => exact h

/-- Nestings of clipped and colour-converted targets need no guard beyond the user's inputs:
the root's box and the call's area are empty or in `i32` range. -/
theorem stackOk_of_noShift (B : Rect) (s : Stack) (c : Call) (hs : ∀ a ∈ s, a.noShift = true)
    (hB : B.Ok) (hc : c.Ok B) : stackOk B s c := by
  induction s generalizing B with
  | nil => exact hc
  | cons a rest ih =>
    have ha := hs a List.mem_cons_self
    have hrest : ∀ b ∈ rest, b.noShift = true := fun b hb => hs b (List.mem_cons_of_mem _ hb)
    cases a with
    | clipped r =>
      have hB' : ((Adapter.clipped r).bbox B).Ok := Rect.ok_intersection_right r B hB
      have h1 := ih _ hrest hB' (Call.ok_box B _ c hc hB')
      exact ⟨h1, Adapter.clipped_lower_ok _ B _ (stackOk_lowered _ _ _ h1)⟩
    | converted f =>
      have h1 := ih ((Adapter.converted f).bbox B) hrest hB hc
      exact ⟨h1, Adapter.converted_ok f B _ (stackOk_lowered _ _ _ h1)⟩
    | cropped r => cases ha
    | translated d => cases ha

end EG
