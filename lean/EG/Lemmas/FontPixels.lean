/-
  EG.Lemmas.FontPixels — what a glyph cell, a spacing gap and a decoration write, as closed forms
  in terms of the atlas; the draw_iter-only target and the native target see the same writes; pixel
  maps from write lists.
-/
import EG.Lemmas.RectPoints
import EG.Lemmas.FontLayout
namespace EG
namespace Font

/-! ### List helpers -/

theorem zip_replicate_map {α β : Type} (l : List α) (c : β) :
    l.zip (List.replicate l.length c) = l.map (fun p => (p, c)) := by
  induction l with
  | nil => rfl
  | cons a l ih => simp [List.replicate_succ, ih]

theorem zip_flatMap_map {α β γ δ : Type} (l1 : List α) (l2 : List β) (f : α → β → γ) (g : α → β → δ) :
    (l1.flatMap (fun r => l2.map (f r))).zip (l1.flatMap (fun r => l2.map (g r))) =
      l1.flatMap (fun r => l2.map (fun c => (f r c, g r c))) := by
  induction l1 with
  | nil => rfl
  | cons a l ih =>
    simp only [List.flatMap_cons]
    rw [List.zip_append (by simp), ih, List.zip_map']

/-- The points of a rectangle whose coordinates stay inside `i32`, by row and column offset. -/
theorem pointsSpec_range {r : Rect} (h : r.InRange) :
    r.pointsSpec = (List.range r.size.h).flatMap (fun (dy : Nat) =>
      (List.range r.size.w).map (fun (dx : Nat) => (⟨r.tl.x + (dx : Int), r.tl.y + (dy : Int)⟩ : Pt))) := by
  unfold Rect.pointsSpec
  by_cases hz : r.isZeroSized = true
  · rw [if_pos hz]
    rw [Rect.isZeroSized_iff] at hz
    rcases hz with hw | hh
    · simp [hw]
    · simp [hh]
  · rw [if_neg hz]
    have hr := Rect.rowsEnd_eq h
    have hc := Rect.columnsEnd_eq h
    unfold Rect.rowsEnd at hr; unfold Rect.columnsEnd at hc
    simp only [Rect.rows, Rect.columns, hr, hc, irange]
    have e1 : (r.tl.y + (r.size.h : Int) - r.tl.y).toNat = r.size.h := by omega
    have e2 : (r.tl.x + (r.size.w : Int) - r.tl.x).toNat = r.size.w := by omega
    rw [e1, e2, List.flatMap_map]
    simp only [List.map_map]
    rfl

theorem points_range {r : Rect} (h : r.InRange) :
    r.points = (List.range r.size.h).flatMap (fun (dy : Nat) =>
      (List.range r.size.w).map (fun (dx : Nat) => (⟨r.tl.x + (dx : Int), r.tl.y + (dy : Int)⟩ : Pt))) := by
  rw [Rect.points_eq_spec, pointsSpec_range h]

/-! ### The draw_iter-only target (R1) and the native target (R2) receive the same writes -/

theorem lowerDefault_eq_lowerNative (B : Rect) (c : Call) : c.lowerDefault B = c.lowerNative B := by
  cases c with
  | drawIter px => rfl
  | fillContiguous area cs => simp [Call.lowerDefault, Call.lowerNative, Rect.points_eq_spec]
  | fillSolid area col =>
    simp only [Call.lowerDefault, Call.lowerNative]
    rw [zip_replicate_map, Rect.points_eq_spec]
  | clear col =>
    simp only [Call.lowerDefault, Call.lowerNative]
    rw [zip_replicate_map, Rect.points_eq_spec]

theorem runDefault_eq_runNative (B : Rect) (calls : List Call) : runDefault B calls = runNative B calls := by
  unfold runDefault runNative Call.writesDefault Call.writesNative
  simp only [lowerDefault_eq_lowerNative]

theorem flatMap_writesDefault (B : Rect) (calls : List Call) :
    calls.flatMap (Call.writesDefault B) = clipWrites B (calls.flatMap (Call.lowerDefault B)) := by
  unfold clipWrites Call.writesDefault clipWrites
  rw [List.filter_flatMap]

/-! ### The colour rule and the writes of one glyph cell -/

/-- What a colour variant does with one glyph pixel: on -> text colour, off -> background colour,
`none` = the pixel is not written. -/
def Mode.colourOf : Mode → Bool → Option Color
  | .fg tc, true => some tc
  | .fg _, false => none
  | .bg _, true => none
  | .bg bc, false => some bc
  | .both tc _, true => some tc
  | .both _ bc, false => some bc

/-- The background colour of a variant, if it has one. -/
def Mode.bgColour : Mode → Option Color
  | .fg _ => none
  | .bg bc => some bc
  | .both _ bc => some bc

/-- Writes of the glyph cell `a` of the atlas placed at `p`: row-major, pixel `(dx, dy)` of the
cell goes to `p + (dx, dy)` with the colour the rule gives for the atlas bit. -/
def cellWrites (m : Mode) (atlas : Pt → Bool) (p : Pt) (a : Rect) : Writes :=
  (List.range a.size.h).flatMap (fun (dy : Nat) =>
    (List.range a.size.w).filterMap (fun (dx : Nat) =>
      (m.colourOf (atlas ⟨a.tl.x + (dx : Int), a.tl.y + (dy : Int)⟩)).map
        (fun c => ((⟨p.x + (dx : Int), p.y + (dy : Int)⟩ : Pt), c))))

theorem row_fg (l : List Nat) (P : Nat → Pt) (b : Nat → Bool) (tc : Color) :
    (((l.map (fun dx => (P dx, b dx))).filter (fun pb => pb.2)).map (fun pb => (pb.1, tc))) =
      l.filterMap (fun dx => ((Mode.fg tc).colourOf (b dx)).map (fun c => (P dx, c))) := by
  induction l with
  | nil => rfl
  | cons a l ih =>
    cases hb : b a <;> simp [hb, Mode.colourOf, ih]

theorem row_bg (l : List Nat) (P : Nat → Pt) (b : Nat → Bool) (bc : Color) :
    (((l.map (fun dx => (P dx, b dx))).filter (fun pb => !pb.2)).map (fun pb => (pb.1, bc))) =
      l.filterMap (fun dx => ((Mode.bg bc).colourOf (b dx)).map (fun c => (P dx, c))) := by
  induction l with
  | nil => rfl
  | cons a l ih =>
    cases hb : b a <;> simp [hb, Mode.colourOf, ih]

theorem row_both (l : List Nat) (P : Nat → Pt) (b : Nat → Bool) (tc bc : Color) :
    (l.map (fun dx => (P dx, if b dx then tc else bc))) =
      l.filterMap (fun dx => ((Mode.both tc bc).colourOf (b dx)).map (fun c => (P dx, c))) := by
  induction l with
  | nil => rfl
  | cons a l ih =>
    cases hb : b a <;> simp [hb, Mode.colourOf, ih]

/-- **One glyph.** Whatever the colour variant, drawing the cell `a` at `p` writes exactly
`cellWrites`: on -> text colour, off -> background colour if the variant has one, else nothing. -/
theorem glyph_lowerDefault (B : Rect) (m : Mode) (atlas : Pt → Bool) (p : Pt) (a : Rect)
    (h : (⟨p, a.size⟩ : Rect).InRange) :
    (m.lower (BCall.fillContiguous ⟨p, a.size⟩ (cellBits atlas a))).flatMap (Call.lowerDefault B) =
      cellWrites m atlas p a := by
  have hp := points_range h
  simp only at hp
  cases m with
  | fg tc =>
    simp only [Mode.lower, List.flatMap_cons, List.flatMap_nil, List.append_nil, Call.lowerDefault, hp, cellBits,
      zip_flatMap_map, List.filter_flatMap, List.map_flatMap, cellWrites]
    congr 1; funext dy
    exact row_fg _ _ _ tc
  | bg bc =>
    simp only [Mode.lower, List.flatMap_cons, List.flatMap_nil, List.append_nil, Call.lowerDefault, hp, cellBits,
      zip_flatMap_map, List.filter_flatMap, List.map_flatMap, cellWrites]
    congr 1; funext dy
    exact row_bg _ _ _ bc
  | both tc bc =>
    simp only [Mode.lower, List.flatMap_cons, List.flatMap_nil, List.append_nil, Call.lowerDefault, hp, cellBits,
      List.map_flatMap, List.map_map, zip_flatMap_map, cellWrites]
    congr 1; funext dy
    exact row_both _ _ (fun dx => atlas ⟨a.tl.x + (dx : Int), a.tl.y + (dy : Int)⟩) tc bc

theorem mem_cellWrites (m : Mode) (atlas : Pt → Bool) (p : Pt) (a : Rect) (q : Pt) (col : Color) :
    (q, col) ∈ cellWrites m atlas p a ↔
      ∃ dy, dy < a.size.h ∧ ∃ dx, dx < a.size.w ∧ q = ⟨p.x + (dx : Int), p.y + (dy : Int)⟩ ∧
        m.colourOf (atlas ⟨a.tl.x + (dx : Int), a.tl.y + (dy : Int)⟩) = some col := by
  unfold cellWrites
  simp only [List.mem_flatMap, List.mem_range, List.mem_filterMap, Option.map_eq_some_iff, Prod.mk.injEq]
  constructor
  · rintro ⟨dy, hdy, dx, hdx, c, hc, rfl, rfl⟩
    exact ⟨dy, hdy, dx, hdx, rfl, hc⟩
  · rintro ⟨dy, hdy, dx, hdx, rfl, hc⟩
    exact ⟨dy, hdy, dx, hdx, col, hc, rfl, rfl⟩

/-- Writes of a solid rectangle. -/
def rectWrites (r : Rect) (c : Color) : Writes :=
  (List.range r.size.h).flatMap (fun (dy : Nat) =>
    (List.range r.size.w).map (fun (dx : Nat) => ((⟨r.tl.x + (dx : Int), r.tl.y + (dy : Int)⟩ : Pt), c)))

theorem fillSolid_lowerDefault (B : Rect) (r : Rect) (c : Color) (h : r.InRange) :
    (Call.fillSolid r c).lowerDefault B = rectWrites r c := by
  simp only [Call.lowerDefault, zip_replicate_map, points_range h, List.map_flatMap, List.map_map, rectWrites]
  rfl

theorem mem_rectWrites (r : Rect) (c : Color) (q : Pt) (col : Color) :
    (q, col) ∈ rectWrites r c ↔
      col = c ∧ r.tl.x ≤ q.x ∧ q.x < r.tl.x + r.size.w ∧ r.tl.y ≤ q.y ∧ q.y < r.tl.y + r.size.h := by
  unfold rectWrites
  simp only [List.mem_flatMap, List.mem_range, List.mem_map, Prod.mk.injEq]
  constructor
  · rintro ⟨dy, hdy, dx, hdx, rfl, rfl⟩
    refine ⟨rfl, ?_⟩
    dsimp only; omega
  · rintro ⟨rfl, h1, h2, h3, h4⟩
    refine ⟨(q.y - r.tl.y).toNat, by omega, (q.x - r.tl.x).toNat, by omega, ?_, rfl⟩
    rw [Pt.ext_iff']; simp only; omega

/-! ### Pixel maps from write lists -/

/-- `PMap.apply` on plain functions (`PMap` is a non-reducible synonym of `Pt → Option Color`). -/
def applyFn (m : Pt → Option Color) (ws : Writes) : Pt → Option Color :=
  ws.foldl (fun m w => fun p => if p = w.1 then some w.2 else m p) m

theorem apply_eq_applyFn (m : PMap) (ws : Writes) : m.apply ws = applyFn m ws := rfl

theorem applyFn_cons (m : Pt → Option Color) (w : Pt × Color) (ws : Writes) :
    applyFn m (w :: ws) = applyFn (fun p => if p = w.1 then some w.2 else m p) ws := rfl

/-- A point no write touches keeps its old content. -/
theorem applyFn_of_not_mem : ∀ (ws : Writes) (m : Pt → Option Color) (q : Pt),
    (∀ w ∈ ws, w.1 ≠ q) → applyFn m ws q = m q
  | [], _, _, _ => rfl
  | w :: ws, m, q, h => by
    have ih := applyFn_of_not_mem ws (fun p => if p = w.1 then some w.2 else m p) q
      (fun w' hw' => h w' (List.mem_cons_of_mem _ hw'))
    have hne : ¬ (q = w.1) := fun e => h w (List.mem_cons_self) e.symm
    rw [applyFn_cons, ih]
    simp [hne]

/-- If all writes to `q` carry the same colour and there is one, that colour is the result. -/
theorem applyFn_of_mem_functional : ∀ (ws : Writes) (m : Pt → Option Color) (q : Pt) (c : Color),
    (q, c) ∈ ws → (∀ c', (q, c') ∈ ws → c' = c) → applyFn m ws q = some c
  | [], _, _, _, h, _ => by cases h
  | w :: ws, m, q, c, h, hf => by
    rw [applyFn_cons]
    by_cases hin : ∃ c', (q, c') ∈ ws
    · obtain ⟨c', hc'⟩ := hin
      have : c' = c := hf c' (List.mem_cons_of_mem _ hc')
      subst this
      exact applyFn_of_mem_functional ws _ q c' hc' (fun c'' h'' => hf c'' (List.mem_cons_of_mem _ h''))
    · have hw : w = (q, c) := by
        rcases List.mem_cons.mp h with e | e
        · exact e.symm
        · exact absurd ⟨c, e⟩ hin
      have hnm : ∀ w' ∈ ws, w'.1 ≠ q := by
        intro w' hw' e
        apply hin
        exact ⟨w'.2, by rw [← e]; exact hw'⟩
      rw [applyFn_of_not_mem ws _ q hnm]
      simp [hw]

theorem applyFn_append (m : Pt → Option Color) (ws ws' : Writes) :
    applyFn m (ws ++ ws') = applyFn (applyFn m ws) ws' := by
  unfold applyFn
  rw [List.foldl_append]

/-! ### `draw_string` in closed form -/

/-- The colour variant `draw_string` selects (`none`: neither text nor background colour). -/
def Style.mode (st : Style) : Option Mode :=
  match st.textColor, st.bgColor with
  | some tc, some bc => some (.both tc bc)
  | some tc, none => some (.fg tc)
  | none, some bc => some (.bg bc)
  | none, none => none

/-- Width of `n` characters: `n` cells and `n - 1` gaps. -/
def textWidth (f : MonoFont) (n : Nat) : Nat := n * f.cw + (n - 1) * f.spacing

theorem endPos_x (f : MonoFont) (pos : Pt) (n : Nat) :
    (endPos f pos n).x = pos.x + (textWidth f n : Int) ∧ (endPos f pos n).y = pos.y := by
  unfold endPos textWidth cellX
  by_cases h : n = 0
  · subst h; simp
  · obtain ⟨k, rfl⟩ : ∃ k, n = k + 1 := ⟨n - 1, by omega⟩
    simp only [h, ↓reduceIte, Nat.add_sub_cancel, Nat.mul_add, Nat.add_mul, Nat.one_mul, Int.natCast_add]
    exact ⟨by omega, trivial⟩

/-- With a text or background colour: the calls of the characters and gaps, then — if the text has
positive width — the decorations over exactly the text width, measured from the start position. -/
theorem drawString_of_mode (f : MonoFont) (atlas : Pt → Bool) (st : Style) (m : Mode) (hm : st.mode = some m)
    (text : List Nat) (position : Pt) (bl : Baseline) :
    f.drawString atlas st text position bl =
      let pos : Pt := ⟨position.x, position.y - f.baselineOffset bl⟩
      ((textBCalls f atlas m.bgColour.isSome pos text).flatMap m.lower ++
        (if 0 < textWidth f text.length then f.drawDecorations st (textWidth f text.length) pos else []),
       ⟨position.x + (textWidth f text.length : Int), position.y⟩) := by
  have hx := endPos_x f ⟨position.x, position.y - f.baselineOffset bl⟩ text.length
  simp only at hx
  have hw : ((position.x + (textWidth f text.length : Int)) - position.x).toNat = textWidth f text.length := by omega
  have hc : (position.x + (textWidth f text.length : Int) > position.x) ↔ 0 < textWidth f text.length := by omega
  unfold Style.mode at hm
  unfold MonoFont.drawString
  cases htc : st.textColor <;> cases hbg : st.bgColor <;> simp only [htc, hbg] at hm
  · cases hm
  all_goals
    cases hm
    simp only [drawStringBinary_eq, Mode.bgColour, Option.isSome, hx.1, hx.2, hw, hc]
    congr 2
    omega

/-- With neither text nor background colour nothing but decorations is drawn; their width is
`n * (cw + spacing)` (it includes a trailing gap when the font has spacing). -/
theorem drawString_transparent (f : MonoFont) (atlas : Pt → Bool) (st : Style) (hm : st.mode = none)
    (text : List Nat) (position : Pt) (bl : Baseline) :
    f.drawString atlas st text position bl =
      let pos : Pt := ⟨position.x, position.y - f.baselineOffset bl⟩
      let w := (f.cw + f.spacing) * text.length
      ((if 0 < w then f.drawDecorations st w pos else []), ⟨position.x + (w : Int), position.y⟩) := by
  unfold Style.mode at hm
  unfold MonoFont.drawString
  cases htc : st.textColor <;> cases hbg : st.bgColor <;> simp only [htc, hbg] at hm <;> try (cases hm)
  simp only [List.nil_append]
  have hw : ((position.x + (((f.cw + f.spacing) * text.length : Nat) : Int)) - position.x).toNat
      = (f.cw + f.spacing) * text.length := by omega
  have hc : (position.x + (((f.cw + f.spacing) * text.length : Nat) : Int) > position.x)
      ↔ 0 < (f.cw + f.spacing) * text.length := by omega
  simp only [hw, hc]
  congr 2
  omega

end Font
end EG
