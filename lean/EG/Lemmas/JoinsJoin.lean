/-
  EG.Lemmas.JoinsJoin — `LineJoin::{start, end, from_points}` commute with translation: corners move
  by `d`, the join kind (miter / bevel / degenerate / colinear) is unchanged.
  The only guard is `EdgesNoSat` / `JoinNoSat`: where a rounded intersection point is used (not
  discarded by `nearly_colinear_has_error`), its `i32` casts do not saturate.
-/
import EG.Lemmas.JoinsExtents
set_option linter.unusedSimpArgs false
namespace EG
namespace Joins
open Thick (LineSide StrokeOffset)

/-- `EdgeCorners` moved by `d`. -/
def EdgeCorners.translate (c : EdgeCorners) (d : Pt) : EdgeCorners := ⟨c.left + d, c.right + d⟩

/-- `LineJoin` moved by `d` (the kind is kept). -/
def LineJoin.translate (j : LineJoin) (d : Pt) : LineJoin :=
  ⟨j.kind, j.firstEdgeEnd.translate d, j.secondEdgeStart.translate d⟩

theorem line_mk_translate (a b d : Pt) : (⟨a + d, b + d⟩ : Line) = (⟨a, b⟩ : Line).translate d := rfl

theorem start_translate (s m : Pt) (w : Nat) (off : StrokeOffset) (d : Pt) :
    LineJoin.start (s + d) (m + d) w off = (LineJoin.start s m w off).map (·.translate d) := by
  unfold LineJoin.start
  rw [line_mk_translate, extents_translate]
  cases extents ⟨s, m⟩ w off with
  | none => rfl
  | some r => rfl

theorem stop_translate (m e : Pt) (w : Nat) (off : StrokeOffset) (d : Pt) :
    LineJoin.stop (m + d) (e + d) w off = (LineJoin.stop m e w off).map (·.translate d) := by
  unfold LineJoin.stop
  rw [line_mk_translate, extents_translate]
  cases extents ⟨m, e⟩ w off with
  | none => rfl
  | some r => rfl

/-- The result of the private `intersections`, moved by `d`. -/
def shiftInter (r : Pt × LineSide × Pt) (d : Pt) : Pt × LineSide × Pt := (r.1 + d, r.2.1, r.2.2 + d)

/-- "In the two intersections of this join, the rounded point is discarded
(`nearly_colinear_has_error`) or no cast saturates, before or after the move." -/
def EdgesNoSat (fl fr sl sr : Line) (d : Pt) : Prop :=
  (IntersectionParams.fromLines sl fl).PointOK d ∧ (IntersectionParams.fromLines sr fr).PointOK d

instance (fl fr sl sr : Line) (d : Pt) : Decidable (EdgesNoSat fl fr sl sr d) := by
  unfold EdgesNoSat; exact inferInstance

/-- One intersection of `intersections`, with its fallback: `(point or fallback, outer side)`. -/
def pickPoint (l1 l2 : Line) (fallback : Pt) : Option (Pt × LineSide) :=
  match (IntersectionParams.fromLines l1 l2).intersection with
  | .colinear => none
  | .point point outerSide =>
    some (if !(IntersectionParams.fromLines l1 l2).nearlyColinearHasError then point else fallback,
      outerSide)

theorem pickPoint_translate (l1 l2 : Line) (fallback d : Pt)
    (h : (IntersectionParams.fromLines l1 l2).PointOK d) :
    pickPoint (l1.translate d) (l2.translate d) (fallback + d) =
      (pickPoint l1 l2 fallback).map (fun r => (r.1 + d, r.2)) := by
  unfold pickPoint
  rw [nearlyColinearHasError_translate]
  rcases h with he | hns
  · have hshape := intersection_translate_shape l1 l2 d
    cases hi : (IntersectionParams.fromLines l1 l2).intersection with
    | colinear => rw [hi] at hshape; simp only [] at hshape; rw [hshape]; rfl
    | point p s =>
      rw [hi] at hshape
      simp only [] at hshape
      obtain ⟨p', hp'⟩ := hshape
      rw [hp']
      simp only [he, Bool.not_true, Bool.false_eq_true, ↓reduceIte, Option.map_some]
  · rw [intersection_translate l1 l2 d hns]
    cases (IntersectionParams.fromLines l1 l2).intersection with
    | colinear => rfl
    | point p s =>
      simp only [Intersection.translate, Option.map_some]
      cases (IntersectionParams.fromLines l1 l2).nearlyColinearHasError <;> rfl

theorem intersections_eq (fl fr sl sr : Line) :
    intersections fl fr sl sr =
      match pickPoint sl fl fl.stop with
      | none => none
      | some (li, side) =>
        match pickPoint sr fr fr.stop with
        | none => none
        | some (ri, _) => some (li, side, ri) := by
  unfold intersections pickPoint
  simp only []
  cases (IntersectionParams.fromLines sl fl).intersection with
  | colinear => rfl
  | point p1 s1 =>
    simp only []
    cases (IntersectionParams.fromLines sr fr).intersection with
    | colinear => rfl
    | point p2 s2 => rfl

theorem intersections_translate (fl fr sl sr : Line) (d : Pt) (h : EdgesNoSat fl fr sl sr d) :
    intersections (fl.translate d) (fr.translate d) (sl.translate d) (sr.translate d) =
      (intersections fl fr sl sr).map (shiftInter · d) := by
  rw [intersections_eq, intersections_eq, translate_stop, translate_stop,
    pickPoint_translate sl fl fl.stop d h.1, pickPoint_translate sr fr fr.stop d h.2]
  cases pickPoint sl fl fl.stop with
  | none => rfl
  | some r1 =>
    obtain ⟨li, side⟩ := r1
    simp only [Option.map_some]
    cases pickPoint sr fr fr.stop with
    | none => rfl
    | some r2 => rfl

theorem delta_mk_translate (a b d : Pt) : Line.delta ⟨a + d, b + d⟩ = Line.delta ⟨a, b⟩ :=
  delta_translate ⟨a, b⟩ d

/-- **The join geometry commutes with translation**: given moved edge lines, `from_points` picks the
same kind and the moved corners. -/
theorem fromExtents_translate (mid : Pt) (w : Nat) (fl fr sl sr : Line) (d : Pt)
    (h : EdgesNoSat fl fr sl sr d) :
    LineJoin.fromExtents (mid + d) w (fl.translate d) (fr.translate d) (sl.translate d) (sr.translate d) =
      (LineJoin.fromExtents mid w fl fr sl sr).translate d := by
  unfold LineJoin.fromExtents
  rw [intersections_translate fl fr sl sr d h]
  cases intersections fl fr sl sr with
  | none => rfl
  | some r =>
    obtain ⟨li, side, ri⟩ := r
    simp only [Option.map_some, shiftInter, translate_stop, translate_start, checkSide_translate]
    cases side with
    | left =>
      simp only [delta_mk_translate]
      cases (LinearEquation.fromLine fr).checkSide sr.stop LineSide.left
      · simp only [Bool.not_false, ↓reduceIte]
        split <;> rfl
      · rfl
    | right =>
      simp only [delta_mk_translate]
      cases (LinearEquation.fromLine fl).checkSide sl.stop LineSide.right
      · simp only [Bool.not_false, ↓reduceIte]
        split <;> rfl
      · rfl

/-- "No cast saturates in the join at `mid`, before or after the move by `d`." -/
def JoinNoSat (start mid stop : Pt) (w : Nat) (off : StrokeOffset) (d : Pt) : Prop :=
  match extents ⟨start, mid⟩ w off, extents ⟨mid, stop⟩ w off with
  | some (fl, fr), some (sl, sr) => EdgesNoSat fl fr sl sr d
  | _, _ => True

instance (start mid stop : Pt) (w : Nat) (off : StrokeOffset) (d : Pt) :
    Decidable (JoinNoSat start mid stop w off d) := by
  unfold JoinNoSat; split <;> exact inferInstance

/-- **`LineJoin::from_points` commutes with translation.** -/
theorem fromPoints_translate (start mid stop : Pt) (w : Nat) (off : StrokeOffset) (d : Pt)
    (h : JoinNoSat start mid stop w off d) :
    LineJoin.fromPoints (start + d) (mid + d) (stop + d) w off =
      (LineJoin.fromPoints start mid stop w off).map (·.translate d) := by
  unfold LineJoin.fromPoints
  unfold JoinNoSat at h
  rw [line_mk_translate, line_mk_translate, extents_translate, extents_translate]
  cases h1 : extents ⟨start, mid⟩ w off with
  | none => rfl
  | some r1 =>
    obtain ⟨fl, fr⟩ := r1
    cases h2 : extents ⟨mid, stop⟩ w off with
    | none => rfl
    | some r2 =>
      obtain ⟨sl, sr⟩ := r2
      rw [h1, h2] at h
      simp only [Option.map_some, Option.bind_eq_bind, Option.bind_some, shiftLines, pure]
      rw [fromExtents_translate mid w fl fr sl sr d h]

/-- The join kind does not depend on the position. -/
theorem fromPoints_kind_translate (start mid stop : Pt) (w : Nat) (off : StrokeOffset) (d : Pt)
    (h : JoinNoSat start mid stop w off d) :
    (LineJoin.fromPoints (start + d) (mid + d) (stop + d) w off).map (·.kind) =
      (LineJoin.fromPoints start mid stop w off).map (·.kind) := by
  rw [fromPoints_translate start mid stop w off d h, Option.map_map]
  rfl

end Joins
end EG
