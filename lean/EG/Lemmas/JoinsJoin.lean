/-
  EG.Lemmas.JoinsJoin — `LineJoin::{start, end, from_points}` commute with translation: corners move
  by `d`, the join kind (miter / bevel / degenerate / colinear) is unchanged.
  The only guard is `NoSat`: the `i32` casts of the two intersection points do not saturate.
-/
import EG.Lemmas.JoinsExtents
set_option linter.unusedSimpArgs false
namespace EG
namespace Joins
open Thick (LineSide StrokeOffset)

/-- `EdgeCorners` moved by `d`. -/
def EdgeCorners.translate (c : EdgeCorners) (d : Pt) : EdgeCorners := ⟨c.left + d, c.right + d⟩

/-- `LineJoin` moved by `d` (the kind is kept). -/
def LineJoin.translate (j : LineJoin) (d : Pt) : LineJoin :=
  ⟨j.kind, j.firstEdgeEnd.translate d, j.secondEdgeStart.translate d⟩

theorem line_mk_translate (a b d : Pt) : (⟨a + d, b + d⟩ : Line) = (⟨a, b⟩ : Line).translate d := rfl

theorem start_translate (s m : Pt) (w : Nat) (off : StrokeOffset) (d : Pt) :
    LineJoin.start (s + d) (m + d) w off = (LineJoin.start s m w off).map (·.translate d) := by
  unfold LineJoin.start
  rw [line_mk_translate, extents_translate]
  cases extents ⟨s, m⟩ w off with
  | none => rfl
  | some r => rfl

theorem stop_translate (m e : Pt) (w : Nat) (off : StrokeOffset) (d : Pt) :
    LineJoin.stop (m + d) (e + d) w off = (LineJoin.stop m e w off).map (·.translate d) := by
  unfold LineJoin.stop
  rw [line_mk_translate, extents_translate]
  cases extents ⟨m, e⟩ w off with
  | none => rfl
  | some r => rfl

/-- The result of the private `intersections`, moved by `d`. -/
def shiftInter (r : Pt × LineSide × Pt) (d : Pt) : Pt × LineSide × Pt := (r.1 + d, r.2.1, r.2.2 + d)

/-- "No cast saturates in the two intersections of this join, before or after the move." -/
def EdgesNoSat (fl fr sl sr : Line) (d : Pt) : Prop :=
  (IntersectionParams.fromLines sl fl).NoSat d ∧ (IntersectionParams.fromLines sr fr).NoSat d

instance (fl fr sl sr : Line) (d : Pt) : Decidable (EdgesNoSat fl fr sl sr d) := by
  unfold EdgesNoSat; exact inferInstance

theorem intersections_translate (fl fr sl sr : Line) (d : Pt) (h : EdgesNoSat fl fr sl sr d) :
    intersections (fl.translate d) (fr.translate d) (sl.translate d) (sr.translate d) =
      (intersections fl fr sl sr).map (shiftInter · d) := by
  unfold intersections
  simp only [intersection_translate _ _ _ h.1, intersection_translate _ _ _ h.2,
    nearlyColinearHasError_translate]
  cases (IntersectionParams.fromLines sl fl).intersection with
  | colinear => rfl
  | point p1 s1 =>
    simp only [Intersection.translate]
    cases (IntersectionParams.fromLines sr fr).intersection with
    | colinear => rfl
    | point p2 s2 =>
      simp only [Intersection.translate, Option.map_some, shiftInter, translate_stop]
      cases (IntersectionParams.fromLines sl fl).nearlyColinearHasError <;>
        cases (IntersectionParams.fromLines sr fr).nearlyColinearHasError <;> rfl

theorem delta_mk_translate (a b d : Pt) : Line.delta ⟨a + d, b + d⟩ = Line.delta ⟨a, b⟩ :=
  delta_translate ⟨a, b⟩ d

/-- **The join geometry commutes with translation**: given moved edge lines, `from_points` picks the
same kind and the moved corners. -/
theorem fromExtents_translate (mid : Pt) (w : Nat) (fl fr sl sr : Line) (d : Pt)
    (h : EdgesNoSat fl fr sl sr d) :
    LineJoin.fromExtents (mid + d) w (fl.translate d) (fr.translate d) (sl.translate d) (sr.translate d) =
      (LineJoin.fromExtents mid w fl fr sl sr).translate d := by
  unfold LineJoin.fromExtents
  rw [intersections_translate fl fr sl sr d h]
  cases intersections fl fr sl sr with
  | none => rfl
  | some r =>
    obtain ⟨li, side, ri⟩ := r
    simp only [Option.map_some, shiftInter, translate_stop, translate_start, checkSide_translate]
    cases side with
    | left =>
      simp only [delta_mk_translate]
      cases (LinearEquation.fromLine fr).checkSide sr.stop LineSide.left
      · simp only [Bool.not_false, ↓reduceIte]
        split <;> rfl
      · rfl
    | right =>
      simp only [delta_mk_translate]
      cases (LinearEquation.fromLine fl).checkSide sl.stop LineSide.right
      · simp only [Bool.not_false, ↓reduceIte]
        split <;> rfl
      · rfl

/-- "No cast saturates in the join at `mid`, before or after the move by `d`." -/
def JoinNoSat (start mid stop : Pt) (w : Nat) (off : StrokeOffset) (d : Pt) : Prop :=
  match extents ⟨start, mid⟩ w off, extents ⟨mid, stop⟩ w off with
  | some (fl, fr), some (sl, sr) => EdgesNoSat fl fr sl sr d
  | _, _ => True

instance (start mid stop : Pt) (w : Nat) (off : StrokeOffset) (d : Pt) :
    Decidable (JoinNoSat start mid stop w off d) := by
  unfold JoinNoSat; split <;> exact inferInstance

/-- **`LineJoin::from_points` commutes with translation.** -/
theorem fromPoints_translate (start mid stop : Pt) (w : Nat) (off : StrokeOffset) (d : Pt)
    (h : JoinNoSat start mid stop w off d) :
    LineJoin.fromPoints (start + d) (mid + d) (stop + d) w off =
      (LineJoin.fromPoints start mid stop w off).map (·.translate d) := by
  unfold LineJoin.fromPoints
  unfold JoinNoSat at h
  rw [line_mk_translate, line_mk_translate, extents_translate, extents_translate]
  cases h1 : extents ⟨start, mid⟩ w off with
  | none => rfl
  | some r1 =>
    obtain ⟨fl, fr⟩ := r1
    cases h2 : extents ⟨mid, stop⟩ w off with
    | none => rfl
    | some r2 =>
      obtain ⟨sl, sr⟩ := r2
      rw [h1, h2] at h
      simp only [Option.map_some, Option.bind_eq_bind, Option.bind_some, shiftLines, pure]
      rw [fromExtents_translate mid w fl fr sl sr d h]

/-- The join kind does not depend on the position. -/
theorem fromPoints_kind_translate (start mid stop : Pt) (w : Nat) (off : StrokeOffset) (d : Pt)
    (h : JoinNoSat start mid stop w off d) :
    (LineJoin.fromPoints (start + d) (mid + d) (stop + d) w off).map (·.kind) =
      (LineJoin.fromPoints start mid stop w off).map (·.kind) := by
  rw [fromPoints_translate start mid stop w off d h, Option.map_map]
  rfl

end Joins
end EG
