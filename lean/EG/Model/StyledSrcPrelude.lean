/-
  EG.Model.StyledSrcPrelude — the meaning of the Rust primitives that the GENERATED file
  EG/Generated/StyledSrc.lean (written by tools/tr_styled.py from src/primitives/primitive_style.rs and
  src/primitives/rectangle/styled.rs) calls BESIDES those of EG/Model/RectSrcPrelude.lean.

  TRUSTED BASE, like RectSrcPrelude (same conventions; every definition an `abbrev` except the loop).

  * `C`: the colour type parameter `C: PixelColor` of `PrimitiveStyle<C>` is the project's `EG.Color` (a raw value). The
    translated bodies only move colours around (`Option<C>` fields, `Some(c)`, `Pixel(p, c)`, an argument of `fill_solid`).
  * `Pixel<C>(pub Point, pub C)` is the pair `Pt × Color`, the element type of `EG.Writes`.
  * `Option::is_none`, `Option::filter`.
  * `==` / `!=` between two values of a field-less enum that derives `PartialEq` (the translator checks the derive): equality of
    the constructors.
  * a call `target.fill_solid(&area, color)?` on the `DrawTarget` parameter of a drawing function IS the value
    `EG.Call.fillSolid area color` of the hand-written target model; the translated function is the list of these calls in
    program order, for the run in which every call returns `Ok` (the first `Err` ends the function at that call: `?`).
  * `for x in &mut self.it { body }` in a `&mut self` function: `for_mut_loop fuel next body self`. `next self` is `none` when the
    inner iterator's own fuel ran out, else `some (item?, self with the advanced iterator)`; the body ends in
    `LoopStep.continue_ self` or `LoopStep.return_ value`. Explicit fuel (structural recursion): `none` says nothing about the Rust
    code; the theorems state how much fuel suffices.
-/
import EG.Model.RectSrcPrelude
import EG.Model.Target
namespace EG.StyledSrcPrelude
open EG EG.RectSrcPrelude

abbrev C := EG.Color
abbrev Pixel := EG.Pt × EG.Color
abbrev Pixel_mk (p : Point) (c : C) : Pixel := (p, c)

/-- `Option::is_none`. -/
abbrev option_is_none {α : Type} (o : Option α) : Bool :=
  match o with
  | some _ => false
  | none => true

/-- `Option::filter`. -/
abbrev option_filter {α : Type} (o : Option α) (f : α → Bool) : Option α :=
  match o with
  | some v => if f v then some v else none
  | none => none

/-- derived `PartialEq::eq` of a field-less enum. -/
abbrev enum_eq {α : Type} [DecidableEq α] (a b : α) : Bool := decide (a = b)
/-- derived `PartialEq::ne` of a field-less enum. -/
abbrev enum_ne {α : Type} [DecidableEq α] (a b : α) : Bool := decide (a ≠ b)

/-- `target.fill_solid(&area, color)`. -/
abbrev target_fill_solid (area : Rectangle) (color : C) : EG.Call := EG.Call.fillSolid area color

/-- `for x in &mut self.it { body }`, see the header. -/
def for_mut_loop {σ ι ρ : Type} : Nat → (σ → Option (Option ι × σ)) → (ι → σ → LoopStep σ ρ) → σ → Option (LoopStep σ ρ)
  | 0, _, _, _ => none
  | fuel + 1, nx, b, s =>
    match nx s with
    | none => none
    | some (none, s') => some (.continue_ s')
    | some (some x, s') =>
      match b x s' with
      | .return_ r => some (.return_ r)
      | .continue_ s'' => for_mut_loop fuel nx b s''

end EG.StyledSrcPrelude
