/-
  EG.Model.TextLayout — text layout: `Text` (lines, alignment, baseline, line height, `draw`,
  `bounding_box`, `Transform`) and the metric side of `MonoTextStyle` (`measure_string`, `line_height`).
  Source (as the files are NOW, i.e. after the two `fix:` commits for the underline box height and for
  stripping `\r` before measuring):
          src/text/text.rs               (`Text::{line_height, lines}`, `Drawable::draw`, `update_min_max`,
                                          `Dimensions::bounding_box`, `Transform for Text`)
          src/text/mod.rs                (`Baseline`, `Alignment`, `LineHeight::to_absolute`)
          src/text/text_style.rs         (`TextStyle`)
          src/text/renderer/mod.rs       (`TextMetrics`)
          src/mono_font/mono_text_style.rs (`measure_string`, `line_height`; `draw_string`,
                                          `baseline_offset` are in EG.Model.Font)

  A text is a `List Nat` of code points (`'\n'` = 10, `'\r'` = 13). The font is a `Font.MonoFont`
  (metrics + glyph index function), the character style a `Font.Style` (which colours are set).

  Not modelled: `i32`/`u32` overflow of `position.y += line_height`, `n * (cw + sp)`,
  `base * percent / 100` (plain arithmetic here; C08's topic); the error path of `draw`
  (`?` on every `draw_string`: C04's topic).
-/
import EG.Model.Font
namespace EG
namespace TextLayout
open Font

/-! ## `Alignment`, `LineHeight`, `TextStyle` -/

inductive Alignment where
  | left | center | right
  deriving Repr, DecidableEq

inductive LineHeight where
  | pixels (px : Nat)
  | percent (pc : Nat)
  deriving Repr, DecidableEq

/-- `LineHeight::to_absolute`. -/
def LineHeight.toAbsolute : LineHeight → Nat → Nat
  | .pixels px, _ => px
  | .percent pc, base => base * pc / 100

structure TextStyle where
  alignment : Alignment
  baseline : Baseline
  lineHeight : LineHeight
  deriving Repr, DecidableEq

/-- `TextStyleBuilder::new().build()`. -/
def TextStyle.default : TextStyle := ⟨.left, .alphabetic, .percent 100⟩

/-! ## `TextRenderer for MonoTextStyle`: the metric side -/

/-- `TextMetrics`. -/
structure Metrics where
  bbox : Rect
  next : Pt
  deriving Repr, DecidableEq

/-- `bb_width`: `(chars().count() * (cw + spacing)).saturating_sub(spacing)`. -/
def bbWidth (f : MonoFont) (n : Nat) : Nat := n * (f.cw + f.spacing) - f.spacing

/-- `bb_height`: with an underline colour other than `DecorationColor::None` the larger of the
underline's lower edge and the character height, else the character height. -/
def bbHeight (f : MonoFont) (st : Style) : Nat :=
  if st.underline ≠ DecoColor.none then max (f.ulH + f.ulOff) f.ch else f.ch

/-- `<MonoTextStyle as TextRenderer>::measure_string`. -/
def measureString (f : MonoFont) (st : Style) (text : List Nat) (position : Pt) (bl : Baseline) : Metrics :=
  let bbPosition : Pt := ⟨position.x, position.y - f.baselineOffset bl⟩
  let bbW := bbWidth f text.length
  let bbH := bbHeight f st
  { bbox := ⟨bbPosition, ⟨bbW, bbH⟩⟩, next := ⟨position.x + (bbW : Int), position.y⟩ }

/-- `<MonoTextStyle as TextRenderer>::line_height`. -/
def fontLineHeight (f : MonoFont) : Nat := f.ch

/-! ## `Text` -/

/-- `Text<'_, MonoTextStyle>`: string, position, character style, text style (the font is passed
separately to every function). -/
structure Text where
  text : List Nat
  position : Pt
  style : Style
  ts : TextStyle
  deriving Repr, DecidableEq

/-- `Text::line_height`: `to_absolute(character_style.line_height()).saturating_as::<i32>()`. -/
def lineHeight (f : MonoFont) (ts : TextStyle) : Int :=
  satAsI32 (ts.lineHeight.toAbsolute (fontLineHeight f))

/-- `str::split('\n')`: always at least one item; `"a\n"` gives `["a", ""]`. -/
def splitNL : List Nat → List (List Nat)
  | [] => [[]]
  | c :: cs =>
    if c = 10 then [] :: splitNL cs
    else
      match splitNL cs with
      | l :: ls => (c :: l) :: ls
      | [] => [[c]]

/-- `line.strip_suffix('\r').unwrap_or(line)`: one trailing `'\r'` is removed. -/
def stripCR (l : List Nat) : List Nat := if l.getLast? = some 13 then l.dropLast else l

/-- The `match self.text_style.alignment` of `lines()`: the position `draw_string` gets for a line
whose (unaligned) position is `position`. `Point / 2` divides both coordinates, truncating. -/
def alignedPos (f : MonoFont) (st : Style) (ts : TextStyle) (line : List Nat) (position : Pt) : Pt :=
  match ts.alignment with
  | .left => position
  | .right =>
    let m := measureString f st line Pt.zero ts.baseline
    ⟨position.x - (m.next.x - 1), position.y - (m.next.y - 0)⟩
  | .center =>
    let m := measureString f st line Pt.zero ts.baseline
    ⟨position.x - tdiv2 (m.next.x - 1), position.y - tdiv2 (m.next.y - 0)⟩

/-- The `map` closure of `lines()` over the remaining split items; `position` is the captured
mutable variable (only its `y` changes). -/
def linesGo (f : MonoFont) (st : Style) (ts : TextStyle) : Pt → List (List Nat) → List (List Nat × Pt)
  | _, [] => []
  | position, raw :: rest =>
    let line := stripCR raw
    (line, alignedPos f st ts line position) ::
      linesGo f st ts ⟨position.x, position.y + lineHeight f ts⟩ rest

/-- `Text::lines()`: `(line, position)` per line. -/
def lines (f : MonoFont) (t : Text) : List (List Nat × Pt) :=
  linesGo f t.style t.ts t.position (splitNL t.text)

/-- The `for` loop of `Text::draw` over the remaining lines: calls on the target and the value of
`next_position` afterwards. -/
def drawLines (f : MonoFont) (atlas : Pt → Bool) (st : Style) (bl : Baseline) :
    List (List Nat × Pt) → Pt → List Call × Pt
  | [], next => ([], next)
  | (line, p) :: rest, _ =>
    let r := f.drawString atlas st line p bl
    let r' := drawLines f atlas st bl rest r.2
    (r.1 ++ r'.1, r'.2)

/-- `<Text as Drawable>::draw`: the calls on the target and the returned point. -/
def draw (f : MonoFont) (atlas : Pt → Bool) (t : Text) : List Call × Pt :=
  drawLines f atlas t.style t.ts.baseline (lines f t) t.position

/-- `update_min_max`: a line box without a bottom right corner (zero width or height) is skipped. -/
def updateMinMax (mm : Option (Pt × Pt)) (m : Metrics) : Option (Pt × Pt) :=
  match m.bbox.bottomRight with
  | some br =>
    match mm with
    | some (mn, mx) =>
      some (⟨min mn.x m.bbox.tl.x, min mn.y m.bbox.tl.y⟩, ⟨max mx.x br.x, max mx.y br.y⟩)
    | none => some (m.bbox.tl, br)
  | none => mm

/-- The `for` loop of `bounding_box`. -/
def minMaxGo (f : MonoFont) (st : Style) (bl : Baseline) :
    Option (Pt × Pt) → List (List Nat × Pt) → Option (Pt × Pt)
  | mm, [] => mm
  | mm, (line, p) :: rest => minMaxGo f st bl (updateMinMax mm (measureString f st line p bl)) rest

/-- `<Text as Dimensions>::bounding_box`. -/
def boundingBox (f : MonoFont) (t : Text) : Rect :=
  match minMaxGo f t.style t.ts.baseline none (lines f t) with
  | some (mn, mx) => Rect.withCorners mn mx
  | none => ⟨t.position, Sz.zero⟩

/-- `Transform::translate` (and `translate_mut`, which does `self.position += by`). -/
def Text.translate (t : Text) (d : Pt) : Text := { t with position := t.position + d }
def Text.translateMut (t : Text) (d : Pt) : Text := { t with position := t.position + d }

/-- `MonoTextStyle::is_transparent`. -/
def styleTransparent (st : Style) : Bool :=
  st.textColor.isNone && st.bgColor.isNone && decide (st.underline = DecoColor.none)
    && decide (st.strikethrough = DecoColor.none)

end TextLayout
end EG
