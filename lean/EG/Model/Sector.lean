/-
  EG.Model.Sector — `primitives::Sector` and `primitives::Arc` (geometry only: `points()`,
  `contains()`, `bounding_box()`), arm for arm.
  Source: src/primitives/sector/{mod.rs, points.rs}, src/primitives/arc/{mod.rs, points.rs},
  src/primitives/common/{plane_sector.rs, linear_equation.rs (`OriginLinearEquation`),
  distance_iterator.rs}, src/geometry/mod.rs (`dot_product`, `length_squared`).

  Trigonometry is not modelled HERE. The Rust `Sector` / `Arc` hold two angles and call
  `PlaneSector::new(angle_start, angle_sweep)` (f32 `sin`/`cos` of micromath, or the 91-entry
  fixed-point table with feature `fixed_point`) in `contains()` and in `Points::new`. The model's
  `Sector` / `Arc` hold, instead of the two angles, the `PlaneSector` value that this call returns:
  exactly the data of the Rust struct — an operation tag and two integer normal vectors
  (`half_plane_left.normal_vector`, `half_plane_right.normal_vector`). The correspondence obtains
  these five integers from the real code through the hook `verif_hooks::plane_sector` and puts them
  into the op line, so model and code see the same plane sector.
  For the `fixed_point` build `PlaneSector::new` is modelled separately (`EG.Model.FixedReal`,
  `FixedTrig`, `PlaneSectorNew`: integer arithmetic on I16F16 bits, tied by the `sector.trig` stream),
  so there the pipeline raw angles -> pixels is inside the model (`sector.fxpoints`).
  Trusted base: micromath's f32 trigonometry of the default build (`OriginLinearEquation::with_angle`),
  validated numerically by the C18 oracle (harness/src/m_sector.rs); `Angle::from_degrees` in both builds.

  Unbounded `Int`/`Nat`; plain `+ - *` are mathematical (overflow is C08's topic).
-/
import EG.Model.Circle
namespace EG

/-- `PointExt::dot_product` -/
def dotProduct (a b : Pt) : Int := a.x * b.x + a.y * b.y

/-- `plane_sector::Operation` -/
inductive PlaneOp where
  | intersection
  | union
  | entirePlane
  deriving DecidableEq, Repr, Inhabited

/-- `Operation::execute` -/
def PlaneOp.execute : PlaneOp → Bool → Bool → Bool
  | .intersection, first, second => first && second
  | .union, first, second => first || second
  | .entirePlane, _, _ => true

/-- `PlaneSector`: the two `OriginLinearEquation`s are their `normal_vector`s. -/
structure PlaneSector where
  op : PlaneOp
  left : Pt     -- half_plane_left.normal_vector
  right : Pt    -- half_plane_right.normal_vector
  deriving DecidableEq, Repr, Inhabited

namespace PlaneSector

/-- `OriginLinearEquation::distance` -/
def distance (normal : Pt) (p : Pt) : Int := dotProduct p normal

/-- `OriginLinearEquation::check_side(point, LineSide::Left)`: `distance <= 0` -/
def checkLeft (normal : Pt) (p : Pt) : Bool := decide (distance normal p ≤ 0)
/-- `OriginLinearEquation::check_side(point, LineSide::Right)`: `distance >= 0` -/
def checkRight (normal : Pt) (p : Pt) : Bool := decide (distance normal p ≥ 0)

/-- The early `return false` of `PlaneSector::contains`: for `Operation::Intersection` with two
normals that point the same way (`left.dot_product(right) > 0`) a point on the far side of the
bisector `(left.y + right.y, -(left.x + right.x))` of the two boundary rays is rejected. (Repair of
the degenerate sweep: parallel, equally directed normals — sweep 0 or too small to be resolved —
made the intersection the whole line through the centre, opposite ray included.) -/
def behindBisector (ps : PlaneSector) (p : Pt) : Bool :=
  if ps.op = .intersection then
    if dotProduct ps.left ps.right > 0 then
      let bisector : Pt := ⟨ps.left.y + ps.right.y, -(ps.left.x + ps.right.x)⟩
      decide (dotProduct p bisector < 0)
    else
      false
  else
    false

/-- `PlaneSector::contains` -/
def contains (ps : PlaneSector) (p : Pt) : Bool :=
  let correctSide1 := checkLeft ps.left p
  let correctSide2 := checkRight ps.right p
  if ps.behindBisector p then false
  else ps.op.execute correctSide1 correctSide2

/-- The value `PlaneSector::new` returns when `|sweep| >= 360°`: `EntirePlane` with two
`new_horizontal()` half planes (`NORMAL_VECTOR_SCALE = 1 << 10`). -/
def entire : PlaneSector := ⟨.entirePlane, ⟨0, 1024⟩, ⟨0, 1024⟩⟩

end PlaneSector

/-! ### `DistanceIterator` -/

/-- `DistanceIterator { center_2x, points }` -/
structure DistIt where
  center2x : Pt
  points : Rect.PointsIt
  deriving DecidableEq, Repr

/-- Item of the distance iterator: `(point, delta, distance)`. -/
abbrev DistItem := Pt × Pt × Nat

namespace DistIt

/-- `DistanceIterator::new` -/
def new (center2x : Pt) (bb : Rect) : DistIt := ⟨center2x, bb.pointsIt⟩

/-- The closure of `.map(..)`: `delta = point * 2 - center_2x`,
`distance = delta.length_squared() as u32`. -/
def item (center2x : Pt) (p : Pt) : DistItem :=
  let delta : Pt := (⟨p.x * 2, p.y * 2⟩ : Pt) - center2x
  (p, delta, (lengthSquared delta).toNat)

/-- `Iterator::next` -/
def next (it : DistIt) : Option (DistItem × DistIt) :=
  match it.points.next with
  | none => none
  | some (p, pts') => some (item it.center2x p, { it with points := pts' })

/-- `Iterator::find(pred)` — the library loop `while let Some(x) = self.next() { if pred(&x) {
return Some(x) } } None`, bounded by explicit fuel. -/
def findFuel (pred : DistItem → Bool) : Nat → DistIt → Option (DistItem × DistIt)
  | 0, _ => none
  | fuel + 1, it =>
    match it.next with
    | none => none
    | some (x, it') => if pred x then some (x, it') else findFuel pred fuel it'

/-- `find` with the remaining-items budget of the underlying rectangle iterator as fuel. -/
def find (pred : DistItem → Bool) (it : DistIt) : Option (DistItem × DistIt) :=
  it.findFuel pred it.points.budget

end DistIt

/-- `Circle::distances` -/
def Circle.distances (c : Circle) : DistIt := DistIt.new c.center2x c.boundingBox

/-! ### `Sector` -/

/-- `Sector { top_left, diameter, angle_start, angle_sweep }`; the two angles are represented by
`ps = PlaneSector::new(angle_start, angle_sweep)` (see the module header). -/
structure Sector where
  tl : Pt
  d : Nat
  ps : PlaneSector
  deriving DecidableEq, Repr, Inhabited

namespace Sector

/-- `Sector::to_circle` -/
def toCircle (s : Sector) : Circle := ⟨s.tl, s.d⟩

/-- `Sector::from_circle` -/
def fromCircle (c : Circle) (ps : PlaneSector) : Sector := ⟨c.tl, c.d, ps⟩

/-- `Dimensions::bounding_box`: `Rectangle::new(top_left, Size::new_equal(diameter))` -/
def boundingBox (s : Sector) : Rect := ⟨s.tl, Sz.newEqual s.d⟩

/-- `Sector::center_2x` (the sector's own copy of the circle's function) -/
def center2x (s : Sector) : Pt :=
  let radius : Nat := s.d - 1
  ⟨s.tl.x * 2 + (radius : Int), s.tl.y * 2 + (radius : Int)⟩

/-- `ContainsPoint::contains` -/
def contains (s : Sector) (p : Pt) : Bool :=
  if s.toCircle.contains p then
    let delta : Pt := (⟨p.x * 2, p.y * 2⟩ : Pt) - s.center2x
    s.ps.contains delta
  else
    false

/-- `OffsetOutline::offset` -/
def offset (s : Sector) (o : Int) : Sector := fromCircle (s.toCircle.offset o) s.ps

/-- `Transform::translate` -/
def translate (s : Sector) (by_ : Pt) : Sector := { s with tl := s.tl + by_ }

/-- `sector::Points { iter, plane_sector, threshold }` -/
structure PointsIt where
  iter : DistIt
  planeSector : PlaneSector
  threshold : Nat
  deriving DecidableEq, Repr

/-- `Points::new` -/
def pointsIt (s : Sector) : PointsIt :=
  let circle := s.toCircle
  ⟨circle.distances, s.ps, circle.threshold⟩

/-- The closure of `find`: `*distance < threshold && plane_sector.contains(*delta)` -/
def PointsIt.pred (it : PointsIt) (x : DistItem) : Bool :=
  decide (x.2.2 < it.threshold) && it.planeSector.contains x.2.1

/-- `Iterator::next`: `self.iter.find(..).map(|(point, ..)| point)` -/
def PointsIt.next (it : PointsIt) : Option (Pt × PointsIt) :=
  match it.iter.find it.pred with
  | none => none
  | some (x, iter') => some (x.1, { it with iter := iter' })

def PointsIt.toListFuel : Nat → PointsIt → List Pt
  | 0, _ => []
  | fuel + 1, it =>
    match it.next with
    | some (p, it') => p :: toListFuel fuel it'
    | none => []

/-- What a `for` loop over `sector.points()` sees. -/
def points (s : Sector) : List Pt :=
  let it := s.pointsIt
  it.toListFuel (it.iter.points.budget + 1)

end Sector

/-! ### `Arc` -/

/-- `Arc { top_left, diameter, angle_start, angle_sweep }`, angles represented as for `Sector`. -/
structure Arc where
  tl : Pt
  d : Nat
  ps : PlaneSector
  deriving DecidableEq, Repr, Inhabited

namespace Arc

/-- `Arc::to_circle` -/
def toCircle (a : Arc) : Circle := ⟨a.tl, a.d⟩

/-- `Dimensions::bounding_box`: `Rectangle::new(top_left, Size::new(diameter, diameter))` -/
def boundingBox (a : Arc) : Rect := ⟨a.tl, ⟨a.d, a.d⟩⟩

/-- `Transform::translate` -/
def translate (a : Arc) (by_ : Pt) : Arc := { a with tl := a.tl + by_ }

/-- `arc::Points { iter, plane_sector, outer_threshold, inner_threshold }` -/
structure PointsIt where
  iter : DistIt
  planeSector : PlaneSector
  outerThreshold : Nat
  innerThreshold : Nat
  deriving DecidableEq, Repr

/-- `Points::new`: `inner_circle = outer_circle.offset(-1)` -/
def pointsIt (a : Arc) : PointsIt :=
  let outerCircle := a.toCircle
  let innerCircle := outerCircle.offset (-1)
  ⟨outerCircle.distances, a.ps, outerCircle.threshold, innerCircle.threshold⟩

/-- The closure of `find`: `*distance < outer_threshold && *distance >= inner_threshold &&
plane_sector.contains(*delta)` -/
def PointsIt.pred (it : PointsIt) (x : DistItem) : Bool :=
  decide (x.2.2 < it.outerThreshold) && decide (x.2.2 ≥ it.innerThreshold) &&
    it.planeSector.contains x.2.1

/-- `Iterator::next` -/
def PointsIt.next (it : PointsIt) : Option (Pt × PointsIt) :=
  match it.iter.find it.pred with
  | none => none
  | some (x, iter') => some (x.1, { it with iter := iter' })

def PointsIt.toListFuel : Nat → PointsIt → List Pt
  | 0, _ => []
  | fuel + 1, it =>
    match it.next with
    | some (p, it') => p :: toListFuel fuel it'
    | none => []

/-- What a `for` loop over `arc.points()` sees. -/
def points (a : Arc) : List Pt :=
  let it := a.pointsIt
  it.toListFuel (it.iter.points.budget + 1)

end Arc
end EG
