/-
  EG.Model.CheckedStyledScanline — checked kernels of scanline-based styled drawing:

    * `StyledScanline::{draw_stroke, draw_stroke_and_fill}`
      (src/primitives/common/styled_scanline.rs l. 48-69): two / three `Scanline::draw`, each
      `(self.x.end - self.x.start) as u32` in `i32` (`Chk.Scanline.drawRect`);
    * the "mirrored range" of the circle / ellipse scanline iterators:
      `columns.clone().find(pred).map(|x| x..columns.end - (x - columns.start))` — the
      predicate evaluated lazily from the left, then two `i32` subtractions;
    * `circle::points::Scanlines::{new, next}` (src/primitives/circle/points.rs l. 46-77):
      `center_2x`, `threshold`, per probed column `Point::new(x, y) * 2 - center_2x` and
      `delta.length_squared() as u32`;
      `circle::styled::StyledScanlines::{new, next}` (circle/styled.rs l. 159-189): the fill
      range searched with the fill threshold;
    * `ellipse::points::Scanlines::{new, next}` (src/primitives/ellipse/points.rs l. 46-84):
      `scaled_y = y * 2 - center_2x.y`, per probed column `x * 2 - center_2x.x` and
      `EllipseContains::contains`; rows without a hit are skipped (`find_map`);
      `ellipse::styled::StyledScanlines::{new, next}` (ellipse/styled.rs l. 155-183).
  (The rounded rectangle's `Scanlines` / `fill_range` are in Model/CheckedRRect.lean.)
-/
import EG.Model.CheckedScanline
import EG.Model.CheckedRRect
import EG.Model.Circle
import EG.Model.Ellipse
namespace EG.Chk
open EG

namespace StyledScanline

/-- the calls of one `Scanline::draw` -/
def drawOne (s : EG.Scanline) (c : Color) : Option (List Call) := do
  match ← Scanline.drawRect s with
  | none => pure []
  | some r => pure [Call.fillSolid r c]

/-- `draw_stroke`. -/
def drawStroke (s : EG.StyledScanline) (sc : Color) : Option (List Call) := do
  let a ← drawOne s.strokeLeft sc
  let b ← drawOne s.strokeRight sc
  pure (a ++ b)

/-- `draw_stroke_and_fill`. -/
def drawStrokeAndFill (s : EG.StyledScanline) (sc fc : Color) : Option (List Call) := do
  let a ← drawOne s.strokeLeft sc
  let f ← drawOne s.fill fc
  let b ← drawOne s.strokeRight sc
  pure (a ++ f ++ b)

end StyledScanline

/-- `.find(pred).map(|x| x..b - (x - a))` on the range `a..b`. -/
def mirroredRange (pred : Int → Option Bool) (a b : Int) : Option (Option (Int × Int)) := do
  match ← rangeFind pred a b with
  | none => pure none
  | some x =>
    let d ← chkI32 (x - a)
    let e ← chkI32 (b - d)
    pure (some (x, e))

namespace Circle

/-- The closure of `find`: `delta = Point::new(x, y) * 2 - center_2x`,
`(delta.length_squared() as u32) < threshold`. -/
def hit (center2x : Pt) (threshold : Nat) (y x : Int) : Option Bool := do
  let p2 ← ptMul ⟨x, y⟩ 2
  let delta ← ptSub p2 center2x
  let ls ← lengthSquared delta
  pure (decide (i32AsU32 ls < threshold))

/-- `Scanlines::new`. -/
def scanlines (c : EG.Circle) : Option EG.Circle.ScanlinesIt := do
  let bb := c.boundingBox
  let c2 ← center2x c
  let th ← diameterToThreshold c.d
  pure ⟨bb.tl.y, bb.rowsEnd, bb.tl.x, bb.columnsEnd, c2, th⟩

/-- The scanline of row `y`. -/
def row (it : EG.Circle.ScanlinesIt) (y : Int) : Option (Option EG.Scanline) := do
  let r ← mirroredRange (hit it.center2x it.threshold y) it.xs it.xe
  pure (r.map (fun r => ⟨y, r.1, r.2⟩))

/-- `Scanlines::next`. -/
def next (it : EG.Circle.ScanlinesIt) : Option (Option EG.Scanline × EG.Circle.ScanlinesIt) :=
  if it.y < it.yEnd then do
    let r ← row it it.y
    pure (r, { it with y := it.y + 1 })
  else pure (none, it)

/-- `StyledScanlines::new(stroke_area, fill_area)`. -/
def styledScanlines (strokeArea fillArea : EG.Circle) : Option EG.Circle.StyledScanlinesIt := do
  let sl ← scanlines strokeArea
  let ft ← diameterToThreshold fillArea.d
  pure ⟨sl, ft⟩

/-- The closure of `.map(|scanline| ..)` of `StyledScanlines::next`. -/
def style (it : EG.Circle.StyledScanlinesIt) (s : EG.Scanline) : Option EG.StyledScanline := do
  let r ← mirroredRange (hit it.scanlines.center2x it.fillThreshold s.y) s.xs s.xe
  pure (EG.StyledScanline.new s.y s.xs s.xe r)

/-- `StyledScanlines::next`. -/
def styledNext (it : EG.Circle.StyledScanlinesIt) :
    Option (Option EG.StyledScanline × EG.Circle.StyledScanlinesIt) := do
  let r ← next it.scanlines
  match r.1 with
  | some s => do
    let st ← style it s
    pure (some st, { it with scanlines := r.2 })
  | none => pure (none, { it with scanlines := r.2 })

end Circle

namespace Ellipse

/-- The closure of `find`, `scaled_y` already computed:
`ellipse_contains.contains(Point::new(x * 2 - center_2x.x, scaled_y))`. -/
def hitScaled (cx : Int) (ec : EG.EllipseContains) (scaledY x : Int) : Option Bool := do
  let x2 ← chkI32 (x * 2)
  let sx ← chkI32 (x2 - cx)
  EllipseContains.contains ec ⟨sx, scaledY⟩

/-- The closure of `find_map` for row `y`: `scaled_y = y * 2 - center_2x.y` first. -/
def rowOf (center2x : Pt) (ec : EG.EllipseContains) (xs xe y : Int) : Option (Option (Int × Int)) := do
  let y2 ← chkI32 (y * 2)
  let sy ← chkI32 (y2 - center2x.y)
  mirroredRange (hitScaled center2x.x ec sy) xs xe

/-- `Scanlines::new`. -/
def scanlines (e : EG.Ellipse) : Option EG.Ellipse.ScanlinesIt := do
  let bb := e.boundingBox
  let c2 ← center2x e
  let ec ← EllipseContains.new e.size
  pure ⟨bb.tl.y, bb.rowsEnd, bb.tl.x, bb.columnsEnd, c2, ec⟩

/-- `Scanlines::next` = `rows.find_map(..)`. -/
def nextFuel : Nat → EG.Ellipse.ScanlinesIt → Option (Option EG.Scanline × EG.Ellipse.ScanlinesIt)
  | 0, it => pure (none, it)
  | fuel + 1, it =>
    if it.y < it.yEnd then do
      match ← rowOf it.center2x it.ec it.xs it.xe it.y with
      | some r => pure (some ⟨it.y, r.1, r.2⟩, { it with y := it.y + 1 })
      | none => nextFuel fuel { it with y := it.y + 1 }
    else pure (none, it)

def next (it : EG.Ellipse.ScanlinesIt) : Option (Option EG.Scanline × EG.Ellipse.ScanlinesIt) :=
  nextFuel ((it.yEnd - it.y).toNat + 1) it

/-- `StyledScanlines::new(stroke_area, fill_area)`. -/
def styledScanlines (strokeArea fillArea : EG.Ellipse) : Option EG.Ellipse.StyledScanlinesIt := do
  let sl ← scanlines strokeArea
  let fa ← EllipseContains.new fillArea.size
  pure ⟨sl, fa⟩

/-- The closure of `.map(|scanline| ..)` of `StyledScanlines::next`. -/
def style (it : EG.Ellipse.StyledScanlinesIt) (s : EG.Scanline) : Option EG.StyledScanline := do
  let r ← rowOf it.scanlines.center2x it.fillArea s.xs s.xe s.y
  pure (EG.StyledScanline.new s.y s.xs s.xe r)

/-- `StyledScanlines::next`. -/
def styledNext (it : EG.Ellipse.StyledScanlinesIt) :
    Option (Option EG.StyledScanline × EG.Ellipse.StyledScanlinesIt) := do
  let r ← next it.scanlines
  match r.1 with
  | some s => do
    let st ← style it s
    pure (some st, { it with scanlines := r.2 })
  | none => pure (none, { it with scanlines := r.2 })

end Ellipse
end EG.Chk
