/-
  EG.Model.LineJoin — `common::LineJoin` / `JoinKind` / `EdgeCorners`, arm for arm, and the
  `StrokeOffset::Left/Right` arms of `Line::extents`.
  Source: src/primitives/common/line_join.rs, src/primitives/line/mod.rs (`extents`, `midpoint`).

  `Line::extents` runs the `ParallelsIterator` (EG.Model.ThickLine). Its `loop`s are bounded by
  explicit fuel there and report an exhausted bound as `none` ("stuck"); that `Option` is threaded
  through everything here (`Option` monad): outer `none` = a loop bound was exceeded (the driver
  prints `stuck`, which would be a correspondence disagreement), never a made-up value. That the
  bounds are never exceeded is a theorem: `EG.Joins.extents_total` (EG/Lemmas/ExtentsTotal.lean),
  for every line, width and stroke offset; hence `LineJoin.start / stop / fromPoints` are total.
  The geometry after the extents is pure: `LineJoin.fromExtents`.
-/
import EG.Model.Intersection
namespace EG
namespace Joins
open Thick (LineSide StrokeOffset)

open Thick (ParallelsIterator ParallelLineType extentsLoop)

/-- `Iterator::last` on the `ParallelsIterator` (`StrokeOffset::Left/Right` arms of `extents`):
the last item before the first `None`. `fuel` bounds the number of parallels. -/
def lastParallel : Nat → ParallelsIterator → Option (Bresenham × ParallelLineType) →
    Option (Option (Bresenham × ParallelLineType))
  | 0, _, _ => none
  | fuel + 1, it, acc =>
    match it.next with
    | none => none
    | some (none, _) => some acc
    | some (some r, it) => lastParallel fuel it (some r)

/-- `Line::extents(thickness, stroke_offset)`: `(left_line, right_line)`. -/
def extents (l : Line) (thickness : Nat) (strokeOffset : StrokeOffset) : Option (Line × Line) := do
  let it ← ParallelsIterator.new l (satAsI32 thickness) strokeOffset
  let reduce := it.parallelParameters.positionStep.major + it.parallelParameters.positionStep.minor
  let init : Pt × ParallelLineType := (l.start, .normal)
  let (left, right) ←
    match strokeOffset with
    | .none => extentsLoop (2 * thickness + 4) it init init
    | .left =>
      match lastParallel (4 * thickness + 8) it none with
      | none => none
      | some none => some (init, init)
      | some (some (b, ty)) => some ((b.point, ty), init)
    | .right =>
      match lastParallel (4 * thickness + 8) it none with
      | none => none
      | some none => some (init, init)
      | some (some (b, ty)) => some (init, (b.point, ty))
  let delta := l.stop - l.start
  let mk := fun (s : Pt × ParallelLineType) =>
    (⟨s.1, s.1 + delta - (match s.2 with | .normal => Pt.zero | .extra => reduce)⟩ : Line)
  pure (mk left, mk right)

/-- `Line::midpoint`: `start + (end - start) / 2` (truncating). -/
def midpoint (l : Line) : Pt :=
  let d := l.stop - l.start
  l.start + ⟨tdiv2 d.x, tdiv2 d.y⟩

/-- `JoinKind`. -/
inductive JoinKind
  | miter
  | bevel (outerSide : LineSide)
  | degenerate (outerSide : LineSide)
  | colinear
  | start
  | stop       -- Rust `End`
  deriving DecidableEq, Repr

/-- `EdgeCorners { left, right }`. -/
structure EdgeCorners where
  left : Pt
  right : Pt
  deriving DecidableEq, Repr

/-- `LineJoin { kind, first_edge_end, second_edge_start }`. -/
structure LineJoin where
  kind : JoinKind
  firstEdgeEnd : EdgeCorners
  secondEdgeStart : EdgeCorners
  deriving DecidableEq, Repr

/-- The private `intersections(first_edge_left, first_edge_right, second_edge_left,
second_edge_right)` of line_join.rs. -/
def intersections (firstEdgeLeft firstEdgeRight secondEdgeLeft secondEdgeRight : Line) :
    Option (Pt × LineSide × Pt) :=
  let params := IntersectionParams.fromLines secondEdgeLeft firstEdgeLeft
  match params.intersection with
  | .colinear => none
  | .point point outerSide =>
    let lIntersection := if !params.nearlyColinearHasError then point else firstEdgeLeft.stop
    let params := IntersectionParams.fromLines secondEdgeRight firstEdgeRight
    match params.intersection with
    | .colinear => none
    | .point point _ =>
      let rIntersection := if !params.nearlyColinearHasError then point else firstEdgeRight.stop
      some (lIntersection, outerSide, rIntersection)

namespace LineJoin

/-- `LineJoin::empty`. -/
def empty : LineJoin := ⟨.stop, ⟨Pt.zero, Pt.zero⟩, ⟨Pt.zero, Pt.zero⟩⟩

/-- `LineJoin::start`. -/
def start (start mid : Pt) (width : Nat) (strokeOffset : StrokeOffset) : Option LineJoin := do
  let (l, r) ← extents ⟨start, mid⟩ width strokeOffset
  let points : EdgeCorners := ⟨l.start, r.start⟩
  pure ⟨.start, points, points⟩

/-- `LineJoin::end`. -/
def stop (mid stop : Pt) (width : Nat) (strokeOffset : StrokeOffset) : Option LineJoin := do
  let (l, r) ← extents ⟨mid, stop⟩ width strokeOffset
  let points : EdgeCorners := ⟨l.stop, r.stop⟩
  pure ⟨.stop, points, points⟩

/-- The body of `LineJoin::from_points` after the four edge lines have been computed. -/
def fromExtents (mid : Pt) (width : Nat)
    (firstEdgeLeft firstEdgeRight secondEdgeLeft secondEdgeRight : Line) : LineJoin :=
  match intersections firstEdgeLeft firstEdgeRight secondEdgeLeft secondEdgeRight with
  | some (lIntersection, outerSide, rIntersection) =>
    -- Check if the inside end point of the second line lies inside the first segment.
    let selfIntersection := match outerSide with
      | .right => (LinearEquation.fromLine firstEdgeLeft).checkSide secondEdgeLeft.stop .right
      | .left => (LinearEquation.fromLine firstEdgeRight).checkSide secondEdgeRight.stop .left
    if !selfIntersection then
      let outerPoint := match outerSide with
        | .left => lIntersection
        | .right => rIntersection
      let miterLengthSquared := (Line.delta ⟨mid, outerPoint⟩).lengthSquared
      let miterLimit : Int := ((width * 2) * (width * 2) : Nat)
      if miterLengthSquared ≤ miterLimit then
        let corners : EdgeCorners := ⟨lIntersection, rIntersection⟩
        ⟨.miter, corners, corners⟩
      else
        match outerSide with
        | .right =>
          ⟨.bevel outerSide, ⟨lIntersection, firstEdgeRight.stop⟩,
            ⟨lIntersection, secondEdgeRight.start⟩⟩
        | .left =>
          ⟨.bevel outerSide, ⟨firstEdgeLeft.stop, rIntersection⟩,
            ⟨secondEdgeLeft.start, rIntersection⟩⟩
    else
      ⟨.degenerate outerSide, ⟨firstEdgeLeft.stop, firstEdgeRight.stop⟩,
        ⟨secondEdgeLeft.start, secondEdgeRight.start⟩⟩
  | none =>
    ⟨.colinear, ⟨firstEdgeLeft.stop, firstEdgeRight.stop⟩,
      ⟨secondEdgeLeft.start, secondEdgeRight.start⟩⟩

/-- `LineJoin::from_points`. -/
def fromPoints (start mid stop : Pt) (width : Nat) (strokeOffset : StrokeOffset) :
    Option LineJoin := do
  let (firstEdgeLeft, firstEdgeRight) ← extents ⟨start, mid⟩ width strokeOffset
  let (secondEdgeLeft, secondEdgeRight) ← extents ⟨mid, stop⟩ width strokeOffset
  pure (fromExtents mid width firstEdgeLeft firstEdgeRight secondEdgeLeft secondEdgeRight)

/-- `filler_line`. -/
def fillerLine (j : LineJoin) : Option Line :=
  match j.kind with
  | .bevel outerSide | .degenerate outerSide =>
    match outerSide with
    | .left => some ⟨j.firstEdgeEnd.left, j.secondEdgeStart.left⟩
    | .right => some ⟨j.firstEdgeEnd.right, j.secondEdgeStart.right⟩
  | _ => none

/-- `cap`. -/
def cap (j : LineJoin) (cap : EdgeCorners) : Line × Option Line :=
  match j.fillerLine with
  | some filler =>
    let mp := midpoint filler
    (⟨cap.left, mp⟩, some ⟨mp, cap.right⟩)
  | none => (⟨cap.left, cap.right⟩, none)

/-- `start_cap_lines`. -/
def startCapLines (j : LineJoin) : Line × Option Line := j.cap j.secondEdgeStart

/-- `end_cap_lines`. -/
def endCapLines (j : LineJoin) : Line × Option Line := j.cap j.firstEdgeEnd

/-- `is_degenerate`. -/
def isDegenerate (j : LineJoin) : Bool :=
  match j.kind with
  | .degenerate _ => true
  | _ => false

end LineJoin

end Joins
end EG
