/-
  EG.Model.StyledRect — `Styled<Rectangle, PrimitiveStyle<C>>` with a solid stroke, arm for arm.
  Source: src/primitives/rectangle/styled.rs (`draw_styled` solid branch, `StyledPixelsIterator`,
          `styled_bounding_box`), src/primitives/rectangle/mod.rs (`impl OffsetOutline for Rectangle`,
          the same body as `Rectangle::offset` = `Rect.offset`), src/primitives/primitive_style.rs
          (`fill_area`, `stroke_area`).

  Plain `u32` / `i32` arithmetic of the source (`stroke_width * 2`, `width + 1`, `height - top`,
  `Point + Size` with its `as i32`) is mathematical here; `min`, `saturating_sub` (= `Nat` `-`)
  and `/ 2` are as in the code.
-/
import EG.Model.Style
namespace EG
namespace StyledRect

/-- `style.fill_area(rect)`. -/
def fillArea (s : Style) (r : Rect) : Rect := r.offset s.fillOffset

/-- `style.stroke_area(rect)`. -/
def strokeArea (s : Style) (r : Rect) : Rect := r.offset s.strokeOffset

/-- `styled_bounding_box`: `self.bounding_box().offset(outside_stroke_width().saturating_as())`. -/
def styledBoundingBox (s : Style) (r : Rect) : Rect := r.offset s.strokeOffset

/-- `top_border`. -/
def topBorder (s : Style) (r : Rect) : Rect :=
  let sa := strokeArea s r
  ⟨sa.tl, ⟨sa.size.w, min s.width (sa.size.h / 2)⟩⟩

/-- `bottom_stroke_width = stroke_width.min(stroke_area.size.height - top_border.size.height)`. -/
def bottomStrokeWidth (s : Style) (r : Rect) : Nat :=
  min s.width ((strokeArea s r).size.h - (topBorder s r).size.h)

/-- `bottom_border`: `top_border.top_left + Size::new(0, height.saturating_sub(bottom_stroke_width))`. -/
def bottomBorder (s : Style) (r : Rect) : Rect :=
  let sa := strokeArea s r
  let top := topBorder s r
  let bsw := bottomStrokeWidth s r
  ⟨⟨top.tl.x + ((0 : Nat) : Int), top.tl.y + ((sa.size.h - bsw : Nat) : Int)⟩, ⟨sa.size.w, bsw⟩⟩

/-- `left_border` (only computed when `fill_area.size.height > 0`). -/
def leftBorder (s : Style) (r : Rect) : Rect :=
  let sa := strokeArea s r
  let top := topBorder s r
  ⟨⟨sa.tl.x + ((0 : Nat) : Int), sa.tl.y + (top.size.h : Int)⟩,
   ⟨min (s.width * 2) (sa.size.w + 1) / 2, (fillArea s r).size.h⟩⟩

/-- `right_border = left_border.translate((width.saturating_sub(left.width)) as i32, 0)`. -/
def rightBorder (s : Style) (r : Rect) : Rect :=
  let sa := strokeArea s r
  let left := leftBorder s r
  left.translate ⟨((sa.size.w - left.size.w : Nat) : Int), 0⟩

/-- The stroke part of `draw_styled`, in the code's order. -/
def strokeCalls (s : Style) (r : Rect) (sc : Color) : List Call :=
  [Call.fillSolid (topBorder s r) sc, Call.fillSolid (bottomBorder s r) sc] ++
    (if (fillArea s r).size.h > 0 then
      [Call.fillSolid (leftBorder s r) sc, Call.fillSolid (rightBorder s r) sc]
     else [])

/-- The fill part of `draw_styled`. -/
def fillCalls (s : Style) (r : Rect) : List Call :=
  match s.fill with
  | some fc => [Call.fillSolid (fillArea s r) fc]
  | none => []

/-- `draw_styled` as the list of target calls it makes (no error: every call returns `Ok`). -/
def drawCalls (s : Style) (r : Rect) : List Call :=
  fillCalls s r ++
    (match s.effectiveStrokeColor with
     | none => []
     | some sc => strokeCalls s r sc)

/-! ### `StyledPixelsIterator` — the iterator as a state machine -/

structure PixelsIt where
  iter : Rect.PointsIt          -- iter: Points
  strokeColor : Option Color    -- stroke_color (not the effective one)
  fillArea : Rect               -- fill_area
  fillColor : Option Color      -- fill_color
  deriving Repr

/-- `StyledPixelsIterator::new`. -/
def pixelsIt (s : Style) (r : Rect) : PixelsIt :=
  { iter := if !s.isTransparent then (strokeArea s r).pointsIt else Rect.PointsIt.empty
    strokeColor := s.stroke
    fillArea := fillArea s r
    fillColor := s.fill }

/-- The colour choice of the loop body: fill colour inside the fill area, else the stroke colour. -/
def PixelsIt.colorAt (it : PixelsIt) (p : Pt) : Option Color :=
  if it.fillArea.contains p then it.fillColor else it.strokeColor

/-- One call of `Iterator::next`: `for point in &mut self.iter { .. if let Some(color) = color
{ return Some(Pixel(point, color)) } } None`. The loop runs at most once per remaining point of
the inner iterator; `fuel` is that bound. -/
def PixelsIt.nextFuel : Nat → PixelsIt → Option ((Pt × Color) × PixelsIt)
  | 0, _ => none
  | fuel + 1, it =>
    match it.iter.next with
    | none => none
    | some (p, iter') =>
      match it.colorAt p with
      | some c => some ((p, c), { it with iter := iter' })
      | none => nextFuel fuel { it with iter := iter' }

def PixelsIt.next (it : PixelsIt) : Option ((Pt × Color) × PixelsIt) :=
  it.nextFuel it.iter.budget

def PixelsIt.toListFuel : Nat → PixelsIt → Writes
  | 0, _ => []
  | fuel + 1, it =>
    match it.next with
    | some (w, it') => w :: toListFuel fuel it'
    | none => []

/-- `styled.pixels()` as a `for` loop sees it. -/
def pixelsList (s : Style) (r : Rect) : Writes :=
  let it := pixelsIt s r
  it.toListFuel it.iter.budget

/-- Closed form of one pixel (specification): the colour choice and the `if let Some(color)`. -/
def pixelOf (s : Style) (r : Rect) (p : Pt) : Option (Pt × Color) :=
  let color := if (fillArea s r).contains p then s.fill else s.stroke
  match color with
  | some c => some (p, c)
  | none => none

/-- Closed form of `pixelsList` (specification): the points of the stroke area (none when the
style is transparent), each mapped through the colour choice, colourless points skipped. -/
def pixelsSpec (s : Style) (r : Rect) : Writes :=
  (if !s.isTransparent then (strokeArea s r).points else []).filterMap (pixelOf s r)

end StyledRect
end EG
