/-
  EG.Model.StyledScanline — `primitives::common::StyledScanline`, arm for arm, plus the two
  renderers every scanline-based styled shape (circle, ellipse, rounded rectangle) builds on it:

  * the draw path  — `draw_styled`: `for scanline in <source> { scanline.draw_stroke(..)? }` etc.
    (`drawLines`, `drawFillLines`), a list of `fill_solid` calls;
  * the pixels path — the `StyledPixelsIterator` of circle/styled.rs, ellipse/styled.rs and
    rounded_rectangle/styled.rs (the three `next` functions are textually identical apart from the
    type of the scanline source) — `StyledPixelsIt`.

  Source: src/primitives/common/styled_scanline.rs, src/primitives/{circle,ellipse,
  rounded_rectangle}/styled.rs

  The scanline source of a `StyledPixelsIterator` is only ever polled with `next()?`, so the first
  `None` of the source ends the pixel stream for a `for` loop; the model therefore holds the source
  as the list of styled scanlines it yields before its first `None` (its `toList`).
-/
import EG.Model.Scanline
namespace EG

structure StyledScanline where
  y : Int
  ss : Int   -- stroke_range.start
  se : Int   -- stroke_range.end
  fs : Int   -- fill_range.start
  fe : Int   -- fill_range.end
  deriving DecidableEq, Repr, Inhabited

namespace StyledScanline

/-- `StyledScanline::new(y, stroke_range, fill_range)`:
`fill_range.unwrap_or_else(|| stroke_range.end..stroke_range.end)` -/
def new (y ss se : Int) (fill : Option (Int × Int)) : StyledScanline :=
  match fill with
  | some (a, b) => ⟨y, ss, se, a, b⟩
  | none => ⟨y, ss, se, se, se⟩

def strokeLeft (s : StyledScanline) : Scanline := ⟨s.y, s.ss, s.fs⟩
def strokeRight (s : StyledScanline) : Scanline := ⟨s.y, s.fe, s.se⟩
def fill (s : StyledScanline) : Scanline := ⟨s.y, s.fs, s.fe⟩

/-- `draw_stroke` -/
def drawStroke (s : StyledScanline) (sc : Color) : List Call :=
  s.strokeLeft.draw sc ++ s.strokeRight.draw sc

/-- `draw_stroke_and_fill` -/
def drawStrokeAndFill (s : StyledScanline) (sc fc : Color) : List Call :=
  s.strokeLeft.draw sc ++ s.fill.draw fc ++ s.strokeRight.draw sc

end StyledScanline

/-! ### The draw path of `draw_styled` over a list of (styled) scanlines -/

/-- `(Some(stroke), None)` and `(Some(stroke), Some(fill))` arms of `draw_styled`, over the styled
scanlines `lines` the `for` loop sees. -/
def drawLines (sc : Color) (fc : Option Color) (lines : List StyledScanline) : List Call :=
  match fc with
  | none => lines.flatMap (fun l => l.drawStroke sc)
  | some fc => lines.flatMap (fun l => l.drawStrokeAndFill sc fc)

/-- `(None, Some(fill))` arm of `draw_styled`, over plain scanlines. -/
def drawFillLines (fc : Color) (lines : List Scanline) : List Call :=
  lines.flatMap (fun l => l.draw fc)

/-! ### The pixels path: `StyledPixelsIterator` -/

structure StyledPixelsIt where
  src : List StyledScanline      -- `styled_scanlines` (what it still yields before its first `None`)
  strokeLeft : Scanline
  fill : Scanline
  strokeRight : Scanline
  strokeColor : Option Color
  fillColor : Option Color
  deriving Repr

namespace StyledPixelsIt

/-- `StyledPixelsIterator::new`: note `stroke_color` is the style's `stroke_color`, not
`effective_stroke_color()`. -/
def new (src : List StyledScanline) (strokeColor fillColor : Option Color) : StyledPixelsIt :=
  ⟨src, Scanline.newEmpty 0, Scanline.newEmpty 0, Scanline.newEmpty 0, strokeColor, fillColor⟩

/-- `(Some(stroke), None) => loop { .. }` -/
def loopStroke (sc : Color) :
    List StyledScanline → Scanline → Scanline → Scanline → Option ((Pt × Color) × StyledPixelsIt)
  | src, sl, f, sr =>
    match sl.next with
    | some (p, sl') => some ((p, sc), ⟨src, sl', f, sr, some sc, none⟩)
    | none =>
      match sr.next with
      | some (p, sr') => some ((p, sc), ⟨src, sl, f, sr', some sc, none⟩)
      | none =>
        match src with
        | [] => none
        | l :: rest => loopStroke sc rest l.strokeLeft f l.strokeRight

/-- `(Some(stroke), Some(fill)) => loop { .. }` -/
def loopBoth (sc fc : Color) :
    List StyledScanline → Scanline → Scanline → Scanline → Option ((Pt × Color) × StyledPixelsIt)
  | src, sl, f, sr =>
    match sl.next with
    | some (p, sl') => some ((p, sc), ⟨src, sl', f, sr, some sc, some fc⟩)
    | none =>
      match f.next with
      | some (p, f') => some ((p, fc), ⟨src, sl, f', sr, some sc, some fc⟩)
      | none =>
        match sr.next with
        | some (p, sr') => some ((p, sc), ⟨src, sl, f, sr', some sc, some fc⟩)
        | none =>
          match src with
          | [] => none
          | l :: rest => loopBoth sc fc rest l.strokeLeft l.fill l.strokeRight

/-- `(None, Some(fill)) => loop { .. }` -/
def loopFill (fc : Color) :
    List StyledScanline → Scanline → Scanline → Scanline → Option ((Pt × Color) × StyledPixelsIt)
  | src, sl, f, sr =>
    match f.next with
    | some (p, f') => some ((p, fc), ⟨src, sl, f', sr, none, some fc⟩)
    | none =>
      match src with
      | [] => none
      | l :: rest => loopFill fc rest sl l.fill sr

/-- `Iterator::next` -/
def next (it : StyledPixelsIt) : Option ((Pt × Color) × StyledPixelsIt) :=
  match it.strokeColor, it.fillColor with
  | some sc, none => loopStroke sc it.src it.strokeLeft it.fill it.strokeRight
  | some sc, some fc => loopBoth sc fc it.src it.strokeLeft it.fill it.strokeRight
  | none, some fc => loopFill fc it.src it.strokeLeft it.fill it.strokeRight
  | none, none => none

def lenOf (s : Scanline) : Nat := (s.xe - s.xs).toNat

/-- Upper bound on the number of pixels still to come (step budget of `toList`). -/
def budget (it : StyledPixelsIt) : Nat :=
  lenOf it.strokeLeft + lenOf it.fill + lenOf it.strokeRight +
    (it.src.map (fun l => lenOf l.strokeLeft + lenOf l.fill + lenOf l.strokeRight)).sum

def toListFuel : Nat → StyledPixelsIt → Writes
  | 0, _ => []
  | fuel + 1, it =>
    match it.next with
    | some (w, it') => w :: toListFuel fuel it'
    | none => []

/-- What a `for` loop (`draw_iter`) sees. -/
def toList (it : StyledPixelsIt) : Writes := it.toListFuel (it.budget + 1)

end StyledPixelsIt

/-- Closed form of the pixels path (specification): per styled scanline the coloured points of
`stroke_left`, `fill`, `stroke_right`, in that order, as far as the colours are set. -/
def StyledScanline.pixelsSpec (sc fc : Option Color) (l : StyledScanline) : Writes :=
  match sc, fc with
  | some sc, none => l.strokeLeft.points.map (·, sc) ++ l.strokeRight.points.map (·, sc)
  | some sc, some fc =>
    l.strokeLeft.points.map (·, sc) ++ l.fill.points.map (·, fc) ++ l.strokeRight.points.map (·, sc)
  | none, some fc => l.fill.points.map (·, fc)
  | none, none => []

def pixelsSpec (sc fc : Option Color) (lines : List StyledScanline) : Writes :=
  lines.flatMap (StyledScanline.pixelsSpec sc fc)

end EG
