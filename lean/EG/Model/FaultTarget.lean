/-
  EG.Model.FaultTarget — targets whose calls can FAIL: the recording roots with fault injection and
  the four adapters with their `Result` plumbing (C04 through the adapters).

  Sources, transcribed arm for arm:
    harness/src/common.rs                    `Rec::enter`, `do_draw_iter`, `R1` (draw_iter only), `R2` (native fills)
    /repo/core/src/draw_target/mod.rs        trait defaults  fill_contiguous -> self.draw_iter,
                                             fill_solid -> self.fill_contiguous, clear -> self.fill_solid
    /repo/src/draw_target/clipped.rs         draw_iter / fill_contiguous (two arms) / fill_solid; `clear` NOT overridden
    /repo/src/draw_target/cropped.rs         holds `parent.translated(area.top_left)`; three forwards; `clear` NOT overridden
    /repo/src/draw_target/translated.rs      four forwards
    /repo/src/draw_target/color_converted.rs four forwards

  What is modelled. `Result<(), TErr>` is `Except Nat Unit` (`TErr(k)` = `k`). A target method is a
  function `RootState -> Except Nat Unit × RootState`: every adapter holds `&mut parent`, so the only
  mutable state anywhere in a stack is the root's record `Rec`; it survives an error (the harness
  reads `t.rec` after the run). A target is the record of its four methods and its
  `bounding_box()`; an adapter's constructor takes the parent TARGET (not a call-to-call map) and
  builds its methods from the parent's methods exactly as the Rust bodies do. In every one of these
  bodies the parent call is the TAIL expression (no `?`, no statement after it), so the model's
  method IS the parent's method applied to other arguments; where a default method calls another
  method of `self` (`clear -> self.fill_solid`, `fill_solid -> self.fill_contiguous`,
  `fill_contiguous -> self.draw_iter`) the model calls the method of the SAME record, overridden or
  not. That each adapter call becomes exactly one parent call, namely `Adapter.lower` of it, with
  the parent's result returned unchanged, is not assumed here: it is `FTarget.wrap_call`
  (EG/Lemmas/FaultTarget.lean), proved from this transcription.

  A drawable's `draw` is the call list of its model (`StyledRect.drawCalls`, `Circle.drawStyled`, ...)
  issued with `?` after each call: `runCalls` stops at the first `Err` and returns it.

  What is NOT modelled: colour streams are finite lists (the `repeat(color)` of the default
  `fill_solid` is the `List.replicate` of `Call.lowerDefault`), so how many colours a failing parent
  pulled from a lazy iterator is outside the model; pixel budget / `outside` counters of `Rec`
  (they do not influence results or the log).
-/
import EG.Model.Adapters
namespace EG

/-- `Result<(), TErr>` -/
abbrev FRes := Except Nat Unit

/-- The fields of `Rec` (common.rs) that fault injection reads or writes. `log` is in call order. -/
structure RootState where
  failAt : Option Nat
  calls : Nat
  callsAfterError : Nat
  errored : Bool
  log : List Call
  deriving Repr

/-- `Rec::new` followed by `t.rec.fail_at = fail_at`. -/
def RootState.init (failAt : Option Nat) : RootState := ⟨failAt, 0, 0, false, []⟩

/-- A target method: result and the root's record afterwards. -/
abbrev FMethod := RootState → FRes × RootState

/-- `Rec::enter`:
```
if self.errored { self.calls_after_error += 1; }
let k = self.calls; self.calls += 1;
if self.fail_at == Some(k) { self.errored = true; return Err(TErr(k)); }
Ok(())
``` -/
def RootState.enter (st : RootState) : FRes × RootState :=
  let st1 := if st.errored then { st with callsAfterError := st.callsAfterError + 1 } else st
  let k := st1.calls
  let st2 := { st1 with calls := st1.calls + 1 }
  if st2.failAt = some k then (.error k, { st2 with errored := true })
  else (.ok (), st2)

/-- `self.rec.enter()?; ...; self.rec.log.push(call); Ok(())` — the shape of every method the
recording targets implement themselves: a failing call logs NOTHING, a call after a failure is
counted in `calls_after_error` and (succeeding) is logged like any other. -/
def RootState.record (call : Call) : FMethod := fun st =>
  match st.enter with
  | (.error e, st') => (.error e, st')
  | (.ok (), st') => (.ok (), { st' with log := st'.log ++ [call] })

/-- A draw target: its four methods and `bounding_box()`. -/
structure FTarget where
  bbox : Rect
  drawIter : Writes → FMethod
  fillContiguous : Rect → List Color → FMethod
  fillSolid : Rect → Color → FMethod
  clear : Color → FMethod

namespace FTarget

/-! ### The trait defaults (core/src/draw_target/mod.rs), each a tail call on `self` -/

/-- `self.draw_iter(area.points().zip(colors).map(|(pos, color)| Pixel(pos, color)))` -/
def defaultFillContiguous (selfDrawIter : Writes → FMethod) (area : Rect) (cs : List Color) : FMethod :=
  selfDrawIter (area.points.zip cs)

/-- `self.fill_contiguous(area, core::iter::repeat(color))`; the infinite stream is cut to the
number of points of the area, which is all a `zip` with `area.points()` can consume (the
convention of `Call.lowerDefault`). -/
def defaultFillSolid (selfFillContiguous : Rect → List Color → FMethod) (area : Rect) (c : Color) : FMethod :=
  selfFillContiguous area (List.replicate area.points.length c)

/-- `self.fill_solid(&self.bounding_box(), color)` -/
def defaultClear (selfBox : Rect) (selfFillSolid : Rect → Color → FMethod) (c : Color) : FMethod :=
  selfFillSolid selfBox c

/-! ### The recording roots (harness/src/common.rs) -/

/-- `R2`: all four methods native; each is `enter()?`, side effects on the map, `log.push`. -/
def rootNative (B : Rect) : FTarget where
  bbox := B
  drawIter px := RootState.record (.drawIter px)
  fillContiguous area cs := RootState.record (.fillContiguous area cs)
  fillSolid area c := RootState.record (.fillSolid area c)
  clear c := RootState.record (.clear c)

/-- `R1`: `draw_iter` only (`do_draw_iter`), the other three are the trait defaults. -/
def rootDefault (B : Rect) : FTarget :=
  let di : Writes → FMethod := fun px => RootState.record (.drawIter px)
  let fc := defaultFillContiguous di
  let fs := defaultFillSolid fc
  { bbox := B, drawIter := di, fillContiguous := fc, fillSolid := fs, clear := defaultClear B fs }

def root (native : Bool) (B : Rect) : FTarget := if native then rootNative B else rootDefault B

/-! ### The adapters -/

/-- `Translated::new(parent, offset)` (translated.rs:27-69). -/
def translated (parent : FTarget) (offset : Pt) : FTarget where
  -- parent.bounding_box().translate(-self.offset)
  bbox := parent.bbox.translate (-offset)
  -- self.parent.draw_iter(pixels.into_iter().translated(self.offset))
  drawIter px := parent.drawIter (px.map (fun w => (w.1 + offset, w.2)))
  -- let area = area.translate(self.offset); self.parent.fill_contiguous(&area, colors)
  fillContiguous area cs := parent.fillContiguous (area.translate offset) cs
  -- let area = area.translate(self.offset); self.parent.fill_solid(&area, color)
  fillSolid area c := parent.fillSolid (area.translate offset) c
  -- self.parent.clear(color)
  clear c := parent.clear c

/-- `Clipped::new(parent, clip_area)` (clipped.rs:21-80): `clip_area` is intersected with the
parent's box at construction; `clear` is the trait default on `self`. -/
def clipped (parent : FTarget) (clipArea : Rect) : FTarget :=
  let clip := clipArea.intersection parent.bbox
  -- let area = area.intersection(&self.clip_area); self.parent.fill_solid(&area, color)
  let fs : Rect → Color → FMethod := fun area c => parent.fillSolid (area.intersection clip) c
  { bbox := clip
    -- self.parent.draw_iter(pixels.into_iter().filter(|Pixel(p, _)| self.clip_area.contains(*p)))
    drawIter := fun px => parent.drawIter (px.filter (fun w => clip.contains w.1))
    fillContiguous := fun area cs =>
      -- let intersection = self.bounding_box().intersection(area);
      let intersection := clip.intersection area
      -- if &intersection == area { self.parent.fill_contiguous(area, colors) }
      if intersection = area then parent.fillContiguous area cs
      else
        -- let crop_area = intersection.translate(-area.top_left);
        -- let cropped = Cropped::new(colors.into_iter(), area.size, &crop_area);
        -- self.parent.fill_contiguous(&intersection, cropped)
        let cropArea := intersection.translate (-area.tl)
        parent.fillContiguous intersection (croppedList cs area.size cropArea)
    fillSolid := fs
    clear := defaultClear clip fs }

/-- `Cropped::new(parent, area)` (cropped.rs:21-66): `area` is intersected with the parent's box,
the struct holds `parent.translated(area.top_left)` and `size`; the three overridden methods are
`self.parent.<same method>(same arguments)`; `clear` is the trait default on `self` with
`OriginDimensions::bounding_box() = Rectangle::new(Point::zero(), self.size)`. -/
def cropped (parent : FTarget) (area : Rect) : FTarget :=
  let area := area.intersection parent.bbox
  let inner := translated parent area.tl
  let box : Rect := ⟨Pt.zero, area.size⟩
  let fs : Rect → Color → FMethod := fun a c => inner.fillSolid a c
  { bbox := box
    drawIter := fun px => inner.drawIter px
    fillContiguous := fun a cs => inner.fillContiguous a cs
    fillSolid := fs
    clear := defaultClear box fs }

/-- `ColorConverted::new(parent)` (color_converted.rs:16-75), `f` = the `Into<T::Color>` of the
colour type. -/
def converted (parent : FTarget) (f : Color → Color) : FTarget where
  bbox := parent.bbox
  -- self.parent.draw_iter(pixels.into_iter().map(|Pixel(p, c)| Pixel(p, c.into())))
  drawIter px := parent.drawIter (px.map (fun w => (w.1, f w.2)))
  -- self.parent.fill_contiguous(area, colors.into_iter().map(|c| c.into()))
  fillContiguous area cs := parent.fillContiguous area (cs.map f)
  -- self.parent.fill_solid(area, color.into())
  fillSolid area c := parent.fillSolid area (f c)
  -- self.parent.clear(color.into())
  clear c := parent.clear (f c)

/-- `DrawTargetExt::{clipped, cropped, translated, color_converted}` on `parent`. -/
def wrap (parent : FTarget) : Adapter → FTarget
  | .clipped r => clipped parent r
  | .cropped r => cropped parent r
  | .translated d => translated parent d
  | .converted f => converted parent f

/-- The target on top of an adapter stack (root-most adapter first) built on `parent`. -/
def stack (parent : FTarget) : Stack → FTarget
  | [] => parent
  | a :: rest => stack (parent.wrap a) rest

/-- One call issued on a target. -/
def call (t : FTarget) : Call → FMethod
  | .drawIter px => t.drawIter px
  | .fillContiguous area cs => t.fillContiguous area cs
  | .fillSolid area c => t.fillSolid area c
  | .clear c => t.clear c

/-- A drawable's `draw`: its calls in order, each followed by `?` — the first `Err` is returned
at once and nothing else is evaluated. -/
def runCalls (t : FTarget) : List Call → FMethod
  | [], st => (.ok (), st)
  | c :: cs, st =>
    match t.call c st with
    | (.error e, st') => (.error e, st')
    | (.ok (), st') => runCalls t cs st'

/-- A HYPOTHETICAL caller that drops errors (`let _ = target.call(..)`), for the examples showing
what the root's record would show then. -/
def runCallsIgnoring (t : FTarget) : List Call → FMethod
  | [], st => (.ok (), st)
  | c :: cs, st => runCallsIgnoring t cs (t.call c st).2

end FTarget

/-- What a recording root logs for a successful call: `R2` the call itself, `R1` the `draw_iter`
the trait defaults turn it into. -/
def rootLogged (native : Bool) (B : Rect) (c : Call) : Call :=
  if native then c else .drawIter (c.lowerDefault B)

/-- Outcome of drawing the call list `cs` on top of adapter stack `s` over a recording root with box
`B` whose call number `failAt` fails: the `Result` and the root's record afterwards. -/
def faultRun (native : Bool) (B : Rect) (s : Stack) (failAt : Option Nat) (cs : List Call) :
    FRes × RootState :=
  ((FTarget.root native B).stack s).runCalls cs (RootState.init failAt)

end EG
