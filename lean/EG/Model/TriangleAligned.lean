/-
  EG.Model.TriangleAligned — the one-pixel triangle outline for all three stroke alignments
  (`StrokeAlignment::Inside / Center / Outside` = `StrokeOffset::Right / None / Left`).
  Extends EG.Model.Triangle (which covers `StrokeOffset::None`); nothing there is changed.
  Source: src/primitives/triangle/scanline_intersections.rs (`ScanlineIntersections::new`),
          src/primitives/triangle/scanline_iterator.rs (`ScanlineIterator::new`),
          src/primitives/triangle/styled.rs (`StyledPixelsIterator::new`; stroke width 1 < 2, so
          `styled_bounding_box` is `bounding_box` for every alignment).

  At stroke width 1 the stroke offset enters the scanline code in two places only, both through
  the join code of the thick-line topic (model EG.Joins, EG/Model/ThickTriangle.lean):
    * `edge_intersections`: `ThickSegment::intersection` of the three edges built with
      `LineJoin::from_points(.., 1, offset)` - for EVERY offset the skeleton line
      `Line(v[idx+1], v[idx+2])`, i.e. `Triangle.skeletonSeg` (proved on the join model:
      `EG.C19.Joins.skeleton_seg_is_join_code`);
    * `is_collapsed = triangle.is_collapsed(1, offset) && offset == StrokeOffset::Right`:
      `is_collapsed(1, _)` is `area_doubled <= 0` (proved on the join model:
      `EG.C19.Joins.is_collapsed_width1`, `collapsed_flag_is_join_code`), `collapsedFlag1` here.
  So only `Inside` on a zero-area triangle differs from `Center`: it takes the collapsed arm of
  `generate_lines` (the whole `scanline_intersection` row with the stroke colour).
-/
import EG.Model.Triangle
namespace EG

/-- `StrokeAlignment`. -/
inductive TriAlign | inside | center | outside
  deriving DecidableEq, Repr, Inhabited

namespace Triangle

/-- `self.is_collapsed(1, offset) && offset == StrokeOffset::Right` (the triangle passed to
`ScanlineIntersections::new` is already `sorted_clockwise`). -/
def collapsedFlag1 (t : Triangle) (a : TriAlign) : Bool :=
  decide (t.areaDoubled ≤ 0) && (a == .inside)

end Triangle

/-- `ScanlineIntersections::new` with the value of `is_collapsed` given. -/
def ScanlineIntersections.newAligned (t : Triangle) (strokeWidth : Nat) (hasFill collapsed : Bool)
    (y : Int) : ScanlineIntersections :=
  ({ empty with hasFill := hasFill, triangle := t, strokeWidth := strokeWidth,
                isCollapsed := collapsed } : ScanlineIntersections).reset y

/-- `ScanlineIterator::new` for stroke width 1 and any alignment. -/
def ScanlineIterator.newAligned (t : Triangle) (a : TriAlign) (hasFill : Bool) (bb : Rect) :
    ScanlineIterator :=
  let t := t.sortedClockwise
  let rs := bb.tl.y
  let re := bb.rowsEnd
  if rs < re then
    ⟨rs + 1, re, rs, ScanlineIntersections.newAligned t 1 hasFill (t.collapsedFlag1 a) rs⟩
  else empty

/-- `StyledPixelsIterator::new` for stroke width 1 and any alignment. -/
def TriPixelsIt.newAligned (t : Triangle) (a : TriAlign) (strokeColor fillColor : Option Nat) :
    TriPixelsIt :=
  let li := ScanlineIterator.newAligned t a fillColor.isSome t.boundingBox
  let r := li.next
  let first := r.1.getD (Scanline.newEmpty 0, .stroke)
  { linesIter := r.2
    currentLine := first.1
    currentColor := match first.2 with
      | .stroke => strokeColor
      | .fill => fillColor
    fillColor := fillColor
    strokeColor := strokeColor }

/-- `into_styled(PrimitiveStyleBuilder::new().stroke_color(c).stroke_width(1).stroke_alignment(a)
.build()).pixels()` collected (same budget as `outlinePixels`). -/
def Triangle.outlinePixelsAligned (t : Triangle) (c : Nat) (a : TriAlign) : List (Pt × Nat) :=
  (TriPixelsIt.newAligned t a (some c) none).toListFuel
    (2 * t.boundingBox.size.w * t.boundingBox.size.h + 1)

end EG
