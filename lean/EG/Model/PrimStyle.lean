/-
  EG.Model.PrimStyle — `primitives::PrimitiveStyle` (solid strokes), arm for arm.
  Source: src/primitives/primitive_style.rs
  Shared by every styled closed shape (circle, ellipse, rounded rectangle, rectangle, ...).
  `StrokeStyle::Dotted` is outside every property (trusted base): the model has solid strokes only,
  so `fill_area` always shrinks by the inside stroke width.
-/
import EG.Model.Style
namespace EG

-- `StrokeAlignment` is shared with `EG.Model.Style` (same enum, defined once there).

structure PrimStyle where
  fillColor : Option Color
  strokeColor : Option Color
  strokeWidth : Nat
  strokeAlignment : StrokeAlignment
  deriving DecidableEq, Repr, Inhabited

namespace PrimStyle

/-- `outside_stroke_width` -/
def outsideStrokeWidth (s : PrimStyle) : Nat :=
  match s.strokeAlignment with
  | .inside => 0
  | .center => s.strokeWidth / 2
  | .outside => s.strokeWidth

/-- `inside_stroke_width` (`stroke_width.saturating_add(1) / 2` for `Center`) -/
def insideStrokeWidth (s : PrimStyle) : Nat :=
  match s.strokeAlignment with
  | .inside => s.strokeWidth
  | .center => satAddU32 s.strokeWidth 1 / 2
  | .outside => 0

def isTransparent (s : PrimStyle) : Bool :=
  (s.strokeColor.isNone || s.strokeWidth == 0) && s.fillColor.isNone

/-- `effective_stroke_color`: `stroke_color.filter(|_| stroke_width > 0)` -/
def effectiveStrokeColor (s : PrimStyle) : Option Color :=
  match s.strokeColor with
  | some c => if s.strokeWidth > 0 then some c else none
  | none => none

/-- The offset `stroke_area` passes to `OffsetOutline::offset`:
`outside_stroke_width().saturating_as::<i32>()`. -/
def strokeOffset (s : PrimStyle) : Int := satAsI32 s.outsideStrokeWidth

/-- The offset `fill_area` passes to `OffsetOutline::offset` (solid stroke):
`-inside_stroke_width().saturating_as::<i32>()`. -/
def fillOffset (s : PrimStyle) : Int := -(satAsI32 s.insideStrokeWidth)

end PrimStyle
end EG
