/-
  EG.Model.Color — the colour types of core/src/pixelcolor, written ONCE over a `ColorSpec` record.

  The records (one per `rgb_color!` / `gray_color!` invocation plus `BinaryColor`, joined with the
  `impl_raw_data!` / `ToBytes` data of their raw type) are generated from the Rust sources into
  `EG.Generated.ColorTable`. The functions below transcribe the macro bodies:

    impl_raw_data!   `new(value) = value & MASK`, `MASK = Storage::MAX >> (Storage::BITS - bpp)`,
                     `from_u32(value) = new(value as Storage)`
    impl_rgb_color!  `new`, `r/g/b`, `From<Raw>` (`data & RGB_MASK`), `Into<Raw>` (`Raw::new(self.0)`)
    gray_color!      `new(luma) = Self(Raw::new(luma))`, `luma = self.0.into_inner()`, `From/Into<Raw>`
    BinaryColor      `From<RawU1>` (`!= 0`), `Into<RawU1>` (`RawU1::new(map_color(0, 1))`)
    IntoStorage      `self.into().into_inner()`
    ToBytes          `self.into().to_be_bytes()` / `to_le_bytes()` (storage integer's bytes; `RawU24`
                     takes `[1..4]` of the big-endian and `[0..3]` of the little-endian `u32` bytes)

  A colour value is represented by the number its Rust value holds: the storage integer of an RGB
  type (`Self(u16)`), the inner value of the raw newtype of a gray type (`Self(RawU4)`), and
  `0 = Off`, `1 = On` for `BinaryColor`. Channel arguments are `u8` values (`< 256`).

  `<<` is modelled as the mathematical shift: that no set bit is ever shifted out of the storage
  type is part of `ColorSpec.WellFormed`, which is decided for every generated record (C12).
-/
namespace EG

inductive ColorKind where
  | binary | gray | rgb | bgr
  deriving DecidableEq, Repr

structure ColorSpec where
  name : String
  kind : ColorKind
  /-- `PixelColor::Raw` -/
  rawName : String
  /-- `RawData::BITS_PER_PIXEL` -/
  rawBpp : Nat
  /-- bit width of `RawData::Storage` (`u8`/`u16`/`u32`) -/
  rawStorageBits : Nat
  /-- length of `ToBytes::Bytes` -/
  nbytes : Nat
  /-- `to_be_bytes` = big-endian storage bytes `[beLo..beHi]`, `to_le_bytes` = little-endian `[leLo..leHi]` -/
  beLo : Nat
  beHi : Nat
  leLo : Nat
  leHi : Nat
  /-- bit width of the colour struct's own storage type (`$storage_type` of `rgb_color!`) -/
  storageBits : Nat
  rbits : Nat
  gbits : Nat
  bbits : Nat
  rpos : Nat
  gpos : Nat
  bpos : Nat
  deriving DecidableEq, Repr

/-- kinds of generated `impl From<A> for B` (conversion.rs) -/
inductive ConvKind where
  | rgbRgb | grayGray | grayRgb | rgbGray | fromBinary | grayBinary | rgbBinary
  deriving DecidableEq, Repr

structure ConvSpec where
  src : String
  dst : String
  kind : ConvKind
  deriving DecidableEq, Repr

namespace ColorSpec

def isRgb (s : ColorSpec) : Bool := s.kind == .rgb || s.kind == .bgr

/-! ### raw data type (`impl_raw_data!`) -/

/-- `MASK = Storage::MAX >> (Storage::BITS - bpp)` -/
def rawMask (s : ColorSpec) : Nat := (2 ^ s.rawStorageBits - 1) >>> (s.rawStorageBits - s.rawBpp)

/-- `RawUx::new(value)` on a value of the storage type -/
def rawNew (s : ColorSpec) (v : Nat) : Nat := v &&& s.rawMask

/-- `RawData::from_u32(value) = Self::new(value as Storage)` -/
def rawFromU32 (s : ColorSpec) (v : Nat) : Nat := s.rawNew (v % 2 ^ s.rawStorageBits)

/-! ### RGB types (`impl_rgb_color!`) -/

/-- `MAX_x = ((1usize << bits) - 1) as u8` -/
def maxChan (bits : Nat) : Nat := ((1 <<< bits) - 1) % 256

def maxR (s : ColorSpec) : Nat := maxChan s.rbits
def maxG (s : ColorSpec) : Nat := maxChan s.gbits
def maxB (s : ColorSpec) : Nat := maxChan s.bbits

/-- `RGB_MASK = R_MASK | B_MASK | G_MASK`, `x_MASK = (MAX_x as storage) << x_pos` -/
def rgbMask (s : ColorSpec) : Nat :=
  (s.maxR <<< s.rpos) ||| (s.maxB <<< s.bpos) ||| (s.maxG <<< s.gpos)

/-- `new(r, g, b)` -/
def rgbNew (s : ColorSpec) (r g b : Nat) : Nat :=
  ((r &&& s.maxR) <<< s.rpos) ||| ((g &&& s.maxG) <<< s.gpos) ||| ((b &&& s.maxB) <<< s.bpos)

/-- `r()`: `(self.0 >> r_pos) as u8 & MAX_R` -/
def chanR (s : ColorSpec) (c : Nat) : Nat := ((c >>> s.rpos) % 256) &&& s.maxR
def chanG (s : ColorSpec) (c : Nat) : Nat := ((c >>> s.gpos) % 256) &&& s.maxG
def chanB (s : ColorSpec) (c : Nat) : Nat := ((c >>> s.bpos) % 256) &&& s.maxB

/-! ### gray types (`gray_color!`) -/

/-- `new(luma) = Self(Raw::new(luma))` -/
def grayNew (s : ColorSpec) (l : Nat) : Nat := s.rawNew l

/-- `luma() = self.0.into_inner()` -/
def luma (_s : ColorSpec) (c : Nat) : Nat := c

/-! ### `From<Raw>`, `Into<Raw>`, `IntoStorage`, byte views -/

/-- `C::from(raw)`, `raw` being the inner value of a raw newtype -/
def fromRaw (s : ColorSpec) (raw : Nat) : Nat :=
  match s.kind with
  | .binary => if raw ≠ 0 then 1 else 0
  | .gray => raw
  | .rgb | .bgr => raw &&& s.rgbMask

/-- `Raw::from(c).into_inner()`. `BinaryColor`: `RawU1::new(color.map_color(0, 1))`; that the literals
`0`, `1` written here are the ones in the source today is `C12.binary_raw_values` (against the
regenerated `binOffRaw` / `binOnRaw`; this file cannot import the generated table, which imports it). -/
def toRaw (s : ColorSpec) (c : Nat) : Nat :=
  match s.kind with
  | .binary => s.rawNew (if c = 1 then 1 else 0)
  | .gray => c
  | .rgb | .bgr => s.rawNew c

/-- `into_storage() = self.into().into_inner()` -/
def intoStorage (s : ColorSpec) (c : Nat) : Nat := s.toRaw c

/-- little-endian bytes of an `n`-byte integer -/
def leBytes : Nat → Nat → List Nat
  | 0, _ => []
  | n + 1, v => (v % 256) :: leBytes n (v / 256)

/-- big-endian bytes of an `n`-byte integer -/
def beBytes (n v : Nat) : List Nat := (leBytes n v).reverse

/-- the slice `xs[lo..hi]` -/
def slice (xs : List Nat) (lo hi : Nat) : List Nat := (xs.take hi).drop lo

def toBeBytes (s : ColorSpec) (c : Nat) : List Nat :=
  slice (beBytes (s.rawStorageBits / 8) (s.toRaw c)) s.beLo s.beHi

def toLeBytes (s : ColorSpec) (c : Nat) : List Nat :=
  slice (leBytes (s.rawStorageBits / 8) (s.toRaw c)) s.leLo s.leHi

/-- value of a little-endian byte list -/
def ofLe : List Nat → Nat
  | [] => 0
  | b :: bs => b + 256 * ofLe bs

/-- value of a big-endian byte list -/
def ofBe (bs : List Nat) : Nat := ofLe bs.reverse

/-! ### which numbers are values of the colour type -/

/-- The values a colour type can hold: an RGB struct only ever holds `new(..)` or `data & RGB_MASK`
(both have no bit outside `RGB_MASK`), a gray struct holds a (masked) raw value, `BinaryColor` is
`Off`/`On`. -/
def Valid (s : ColorSpec) (c : Nat) : Prop :=
  match s.kind with
  | .binary => c < 2
  | .gray => c < 2 ^ s.rawBpp
  | .rgb | .bgr => c &&& s.rgbMask = c

instance (s : ColorSpec) (c : Nat) : Decidable (s.Valid c) := by
  unfold Valid; cases s.kind <;> exact inferInstance

/-- number of low bits of the raw value that carry information: all channel fields of an RGB type
(they are adjacent from bit 0, see `WellFormed`), `BITS_PER_PIXEL` otherwise -/
def usedBits (s : ColorSpec) : Nat :=
  match s.kind with
  | .rgb | .bgr => s.rbits + s.gbits + s.bbits
  | _ => s.rawBpp

/-! ### layout conditions (decided per generated record) -/

/-- three bit fields `(pos, bits)` in ascending order, adjacent, starting at bit 0 -/
def packedAsc (p1 n1 p2 n2 p3 n3 : Nat) : Bool :=
  p1 == 0 && p2 == p1 + n1 && p3 == p2 + n2 && n1 ≥ 1 && n2 ≥ 1 && n3 ≥ 1

/-- The record describes a sound type: the raw type is one of the supported shapes, every channel
is at most 8 bits wide, the three fields are adjacent and disjoint starting at bit 0, lie inside
`BITS_PER_PIXEL` and inside the struct's storage type, RGB types carry red in the most significant
field and BGR types blue, and the byte views have the declared length and cover `BITS_PER_PIXEL`. -/
def WellFormed (s : ColorSpec) : Bool :=
  (s.rawStorageBits == 8 || s.rawStorageBits == 16 || s.rawStorageBits == 32)
  && 1 ≤ s.rawBpp && s.rawBpp ≤ s.rawStorageBits
  && s.beHi ≤ s.rawStorageBits / 8 && s.leHi ≤ s.rawStorageBits / 8
  && s.beHi - s.beLo == s.nbytes && s.leHi - s.leLo == s.nbytes
  -- the bytes kept are the low `nbytes` bytes and they cover BITS_PER_PIXEL
  && s.beHi == s.rawStorageBits / 8 && s.leLo == 0 && s.rawBpp ≤ 8 * s.nbytes
  && (match s.kind with
      | .binary => s.rawBpp == 1
      | .gray => s.rawBpp ≤ 8
      | .rgb =>
        s.storageBits == s.rawStorageBits
        && s.rbits ≤ 8 && s.gbits ≤ 8 && s.bbits ≤ 8
        && packedAsc s.bpos s.bbits s.gpos s.gbits s.rpos s.rbits
        && s.rpos + s.rbits ≤ s.rawBpp
      | .bgr =>
        s.storageBits == s.rawStorageBits
        && s.rbits ≤ 8 && s.gbits ≤ 8 && s.bbits ≤ 8
        && packedAsc s.rpos s.rbits s.gpos s.gbits s.bpos s.bbits
        && s.bpos + s.bbits ≤ s.rawBpp)

end ColorSpec
end EG
