/-
  EG.Model.CheckedScanline — checked kernels of `primitives::common::Scanline`
  (src/primitives/common/scanline.rs, all `i32`) and the LAZY consumption of `line::Points`
  (src/primitives/line/points.rs) that `bresenham_intersection` and `Triangle::contains` perform:
  the Bresenham walk is only advanced as far as the consumer pulls, so an overflow further along
  the line is never reached.

    * `extend` (l. 42-50): `x + 1` twice;
    * `bresenham_intersection` (l. 53-73): `line.points().skip_while(y != ).take_while(y == )
      .for_each(extend)` — `Points::new` is evaluated in full (`major_length`,
      `BresenhamParameters::new`), the walk stops at the first point behind row `y`;
    * `touches` (l. 76-95): `debug_assert_eq!(self.y, other.y)`, `start - 1`, `end - 1` under the
      short-circuit `||`;
    * `try_extend` (l. 98-113): the same assertion once more, `min` / `max`;
    * `to_rectangle` (l. 116-124) and `draw` (l. 137-151): `(end - start) as u32`, the subtraction
      in `i32`;
    * `Iterator::next` (l. 157-159): `Range<i32>::next` adds one only while `start < end`: total.
-/
import EG.Model.CheckedLine
import EG.Model.Scanline
namespace EG.Chk
open EG

/-! ## Lazy consumption of `line::Points` -/

/-- `Points::new(line)`: `major_length`, `BresenhamParameters::new`, `Bresenham::new`. -/
def linePointsNew (l : Line) : Option Line.PointsIt := do
  let n ← majorLength l
  let params ← bresenhamParametersNew l
  pure ⟨params, Bresenham.new l.start, n⟩

/-- A consumer that pulls points one at a time: `f state point` = `none` (the consumer panics),
`some (state', true)` (goes on pulling) or `some (state', false)` (stops: `any` found its point,
`take_while` saw a point of another row). Every pull is one checked `Bresenham::next`. -/
def linePointsFoldFuel {σ : Type} (f : σ → Pt → Option (σ × Bool)) :
    Nat → Line.PointsIt → σ → Option σ
  | 0, _, s => some s
  | fuel + 1, it, s =>
    if it.pointsRemaining > 0 then do
      let r ← bresenhamNext it.bresenham it.parameters
      let q ← f s r.1
      if q.2 then
        linePointsFoldFuel f fuel { it with pointsRemaining := it.pointsRemaining - 1, bresenham := r.2 } q.1
      else pure q.1
    else pure s

/-- The same consumer run over an already computed list of points (specification side). -/
def foldUntil {σ : Type} (f : σ → Pt → Option (σ × Bool)) : List Pt → σ → Option σ
  | [], s => some s
  | p :: ps, s => do
    let q ← f s p
    if q.2 then foldUntil f ps q.1 else pure q.1

/-- consumer of `Iterator::any(|q| q == p)`: stop at the first hit -/
def anyStep (p : Pt) (found : Bool) (q : Pt) : Option (Bool × Bool) :=
  if q = p then some (true, false) else some (found, true)

/-- `line_points.any(|q| q == p)` on a freshly built `Points` (or one in the middle of a chain). -/
def linePointsAny (it : Line.PointsIt) (p : Pt) : Option Bool :=
  linePointsFoldFuel (anyStep p) it.pointsRemaining it false

namespace Scanline

/-- `Scanline::extend`: `x..x + 1` / `self.x.end = x + 1` in `i32`. -/
def extend (s : EG.Scanline) (x : Int) : Option EG.Scanline :=
  if s.isEmpty then do
    let e ← chkI32 (x + 1)
    pure { s with xs := x, xe := e }
  else if x < s.xs then pure { s with xs := x }
  else if x ≥ s.xe then do
    let e ← chkI32 (x + 1)
    pure { s with xe := e }
  else pure s

/-- consumer of `.skip_while(|p| p.y != y).take_while(|p| p.y == y).for_each(|p| extend(p.x))`;
state: (still skipping, scanline). -/
def bintStep (st : Bool × EG.Scanline) (q : Pt) : Option ((Bool × EG.Scanline) × Bool) :=
  if q.y = st.2.y then do
    let s ← extend st.2 q.x
    pure ((false, s), true)
  else if st.1 then pure (st, true)
  else pure (st, false)

/-- `Scanline::bresenham_intersection(&line)`. -/
def bresenhamIntersection (s : EG.Scanline) (l : Line) : Option EG.Scanline :=
  let inY : Bool :=
    if l.start.y ≤ l.stop.y then decide (l.start.y ≤ s.y ∧ s.y ≤ l.stop.y)
    else decide (l.stop.y ≤ s.y ∧ s.y ≤ l.start.y)
  if !inY then pure s
  else do
    let it ← linePointsNew l
    let r ← linePointsFoldFuel bintStep it.pointsRemaining it (true, s)
    pure r.2

/-- `Scanline::touches`. -/
def touches (s o : EG.Scanline) : Option Bool := do
  assert (s.y = o.y)
  if s.isEmpty || o.isEmpty then pure false
  else do
    let lo ← chkI32 (s.xs - 1)
    if lo ≤ o.xs ∧ o.xs ≤ s.xe then pure true
    else do
      let oe ← chkI32 (o.xe - 1)
      if lo ≤ oe ∧ oe ≤ s.xe then pure true
      else do
        let lo2 ← chkI32 (o.xs - 1)
        if lo2 ≤ s.xs ∧ s.xs ≤ o.xe then pure true
        else do
          let se ← chkI32 (s.xe - 1)
          pure (decide (lo2 ≤ se ∧ se ≤ o.xe))

/-- `Scanline::try_extend`. -/
def tryExtend (s o : EG.Scanline) : Option (Bool × EG.Scanline) := do
  assert (s.y = o.y)
  let t ← touches s o
  if t then pure (true, { s with xs := min s.xs o.xs, xe := max s.xe o.xe }) else pure (false, s)

/-- `Scanline::to_rectangle`: `(self.x.end - self.x.start) as u32`. -/
def toRectangle (s : EG.Scanline) : Option Rect := do
  let width ← if !s.isEmpty then do
      let d ← chkI32 (s.xe - s.xs)
      pure (i32AsU32 d)
    else pure 0
  pure ⟨⟨s.xs, s.y⟩, ⟨width, 1⟩⟩

/-- `Scanline::draw`: the rectangle handed to `fill_solid` (`none` inside = nothing drawn). -/
def drawRect (s : EG.Scanline) : Option (Option Rect) :=
  if s.isEmpty then pure none
  else do
    let d ← chkI32 (s.xe - s.xs)
    pure (some ⟨⟨s.xs, s.y⟩, ⟨i32AsU32 d, 1⟩⟩)

end Scanline
end EG.Chk
