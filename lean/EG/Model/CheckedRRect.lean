/-
  EG.Model.CheckedRRect — checked kernels of `RoundedRectangle`
  (src/primitives/rounded_rectangle/{corner_radii.rs, ellipse_quadrant.rs, mod.rs, points.rs,
  styled.rs}), with the integer widths of the tree as it is NOW:

    * `CornerRadii::confine` (corner_radii.rs l. 37-99, after commit b4800c7): pair sums in
      `u64`, the cross products of the loop in `u128`, `scale_length` =
      `(u64 * u64 / corner_size) as u32` (truncating cast);
    * `EllipseQuadrant::new` (ellipse_quadrant.rs l. 31-45): `top_left - radius[.x_axis()|
      .y_axis()]` (`Point - Size`, with its debug assertion), `radius * 2` twice (`u32`
      products), `ellipse::center_2x`, `EllipseContains::new`;
      `EllipseQuadrant::contains` (l. 54-58): `point * 2 - center_2x` in `i32`, then
      `EllipseContains::contains` (`Chk.EllipseContains`, `u64` sums);
    * `get_confined_corner_quadrant` (mod.rs l. 153-186): `top_left + size[.x_axis()|.y_axis()]
      - corner[.x_axis()|.y_axis()]` (`Point + Size`, `Point - Size`);
    * `OffsetOutline::offset` (mod.rs l. 189-216): `Rectangle::offset`, `offset as u32` /
      `(-offset) as u32`, `Size::saturating_add` / `saturating_sub`;
    * `RoundedRectangleContains::new` (mod.rs l. 268-298): the four quadrants in the order top
      left, top right, bottom left, bottom right, `rows()` / `columns()` (saturating), and
      `rows.start + height as i32`, `rows.end - height as i32` four times in `i32`;
      `contains` (l. 300-330): comparisons, `columns()` of the corner boxes, and the two
      `EllipseQuadrant::contains` under the short-circuit of `all`;
    * `points::Scanlines::next` (points.rs l. 60-106): `find` / `rfind` over the columns of the
      corner box (evaluated lazily: the search stops at the first hit), `x + 1`;
    * `styled::StyledScanlines::next` (styled.rs l. 176-200): `find` / `rfind` of the fill
      area over the stroke scanline, `x + 1`.
-/
import EG.Model.CheckedShapes
import EG.Model.RoundedRect
namespace EG.Chk
open EG

/-- result of a `u128` operation (`+`, `*`) -/
def chkU128 (a : Nat) : Option Nat :=
  if a ≤ 340282366920938463463374607431768211455 then some a else none

/-- `Size * u32`: `Size::new(self.width * rhs, self.height * rhs)` in `u32`. -/
def szMul (s : Sz) (k : Nat) : Option Sz := do
  let w ← chkU32 (s.w * k)
  let h ← chkU32 (s.h * k)
  pure ⟨w, h⟩

/-- `Range<i32>::find(pred)` on `a..b`, the predicate evaluated from `a` upwards until the first
hit (`fuel` = length of the range). -/
def findFuel (pred : Int → Option Bool) : Nat → Int → Int → Option (Option Int)
  | 0, _, _ => some none
  | fuel + 1, a, b =>
    if a < b then do
      let r ← pred a
      if r then pure (some a) else findFuel pred fuel (a + 1) b
    else pure none

/-- `Range<i32>::rfind(pred)` on `a..b`: from `b - 1` downwards. -/
def rfindFuel (pred : Int → Option Bool) : Nat → Int → Int → Option (Option Int)
  | 0, _, _ => some none
  | fuel + 1, a, b =>
    if a < b then do
      let r ← pred (b - 1)
      if r then pure (some (b - 1)) else rfindFuel pred fuel a (b - 1)
    else pure none

def rangeFind (pred : Int → Option Bool) (a b : Int) : Option (Option Int) :=
  findFuel pred (b - a).toNat a b
def rangeRFind (pred : Int → Option Bool) (a b : Int) : Option (Option Int) :=
  rfindFuel pred (b - a).toNat a b

namespace CornerRadii

/-- The `sides` array: the sums are `u64::from(a) + u64::from(b)`. -/
def sides (c : EG.CornerRadii) (bb : Sz) : Option (List (Nat × Nat)) := do
  let t ← chkU64 (c.tl.w + c.tr.w)
  let r ← chkU64 (c.tr.h + c.br.h)
  let b ← chkU64 (c.bl.w + c.br.w)
  let l ← chkU64 (c.tl.h + c.bl.h)
  pure [(bb.w, t), (bb.h, r), (bb.w, b), (bb.h, l)]

/-- Body of the loop: both cross products in `u128`. -/
def confineStep (acc side : Nat × Nat) : Option (Nat × Nat) := do
  let l ← chkU128 (side.1 * acc.2)
  let r ← chkU128 (acc.1 * side.2)
  pure (if l < r then side else acc)

def factorFold : List (Nat × Nat) → Nat × Nat → Option (Nat × Nat)
  | [], acc => some acc
  | s :: rest, acc => do
    let acc ← confineStep acc s
    factorFold rest acc

def factor (c : EG.CornerRadii) (bb : Sz) : Option (Nat × Nat) := do
  let s ← sides c bb
  factorFold s (1, 1)

/-- `scale_length`: `(u64::from(length) * u64::from(size) / corner_size) as u32`. -/
def scaleLength (f : Nat × Nat) (length : Nat) : Option Nat := do
  let p ← chkU64 (length * f.1)
  let q ← divU p f.2
  pure (q % 4294967296)

def scaleSz (f : Nat × Nat) (r : Sz) : Option Sz := do
  let w ← scaleLength f r.w
  let h ← scaleLength f r.h
  pure ⟨w, h⟩

/-- `CornerRadii::confine(bounding_box)`. -/
def confine (c : EG.CornerRadii) (bb : Sz) : Option EG.CornerRadii := do
  let f ← factor c bb
  if f.1 < f.2 then do
    let tl ← scaleSz f c.tl
    let tr ← scaleSz f c.tr
    let br ← scaleSz f c.br
    let bl ← scaleSz f c.bl
    pure ⟨tl, tr, br, bl⟩
  else pure c

end CornerRadii

namespace EllipseQuadrant

/-- `EllipseQuadrant::new(top_left, radius, quadrant)`. -/
def new (tl : Pt) (radius : Sz) (q : Quadrant) : Option EG.EllipseQuadrant := do
  let etl ← match q with
    | .topLeft => pure tl
    | .topRight => ptSubSize tl ⟨radius.w, 0⟩
    | .bottomRight => ptSubSize tl radius
    | .bottomLeft => ptSubSize tl ⟨0, radius.h⟩
  let size2 ← szMul radius 2
  let c ← Ellipse.center2xOf etl size2
  let size2' ← szMul radius 2
  let e ← EllipseContains.new size2'
  pure ⟨⟨tl, radius⟩, c, e⟩

/-- `ContainsPoint::contains`: `self.ellipse.contains(point * 2 - self.center_2x)`. -/
def contains (e : EG.EllipseQuadrant) (p : Pt) : Option Bool := do
  let p2 ← ptMul p 2
  let q ← ptSub p2 e.center2x
  EllipseContains.contains e.ellipse q

end EllipseQuadrant

namespace RoundedRect

/-- `get_confined_corner_quadrant`. -/
def cornerQuadrant (r : EG.RoundedRect) (q : Quadrant) : Option EG.EllipseQuadrant := do
  let tl := r.rect.tl
  let size := r.rect.size
  let c ← CornerRadii.confine r.corners size
  match q with
  | .topLeft => EllipseQuadrant.new tl c.tl .topLeft
  | .topRight => do
    let a ← ptAddSize tl ⟨size.w, 0⟩
    let b ← ptSubSize a ⟨c.tr.w, 0⟩
    EllipseQuadrant.new b c.tr .topRight
  | .bottomRight => do
    let a ← ptAddSize tl size
    let b ← ptSubSize a c.br
    EllipseQuadrant.new b c.br .bottomRight
  | .bottomLeft => do
    let a ← ptAddSize tl ⟨0, size.h⟩
    let b ← ptSubSize a ⟨0, c.bl.h⟩
    EllipseQuadrant.new b c.bl .bottomLeft

/-- `OffsetOutline::offset`. -/
def offset (r : EG.RoundedRect) (o : Int) : Option EG.RoundedRect := do
  let rect ← Chk.offset r.rect o
  let c := r.corners
  if o ≥ 0 then
    let k := Sz.newEqual (i32AsU32 o)
    pure ⟨rect, ⟨c.tl.satAdd k, c.tr.satAdd k, c.br.satAdd k, c.bl.satAdd k⟩⟩
  else do
    let m ← chkI32 (-o)
    let k := Sz.newEqual (i32AsU32 m)
    pure ⟨rect, ⟨c.tl.satSub k, c.tr.satSub k, c.br.satSub k, c.bl.satSub k⟩⟩

/-- `Transform::translate`. -/
def translate (r : EG.RoundedRect) (d : Pt) : Option EG.RoundedRect := do
  let rect ← Chk.translate r.rect d
  pure { r with rect := rect }

end RoundedRect

namespace RRContains

/-- `RoundedRectangleContains::new`. -/
def new (r : EG.RoundedRect) : Option EG.RRContains := do
  let topLeft ← RoundedRect.cornerQuadrant r .topLeft
  let topRight ← RoundedRect.cornerQuadrant r .topRight
  let bottomLeft ← RoundedRect.cornerQuadrant r .bottomLeft
  let bottomRight ← RoundedRect.cornerQuadrant r .bottomRight
  let rowsStart := r.rect.tl.y
  let rowsEnd := r.rect.rowsEnd
  let slStart ← chkI32 (rowsStart + u32AsI32 topLeft.bbox.size.h)
  let slEnd ← chkI32 (rowsEnd - u32AsI32 bottomLeft.bbox.size.h)
  let srStart ← chkI32 (rowsStart + u32AsI32 topRight.bbox.size.h)
  let srEnd ← chkI32 (rowsEnd - u32AsI32 bottomRight.bbox.size.h)
  pure { rowsStart := rowsStart, rowsEnd := rowsEnd,
         colsStart := r.rect.tl.x, colsEnd := r.rect.columnsEnd,
         slStart := slStart, slEnd := slEnd, srStart := srStart, srEnd := srEnd,
         topLeft := topLeft, topRight := topRight, bottomLeft := bottomLeft, bottomRight := bottomRight }

/-- `RoundedRectangleContains::contains`: `left.into_iter().chain(right).all(..)` stops at the
first corner that does not contain the point. -/
def contains (c : EG.RRContains) (p : Pt) : Option Bool :=
  if !(decide (c.rowsStart ≤ p.y ∧ p.y < c.rowsEnd) && decide (c.colsStart ≤ p.x ∧ p.x < c.colsEnd)) then
    pure false
  else do
    let left := (c.leftCorner p.y).filter (fun corner => decide (p.x < corner.colsEnd))
    let right := (c.rightCorner p.y).filter (fun corner => decide (p.x ≥ corner.colsStart))
    let l ← match left with
      | some corner => EllipseQuadrant.contains corner p
      | none => pure true
    if !l then pure false
    else match right with
      | some corner => EllipseQuadrant.contains corner p
      | none => pure true

/-- `x_start` of the scanline of row `y`. -/
def xStart (c : EG.RRContains) (y : Int) : Option Int :=
  match c.leftCorner y with
  | some corner => do
    let r ← rangeFind (fun x => EllipseQuadrant.contains corner ⟨x, y⟩) corner.colsStart corner.colsEnd
    pure (r.getD corner.colsEnd)
  | none => pure c.colsStart

/-- `x_end` of the scanline of row `y`: `.rfind(..).map(|x| x + 1)`. -/
def xEnd (c : EG.RRContains) (y : Int) : Option Int :=
  match c.rightCorner y with
  | some corner => do
    let r ← rangeRFind (fun x => EllipseQuadrant.contains corner ⟨x, y⟩) corner.colsStart corner.colsEnd
    match r with
    | some x => chkI32 (x + 1)
    | none => pure corner.colsStart
  | none => pure c.colsEnd

/-- The scanline of row `y`. -/
def row (c : EG.RRContains) (y : Int) : Option EG.Scanline := do
  let a ← xStart c y
  let b ← xEnd c y
  pure ⟨y, a, b⟩

/-- `Scanlines::next`. -/
def next (c : EG.RRContains) : Option (Option (EG.Scanline × EG.RRContains)) :=
  if c.rowsStart < c.rowsEnd then do
    let s ← row c c.rowsStart
    pure (some (s, { c with rowsStart := c.rowsStart + 1 }))
  else pure none

/-- The `fill_range` of `StyledScanlines::next` for the stroke scanline `s`. -/
def fillRange (f : EG.RRContains) (s : EG.Scanline) : Option (Option (Int × Int)) :=
  if f.rowsStart ≤ s.y ∧ s.y < f.rowsEnd then do
    let a ← rangeFind (fun x => contains f ⟨x, s.y⟩) s.xs s.xe
    let b ← rangeRFind (fun x => contains f ⟨x, s.y⟩) s.xs s.xe
    let b' ← match b with
      | some x => do
        let e ← chkI32 (x + 1)
        pure (some e)
      | none => pure none
    pure (match a, b' with
      | some a, some b => some (a, b)
      | _, _ => none)
  else pure none

end RRContains

/-- `ContainsPoint::contains` of a `RoundedRectangle`. -/
def RoundedRect.contains (r : EG.RoundedRect) (p : Pt) : Option Bool := do
  let c ← RRContains.new r
  RRContains.contains c p

end EG.Chk
