/-
  EG.Model.CroppedIter — `iterator::contiguous::Cropped`, the colour iterator that re-cuts a
  row-major colour stream of an area of size `size` to a crop area inside it.
  Source: src/iterator/contiguous.rs:46-118 (struct, `new`, `Iterator::next`).

  The underlying iterator is a `List Color` (what is still to come); `Iterator::nth(n)` on it
  consumes `n + 1` items (or everything) and returns the last one consumed.
  The list view is faithful for fused underlying iterators (slices, `repeat`, `map` of those, and
  `Cropped` itself over such an iterator): after the first `None` nothing else is ever produced.
-/
import EG.Model.Target
namespace EG

structure CropIt where
  /-- underlying iterator `iter` -/
  rest : List Color
  x : Nat
  y : Nat
  /-- `size` (of the crop area after intersection) -/
  w : Nat
  h : Nat
  rowSkip : Nat
  deriving Repr, DecidableEq

namespace CropIt

/-- The crop area actually used: `Rectangle::new(Point::zero(), size).intersection(crop_area)`. -/
def cropOf (size : Sz) (cropArea : Rect) : Rect := (Rect.mk Pt.zero size).intersection cropArea

/-- `Cropped::new`. `initial_skip > 0 → iter.nth(initial_skip - 1)` drops `initial_skip` items.
`row_skip` is `size.width.saturating_sub(crop_area.size.width)` = `Nat` subtraction (the crop can be
wider than `size` only when it is zero-height: `Rectangle::intersection` returns a zero-sized
operand unchanged; lemma `cropOf_w_le`). -/
def new (cs : List Color) (size : Sz) (cropArea : Rect) : CropIt :=
  let crop := cropOf size cropArea
  let initialSkip := crop.tl.y.toNat * size.w + crop.tl.x.toNat
  { rest := if initialSkip > 0 then cs.drop (initialSkip - 1 + 1) else cs
    x := 0, y := 0, w := crop.size.w, h := crop.size.h
    rowSkip := size.w - crop.size.w }

/-- One call of `Iterator::next` (`none` = `None`; the state after a `None` is never looked at by
a `for` loop). -/
def next (it : CropIt) : Option (Color × CropIt) :=
  if it.y ≥ it.h ∨ it.w = 0 then none
  else if it.x < it.w then
    -- self.x += 1; self.iter.next()
    match it.rest with
    | c :: r => some (c, { it with x := it.x + 1, rest := r })
    | [] => none
  else
    -- self.x = 1; self.y += 1; if self.y < self.size.height { self.iter.nth(self.row_skip) } else { None }
    if it.y + 1 < it.h then
      match it.rest.drop it.rowSkip with
      | c :: r => some (c, { it with x := 1, y := it.y + 1, rest := r })
      | [] => none
    else none

def toListFuel : Nat → CropIt → List Color
  | 0, _ => []
  | fuel + 1, it =>
    match it.next with
    | some (c, it') => c :: toListFuel fuel it'
    | none => []

/-- What a `for` loop over the iterator sees (every item consumes at least one underlying item). -/
def toList (it : CropIt) : List Color := it.toListFuel (it.rest.length + 1)

end CropIt

/-- Everything `Cropped::new(colors, size, crop_area)` yields. -/
def croppedList (cs : List Color) (size : Sz) (cropArea : Rect) : List Color :=
  (CropIt.new cs size cropArea).toList

/-- Closed form (specification): row `j` of the crop is the `w` colours starting at index
`(y0 + j) * W + x0` of the stream. -/
def croppedSpec (cs : List Color) (size : Sz) (cropArea : Rect) : List Color :=
  let crop := CropIt.cropOf size cropArea
  (List.range crop.size.h).flatMap
    (fun j => (cs.drop ((crop.tl.y.toNat + j) * size.w + crop.tl.x.toNat)).take crop.size.w)

end EG
