/-
  EG.Model.CheckedLine — checked kernels of the line code, with the integer widths of the tree as
  it is NOW:
    * `BresenhamParameters::new`, `Bresenham::next`, `major_length`, `line::Points`
      (src/primitives/line/{bresenham,points}.rs): all `i32`;
    * `ParallelsIterator::new` / `next` scalars (src/primitives/line/thick_points.rs):
      `thickness_threshold` in `i64` (commit 2947525), `length_squared` in `i32`,
      `thickness_accumulator` in `i32`, its square in `i64`;
    * `LinearEquation::from_line`, `IntersectionParams::{from_lines, nearly_colinear_has_error,
      intersection}` (src/primitives/common/linear_equation.rs, line/intersection_params.rs):
      normal vector, origin distance, determinant, dot product in `i32`; squared denominator
      (commit 5970db5), numerators and rounding (commit 02cb64a) in `i64`;
    * the miter length of `LineJoin::from_points` (src/primitives/common/line_join.rs): `i64`
      (commit 77b3eec), `miter_limit = (width * 2).pow(2)` in `u32`.
  `Isect.*` is the plain (unbounded) form of the intersection code in the shape of the checked
  kernels, `Chk.Isect.*` the checked one. `Chk.Old.*` = the widths before the repairs.
  The plain model the geometric theorems (C02 / C07 / C17 / C19) and `Driver/Thick.lean` use is
  `EG.Joins` (Model/LinearEquation.lean, Intersection.lean, LineJoin.lean), written independently
  from the same source; Lemmas/IsectJoins.lean proves `Isect.f = Joins.f` for every function both
  define (all inputs), and Props/C08/JoinsLink.lean restates the range theorems against `Joins`.
-/
import EG.Model.CheckedShapes
import EG.Model.ThickLine
namespace EG

/-! ## Plain (unbounded) form of the intersection kernels -/

namespace Isect

/-- `LinearEquation { normal_vector, origin_distance }` -/
structure LinearEquation where
  normal : Pt
  originDistance : Int
  deriving DecidableEq, Repr

/-- `PointExt::rotate_90`: `(-y, x)` -/
def rotate90 (p : Pt) : Pt := ⟨-p.y, p.x⟩
/-- `PointExt::dot_product` -/
def dot (a b : Pt) : Int := a.x * b.x + a.y * b.y
/-- `PointExt::determinant` -/
def det (a b : Pt) : Int := a.x * b.y - a.y * b.x

/-- `LinearEquation::from_line` -/
def fromLine (l : Line) : LinearEquation :=
  let n := rotate90 l.delta
  ⟨n, dot l.start n⟩

/-- `LinearEquation::distance` -/
def distance (le : LinearEquation) (p : Pt) : Int := dot p le.normal - le.originDistance

/-- `IntersectionParams::from_lines`: the denominator. -/
def denominator (l1 l2 : Line) : Int := det (fromLine l1).normal (fromLine l2).normal

/-- `nearly_colinear_has_error` -/
def nearlyColinearHasError (l1 l2 : Line) : Bool :=
  let d := dot l1.delta l2.delta
  decide (denominator l1 l2 * denominator l1 l2 < (if d < 0 then -d else d))

def signum (a : Int) : Int := if a > 0 then 1 else if a < 0 then -1 else 0

/-- `i64 as i32` by `saturating_as` -/
def satI32 (a : Int) : Int :=
  if a > 2147483647 then 2147483647 else if a < -2147483648 then -2147483648 else a

/-- the closure `round_div`: `(2 * numerator * sign + denominator).div_euclid(2 * denominator)`
(`denominator` already made positive), saturated to `i32`. Lean's `/` on `Int` is `div_euclid`. -/
def roundDiv (sign den num : Int) : Int := satI32 ((2 * num * sign + den) / (2 * den))

/-- `IntersectionParams::intersection`: `none` = `Intersection::Colinear`, else the point and
whether the outer side is `Left` (`denominator < 0`). -/
def intersection (le1 le2 : LinearEquation) (denominator : Int) : Option (Pt × Bool) :=
  if denominator = 0 then none
  else
    let xNum := le1.originDistance * le2.normal.y - le2.originDistance * le1.normal.y
    let yNum := le1.normal.x * le2.originDistance - le2.normal.x * le1.originDistance
    let sign := signum denominator
    let den := if denominator < 0 then -denominator else denominator
    some (⟨roundDiv sign den xNum, roundDiv sign den yNum⟩, decide (denominator < 0))

/-- `miter_length_squared <= miter_limit` of `LineJoin::from_points`. -/
def miterWithinLimit (miterDelta : Pt) (width : Nat) : Bool :=
  decide (miterDelta.x * miterDelta.x + miterDelta.y * miterDelta.y ≤ ((width * 2) * (width * 2) : Nat))

end Isect

namespace Chk

/-! ## Bresenham -/

/-- `Point::abs`: `i32::abs` panics for `i32::MIN`. -/
def ptAbs (p : Pt) : Option Pt := do
  let x ← chkI32 (if p.x < 0 then -p.x else p.x)
  let y ← chkI32 (if p.y < 0 then -p.y else p.y)
  pure ⟨x, y⟩

/-- `BresenhamParameters::new`. -/
def bresenhamParametersNew (line : Line) : Option BresenhamParameters := do
  let delta ← ptSub line.stop line.start
  let direction : Pt := ⟨if delta.x ≥ 0 then 1 else -1, if delta.y ≥ 0 then 1 else -1⟩
  let delta ← ptAbs delta
  if delta.y ≥ delta.x then do
    let eMinor ← chkI32 (2 * delta.x)
    let eMajor ← chkI32 (2 * delta.y)
    pure { errorThreshold := delta.y, errorStep := ⟨eMinor, eMajor⟩
           positionStep := ⟨direction.yAxis, direction.xAxis⟩ }
  else do
    let eMinor ← chkI32 (2 * delta.y)
    let eMajor ← chkI32 (2 * delta.x)
    pure { errorThreshold := delta.x, errorStep := ⟨eMinor, eMajor⟩
           positionStep := ⟨direction.xAxis, direction.yAxis⟩ }

/-- `bresenham::major_length`: `delta.x.max(delta.y) as u32 + 1`. -/
def majorLength (line : Line) : Option Nat := do
  let d ← ptSub line.stop line.start
  let d ← ptAbs d
  chkU32 ((max d.x d.y).toNat + 1)

/-- `Bresenham::next`. -/
def bresenhamNext (b : Bresenham) (p : BresenhamParameters) : Option (Pt × Bresenham) := do
  let b ←
    if b.error > p.errorThreshold then do
      let pt ← ptAdd b.point p.positionStep.minor
      let e ← chkI32 (b.error - p.errorStep.minor)
      pure (⟨pt, e⟩ : Bresenham)
    else pure b
  let pt ← ptAdd b.point p.positionStep.major
  let e ← chkI32 (b.error + p.errorStep.major)
  pure (b.point, ⟨pt, e⟩)

/-- `line::Points` drained (`points_remaining -= 1` cannot underflow: it is guarded by `> 0`). -/
def linePointsFuel : Nat → Line.PointsIt → Option (List Pt)
  | 0, _ => some []
  | fuel + 1, it =>
    if it.pointsRemaining > 0 then do
      let r ← bresenhamNext it.bresenham it.parameters
      let rest ← linePointsFuel fuel
        { it with pointsRemaining := it.pointsRemaining - 1, bresenham := r.2 }
      pure (r.1 :: rest)
    else pure []

/-- `Line::points()` collected: `Points::new` + the loop. -/
def linePoints (l : Line) : Option (List Pt) := do
  let n ← majorLength l
  let params ← bresenhamParametersNew l
  linePointsFuel n ⟨params, Bresenham.new l.start, n⟩

/-! ## Thick lines: the scalars of `ParallelsIterator` -/

/-- `Line::delta`: `end - start`. -/
def lineDelta (l : Line) : Option Pt := ptSub l.stop l.start

/-- `thickness_threshold = (i64::from(thickness) * 2).pow(2) * i64::from(delta.length_squared())` -/
def thickThreshold (thickness : Int) (delta : Pt) : Option Int := do
  let t2 ← chkI64 (thickness * 2)
  let sq ← chkI64 (t2 * t2)
  let ls ← lengthSquared delta
  chkI64 (sq * ls)

/-- `thickness_accumulator = (error_step.minor + error_step.major) / 2` (`i32`) -/
def thickAccumulator (p : BresenhamParameters) : Option Int := do
  let s ← chkI32 (p.errorStep.minor + p.errorStep.major)
  pure (tdiv2 s)

/-- The scalars computed by `ParallelsIterator::new(line, thickness, _)`: threshold and initial
accumulator (the degenerate line is replaced by `HORIZONTAL_LINE` first). -/
def thickScalars (line : Line) (thickness : Int) : Option (Int × Int) := do
  let line := if line.start = line.stop then Thick.horizontalLine else line
  let pp ← bresenhamParametersNew line
  let d ← lineDelta line
  let th ← thickThreshold thickness d
  let acc ← thickAccumulator pp
  pure (th, acc)

/-- One `ParallelsIterator::next` on the scalars: `i64::from(acc).pow(2) > threshold` ends the
iterator (`some none`), otherwise `acc += step` in `i32` (`step` = the perpendicular
`error_step.minor` / `.major`). -/
def thickAccStep (acc threshold step : Int) : Option (Option Int) := do
  let sq ← chkI64 (acc * acc)
  if sq > threshold then pure none
  else do
    let a ← chkI32 (acc + step)
    pure (some a)

/-! ## Intersections -/

namespace Isect
open EG.Isect

/-- `rotate_90`: the negation is an `i32` operation. -/
def rotate90 (p : Pt) : Option Pt := do
  let x ← chkI32 (-p.y)
  pure ⟨x, p.x⟩

/-- `dot_product`: `self.x * other.x + self.y * other.y` in `i32`. -/
def dot (a b : Pt) : Option Int := do
  let p ← chkI32 (a.x * b.x)
  let q ← chkI32 (a.y * b.y)
  chkI32 (p + q)

/-- `determinant`: `self.x * other.y - self.y * other.x` in `i32`. -/
def det (a b : Pt) : Option Int := do
  let p ← chkI32 (a.x * b.y)
  let q ← chkI32 (a.y * b.x)
  chkI32 (p - q)

/-- `LinearEquation::from_line`. -/
def fromLine (l : Line) : Option LinearEquation := do
  let d ← lineDelta l
  let n ← rotate90 d
  let od ← dot l.start n
  pure ⟨n, od⟩

/-- `LinearEquation::distance`. -/
def distance (le : LinearEquation) (p : Pt) : Option Int := do
  let d ← dot p le.normal
  chkI32 (d - le.originDistance)

/-- `IntersectionParams::from_lines`: both equations and the `i32` denominator. -/
def fromLines (l1 l2 : Line) : Option (LinearEquation × LinearEquation × Int) := do
  let le1 ← fromLine l1
  let le2 ← fromLine l2
  let den ← det le1.normal le2.normal
  pure (le1, le2, den)

/-- `nearly_colinear_has_error`: the dot product and its `abs` in `i32`, the square in `i64`. -/
def nearlyColinearHasError (l1 l2 : Line) (denominator : Int) : Option Bool := do
  let d1 ← lineDelta l1
  let d2 ← lineDelta l2
  let dp ← dot d1 d2
  let sq ← chkI64 (denominator * denominator)
  let a ← chkI32 (if dp < 0 then -dp else dp)
  pure (decide (sq < a))

/-- `round_div` in `i64`: `2 * numerator`, `* sign`, `+ denominator`, `2 * denominator`,
`div_euclid` (the divisor is positive). -/
def roundDiv (sign den num : Int) : Option Int := do
  let a ← chkI64 (2 * num)
  let b ← chkI64 (a * sign)
  let c ← chkI64 (b + den)
  let d ← chkI64 (2 * den)
  if d = 0 then none else pure (satI32 (c / d))

/-- `IntersectionParams::intersection` (numerators in `i64`). -/
def intersection (le1 le2 : LinearEquation) (denominator : Int) : Option (Option (Pt × Bool)) :=
  if denominator = 0 then pure none
  else do
    let p1 ← chkI64 (le1.originDistance * le2.normal.y)
    let p2 ← chkI64 (le2.originDistance * le1.normal.y)
    let xNum ← chkI64 (p1 - p2)
    let q1 ← chkI64 (le1.normal.x * le2.originDistance)
    let q2 ← chkI64 (le2.normal.x * le1.originDistance)
    let yNum ← chkI64 (q1 - q2)
    let sign := signum denominator
    let den ← chkI64 (if denominator < 0 then -denominator else denominator)
    let x ← roundDiv sign den xNum
    let y ← roundDiv sign den yNum
    pure (some (⟨x, y⟩, decide (denominator < 0)))

/-- The miter test of `LineJoin::from_points`: `i64::from(dx).pow(2) + i64::from(dy).pow(2)`,
`miter_limit = (width * 2).pow(2)` in `u32`. -/
def miterWithinLimit (miterDelta : Pt) (width : Nat) : Option Bool := do
  let xx ← chkI64 (miterDelta.x * miterDelta.x)
  let yy ← chkI64 (miterDelta.y * miterDelta.y)
  let ls ← chkI64 (xx + yy)
  let w2 ← chkU32 (width * 2)
  let limit ← chkU32 (w2 * w2)
  pure (decide (ls ≤ (limit : Int)))

end Isect

/-! ## The widths before the repairs -/

namespace Old
open EG.Isect

/-- before 2947525: `(thickness * 2).pow(2) * delta.length_squared()` in `i32` -/
def thickThreshold (thickness : Int) (delta : Pt) : Option Int := do
  let t2 ← chkI32 (thickness * 2)
  let sq ← chkI32 (t2 * t2)
  let ls ← lengthSquared delta
  chkI32 (sq * ls)

/-- before 2947525: `thickness_accumulator.pow(2)` in `i32` -/
def thickAccSquare (acc : Int) : Option Int := chkI32 (acc * acc)

/-- before 5970db5: `self.denominator.pow(2) < dot_product.abs()` in `i32` -/
def denominatorSquare (denominator : Int) : Option Int := chkI32 (denominator * denominator)

/-- before 02cb64a: `origin_distance1 * normal2.y - origin_distance2 * normal1.y` in `i32` -/
def xNumerator (le1 le2 : LinearEquation) : Option Int := do
  let p1 ← chkI32 (le1.originDistance * le2.normal.y)
  let p2 ← chkI32 (le2.originDistance * le1.normal.y)
  chkI32 (p1 - p2)

/-- before 77b3eec: `miter_delta.length_squared()` in `i32` -/
def miterLengthSquared (miterDelta : Pt) : Option Int := lengthSquared miterDelta

end Old

end Chk
end EG
