/-
  EG.Model.ColorSrcPrelude — the meaning of every Rust primitive that the GENERATED file
  EG/Generated/ColorSrc.lean (written by tools/tr_colorsrc.py from the Rust text of
  core/src/pixelcolor/{conversion,rgb_color,gray_color,binary_color,mod}.rs) calls.

  TRUSTED BASE. The translator is syntax-directed and knows no semantics: `a << b` with `a : u32` becomes
  `int_shl 32 a b`, `x as u8` becomes `int_as 8 x`, `self.0` becomes `newtype_0 self`, and so on. Each such name
  is defined HERE, in one line. Conventions:

  * Every unsigned integer type is `Nat`; the operations that depend on the width of the type take the width (in
    bits) as their first argument: `u8` = 8, `u16` = 16, `u32` = 32, `usize` = `usize_bits` = 64, and the macro
    parameter `$storage_type` of `impl_rgb_color!` = `T.storageBits` of the colour's `ColorSpec`.
  * `+`, `-`, `*` WRAP modulo 2^width (what a release build computes; a debug build panics instead, and a `const`
    evaluation is a compile error). That no wrap happens on the inputs the library can produce is a THEOREM about
    the generated functions (C13 `Generated.lean`: `convert_channel_src_no_wrap`, `luma_src_no_wrap`), not an assumption of
    this file. `/` is `Nat` division (`x / 0 = 0`; the real code panics: excluded by hypothesis where it matters).
  * `<<` drops the bits shifted out of the type (Rust never panics for those) and is exact for a shift amount
    below the width; a shift amount >= width (panic in a debug build) does not occur: amounts are bit positions
    inside the type, checked by `ColorSpec.WellFormed` (C12). `>>`, `&`, `|` are the `Nat` operations.
  * `as` to an unsigned type of `w` bits is `% 2^w` (truncating when narrowing, the identity on values of a
    narrower type). `u16::from(x)` (lossless) is the identity.
  * A tuple struct with one field (`Rgb565(u16)`, `Gray4(RawU4)`, `RawU4(u8)`) IS its field: `newtype_mk`,
    `newtype_0`, `Raw_into_inner` are identities (the representation chosen in EG/Model/Color.lean).
    `Raw_new T v` is `RawUx::new(v)` of the raw type of `T` = the hand model's `T.rawNew v` (the raw layer has its
    own model and translator part; it is not regenerated here).
  * `BinaryColor::Off` = 0, `BinaryColor::On` = 1 (EG/Model/Color.lean); a `match` on a `BinaryColor` becomes a
    chain of `BinaryColor_is` tests in the order of the arms.
  * `type_named "Rgb888"` is the `ColorSpec` of the generated colour table with that name (the type a concrete
    type name in a macro body denotes); `same_type A B` is type identity (names are unique in the table: C12
    `table_counts`). `X::from(y)` with `y : X` is core's reflexive `impl<T> From<T> for T` (the identity), which
    the generated dispatchers `From_*` select with `same_type`.

  Every definition is an `abbrev` (see the note in RectSrcPrelude.lean).
-/
import EG.Generated.ColorTable
namespace EG.ColorSrcPrelude
open EG EG.Generated

/-- width of `usize` assumed (only `(1usize << bits) - 1` with `bits <= 8` depends on it, and not for any width >= 16) -/
abbrev usize_bits : Nat := 64

abbrev int_as (w v : Nat) : Nat := v % 2 ^ w
abbrev int_from (v : Nat) : Nat := v
abbrev int_add (w a b : Nat) : Nat := (a + b) % 2 ^ w
abbrev int_sub (w a b : Nat) : Nat := (a + 2 ^ w - b) % 2 ^ w
abbrev int_mul (w a b : Nat) : Nat := (a * b) % 2 ^ w
abbrev int_div (a b : Nat) : Nat := a / b
abbrev int_shl (w a b : Nat) : Nat := (a <<< b) % 2 ^ w
abbrev int_shr (a b : Nat) : Nat := a >>> b
abbrev int_and (a b : Nat) : Nat := a &&& b
abbrev int_or (a b : Nat) : Nat := a ||| b
abbrev int_eq (a b : Nat) : Bool := decide (a = b)
abbrev int_ne (a b : Nat) : Bool := decide (a ≠ b)
abbrev int_lt (a b : Nat) : Bool := decide (a < b)
abbrev int_le (a b : Nat) : Bool := decide (a ≤ b)
abbrev int_gt (a b : Nat) : Bool := decide (a > b)
abbrev int_ge (a b : Nat) : Bool := decide (a ≥ b)

abbrev newtype_mk (v : Nat) : Nat := v
abbrev newtype_0 (v : Nat) : Nat := v
abbrev Raw_new (T : ColorSpec) (v : Nat) : Nat := T.rawNew v
abbrev Raw_into_inner (v : Nat) : Nat := v
abbrev Raw_BITS_PER_PIXEL (T : ColorSpec) : Nat := T.rawBpp

abbrev BinaryColor_Off : Nat := 0
abbrev BinaryColor_On : Nat := 1
abbrev BinaryColor_is (c v : Nat) : Bool := decide (c = v)

/-- a record no colour type has (the value of `type_named` for an unknown name) -/
abbrev no_type : ColorSpec :=
  { name := "", kind := .binary, rawName := "", rawBpp := 0, rawStorageBits := 0, nbytes := 0, beLo := 0, beHi := 0,
    leLo := 0, leHi := 0, storageBits := 0, rbits := 0, gbits := 0, bbits := 0, rpos := 0, gpos := 0, bpos := 0 }
abbrev type_named (n : String) : ColorSpec := (colorTable.find? (fun s => s.name == n)).getD no_type
abbrev same_type (A B : ColorSpec) : Bool := A.name == B.name

end EG.ColorSrcPrelude
