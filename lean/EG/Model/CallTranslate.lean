/-
  EG.Model.CallTranslate — moving a target call / a write list / a pixel map by a vector
  (used to state C07: the calls of `x.translate(d)` are the calls of `x` moved by `d`).
-/
import EG.Model.Target
namespace EG

/-- A write list moved by `d`. -/
def Writes.translate (d : Pt) (ws : Writes) : Writes := ws.map (fun w => (w.1 + d, w.2))

/-- A call with its geometry moved by `d` (`clear` has no geometry of its own). -/
def Call.translate (d : Pt) : Call → Call
  | .drawIter px => .drawIter (Writes.translate d px)
  | .fillContiguous area cs => .fillContiguous (area.translate d) cs
  | .fillSolid area c => .fillSolid (area.translate d) c
  | .clear c => .clear c

/-- A pixel map moved by `d`: the new map at `p` is the old one at `p - d`. -/
def PMap.shift (d : Pt) (m : PMap) : PMap := fun p => m (p - d)

end EG
