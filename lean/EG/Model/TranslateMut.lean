/-
  EG.Model.TranslateMut — `Transform::translate_mut` of every primitive, of `Text` and of `Image`,
  written the way the Rust bodies are written: a sequence of in-place field updates on `*self`.
  Source: core/src/geometry/point.rs (`impl AddAssign for Point`: `self.x += other.x; self.y += other.y;`),
          src/primitives/rectangle/mod.rs        `self.top_left += by;`
          src/primitives/rounded_rectangle/mod.rs `self.rectangle.translate_mut(by);`
          src/primitives/circle/mod.rs, ellipse/mod.rs, arc/mod.rs, sector/mod.rs  `self.top_left += by;`
          src/primitives/line/mod.rs              `self.start += by; self.end += by;`
          src/primitives/triangle/mod.rs          `self.vertices.iter_mut().for_each(|v| *v += by);`
          src/primitives/polyline/mod.rs          `self.translate += by;`
          src/text/text.rs                        `self.position += by;`
          src/image/mod.rs                        `self.offset += by;`
  A mutation through `&mut self` is modelled as the functional update of the one field that is
  assigned (`{ s with f := .. }`), statement by statement, in source order; the value of `*self`
  after the body is what the function returns here. (`translate`, by contrast, BUILDS a new value:
  `Self { top_left: self.top_left + by, ..*self }`; for `Triangle` it copies `*self` and calls
  `translate_mut` on the copy.) That Rust's `&mut` assignment is this functional update is the
  language's semantics, not modelled further.
-/
import EG.Model.Rect
import EG.Model.RoundedRect
import EG.Model.Circle
import EG.Model.Ellipse
import EG.Model.Sector
import EG.Model.Line
import EG.Model.Triangle
import EG.Model.ThickTriangle
import EG.Model.Polyline
import EG.Model.TextLayout
import EG.Model.ImageRaw
namespace EG
namespace Mut

/-- `impl AddAssign for Point`: `self.x += other.x; self.y += other.y;` -/
def ptAddAssign (self other : Pt) : Pt :=
  let self := { self with x := self.x + other.x }
  { self with y := self.y + other.y }

/-- `Rectangle::translate_mut`: `self.top_left += by;` -/
def rectangle (self : Rect) (by_ : Pt) : Rect := { self with tl := ptAddAssign self.tl by_ }

/-- `RoundedRectangle::translate_mut`: `self.rectangle.translate_mut(by);` -/
def roundedRectangle (self : RoundedRect) (by_ : Pt) : RoundedRect :=
  { self with rect := rectangle self.rect by_ }

/-- `Circle::translate_mut`: `self.top_left += by;` -/
def circle (self : Circle) (by_ : Pt) : Circle := { self with tl := ptAddAssign self.tl by_ }

/-- `Ellipse::translate_mut`: `self.top_left += by;` -/
def ellipse (self : Ellipse) (by_ : Pt) : Ellipse := { self with tl := ptAddAssign self.tl by_ }

/-- `Arc::translate_mut`: `self.top_left += by;` -/
def arc (self : Arc) (by_ : Pt) : Arc := { self with tl := ptAddAssign self.tl by_ }

/-- `Sector::translate_mut`: `self.top_left += by;` -/
def sector (self : Sector) (by_ : Pt) : Sector := { self with tl := ptAddAssign self.tl by_ }

/-- `Line::translate_mut`: `self.start += by; self.end += by;` -/
def line (self : Line) (by_ : Pt) : Line :=
  let self := { self with start := ptAddAssign self.start by_ }
  { self with stop := ptAddAssign self.stop by_ }

/-- `Triangle::translate_mut`: `self.vertices.iter_mut().for_each(|v| *v += by);` (three vertices,
in order). -/
def triangle (self : Triangle) (by_ : Pt) : Triangle :=
  let self := { self with v1 := ptAddAssign self.v1 by_ }
  let self := { self with v2 := ptAddAssign self.v2 by_ }
  { self with v3 := ptAddAssign self.v3 by_ }

/-- The same on the triangle type of the styled-triangle model. -/
def tri (self : Joins.Tri) (by_ : Pt) : Joins.Tri :=
  let self := { self with v1 := ptAddAssign self.v1 by_ }
  let self := { self with v2 := ptAddAssign self.v2 by_ }
  { self with v3 := ptAddAssign self.v3 by_ }

/-- `Polyline::translate_mut`: `self.translate += by;` (the vertices are a borrowed slice). -/
def polyline (self : Polyline) (by_ : Pt) : Polyline :=
  { self with translate := ptAddAssign self.translate by_ }

/-- `Text::translate_mut`: `self.position += by;` -/
def text (self : TextLayout.Text) (by_ : Pt) : TextLayout.Text :=
  { self with position := ptAddAssign self.position by_ }

/-- `Image::translate_mut`: `self.offset += by;` -/
def image (self : Img.Image) (by_ : Pt) : Img.Image := { self with offset := ptAddAssign self.offset by_ }

end Mut
end EG
