/-
  EG.Model.CheckedSector — checked kernels of `Sector`, `Arc` and their styled iterators; all
  arithmetic is `i32` (`as u32` casts of squared lengths, `u32` thresholds).

    * `OriginLinearEquation::{distance, check_side}` (src/primitives/common/linear_equation.rs
      l. 131-143): `point.dot_product(normal_vector)` — two products and a sum;
    * `PlaneSector::contains` (common/plane_sector.rs l. 93-119): two distances, and for
      `Operation::Intersection` `left.dot_product(right)`, the bisector `(left.y + right.y,
      -(left.x + right.x))` and `point.dot_product(bisector)`;
      `PlaneSector::point_type` (l. 121-145): two distances, `-outside_threshold`,
      `-inside_threshold`;
    * `DistanceIterator::next` (common/distance_iterator.rs l. 56-63): `point * 2 - center_2x`,
      `delta.length_squared() as u32`;
    * `Circle::{center_2x, threshold, distances}` (`Chk.Circle.center2x`,
      `Chk.diameterToThreshold`);
    * `Sector::{center_2x, contains, offset, translate}` (sector/mod.rs l. 169-211),
      `sector::Points` (sector/points.rs), `arc::Points` (arc/points.rs: `offset(-1)`, both
      thresholds);
    * `sector::styled::StyledPixelsIterator::{new, next}` (sector/styled.rs l. 39-118,
      l. 121-168): `stroke_area` / `fill_area` (`Circle::offset`), the thresholds
      `inside * 1024 * 2 - 1024`, `outside * 1024 * 2 + 1024`, the bevel distance
      `-outside * 1024 * 4`, `LinearEquation::check_side` of the bevel line;
    * `arc::styled::StyledPixelsIterator::{new, next}` (arc/styled.rs l. 29-70).

  `PlaneSector::new` (trigonometry: f32 in the default build) is NOT part of this file: as in
  `EG.Model.Sector` a sector holds the `PlaneSector` value the real call returned. The
  `fixed_point` pipeline is `EG.Model.FixedReal` / `FixedTrig` / `PlaneSectorNew`.
-/
import EG.Model.CheckedLine
import EG.Model.StyledSector
namespace EG.Chk
open EG

namespace PlaneSector

/-- `OriginLinearEquation::distance`: `point.dot_product(self.normal_vector)`. -/
def distance (normal p : Pt) : Option Int := Isect.dot p normal

/-- `PlaneSector::contains`. -/
def contains (ps : EG.PlaneSector) (p : Pt) : Option Bool := do
  let d1 ← distance ps.left p
  let d2 ← distance ps.right p
  let c1 := decide (d1 ≤ 0)
  let c2 := decide (d2 ≥ 0)
  if ps.op = .intersection then do
    let lr ← Isect.dot ps.left ps.right
    if lr > 0 then do
      let bx ← chkI32 (ps.left.y + ps.right.y)
      let s ← chkI32 (ps.left.x + ps.right.x)
      let by_ ← chkI32 (-s)
      let pb ← Isect.dot p ⟨bx, by_⟩
      if pb < 0 then pure false else pure (ps.op.execute c1 c2)
    else pure (ps.op.execute c1 c2)
  else pure (ps.op.execute c1 c2)

/-- `PlaneSector::point_type`. -/
def pointType (ps : EG.PlaneSector) (p : Pt) (insideThreshold outsideThreshold : Int) :
    Option (Option SecPointType) := do
  let dr ← distance ps.right p
  let dl ← distance ps.left p
  let no ← chkI32 (-outsideThreshold)
  if ps.op.execute (decide (dr ≥ no)) (decide (dl ≤ outsideThreshold)) then do
    let ni ← chkI32 (-insideThreshold)
    if ps.op.execute (decide (dr ≥ insideThreshold)) (decide (dl ≤ ni)) then pure (some .fill)
    else pure (some .stroke)
  else pure none

end PlaneSector

namespace DistIt

/-- The closure of `DistanceIterator::next`. -/
def item (center2x p : Pt) : Option DistItem := do
  let p2 ← ptMul p 2
  let delta ← ptSub p2 center2x
  let ls ← lengthSquared delta
  pure (p, delta, i32AsU32 ls)

/-- `Iterator::next` (`rectangle::Points::next` is total). -/
def next (it : EG.DistIt) : Option (Option (DistItem × EG.DistIt)) :=
  match it.points.next with
  | none => pure none
  | some (p, pts') => do
    let x ← item it.center2x p
    pure (some (x, { it with points := pts' }))

/-- `Iterator::find(pred)`, with a predicate that may itself panic. -/
def findFuel (pred : DistItem → Option Bool) : Nat → EG.DistIt → Option (Option (DistItem × EG.DistIt))
  | 0, _ => pure none
  | fuel + 1, it => do
    match ← next it with
    | none => pure none
    | some (x, it') =>
      let r ← pred x
      if r then pure (some (x, it')) else findFuel pred fuel it'

def find (pred : DistItem → Option Bool) (it : EG.DistIt) : Option (Option (DistItem × EG.DistIt)) :=
  findFuel pred it.points.budget it

end DistIt

/-- `Circle::distances`: `DistanceIterator::new(self.center_2x(), &self.bounding_box())`. -/
def Circle.distances (c : EG.Circle) : Option EG.DistIt := do
  let c2 ← Circle.center2x c
  pure (DistIt.new c2 c.boundingBox)

namespace Sector

/-- `Sector::center_2x` (same code as the circle's). -/
def center2x (s : EG.Sector) : Option Pt := Circle.center2x s.toCircle

/-- `ContainsPoint::contains`. -/
def contains (s : EG.Sector) (p : Pt) : Option Bool := do
  let c ← Circle.contains s.toCircle p
  if c then do
    let p2 ← ptMul p 2
    let c2 ← center2x s
    let delta ← ptSub p2 c2
    PlaneSector.contains s.ps delta
  else pure false

/-- `OffsetOutline::offset`. -/
def offset (s : EG.Sector) (o : Int) : Option EG.Sector := do
  let c ← Circle.offset s.toCircle o
  pure (EG.Sector.fromCircle c s.ps)

/-- `Transform::translate`. -/
def translate (s : EG.Sector) (d : Pt) : Option EG.Sector := do
  let tl ← ptAdd s.tl d
  pure { s with tl := tl }

/-- `sector::Points::new`. -/
def pointsIt (s : EG.Sector) : Option EG.Sector.PointsIt := do
  let it ← Circle.distances s.toCircle
  let th ← diameterToThreshold s.d
  pure ⟨it, s.ps, th⟩

/-- The closure of `find`: `*distance < threshold && plane_sector.contains(*delta)`. -/
def pred (it : EG.Sector.PointsIt) (x : DistItem) : Option Bool :=
  if x.2.2 < it.threshold then PlaneSector.contains it.planeSector x.2.1 else pure false

/-- `sector::Points::next`. -/
def next (it : EG.Sector.PointsIt) : Option (Option (Pt × EG.Sector.PointsIt)) := do
  match ← DistIt.find (pred it) it.iter with
  | none => pure none
  | some (x, iter') => pure (some (x.1, { it with iter := iter' }))

end Sector

namespace Arc

/-- `arc::Points::new`: `inner_circle = outer_circle.offset(-1)`. -/
def pointsIt (a : EG.Arc) : Option EG.Arc.PointsIt := do
  let outer := a.toCircle
  let inner ← Circle.offset outer (-1)
  let it ← Circle.distances outer
  let ot ← diameterToThreshold outer.d
  let inn ← diameterToThreshold inner.d
  pure ⟨it, a.ps, ot, inn⟩

/-- `*distance < outer && *distance >= inner && plane_sector.contains(*delta)`. -/
def pred (outer inner : Nat) (ps : EG.PlaneSector) (x : DistItem) : Option Bool :=
  if x.2.2 < outer ∧ x.2.2 ≥ inner then PlaneSector.contains ps x.2.1 else pure false

/-- `arc::Points::next`. -/
def next (it : EG.Arc.PointsIt) : Option (Option (Pt × EG.Arc.PointsIt)) := do
  match ← DistIt.find (pred it.outerThreshold it.innerThreshold it.planeSector) it.iter with
  | none => pure none
  | some (x, iter') => pure (some (x.1, { it with iter := iter' }))

/-- `Transform::translate`. -/
def translate (a : EG.Arc) (d : Pt) : Option EG.Arc := do
  let tl ← ptAdd a.tl d
  pure { a with tl := tl }

/-- `arc::styled::StyledPixelsIterator::new`. -/
def styledPixelsIt (st : Style) (a : EG.Arc) : Option EG.Arc.StyledPixelsIt := do
  let circle := a.toCircle
  let outsideEdge ← Circle.offset circle st.strokeOffset
  let ni ← chkI32 (-(satAsI32 st.insideStrokeWidth))
  let insideEdge ← Circle.offset circle ni
  let iter ← if !st.isTransparent then Circle.distances outsideEdge else pure DistIt.empty
  let ot ← diameterToThreshold outsideEdge.d
  let inn ← diameterToThreshold insideEdge.d
  pure { iter := iter, planeSector := a.ps, outerThreshold := ot, innerThreshold := inn,
         strokeColor := st.stroke }

/-- `arc::styled::StyledPixelsIterator::next`. -/
def styledNext (it : EG.Arc.StyledPixelsIt) : Option (Option ((Pt × Color) × EG.Arc.StyledPixelsIt)) :=
  match it.strokeColor with
  | none => pure none
  | some c => do
    match ← DistIt.find (pred it.outerThreshold it.innerThreshold it.planeSector) it.iter with
    | none => pure none
    | some (x, iter') => pure (some ((x.1, c), { it with iter := iter' }))

end Arc

namespace Sector

/-- `inside_stroke_width * NORMAL_VECTOR_SCALE * 2 - NORMAL_VECTOR_SCALE`. -/
def thresholdInside (inside : Int) : Option Int := do
  let a ← chkI32 (inside * 1024)
  let b ← chkI32 (a * 2)
  chkI32 (b - 1024)

/-- `outside_stroke_width * NORMAL_VECTOR_SCALE * 2 + NORMAL_VECTOR_SCALE`. -/
def thresholdOutside (outside : Int) : Option Int := do
  let a ← chkI32 (outside * 1024)
  let b ← chkI32 (a * 2)
  chkI32 (b + 1024)

/-- `-outside_stroke_width * NORMAL_VECTOR_SCALE * 4`. -/
def bevelThreshold (outside : Int) : Option Int := do
  let n ← chkI32 (-outside)
  let a ← chkI32 (n * 1024)
  chkI32 (a * 4)

/-- `sector::styled::StyledPixelsIterator::new`; the bevel distance is only computed when there is
a bevel. -/
def styledPixelsIt (st : Style) (s : EG.Sector) (bevel : SectorBevel) : Option EG.Sector.StyledPixelsIt := do
  let strokeArea ← offset s st.strokeOffset
  let nfo ← chkI32 (-(satAsI32 st.insideStrokeWidth))
  let fillArea ← offset s nfo
  let strokeAreaCircle := strokeArea.toCircle
  let iter ← if !st.isTransparent then Circle.distances strokeAreaCircle else pure DistIt.empty
  let ot ← diameterToThreshold strokeAreaCircle.d
  let inn ← diameterToThreshold fillArea.d
  let ti ← thresholdInside (satAsI32 st.insideStrokeWidth)
  let to ← thresholdOutside (satAsI32 st.outsideStrokeWidth)
  let bv ← match bevel with
    | none => pure none
    | some (kind, normal) => do
      let th ← bevelThreshold (satAsI32 st.outsideStrokeWidth)
      pure (some (kind, (⟨normal, th⟩ : Joins.LinearEquation)))
  pure { iter := iter, planeSector := strokeArea.ps, outerThreshold := ot, innerThreshold := inn,
         strokeThresholdInside := ti, strokeThresholdOutside := to, bevel := bv,
         strokeColor := st.stroke, fillColor := st.fill }

/-- `LinearEquation::check_side(point, LineSide::Left)`: `point.dot_product(normal) -
origin_distance <= 0`. -/
def checkLeft (le : Joins.LinearEquation) (p : Pt) : Option Bool := do
  let d ← Isect.dot p le.normalVector
  let r ← chkI32 (d - le.originDistance)
  pure (decide (r ≤ 0))

/-- The "Bevel the line join" block for a `Stroke` point. -/
def bevelStroke (it : EG.Sector.StyledPixelsIt) (delta : Pt) : Option (Option SecPointType) :=
  match it.bevel with
  | some (kind, equation) => do
    let l ← checkLeft equation delta
    if l then
      match kind with
      | .interior => pure (some .fill)
      | .exterior => pure none
    else pure (some .stroke)
  | none => pure (some .stroke)

/-- The body of the `loop` of `next` for one item. -/
def pixel (it : EG.Sector.StyledPixelsIt) (x : DistItem) : Option (Option (Pt × Color)) := do
  let point := x.1
  let delta := x.2.1
  let distance := x.2.2
  match ← PlaneSector.pointType it.planeSector delta it.strokeThresholdInside it.strokeThresholdOutside with
  | none => pure none
  | some pointType =>
    let r ← if pointType = .stroke then bevelStroke it delta else pure (some pointType)
    match r with
    | none => pure none
    | some pointType =>
      let pointType :=
        if pointType = .fill ∧ distance ≥ it.innerThreshold then SecPointType.stroke else pointType
      let color := match pointType with
        | .stroke => it.strokeColor
        | .fill => it.fillColor
      match color with
      | some color => pure (some (point, color))
      | none => pure none

/-- `sector::styled::StyledPixelsIterator::next`: the `loop`. -/
def styledNextFuel : Nat → EG.Sector.StyledPixelsIt →
    Option (Option ((Pt × Color) × EG.Sector.StyledPixelsIt))
  | 0, _ => pure none
  | fuel + 1, it => do
    match ← DistIt.find (fun x => pure (decide (x.2.2 < it.outerThreshold))) it.iter with
    | none => pure none
    | some (x, iter') =>
      let it' := { it with iter := iter' }
      match ← pixel it x with
      | some w => pure (some (w, it'))
      | none => styledNextFuel fuel it'

def styledNext (it : EG.Sector.StyledPixelsIt) : Option (Option ((Pt × Color) × EG.Sector.StyledPixelsIt)) :=
  styledNextFuel it.iter.points.budget it

end Sector
end EG.Chk
