/-
  EG.Model.Polyline — `polyline::Points` (the iterator behind `Polyline::points()`), arm for arm.
  Source: src/primitives/polyline/points.rs, src/primitives/polyline/mod.rs (`Polyline`,
          `translate`).
-/
import EG.Model.Line
namespace EG

/-- `Polyline { translate, vertices }`. -/
structure Polyline where
  translate : Pt
  vertices : List Pt
  deriving DecidableEq, Repr

namespace Polyline

/-- `Polyline::new`. -/
def new (vertices : List Pt) : Polyline := ⟨Pt.zero, vertices⟩

/-- `Transform::translate`. -/
def translateBy (pl : Polyline) (by_ : Pt) : Polyline := { pl with translate := pl.translate + by_ }

/-- `polyline::Points { vertices, translate, segment_iter }`. -/
structure PointsIt where
  vertices : List Pt
  translate : Pt
  segmentIter : Line.PointsIt
  deriving DecidableEq, Repr

/-- `Points::new`: `split_first().and_then(|(start, rest)| rest.first().map(..)).unwrap_or_else(..)`. -/
def pointsIt (pl : Polyline) : PointsIt :=
  match pl.vertices with
  | [] => ⟨[], Pt.zero, Line.PointsIt.empty⟩
  | start :: rest =>
    match rest with
    | [] => ⟨[], Pt.zero, Line.PointsIt.empty⟩
    | stop :: _ =>
      { vertices := rest
        translate := pl.translate
        segmentIter := Line.pointsIt ⟨start + pl.translate, stop + pl.translate⟩ }

/-- `Iterator::next`. The recursion through `self.nth(1)` (= `advance_by(1)`: one call of `next`
whose `None` ends `nth`, then `next`) drops one vertex per level; `fuel` bounds its depth. -/
def PointsIt.nextFuel : Nat → PointsIt → Option (Pt × PointsIt)
  | 0, _ => none
  | fuel + 1, it =>
    match it.segmentIter.next with
    | some (p, seg) => some (p, { it with segmentIter := seg })
    | none =>
      match it.vertices with
      | [] => none
      | start :: rest =>
        match rest with
        | [] => none
        | stop :: _ =>
          let it : PointsIt :=
            { it with vertices := rest
                      segmentIter := Line.pointsIt ⟨start + it.translate, stop + it.translate⟩ }
          -- Skip first point of next line: `self.nth(1)`
          match nextFuel fuel it with
          | none => none
          | some (_, it) => nextFuel fuel it

def PointsIt.next (it : PointsIt) : Option (Pt × PointsIt) := it.nextFuel (it.vertices.length + 1)

def PointsIt.toListFuel : Nat → PointsIt → List Pt
  | 0, _ => []
  | fuel + 1, it =>
    match it.next with
    | some (p, it') => p :: toListFuel fuel it'
    | none => []

/-- Step budget: the sum of the segment lengths (in points) plus one. -/
def budget (tr : Pt) : List Pt → Nat
  | [] => 1
  | [_] => 1
  | a :: b :: rest => majorLength ⟨a + tr, b + tr⟩ + budget tr (b :: rest)

/-- What a `for` loop over `polyline.points()` sees. -/
def points (pl : Polyline) : List Pt := (pointsIt pl).toListFuel (budget pl.translate pl.vertices)

end Polyline
end EG
