/-
  EG.Model.Framebuffer — `Framebuffer<C, R, BO, WIDTH, HEIGHT, N>`.

  Literal transcription of src/framebuffer.rs: `buffer_size_bpp`, `new`, the three `set_pixel`
  macro families (`impl_bit!` sub-byte via `store::<BO>` with index
  `bytes_per_row * pixels_per_byte * y + x`; `RawU8` direct indexing; `impl_bytes!` with
  `to_le_bytes` / `to_be_bytes` + `copy_from_slice`), `draw_iter`, `as_image`, `pixel`;
  and of src/image/image_raw.rs as far as `Framebuffer::pixel` needs it: `ImageRaw::new` (length
  check), `data_width` (row padding), `GetPixel::pixel` (`RawDataIterator::nth`).

  A colour is its raw value (`c.into()`, a `Nat` below `2^bits`; colour <-> raw is C12's topic).
  `Framebuffer` implements only `draw_iter` of `DrawTarget`; `fill_contiguous`, `fill_solid` and
  `clear` are the trait defaults (`Call.lowerDefault`, EG/Model/Target.lean).
  Import-free apart from the model files.
-/
import EG.Model.Raw
import EG.Model.Target
namespace EG.Fb
open EG EG.Raw

/-- `buffer_size_bpp(width, height, bpp) = (width * bpp + 7) / 8 * height` -/
def bufferSize (width height bits : Nat) : Nat := (width * bits + 7) / 8 * height

/-- `bytes_per_row(width, bits_per_pixel)` of image_raw.rs (same formula in `set_pixel`). -/
def bytesPerRow (width bits : Nat) : Nat := (width * bits + 7) / 8

/-- The framebuffer: type parameters (`bits` = `C::Raw::BITS_PER_PIXEL`, data order, `WIDTH`,
`HEIGHT`) and the `N` data bytes. -/
structure Fb where
  bits : Nat
  order : Order
  width : Nat
  height : Nat
  data : List Nat
  deriving Repr

/-- `Framebuffer::new()`: `[0; N]`. (`CHECK_N` rejects `N < BUFFER_SIZE` at compile time: `Fb.Wf`.) -/
def Fb.new (bits : Nat) (o : Order) (width height n : Nat) : Fb :=
  ⟨bits, o, width, height, List.replicate n 0⟩

/-- `Self::BUFFER_SIZE` -/
def Fb.bufSize (fb : Fb) : Nat := bufferSize fb.width fb.height fb.bits

/-- `x < WIDTH && y < HEIGHT` after both `usize::try_from` succeeded. -/
def Fb.inside (fb : Fb) (p : Pt) : Prop :=
  0 ≤ p.x ∧ 0 ≤ p.y ∧ p.x.toNat < fb.width ∧ p.y.toNat < fb.height
instance (fb : Fb) (p : Pt) : Decidable (fb.inside p) := by unfold Fb.inside; exact inferInstance

/-- `set_pixel(p, c)`, arm for arm. -/
def Fb.setPixel (fb : Fb) (p : Pt) (c : Nat) : Fb :=
  if 0 ≤ p.x ∧ 0 ≤ p.y then
    let x := p.x.toNat
    let y := p.y.toNat
    if x < fb.width ∧ y < fb.height then
      if fb.bits < 8 then
        -- impl_bit!
        let pixelsPerByte := 8 / fb.bits
        let bitsPerRow := fb.width * fb.bits
        let bytesPerRow := (bitsPerRow + 7) / 8
        let index := bytesPerRow * pixelsPerByte * y + x
        -- `let _ = c.into().store::<BO>(&mut self.data, index);`
        { fb with data := (store fb.bits fb.order c fb.data index).2 }
      else if fb.bits = 8 then
        -- `self.data[y * WIDTH + x] = c.into().into_inner();`
        { fb with data := fb.data.set (y * fb.width + x) c }
      else
        -- impl_bytes!
        let bytesPerPixel := fb.bits / 8
        let index := (y * fb.width + x) * bytesPerPixel
        let bytes := if fb.order.alt then toBe bytesPerPixel c else toLe bytesPerPixel c
        -- `self.data[index..index + BYTES_PER_PIXEL].copy_from_slice(&bytes)`
        { fb with data := splice fb.data index bytes }
    else fb
  else fb

/-- `draw_iter`: `for Pixel(p, c) in pixels { self.set_pixel(p, c) }` -/
def Fb.drawIter (fb : Fb) (px : Writes) : Fb := px.foldl (fun fb w => fb.setPixel w.1 w.2) fb

/-- `bounding_box()` of `OriginDimensions` -/
def Fb.bbox (fb : Fb) : Rect := ⟨⟨0, 0⟩, ⟨fb.width, fb.height⟩⟩

/-- Any `DrawTarget` call: only `draw_iter` is implemented, the rest are the trait defaults. -/
def Fb.call (fb : Fb) (c : Call) : Fb := fb.drawIter (c.lowerDefault fb.bbox)

/-! ## The part of `ImageRaw` that `pixel` goes through -/

structure Img where
  bits : Nat
  order : Order
  data : List Nat
  w : Nat
  h : Nat
  deriving Repr

/-- `ImageRaw::new(data, size)`: `none` = `Err(InvalidDataSize)`. -/
def Img.new (bits : Nat) (o : Order) (data : List Nat) (w h : Nat) : Option Img :=
  let expected := bytesPerRow w bits * h
  if data.length ≠ expected then none else some ⟨bits, o, data, w, h⟩

/-- `data_width()`: row width in pixels including the padding pixels. -/
def Img.dataWidth (im : Img) : Nat :=
  if im.bits < 8 then
    let pixelsPerByte := 8 / im.bits
    bytesPerRow im.w im.bits * pixelsPerByte
  else im.w

/-- `GetPixel::pixel` of `ImageRaw`. -/
def Img.pixel (im : Img) (p : Pt) : Option Nat :=
  if p.x < 0 ∨ p.y < 0 ∨ p.x ≥ (im.w : Int) ∨ p.y ≥ (im.h : Int) then none
  else ((Iter.new im.bits im.order im.data).nth (p.x.toNat + p.y.toNat * im.dataWidth)).1

/-- `as_image()`: `ImageRaw::new(&self.data[0..BUFFER_SIZE], Size::new(W, H)).unwrap()`;
`none` = the slice index or the `unwrap` panics (impossible when `N >= BUFFER_SIZE`). -/
def Fb.asImage (fb : Fb) : Option Img :=
  if fb.bufSize ≤ fb.data.length then
    Img.new fb.bits fb.order (fb.data.take fb.bufSize) fb.width fb.height
  else none

/-- `GetPixel::pixel` of the framebuffer: `self.as_image().pixel(p)`. -/
def Fb.pixel (fb : Fb) (p : Pt) : Option Nat :=
  match fb.asImage with
  | none => none
  | some im => im.pixel p

end EG.Fb
