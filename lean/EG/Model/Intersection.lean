/-
  EG.Model.Intersection — `line::intersection_params::{Intersection, IntersectionParams}`, arm for arm.
  Source: src/primitives/line/intersection_params.rs.
  The one rounding division of the join code is here (`roundDiv`). Until ab2e75b it was
  `(numerator ± |d|/2) / d` with Rust's truncating `/`: exact ties (`2 n ≡ d mod 2 d`) rounded away
  from zero in ABSOLUTE coordinates - the position dependence behind the former C07 finding
  (`roundDivOld`, kept for the regression witness). Now ties are rounded up (`div_euclid`), which
  is translation invariant. The numerators are computed in `i64` (02cb64a, 5970db5).
  `Int` for `i32`; plain `+ - *` are mathematical (overflow is C08's topic).
-/
import EG.Model.LinearEquation
namespace EG
namespace Joins
open Thick (LineSide StrokeOffset)

/-- `i32::abs`. -/
def iabs (a : Int) : Int := if a < 0 then -a else a

/-- `Intersection`. -/
inductive Intersection
  | point (point : Pt) (outerSide : LineSide)
  | colinear
  deriving DecidableEq, Repr

/-- `i64::signum`. -/
def isignum (a : Int) : Int := if a < 0 then -1 else if a = 0 then 0 else 1

/-- `i64 -> i32` `saturating_as`. -/
def satI32 (a : Int) : Int :=
  if a > 2147483647 then 2147483647 else if a < -2147483648 then -2147483648 else a

/-- The rounding closure `round_div` of `intersection()` (as repaired by ab2e75b):
`sign = d.signum(); d = d.abs(); (2 * n * sign + d).div_euclid(2 * d).saturating_as()`:
round to nearest, exact ties (`2 n ≡ d mod 2 d`) UP, independent of the sign of the quotient.
Lean's `/` on `Int` is the Euclidean division. -/
def roundDiv (n d : Int) : Int :=
  let sign := isignum d
  let d := iabs d
  satI32 ((2 * n * sign + d) / (2 * d))

/-- `IntersectionParams { line1, line2, le1, le2, denominator }`. -/
structure IntersectionParams where
  line1 : Line
  line2 : Line
  le1 : LinearEquation
  le2 : LinearEquation
  denominator : Int
  deriving DecidableEq, Repr

namespace IntersectionParams

/-- `IntersectionParams::from_lines`. -/
def fromLines (line1 line2 : Line) : IntersectionParams :=
  let le1 := LinearEquation.fromLine line1
  let le2 := LinearEquation.fromLine line2
  { line1, line2, le1, le2, denominator := det le1.normalVector le2.normalVector }

/-- `nearly_colinear_has_error`. -/
def nearlyColinearHasError (p : IntersectionParams) : Bool :=
  decide (p.denominator * p.denominator < iabs (dot p.line1.delta p.line2.delta))

/-- The first `numerator` of `intersection()` (x coordinate, before the rounding offset). -/
def xNumerator (p : IntersectionParams) : Int :=
  det ⟨p.le1.originDistance, p.le2.originDistance⟩ ⟨p.le1.normalVector.y, p.le2.normalVector.y⟩

/-- The second `numerator` of `intersection()` (y coordinate). -/
def yNumerator (p : IntersectionParams) : Int :=
  det ⟨p.le1.normalVector.x, p.le2.normalVector.x⟩ ⟨p.le1.originDistance, p.le2.originDistance⟩

/-- `IntersectionParams::intersection`. -/
def intersection (p : IntersectionParams) : Intersection :=
  if p.denominator = 0 then .colinear
  else
    let outerSide := if p.denominator < 0 then LineSide.left else LineSide.right
    .point ⟨roundDiv p.xNumerator p.denominator, roundDiv p.yNumerator p.denominator⟩ outerSide

end IntersectionParams

/-- The rounding of `intersection()` before ab2e75b: `offset = |d| / 2`,
`n' = if n < 0 { n - offset } else { n + offset }`, result `n' / d` (truncating). Not used by the
model; kept to state what the repair changed (C07 regression witness). -/
def roundDivOld (n d : Int) : Int :=
  let offset := iabs d / 2       -- non-negative operand: truncating = flooring
  tdiv (if n < 0 then n - offset else n + offset) d

/-- An exact tie of `roundDiv n d`: the exact quotient `n / d` is a half-integer
(`2 n ≡ d (mod 2 d)`). Only there `roundDiv` and `roundDivOld` can differ. -/
def isTie (n d : Int) : Bool := d != 0 && (2 * n) % (2 * d) == d % (2 * d)

end Joins
end EG
