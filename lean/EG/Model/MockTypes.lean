/-
  EG.Model.MockTypes — the model's colour types (`EG.Mock.CT`) by the name of the Rust type that
  implements `ColorMapping` (src/mock_display/color_mapping.rs). Used by EG/Props/C20/Types.lean to compare
  the hand-written list `allCT` with the list the translator (tools/tr_mock.py) reads from the source, and
  by the `mock.types` stream of the driver.
-/
import EG.Model.MockDisplay
namespace EG
namespace Mock

/-- The model's constructor for a Rust colour type, `none` for a type the model does not know. -/
def ctOfRustName : String → Option CT
  | "BinaryColor" => some .binary
  | "Gray2" => some .gray2
  | "Gray4" => some .gray4
  | "Gray8" => some .gray8
  | "Rgb332" => some .rgb332
  | "Rgb444" => some .rgb444
  | "Rgb555" => some .rgb555
  | "Bgr555" => some .bgr555
  | "Rgb565" => some .rgb565
  | "Bgr565" => some .bgr565
  | "Rgb888" => some .rgb888
  | "Bgr888" => some .bgr888
  | _ => none

/-- How the model reads a digit for a gray type written with `impl_gray_color_mapping!(T, radix)`:
`toDigit4` is `to_digit(4)`, `toDigit16` is `to_digit(16)`. -/
def grayRadix : CT → Option Nat
  | .gray2 => some 4
  | .gray4 => some 16
  | _ => none

end Mock
end EG
