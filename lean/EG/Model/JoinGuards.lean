/-
  EG.Model.JoinGuards — EXECUTABLE (Bool) forms of the decidable guards under which the join theorems
  of C01 / C02 are stated, for the model driver (`EG/Driver/Thick.lean` prints them per op as the field
  ` g=<bits>`; tools/check.py tallies them into `coverage.guard_bits` of the evidence).

  The guards themselves are `Prop`s defined in lemma files that import Mathlib tactics
  (`PolyRectsInRange`, `TriRectsInRange`: EG/Lemmas/C01Thick{Poly,Tri}.lean; `PolyBBoxGuard`,
  `chainOK`, `adjOK`: EG/Lemmas/JoinsBBox{Cover,PolyMain}.lean; `TriStrokeGuard`, `TriOutlineGuard`:
  EG/Lemmas/JoinsBBoxTriMain.lean; `TriTopGuard`: EG/Props/C02/JoinsBBox.lean), which the native driver
  cannot link. The functions here use the model only (no Mathlib); that each of them is `true` exactly
  when the guard of the theorem holds is PROVED in EG/Props/C01/GuardBits.lean and
  EG/Props/C02/GuardBits.lean (`*_iff` theorems, audited with the property's other theorems).
-/
import EG.Model.ThickPolyline
import EG.Model.ThickTriangle
namespace EG
namespace Joins
namespace GuardBits
open Thick (LineSide StrokeOffset)

/-- `Rect.InRange` (EG/Lemmas/Rect.lean): no `u32 -> i32` saturation, no `i32` overflow. -/
def rectInRange (r : Rect) : Bool :=
  decide (-2147483648 ≤ r.tl.x) && decide (r.tl.x ≤ 2147483647) &&
  decide (-2147483648 ≤ r.tl.y) && decide (r.tl.y ≤ 2147483647) &&
  decide (r.size.w ≤ 2147483647) && decide (r.size.h ≤ 2147483647) &&
  decide (r.tl.x + r.size.w ≤ 2147483647) && decide (r.tl.y + r.size.h ≤ 2147483647)

/-- `PolyRectsInRange pl w`, given `drawStyled pl w = some dr`. -/
def polyRectsInRange : PolyDraw → Bool
  | .fillSolids rs => rs.all rectInRange
  | _ => true

/-- `TriRectsInRange t style`, given `triDraw t style = some calls`. -/
def triRectsInRange (calls : List (Rect × Nat)) : Bool :=
  calls.all (fun rc => rectInRange rc.1)

/-- The side of the filler line of a join, if it has one (`fillerSide`, EG/Lemmas/JoinsBBoxCover.lean). -/
def fillerSide (j : LineJoin) : Option LineSide :=
  match j.kind with
  | .bevel side | .degenerate side => some side
  | _ => none

/-- `adjOK` (EG/Lemmas/JoinsBBoxCover.lean). -/
def adjOK (U : Rect) (s s' : ThickSegment) : Bool :=
  (s.isSkeleton == s'.isSkeleton) ||
    match fillerSide s.endJoin with
    | some .left => U.contains (midpoint ⟨s.endJoin.firstEdgeEnd.left, s.endJoin.secondEdgeStart.left⟩)
    | _ => true

/-- `chainOK` (EG/Lemmas/JoinsBBoxCover.lean). -/
def chainOK (U : Rect) : List ThickSegment → Bool
  | s :: s' :: rest => adjOK U s s' && chainOK U (s' :: rest)
  | _ => true

/-- The `chainOK` part of `PolyBBoxGuard pl w` alone (`true` where the guard has nothing to check). -/
def polyChainOK (pl : Polyline) (w : Nat) : Bool :=
  match untranslatedBoundingBox pl w, (ThickSegmentIter.new pl.vertices w).bind ThickSegmentIter.toList with
  | some ubb, some segs => chainOK ubb segs
  | _, _ => true

/-- `PolyBBoxGuard pl w` (EG/Lemmas/JoinsBBoxPolyMain.lean). -/
def polyBBoxGuard (pl : Polyline) (w : Nat) : Bool :=
  match untranslatedBoundingBox pl w, (ThickSegmentIter.new pl.vertices w).bind ThickSegmentIter.toList with
  | some ubb, some segs => decide (-2147483648 ≤ ubb.tl.y) && chainOK ubb segs
  | _, _ => true

/-- The three closed segments of a triangle (`closedSegments3`, EG/Lemmas/JoinsTriMove.lean). -/
def closedSegments3 (t : Tri) (w : Nat) (off : StrokeOffset) : Option (List ThickSegment) := do
  let j0 ← LineJoin.fromPoints t.v3 t.v1 t.v2 w off
  let j1 ← LineJoin.fromPoints t.v1 t.v2 t.v3 w off
  let j2 ← LineJoin.fromPoints t.v2 t.v3 t.v1 w off
  pure [⟨j0, j1⟩, ⟨j1, j2⟩, ⟨j2, j0⟩]

/-- The three `adjOK` conjuncts of `TriStrokeGuard` alone. -/
def triAdjOK (t : Tri) (style : TriStyle) : Bool :=
  match closedSegments3 t.sortedClockwise style.strokeWidth style.strokeAlignment.toOffset with
  | some [a, b, c] =>
    let U := foldEdgeBoxes [a, b, c]
    adjOK U a b && adjOK U b c && adjOK U c a
  | _ => true

/-- `TriStrokeGuard t style` (EG/Lemmas/JoinsBBoxTriMain.lean). -/
def triStrokeGuard (t : Tri) (style : TriStyle) : Bool :=
  match closedSegments3 t.sortedClockwise style.strokeWidth style.strokeAlignment.toOffset with
  | some [a, b, c] =>
    let U := foldEdgeBoxes [a, b, c]
    decide ((-2147483648 : Int) ≤ U.tl.y) && adjOK U a b && adjOK U b c && adjOK U c a &&
      (!style.fillColor.isSome || (U.contains t.v1 && U.contains t.v2 && U.contains t.v3))
  | _ => true

/-- `TriStrokeColumnsGuard t style` (EG/Lemmas/JoinsBBoxTriAlign.lean): `TriStrokeGuard` with the vertex
clause weakened to the columns of the stroke box. -/
def triStrokeColumnsGuard (t : Tri) (style : TriStyle) : Bool :=
  match closedSegments3 t.sortedClockwise style.strokeWidth style.strokeAlignment.toOffset with
  | some [a, b, c] =>
    let U := foldEdgeBoxes [a, b, c]
    decide ((-2147483648 : Int) ≤ U.tl.y) && adjOK U a b && adjOK U b c && adjOK U c a &&
      (!style.fillColor.isSome ||
        (decide (U.tl.x ≤ t.v1.x) && decide (t.v1.x ≤ U.tl.x + U.size.w - 1) &&
         decide (U.tl.x ≤ t.v2.x) && decide (t.v2.x ≤ U.tl.x + U.size.w - 1) &&
         decide (U.tl.x ≤ t.v3.x) && decide (t.v3.x ≤ U.tl.x + U.size.w - 1)))
  | _ => true

/-- `TriOutlineGuard t style` (EG/Lemmas/JoinsBBoxTriMain.lean). -/
def triOutlineGuard (t : Tri) (style : TriStyle) : Bool :=
  match triStyledBoundingBox t style with
  | some bb =>
    decide ((-2147483648 : Int) ≤ bb.tl.y) &&
    match closedSegments3 t.sortedClockwise style.strokeWidth style.strokeAlignment.toOffset with
    | some segs =>
      segs.all (fun s => s.outline.all (fun l => bb.contains l.start && bb.contains l.stop)) &&
      (bb.contains t.v1 && bb.contains t.v2 && bb.contains t.v3)
    | none => true
  | none => true

/-- `TriTopGuard t` (EG/Props/C02/JoinsBBox.lean). -/
def triTopGuard (t : Tri) : Bool := decide (-2147483648 ≤ t.boundingBox.tl.y)

end GuardBits
end Joins
end EG
