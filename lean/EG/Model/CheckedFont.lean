/-
  EG.Model.CheckedFont — checked kernels of glyph rendering:

    * `MonoFont::glyph` (src/mono_font/mod.rs l. 65-91): `glyphs_per_row = image.width /
      character width` (guarded), `glyph_index = index(c) as u32` (truncating cast from `usize`),
      `row = glyph_index / glyphs_per_row`, `char_x = (glyph_index - row * glyphs_per_row) *
      character width`, `char_y = row * character height` (`u32` products and difference),
      `char_x as i32`, `char_y as i32` (wrapping casts);
    * `ImageRaw::draw_sub_image` (src/image/image_raw.rs l. 221-246, as repaired by a083ac5) for
      the 1 bpp atlas: the guard `u64::from(top_left.x as u32) + u64::from(width) >
      u64::from(image.width)` (`u64` sums), `data_width()`,
      `initial_skip = y as usize * data_width + x as usize`, `row_skip = data_width - width`
      (`usize`); `ContiguousPixels::new` / `next` only subtract behind guards;
    * `line_elements` (src/mono_font/mono_text_style.rs l. 70-103): `width as i32`,
      `spacing as i32`, `position.x += ..` per element (`i32`);
    * `DecorationDimensions::get_bounding_box` (mod.rs l. 171-176): `position + Size::new(0,
      offset)` (with the debug assertion of `Point + Size`); `draw_decorations`;
    * `draw_string` (mono_text_style.rs l. 195-243): `position - Point::new(0, baseline_offset)`,
      the transparent arm `(width + spacing) * chars().count() as u32` and `position +
      Size::new(dx, 0)`, `(next.x - position.x) as u32`, `next + Point::new(0, baseline_offset)`;
      `draw_whitespace` (l. 245-268).
  `MonoFontDrawTarget` and the `Translated` adapter of `Image::draw` add `Point::zero() + offset`
  and iterate `Rectangle::points()` (saturating): nothing that can panic.
  Plain model: `EG.Model.Font`.
-/
import EG.Model.CheckedData
import EG.Model.Font
namespace EG.Chk.Font
open EG EG.Font

/-- `MonoFont::glyph` for the glyph index `gi` (the value of `index(c) as u32`). -/
def glyphAreaOfIndex (f : MonoFont) (gi : Nat) : Option Rect :=
  if f.cw = 0 ∨ f.imgW < f.cw then pure Rect.zero
  else do
    let glyphsPerRow ← divU f.imgW f.cw
    let row ← divU gi glyphsPerRow
    let rg ← chkU32 (row * glyphsPerRow)
    let col ← subU gi rg
    let charX ← chkU32 (col * f.cw)
    let charY ← chkU32 (row * f.ch)
    pure ⟨⟨u32AsI32 charX, u32AsI32 charY⟩, ⟨f.cw, f.ch⟩⟩

/-- `MonoFont::glyph(c)`: `self.glyph_mapping.index(c) as u32`. -/
def glyphArea (f : MonoFont) (c : Nat) : Option Rect := glyphAreaOfIndex f (f.index c % 4294967296)

/-- `data_width()` of the 1 bpp atlas: `bytes_per_row(width, 1) as u32 * 8`. -/
def atlasDataWidth (imgW : Nat) : Option Nat := EG.Chk.imageDataWidth 1 imgW

/-- `ImageRaw::draw_sub_image`: `some none` = the guard says "draw nothing", `some (some
(initial_skip, row_skip))` = the arguments of `ContiguousPixels::new`. -/
def subImageSkips (imgW imgH : Nat) (a : Rect) : Option (Option (Nat × Nat)) :=
  if a.isZeroSized ∨ a.tl.x < 0 ∨ a.tl.y < 0 then pure none
  else do
    let xr ← chkU64 (i32AsU32 a.tl.x + a.size.w)
    if xr > imgW then pure none
    else do
      let yb ← chkU64 (i32AsU32 a.tl.y + a.size.h)
      if yb > imgH then pure none
      else do
        let dw ← atlasDataWidth imgW
        let m ← chkUsize (a.tl.y.toNat * dw)
        let initialSkip ← chkUsize (m + a.tl.x.toNat)
        let rowSkip ← subU dw a.size.w
        pure (some (initialSkip, rowSkip))

/-- `Image::new(&glyph, p).draw(..)` on the binary target: the glyph area, the guard and the
skips of `draw_sub_image`; the call is the plain model's. -/
def glyphCalls (f : MonoFont) (atlas : Pt → Bool) (c : Nat) (p : Pt) : Option (List BCall) := do
  let a ← glyphArea f c
  match ← subImageSkips f.imgW f.imgH a with
  | none => pure []
  | some _ => pure [BCall.fillContiguous ⟨p, a.size⟩ (cellBits atlas a)]

/-- One call of the `from_fn` closure of `line_elements`. -/
def lineNext (f : MonoFont) (s : LineIt) : Option ((Pt × Elem) × LineIt) :=
  if s.addSpacing then do
    let x ← chkI32 (s.pos.x + u32AsI32 f.spacing)
    pure ((s.pos, .spacing), { s with pos := ⟨x, s.pos.y⟩, addSpacing := false })
  else
    match s.rest with
    | c :: cs => do
      let x ← chkI32 (s.pos.x + u32AsI32 f.cw)
      pure ((s.pos, .char c), { pos := ⟨x, s.pos.y⟩, rest := cs, addSpacing := !cs.isEmpty })
    | [] => pure ((s.pos, .done), s)

/-- The items the `for` loop of `draw_string_binary` sees. -/
def lineToListFuel (f : MonoFont) : Nat → LineIt → Option (List (Pt × Elem))
  | 0, _ => some []
  | fuel + 1, s => do
    let r ← lineNext f s
    match r.1 with
    | (p, .done) => pure [(p, .done)]
    | item => do
      let rest ← lineToListFuel f fuel r.2
      pure (item :: rest)

def lineElements (f : MonoFont) (pos : Pt) (text : List Nat) : Option (List (Pt × Elem)) :=
  lineToListFuel f (2 * text.length + 1) (lineIt pos text)

/-- What one line element does on the binary target. -/
def elemCalls (f : MonoFont) (atlas : Pt → Bool) (hasBg : Bool) : Pt × Elem → Option (List BCall)
  | (p, .char c) => glyphCalls f atlas c p
  | (p, .spacing) =>
    pure (if f.spacing > 0 ∧ hasBg then [BCall.fillSolid ⟨p, ⟨f.spacing, f.ch⟩⟩ false] else [])
  | (_, .done) => pure []

def elemCallsAll (f : MonoFont) (atlas : Pt → Bool) (hasBg : Bool) :
    List (Pt × Elem) → Option (List BCall)
  | [] => some []
  | e :: es => do
    let a ← elemCalls f atlas hasBg e
    let b ← elemCallsAll f atlas hasBg es
    pure (a ++ b)

/-- `draw_string_binary`. (The elements are produced and consumed alternately in the code; the
set of operations, and hence "some operation panics", is the same.) -/
def drawStringBinary (f : MonoFont) (atlas : Pt → Bool) (hasBg : Bool) (text : List Nat) (pos : Pt) :
    Option (List BCall × Pt) := do
  let es ← lineElements f pos text
  let calls ← elemCallsAll f atlas hasBg es
  pure (calls,
    match es.find? (fun e => e.2 == Elem.done) with
    | some (p, _) => p
    | none => pos)

/-- `DecorationDimensions::get_bounding_box`. -/
def decoRect (off h : Nat) (pos : Pt) (width : Nat) : Option Rect := do
  let tl ← ptAddSize pos ⟨0, off⟩
  pure ⟨tl, ⟨width, h⟩⟩

/-- `draw_decorations`. -/
def drawDecorations (f : MonoFont) (st : Font.Style) (width : Nat) (pos : Pt) : Option (List Call) := do
  let a ← match st.strikethrough.effective st.textColor with
    | some c => do
      let r ← decoRect f.stOff f.stH pos width
      pure [Call.fillSolid r c]
    | none => pure []
  let b ← match st.underline.effective st.textColor with
    | some c => do
      let r ← decoRect f.ulOff f.ulH pos width
      pure [Call.fillSolid r c]
    | none => pure []
  pure (a ++ b)

/-- `<MonoTextStyle as TextRenderer>::draw_string`. -/
def drawString (f : MonoFont) (atlas : Pt → Bool) (st : Font.Style) (text : List Nat) (position : Pt)
    (bl : Baseline) : Option (List Call × Pt) := do
  let pos ← ptSub position ⟨0, f.baselineOffset bl⟩
  let r ← match st.textColor, st.bgColor with
    | some tc, some bc => do
      let r ← drawStringBinary f atlas true text pos
      pure (r.1.flatMap (Mode.both tc bc).lower, r.2)
    | some tc, none => do
      let r ← drawStringBinary f atlas false text pos
      pure (r.1.flatMap (Mode.fg tc).lower, r.2)
    | none, some bc => do
      let r ← drawStringBinary f atlas true text pos
      pure (r.1.flatMap (Mode.bg bc).lower, r.2)
    | none, none => do
      let s ← chkU32 (f.cw + f.spacing)
      let dx ← chkU32 (s * (text.length % 4294967296))
      let nx ← ptAddSize pos ⟨dx, 0⟩
      pure ([], nx)
  let deco ← if r.2.x > pos.x then do
      let w ← chkI32 (r.2.x - pos.x)
      drawDecorations f st (i32AsU32 w) pos
    else pure []
  let ret ← ptAdd r.2 ⟨0, f.baselineOffset bl⟩
  pure (r.1 ++ deco, ret)

/-- `<MonoTextStyle as TextRenderer>::draw_whitespace`. -/
def drawWhitespace (f : MonoFont) (st : Font.Style) (width : Nat) (position : Pt) (bl : Baseline) :
    Option (List Call × Pt) := do
  let pos ← ptSub position ⟨0, f.baselineOffset bl⟩
  let calls ← if width ≠ 0 then do
      let bg := match st.bgColor with
        | some bc => [Call.fillSolid ⟨pos, ⟨width, f.ch⟩⟩ bc]
        | none => []
      let d ← drawDecorations f st width pos
      pure (bg ++ d)
    else pure []
  let ret ← ptAdd pos ⟨satAsI32 width, f.baselineOffset bl⟩
  pure (calls, ret)

end EG.Chk.Font
