/-
  EG.Model.ThickSrcPrelude — the meaning of the Rust names that the GENERATED file EG/Generated/ThickSrc.lean
  (written by tools/tr_linesrc.py from /repo's src/primitives/line/thick_points.rs, src/primitives/common/mod.rs and
  src/geometry/mod.rs) calls, in addition to RectSrcPrelude.lean and LineSrcPrelude.lean.

  TRUSTED BASE. The structs and enums of the thick-line code ARE the hand model's (EG/Model/ThickLine.lean); the
  translator checks the Rust declarations against exactly these field / variant lists and refuses otherwise.
  * `ParallelsIterator { parallel_parameters, .. , stroke_offset }` = `EG.Thick.ParallelsIterator` (11 fields, same order)
  * `ThickPoints { parallel, parallel_length, parallel_points_remaining, iter }` = `EG.Thick.ThickPointsIt`
  * `enum LineSide { Left, Right }`, `enum StrokeOffset { None, Left, Right }`, `enum ParallelLineType { Normal, Extra }`
    = the model's enumerations (constructors usable in patterns).
  * `i64`: `Int`; `i64::from`, `*`, `>` and `pow` are the mathematical operations (the threshold is an `i64` in the
    code so that `(2 * thickness)^2 * length_squared` does not overflow; unbounded here as everywhere: C08).
    `thickness_threshold: i64` is the model's `thicknessThreshold : Int`.
  * `a == b` on a type that derives `PartialEq` (checked by the translator on the declaration) is structural equality.
  * `loop { .. }` is `while true { .. }` on explicit fuel (`RectSrcPrelude.while_loop`); a function that contains a loop or
    calls one takes `fuel` and returns `Option`: `none` = the fuel ran out (it says nothing about the Rust code).
-/
import EG.Model.LineSrcPrelude
import EG.Model.ThickLine
namespace EG.ThickSrcPrelude
open EG.RectSrcPrelude EG.LineSrcPrelude

abbrev LineSide := EG.Thick.LineSide
@[match_pattern] abbrev LineSide.Left : LineSide := EG.Thick.LineSide.left
@[match_pattern] abbrev LineSide.Right : LineSide := EG.Thick.LineSide.right
abbrev StrokeOffset := EG.Thick.StrokeOffset
@[match_pattern] abbrev StrokeOffset.None : StrokeOffset := EG.Thick.StrokeOffset.none
@[match_pattern] abbrev StrokeOffset.Left : StrokeOffset := EG.Thick.StrokeOffset.left
@[match_pattern] abbrev StrokeOffset.Right : StrokeOffset := EG.Thick.StrokeOffset.right
abbrev ParallelLineType := EG.Thick.ParallelLineType
@[match_pattern] abbrev ParallelLineType.Normal : ParallelLineType := EG.Thick.ParallelLineType.normal
@[match_pattern] abbrev ParallelLineType.Extra : ParallelLineType := EG.Thick.ParallelLineType.extra

abbrev ParallelsIterator := EG.Thick.ParallelsIterator
abbrev ParallelsIterator_mk (parallel_parameters : BresenhamParameters) (perpendicular_parameters : BresenhamParameters) (thickness_accumulator : Int) (thickness_threshold : Int) (flip : Bool) (left : Bresenham) (left_error : Int) (right : Bresenham) (right_error : Int) (next_side : LineSide) (stroke_offset : StrokeOffset) : ParallelsIterator :=
  ⟨parallel_parameters, perpendicular_parameters, thickness_accumulator, thickness_threshold, flip, left, left_error, right, right_error, next_side, stroke_offset⟩
abbrev ParallelsIterator_parallel_parameters (s : ParallelsIterator) : BresenhamParameters := s.parallelParameters
abbrev ParallelsIterator_perpendicular_parameters (s : ParallelsIterator) : BresenhamParameters := s.perpendicularParameters
abbrev ParallelsIterator_thickness_accumulator (s : ParallelsIterator) : Int := s.thicknessAccumulator
abbrev ParallelsIterator_thickness_threshold (s : ParallelsIterator) : Int := s.thicknessThreshold
abbrev ParallelsIterator_flip (s : ParallelsIterator) : Bool := s.flip
abbrev ParallelsIterator_left (s : ParallelsIterator) : Bresenham := s.left
abbrev ParallelsIterator_left_error (s : ParallelsIterator) : Int := s.leftError
abbrev ParallelsIterator_right (s : ParallelsIterator) : Bresenham := s.right
abbrev ParallelsIterator_right_error (s : ParallelsIterator) : Int := s.rightError
abbrev ParallelsIterator_next_side (s : ParallelsIterator) : LineSide := s.nextSide
abbrev ParallelsIterator_stroke_offset (s : ParallelsIterator) : StrokeOffset := s.strokeOffset
abbrev ParallelsIterator_set_parallel_parameters (s : ParallelsIterator) (v : BresenhamParameters) : ParallelsIterator := { s with parallelParameters := v }
abbrev ParallelsIterator_set_perpendicular_parameters (s : ParallelsIterator) (v : BresenhamParameters) : ParallelsIterator := { s with perpendicularParameters := v }
abbrev ParallelsIterator_set_thickness_accumulator (s : ParallelsIterator) (v : Int) : ParallelsIterator := { s with thicknessAccumulator := v }
abbrev ParallelsIterator_set_thickness_threshold (s : ParallelsIterator) (v : Int) : ParallelsIterator := { s with thicknessThreshold := v }
abbrev ParallelsIterator_set_flip (s : ParallelsIterator) (v : Bool) : ParallelsIterator := { s with flip := v }
abbrev ParallelsIterator_set_left (s : ParallelsIterator) (v : Bresenham) : ParallelsIterator := { s with left := v }
abbrev ParallelsIterator_set_left_error (s : ParallelsIterator) (v : Int) : ParallelsIterator := { s with leftError := v }
abbrev ParallelsIterator_set_right (s : ParallelsIterator) (v : Bresenham) : ParallelsIterator := { s with right := v }
abbrev ParallelsIterator_set_right_error (s : ParallelsIterator) (v : Int) : ParallelsIterator := { s with rightError := v }
abbrev ParallelsIterator_set_next_side (s : ParallelsIterator) (v : LineSide) : ParallelsIterator := { s with nextSide := v }
abbrev ParallelsIterator_set_stroke_offset (s : ParallelsIterator) (v : StrokeOffset) : ParallelsIterator := { s with strokeOffset := v }

abbrev ThickPoints := EG.Thick.ThickPointsIt
abbrev ThickPoints_mk (parallel : Bresenham) (parallel_length : Nat) (parallel_points_remaining : Nat) (iter : ParallelsIterator) : ThickPoints :=
  ⟨parallel, parallel_length, parallel_points_remaining, iter⟩
abbrev ThickPoints_parallel (s : ThickPoints) : Bresenham := s.parallel
abbrev ThickPoints_parallel_length (s : ThickPoints) : Nat := s.parallelLength
abbrev ThickPoints_parallel_points_remaining (s : ThickPoints) : Nat := s.parallelPointsRemaining
abbrev ThickPoints_iter (s : ThickPoints) : ParallelsIterator := s.iter
abbrev ThickPoints_set_parallel (s : ThickPoints) (v : Bresenham) : ThickPoints := { s with parallel := v }
abbrev ThickPoints_set_parallel_length (s : ThickPoints) (v : Nat) : ThickPoints := { s with parallelLength := v }
abbrev ThickPoints_set_parallel_points_remaining (s : ThickPoints) (v : Nat) : ThickPoints := { s with parallelPointsRemaining := v }
abbrev ThickPoints_set_iter (s : ThickPoints) (v : ParallelsIterator) : ThickPoints := { s with iter := v }

/-! ### `i64`, `pow`, derived `==` -/

abbrev i64_from_i32 (a : Int) : Int := a
abbrev i64_from_u32 (a : Nat) : Int := (a : Int)
abbrev i64_add (a b : Int) : Int := a + b
abbrev i64_sub (a b : Int) : Int := a - b
abbrev i64_mul (a b : Int) : Int := a * b
abbrev i64_pow (a : Int) (n : Nat) : Int := a ^ n
abbrev i32_pow (a : Int) (n : Nat) : Int := a ^ n
abbrev i64_eq (a b : Int) : Bool := decide (a = b)
abbrev i64_ne (a b : Int) : Bool := decide (a ≠ b)
abbrev i64_lt (a b : Int) : Bool := decide (a < b)
abbrev i64_le (a b : Int) : Bool := decide (a ≤ b)
abbrev i64_gt (a b : Int) : Bool := decide (a > b)
abbrev i64_ge (a b : Int) : Bool := decide (a ≥ b)
/-- `a == b` / `a != b` through `#[derive(PartialEq)]`. -/
abbrev struct_eq {α : Type} [DecidableEq α] (a b : α) : Bool := decide (a = b)
abbrev struct_ne {α : Type} [DecidableEq α] (a b : α) : Bool := decide (a ≠ b)

end EG.ThickSrcPrelude
