/-
  EG.Model.FixedReal — `geometry::Real` of the `fixed_point` build: `Real(fixed::types::I16F16)`,
  a 32-bit two's-complement integer (the *bits*) read as `bits / 65536`.
  Source: src/geometry/real.rs (feature `fixed_point`), fixed-1.31.0 (`arith.rs`: `Add`/`Sub`/`Neg`
  pass the operation to the `i32` bits, `Mul`/`Div` widen to `i64` and `debug_assert!(!overflow)`;
  `macros_round.rs`: `round`, `round_to_zero`; `macros_no_frac.rs`: `abs`, `checked_rem`).

  A value is its bits, an `Int` in the `i32` range. The model describes the build the harness runs:
  `overflow-checks` and `debug-assertions` on (harness/Cargo.toml `[profile.dev]`, which applies to
  the `fixed` dependency as well). Every operation that panics in that build returns `none`:
    * `+ - neg abs` on the bits overflow like `i32` arithmetic (`attempt to add with overflow`, ..);
    * `*`: `(bits_a * bits_b) >> 16` computed in `i64`, arithmetic shift = FLOOR; panics (`overflow`)
      iff the result does not fit `i32` (the `i64` product `a * (b << 16)` overflows exactly then);
    * `/`: `(bits_a << 16) / bits_b` in `i64`, Rust `/` = truncation TOWARD ZERO; panics on a zero
      divisor and when the quotient does not fit `i32`;
    * `%`: `i32` remainder of the bits (sign of the dividend), `0` for a divisor of `-1` bits, panics
      on a zero divisor;
    * `round`: to the nearest integer, ties AWAY from zero; panics when the result does not fit;
    * `i32::from(Real)` = `round_to_zero().to_num::<i32>()`: the integer part, toward zero;
    * `Real::from(i32)` = `I16F16::from_num`: `n << 16`, panics when it does not fit.
  In a release build (no debug assertions) the same operations wrap instead of panicking; that build
  is not modelled.
  Import-free.
-/
namespace EG.Fx

/-- Result of an `i32` operation of the checked build: the value if it fits, else a panic. -/
def chk (x : Int) : Option Int :=
  if -2147483648 ≤ x ∧ x ≤ 2147483647 then some x else none

/-- `impl Add for Real`: `Self(self.0 + other.0)` -/
def add (a b : Int) : Option Int := chk (a + b)

/-- `impl Sub for Real` -/
def sub (a b : Int) : Option Int := chk (a - b)

/-- `impl Neg for Real` -/
def neg (a : Int) : Option Int := chk (-a)

/-- `Real::abs`: `i32::abs` of the bits (overflows for `i32::MIN`) -/
def abs (a : Int) : Option Int := chk (if a < 0 then -a else a)

/-- `impl Mul for Real`: floor of the exact product -/
def mul (a b : Int) : Option Int := chk (a * b / 65536)

/-- `impl Div for Real`: the exact quotient truncated toward zero -/
def div (a b : Int) : Option Int :=
  if b = 0 then none else chk (Int.tdiv (a * 65536) b)

/-- `self.0 % rhs.0` (`Rem for I16F16`: `checked_rem(..).expect("division by zero")`) -/
def rem (a b : Int) : Option Int :=
  if b = -1 then some 0
  else if b = 0 then none
  else some (Int.tmod a b)

/-- `Real::rem_euclid`: `let r = self.0 % rhs.0; if r < 0.0 { Real(r) + rhs.abs() } else { Real(r) }` -/
def remEuclid (a rhs : Int) : Option Int := do
  let r ← rem a rhs
  if r < 0 then
    let m ← abs rhs
    add r m
  else
    pure r

/-- `I16F16::int`: the bits with the fraction cleared (floor) -/
def intPart (a : Int) : Int := a / 65536 * 65536

/-- `Real::round` = `I16F16::round` (`overflowing_round` + `debug_assert!(!overflow)`) -/
def round (a : Int) : Option Int :=
  if a % 65536 < 32768 then some (intPart a)                      -- `(bits & FRAC_MSB) == 0`
  else if a % 65536 = 32768 ∧ a < 0 then some (intPart a)          -- `tie && self.to_bits() < 0`
  else chk (intPart a + 65536)                                    -- `int.overflowing_add(increment)`

/-- `I16F16::round_to_zero` -/
def roundToZero (a : Int) : Int :=
  if a < 0 ∧ a % 65536 ≠ 0 then intPart a + 65536 else intPart a

/-- `I16F16::to_num::<i32>()`: the fractional bits are discarded -/
def toNumI32 (a : Int) : Int := a / 65536

/-- `impl From<Real> for i32`: `src.0.round_to_zero().to_num::<i32>()` -/
def toI32 (a : Int) : Int := toNumI32 (roundToZero a)

/-- `impl From<i32> for Real`: `I16F16::from_num(src)` -/
def fromI32 (n : Int) : Option Int := chk (n * 65536)

end EG.Fx
