/-
  EG.Model.Line — `line::Points` (the iterator behind `Line::points()`), arm for arm.
  Source: src/primitives/line/points.rs, src/primitives/line/mod.rs.
-/
import EG.Model.Bresenham
namespace EG
namespace Line

/-- `line::Points { parameters, bresenham, points_remaining }`. -/
structure PointsIt where
  parameters : BresenhamParameters
  bresenham : Bresenham
  pointsRemaining : Nat
  deriving DecidableEq, Repr

/-- `Points::new`. -/
def pointsIt (l : Line) : PointsIt :=
  { parameters := BresenhamParameters.new l
    bresenham := Bresenham.new l.start
    pointsRemaining := majorLength l }

/-- `Points::empty`. -/
def PointsIt.empty : PointsIt :=
  { pointsIt ⟨Pt.zero, Pt.zero⟩ with pointsRemaining := 0 }

/-- `Iterator::next`. -/
def PointsIt.next (it : PointsIt) : Option (Pt × PointsIt) :=
  if it.pointsRemaining > 0 then
    let (p, b) := it.bresenham.next it.parameters
    some (p, { it with pointsRemaining := it.pointsRemaining - 1, bresenham := b })
  else none

/-- What a `for` loop sees, bounded by `fuel` calls of `next`. -/
def PointsIt.toListFuel : Nat → PointsIt → List Pt
  | 0, _ => []
  | fuel + 1, it =>
    match it.next with
    | some (p, it') => p :: toListFuel fuel it'
    | none => []

/-- Everything the iterator still yields (`points_remaining` is the exact number of items). -/
def PointsIt.toList (it : PointsIt) : List Pt := it.toListFuel it.pointsRemaining

/-- `Line::points()` collected. -/
def points (l : Line) : List Pt := (pointsIt l).toList

end Line
end EG
