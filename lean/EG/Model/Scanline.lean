/-
  EG.Model.Scanline — `primitives::common::Scanline`, arm for arm.
  Source: src/primitives/common/scanline.rs
  Shared by circle, ellipse, rounded rectangle (and the triangle / polyline scanline iterators).

  A `Scanline` is a row `y` plus a half-open `Range<i32>` `xs..xe`. `Range::is_empty` is
  `!(start < end)`; `Range::next` yields `start` and increments it while `start < end`.
  `draw` returns the list of target calls it makes (error propagation is C04's topic).
-/
import EG.Model.Target
namespace EG

structure Scanline where
  y : Int
  xs : Int   -- x.start
  xe : Int   -- x.end
  deriving DecidableEq, Repr, Inhabited

namespace Scanline

/-- `Scanline::new_empty(y)` = `new(y, 0..0)` -/
def newEmpty (y : Int) : Scanline := ⟨y, 0, 0⟩

/-- `is_empty`: `Range::is_empty` = `!(start < end)` -/
def isEmpty (s : Scanline) : Bool := !decide (s.xs < s.xe)

/-- `extend` (private helper of `bresenham_intersection`) -/
def extend (s : Scanline) (x : Int) : Scanline :=
  if s.isEmpty then { s with xs := x, xe := x + 1 }
  else if x < s.xs then { s with xs := x }
  else if x ≥ s.xe then { s with xe := x + 1 }
  else s

/-- `bresenham_intersection(line)`; the points of `line.points()` are a parameter (the line model
belongs to another topic): `skip_while(p.y != y).take_while(p.y == y).for_each(extend)`. -/
def bresenhamIntersection (s : Scanline) (lineStart lineEnd : Pt) (linePoints : List Pt) : Scanline :=
  let inY : Bool :=
    if lineStart.y ≤ lineEnd.y then decide (lineStart.y ≤ s.y ∧ s.y ≤ lineEnd.y)
    else decide (lineEnd.y ≤ s.y ∧ s.y ≤ lineStart.y)
  if !inY then s
  else ((linePoints.dropWhile (fun p => p.y != s.y)).takeWhile (fun p => p.y == s.y)).foldl
    (fun s p => s.extend p.x) s

/-- `touches` (both scanlines are assumed to have the same `y`; the real code `debug_assert`s it) -/
def touches (s o : Scanline) : Bool :=
  if s.isEmpty || o.isEmpty then false
  else
    let inR (lo hi v : Int) : Bool := decide (lo ≤ v ∧ v ≤ hi)
    inR (s.xs - 1) s.xe o.xs || inR (s.xs - 1) s.xe (o.xe - 1) ||
      (inR (o.xs - 1) o.xe s.xs || inR (o.xs - 1) o.xe (s.xe - 1))

/-- `try_extend`: returns the flag and the new `self`. -/
def tryExtend (s o : Scanline) : Bool × Scanline :=
  if s.touches o then (true, { s with xs := min s.xs o.xs, xe := max s.xe o.xe }) else (false, s)

/-- `to_rectangle` -/
def toRectangle (s : Scanline) : Rect :=
  let width := if !s.isEmpty then (s.xe - s.xs).toNat else 0
  ⟨⟨s.xs, s.y⟩, ⟨width, 1⟩⟩

/-- `try_take`: returns the result and the new `self`. -/
def tryTake (s : Scanline) : Option Scanline × Scanline :=
  if !s.isEmpty then (some s, { s with xs := 0, xe := 0 }) else (none, s)

/-- `draw(target, color)`: nothing for an empty scanline, else one `fill_solid` of a 1 px high
rectangle. -/
def draw (s : Scanline) (c : Color) : List Call :=
  if s.isEmpty then []
  else [Call.fillSolid ⟨⟨s.xs, s.y⟩, ⟨(s.xe - s.xs).toNat, 1⟩⟩ c]

/-- `Iterator::next`: `self.x.next().map(|x| Point::new(x, self.y))` -/
def next (s : Scanline) : Option (Pt × Scanline) :=
  if s.xs < s.xe then some (⟨s.xs, s.y⟩, { s with xs := s.xs + 1 }) else none

def toListFuel : Nat → Scanline → List Pt
  | 0, _ => []
  | fuel + 1, s =>
    match s.next with
    | some (p, s') => p :: toListFuel fuel s'
    | none => []

/-- What a `for` loop over the scanline sees. -/
def toList (s : Scanline) : List Pt := s.toListFuel ((s.xe - s.xs).toNat + 1)

/-- Closed form of `toList` (specification). -/
def points (s : Scanline) : List Pt := (irange s.xs s.xe).map (fun x => (⟨x, s.y⟩ : Pt))

end Scanline

/-- `Range<i32>::find(pred)` on a clone of the range `a..b`: the first `x` with `pred x`. -/
def rangeFind (pred : Int → Bool) (a b : Int) : Option Int := (irange a b).find? pred

/-- The pattern shared by the circle / ellipse / rounded-rectangle scanline iterators:
find the first `x` of `a..b` inside the shape and "shorten the scanline by right side of the same
amount as the left side": `.find(pred).map(|x| x..b - (x - a))`. -/
def mirroredRange (pred : Int → Bool) (a b : Int) : Option (Int × Int) :=
  (rangeFind pred a b).map (fun x => (x, b - (x - a)))

/-- The prefix of an `Option` stream up to the first `None` — what a `for` loop sees of a
non-fused iterator. -/
def untilNone {α : Type} : List (Option α) → List α
  | [] => []
  | none :: _ => []
  | some a :: rest => a :: untilNone rest

end EG
