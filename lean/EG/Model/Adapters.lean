/-
  EG.Model.Adapters — the four draw-target adapters, arm for arm.
  Source: src/draw_target/{clipped,cropped,translated,color_converted,mod}.rs,
          src/iterator/pixel.rs (`Translated` pixel iterator), core/src/draw_target/mod.rs
          (the default `clear` that `Clipped` and `Cropped` inherit).

  An adapter turns every call issued on it into exactly one call on its parent (`lower`); which
  call depends on the parent's bounding box only through values computed at construction
  (`Clipped::new`, `Cropped::new` intersect with `parent.bounding_box()`).
-/
import EG.Model.CroppedIter
namespace EG

inductive Adapter where
  | clipped (r : Rect)
  | cropped (r : Rect)
  | translated (d : Pt)
  | converted (f : Color → Color)

namespace Adapter
open Call

/-- `Dimensions::bounding_box` of the adapter, from its parent's box `B`. -/
def bbox : Adapter → Rect → Rect
  -- Clipped::new: clip_area.intersection(&parent.bounding_box()); bounding_box() = clip_area
  | clipped r, B => r.intersection B
  -- Cropped::new: area.intersection(&parent.bounding_box()); OriginDimensions::size = area.size
  | cropped r, B => ⟨Pt.zero, (r.intersection B).size⟩
  -- Translated: parent.bounding_box().translate(-offset)
  | translated d, B => B.translate (-d)
  | converted _, B => B

/-- `Translated` (translated.rs:40-69): pixels and areas are shifted, `clear` is forwarded. -/
def lowerTranslated (d : Pt) : Call → Call
  | drawIter px => drawIter (px.map (fun w => (w.1 + d, w.2)))
  | fillContiguous area cs => fillContiguous (area.translate d) cs
  | fillSolid area c => fillSolid (area.translate d) c
  | clear c => clear c

/-- `Clipped` with the stored `clip_area` (clipped.rs:39-71). `clear` is not overridden: the
trait default calls `self.fill_solid(&self.bounding_box(), color)`. -/
def lowerClipped (clip : Rect) : Call → Call
  | drawIter px => drawIter (px.filter (fun w => clip.contains w.1))
  | fillContiguous area cs =>
    let intersection := clip.intersection area
    if intersection = area then fillContiguous area cs
    else
      let cropArea := intersection.translate (-area.tl)
      fillContiguous intersection (croppedList cs area.size cropArea)
  | fillSolid area c => fillSolid (area.intersection clip) c
  | clear c => fillSolid (clip.intersection clip) c

/-- `Cropped` holding `parent.translated(area.top_left)` and `size = area.size`, where `area` is
already intersected with the parent box (cropped.rs:27-66). The three overridden methods forward
to the translated parent; `clear` is the trait default on `Rectangle::new(Point::zero(), size)`. -/
def lowerCropped (area : Rect) : Call → Call
  | clear c => lowerTranslated area.tl (fillSolid ⟨Pt.zero, area.size⟩ c)
  | call => lowerTranslated area.tl call

/-- `ColorConverted` (color_converted.rs:36-66): every colour goes through `Into` once. -/
def lowerConverted (f : Color → Color) : Call → Call
  | drawIter px => drawIter (px.map (fun w => (w.1, f w.2)))
  | fillContiguous area cs => fillContiguous area (cs.map f)
  | fillSolid area c => fillSolid area (f c)
  | clear c => clear (f c)

/-- The call the parent (bounding box `B`) receives for a call issued on the adapter. -/
def lower (a : Adapter) (B : Rect) (call : Call) : Call :=
  match a with
  | clipped r => lowerClipped (r.intersection B) call
  | cropped r => lowerCropped (r.intersection B) call
  | translated d => lowerTranslated d call
  | converted f => lowerConverted f call

end Adapter

/-- A nesting of adapters, first element created on the root target, last element = the target
the user draws on. -/
abbrev Stack := List Adapter

/-- Bounding box reported by the top of the stack over a root with box `B`. -/
def stackBox (B : Rect) : Stack → Rect
  | [] => B
  | a :: rest => stackBox (a.bbox B) rest

/-- Boxes reported by every level, root-most adapter first. -/
def stackBoxes (B : Rect) : Stack → List Rect
  | [] => []
  | a :: rest => a.bbox B :: stackBoxes (a.bbox B) rest

/-- The call the root receives for a call issued on the top of the stack. -/
def lowerStack (B : Rect) : Stack → Call → Call
  | [], call => call
  | a :: rest, call => a.lower B (lowerStack (a.bbox B) rest call)

/-- Final map of a root with trait-default fills / with native fills after a history issued on
the top of the stack. -/
def runStackDefault (B : Rect) (s : Stack) (calls : List Call) : PMap :=
  runDefault B (calls.map (lowerStack B s))
def runStackNative (B : Rect) (s : Stack) (calls : List Call) : PMap :=
  runNative B (calls.map (lowerStack B s))

end EG
