/-
  EG.Model.Rect — `embedded_graphics_core::primitives::Rectangle`, arm for arm.
  Source: core/src/primitives/rectangle/mod.rs, core/src/primitives/rectangle/points.rs,
          core/src/geometry/{point,size,mod}.rs
  Unbounded `Int`/`Nat`; explicit saturating operations are modelled (`satAsI32`, `satAddI32`,
  `satAddU32`, `Nat` subtraction = `saturating_sub`); plain `+`/`-` are the mathematical ones
  (the real code panics on overflow in a checked build; see C08 for the range theorems).
-/
import EG.Basic.Core
namespace EG

structure Rect where
  tl : Pt
  size : Sz
  deriving DecidableEq, Repr, Inhabited

inductive AnchorX | left | center | right deriving DecidableEq, Repr
inductive AnchorY | top | center | bottom deriving DecidableEq, Repr
structure Anchor where
  ax : AnchorX
  ay : AnchorY
  deriving DecidableEq, Repr

namespace Rect

def zero : Rect := ⟨Pt.zero, Sz.zero⟩

/-- `Size::from_bounding_box` + `min` of the corners. -/
def withCorners (c1 c2 : Pt) : Rect :=
  ⟨⟨min c1.x c2.x, min c1.y c2.y⟩, ⟨(c1.x - c2.x).natAbs + 1, (c1.y - c2.y).natAbs + 1⟩⟩

/-- `center_offset`: `size.saturating_sub(1,1) / 2`. -/
def centerOffset (s : Sz) : Sz := ⟨(s.w - 1) / 2, (s.h - 1) / 2⟩

def withCenter (c : Pt) (s : Sz) : Rect :=
  ⟨⟨c.x - ((centerOffset s).w : Int), c.y - ((centerOffset s).h : Int)⟩, s⟩

def center (r : Rect) : Pt :=
  ⟨r.tl.x + ((centerOffset r.size).w : Int), r.tl.y + ((centerOffset r.size).h : Int)⟩

def isZeroSized (r : Rect) : Bool := r.size.h == 0 || r.size.w == 0

def bottomRight (r : Rect) : Option Pt :=
  if r.size.w > 0 ∧ r.size.h > 0 then
    some ⟨r.tl.x + (r.size.w : Int) - 1, r.tl.y + (r.size.h : Int) - 1⟩
  else none

def contains (r : Rect) (p : Pt) : Bool :=
  if p.x ≥ r.tl.x ∧ p.y ≥ r.tl.y then
    match r.bottomRight with
    | some br => decide (p.x ≤ br.x ∧ p.y ≤ br.y)
    | none => false
  else false

/-- `overlaps(first, second)` on inclusive ranges. -/
def overlaps (f0 f1 s0 s1 : Int) : Bool :=
  decide ((s0 ≤ f0 ∧ f0 ≤ s1) ∨ (s0 ≤ f1 ∧ f1 ≤ s1) ∨ (f0 < s0 ∧ f1 > s1))

def intersection (self other : Rect) : Rect :=
  match other.bottomRight, self.bottomRight with
  | some obr, some sbr =>
    if overlaps self.tl.x sbr.x other.tl.x obr.x && overlaps self.tl.y sbr.y other.tl.y obr.y then
      withCorners (self.tl.componentMax other.tl) (sbr.componentMin obr)
    else zero
  | some _, none => if other.contains self.tl then self else zero
  | none, some _ => if self.contains other.tl then other else zero
  | none, none => zero

def anchorX (r : Rect) (a : AnchorX) : Int :=
  let delta := max (satAsI32 r.size.w) 1 - 1
  r.tl.x + match a with
    | .left => 0
    | .center => tdiv2 delta
    | .right => delta

def anchorY (r : Rect) (a : AnchorY) : Int :=
  let delta := max (satAsI32 r.size.h) 1 - 1
  r.tl.y + match a with
    | .top => 0
    | .center => tdiv2 delta
    | .bottom => delta

def anchorPoint (r : Rect) (a : Anchor) : Pt := ⟨r.anchorX a.ax, r.anchorY a.ay⟩

def envelope (self other : Rect) : Rect :=
  withCorners (self.tl.componentMin other.tl)
    ((self.anchorPoint ⟨.right, .bottom⟩).componentMax (other.anchorPoint ⟨.right, .bottom⟩))

def resizedWidth (r : Rect) (w : Nat) (a : AnchorX) : Rect :=
  let delta := max (satAsI32 r.size.w) 1 - max (satAsI32 w) 1
  ⟨⟨r.tl.x + (match a with | .left => 0 | .center => tdiv2 delta | .right => delta), r.tl.y⟩,
   ⟨w, r.size.h⟩⟩

def resizedHeight (r : Rect) (h : Nat) (a : AnchorY) : Rect :=
  let delta := max (satAsI32 r.size.h) 1 - max (satAsI32 h) 1
  ⟨⟨r.tl.x, r.tl.y + (match a with | .top => 0 | .center => tdiv2 delta | .bottom => delta)⟩,
   ⟨r.size.w, h⟩⟩

def resized (r : Rect) (s : Sz) (a : Anchor) : Rect :=
  (r.resizedWidth s.w a.ax).resizedHeight s.h a.ay

/-- `offset`: `offset as u32 * 2` is a plain `u32` multiplication (no wrap below 2^31). -/
def offset (r : Rect) (o : Int) : Rect :=
  if o ≥ 0 then
    -- growing moves the top left corner directly (a zero sized side has no centre pixel)
    ⟨r.tl - ⟨o, o⟩, r.size.satAdd (Sz.newEqual (o.toNat * 2))⟩
  else withCenter r.center (r.size.satSub (Sz.newEqual ((-o).toNat * 2)))

def rows (r : Rect) : List Int := irange r.tl.y (satAddI32 r.tl.y (satAsI32 r.size.h))
def columns (r : Rect) : List Int := irange r.tl.x (satAddI32 r.tl.x (satAsI32 r.size.w))
def rowsEnd (r : Rect) : Int := satAddI32 r.tl.y (satAsI32 r.size.h)
def columnsEnd (r : Rect) : Int := satAddI32 r.tl.x (satAsI32 r.size.w)

def translate (r : Rect) (d : Pt) : Rect := ⟨r.tl + d, r.size⟩

/-! ### `rectangle::Points` — the iterator as a state machine -/

structure PointsIt where
  x : Int      -- x.start
  xEnd : Int   -- x.end
  y : Int      -- y.start
  yEnd : Int   -- y.end
  xStart : Int
  deriving DecidableEq, Repr

def PointsIt.empty : PointsIt := ⟨0, 0, 0, 0, 0⟩

def pointsIt (r : Rect) : PointsIt :=
  if r.isZeroSized then PointsIt.empty
  else ⟨r.tl.x, r.columnsEnd, r.tl.y, r.rowsEnd, r.tl.x⟩

/-- One call of `Iterator::next`. The `while` loop runs at most twice per remaining row, so it
is bounded by the number of remaining rows; `fuel` is that bound. -/
def PointsIt.nextFuel : Nat → PointsIt → Option (Pt × PointsIt)
  | 0, _ => none
  | fuel + 1, it =>
    if it.y < it.yEnd then
      if it.x < it.xEnd then some (⟨it.x, it.y⟩, { it with x := it.x + 1 })
      else nextFuel fuel { it with y := it.y + 1, x := it.xStart }
    else none

def PointsIt.next (it : PointsIt) : Option (Pt × PointsIt) :=
  it.nextFuel ((it.yEnd - it.y).toNat + 1)

/-- Remaining-items measure: used as the step budget for `toList`. -/
def PointsIt.budget (it : PointsIt) : Nat :=
  (it.yEnd - it.y).toNat * ((it.xEnd - it.xStart).toNat + 1) + (it.xEnd - it.x).toNat + 1

def PointsIt.toListFuel : Nat → PointsIt → List Pt
  | 0, _ => []
  | fuel + 1, it =>
    match it.next with
    | some (p, it') => p :: toListFuel fuel it'
    | none => []

/-- What a `for` loop over `rect.points()` sees. -/
def points (r : Rect) : List Pt :=
  let it := r.pointsIt
  it.toListFuel ((it.yEnd - it.y).toNat * (it.xEnd - it.xStart).toNat + 1)

/-- Closed form of `points` (specification): row-major product of rows and columns. -/
def pointsSpec (r : Rect) : List Pt :=
  if r.isZeroSized then [] else r.rows.flatMap (fun y => r.columns.map (fun x => ⟨x, y⟩))

end Rect
end EG
