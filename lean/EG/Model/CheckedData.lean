/-
  EG.Model.CheckedData — checked kernels of the data side:
    * `ImageRaw::new` (expected length), `data_width`, the index of `pixel` (src/image/image_raw.rs):
      `usize` arithmetic, `bytes_per_row as u32 * pixels_per_byte` in `u32`;
    * `Framebuffer::set_pixel` index arithmetic, `buffer_size` (src/framebuffer.rs): `usize`;
    * raw `load` / `store` of the multi-byte types: `index.checked_mul(n)` (commit e95846b) —
      returns `None` instead of panicking (core/src/pixelcolor/raw/load_store.rs);
    * `crop_range` / `crop_area` / `SubImage::new` (src/image/sub_image.rs, commit 6bd8eba): `i64`;
    * text metrics (src/text/{mod,text}.rs, src/mono_font/mono_text_style.rs):
      `LineHeight::to_absolute` (`u32`), `measure_string` width (`u32`), line advance and
      alignment (`i32`), `Text::bounding_box`.
  `usize` = `u64` (the harness platform). `Chk.Old.*` = the arithmetic before the repairs.
-/
import EG.Model.Checked
import EG.Model.ImageRaw
import EG.Model.Framebuffer
namespace EG

/-! ## Plain (unbounded) forms that have no other model in this tree -/

namespace Img

/-- `crop_range(start, length, parent_length)`: the range `start..start+length` cropped to
`-1..=parent_length`; returns the new start and length. -/
def cropRange (start : Int) (length parentLength : Nat) : Int × Nat :=
  let e := min (start + (length : Int)) ((parentLength : Int) + 1)
  let s := max start (-1)
  (s, (max (e - s) 0).toNat)

/-- `crop_area(area, parent_size)` -/
def cropArea (area : Rect) (parentSize : Sz) : Rect :=
  if area.isZeroSized then area
  else
    let cx := cropRange area.tl.x area.size.w parentSize.w
    let cy := cropRange area.tl.y area.size.h parentSize.h
    ⟨⟨cx.1, cy.1⟩, ⟨cx.2, cy.2⟩⟩

/-- The area `SubImage::new` stores (as repaired): the parent's box intersected with the CROPPED
area. -/
def subImageArea (parentSize : Sz) (area : Rect) : Rect :=
  (⟨Pt.zero, parentSize⟩ : Rect).intersection (cropArea area parentSize)

end Img

namespace TextM

/-- The metrics of a `MonoFont` that the layout arithmetic uses. -/
structure Metrics where
  cw : Nat        -- character_size.width
  ch : Nat        -- character_size.height
  sp : Nat        -- character_spacing
  bl : Nat        -- baseline
  deriving DecidableEq, Repr

inductive LineHeight | pixels (px : Nat) | percent (p : Nat)
  deriving DecidableEq, Repr
inductive Baseline | top | bottom | middle | alphabetic
  deriving DecidableEq, Repr
inductive Alignment | left | center | right
  deriving DecidableEq, Repr

/-- `LineHeight::to_absolute` -/
def toAbsolute (lh : LineHeight) (base : Nat) : Nat :=
  match lh with
  | .pixels px => px
  | .percent p => base * p / 100

/-- `MonoTextStyle::baseline_offset` (saturating casts only) -/
def baselineOffset (m : Metrics) : Baseline → Int
  | .top => 0
  | .bottom => satAsI32 (m.ch - 1)
  | .middle => satAsI32 ((m.ch - 1) / 2)
  | .alphabetic => satAsI32 m.bl

/-- `bb_width` of `measure_string` for a line of `n` characters -/
def lineWidth (m : Metrics) (n : Nat) : Nat := n * (m.cw + m.sp) - m.sp

/-- `Text::line_height()` -/
def lineHeight (m : Metrics) (lh : LineHeight) : Int := satAsI32 (toAbsolute lh m.ch)

/-- The position at which line `k` (0-based) of a text at `pos` is measured / drawn: the
alignment shift of `Text::lines()` and `k` line advances. -/
def linePos (m : Metrics) (lh : LineHeight) (al : Alignment) (pos : Pt) (n k : Nat) : Pt :=
  let y := pos.y + (k : Int) * lineHeight m lh
  let w1 : Int := (lineWidth m n : Int) - 1
  match al with
  | .left => ⟨pos.x, y⟩
  | .right => ⟨pos.x - w1, y⟩
  | .center => ⟨pos.x - tdiv2 w1, y⟩

end TextM

namespace Chk
open EG.Raw EG.Img

/-! ## `ImageRaw` -/

/-- `bytes_per_row(width, bpp) = (width as usize * bpp + 7) / 8` -/
def bytesPerRow (width bits : Nat) : Option Nat := do
  let a ← chkUsize (width * bits)
  let b ← chkUsize (a + 7)
  pure (b / 8)

/-- `ImageRaw::new`: `expected_size = bytes_per_row(..) * size.height as usize`, then the length
check. -/
def imageNew (bits : Nat) (o : Order) (data : List Nat) (size : Sz) : Option (Except Nat ImageRaw) := do
  let bpr ← bytesPerRow size.w bits
  let expected ← chkUsize (bpr * size.h)
  pure (if data.length != expected then .error expected else .ok ⟨bits, o, data, size⟩)

/-- `data_width`: `bytes_per_row(..) as u32 * pixels_per_byte` is a `u32` product (the cast
truncates). -/
def imageDataWidth (bits width : Nat) : Option Nat :=
  if bits < 8 then do
    let ppb ← divU 8 bits
    let bpr ← bytesPerRow width bits
    chkU32 ((bpr % 4294967296) * ppb)
  else pure width

/-- `GetPixel::pixel`: the rejection test, then the index `p.x as usize + p.y as usize *
data_width as usize` handed to `nth`. `some none` = rejected (`None`), outer `none` = panic. -/
def imagePixelIndex (im : ImageRaw) (p : Pt) : Option (Option Nat) :=
  if p.x < 0 ∨ p.y < 0 ∨ p.x ≥ asI32 im.size.w ∨ p.y ≥ asI32 im.size.h then pure none
  else do
    let dw ← imageDataWidth im.bits im.size.w
    let a ← chkUsize (p.y.toNat * dw)
    let i ← chkUsize (p.x.toNat + a)
    pure (some i)

/-! ## `Framebuffer` -/

/-- `buffer_size_bpp`: `(width * bpp + 7) / 8 * height` -/
def bufferSize (width height bits : Nat) : Option Nat := do
  let a ← chkUsize (width * bits)
  let b ← chkUsize (a + 7)
  chkUsize (b / 8 * height)

/-- The index computed by `set_pixel` (three macro arms); `some none` = the no-op for points
outside, outer `none` = panic. For the multi-byte arm the slice end `index + BYTES_PER_PIXEL` is
computed too. -/
def fbIndex (bits width height : Nat) (p : Pt) : Option (Option Nat) :=
  if 0 ≤ p.x ∧ 0 ≤ p.y then
    let x := p.x.toNat
    let y := p.y.toNat
    if x < width ∧ y < height then
      if bits < 8 then do
        let ppb ← divU 8 bits
        let bitsPerRow ← chkUsize (width * bits)
        let t ← chkUsize (bitsPerRow + 7)
        let a ← chkUsize (t / 8 * ppb)
        let b ← chkUsize (a * y)
        let i ← chkUsize (b + x)
        pure (some i)
      else if bits = 8 then do
        let a ← chkUsize (y * width)
        let i ← chkUsize (a + x)
        pure (some i)
      else do
        let a ← chkUsize (y * width)
        let b ← chkUsize (a + x)
        let i ← chkUsize (b * (bits / 8))
        let _ ← chkUsize (i + bits / 8)
        pure (some i)
    else pure none
  else pure none

/-- The plain index of `Fb.setPixel`. -/
def fbIndexPlain (bits width : Nat) (p : Pt) : Nat :=
  let x := p.x.toNat
  let y := p.y.toNat
  if bits < 8 then (width * bits + 7) / 8 * (8 / bits) * y + x
  else if bits = 8 then y * width + x
  else (y * width + x) * (bits / 8)

/-! ## Raw `load` / `store`: `index.checked_mul(n)` -/

/-- `usize::checked_mul`: `None` on overflow — a value, not a panic. -/
def checkedMulUsize (a b : Nat) : Option Nat := if a * b ≤ usizeMax then some (a * b) else none

/-- `load` of RawU16/24/32 as repaired: `index.checked_mul(n).and_then(|start|
buffer.get(start..)).and_then(|b| b.get(0..n))`. No operation in it can panic. -/
def loadBytes (n : Nat) (o : Order) (buf : List Nat) (index : Nat) : Option Nat :=
  match checkedMulUsize index n with
  | none => none
  | some start =>
    match sliceFrom buf start with
    | none => none
    | some tail =>
      match slicePrefix tail n with
      | none => none
      | some s => some (if o.alt then fromBe s else fromLe s)

/-- `store` of RawU16/24/32 as repaired. -/
def storeBytes (n : Nat) (o : Order) (v : Nat) (buf : List Nat) (index : Nat) : StoreRes :=
  let bytes := if o.alt then toBe n v else toLe n v
  match checkedMulUsize index n with
  | none => (false, buf)
  | some start =>
    match sliceFrom buf start with
    | none => (false, buf)
    | some tail =>
      match slicePrefix tail n with
      | none => (false, buf)
      | some _ => (true, splice buf start bytes)

/-! ## Sub-images -/

/-- `crop_range` in `i64`; the final `as u32` truncates. -/
def cropRange (start : Int) (length parentLength : Nat) : Option (Int × Nat) := do
  let e1 ← chkI64 (start + (length : Int))
  let e2 ← chkI64 ((parentLength : Int) + 1)
  let e := min e1 e2
  let s := max start (-1)
  let d ← chkI64 (e - s)
  pure (s, (max d 0).toNat % 4294967296)

/-- `crop_area` -/
def cropArea (area : Rect) (parentSize : Sz) : Option Rect :=
  if area.isZeroSized then pure area
  else do
    let cx ← cropRange area.tl.x area.size.w parentSize.w
    let cy ← cropRange area.tl.y area.size.h parentSize.h
    pure ⟨⟨cx.1, cy.1⟩, ⟨cx.2, cy.2⟩⟩

/-- `SubImage::new`: `parent_area.intersection(&crop_area(area, parent_area.size))`. -/
def subImageArea (parentSize : Sz) (area : Rect) : Option Rect := do
  let c ← cropArea area parentSize
  intersection ⟨Pt.zero, parentSize⟩ c

/-! ## `draw_sub_image` called directly (not through `sub_image()`, which crops first) -/

/-- `<ImageRaw as ImageDrawable>::draw_sub_image` (src/image/image_raw.rs l. 221-246, as repaired
by a083ac5), the guard and the arguments of `ContiguousPixels::new`: `some none` = the guard says
"draw nothing", `some (some (initial_skip, row_skip))` = the area is drawn. The guard is
`is_zero_sized() || x < 0 || y < 0 || u64::from(x as u32) + u64::from(width) >
u64::from(self.width) || (the same for y)`: the sums are `u64` additions of two `u32` values
behind the short-circuit `||`; `initial_skip = y as usize * data_width + x as usize`,
`row_skip = data_width - width` in `usize`. -/
def drawSubImageSkips (im : ImageRaw) (area : Rect) : Option (Option (Nat × Nat)) :=
  if area.isZeroSized ∨ area.tl.x < 0 ∨ area.tl.y < 0 then pure none
  else do
    let xr ← chkU64 (i32AsU32 area.tl.x + area.size.w)
    if xr > im.size.w then pure none
    else do
      let yb ← chkU64 (i32AsU32 area.tl.y + area.size.h)
      if yb > im.size.h then pure none
      else do
        let dw ← imageDataWidth im.bits im.size.w
        let m ← chkUsize (area.tl.y.toNat * dw)
        let initialSkip ← chkUsize (m + area.tl.x.toNat)
        let rowSkip ← subU dw area.size.w
        pure (some (initialSkip, rowSkip))

/-- `<SubImage as ImageDrawable>::draw_sub_image` (src/image/sub_image.rs l. 93-108, as repaired by
a083ac5): the corner in the parent's coordinates is built with `checked_add`; `none` = "not
representable: draw nothing" — a value, not a panic. -/
def subImageForwardArea (own area : Rect) : Option Rect :=
  match chkI32 (area.tl.x + own.tl.x), chkI32 (area.tl.y + own.tl.y) with
  | some x, some y => some ⟨⟨x, y⟩, area.size⟩
  | _, _ => none

/-- `draw_sub_image` on a sub-image (own area `own`) of a raw image: forward, then the parent's
guard. Outer `none` = panic. -/
def subDrawSubImageSkips (im : ImageRaw) (own area : Rect) : Option (Option (Nat × Nat)) :=
  match subImageForwardArea own area with
  | none => pure none
  | some a => drawSubImageSkips im a

namespace Old

/-- before a083ac5: `x as u32 + width > self.width` in `u32` -/
def drawSubImageSkips (im : ImageRaw) (area : Rect) : Option (Option (Nat × Nat)) :=
  if area.isZeroSized ∨ area.tl.x < 0 ∨ area.tl.y < 0 then pure none
  else do
    let xr ← chkU32 (i32AsU32 area.tl.x + area.size.w)
    if xr > im.size.w then pure none
    else do
      let yb ← chkU32 (i32AsU32 area.tl.y + area.size.h)
      if yb > im.size.h then pure none
      else do
        let dw ← imageDataWidth im.bits im.size.w
        let m ← chkUsize (area.tl.y.toNat * dw)
        let initialSkip ← chkUsize (m + area.tl.x.toNat)
        let rowSkip ← subU dw area.size.w
        pure (some (initialSkip, rowSkip))

/-- before a083ac5: `area.translate(self.area.top_left)` (`Point + Point` in `i32`) -/
def subImageForwardArea (own area : Rect) : Option Rect := translate area own.tl

end Old

namespace Seeded

/-- The OLD guard without the `x < 0 || y < 0` tests (a seeded change of round 3): `true` = "draw
nothing". The casts of negative corners reach the `u32` additions. -/
def drawSubImageRejects (im : ImageRaw) (area : Rect) : Option Bool :=
  if area.isZeroSized then pure true
  else do
    let xr ← chkU32 (i32AsU32 area.tl.x + area.size.w)
    if xr > im.size.w then pure true
    else do
      let yb ← chkU32 (i32AsU32 area.tl.y + area.size.h)
      pure (decide (yb > im.size.h))

end Seeded

/-! ## Text metrics -/

namespace TextM
open EG.TextM

/-- `LineHeight::to_absolute`: `base_line_height * percent / 100` in `u32`. -/
def toAbsolute (lh : LineHeight) (base : Nat) : Option Nat :=
  match lh with
  | .pixels px => pure px
  | .percent p => do
    let m ← chkU32 (base * p)
    pure (m / 100)

/-- `Text::line_height()`: `to_absolute(..).saturating_as::<i32>()` -/
def lineHeight (m : Metrics) (lh : LineHeight) : Option Int := do
  let a ← toAbsolute lh m.ch
  pure (satAsI32 a)

/-- `bb_width = (chars as u32 * (width + spacing)).saturating_sub(spacing)` -/
def lineWidth (m : Metrics) (n : Nat) : Option Nat := do
  let s ← chkU32 (m.cw + m.sp)
  let w ← chkU32 ((n % 4294967296) * s)
  pure (w - m.sp)

/-- `measure_string` (no underline): the bounding box and `next_position`. -/
def measureString (m : Metrics) (bl : Baseline) (n : Nat) (position : Pt) : Option (Rect × Pt) := do
  let bbPos ← ptSub position ⟨0, baselineOffset m bl⟩
  let w ← lineWidth m n
  let next ← ptAddSize position ⟨w, 0⟩
  pure (⟨bbPos, ⟨w, m.ch⟩⟩, next)

/-- The closure of `Text::lines()` for one line: the aligned position. -/
def alignedPos (m : Metrics) (bl : Baseline) (al : Alignment) (position : Pt) (n : Nat) : Option Pt :=
  match al with
  | .left => pure position
  | .right => do
    let ms ← measureString m bl n Pt.zero
    let d ← ptSub ms.2 ⟨1, 0⟩
    ptSub position d
  | .center => do
    let ms ← measureString m bl n Pt.zero
    let d ← ptSub ms.2 ⟨1, 0⟩
    ptSub position ⟨tdiv2 d.x, tdiv2 d.y⟩

/-- `Text::lines()` for `k` lines of `n` characters: aligned positions; `position.y +=
line_height` after every line (also after the last one). -/
def lines (m : Metrics) (lh : LineHeight) (bl : Baseline) (al : Alignment) (n : Nat) :
    Nat → Pt → Option (List Pt)
  | 0, _ => pure []
  | k + 1, position => do
    let p ← alignedPos m bl al position n
    let h ← lineHeight m lh
    let y ← chkI32 (position.y + h)
    let rest ← lines m lh bl al n k ⟨position.x, y⟩
    pure (p :: rest)

/-- `update_min_max` over the measured lines. -/
def minMax (m : Metrics) (bl : Baseline) (n : Nat) :
    List Pt → Option (Pt × Pt) → Option (Option (Pt × Pt))
  | [], acc => pure acc
  | p :: ps, acc => do
    let ms ← measureString m bl n p
    let br ← bottomRight ms.1
    match br with
    | none => minMax m bl n ps acc
    | some br =>
      match acc with
      | none => minMax m bl n ps (some (ms.1.tl, br))
      | some (mn, mx) =>
        minMax m bl n ps (some (⟨min mn.x ms.1.tl.x, min mn.y ms.1.tl.y⟩, ⟨max mx.x br.x, max mx.y br.y⟩))

/-- `Text::bounding_box()` for a text of `k` lines of `n` characters each. -/
def boundingBox (m : Metrics) (lh : LineHeight) (bl : Baseline) (al : Alignment) (pos : Pt)
    (k n : Nat) : Option Rect := do
  let ps ← lines m lh bl al n k pos
  let mm ← minMax m bl n ps none
  match mm with
  | some (mn, mx) => withCorners mn mx
  | none => pure ⟨pos, Sz.zero⟩

end TextM

/-! ## The arithmetic before the repairs -/

namespace Old

/-- before e95846b: `index * n` in `usize` without a check: a panic. `none` = panic. -/
def loadStoreStart (index n : Nat) : Option Nat := chkUsize (index * n)

/-- before 6bd8eba: `SubImage::new` intersected the parent's box with the area as given. -/
def subImageArea (parentSize : Sz) (area : Rect) : Option Rect :=
  intersection ⟨Pt.zero, parentSize⟩ area

end Old

end Chk
end EG
