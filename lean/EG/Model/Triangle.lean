/-
  EG.Model.Triangle — the `Triangle` primitive, arm for arm, as the code is NOW (after the `fix:`
  commits e184c3d `contains` and 7cb80e4 `pixels()`).
  Source: src/primitives/triangle/mod.rs                      (`new`, `bounding_box`, `area_doubled`,
            `sorted_yx`, `sort_two_yx`, `sorted_clockwise`, `contains`, `scanline_intersection`,
            `translate`),
          src/primitives/triangle/scanline_intersections.rs   (`ScanlineIntersections`, `LineConfig`,
            `edge_intersections`, `generate_lines`),
          src/primitives/triangle/scanline_iterator.rs        (`ScanlineIterator`),
          src/primitives/triangle/points.rs                   (`Points`),
          src/primitives/triangle/styled.rs                   (`StyledPixelsIterator`),
          src/primitives/common/scanline.rs                   (via EG.Model.Scanline).

  Scope of the scanline machinery. `ScanlineIntersections::new` computes
  `is_collapsed = triangle.is_collapsed(w, offset) && offset == StrokeOffset::Right`; the model
  covers `StrokeOffset::None` (what `Points::new` passes, and what `StrokeAlignment::Center`, the
  default of `PrimitiveStyle::with_stroke`, maps to), where the conjunction is `false`; the
  collapsed arm of `generate_lines` is modelled but not reached from `new`.
  `edge_intersections` intersects each of the three `ThickSegment`s (built from two
  `LineJoin::from_points`) with the scanline. The join/thick-segment code belongs to the thick-line
  topic; here `ThickSegment::intersection` is the parameter `seg : Nat → Int → Scanline` (edge index,
  scanline y). Two instances are used:
    * stroke width 0 (`Points`, fill-only): `edge_intersections` returns `None` before looking at
      any segment, `seg` is irrelevant;
    * stroke width 1: `Line::extents(1, None)` returns the line itself twice, both intersections in
      `LineJoin::from_points(a, m, b, 1, _)` are lines through `m` and every arm (miter, degenerate,
      colinear) gives four corners equal to `m`; hence `is_skeleton()` holds and
      `ThickSegment::intersection` is `bresenham_intersection(Line(v[idx+1], v[idx+2]))`
      (`skeletonSeg`). This reading of the join code is not proved here; it is tied by the
      `tri.outline` correspondence stream (pixel sequence of `pixels()` for stroke width 1).
  Other widths are not modelled (the driver prints `skip`).

  `Int` for `i32`; plain `+ - *` are mathematical (the products in `contains` / `area_doubled`
  overflow `i32` for coordinates beyond a few thousand: property C08's topic).
-/
import EG.Model.Line
import EG.Model.Scanline
namespace EG

/-- `Triangle { vertices: [Point; 3] }`. -/
structure Triangle where
  v1 : Pt
  v2 : Pt
  v3 : Pt
  deriving DecidableEq, Repr, Inhabited

/-- `common::PointType`. -/
inductive PointType | stroke | fill
  deriving DecidableEq, Repr, Inhabited

namespace Scanline
/-- `bresenham_intersection(&line)` with the line's own `points()`. -/
def bint (s : Scanline) (l : Line) : Scanline :=
  s.bresenhamIntersection l.start l.stop (Line.points l)
end Scanline

namespace Triangle

/-- `Triangle::new`. -/
def new (a b c : Pt) : Triangle := ⟨a, b, c⟩

/-- `self.vertices[i % 3]`. -/
def vertex (t : Triangle) (i : Nat) : Pt :=
  match i % 3 with
  | 0 => t.v1
  | 1 => t.v2
  | _ => t.v3

/-- `Transform::translate`. -/
def translate (t : Triangle) (by_ : Pt) : Triangle := ⟨t.v1 + by_, t.v2 + by_, t.v3 + by_⟩

/-- `Dimensions::bounding_box`. -/
def boundingBox (t : Triangle) : Rect :=
  let xMin := min (min t.v1.x t.v2.x) t.v3.x
  let yMin := min (min t.v1.y t.v2.y) t.v3.y
  let xMax := max (max t.v1.x t.v2.x) t.v3.x
  let yMax := max (max t.v1.y t.v2.y) t.v3.y
  Rect.withCorners ⟨xMin, yMin⟩ ⟨xMax, yMax⟩

/-- `area_doubled`. -/
def areaDoubled (t : Triangle) : Int :=
  -t.v2.y * t.v3.x + t.v1.y * (t.v3.x - t.v2.x) + t.v1.x * (t.v2.y - t.v3.y) + t.v2.x * t.v3.y

/-- The order of `sort_two_yx`: smaller y first, for equal y smaller x first. -/
def yxLt (p q : Pt) : Prop := p.y < q.y ∨ (p.y = q.y ∧ p.x < q.x)
instance (p q : Pt) : Decidable (yxLt p q) := by unfold yxLt; exact inferInstance

/-- `sort_two_yx`. -/
def sortTwoYx (p1 p2 : Pt) : Pt × Pt := if yxLt p1 p2 then (p1, p2) else (p2, p1)

/-- `sorted_yx`: the three-comparison sorting network of the source. -/
def sortedYx (t : Triangle) : Triangle :=
  let a := sortTwoYx t.v1 t.v2     -- (y1, y2)
  let b := sortTwoYx t.v3 a.1      -- (y1, y3)
  let c := sortTwoYx b.2 a.2       -- (y2, y3)
  ⟨b.1, c.1, c.2⟩

/-- `sorted_clockwise`. -/
def sortedClockwise (t : Triangle) : Triangle :=
  if t.areaDoubled < 0 then ⟨t.v2, t.v1, t.v3⟩
  else if t.areaDoubled > 0 then t
  else t.sortedYx

/-- The three Bresenham edge lines of the sorted triangle, in the order the code uses them
(`contains` and `scanline_intersection`): `p1 p2`, `p1 p3`, `p2 p3`. -/
def edgeLines (t : Triangle) : List Line :=
  let s := t.sortedYx
  [⟨s.v1, s.v2⟩, ⟨s.v1, s.v3⟩, ⟨s.v2, s.v3⟩]

/-- `Line(p1,p2).points().chain(Line(p1,p3).points()).chain(Line(p2,p3).points())`. -/
def edgePoints (t : Triangle) : List Pt := t.edgeLines.flatMap Line.points

/-- `s` of `contains`. -/
def baryS (t : Triangle) (p : Pt) : Int :=
  t.v1.y * t.v3.x - t.v1.x * t.v3.y + (t.v3.y - t.v1.y) * p.x + (t.v1.x - t.v3.x) * p.y

/-- `t` of `contains`. -/
def baryT (t : Triangle) (p : Pt) : Int :=
  t.v1.x * t.v2.y - t.v1.y * t.v2.x + (t.v1.y - t.v2.y) * p.x + (t.v2.x - t.v1.x) * p.y

/-- The final `if a < 0 { .. } else { .. }` of the `is_inside` block (reached for `a ≠ 0`). -/
def isInside (t : Triangle) (p : Pt) : Bool :=
  let s := t.baryS p
  let u := t.baryT p
  let a := t.areaDoubled
  if a < 0 then decide (s ≤ 0 ∧ u ≤ 0 ∧ s + u ≥ a) else decide (s ≥ 0 ∧ u ≥ 0 ∧ s + u ≤ a)

/-- `contains` with the chained edge points given (`contains t p = containsWith t t.edgePoints p`;
the driver evaluates the edge lines once per triangle instead of once per probed point). -/
def containsWith (t : Triangle) (edgePts : List Pt) (p : Pt) : Bool :=
  if !(t.boundingBox.contains p) then false
  else if t.areaDoubled = 0 then false
  else if t.isInside p then true
  else edgePts.any (fun q => q == p)

/-- `ContainsPoint::contains`. -/
def contains (t : Triangle) (p : Pt) : Bool := t.containsWith t.edgePoints p

/-- `scanline_intersection`. -/
def scanlineIntersection (t : Triangle) (y : Int) : Scanline :=
  let s := t.sortedYx
  let sc := Scanline.newEmpty y
  if t.areaDoubled = 0 then sc.bint ⟨s.v1, s.v3⟩
  else ((sc.bint ⟨s.v1, s.v2⟩).bint ⟨s.v1, s.v3⟩).bint ⟨s.v2, s.v3⟩

/-- `ThickSegment::intersection` of edge `idx` for stroke width 1 (see the file header): the
skeleton line from `vertices[(idx+1) % 3]` to `vertices[(idx+2) % 3]`. -/
def skeletonSeg (t : Triangle) (idx : Nat) (y : Int) : Scanline :=
  (Scanline.newEmpty y).bint ⟨t.vertex (idx + 1), t.vertex (idx + 2)⟩

end Triangle

/-! ## `ScanlineIntersections` -/

/-- `LineConfig`. -/
structure LineConfig where
  first : Scanline
  second : Scanline
  internal : Scanline
  internalType : PointType
  deriving DecidableEq, Repr, Inhabited

/-- The captured state of the `from_fn` closure of `edge_intersections`. -/
structure EdgeIt where
  idx : Nat
  left : Scanline
  right : Scanline
  deriving DecidableEq, Repr

namespace EdgeIt

/-- The `while idx < 3 { .. }` loop (at most three rounds; `fuel` bounds them). -/
def loop (seg : Nat → Scanline) : Nat → EdgeIt → EdgeIt
  | 0, s => s
  | fuel + 1, s =>
    if s.idx < 3 then
      let scanline := seg s.idx
      let s := { s with idx := s.idx + 1 }
      if !s.left.isEmpty then
        let r := s.left.tryExtend scanline
        if r.1 then loop seg fuel { s with left := r.2 }
        else if !s.right.isEmpty then
          loop seg fuel { s with right := (s.right.tryExtend scanline).2 }
        else loop seg fuel { s with right := scanline }
      else loop seg fuel { s with left := scanline }
    else s

/-- One call of the closure: `None` at once for stroke width 0. -/
def next (strokeWidth : Nat) (seg : Nat → Scanline) (y : Int) (s : EdgeIt) :
    Option Scanline × EdgeIt :=
  if strokeWidth = 0 then (none, s)
  else
    let s := loop seg 3 s
    let r := s.left.tryExtend s.right
    let s := if r.1 then { s with left := r.2, right := Scanline.newEmpty y } else s
    let l := s.left.tryTake
    match l.1 with
    | some x => (some x, { s with left := l.2 })
    | none =>
      let rr := s.right.tryTake
      (rr.1, { s with left := l.2, right := rr.2 })

end EdgeIt

/-- `ScanlineIntersections` (stroke offset `None`; `seg` = `ThickSegment::intersection` per edge). -/
structure ScanlineIntersections where
  lines : LineConfig
  triangle : Triangle
  strokeWidth : Nat
  hasFill : Bool
  isCollapsed : Bool
  deriving DecidableEq, Repr

namespace ScanlineIntersections

/-- `ThickSegment::intersection` per edge for the covered stroke widths (0: never consulted). -/
def seg (it : ScanlineIntersections) (y : Int) (idx : Nat) : Scanline :=
  it.triangle.skeletonSeg idx y

/-- `generate_lines` (always `Some`). -/
def generateLines (it : ScanlineIntersections) (y : Int) : LineConfig :=
  if it.isCollapsed then
    { internal := it.triangle.scanlineIntersection y
      internalType := .stroke
      first := Scanline.newEmpty 0
      second := Scanline.newEmpty 0 }
  else
    let e0 : EdgeIt := ⟨0, Scanline.newEmpty y, Scanline.newEmpty y⟩
    let r1 := e0.next it.strokeWidth (it.seg y) y
    let r2 := r1.2.next it.strokeWidth (it.seg y) y
    let first := r1.1
    let second := r2.1
    let internal :=
      if it.hasFill then
        match first, second with
        | some f, some s => (⟨y, min f.xe s.xe, max f.xs s.xs⟩ : Scanline)
        | none, none => it.triangle.scanlineIntersection y
        | _, _ => Scanline.newEmpty y
      else Scanline.newEmpty y
    { first := first.getD (Scanline.newEmpty y)
      second := second.getD (Scanline.newEmpty y)
      internal := internal
      internalType := .fill }

/-- `empty()`. -/
def empty : ScanlineIntersections :=
  { lines := ⟨Scanline.newEmpty 0, Scanline.newEmpty 0, Scanline.newEmpty 0, .fill⟩
    hasFill := false
    triangle := ⟨Pt.zero, Pt.zero, Pt.zero⟩
    strokeWidth := 0
    isCollapsed := false }

/-- `reset_with_new_scanline`. -/
def reset (it : ScanlineIntersections) (y : Int) : ScanlineIntersections :=
  { it with lines := it.generateLines y }

/-- `new` for stroke offset `None` (`is_collapsed(..) && stroke_offset == Right` is `false`). -/
def new (t : Triangle) (strokeWidth : Nat) (hasFill : Bool) (y : Int) : ScanlineIntersections :=
  ({ empty with hasFill := hasFill, triangle := t, strokeWidth := strokeWidth,
                isCollapsed := false } : ScanlineIntersections).reset y

/-- `Iterator::next`: internal, then first, then second. -/
def next (it : ScanlineIntersections) : Option (Scanline × PointType) × ScanlineIntersections :=
  let i := it.lines.internal.tryTake
  match i.1 with
  | some s => (some (s, it.lines.internalType), { it with lines := { it.lines with internal := i.2 } })
  | none =>
    let f := it.lines.first.tryTake
    match f.1 with
    | some s => (some (s, .stroke), { it with lines := { it.lines with first := f.2 } })
    | none =>
      let g := it.lines.second.tryTake
      match g.1 with
      | some s => (some (s, .stroke), { it with lines := { it.lines with second := g.2 } })
      | none => (none, it)

end ScanlineIntersections

/-! ## `ScanlineIterator` -/

/-- `ScanlineIterator { rows, scanline_y, intersections }`. -/
structure ScanlineIterator where
  rowsStart : Int
  rowsEnd : Int
  scanlineY : Int
  intersections : ScanlineIntersections
  deriving DecidableEq, Repr

namespace ScanlineIterator

/-- `empty()`. -/
def empty : ScanlineIterator := ⟨0, 0, 0, ScanlineIntersections.empty⟩

/-- `new` (stroke offset `None`). The triangle is `sorted_clockwise()` first. -/
def new (t : Triangle) (strokeWidth : Nat) (hasFill : Bool) (bb : Rect) : ScanlineIterator :=
  let t := t.sortedClockwise
  let rs := bb.tl.y
  let re := bb.rowsEnd
  if rs < re then
    ⟨rs + 1, re, rs, ScanlineIntersections.new t strokeWidth hasFill rs⟩
  else empty

/-- `Iterator::next` (not fused: an empty row gives `None`, a later call goes on). -/
def next (it : ScanlineIterator) : Option (Scanline × PointType) × ScanlineIterator :=
  let r := it.intersections.next
  match r.1 with
  | some x => (some x, { it with intersections := r.2 })
  | none =>
    if it.rowsStart < it.rowsEnd then
      let y := it.rowsStart
      let r2 := (r.2.reset y).next
      (r2.1, { it with rowsStart := y + 1, scanlineY := y, intersections := r2.2 })
    else (none, { it with intersections := r.2 })

end ScanlineIterator

/-! ## `triangle::Points` -/

namespace Triangle

/-- `Points { scanline_iter, current_line }`. -/
structure PointsIt where
  scanlineIter : ScanlineIterator
  currentLine : Scanline
  deriving DecidableEq, Repr

/-- `Points::new`. -/
def pointsIt (t : Triangle) : PointsIt :=
  ⟨ScanlineIterator.new t 0 true t.boundingBox, Scanline.newEmpty 0⟩

/-- `Iterator::next`. -/
def PointsIt.next (it : PointsIt) : Option (Pt × PointsIt) :=
  match it.currentLine.next with
  | some (p, cl) => some (p, { it with currentLine := cl })
  | none =>
    let r := it.scanlineIter.next
    match r.1 with
    | none => none
    | some (l, _) =>
      match l.next with
      | some (p, cl) => some (p, ⟨r.2, cl⟩)
      | none => none

def PointsIt.toListFuel : Nat → PointsIt → List Pt
  | 0, _ => []
  | fuel + 1, it =>
    match it.next with
    | some (p, it') => p :: toListFuel fuel it'
    | none => []

/-- Step budget: every point lies in the bounding box and no point is repeated. -/
def pointsBudget (t : Triangle) : Nat := t.boundingBox.size.w * t.boundingBox.size.h + 1

/-- What a `for` loop over `triangle.points()` sees. -/
def points (t : Triangle) : List Pt := (pointsIt t).toListFuel (pointsBudget t)

end Triangle

/-! ## `triangle::StyledPixelsIterator` (for the one-pixel outline) -/

/-- `StyledPixelsIterator<C>` (colours as numbers). -/
structure TriPixelsIt where
  linesIter : ScanlineIterator
  currentLine : Scanline
  currentColor : Option Nat
  fillColor : Option Nat
  strokeColor : Option Nat
  deriving DecidableEq, Repr

namespace TriPixelsIt

/-- `StyledPixelsIterator::new` for stroke width `< 2` (then `styled_bounding_box` is
`bounding_box`) and stroke offset `None`; `strokeColor` is `effective_stroke_color()`. -/
def new (t : Triangle) (strokeWidth : Nat) (strokeColor fillColor : Option Nat) : TriPixelsIt :=
  let li := ScanlineIterator.new t strokeWidth fillColor.isSome t.boundingBox
  let r := li.next
  let first := r.1.getD (Scanline.newEmpty 0, .stroke)
  { linesIter := r.2
    currentLine := first.1
    currentColor := match first.2 with
      | .stroke => strokeColor
      | .fill => fillColor
    fillColor := fillColor
    strokeColor := strokeColor }

/-- `Iterator::next`; the `loop` fetches a new scanline per round, `fuel` bounds the rounds. -/
def nextFuel : Nat → TriPixelsIt → Option ((Pt × Nat) × TriPixelsIt)
  | 0, _ => none
  | fuel + 1, it =>
    let hit : Option ((Pt × Nat) × TriPixelsIt) :=
      match it.currentColor with
      | some color =>
        match it.currentLine.next with
        | some (p, cl) => some ((p, color), { it with currentLine := cl })
        | none => none
      | none => none
    match hit with
    | some r => some r
    | none =>
      let r := it.linesIter.next
      match r.1 with
      | none => none
      | some (l, ty) =>
        nextFuel fuel { it with linesIter := r.2, currentLine := l,
                                currentColor := match ty with
                                  | .stroke => it.strokeColor
                                  | .fill => it.fillColor }

/-- Rounds of the loop: at most three scanline pieces per remaining row, plus the current ones. -/
def loopBudget (it : TriPixelsIt) : Nat :=
  3 * (it.linesIter.rowsEnd - it.linesIter.rowsStart).toNat + 5

def next (it : TriPixelsIt) : Option ((Pt × Nat) × TriPixelsIt) := it.nextFuel it.loopBudget

def toListFuel : Nat → TriPixelsIt → List (Pt × Nat)
  | 0, _ => []
  | fuel + 1, it =>
    match it.next with
    | some (p, it') => p :: toListFuel fuel it'
    | none => []

end TriPixelsIt

namespace Triangle

/-- `into_styled(PrimitiveStyle::with_stroke(c, 1)).pixels()` collected: every row contributes at
most its two stroke pieces, each inside the bounding box. -/
def outlinePixels (t : Triangle) (c : Nat) : List (Pt × Nat) :=
  (TriPixelsIt.new t 1 (some c) none).toListFuel
    (2 * t.boundingBox.size.w * t.boundingBox.size.h + 1)

end Triangle
end EG
