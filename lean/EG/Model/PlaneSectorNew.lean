/-
  EG.Model.PlaneSectorNew — `PlaneSector::new(angle_start, angle_sweep)` and the bevel selection of
  `sector::StyledPixelsIterator::new`, for the `fixed_point` build, arm for arm.
  Source: src/primitives/common/plane_sector.rs, src/primitives/sector/styled.rs.

  These are the two places where trigonometry enters the sector / arc code. `EG.Model.Sector` and
  `EG.Model.StyledSector` take their results (`PlaneSector`, `SectorBevel`) as parameters; here they
  are COMPUTED from the raw angles (I16F16 bits, `Angle::verif_raw`) with `EG.Model.FixedTrig`, so for
  the `fixed_point` build the pipeline raw angles -> pixels is inside the model. (For the default
  build, micromath's f32 approximations are not modelled: there the hook values remain inputs.)
  `none` = the checked build panics (angles beyond about +-182 radians overflow `Real::from(180) *
  angle`; `i32::MIN` overflows `abs`; `start + sweep` can overflow).
-/
import EG.Model.FixedTrig
import EG.Model.Sector
import EG.Model.StyledSector
namespace EG.Fx
open EG EG.Generated

/-- `PlaneSector::new(mut angle_start, angle_sweep)` -/
def planeSectorNew (angleStart angleSweep : Int) : Option PlaneSector := do
  let angleSweepAbs ← angleAbs angleSweep
  if angleSweepAbs ≥ tauBits then
    -- `return Self { new_horizontal(), new_horizontal(), Operation::EntirePlane }`
    pure ⟨.entirePlane, newHorizontal, newHorizontal⟩
  else
    let operation := if angleSweepAbs ≥ piBits then PlaneOp.union else PlaneOp.intersection
    let angleEnd ← add angleStart angleSweep
    -- `if angle_sweep < Angle::zero() { swap(&mut angle_start, &mut angle_end) }`
    let (s, e) := if angleSweep < 0 then (angleEnd, angleStart) else (angleStart, angleEnd)
    let right ← withAngle s      -- `half_plane_right: OriginLinearEquation::with_angle(angle_start)`
    let left ← withAngle e       -- `half_plane_left: OriginLinearEquation::with_angle(angle_end)`
    pure ⟨operation, left, right⟩

/-- `Angle::from_radians(sweep.to_radians() / 2.0)`: I16F16 -> f32 is exact for `|bits| < 2^24`,
halving an f32 is exact, and `I16F16::from_num(f32)` rounds to the nearest, ties to EVEN: half the
bits, an odd number of bits rounding to the even neighbour. Only evaluated inside the bevel branch,
where `|sweep| < Angle::from_degrees(360.0)` (411775 bits `< 2^24`: `bevel_limits_small` in
EG.Lemmas.FixedTrig). -/
def halfSweep (s : Int) : Int :=
  let q := s / 2
  if s % 2 = 0 then q else if q % 2 = 0 then q else q + 1

/-- The trigonometric part of `StyledPixelsIterator::new(primitive, style)`: which bevel, and the
normal vector of its line (`LinearEquation::with_angle_and_distance(half_sweep ± 90°, threshold)`). -/
def sectorBevel (angleStart angleSweep : Int) : Option SectorBevel := do
  let angleSweepAbs ← angleAbs angleSweep
  let exteriorBevel := decide (angleSweepAbs < bevelExteriorBits)
  let interiorBevel := decide (angleSweepAbs > bevelInteriorLoBits) && decide (angleSweepAbs < bevelInteriorHiBits)
  if exteriorBevel || interiorBevel then
    let halfSweep ← add angleStart (halfSweep angleSweep)
    if interiorBevel then
      let a ← add halfSweep fracPi2Bits
      let n ← withAngle a
      pure (some (.interior, n))
    else
      let a ← sub halfSweep fracPi2Bits
      let n ← withAngle a
      pure (some (.exterior, n))
  else
    pure none

/-- What `Styled::new(Sector::new(.., start, sweep), style).pixels()` computes before the first
pixel: the plane sector first (`PlaneSector::new` runs before the bevel code), then the bevel. -/
def styledSectorTrig (angleStart angleSweep : Int) : Option (PlaneSector × SectorBevel) := do
  let ps ← planeSectorNew angleStart angleSweep
  let bevel ← sectorBevel angleStart angleSweep
  pure (ps, bevel)

end EG.Fx
