/-
  EG.Model.RawSrcPrelude — the meaning of every Rust primitive that the GENERATED file
  EG/Generated/RawSrc.lean (written by tools/tr_rawsrc.py from /repo's Rust text of the raw data layer) calls.

  TRUSTED BASE. The translator is syntax-directed and knows nothing about semantics: `byte >> bit_index` on a `u8`
  becomes `u8_shr byte bit_index`, `!x` becomes `u8_not x`, `buffer.get(i)` becomes `slice_get buffer i`,
  `index.checked_mul(2)` becomes `usize_checked_mul index 2`, `.and_then(f)` becomes `option_and_then _ f`, and so on.
  Each such name is defined HERE, by hand, in a line or two. Conventions (the same as the hand-written models):

  * `usize`, `u8`, `u16`, `u32` are `Nat` (no upper bound in the type; where a bound matters it is a hypothesis of the
    equivalence theorem: `BytesOk` = "every buffer element is a u8", `v < 2^bits`, `buffer.len() <= usize::MAX`).
  * a byte slice `&[u8]` and an array `[u8; N]` are `List Nat`. Shared references, `*` and `&` on them are transparent.
  * plain `+ - * / %` are the mathematical operations (`-` truncated at 0; a checked build panics where the result
    does not fit: C08's topic). The EXPLICITLY checked / saturating / wrapping operations are exact:
    `checked_mul` is `none` above `usize::MAX = 2^64 - 1` (`EG.Raw.usizeMax`, the 64-bit host the harness runs on),
    `saturating_add/mul` clamp there, `saturating_sub` truncates at 0, `as u8` / `as u16` wrap.
  * bit operations have the width of their type: on `u8`, `!x` flips eight bits (`255 ^^^ x`), `x << n` drops the bits
    that leave the byte (`% 256`), `x >> n` is `x / 2^n`; `& |` are bitwise. Shift amounts are below the width wherever
    the generated code shifts (`bit_index <= 7`, `Storage::BITS - bpp < BITS`: theorems `bit_index_lt_8`,
    `mask_shift_in_range` of Props/C11/Generated.lean); a shift by the full width or more panics in a checked build
    and is not given a meaning of its own here.
  * `uN::from_le_bytes / from_be_bytes / to_le_bytes / to_be_bytes` are base-256 digits (`EG.Raw.fromLe/fromBe/toLe/toBe`).
  * `&mut [u8]` is a `MutSlice`: the current content of the borrowed part and `put`, which rebuilds the WHOLE buffer
    of the enclosing function from a new content of that part. `get_mut(i)` / `get_mut(start..)` / `get_mut(lo..hi)`
    narrow the borrow; `*byte = v` and `copy_from_slice` write through it and yield the whole buffer after the write.
    `copy_from_slice` panics when the lengths differ; here the source replaces the borrowed part as it is (the
    equivalence theorems show the lengths agree: `to_bytes_length`).
  * `Result<T, OutOfBoundsError>` is `Result T` (`ok v` / `err`); a function `fn(.., buffer: &mut [u8], ..) ->
    Result<(), OutOfBoundsError>` yields `store_result` = `(true, buffer after)` for `Ok(())`, `(false, buffer after)`
    for `Err(..)` (the buffer is then the one passed in: nothing was written) — the hand model's `EG.Raw.StoreRes`.
  * `<[u8; N]>::try_from(slice).unwrap()` gives the same bytes (it panics when the length is not `N`; the slice comes
    from `get(0..N)`, and the consumer `uN::from_xx_bytes` reads exactly the list it is given).
  * `Option::inspect(|_| { self.f = ..; })` inside a `&mut self` method: the closure is a state transformer of
    `self`, run when the option is `Some`; `&mut self` methods yield (value, self after).

  Every definition is an `abbrev` (see the note in RectSrcPrelude.lean). Import-free apart from EG.Basic.Core (`EG.Pt`) and EG.Model.Raw.
-/
import EG.Basic.Core
import EG.Model.Raw
namespace EG.RawSrcPrelude
open EG

/-! ### unsigned arithmetic -/

abbrev usize_add (a b : Nat) : Nat := a + b
abbrev usize_sub (a b : Nat) : Nat := a - b
abbrev usize_mul (a b : Nat) : Nat := a * b
abbrev usize_div (a b : Nat) : Nat := a / b
abbrev usize_rem (a b : Nat) : Nat := a % b
abbrev usize_lt (a b : Nat) : Bool := decide (a < b)
abbrev usize_le (a b : Nat) : Bool := decide (a ≤ b)
abbrev usize_gt (a b : Nat) : Bool := decide (a > b)
abbrev usize_ge (a b : Nat) : Bool := decide (a ≥ b)
abbrev usize_eq (a b : Nat) : Bool := decide (a = b)
abbrev usize_ne (a b : Nat) : Bool := decide (a ≠ b)
abbrev usize_checked_mul (a b : Nat) : Option Nat := if a * b ≤ Raw.usizeMax then some (a * b) else none
abbrev usize_saturating_add (a b : Nat) : Nat := if a + b ≤ Raw.usizeMax then a + b else Raw.usizeMax
abbrev usize_saturating_mul (a b : Nat) : Nat := if a * b ≤ Raw.usizeMax then a * b else Raw.usizeMax
abbrev usize_saturating_sub (a b : Nat) : Nat := a - b
abbrev u32_sub (a b : Nat) : Nat := a - b

abbrev u8_MAX : Nat := 255
abbrev u16_MAX : Nat := 65535
abbrev u32_MAX : Nat := 4294967295
abbrev u8_BITS : Nat := 8
abbrev u16_BITS : Nat := 16
abbrev u32_BITS : Nat := 32

abbrev u8_and (a b : Nat) : Nat := a &&& b
abbrev u8_or (a b : Nat) : Nat := a ||| b
abbrev u8_not (a : Nat) : Nat := 255 ^^^ a
abbrev u8_shl (a n : Nat) : Nat := (a <<< n) % 256
abbrev u8_shr (a n : Nat) : Nat := a >>> n
abbrev u16_and (a b : Nat) : Nat := a &&& b
abbrev u16_shr (a n : Nat) : Nat := a >>> n
abbrev u32_and (a b : Nat) : Nat := a &&& b
abbrev u32_shr (a n : Nat) : Nat := a >>> n
abbrev bool_and (a b : Bool) : Bool := a && b
abbrev bool_or (a b : Bool) : Bool := a || b
abbrev bool_not (a : Bool) : Bool := !a

abbrev u32_as_u8 (v : Nat) : Nat := v % 256
abbrev u32_as_u16 (v : Nat) : Nat := v % 65536
abbrev u32_as_u32 (v : Nat) : Nat := v

abbrev u8_to_le_bytes (v : Nat) : List Nat := Raw.toLe 1 v
abbrev u8_to_be_bytes (v : Nat) : List Nat := Raw.toBe 1 v
abbrev u16_to_le_bytes (v : Nat) : List Nat := Raw.toLe 2 v
abbrev u16_to_be_bytes (v : Nat) : List Nat := Raw.toBe 2 v
abbrev u32_to_le_bytes (v : Nat) : List Nat := Raw.toLe 4 v
abbrev u32_to_be_bytes (v : Nat) : List Nat := Raw.toBe 4 v
abbrev u16_from_le_bytes (b : List Nat) : Nat := Raw.fromLe b
abbrev u16_from_be_bytes (b : List Nat) : Nat := Raw.fromBe b
abbrev u32_from_le_bytes (b : List Nat) : Nat := Raw.fromLe b
abbrev u32_from_be_bytes (b : List Nat) : Nat := Raw.fromBe b

/-! ### shared slices and local arrays -/

abbrev slice_len (s : List Nat) : Nat := s.length
/-- `s.get(i)` -/
abbrev slice_get (s : List Nat) (i : Nat) : Option Nat := s[i]?
/-- `s.get(start..)` -/
abbrev slice_get_from (s : List Nat) (start : Nat) : Option (List Nat) :=
  if start ≤ s.length then some (s.drop start) else none
/-- `s.get(lo..hi)` -/
abbrev slice_get_range (s : List Nat) (lo hi : Nat) : Option (List Nat) :=
  if lo ≤ hi ∧ hi ≤ s.length then some ((s.take hi).drop lo) else none
/-- `s[lo..hi]` (panics outside; the bytes inside) -/
abbrev slice_index_range (s : List Nat) (lo hi : Nat) : List Nat := (s.take hi).drop lo
abbrev slice_try_into_array (s : List Nat) : List Nat := s
abbrev tryinto_unwrap (s : List Nat) : List Nat := s
/-- `[v; n]` -/
abbrev array_repeat (v n : Nat) : List Nat := List.replicate n v
/-- `a.copy_from_slice(src)` on a local array: `a` afterwards -/
abbrev array_copy_from_slice (_a src : List Nat) : List Nat := src
/-- `a[lo..hi].copy_from_slice(src)` on a local array: `a` afterwards -/
abbrev array_range_copy_from_slice (a : List Nat) (lo hi : Nat) (src : List Nat) : List Nat :=
  a.take lo ++ src ++ a.drop hi

/-! ### mutable borrows of (parts of) the function's buffer -/

structure MutSlice where
  val : List Nat
  put : List Nat → List Nat

structure MutU8 where
  val : Nat
  put : Nat → List Nat

abbrev mutslice_root (b : List Nat) : MutSlice := ⟨b, fun s => s⟩
/-- handing the whole `&mut [u8]` on to a callee -/
abbrev mutslice_content (m : MutSlice) : List Nat := m.val
abbrev mutslice_get_mut (m : MutSlice) (i : Nat) : Option MutU8 :=
  match m.val[i]? with
  | none => none
  | some b => some ⟨b, fun v => m.put (m.val.set i v)⟩
abbrev mutslice_get_mut_from (m : MutSlice) (start : Nat) : Option MutSlice :=
  if start ≤ m.val.length then some ⟨m.val.drop start, fun s => m.put (m.val.take start ++ s)⟩ else none
abbrev mutslice_get_mut_range (m : MutSlice) (lo hi : Nat) : Option MutSlice :=
  if lo ≤ hi ∧ hi ≤ m.val.length then
    some ⟨(m.val.take hi).drop lo, fun s => m.put (m.val.take lo ++ s ++ m.val.drop hi)⟩
  else none
abbrev mutslice_copy_from_slice (m : MutSlice) (src : List Nat) : List Nat := m.put src
abbrev mutu8_read (r : MutU8) : Nat := r.val
abbrev mutu8_write (r : MutU8) (v : Nat) : List Nat := r.put v

/-! ### what src/framebuffer.rs needs in addition -/

abbrev Point_x (p : EG.Pt) : Int := p.x
abbrev Point_y (p : EG.Pt) : Int := p.y
/-- `x as usize` on an `i32`: wraps modulo 2^64 (two's complement) -/
abbrev i32_as_usize (x : Int) : Nat := (x % 18446744073709551616).toNat
/-- `c.into()` for `C: PixelColor<Raw = X> + Into<X>`: a colour IS its raw value in these models (colour <-> raw: C12) -/
abbrev color_into_raw (c : Nat) : Nat := c
/-- `a[i] = v` on an array (panics outside: the equivalence theorems are about indices inside, `Fb.Wf`) -/
abbrev array_index_assign (a : List Nat) (i v : Nat) : List Nat := a.set i v
/-- `for x in xs { body }` with the loop state `self` -/
abbrev for_loop {α σ : Type} (xs : List α) (s : σ) (f : σ → α → σ) : σ := xs.foldl f s

/-! ### Option / Result -/

inductive OutOfBoundsErrorTy where
  | mk
  deriving DecidableEq, Repr
abbrev OutOfBoundsError : OutOfBoundsErrorTy := .mk

inductive Result (α : Type) where
  | ok : α → Result α
  | err : Result α

/-- `usize::try_from(x)` for an `i32`: `Err` below zero (every non-negative `i32` fits) -/
abbrev usize_try_from_i32 (x : Int) : Result Nat := if 0 ≤ x then .ok x.toNat else .err

abbrev option_map {α β : Type} (o : Option α) (f : α → β) : Option β :=
  match o with
  | none => none
  | some a => some (f a)
abbrev option_and_then {α β : Type} (o : Option α) (f : α → Option β) : Option β :=
  match o with
  | none => none
  | some a => f a
abbrev option_copied {α : Type} (o : Option α) : Option α := o
abbrev option_ok_or {α : Type} (o : Option α) (_e : OutOfBoundsErrorTy) : Result α :=
  match o with
  | none => .err
  | some a => .ok a
abbrev result_map {α β : Type} (r : Result α) (f : α → β) : Result β :=
  match r with
  | .err => .err
  | .ok a => .ok (f a)
/-- `opt.inspect(|x| { self.. = ..; })` in a `&mut self` method: (opt, self after) -/
abbrev option_inspect_self {α σ : Type} (o : Option α) (f : α → σ → σ) (s : σ) : Option α × σ :=
  match o with
  | none => (none, s)
  | some a => (some a, f a s)

abbrev StoreRes := Raw.StoreRes
/-- the result of a storing function: `Ok(())` with the buffer after the write / `Err` with the buffer as passed in -/
abbrev store_result (buffer : MutSlice) (r : Result (List Nat)) : StoreRes :=
  match r with
  | .ok b => (true, b)
  | .err => (false, buffer.put buffer.val)

end EG.RawSrcPrelude
