/-
  EG.Model.ImgSrcPrelude — the meaning of every Rust primitive that the GENERATED files EG/Generated/ImgSrc.lean and
  EG/Generated/FbReadSrc.lean (written by tools/tr_imgsrc.py from /repo's src/image/*.rs and the read path of
  src/framebuffer.rs) call, beyond those of EG/Model/RawSrcPrelude.lean (`usize_*`, `u32_sub`, `bool_*`, `slice_*`,
  `Point_x/y`, `i32_as_usize`, `option_map`), which the generated files open as well.

  TRUSTED BASE. Conventions (the same as RawSrcPrelude / RectSrcPrelude):
  * unsigned integers are `Nat`, signed ones `Int`; plain `+ - * /` are the mathematical operations (`-` on unsigned
    truncated at 0; a checked build panics where the result does not fit: C08's topic). EXPLICIT conversions are exact:
    `usize as u32` and `i64 as u32` wrap modulo 2^32, `u32 as i32` wraps into the negatives above `i32::MAX`,
    `i32 as u32` is the two's complement, `u32 as usize` is the identity (`usize` has at least 32 bits),
    `u64::from` / `i64::from` are the identity (widening), `i32::checked_add` is `none` outside `i32`.
    `u64 + u64` of two widened `u32`s and the `i64` sums of a widened `i32` and `u32` cannot leave their type.
  * `.unwrap()` on a `Result`: `none` = the panic. A function that may panic yields an `Option`; a method called on
    such a value is `panic_bind`.
  * a colour IS its raw value in these models (colour <-> raw: C12, Props/C09/Colours.lean): `raw.into()` is the identity.
  * A value of a type `T: ImageDrawable` is the dictionary of its three trait methods (`ImageDrawableT`); its
    `bounding_box()` is the blanket `impl<T: OriginDimensions> Dimensions for T` (box at the origin of that size;
    regenerated and proved in AdaptSrc / Props/C03).
  * A target `D: DrawTarget` (`DrawTargetD`) is what a call made on it turns into at the ROOT display; the root display
    is the identity, `display.translated(offset)` composes with the hand model's `translatedCall` (the four
    forwarding methods of `Translated`, regenerated and proved in AdaptSrc / Props/C03). A function returning
    `Result<(), D::Error>` yields the list of calls that reach the root display (`Ok(())` without a call: none).
  * an iterator struct handed to `fill_contiguous` is the list its generated `next` yields until the first `None`, on
    explicit fuel (`iter_collect_fuel`; the theorems say which fuel suffices).

  Every definition is an `abbrev` (see the note in RectSrcPrelude.lean) except the recursive `iter_collect_fuel`.
-/
import EG.Model.ImageRaw
namespace EG.ImgSrcPrelude
open EG

abbrev Size_width (s : Sz) : Nat := s.w
abbrev Size_height (s : Sz) : Nat := s.h
abbrev Rectangle_top_left (r : Rect) : Pt := r.tl
abbrev Rectangle_size (r : Rect) : Sz := r.size

abbrev u32_mul (a b : Nat) : Nat := a * b
abbrev u32_div (a b : Nat) : Nat := a / b
abbrev u32_gt (a b : Nat) : Bool := decide (a > b)
abbrev u32_eq (a b : Nat) : Bool := decide (a = b)
abbrev u32_as_usize (a : Nat) : Nat := a
abbrev usize_as_u32 (a : Nat) : Nat := a % 4294967296
abbrev u32_as_i32 (a : Nat) : Int := if a ≤ 2147483647 then (a : Int) else (a : Int) - 4294967296
abbrev i32_as_u32 (a : Int) : Nat := (a % 4294967296).toNat

abbrev i32_lt (a b : Int) : Bool := decide (a < b)
abbrev i32_ge (a b : Int) : Bool := decide (a ≥ b)
abbrev i32_max (a b : Int) : Int := max a b
abbrev i32_neg (a : Int) : Int := -a
abbrev i32_checked_add (a b : Int) : Option Int :=
  if -2147483648 ≤ a + b ∧ a + b ≤ 2147483647 then some (a + b) else none

abbrev u64_from_u32 (a : Nat) : Nat := a
abbrev u64_add (a b : Nat) : Nat := a + b
abbrev u64_gt (a b : Nat) : Bool := decide (a > b)

abbrev i64_from_i32 (a : Int) : Int := a
abbrev i64_from_u32 (a : Nat) : Int := (a : Int)
abbrev i64_add (a b : Int) : Int := a + b
abbrev i64_sub (a b : Int) : Int := a - b
abbrev i64_min (a b : Int) : Int := min a b
abbrev i64_max (a b : Int) : Int := max a b
abbrev i64_as_u32 (a : Int) : Nat := (a % 4294967296).toNat

abbrev result_unwrap {ε α : Type} (r : Except ε α) : Option α :=
  match r with
  | .ok a => some a
  | .error _ => none
abbrev panic_bind {α β : Type} (o : Option α) (f : α → β) : Option β :=
  match o with
  | some a => some (f a)
  | none => none
abbrev raw_into_color (r : Nat) : Nat := r

/-- The items a consumer sees from an iterator given by its `next` (value, updated state), on explicit fuel. -/
def iter_collect_fuel {σ α : Type} (next : σ → Option α × σ) : Nat → σ → List α
  | 0, _ => []
  | fuel + 1, s =>
    match next s with
    | (some a, s') => a :: iter_collect_fuel next fuel s'
    | (none, _) => []

abbrev DrawTargetD := Call → Call
abbrev DrawTargetD_ok : List Call := []
abbrev DrawTargetD_fill_contiguous (t : DrawTargetD) (area : Rect) (colors : List Nat) : List Call :=
  [t (Call.fillContiguous area colors)]
abbrev DrawTargetD_translated (t : DrawTargetD) (offset : Pt) : DrawTargetD := fun c => t (Img.translatedCall offset c)

structure ImageDrawableT where
  size : Sz
  draw : DrawTargetD → List Call
  draw_sub_image : DrawTargetD → Rect → List Call

abbrev ImageDrawableT_size (t : ImageDrawableT) : Sz := t.size
abbrev ImageDrawableT_draw (t : ImageDrawableT) (d : DrawTargetD) : List Call := t.draw d
abbrev ImageDrawableT_draw_sub_image (t : ImageDrawableT) (d : DrawTargetD) (area : Rect) : List Call := t.draw_sub_image d area
abbrev ImageDrawableT_bounding_box (t : ImageDrawableT) : Rect := ⟨Pt.zero, t.size⟩
abbrev OriginDimensions_bounding_box (s : Sz) : Rect := ⟨Pt.zero, s⟩

end EG.ImgSrcPrelude
