/-
  EG.Model.ThickPolyline — styled polylines with a stroke: bounding box, `draw`, `pixels()`.
  Source: src/primitives/polyline/styled.rs (`untranslated_bounding_box`, `draw_thick`,
          `StyledPixelsIterator`, `draw_styled`, `styled_bounding_box`),
          src/primitives/polyline/scanline_iterator.rs (`ScanlineIterator`),
          src/primitives/polyline/scanline_intersections.rs (`ScanlineIntersections`),
          src/primitives/polyline/mod.rs (`Dimensions::bounding_box`).
  The style is `PrimitiveStyle::with_stroke(colour, width)` (polylines have no fill; the stroke
  alignment is ignored by `ThickSegmentIter::new`); the colour is not part of the model.
  Outer `none` = a loop bound of `Line::extents` or a step budget of the scanline iterators was
  exceeded ("stuck"); it never happens: `styledBoundingBox_total`, `drawStyled_total`,
  `pixels_total` (EG/Lemmas/JoinsTotalPoly.lean), for every polyline and width.
-/
import EG.Model.ThickSegment
import EG.Model.Polyline
namespace EG
namespace Joins
open Thick (LineSide StrokeOffset)

/-- `Dimensions::bounding_box` of the (unstyled) `Polyline`. -/
def polylineBoundingBox (pl : Polyline) : Rect :=
  match pl.vertices with
  | [] => Rect.zero
  | [v] => ⟨v, Sz.zero⟩
  | vs =>
    let tl := vs.foldl (fun (acc : Pt) v => ⟨min acc.x (v + pl.translate).x, min acc.y (v + pl.translate).y⟩)
      (⟨2147483647, 2147483647⟩ : Pt)
    let br := vs.foldl (fun (acc : Pt) v => ⟨max acc.x (v + pl.translate).x, max acc.y (v + pl.translate).y⟩)
      (⟨-2147483648, -2147483648⟩ : Pt)
    Rect.withCorners tl br

/-- `untranslated_bounding_box(primitive, style)` for a style with a stroke colour. -/
def untranslatedBoundingBox (pl : Polyline) (width : Nat) : Option Rect :=
  if width > 0 ∧ pl.vertices.length > 1 then do
    let it ← ThickSegmentIter.new pl.vertices width
    let segs ← it.toList
    pure (foldEdgeBoxes segs)
  else some ⟨(polylineBoundingBox pl).center, Sz.zero⟩

/-- `StyledDimensions::styled_bounding_box`. -/
def styledBoundingBox (pl : Polyline) (width : Nat) : Option Rect := do
  let r ← untranslatedBoundingBox pl width
  pure (r.translate pl.translate)

/-! ### `polyline::scanline_intersections::ScanlineIntersections` -/

/-- `ScanlineIntersections { points, remaining_points, next_start_join, width, scanline }`. -/
structure PolyIntersections where
  points : List Pt
  remainingPoints : List Pt
  nextStartJoin : Option LineJoin
  width : Nat
  scanline : Scanline
  deriving Repr

namespace PolyIntersections

/-- `ScanlineIntersections::new`. -/
def new (points : List Pt) (width : Nat) (scanlineY : Int) : Option PolyIntersections := do
  let nextStartJoin ← match points with
    | first :: second :: _ => (LineJoin.start first second width .none).map some
    | _ => some none
  pure { points, remainingPoints := points, nextStartJoin, width, scanline := Scanline.newEmpty scanlineY }

/-- `ScanlineIntersections::empty` (`EMPTY` is three zero points). -/
def empty : PolyIntersections :=
  ⟨[Pt.zero, Pt.zero, Pt.zero], [Pt.zero, Pt.zero, Pt.zero], none, 0, Scanline.newEmpty 0⟩

/-- `reset_with_new_scanline`. -/
def resetWithNewScanline (it : PolyIntersections) (scanlineY : Int) : Option PolyIntersections :=
  new it.points it.width scanlineY

/-- `next_segment`. -/
def nextSegment (it : PolyIntersections) : Option (Option (ThickSegment × PolyIntersections)) :=
  match it.nextStartJoin with
  | none => some none
  | some startJoin =>
    let endJoin? : Option (Option LineJoin) :=
      match it.remainingPoints with
      | start :: mid :: stop :: _ => (LineJoin.fromPoints start mid stop it.width .none).map some
      | [start, stop] => (LineJoin.stop start stop it.width .none).map some
      | _ => some none
    match endJoin? with
    | none => none
    | some none => some none
    | some (some endJoin) =>
      -- `self.remaining_points.get(1..)?` (at least two points remain here)
      some (some (⟨startJoin, endJoin⟩,
        { it with remainingPoints := it.remainingPoints.tail, nextStartJoin := some endJoin }))

/-- `Iterator::next`: the `while let Some(segment) = self.next_segment()` loop (one iteration per
remaining segment; `fuel` bounds it). -/
def nextFuel : Nat → PolyIntersections → Option (Option Scanline × PolyIntersections)
  | 0, _ => none
  | fuel + 1, it =>
    match it.nextSegment with
    | none => none
    | some none =>
      -- No more segments - return the final accumulated line.
      let (r, sc) := it.scanline.tryTake
      some (r, { it with scanline := sc })
    | some (some (segment, it)) =>
      let nextScanline := segment.intersection it.scanline.y
      let (extended, sc) := it.scanline.tryExtend nextScanline
      if !extended then some (some it.scanline, { it with scanline := nextScanline })
      else nextFuel fuel { it with scanline := sc }

def next (it : PolyIntersections) : Option (Option Scanline × PolyIntersections) :=
  it.nextFuel (it.remainingPoints.length + 1)

end PolyIntersections

/-! ### `polyline::scanline_iterator::ScanlineIterator` -/

/-- `ScanlineIterator { rows, scanline_y, intersections }`. -/
structure PolyScanlines where
  rowsStart : Int
  rowsEnd : Int
  scanlineY : Int
  intersections : PolyIntersections
  deriving Repr

namespace PolyScanlines

/-- `ScanlineIterator::empty`. -/
def empty : PolyScanlines := ⟨0, 0, 0, PolyIntersections.empty⟩

/-- `ScanlineIterator::new(primitive, style)` (`debug_assert!(stroke_width > 1)` is the caller's
business: both callers check the width first). -/
def new (pl : Polyline) (width : Nat) : Option PolyScanlines := do
  let bb ← untranslatedBoundingBox pl width
  let rowsStart := bb.tl.y
  let rowsEnd := bb.rowsEnd
  if rowsStart < rowsEnd then
    let intersections ← PolyIntersections.new pl.vertices width rowsStart
    pure ⟨rowsStart + 1, rowsEnd, rowsStart, intersections⟩
  else pure empty

/-- `Iterator::next`: the `loop`; every iteration either consumes a segment group of the current
row or moves to the next row, `fuel` bounds their number. -/
def nextFuel : Nat → PolyScanlines → Option (Option (Scanline × PolyScanlines))
  | 0, _ => none
  | fuel + 1, it =>
    match it.intersections.next with
    | none => none
    | some (some nxt, ints) =>
      let it := { it with intersections := ints }
      if !nxt.isEmpty then some (some (nxt, it)) else nextFuel fuel it
    | some (none, ints) =>
      let it := { it with intersections := ints }
      if it.rowsStart < it.rowsEnd then
        let y := it.rowsStart
        match it.intersections.resetWithNewScanline y with
        | none => none
        | some ints => nextFuel fuel { it with rowsStart := y + 1, scanlineY := y, intersections := ints }
      else some none

/-- Step bound of one `next` call: per remaining row at most one step per segment plus two. -/
def stepBudget (it : PolyScanlines) : Nat :=
  ((it.rowsEnd - it.rowsStart).toNat + 2) * (it.intersections.points.length + 3)

def next (it : PolyScanlines) : Option (Option (Scanline × PolyScanlines)) :=
  it.nextFuel it.stepBudget

/-- What a `for` loop over the iterator sees. -/
def toListFuel : Nat → PolyScanlines → Option (List Scanline)
  | 0, _ => some []
  | fuel + 1, it => do
    match ← it.next with
    | none => pure []
    | some (s, it') =>
      let rest ← toListFuel fuel it'
      pure (s :: rest)

def toList (it : PolyScanlines) : Option (List Scanline) := it.toListFuel it.stepBudget

end PolyScanlines

/-- The rectangles of the `fill_solid` calls of `draw_thick` on the target it is given (i.e. in
untranslated coordinates). -/
def drawThickRects (pl : Polyline) (width : Nat) : Option (List Rect) := do
  let it ← PolyScanlines.new pl width
  let lines ← it.toList
  pure ((lines.map Scanline.toRectangle).filter (fun r => !r.isZeroSized))

/-- What `draw_styled` does for a style with a stroke colour. -/
inductive PolyDraw
  | nothing                       -- width 0
  | drawIter (pts : List Pt)      -- width 1: one `draw_iter` call with `points()`
  | fillSolids (rs : List Rect)   -- width > 1: one `fill_solid` per rectangle, in order
  deriving Repr

/-- `StyledDrawable::draw_styled` for `PrimitiveStyle::with_stroke(c, width)`: for widths above 1
`draw_thick` runs on `target.translated(self.translate)` when the translation is non-zero
(`Translated::fill_solid` moves the area by the offset) and on the target itself otherwise. -/
def drawStyled (pl : Polyline) (width : Nat) : Option PolyDraw :=
  match width with
  | 0 => some .nothing
  | 1 => some (.drawIter (Polyline.points pl))
  | _ => do
    let rs ← drawThickRects pl width
    if pl.translate ≠ Pt.zero then pure (.fillSolids (rs.map (fun r => r.translate pl.translate)))
    else pure (.fillSolids rs)

/-! ### `polyline::styled::StyledPixelsIterator` (the `Thick` arm) -/

/-- `StyledIter::Thick { scanline_iter, line_iter, translate }`. -/
structure PolyThickPixels where
  scanlineIter : PolyScanlines
  lineIter : Scanline
  translate : Pt
  deriving Repr

namespace PolyThickPixels

/-- The `else` arm of `StyledPixelsIterator::new`. -/
def new (pl : Polyline) (width : Nat) : Option PolyThickPixels := do
  let scanlineIter ← PolyScanlines.new pl width
  match ← scanlineIter.next with
  | some (lineIter, scanlineIter) => pure ⟨scanlineIter, lineIter, pl.translate⟩
  | none => pure ⟨scanlineIter, Scanline.newEmpty 0, pl.translate⟩

/-- `Iterator::next` (the stroke colour is present). -/
def next (it : PolyThickPixels) : Option (Option (Pt × PolyThickPixels)) :=
  match it.lineIter.next with
  | some (p, li) => some (some (p + it.translate, { it with lineIter := li }))
  | none => do
    match ← it.scanlineIter.next with
    | none => pure none
    | some (li, si) =>
      let it := { it with scanlineIter := si, lineIter := li }
      match li.next with
      | some (p, li) => pure (some (p + it.translate, { it with lineIter := li }))
      | none => pure none

def toListFuel : Nat → PolyThickPixels → Option (List Pt)
  | 0, _ => some []
  | fuel + 1, it => do
    match ← it.next with
    | none => pure []
    | some (p, it') =>
      let rest ← toListFuel fuel it'
      pure (p :: rest)

end PolyThickPixels

/-- Fuel for draining `pixels()` of a polyline of width > 1 in the model (one unit per pixel, one to
see the final `None`): the total length of the scanlines a `for` loop over a fresh `ScanlineIterator`
sees. Every pixel of `pixels()` is a point of one of those scanlines, so the fuel is never used up
(`C01Thick.pixels_eq_run`, EG/Lemmas/C01ThickPoly.lean: `pixels` is the COMPLETE pixel run). -/
def polyPixelFuel (pl : Polyline) (width : Nat) : Option Nat := do
  let si ← PolyScanlines.new pl width
  let lines ← si.toList
  pure ((lines.map (fun s => (s.xe - s.xs).toNat)).sum + 1)

/-- The points of `polyline.into_styled(PrimitiveStyle::with_stroke(c, width)).pixels()` in emission
order. Width 0: `effective_stroke_color()` is `None`; width 1: `points()`. -/
def pixels (pl : Polyline) (width : Nat) : Option (List Pt) :=
  match width with
  | 0 => some []
  | 1 => some (Polyline.points pl)
  | _ => do
    let fuel ← polyPixelFuel pl width
    let it ← PolyThickPixels.new pl width
    it.toListFuel fuel

end Joins
end EG
