/-
  EG.Model.ThickLine — `ParallelsIterator`, `ThickPoints`, `line::StyledPixelsIterator`, arm for arm.
  Source: src/primitives/line/thick_points.rs, src/primitives/line/styled.rs,
          src/primitives/common/mod.rs (`LineSide`, `StrokeOffset`).

  The two `loop`s of the Rust code (`next_parallel`, `ThickPoints::next`) are modelled by recursion
  on explicit fuel. Both run at most twice per call in the real code (an `Extra` perpendicular
  point is always followed by a `Normal` one; a fetched parallel always has at least one point);
  the fuel is `loopFuel = 4`, and exhausting it is reported as `none` ("stuck"), never papered
  over: every function that contains a loop returns `Option`, the outer `none` meaning "loop bound
  exceeded" (the driver prints `stuck`, which would be a correspondence disagreement). The same
  holds for the step budget of `thickPoints`. That neither bound is ever hit is a theorem:
  `EG.Thick.thickPoints_total` (EG/Lemmas/ThickTotal.lean), for every line and width.
  `Int` arithmetic is unbounded: the `i32` overflow of `thickness_threshold` for long wide lines
  is property C08's topic.
-/
import EG.Model.Line
import EG.Model.Rect
namespace EG
namespace Thick

/-- `common::LineSide`. -/
inductive LineSide | left | right
  deriving DecidableEq, Repr

def LineSide.swap : LineSide → LineSide
  | .left => .right
  | .right => .left

/-- `common::StrokeOffset`. -/
inductive StrokeOffset | none | left | right
  deriving DecidableEq, Repr

/-- `thick_points::ParallelLineType`. -/
inductive ParallelLineType | normal | extra
  deriving DecidableEq, Repr

/-- `HORIZONTAL_LINE`. -/
def horizontalLine : Line := ⟨⟨0, 0⟩, ⟨1, 0⟩⟩

/-- `ParallelsIterator`. -/
structure ParallelsIterator where
  parallelParameters : BresenhamParameters
  perpendicularParameters : BresenhamParameters
  thicknessAccumulator : Int
  thicknessThreshold : Int
  flip : Bool
  left : Bresenham
  leftError : Int
  right : Bresenham
  rightError : Int
  nextSide : LineSide
  strokeOffset : StrokeOffset
  deriving DecidableEq, Repr

/-- Bound on the iterations of the two `loop`s (see the file header). -/
def loopFuel : Nat := 4

namespace ParallelsIterator

def sideError (it : ParallelsIterator) : LineSide → Int
  | .left => it.leftError
  | .right => it.rightError

def setSideError (it : ParallelsIterator) (side : LineSide) (e : Int) : ParallelsIterator :=
  match side with
  | .left => { it with leftError := e }
  | .right => { it with rightError := e }

/-- `next_parallel`: the `loop`, bounded by `fuel`; `none` = bound exceeded. -/
def nextParallelFuel : Nat → ParallelsIterator → LineSide →
    Option ((BresenhamPoint × Int) × ParallelsIterator)
  | 0, _, _ => none
  | fuel + 1, it, side =>
    let decreaseError := match side with
      | .left => it.flip
      | .right => !it.flip
    let (point, it) := match side with
      | .left =>
        let (p, b) := it.left.nextAll it.perpendicularParameters
        (p, { it with left := b })
      | .right =>
        let (p, b) := it.right.previousAll it.perpendicularParameters
        (p, { it with right := b })
    match point with
    | .normal _ => some ((point, it.sideError side), it)
    | .extra _ =>
      if decreaseError then
        let errorBeforeDecrease := it.sideError side
        let (e, stepped) := it.parallelParameters.decreaseError (it.sideError side)
        let it := it.setSideError side e
        if stepped then some ((point, errorBeforeDecrease), it)
        else nextParallelFuel fuel it side
      else
        let (e, stepped) := it.parallelParameters.increaseError (it.sideError side)
        let it := it.setSideError side e
        if stepped then some ((point, e), it)
        else nextParallelFuel fuel it side

def nextParallel (it : ParallelsIterator) (side : LineSide) :
    Option ((BresenhamPoint × Int) × ParallelsIterator) :=
  nextParallelFuel loopFuel it side

/-- `ParallelsIterator::new` (`none` only if the loop bound of the skipped centre line is hit). -/
def new (line : Line) (thickness : Int) (strokeOffset : StrokeOffset) : Option ParallelsIterator :=
  let startPoint := line.start
  let line := if line.start = line.stop then horizontalLine else line
  let parallelParameters := BresenhamParameters.new line
  let perpendicularParameters := BresenhamParameters.new line.perpendicular
  let thicknessThreshold := (thickness * 2) * (thickness * 2) * line.delta.lengthSquared
  let thicknessAccumulator :=
    tdiv2 (parallelParameters.errorStep.minor + parallelParameters.errorStep.major)
  let flip := decide (perpendicularParameters.positionStep.minor = -parallelParameters.positionStep.major)
  let nextSide := match strokeOffset with
    | .none => LineSide.right
    | .left => LineSide.left
    | .right => LineSide.right
  let self_ : ParallelsIterator :=
    { parallelParameters, perpendicularParameters, thicknessAccumulator, thicknessThreshold, flip
      left := Bresenham.new startPoint, leftError := 0
      right := Bresenham.new startPoint, rightError := 0
      nextSide, strokeOffset }
  -- Skip center line
  match self_.nextParallel nextSide.swap with
  | none => none
  | some (_, it) => some it

/-- `Iterator::next`. Outer `none` = loop bound exceeded; `some (none, _)` = the iterator is done. -/
def next (it : ParallelsIterator) :
    Option (Option (Bresenham × ParallelLineType) × ParallelsIterator) :=
  if it.thicknessAccumulator * it.thicknessAccumulator > it.thicknessThreshold then some (none, it)
  else
    match it.nextParallel it.nextSide with
    | none => none
    | some ((point, error), it) =>
      let (ret, it) := match point with
        | .normal p =>
          ((Bresenham.withInitialError p error, ParallelLineType.normal),
            { it with thicknessAccumulator :=
                it.thicknessAccumulator + it.perpendicularParameters.errorStep.minor })
        | .extra p =>
          ((Bresenham.withInitialError p error, ParallelLineType.extra),
            { it with thicknessAccumulator :=
                it.thicknessAccumulator + it.perpendicularParameters.errorStep.major })
      let it := if it.strokeOffset = .none then { it with nextSide := it.nextSide.swap } else it
      some (some ret, it)

end ParallelsIterator

/-! ### `Line::extents` / `styled_bounding_box` (src/primitives/line/mod.rs, styled.rs) -/

/-- The `loop` of `Line::extents` for `StrokeOffset::None`: parallels alternate right, left, ..;
the last one seen on each side is kept. `fuel` bounds the number of iterations (two parallels
each); outer `none` = a loop bound was exceeded. -/
def extentsLoop : Nat → ParallelsIterator → (Pt × ParallelLineType) → (Pt × ParallelLineType) →
    Option ((Pt × ParallelLineType) × (Pt × ParallelLineType))
  | 0, _, _, _ => none
  | fuel + 1, it, left, right =>
    match it.next with
    | none => none
    | some (none, _) => some (left, right)
    | some (some (b, ty), it) =>
      let right := (b.point, ty)
      match it.next with
      | none => none
      | some (none, _) => some (left, right)
      | some (some (b, ty), it) => extentsLoop fuel it (b.point, ty) right

/-- `Line::extents(thickness, StrokeOffset::None)`: the left-most and right-most parallel.
(The `StrokeOffset::Left/Right` arms, used only by thick polylines / triangles, are not modelled
here.) -/
def extents (l : Line) (thickness : Nat) : Option (Line × Line) :=
  match ParallelsIterator.new l (satAsI32 thickness) .none with
  | none => none
  | some it =>
    let reduce := it.parallelParameters.positionStep.major + it.parallelParameters.positionStep.minor
    match extentsLoop (2 * thickness + 4) it (l.start, .normal) (l.start, .normal) with
    | none => none
    | some (left, right) =>
      let delta := l.stop - l.start
      let mk := fun (s : Pt × ParallelLineType) =>
        (⟨s.1, s.1 + delta - (match s.2 with | .normal => Pt.zero | .extra => reduce)⟩ : Line)
      some (mk left, mk right)

/-- `StyledDimensions::styled_bounding_box` of a line with stroke width `w`. -/
def styledBoundingBox (l : Line) (w : Nat) : Option Rect :=
  match extents l w with
  | none => none
  | some (lft, rgt) =>
    let mn := ((lft.start.componentMin lft.stop).componentMin rgt.start).componentMin rgt.stop
    let mx := ((lft.start.componentMax lft.stop).componentMax rgt.start).componentMax rgt.stop
    some (Rect.withCorners mn mx)

/-- `ThickPoints`. -/
structure ThickPointsIt where
  parallel : Bresenham
  parallelLength : Nat
  parallelPointsRemaining : Nat
  iter : ParallelsIterator
  deriving DecidableEq, Repr

namespace ThickPointsIt

/-- `ThickPoints::new`. -/
def new (line : Line) (thickness : Int) : Option ThickPointsIt :=
  match ParallelsIterator.new line thickness .none with
  | none => none
  | some iter =>
    some { parallel := Bresenham.new line.start
           parallelLength := majorLength line
           parallelPointsRemaining := 0
           iter }

/-- `Iterator::next`: the `loop`, bounded by `fuel`. Outer `none` = loop bound exceeded,
`some none` = iterator finished. -/
def nextFuel : Nat → ThickPointsIt → Option (Option (Pt × ThickPointsIt))
  | 0, _ => none
  | fuel + 1, it =>
    if it.parallelPointsRemaining > 0 then
      let (p, b) := it.parallel.next it.iter.parallelParameters
      some (some (p, { it with parallelPointsRemaining := it.parallelPointsRemaining - 1,
                               parallel := b }))
    else
      match it.iter.next with
      | none => none
      | some (none, _) => some none
      | some (some (parallel, lineType), iter) =>
        let remaining := it.parallelLength
        -- Reduce the length of extra lines by one pixel (`u32 -= 1`; the length is at least 1)
        let remaining := if lineType = .extra then remaining - 1 else remaining
        nextFuel fuel { it with parallel, parallelPointsRemaining := remaining, iter }

def next (it : ThickPointsIt) : Option (Option (Pt × ThickPointsIt)) := it.nextFuel loopFuel

/-- `take(fuel)`: the first `fuel` items a `for` loop sees; `none` = an inner loop bound was
exceeded. Reaching `fuel = 0` ends the list (that is what `take` does); used where a prefix is
wanted (EG/Driver/Scale.lean), NOT by `thickPoints`. -/
def toListFuel : Nat → ThickPointsIt → Option (List Pt)
  | 0, _ => some []
  | fuel + 1, it =>
    match it.next with
    | none => none
    | some none => some []
    | some (some (p, it')) =>
      match toListFuel fuel it' with
      | none => none
      | some ps => some (p :: ps)

/-- Everything a `for` loop sees, within a step budget: `none` = some loop bound was exceeded,
including the step budget `fuel` itself (the list is never silently truncated). -/
def drainFuel : Nat → ThickPointsIt → Option (List Pt)
  | 0, _ => none
  | fuel + 1, it =>
    match it.next with
    | none => none
    | some none => some []
    | some (some (p, it')) =>
      match drainFuel fuel it' with
      | none => none
      | some ps => some (p :: ps)

end ThickPointsIt

/-- Step budget of `thickPoints`: more than the stroke can have pixels. Every parallel raises the
thickness accumulator by at least 1 and the iterator stops once `accumulator² > threshold`, so
there are at most `threshold + 1` parallels of at most `majorLength` points each. The bound is
deliberately crude: it is only a recursion bound, never reached (`EG.Thick.thickPoints_total`,
EG/Lemmas/ThickTotal.lean: `thickPoints` never returns `none`), and costs nothing at run time. -/
def pixelBudget (line : Line) (thicknessThreshold : Int) : Nat :=
  majorLength line * (thicknessThreshold.toNat + 2) + 1

/-- The points of `Line::new(start, end).into_styled(PrimitiveStyle::with_stroke(c, width)).pixels()`
in emission order (`StyledPixelsIterator`): nothing for width 0 (`effective_stroke_color` is
`None`), otherwise `ThickPoints::new(line, width.saturating_as())` drained. -/
def thickPoints (line : Line) (width : Nat) : Option (List Pt) :=
  match ThickPointsIt.new line (satAsI32 width) with
  | none => none
  | some it =>
    if width = 0 then some [] else it.drainFuel (pixelBudget line it.iter.thicknessThreshold)

end Thick
end EG
