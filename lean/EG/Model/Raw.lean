/-
  EG.Model.Raw — raw pixel data: `load` / `store` for 1/2/4/8/16/24/32 bits per pixel in both data
  orders, and `RawDataIterator`.

  Literal transcription of
    core/src/pixelcolor/raw/load_store.rs   (`bit_position`, `impl_load_store_bits!`, RawU8, RawU16/24/32)
    core/src/pixelcolor/raw/mod.rs          (`MASK`, `new`)
    core/src/pixelcolor/raw/to_bytes.rs     (`to_le_bytes` / `to_be_bytes`)
    src/iterator/raw.rs                     (`RawDataIterator::{next, nth, size_hint}`)

  Conventions: a byte buffer is a `List Nat`; "every element is `< 256`" is the separate
  well-formedness predicate `BytesOk` (preserved by `store`, see EG/Lemmas/Raw.lean), not a subtype.
  Pixel indices are `Nat` (`usize` in Rust). The real multi-byte `load`/`store` compute the byte
  offset as `index.checked_mul(n)` and reject the index when that overflows; here `index * n` is the
  mathematical product and `sliceFrom` rejects it because it exceeds the buffer length (a buffer is
  shorter than `usize::MAX`), which is the same answer for every `usize` index. A raw value is a `Nat`;
  `RawUx::new` masks it (`rawNew`), `store` expects a value that went through `new` (`v < 2^bits`).
  Import-free.
-/
namespace EG.Raw

/-- `DataOrder`: `le` = `LittleEndianMsb0` (`IS_ALTERNATE_ORDER = false`),
`be` = `BigEndianLsb0` (`IS_ALTERNATE_ORDER = true`). -/
inductive Order where
  | le
  | be
  deriving DecidableEq, Repr, Inhabited

/-- `O::IS_ALTERNATE_ORDER` -/
def Order.alt : Order → Bool
  | .le => false
  | .be => true

/-- `usize::MAX` on the 64-bit host the harness runs on. -/
def usizeMax : Nat := 18446744073709551615

/-- `usize::saturating_add` -/
def satAddUsize (a b : Nat) : Nat := if a + b ≤ usizeMax then a + b else usizeMax

/-- `usize::saturating_mul` -/
def satMulUsize (a b : Nat) : Nat := if a * b ≤ usizeMax then a * b else usizeMax

/-- The seven raw types, by `BITS_PER_PIXEL`. -/
def validBits (bits : Nat) : Bool :=
  bits == 1 || bits == 2 || bits == 4 || bits == 8 || bits == 16 || bits == 24 || bits == 32

/-- Well-formed byte buffer: every element is a `u8`. -/
def BytesOk (buf : List Nat) : Prop := ∀ b ∈ buf, b < 256

/-- `RawData::MASK = Storage::MAX >> (Storage::BITS - bpp)` -/
def mask (bits : Nat) : Nat := 2 ^ bits - 1

/-- `RawUx::new(value) = value & MASK` (also `From<Storage>`, `from_u32`). -/
def rawNew (bits v : Nat) : Nat := v &&& mask bits

/-! ## Sub-byte depths (`impl_load_store_bits!`: RawU1, RawU2, RawU4) -/

/-- `bit_position::<R, O>(index)` = `(byte_index, bit_index)`. -/
def bitPosition (bits : Nat) (o : Order) (index : Nat) : Nat × Nat :=
  let ppb := 8 / bits
  let byteIndex := index / ppb
  let bitIndex := (if o.alt then index % ppb else (ppb - 1) - index % ppb) * bits
  (byteIndex, bitIndex)

/-- `(byte >> bit_index).into()`: shift, then `From<u8>` = `new` masks. -/
def loadByte (bits sh b : Nat) : Nat := rawNew bits (b >>> sh)

/-- `(*byte & !(MASK << bit_index)) | (value << bit_index)` in `u8` arithmetic
(`!x = 255 ^ x`, shifts drop the bits that leave the byte). -/
def storeByte (bits sh v b : Nat) : Nat :=
  (b &&& (255 ^^^ ((mask bits <<< sh) % 256))) ||| ((v <<< sh) % 256)

def loadBits (bits : Nat) (o : Order) (buf : List Nat) (index : Nat) : Option Nat :=
  let (byteIndex, bitIndex) := bitPosition bits o index
  match buf[byteIndex]? with
  | none => none
  | some b => some (loadByte bits bitIndex b)

/-- Result of `store`: `(true, buffer after)` for `Ok(())`, `(false, buffer after)` for
`Err(OutOfBoundsError)`. -/
abbrev StoreRes := Bool × List Nat

def storeBits (bits : Nat) (o : Order) (v : Nat) (buf : List Nat) (index : Nat) : StoreRes :=
  let (byteIndex, bitIndex) := bitPosition bits o index
  match buf[byteIndex]? with
  | none => (false, buf)
  | some b => (true, buf.set byteIndex (storeByte bits bitIndex v b))

/-! ## One byte per pixel (RawU8) -/

def loadU8 (buf : List Nat) (index : Nat) : Option Nat := buf[index]?

def storeU8 (v : Nat) (buf : List Nat) (index : Nat) : StoreRes :=
  match buf[index]? with
  | none => (false, buf)
  | some _ => (true, buf.set index v)

/-! ## Several bytes per pixel (RawU16, RawU24, RawU32) -/

/-- `uN::from_le_bytes` -/
def fromLe : List Nat → Nat
  | [] => 0
  | b :: bs => b + 256 * fromLe bs

/-- `uN::from_be_bytes` -/
def fromBe (l : List Nat) : Nat := fromLe l.reverse

/-- `to_le_bytes` (first `n` bytes, least significant first) -/
def toLe : Nat → Nat → List Nat
  | 0, _ => []
  | n + 1, v => v % 256 :: toLe n (v / 256)

/-- `to_be_bytes` -/
def toBe (n v : Nat) : List Nat := (toLe n v).reverse

/-- `buffer.get(start..)` -/
def sliceFrom (buf : List Nat) (start : Nat) : Option (List Nat) :=
  if start ≤ buf.length then some (buf.drop start) else none

/-- `buffer.get(0..n)` -/
def slicePrefix (buf : List Nat) (n : Nat) : Option (List Nat) :=
  if n ≤ buf.length then some (buf.take n) else none

/-- `n` = bytes per pixel. For RawU24 the three bytes are copied into `[b0,b1,b2,0]` (LE) or
`[0,b0,b1,b2]` (BE) before `u32::from_xx_bytes`, which is `fromLe` / `fromBe` of the three bytes.
`Self::new` masks with `Storage::MAX` for 16 and 32 bits (the identity on the storage type). -/
def loadBytes (n : Nat) (o : Order) (buf : List Nat) (index : Nat) : Option Nat :=
  match sliceFrom buf (index * n) with
  | none => none
  | some tail =>
    match slicePrefix tail n with
    | none => none
    | some s => some (if o.alt then fromBe s else fromLe s)

/-- `buf[start .. start + bytes.length].copy_from_slice(bytes)` -/
def splice (buf : List Nat) (start : Nat) (bytes : List Nat) : List Nat :=
  buf.take start ++ bytes ++ buf.drop (start + bytes.length)

def storeBytes (n : Nat) (o : Order) (v : Nat) (buf : List Nat) (index : Nat) : StoreRes :=
  let bytes := if o.alt then toBe n v else toLe n v
  match sliceFrom buf (index * n) with
  | none => (false, buf)
  | some tail =>
    match slicePrefix tail n with
    | none => (false, buf)
    | some _ => (true, splice buf (index * n) bytes)

/-! ## `RawData::load` / `RawData::store`, dispatched on the raw type -/

def load (bits : Nat) (o : Order) (buf : List Nat) (index : Nat) : Option Nat :=
  if bits < 8 then loadBits bits o buf index
  else if bits = 8 then loadU8 buf index
  else loadBytes (bits / 8) o buf index

def store (bits : Nat) (o : Order) (v : Nat) (buf : List Nat) (index : Nat) : StoreRes :=
  if bits < 8 then storeBits bits o v buf index
  else if bits = 8 then storeU8 v buf index
  else storeBytes (bits / 8) o v buf index

/-- Number of whole pixels a buffer of `len` bytes holds (excess bytes are ignored). -/
def pixelCount (bits len : Nat) : Nat :=
  if bits < 8 then len * (8 / bits) else len / (bits / 8)

/-! ## `RawDataIterator` -/

structure Iter where
  bits : Nat
  order : Order
  data : List Nat
  index : Nat
  deriving Repr

/-- `RawDataSlice::new(data).into_iter()` -/
def Iter.new (bits : Nat) (o : Order) (data : List Nat) : Iter := ⟨bits, o, data, 0⟩

/-- `next(&mut self)`: the returned item and the state afterwards (unchanged on `None`). -/
def Iter.next (it : Iter) : Option Nat × Iter :=
  match load it.bits it.order it.data it.index with
  | none => (none, it)
  | some v => (some v, { it with index := it.index + 1 })

/-- `nth(&mut self, n)`: `self.index = self.index.saturating_add(n); self.next()`. -/
def Iter.nth (it : Iter) (n : Nat) : Option Nat × Iter :=
  Iter.next { it with index := satAddUsize it.index n }

/-- `size_hint(&self)` -/
def Iter.sizeHint (it : Iter) : Nat × Option Nat :=
  let pixelsTotal :=
    if it.bits < 8 then satMulUsize it.data.length (8 / it.bits)
    else it.data.length / (it.bits / 8)
  let size := pixelsTotal - it.index
  (size, some size)

/-- What a `for` loop sees, by structural recursion on explicit fuel. -/
def Iter.toListFuel : Nat → Iter → List Nat
  | 0, _ => []
  | fuel + 1, it =>
    match it.next with
    | (none, _) => []
    | (some v, it') => v :: Iter.toListFuel fuel it'

/-- Every item consumes at least one bit of `data`, so `8 * len + 1` steps suffice. -/
def Iter.toList (it : Iter) : List Nat := it.toListFuel (8 * it.data.length + 1)

end EG.Raw
