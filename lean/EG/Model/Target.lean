/-
  EG.Model.Target — draw targets as semantics of calls.
  Source: core/src/draw_target/mod.rs (the `DrawTarget` trait and its three default methods),
  harness/src/common.rs (recording targets `R1` = draw_iter only, `R2` = native fill methods).

  A colour is a `Nat` (its raw value). A drawable's `draw` is a `List Call`; a target with
  bounding box `B` turns a call into a list of pixel writes; a pixel map is the last write per
  point. Pixels outside `B` are ignored by the recording targets, as a display would.
-/
import EG.Model.Rect
namespace EG

abbrev Color := Nat
abbrev Writes := List (Pt × Color)

inductive Call where
  | drawIter (px : Writes)
  | fillContiguous (area : Rect) (cs : List Color)
  | fillSolid (area : Rect) (c : Color)
  | clear (c : Color)
  deriving Repr, DecidableEq

/-- Keep the writes that fall inside the target's box. -/
def clipWrites (B : Rect) (ws : Writes) : Writes := ws.filter (fun w => B.contains w.1)

namespace Call

/-- Trait defaults (`R1`): everything is lowered to `draw_iter`.
`fill_contiguous(area, cs) = draw_iter(area.points().zip(cs))`,
`fill_solid(area, c) = fill_contiguous(area, repeat(c))`, `clear(c) = fill_solid(bounding_box, c)`. -/
def lowerDefault (B : Rect) : Call → Writes
  | drawIter px => px
  | fillContiguous area cs => area.points.zip cs
  | fillSolid area c => area.points.zip (List.replicate area.points.length c)
  | clear c => B.points.zip (List.replicate B.points.length c)

/-- Documented meaning (`R2`): colours are paired with the row-major points of the area
(closed form `pointsSpec`), `fill_solid` sets every point of the area, `clear` every point of the
target's box. -/
def lowerNative (B : Rect) : Call → Writes
  | drawIter px => px
  | fillContiguous area cs => area.pointsSpec.zip cs
  | fillSolid area c => area.pointsSpec.map (fun p => (p, c))
  | clear c => B.pointsSpec.map (fun p => (p, c))

def writesDefault (B : Rect) (c : Call) : Writes := clipWrites B (c.lowerDefault B)
def writesNative (B : Rect) (c : Call) : Writes := clipWrites B (c.lowerNative B)

end Call

/-- Pixel map: the colour last written to a point, if any. -/
def PMap := Pt → Option Color

def PMap.empty : PMap := fun _ => none

/-- Last write wins. -/
def PMap.apply (m : PMap) (ws : Writes) : PMap :=
  ws.foldl (fun m w => fun p => if p = w.1 then some w.2 else m p) m

/-- Lookup form of `apply`: the last write to `p` in `ws`, else the old content. -/
def lastWrite (ws : Writes) (p : Pt) : Option Color :=
  match ws.reverse.find? (fun w => w.1 == p) with
  | some w => some w.2
  | none => none

/-- The map left on an (initially empty) target with box `B` by a call list. -/
def runDefault (B : Rect) (calls : List Call) : PMap :=
  PMap.empty.apply (calls.flatMap (Call.writesDefault B))
def runNative (B : Rect) (calls : List Call) : PMap :=
  PMap.empty.apply (calls.flatMap (Call.writesNative B))

end EG
