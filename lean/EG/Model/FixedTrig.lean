/-
  EG.Model.FixedTrig — `geometry::Angle` and `impl Trigonometry for Angle` of the `fixed_point`
  build, and `OriginLinearEquation::with_angle`, arm for arm.
  Source: src/geometry/angle.rs (feature `fixed_point`), src/primitives/common/linear_equation.rs,
  src/geometry/mod.rs (`rotate_90`).

  An `Angle` is its raw value: the I16F16 bits of the radians (`Angle::verif_raw`). The table and
  every literal come from `EG.Generated.TrigTable` (tools/tr_trig.py, regenerated from the source on
  every run); `none` = the checked build panics (see `EG.Model.FixedReal`).

      degree = i32::from(((Real::from(180) * angle) / PI).round())        -- whole degrees
      sin    = ± SIN[..] of `degree.rem_euclid(360)` folded into the first quadrant
      cos    = sin(angle + FRAC_PI_2)

  What stays outside the model: `Angle::from_degrees` / `from_radians` (f32 multiply / divide and
  `I16F16::from_num`, trusted IEEE arithmetic); the model starts at the raw bits.
  Import-free apart from the model's own files.
-/
import EG.Basic.Core
import EG.Model.FixedReal
import EG.Generated.TrigTable
namespace EG.Fx
open EG EG.Generated

/-- `SIN[i]` with `i: usize`: a negative index is a `usize` subtraction overflow, an index past the
table an out-of-bounds panic. -/
def sinEntry (i : Int) : Option Int :=
  if i < 0 then none else sinTable[i.toNat]?

/-- `let degree: i32 = (Real::from(180) * self.0 / real::PI).round().into();` -/
def degreeOf (a : Int) : Option Int := do
  let f ← fromI32 degFactor
  let p ← mul f a
  let q ← div p piBits
  let r ← round q
  pure (toI32 r)

/-- The quadrant chain of `sin` for `degree` already reduced to `0..360`. -/
def sinQuadrant (d : Int) : Option Int :=
  if d ≤ sinQ1 then sinEntry d
  else if d ≤ sinQ2 then sinEntry (sinM2 - d)
  else if d ≤ sinQ3 then (sinEntry (d - sinM3)).bind neg
  else (sinEntry (sinM4 - d)).bind neg

/-- `let degree = degree.rem_euclid(360) as usize;` and the quadrant chain. -/
def sinOfDegree (degree : Int) : Option Int := sinQuadrant (degree % degModulus)

/-- `Trigonometry::sin` (fixed_point) -/
def sin (a : Int) : Option Int := do
  let degree ← degreeOf a
  sinOfDegree degree

/-- `Trigonometry::cos` (fixed_point): `(self + angle_consts::ANGLE_90DEG).sin()` -/
def cos (a : Int) : Option Int := do
  let shifted ← add a fracPi2Bits
  sin shifted

/-- `Angle::abs` -/
def angleAbs (a : Int) : Option Int := abs a

/-- `Angle::normalize`: `Angle(self.0.rem_euclid((2.0 * PI).into()))` -/
def normalize (a : Int) : Option Int := remEuclid a normalizeModBits

/-- `PointExt::rotate_90` -/
def rotate90 (p : Pt) : Pt := ⟨-p.y, p.x⟩

/-- `OriginLinearEquation::with_angle(angle).normal_vector` -/
def withAngle (a : Int) : Option Pt :=
  if a = withAngleSpecialBits then
    some ⟨0, -trigNormalVectorScale⟩
  else do
    let c ← cos a
    let scaleX ← fromI32 trigNormalVectorScale
    let x ← mul c scaleX
    let s ← sin a
    let scaleY ← fromI32 trigNormalVectorScale
    let y ← mul s scaleY
    pure (rotate90 ⟨toI32 x, toI32 y⟩)

/-- `OriginLinearEquation::new_horizontal().normal_vector` -/
def newHorizontal : Pt := ⟨0, trigNormalVectorScale⟩

end EG.Fx
