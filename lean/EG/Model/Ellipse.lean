/-
  EG.Model.Ellipse — `primitives::Ellipse`, arm for arm.
  Source: src/primitives/ellipse/{mod.rs, points.rs, styled.rs} (as of the repaired tree:
  `Scanlines::next` skips rows without a hit with `rows.find_map`), `EllipseContains` is the shared
  model `EG.Model.EllipseContains`.

  Unbounded `Int`/`Nat`; saturating operations are modelled, plain `+ - *` are mathematical (the
  `u32` products of `EllipseContains` are C08's topic).
-/
import EG.Model.EllipseContains
import EG.Model.StyledScanline
import EG.Model.PrimStyle
namespace EG

structure Ellipse where
  tl : Pt      -- top_left
  size : Sz
  deriving DecidableEq, Repr, Inhabited

namespace Ellipse

/-- `ellipse::center_2x(top_left, size)`: `top_left * 2 + size.saturating_sub(Size::new(1, 1))` -/
def center2xOf (tl : Pt) (size : Sz) : Pt :=
  ⟨tl.x * 2 + ((size.w - 1 : Nat) : Int), tl.y * 2 + ((size.h - 1 : Nat) : Int)⟩

/-- `Dimensions::bounding_box` -/
def boundingBox (e : Ellipse) : Rect := ⟨e.tl, e.size⟩

/-- `Ellipse::with_center` -/
def withCenter (center : Pt) (size : Sz) : Ellipse := ⟨(Rect.withCenter center size).tl, size⟩

/-- `Ellipse::center` -/
def center (e : Ellipse) : Pt := e.boundingBox.center

def center2x (e : Ellipse) : Pt := center2xOf e.tl e.size

/-- `ContainsPoint::contains`: `EllipseContains::new(size).contains(point * 2 - center_2x)` -/
def contains (e : Ellipse) (p : Pt) : Bool :=
  (EllipseContains.new e.size).contains ((⟨p.x * 2, p.y * 2⟩ : Pt) - e.center2x)

/-- `OffsetOutline::offset` -/
def offset (e : Ellipse) (o : Int) : Ellipse :=
  if o ≥ 0 then
    -- growing moves the top left corner directly (a zero sized side has no centre pixel)
    ⟨e.tl - ⟨o, o⟩, e.size.satAdd (Sz.newEqual (2 * o.toNat))⟩
  else withCenter e.center (e.size.satSub (Sz.newEqual (2 * (-o).toNat)))

def translate (e : Ellipse) (by_ : Pt) : Ellipse := { e with tl := e.tl + by_ }

/-- `PrimitiveStyle::stroke_area(ellipse)` -/
def strokeArea (st : PrimStyle) (e : Ellipse) : Ellipse := e.offset st.strokeOffset
/-- `PrimitiveStyle::fill_area(ellipse)` (solid stroke) -/
def fillArea (st : PrimStyle) (e : Ellipse) : Ellipse := e.offset st.fillOffset

/-- `StyledDimensions::styled_bounding_box` -/
def styledBoundingBox (st : PrimStyle) (e : Ellipse) : Rect :=
  e.boundingBox.offset (satAsI32 st.outsideStrokeWidth)

/-! ### `ellipse::points::Scanlines` -/

structure ScanlinesIt where
  y : Int       -- rows.start
  yEnd : Int    -- rows.end
  xs : Int      -- columns.start
  xe : Int      -- columns.end
  center2x : Pt
  ec : EllipseContains
  deriving DecidableEq, Repr

/-- `Scanlines::new` -/
def scanlines (e : Ellipse) : ScanlinesIt :=
  let bb := e.boundingBox
  ⟨bb.tl.y, bb.rowsEnd, bb.tl.x, bb.columnsEnd, e.center2x, EllipseContains.new e.size⟩

/-- The closure of `find`: `ellipse_contains.contains(Point::new(x * 2 - center_2x.x, scaled_y))`
with `scaled_y = y * 2 - center_2x.y`. -/
def hit (center2x : Pt) (ec : EllipseContains) (y x : Int) : Bool :=
  ec.contains ⟨x * 2 - center2x.x, y * 2 - center2x.y⟩

/-- The closure of `find_map` for row `y`: `columns.clone().find(..).map(|x| Scanline::new(y,
x..columns.end - (x - columns.start)))`. -/
def ScanlinesIt.row (it : ScanlinesIt) (y : Int) : Option Scanline :=
  (mirroredRange (hit it.center2x it.ec y) it.xs it.xe).map (fun r => ⟨y, r.1, r.2⟩)

/-- `rows.find_map(..)`: consume rows until one yields a scanline. `fuel` bounds the rows left. -/
def ScanlinesIt.nextFuel : Nat → ScanlinesIt → Option Scanline × ScanlinesIt
  | 0, it => (none, it)
  | fuel + 1, it =>
    if it.y < it.yEnd then
      match it.row it.y with
      | some s => (some s, { it with y := it.y + 1 })
      | none => nextFuel fuel { it with y := it.y + 1 }
    else (none, it)

/-- `Iterator::next` -/
def ScanlinesIt.next (it : ScanlinesIt) : Option Scanline × ScanlinesIt :=
  it.nextFuel ((it.yEnd - it.y).toNat + 1)

def ScanlinesIt.toListFuel : Nat → ScanlinesIt → List Scanline
  | 0, _ => []
  | fuel + 1, it =>
    match it.next with
    | (some s, it') => s :: toListFuel fuel it'
    | (none, _) => []

/-- What a `for` loop over the scanlines sees. -/
def ScanlinesIt.toList (it : ScanlinesIt) : List Scanline :=
  it.toListFuel ((it.yEnd - it.y).toNat + 1)

/-! ### `ellipse::Points` -/

structure PointsIt where
  scanlines : ScanlinesIt
  current : Scanline
  deriving DecidableEq, Repr

/-- `Points::new` -/
def pointsIt (e : Ellipse) : PointsIt := ⟨e.scanlines, Scanline.newEmpty 0⟩

/-- `Iterator::next`: `current.next().or_else(|| { current = scanlines.next()?; current.next() })` -/
def PointsIt.next (it : PointsIt) : Option (Pt × PointsIt) :=
  match it.current.next with
  | some (p, cur') => some (p, { it with current := cur' })
  | none =>
    match it.scanlines.next with
    | (none, _) => none
    | (some s, sl') =>
      match s.next with
      | some (p, cur') => some (p, ⟨sl', cur'⟩)
      | none => none

def PointsIt.toListFuel : Nat → PointsIt → List Pt
  | 0, _ => []
  | fuel + 1, it =>
    match it.next with
    | some (p, it') => p :: toListFuel fuel it'
    | none => []

def PointsIt.budget (it : PointsIt) : Nat :=
  (it.current.xe - it.current.xs).toNat +
    (it.scanlines.yEnd - it.scanlines.y).toNat * (it.scanlines.xe - it.scanlines.xs).toNat

/-- What a `for` loop over `ellipse.points()` sees. -/
def points (e : Ellipse) : List Pt :=
  let it := e.pointsIt
  it.toListFuel (it.budget + 1)

/-! ### `ellipse::styled::StyledScanlines` (private to ellipse/styled.rs) -/

structure StyledScanlinesIt where
  scanlines : ScanlinesIt
  fillArea : EllipseContains
  deriving DecidableEq, Repr

/-- `StyledScanlines::new(stroke_area, fill_area)` -/
def styledScanlines (strokeArea fillArea : Ellipse) : StyledScanlinesIt :=
  ⟨strokeArea.scanlines, EllipseContains.new fillArea.size⟩

/-- The closure of `.map(|scanline| ..)`: the fill range is searched within the stroke scanline,
with the *stroke* area's `center_2x` and the fill area's `EllipseContains`. -/
def StyledScanlinesIt.style (it : StyledScanlinesIt) (s : Scanline) : StyledScanline :=
  StyledScanline.new s.y s.xs s.xe
    (mirroredRange (hit it.scanlines.center2x it.fillArea s.y) s.xs s.xe)

def StyledScanlinesIt.next (it : StyledScanlinesIt) : Option StyledScanline × StyledScanlinesIt :=
  match it.scanlines.next with
  | (some s, sl') => (some (it.style s), { it with scanlines := sl' })
  | (none, sl') => (none, { it with scanlines := sl' })

def StyledScanlinesIt.toListFuel : Nat → StyledScanlinesIt → List StyledScanline
  | 0, _ => []
  | fuel + 1, it =>
    match it.next with
    | (some s, it') => s :: toListFuel fuel it'
    | (none, _) => []

def StyledScanlinesIt.toList (it : StyledScanlinesIt) : List StyledScanline :=
  it.toListFuel ((it.scanlines.yEnd - it.scanlines.y).toNat + 1)

/-! ### `StyledDrawable::draw_styled` and `StyledPixels::pixels` -/

/-- The target calls of `ellipse.into_styled(style).draw(target)`. -/
def drawStyled (st : PrimStyle) (e : Ellipse) : List Call :=
  match st.effectiveStrokeColor, st.fillColor with
  | some sc, none =>
    drawLines sc none (styledScanlines (e.strokeArea st) (e.fillArea st)).toList
  | some sc, some fc =>
    drawLines sc (some fc) (styledScanlines (e.strokeArea st) (e.fillArea st)).toList
  | none, some fc => drawFillLines fc (e.fillArea st).scanlines.toList
  | none, none => []

/-- `ellipse.into_styled(style).pixels()` as an iterator state. -/
def styledPixelsIt (st : PrimStyle) (e : Ellipse) : StyledPixelsIt :=
  StyledPixelsIt.new (styledScanlines (e.strokeArea st) (e.fillArea st)).toList
    st.strokeColor st.fillColor

/-- What `draw_iter(styled.pixels())` receives. -/
def styledPixels (st : PrimStyle) (e : Ellipse) : Writes := (e.styledPixelsIt st).toList

end Ellipse
end EG
