/-
  EG.Model.Font — mono fonts: glyph mappings, glyph cells, `MonoTextStyle::draw_string`.
  Source: src/mono_font/mapping.rs        (`StrGlyphMapping::{chars, index}`)
          src/mono_font/mod.rs            (`MonoFont::glyph`, `DecorationDimensions::get_bounding_box`)
          src/mono_font/mono_text_style.rs (`line_elements`, `draw_string_binary`, `draw_decorations`,
                                           `baseline_offset`, `draw_string`, `draw_whitespace`)
          src/mono_font/draw_target.rs    (`MonoFontDrawTarget<Foreground | Background | Both>`)
          src/image/{mod,sub_image,image_raw}.rs only as far as `Image::new(&glyph, p).draw(..)` needs:
          `translated(p)`, `SubImage::draw` -> `ImageRaw::draw_sub_image` (the inside-the-image guard),
          colours of the cell in row-major order.

  Characters are code points (`Nat`); a text is a `List Nat` (DESIGN.md section 4). The atlas bitmap is
  a parameter `atlas : Pt → Bool` (`font.image.pixel(p) == Some(On)`): the theorems are about WHICH cell
  is copied WHERE, the correspondence feeds the real atlas bits.

  Not modelled: `as u32` / `as i32` truncations of glyph indices and cell coordinates (indices of the
  built-in fonts are < 2^8), `i32` overflow of `position.x += char_width` (C08's topic).
-/
import EG.Model.Target
import EG.Generated.FontTable
namespace EG
namespace Font

/-! ## `StrGlyphMapping` -/

/-- `<char as Step>::forward(c, 1)`: the next scalar value (skips the surrogate gap). -/
def nextScalar (c : Nat) : Nat := if c = 0xD7FF then 0xE000 else c + 1

/-- `RangeInclusive<char>::next` iterated: `start..=end`, stepping with `nextScalar`.
`fuel` bounds the number of items (`end + 1 - start` suffices). -/
def charRangeGo : Nat → Nat → Nat → List Nat
  | 0, _, _ => []
  | fuel + 1, cur, e =>
    if cur < e then cur :: charRangeGo fuel (nextScalar cur) e
    else if cur = e then [cur]
    else []

def charRange (s e : Nat) : List Nat := charRangeGo (e + 1 - s) s e

/-- `StrGlyphMapping::chars()` as the list a consumer sees: `from_fn` over the string —
`'\0'` takes the next two characters as an inclusive range (`chars.next()?` ends the whole iteration
on an incomplete range), any other character stands for itself — then `.flatten()`. -/
def expand : List Nat → List Nat
  | [] => []
  | 0 :: s :: e :: rest => charRange s e ++ expand rest
  | 0 :: _ => []
  | c :: rest => c :: expand rest

/-- `.enumerate().find(|(_, v)| c == *v).map(|(index, _)| index)` with the running counter explicit. -/
def findGo (c : Nat) : List Nat → Nat → Option Nat
  | [], _ => none
  | v :: vs, i => if c = v then some i else findGo c vs (i + 1)

structure StrMapping where
  data : List Nat
  replacement : Nat

/-- `<StrGlyphMapping as GlyphMapping>::index`. -/
def StrMapping.index (m : StrMapping) (c : Nat) : Nat :=
  match findGo c (expand m.data) 0 with
  | some i => i
  | none => m.replacement

/-- `StrGlyphMapping::contains`. -/
def StrMapping.contains (m : StrMapping) (c : Nat) : Bool := (expand m.data).any (fun v => v == c)

/-! ## `MonoFont` -/

/-- The data of a `MonoFont` that drawing depends on. `index` is `glyph_mapping.index` (a
`&dyn GlyphMapping`: any function `char -> usize`). `imgW`/`imgH` = `image.size()`. -/
structure MonoFont where
  imgW : Nat
  imgH : Nat
  cw : Nat
  ch : Nat
  spacing : Nat
  baseline : Nat
  ulOff : Nat
  ulH : Nat
  stOff : Nat
  stH : Nat
  index : Nat → Nat

/-- `MonoFont::glyph`: the sub-image area of the glyph of `c` (`Rectangle::zero()` when the
character width is 0 or the image is narrower than one character). -/
def MonoFont.glyphAreaOfIndex (f : MonoFont) (gi : Nat) : Rect :=
  if f.cw = 0 ∨ f.imgW < f.cw then Rect.zero
  else
    let glyphsPerRow := f.imgW / f.cw
    let row := gi / glyphsPerRow
    let charX := (gi - row * glyphsPerRow) * f.cw
    let charY := row * f.ch
    ⟨⟨(charX : Int), (charY : Int)⟩, ⟨f.cw, f.ch⟩⟩

def MonoFont.glyphArea (f : MonoFont) (c : Nat) : Rect := f.glyphAreaOfIndex (f.index c)

/-- The guard of `ImageRaw::draw_sub_image`: nothing is drawn unless the area is non-empty and
completely inside the image. -/
def MonoFont.areaDrawable (f : MonoFont) (a : Rect) : Bool :=
  !(a.isZeroSized || decide (a.tl.x < 0) || decide (a.tl.y < 0)
    || decide (a.tl.x.toNat + a.size.w > f.imgW) || decide (a.tl.y.toNat + a.size.h > f.imgH))

/-- Colours `ContiguousPixels` yields for a sub-image area: the atlas pixels of the area, row-major,
exactly `w*h` of them (`EG.C14.glyph_stream` / `builtin_glyph_stream` derive this from the C09 image model; the
harness demands exactly `w*h` colours in the glyph's `fill_contiguous` call). -/
def cellBits (atlas : Pt → Bool) (a : Rect) : List Bool :=
  (List.range a.size.h).flatMap (fun (r : Nat) =>
    (List.range a.size.w).map (fun (c : Nat) => atlas ⟨a.tl.x + (c : Int), a.tl.y + (r : Int)⟩))

/-! ## Calls on the `BinaryColor` target (`MonoFontDrawTarget`) and the three colour variants -/

inductive BCall where
  | fillContiguous (area : Rect) (bits : List Bool)
  | fillSolid (area : Rect) (on : Bool)
  deriving Repr, DecidableEq

/-- `Foreground(c)`, `Background(c)`, `Both(text, background)`. -/
inductive Mode where
  | fg (tc : Color)
  | bg (bc : Color)
  | both (tc bc : Color)
  deriving Repr, DecidableEq

/-- What one call on the `MonoFontDrawTarget` does to the parent target. -/
def Mode.lower : Mode → BCall → List Call
  | .fg tc, .fillContiguous area bits =>
    [Call.drawIter (((area.points.zip bits).filter (fun pb => pb.2)).map (fun pb => (pb.1, tc)))]
  | .fg tc, .fillSolid area true => [Call.fillSolid area tc]
  | .fg _, .fillSolid _ false => []
  | .bg bc, .fillContiguous area bits =>
    [Call.drawIter (((area.points.zip bits).filter (fun pb => !pb.2)).map (fun pb => (pb.1, bc)))]
  | .bg _, .fillSolid _ true => []
  | .bg bc, .fillSolid area false => [Call.fillSolid area bc]
  | .both tc bc, .fillContiguous area bits =>
    [Call.fillContiguous area (bits.map (fun b => if b then tc else bc))]
  | .both tc bc, .fillSolid area on => [Call.fillSolid area (if on then tc else bc)]

/-- `Image::new(&self.font.glyph(c), p).draw(&mut target)`: `SubImage::draw` ->
`draw_sub_image(target.translated(p), area)` -> (guard) ->
`fill_contiguous(Rectangle::new(zero, area.size).translate(p), cell colours)`. -/
def MonoFont.glyphCalls (f : MonoFont) (atlas : Pt → Bool) (c : Nat) (p : Pt) : List BCall :=
  let a := f.glyphArea c
  if f.areaDrawable a then [BCall.fillContiguous ⟨p, a.size⟩ (cellBits atlas a)] else []

/-! ## `line_elements` -/

inductive Elem where
  | char (c : Nat)
  | spacing
  | done
  deriving Repr, DecidableEq

/-- State of the `from_fn` closure: `position`, `next_char` + the rest of `chars` (as one list),
`add_spacing`. -/
structure LineIt where
  pos : Pt
  rest : List Nat
  addSpacing : Bool
  deriving Repr, DecidableEq

/-- One call of the closure (it never returns `None`: after the text it keeps yielding `Done`). -/
def LineIt.next (f : MonoFont) (s : LineIt) : (Pt × Elem) × LineIt :=
  if s.addSpacing then
    ((s.pos, .spacing), { s with pos := ⟨s.pos.x + (f.spacing : Int), s.pos.y⟩, addSpacing := false })
  else
    match s.rest with
    | c :: cs =>
      ((s.pos, .char c), { pos := ⟨s.pos.x + (f.cw : Int), s.pos.y⟩, rest := cs, addSpacing := !cs.isEmpty })
    | [] => ((s.pos, .done), s)

def lineIt (pos : Pt) (text : List Nat) : LineIt := ⟨pos, text, false⟩

/-- The items a `for` loop that returns at `Done` sees (including the `Done` item). -/
def LineIt.toListFuel (f : MonoFont) : Nat → LineIt → List (Pt × Elem)
  | 0, _ => []
  | fuel + 1, s =>
    match s.next f with
    | ((p, .done), _) => [(p, .done)]
    | (item, s') => item :: toListFuel f fuel s'

def lineElements (f : MonoFont) (pos : Pt) (text : List Nat) : List (Pt × Elem) :=
  (lineIt pos text).toListFuel f (2 * text.length + 1)

/-! ## `draw_string_binary` -/

/-- What one line element does on the binary target (`hasBg` = `background_color.is_some()`). -/
def MonoFont.elemCalls (f : MonoFont) (atlas : Pt → Bool) (hasBg : Bool) : Pt × Elem → List BCall
  | (p, .char c) => f.glyphCalls atlas c p
  | (p, .spacing) =>
    if f.spacing > 0 ∧ hasBg then [BCall.fillSolid ⟨p, ⟨f.spacing, f.ch⟩⟩ false] else []
  | (_, .done) => []

/-- `draw_string_binary`: the calls on the binary target and the returned position (the `Done`
item's position; `position` itself if the loop ended without `Done`, which cannot happen). -/
def MonoFont.drawStringBinary (f : MonoFont) (atlas : Pt → Bool) (hasBg : Bool) (text : List Nat)
    (pos : Pt) : List BCall × Pt :=
  let es := lineElements f pos text
  (es.flatMap (f.elemCalls atlas hasBg),
   match es.find? (fun e => e.2 == Elem.done) with
   | some (p, _) => p
   | none => pos)

/-! ## Styles, decorations, `draw_string`, `draw_whitespace` -/

inductive DecoColor where
  | none
  | textColor
  | custom (c : Color)
  deriving Repr, DecidableEq

def DecoColor.effective : DecoColor → Option Color → Option Color
  | .none, _ => Option.none
  | .textColor, tc => tc
  | .custom c, _ => some c

structure Style where
  textColor : Option Color
  bgColor : Option Color
  underline : DecoColor
  strikethrough : DecoColor
  deriving Repr, DecidableEq

inductive Baseline where
  | top | bottom | middle | alphabetic
  deriving Repr, DecidableEq

def MonoFont.baselineOffset (f : MonoFont) : Baseline → Int
  | .top => 0
  | .bottom => satAsI32 (f.ch - 1)
  | .middle => satAsI32 ((f.ch - 1) / 2)
  | .alphabetic => satAsI32 f.baseline

/-- `DecorationDimensions::get_bounding_box`. -/
def decoRect (off h : Nat) (pos : Pt) (width : Nat) : Rect :=
  ⟨⟨pos.x, pos.y + (off : Int)⟩, ⟨width, h⟩⟩

/-- `draw_decorations`: strikethrough first, then underline. -/
def MonoFont.drawDecorations (f : MonoFont) (st : Style) (width : Nat) (pos : Pt) : List Call :=
  (match st.strikethrough.effective st.textColor with
   | some c => [Call.fillSolid (decoRect f.stOff f.stH pos width) c]
   | none => [])
  ++
  (match st.underline.effective st.textColor with
   | some c => [Call.fillSolid (decoRect f.ulOff f.ulH pos width) c]
   | none => [])

/-- `<MonoTextStyle as TextRenderer>::draw_string`: calls on the target and the returned position. -/
def MonoFont.drawString (f : MonoFont) (atlas : Pt → Bool) (st : Style) (text : List Nat) (position : Pt)
    (bl : Baseline) : List Call × Pt :=
  let pos : Pt := ⟨position.x, position.y - f.baselineOffset bl⟩
  let (calls, next) : List Call × Pt :=
    match st.textColor, st.bgColor with
    | some tc, some bc =>
      let r := f.drawStringBinary atlas true text pos
      (r.1.flatMap (Mode.both tc bc).lower, r.2)
    | some tc, none =>
      let r := f.drawStringBinary atlas false text pos
      (r.1.flatMap (Mode.fg tc).lower, r.2)
    | none, some bc =>
      let r := f.drawStringBinary atlas true text pos
      (r.1.flatMap (Mode.bg bc).lower, r.2)
    | none, none => ([], ⟨pos.x + (((f.cw + f.spacing) * text.length : Nat) : Int), pos.y⟩)
  let deco := if next.x > pos.x then f.drawDecorations st (next.x - pos.x).toNat pos else []
  (calls ++ deco, ⟨next.x, next.y + f.baselineOffset bl⟩)

/-- `<MonoTextStyle as TextRenderer>::draw_whitespace`. -/
def MonoFont.drawWhitespace (f : MonoFont) (st : Style) (width : Nat) (position : Pt) (bl : Baseline) :
    List Call × Pt :=
  let pos : Pt := ⟨position.x, position.y - f.baselineOffset bl⟩
  let calls :=
    if width ≠ 0 then
      (match st.bgColor with
       | some bc => [Call.fillSolid ⟨pos, ⟨width, f.ch⟩⟩ bc]
       | none => [])
      ++ f.drawDecorations st width pos
    else []
  (calls, ⟨pos.x + satAsI32 width, pos.y + f.baselineOffset bl⟩)

/-! ## Built-in fonts: the generated table as model fonts -/

def mappingOfRec (m : Generated.MappingRec) : StrMapping := ⟨m.data, m.replacement⟩

/-- The `mid`-th mapping of `impl_mapping!` (an empty mapping for an id outside the table). -/
def builtinMapping (mid : Nat) : StrMapping :=
  match Generated.mappingTable[mid]? with
  | some m => mappingOfRec m
  | none => ⟨[], 0⟩

def fontOfRec (r : Generated.FontRec) : MonoFont :=
  { imgW := r.imgW, imgH := r.imgH, cw := r.cw, ch := r.ch, spacing := r.spacing, baseline := r.baseline,
    ulOff := r.ulOff, ulH := r.ulH, stOff := r.stOff, stH := r.stH,
    index := (builtinMapping r.mapping).index }

end Font
end EG
