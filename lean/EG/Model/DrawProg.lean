/-
  EG.Model.DrawProg — the `?`-propagation skeleton of a draw path (C04).

  What is modelled. A fault-free `draw` is a fixed sequence of target calls (a drawable cannot
  observe its target except through the `Result` of each call, Rust generics being parametric in
  the target). Each of these calls is made at a *call site* of the library's source, reached
  through a stack of enclosing call sites (`Styled::draw` -> `draw_styled` -> `draw_stroke` ->
  `Scanline::draw` -> `fill_solid`; adapters and the trait's default methods are call sites like any
  other). `Generated/DrawSites.lean` lists every call site of every function that returns the
  target's error, with the translator's classification of what the site does with the `Result`.
  An `Event` is one dynamic target call: the stack of sites it is made through, and the call.

  What is NOT modelled. Loops, branches and the data that decides them are abstracted away: a draw
  path is *any* finite sequence of events over the sites of the table (`prefix_law_sites` quantifies
  over all of them, so in particular over the real ones). The meaning of a classification is not
  derived from Rust's semantics here: `runFaultyFrom` *defines* that an error stops the run at once
  iff every site on the failing call's stack is classified as propagating (`q`, `tail`, `ret`,
  `bound_q`, `match_ret`, `tryclosure` — see tools/tr_drawsites.py for the syntactic conditions and
  tools/tests/drawsites_cases*.rs for the forms that were validated against a fault-injecting
  target). That the real `draw` behaves like this interpreter is what the fault enumeration on the
  real code (harness module `faults`) checks; it is not proved.
-/
import EG.Model.Target
import EG.Generated.DrawSites
namespace EG
open EG.Generated

structure Step where
  call : Call
  /-- does an `Err` of this call reach `draw`'s return at once (every call site on the stack hands
  it to its caller without evaluating anything else)? -/
  propagated : Bool
  deriving Repr

/-- The fault-free run: every call is made and succeeds. -/
def runClean (p : List Step) : List Call := p.map (·.call)

/-- Outcome of a run: the calls that were *attempted* (including a failing one), the calls that
succeeded (the target's log), and the error `draw` returns (if any). -/
structure Outcome where
  attempted : Nat
  log : List Call
  result : Option Nat
  deriving Repr

/-- Run with the `k`-th call (counting attempted calls from `i`) failing with error value `k`.
BY DEFINITION a propagated error ends the run at once and a non-propagated error lets the run
continue (and is lost). -/
def runFaultyFrom (k : Nat) : Nat → List Step → Outcome
  | _, [] => ⟨0, [], none⟩
  | i, s :: rest =>
    if i = k then
      if s.propagated then ⟨1, [], some k⟩
      else
        let o := runFaultyFrom k (i + 1) rest
        ⟨o.attempted + 1, o.log, o.result⟩
    else
      let o := runFaultyFrom k (i + 1) rest
      ⟨o.attempted + 1, s.call :: o.log, o.result⟩

def runFaulty (k : Nat) (p : List Step) : Outcome := runFaultyFrom k 0 p

/-- Which classifications of the translator mean "an `Err` of this call is returned unchanged by
the enclosing function, at once". `discarded` (a form known to drop, defer or replace the error)
and `unknown` (a form the scan does not understand) do not. -/
def Generated.SiteKind.propagates : SiteKind → Bool
  | .q | .tail | .ret | .boundQ | .matchRet | .tryClosure => true
  | .discarded | .unknown => false

/-- One dynamic target call: the call sites on the stack when it is made (outermost first; the
last one is the site of the target method call itself) and the call. -/
structure Event where
  stack : List DrawSite
  call : Call
  deriving Repr

/-- The step of an event: its error reaches `draw`'s return at once iff the call was made at a
site (non-empty stack) and every site on the stack is classified as propagating — the flags come
from the generated table, not from the caller. -/
def Event.step (e : Event) : Step :=
  ⟨e.call, !e.stack.isEmpty && e.stack.all (·.kind.propagates)⟩

/-- The step list of a draw path, built FROM the generated classifications. -/
def stepsOf (es : List Event) : List Step := es.map Event.step

end EG
