/-
  EG.Model.DrawProg — the `?`-propagation skeleton of a draw path (C04).

  A drawable cannot observe its target except through the `Result` of each call (Rust generics
  are parametric in the target), so a fault-free `draw` is a fixed sequence of target calls. Each
  call site either propagates an error (`?`, tail position, `return`, `try_for_each`) or discards
  it. `runFaulty k` is the run in which the k-th call on the target fails with error value `k`.
-/
import EG.Model.Target
namespace EG

structure Step where
  call : Call
  /-- does the call site hand an `Err` to its caller (all the way up to `draw`'s return)? -/
  propagated : Bool
  deriving Repr

/-- The fault-free run: every call is made and succeeds. -/
def runClean (p : List Step) : List Call := p.map (·.call)

/-- Outcome of a run: the calls that were *attempted* (including a failing one), the calls that
succeeded (the target's log), and the error `draw` returns (if any). -/
structure Outcome where
  attempted : Nat
  log : List Call
  result : Option Nat
  deriving Repr

/-- Run with the `k`-th call (counting attempted calls from `i`) failing with error value `k`.
A propagated error ends the run at once; a discarded error lets the run continue. -/
def runFaultyFrom (k : Nat) : Nat → List Step → Outcome
  | _, [] => ⟨0, [], none⟩
  | i, s :: rest =>
    if i = k then
      if s.propagated then ⟨1, [], some k⟩
      else
        let o := runFaultyFrom k (i + 1) rest
        ⟨o.attempted + 1, o.log, o.result⟩
    else
      let o := runFaultyFrom k (i + 1) rest
      ⟨o.attempted + 1, s.call :: o.log, o.result⟩

def runFaulty (k : Nat) (p : List Step) : Outcome := runFaultyFrom k 0 p

end EG
