/-
  EG.Model.LinearEquation — `common::LinearEquation` (the integer part), arm for arm.
  Source: src/primitives/common/linear_equation.rs (`LinearEquation::from_line`, `distance`,
          `check_side`), src/geometry/mod.rs (`PointExt::rotate_90`, `dot_product`, `determinant`).
  Out of scope: `with_angle_and_distance`, `OriginLinearEquation::with_angle` (f32 / fixed-point
  trigonometry; the sector model takes the resulting normal vectors through a hook).
  `Int` for `i32`; plain `+ - *` are mathematical (overflow is C08's topic).
  Everything of the joins topic lives in the namespace `EG.Joins`.
-/
import EG.Model.ThickLine
namespace EG
namespace Joins

open Thick (LineSide StrokeOffset)

/-- `PointExt::rotate_90`. -/
def rotate90 (p : Pt) : Pt := ⟨-p.y, p.x⟩

/-- `PointExt::dot_product`. -/
def dot (a b : Pt) : Int := a.x * b.x + a.y * b.y

/-- `PointExt::determinant`. -/
def det (a b : Pt) : Int := a.x * b.y - a.y * b.x

/-- `LinearEquation { normal_vector, origin_distance }`. -/
structure LinearEquation where
  normalVector : Pt
  originDistance : Int
  deriving DecidableEq, Repr

namespace LinearEquation

/-- `LinearEquation::from_line`. -/
def fromLine (l : Line) : LinearEquation :=
  let normalVector := rotate90 l.delta
  let originDistance := dot l.start normalVector
  { normalVector, originDistance }

/-- `LinearEquation::distance`. -/
def distance (le : LinearEquation) (p : Pt) : Int := dot p le.normalVector - le.originDistance

/-- `LinearEquation::check_side`. -/
def checkSide (le : LinearEquation) (p : Pt) (side : LineSide) : Bool :=
  let distance := le.distance p
  match side with
  | .left => decide (distance ≤ 0)
  | .right => decide (distance ≥ 0)

end LinearEquation

end Joins
end EG
