/-
  EG.Model.StyledSector — `Styled<Sector, PrimitiveStyle<C>>`, arm for arm.
  Source: src/primitives/sector/styled.rs (`StyledPixelsIterator::new`, `Iterator::next`,
  `BevelKind`, `draw_styled`, `pixels`, `styled_bounding_box`),
  src/primitives/common/plane_sector.rs (`PlaneSector::point_type`),
  src/primitives/common/linear_equation.rs (`NORMAL_VECTOR_SCALE`, `LinearEquation::check_side`,
  through `EG.Model.LinearEquation`), src/primitives/common/mod.rs (`PointType`),
  src/primitives/primitive_style.rs (`stroke_area` / `fill_area`, through `EG.Model.Style`).

  What the code does (there is NO `LineJoin` / `ThickSegment` in this file; the radial lines are
  half-plane distance bands):
    * the bounding box of the stroke area's circle (`sector.offset(outside_stroke_width)`) is
      iterated; points with `distance >= outer_threshold` (outside that circle) are skipped;
    * `PlaneSector::point_type(delta, inside, outside)` classifies `delta = 2 p - center_2x` with
      the two signed half-plane distances: outside the sector widened by `outside` -> skipped,
      inside the sector narrowed by `inside` -> `Fill`, in between (the two radial stroke bands) ->
      `Stroke`; `inside = inside_stroke_width * 2048 - 1024`, `outside = outside_stroke_width * 2048
      + 1024` (`delta` is in half pixels and the normals have length 1024, so 2048 = one pixel; the
      `∓ 1024` moves both borders out by half a pixel). For `Union` (|sweep| >= 180°) the two tests
      are OR-ed, for `EntirePlane` (|sweep| >= 360°) everything is `Fill`: no radial lines;
    * the join of the two radial lines at the centre is cut by a BEVEL line for narrow sectors
      (`|sweep| < 55°`: exterior bevel, stroke points on its left side are skipped) and for
      nearly full ones (`305° < |sweep| < 360°`: interior bevel, stroke points on its left side
      become `Fill`). The bevel line is `LinearEquation::with_angle_and_distance(start + sweep / 2
      ∓ 90°, -outside_stroke_width * 1024 * 4)`;
    * a `Fill` point with `distance >= inner_threshold` (outside the fill area's circle) becomes
      `Stroke`: the circular part of the stroke;
    * `Stroke` takes `style.stroke_color`, `Fill` takes `style.fill_color` (NOT the effective stroke
      colour); a point whose colour is `None` is skipped;
    * a transparent style iterates `DistanceIterator::empty()`; `draw_styled` is literally
      `target.draw_iter(StyledPixelsIterator::new(..))`.

  Special sweeps, as the code has them:
    * `|sweep| >= 360°`: `EntirePlane`, every point of the circle is `Fill`, no bevel (the interior
      bevel needs `|sweep| < 360°`): the picture is the styled circle;
    * `180° <= |sweep| < 360°`: `Union` of the two half planes, both for the sector and for the
      two threshold tests of `point_type`;
    * zero / unresolvably small sweeps (both normals equal): `point_type` has NO bisector test
      (unlike the repaired `PlaneSector::contains` used by `Sector::points()` / `contains()`), so
      the band `|distance| <= threshold` is a strip along the whole LINE through the centre. The
      exterior bevel removes the `Stroke` points more than `2 * outside_stroke_width` pixels behind
      the centre, but `Fill` points are not bevelled: with stroke width 0 (or a fill-only style) a
      sector of sweep 0 paints the full diameter, opposite ray included, while its `points()` are
      the ray only. Modelled as it is (witness: `sector.ssector 0 0 13 0 0 .. 7 - 0 1 ..`); none of
      C01 / C02 / C07 is affected.

  Trigonometry is not modelled. Two values enter from the real code (op line of the correspondence):
    * the `PlaneSector` (operation tag + two integer normals; hook `verif_hooks::plane_sector`) —
      `stroke_area` keeps the angles of the primitive, so it is the primitive's plane sector;
    * the bevel: its kind (decided by `Angle` comparisons) and the normal vector of its line
      (`OriginLinearEquation::with_angle(..)`): `SectorBevel`, read from the real iterator through
      the hook `StyledPixelsIterator::verif_bevel`. The origin distance of the line is integer code
      and is computed here (and compared with what the hook reports).

  Unbounded `Int`/`Nat`; saturating width conversions are modelled; `+ - *` are mathematical.
-/
import EG.Model.StyledArc
import EG.Model.LinearEquation
namespace EG

/-- `common::PointType` (the triangle model has its own copy, `EG.PointType`) -/
inductive SecPointType | stroke | fill
  deriving DecidableEq, Repr, Inhabited

/-- `NORMAL_VECTOR_SCALE = 1 << 10` -/
def normalVectorScale : Int := 1024

/-- `PlaneSector::point_type(point, inside_threshold, outside_threshold)` -/
def PlaneSector.pointType (ps : PlaneSector) (p : Pt) (insideThreshold outsideThreshold : Int) :
    Option SecPointType :=
  let distanceRight := PlaneSector.distance ps.right p
  let distanceLeft := PlaneSector.distance ps.left p
  if ps.op.execute (decide (distanceRight ≥ -outsideThreshold)) (decide (distanceLeft ≤ outsideThreshold)) then
    if ps.op.execute (decide (distanceRight ≥ insideThreshold)) (decide (distanceLeft ≤ -insideThreshold)) then
      some .fill
    else
      some .stroke
  else
    none

/-- `sector::styled::BevelKind` -/
inductive BevelKind | interior | exterior
  deriving DecidableEq, Repr, Inhabited

/-- The trigonometric part of the `bevel` field of the iterator, as the real code computed it:
`none` when neither `exterior_bevel` nor `interior_bevel` holds, else the kind and
`OriginLinearEquation::with_angle(half_sweep ± 90°).normal_vector`. -/
abbrev SectorBevel := Option (BevelKind × Pt)

namespace Sector

/-- `PrimitiveStyle::stroke_area(sector)` -/
def strokeArea (st : Style) (s : Sector) : Sector := s.offset st.strokeOffset
/-- `PrimitiveStyle::fill_area(sector)` (solid stroke) -/
def fillArea (st : Style) (s : Sector) : Sector := s.offset st.fillOffset

/-- `sector::styled::StyledPixelsIterator<C>` -/
structure StyledPixelsIt where
  iter : DistIt
  planeSector : PlaneSector
  outerThreshold : Nat
  innerThreshold : Nat
  strokeThresholdInside : Int
  strokeThresholdOutside : Int
  bevel : Option (BevelKind × Joins.LinearEquation)
  strokeColor : Option Color
  fillColor : Option Color
  deriving DecidableEq, Repr

/-- `StyledPixelsIterator::new(primitive, style)`; `bevel` = the kind and the normal vector that
the trigonometric part of `new` produced. -/
def styledPixelsIt (st : Style) (s : Sector) (bevel : SectorBevel) : StyledPixelsIt :=
  let strokeArea := s.strokeArea st
  let fillArea := s.fillArea st
  let strokeAreaCircle := strokeArea.toCircle
  let iter := if !st.isTransparent then strokeAreaCircle.distances else DistIt.empty
  let outerThreshold := strokeAreaCircle.threshold
  let innerThreshold := fillArea.toCircle.threshold
  let insideStrokeWidth : Int := satAsI32 st.insideStrokeWidth
  let outsideStrokeWidth : Int := satAsI32 st.outsideStrokeWidth
  let strokeThresholdInside := insideStrokeWidth * normalVectorScale * 2 - normalVectorScale
  let strokeThresholdOutside := outsideStrokeWidth * normalVectorScale * 2 + normalVectorScale
  let threshold := -outsideStrokeWidth * normalVectorScale * 4
  { iter := iter
    planeSector := strokeArea.ps
    outerThreshold := outerThreshold
    innerThreshold := innerThreshold
    strokeThresholdInside := strokeThresholdInside
    strokeThresholdOutside := strokeThresholdOutside
    bevel := bevel.map (fun (kind, normal) => (kind, ⟨normal, threshold⟩))
    strokeColor := st.stroke
    fillColor := st.fill }

/-- Outcome of the "Bevel the line join" block for a point of type `Stroke`:
`none` = `continue`, `some t` = the (possibly changed) point type. -/
def StyledPixelsIt.bevelStroke (it : StyledPixelsIt) (delta : Pt) : Option SecPointType :=
  match it.bevel with
  | some (kind, equation) =>
    if equation.checkSide delta .left then
      match kind with
      | .interior => some .fill
      | .exterior => none
    else some .stroke
  | none => some .stroke

/-- The body of the `loop` of `next` after `find` returned `(point, delta, distance)`:
`none` = `continue` (no pixel for this point), `some (point, color)` = `return Some(Pixel(..))`. -/
def StyledPixelsIt.pixel (it : StyledPixelsIt) (x : DistItem) : Option (Pt × Color) :=
  let point := x.1
  let delta := x.2.1
  let distance := x.2.2
  -- Check if point is inside the radial stroke lines or the fill.
  match it.planeSector.pointType delta it.strokeThresholdInside it.strokeThresholdOutside with
  | none => none
  | some pointType =>
    -- Bevel the line join.
    match (if pointType = .stroke then it.bevelStroke delta else some pointType) with
    | none => none
    | some pointType =>
      -- Add the outer circular stroke.
      let pointType :=
        if pointType = .fill ∧ distance ≥ it.innerThreshold then SecPointType.stroke else pointType
      let color := match pointType with
        | .stroke => it.strokeColor
        | .fill => it.fillColor
      match color with
      | some color => some (point, color)
      | none => none

/-- The closure of `find` in `next`: `*distance < outer_threshold`. -/
def StyledPixelsIt.inOuter (it : StyledPixelsIt) (x : DistItem) : Bool :=
  decide (x.2.2 < it.outerThreshold)

/-- `Iterator::next`: the `loop`, bounded by explicit fuel (every round consumes at least one item
of the distance iterator). -/
def StyledPixelsIt.nextFuel : Nat → StyledPixelsIt → Option ((Pt × Color) × StyledPixelsIt)
  | 0, _ => none
  | fuel + 1, it =>
    match it.iter.find it.inOuter with
    | none => none
    | some (x, iter') =>
      let it' := { it with iter := iter' }
      match it.pixel x with
      | some w => some (w, it')
      | none => nextFuel fuel it'

def StyledPixelsIt.next (it : StyledPixelsIt) : Option ((Pt × Color) × StyledPixelsIt) :=
  it.nextFuel it.iter.points.budget

def StyledPixelsIt.toListFuel : Nat → StyledPixelsIt → Writes
  | 0, _ => []
  | fuel + 1, it =>
    match it.next with
    | some (w, it') => w :: toListFuel fuel it'
    | none => []

/-- What a `for` loop over `sector.into_styled(style).pixels()` sees. -/
def styledPixels (st : Style) (s : Sector) (bevel : SectorBevel) : Writes :=
  let it := s.styledPixelsIt st bevel
  it.toListFuel (it.iter.points.budget + 1)

/-- `StyledDrawable::draw_styled`: `target.draw_iter(StyledPixelsIterator::new(self, style))`. -/
def drawStyled (st : Style) (s : Sector) (bevel : SectorBevel) : List Call :=
  [Call.drawIter (s.styledPixels st bevel)]

/-- `StyledDimensions::styled_bounding_box`:
`self.bounding_box().offset(style.outside_stroke_width().saturating_as())` (FIXME #405: the angles
are not taken into account). -/
def styledBoundingBox (st : Style) (s : Sector) : Rect := s.boundingBox.offset st.strokeOffset

end Sector
end EG
