/-
  EG.Model.Checked — the CHECKED form of the arithmetic kernels (property C08).

  Every kernel of the plain models (`EG.Model.Rect`, `Circle`, `EllipseContains`, ...) computes over
  unbounded `Int`/`Nat`. Here the same computations are written once more with every intermediate
  operation performed in the integer type the Rust code uses NOW (`i32`, `u32`, `i64`, `u64`,
  `usize` = `u64`), returning `none` exactly where a build with `overflow-checks` and
  `debug-assertions` panics: overflow of `+ - * pow`, unary minus of `MIN`, unsigned subtraction
  below zero, division by zero, a failing `debug_assert!`. Operations that cannot panic
  (`saturating_*`, `as` casts, `min`/`max`, `unsigned_abs`, division by a non-zero literal) are
  written as in the plain model.

  The range theorems (`EG/Lemmas/Checked*.lean`, `EG/Props/C08*.lean`) state: on display-scale
  inputs the checked kernel returns `some` of the plain kernel.

  This file: the tiny DSL and `Rectangle` / `Point (+|-) Size`
  (core/src/primitives/rectangle/mod.rs, core/src/geometry/{point,size}.rs).
  Import-free apart from the plain models (the driver links it).
-/
import EG.Model.Rect
namespace EG.Chk
open EG

/-! ## The DSL: a value is kept only if it is representable in the type of the operation -/

/-- result of an `i32` operation -/
def chkI32 (a : Int) : Option Int := if -2147483648 ≤ a ∧ a ≤ 2147483647 then some a else none
/-- result of an `i64` operation -/
def chkI64 (a : Int) : Option Int :=
  if -9223372036854775808 ≤ a ∧ a ≤ 9223372036854775807 then some a else none
/-- result of a `u32` operation whose mathematical value is a natural number (`+`, `*`, `pow`) -/
def chkU32 (a : Nat) : Option Nat := if a ≤ 4294967295 then some a else none
/-- result of a `u64` / `usize` operation (`+`, `*`, `pow`) -/
def chkU64 (a : Nat) : Option Nat := if a ≤ 18446744073709551615 then some a else none
/-- `usize` is 64 bit on the harness platform. -/
def chkUsize (a : Nat) : Option Nat := chkU64 a
/-- unsigned `a - b` (`u32`, `u64`, `usize`): panics below zero -/
def subU (a b : Nat) : Option Nat := if b ≤ a then some (a - b) else none
/-- unsigned `a / b`: panics for `b = 0` -/
def divU (a b : Nat) : Option Nat := if b = 0 then none else some (a / b)
/-- `debug_assert!(c)` -/
def assert (c : Prop) [Decidable c] : Option Unit := if c then some () else none

/-- `u32 as i32` (wrapping cast, never panics); the argument is a `u32`. -/
def u32AsI32 (n : Nat) : Int := if n ≤ 2147483647 then (n : Int) else (n : Int) - 4294967296
/-- `i32 as u32` (wrapping cast, never panics). -/
def i32AsU32 (a : Int) : Nat := if 0 ≤ a then a.toNat else (a + 4294967296).toNat

def inU32 (n : Nat) : Prop := n ≤ 4294967295
instance (n : Nat) : Decidable (inU32 n) := by unfold inU32; exact inferInstance

/-! ## `Point` / `Size` operators -/

/-- `Point + Point` -/
def ptAdd (a b : Pt) : Option Pt := do
  let x ← chkI32 (a.x + b.x)
  let y ← chkI32 (a.y + b.y)
  pure ⟨x, y⟩

/-- `Point - Point` -/
def ptSub (a b : Pt) : Option Pt := do
  let x ← chkI32 (a.x - b.x)
  let y ← chkI32 (a.y - b.y)
  pure ⟨x, y⟩

/-- `Point * i32` -/
def ptMul (a : Pt) (k : Int) : Option Pt := do
  let x ← chkI32 (a.x * k)
  let y ← chkI32 (a.y * k)
  pure ⟨x, y⟩

/-- `Point + Size`: `width as i32`, `debug_assert!(width >= 0)`, `self.x + width`. -/
def ptAddSize (p : Pt) (s : Sz) : Option Pt := do
  let width := u32AsI32 s.w
  let height := u32AsI32 s.h
  assert (width ≥ 0)
  assert (height ≥ 0)
  let x ← chkI32 (p.x + width)
  let y ← chkI32 (p.y + height)
  pure ⟨x, y⟩

/-- `Point - Size` (`sub_size`): the same casts and assertions, `self.x - width`. -/
def ptSubSize (p : Pt) (s : Sz) : Option Pt := do
  let width := u32AsI32 s.w
  let height := u32AsI32 s.h
  assert (width ≥ 0)
  assert (height ≥ 0)
  let x ← chkI32 (p.x - width)
  let y ← chkI32 (p.y - height)
  pure ⟨x, y⟩

/-! ## `Rectangle` -/

/-- `Rectangle::with_corners`: `Size::from_bounding_box` subtracts in `i32`; `unsigned_abs() + 1`
fits `u32` for every `i32` difference. -/
def withCorners (c1 c2 : Pt) : Option Rect := do
  let dx ← chkI32 (c1.x - c2.x)
  let dy ← chkI32 (c1.y - c2.y)
  let w ← chkU32 (dx.natAbs + 1)
  let h ← chkU32 (dy.natAbs + 1)
  pure ⟨⟨min c1.x c2.x, min c1.y c2.y⟩, ⟨w, h⟩⟩

/-- `Rectangle::with_center`: `center.sub_size(center_offset(size))`. -/
def withCenter (c : Pt) (s : Sz) : Option Rect := do
  let tl ← ptSubSize c (Rect.centerOffset s)
  pure ⟨tl, s⟩

/-- `Rectangle::center`: `top_left + center_offset(size)`. -/
def center (r : Rect) : Option Pt := ptAddSize r.tl (Rect.centerOffset r.size)

/-- `Rectangle::bottom_right`: `top_left + size - Point::new(1, 1)`. -/
def bottomRight (r : Rect) : Option (Option Pt) :=
  if r.size.w > 0 ∧ r.size.h > 0 then do
    let q ← ptAddSize r.tl r.size
    let br ← ptSub q ⟨1, 1⟩
    pure (some br)
  else pure none

/-- `Rectangle::contains`. -/
def contains (r : Rect) (p : Pt) : Option Bool :=
  if p.x ≥ r.tl.x ∧ p.y ≥ r.tl.y then do
    let br ← bottomRight r
    pure (match br with
      | some br => decide (p.x ≤ br.x ∧ p.y ≤ br.y)
      | none => false)
  else pure false

/-- `Rectangle::intersection`. -/
def intersection (self other : Rect) : Option Rect := do
  let obr ← bottomRight other
  let sbr ← bottomRight self
  match obr, sbr with
  | some obr, some sbr =>
    if Rect.overlaps self.tl.x sbr.x other.tl.x obr.x && Rect.overlaps self.tl.y sbr.y other.tl.y obr.y then
      withCorners (self.tl.componentMax other.tl) (sbr.componentMin obr)
    else pure Rect.zero
  | some _, none => do
    let c ← contains other self.tl
    pure (if c then self else Rect.zero)
  | none, some _ => do
    let c ← contains self other.tl
    pure (if c then other else Rect.zero)
  | none, none => pure Rect.zero

/-- `anchor_x`: `delta = width.saturating_as::<i32>().max(1) - 1` cannot overflow; the sum can. -/
def anchorX (r : Rect) (a : AnchorX) : Option Int :=
  let delta := max (satAsI32 r.size.w) 1 - 1
  chkI32 (r.tl.x + match a with
    | .left => 0
    | .center => tdiv2 delta
    | .right => delta)

def anchorY (r : Rect) (a : AnchorY) : Option Int :=
  let delta := max (satAsI32 r.size.h) 1 - 1
  chkI32 (r.tl.y + match a with
    | .top => 0
    | .center => tdiv2 delta
    | .bottom => delta)

/-- `Rectangle::anchor_point`. -/
def anchorPoint (r : Rect) (a : Anchor) : Option Pt := do
  let x ← anchorX r a.ax
  let y ← anchorY r a.ay
  pure ⟨x, y⟩

/-- `Rectangle::envelope`. -/
def envelope (self other : Rect) : Option Rect := do
  let a ← anchorPoint self ⟨.right, .bottom⟩
  let b ← anchorPoint other ⟨.right, .bottom⟩
  withCorners (self.tl.componentMin other.tl) (a.componentMax b)

/-- `resize_width_mut`: both operands of `delta` are in `1..=i32::MAX`, so the subtraction and
`delta / 2` cannot overflow; `top_left.x += ..` can. -/
def resizedWidth (r : Rect) (w : Nat) (a : AnchorX) : Option Rect := do
  let delta := max (satAsI32 r.size.w) 1 - max (satAsI32 w) 1
  let x ← chkI32 (r.tl.x + (match a with | .left => 0 | .center => tdiv2 delta | .right => delta))
  pure ⟨⟨x, r.tl.y⟩, ⟨w, r.size.h⟩⟩

def resizedHeight (r : Rect) (h : Nat) (a : AnchorY) : Option Rect := do
  let delta := max (satAsI32 r.size.h) 1 - max (satAsI32 h) 1
  let y ← chkI32 (r.tl.y + (match a with | .top => 0 | .center => tdiv2 delta | .bottom => delta))
  pure ⟨⟨r.tl.x, y⟩, ⟨r.size.w, h⟩⟩

/-- `Rectangle::resized`. -/
def resized (r : Rect) (s : Sz) (a : Anchor) : Option Rect := do
  let r1 ← resizedWidth r s.w a.ax
  resizedHeight r1 s.h a.ay

/-- `Rectangle::offset`: `offset as u32 * 2` resp. `(-offset) as u32 * 2` are `u32` products,
`-offset` is an `i32` negation. -/
def offset (r : Rect) (o : Int) : Option Rect := do
  if o ≥ 0 then do
    let tl ← ptSub r.tl ⟨o, o⟩
    let d ← chkU32 (i32AsU32 o * 2)
    pure ⟨tl, r.size.satAdd (Sz.newEqual d)⟩
  else do
    let m ← chkI32 (-o)
    let d ← chkU32 (i32AsU32 m * 2)
    let c ← center r
    withCenter c (r.size.satSub (Sz.newEqual d))

/-- `Rectangle::rows` / `columns` use saturating operations only: they cannot panic. -/
def rows (r : Rect) : Option (List Int) := pure r.rows
def columns (r : Rect) : Option (List Int) := pure r.columns

/-- `Transform::translate` for `Rectangle`: `top_left + by`. -/
def translate (r : Rect) (d : Pt) : Option Rect := do
  let tl ← ptAdd r.tl d
  pure ⟨tl, r.size⟩

end EG.Chk
