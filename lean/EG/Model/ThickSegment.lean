/-
  EG.Model.ThickSegment — `common::ThickSegment`, `ThickSegmentIter`, `ClosedThickSegmentIter`,
  arm for arm.
  Source: src/primitives/common/thick_segment.rs (as repaired by a55c264: a skeleton segment is
          boxed by the edge that is drawn), thick_segment_iter.rs, closed_thick_segment_iter.rs.
  `core::slice::Windows<Point>` (`points.windows(3)`) is modelled by the remaining slice: `next`
  yields its first three elements and drops one.
  Outer `none` of the `Option`-valued functions = a loop bound of `Line::extents` was exceeded
  ("stuck", see EG.Model.LineJoin); the iterators' own `None` is the inner `Option`.
-/
import EG.Model.LineJoin
import EG.Model.Scanline
namespace EG
namespace Joins
open Thick (LineSide StrokeOffset)

/-- `Scanline::bresenham_intersection(&line)` with the line's own `points()`. The y-range test of
`bresenham_intersection` is repeated in front so that the (strict) evaluation of `Line.points`
is skipped for lines that do not reach the scanline; the result is the same. -/
def bint (s : Scanline) (l : Line) : Scanline :=
  let inY : Bool :=
    if l.start.y ≤ l.stop.y then decide (l.start.y ≤ s.y ∧ s.y ≤ l.stop.y)
    else decide (l.stop.y ≤ s.y ∧ s.y ≤ l.start.y)
  if inY then s.bresenhamIntersection l.start l.stop (Line.points l) else s

/-- `Line::bounding_box`. -/
def lineBoundingBox (l : Line) : Rect := Rect.withCorners l.start l.stop

/-- `ThickSegment { start_join, end_join }`. -/
structure ThickSegment where
  startJoin : LineJoin
  endJoin : LineJoin
  deriving DecidableEq, Repr

namespace ThickSegment

/-- `is_skeleton`. -/
def isSkeleton (s : ThickSegment) : Bool :=
  s.startJoin.firstEdgeEnd.left == s.startJoin.firstEdgeEnd.right

/-- `edges`: `(right, left)`. -/
def edges (s : ThickSegment) : Line × Line :=
  (⟨s.startJoin.secondEdgeStart.right, s.endJoin.firstEdgeEnd.right⟩,
   ⟨s.endJoin.firstEdgeEnd.left, s.startJoin.secondEdgeStart.left⟩)

/-- `edges_bounding_box`. -/
def edgesBoundingBox (s : ThickSegment) : Rect :=
  let (right, left) := s.edges
  if s.isSkeleton then lineBoundingBox right
  else
    Rect.withCorners
      (((right.start.componentMin right.stop).componentMin left.start).componentMin left.stop)
      (((right.start.componentMax right.stop).componentMax left.start).componentMax left.stop)

/-- The lines whose Bresenham intersections `intersection` accumulates, in order. -/
def outline (s : ThickSegment) : List Line :=
  if s.isSkeleton then [s.edges.1]
  else
    let optl : Option Line → List Line := fun o => match o with | some l => [l] | none => []
    let (a1, a2) := s.startJoin.startCapLines
    let (b1, b2) := s.endJoin.endCapLines
    [a1] ++ optl a2 ++ [b1] ++ optl b2 ++ [s.edges.1, s.edges.2]

/-- `intersection(scanline_y)`. -/
def intersection (s : ThickSegment) (scanlineY : Int) : Scanline :=
  s.outline.foldl bint (Scanline.newEmpty scanlineY)

end ThickSegment

/-- `slice::Windows<Point>::next` for `windows(3)`. -/
def windowsNext : List Pt → Option ((Pt × Pt × Pt) × List Pt)
  | a :: b :: c :: rest => some ((a, b, c), b :: c :: rest)
  | _ => none

/-! ### `ThickSegmentIter` (open polylines) -/

/-- `ThickSegmentIter` (`stroke_offset` is fixed to `StrokeOffset::None` by `new`). -/
structure ThickSegmentIter where
  windows : List Pt
  startJoin : LineJoin
  endJoin : LineJoin
  width : Nat
  points : List Pt
  stop : Bool
  deriving Repr

namespace ThickSegmentIter

/-- `ThickSegmentIter::empty`. -/
def empty : ThickSegmentIter := ⟨[], LineJoin.empty, LineJoin.empty, 0, [], true⟩

/-- `ThickSegmentIter::new(points, width, _stroke_offset)`. -/
def new (points : List Pt) (width : Nat) : Option ThickSegmentIter :=
  match windowsNext points with
  | some ((start, mid, stop), windows) => do
    let startJoin ← LineJoin.start start mid width .none
    let endJoin ← LineJoin.fromPoints start mid stop width .none
    pure { windows, startJoin, endJoin, width, points, stop := false }
  | none =>
    match points with
    | [start, stop] => do
      let startJoin ← LineJoin.start start stop width .none
      let endJoin ← LineJoin.stop start stop width .none
      pure { windows := [], startJoin, endJoin, width, points, stop := false }
    | _ => some empty

/-- `Iterator::next`. -/
def next (it : ThickSegmentIter) : Option (Option (ThickSegment × ThickSegmentIter)) :=
  if it.stop then some none
  else
    let segment : ThickSegment := ⟨it.startJoin, it.endJoin⟩
    let it := { it with startJoin := it.endJoin }
    match windowsNext it.windows with
    | some ((start, mid, stop), windows) => do
      let endJoin ← LineJoin.fromPoints start mid stop it.width .none
      pure (some (segment, { it with windows, endJoin }))
    | none =>
      if it.endJoin.kind != .stop then
        match it.points[it.points.length - 2]?, it.points.getLast? with
        | some start, some stop => do
          let endJoin ← LineJoin.stop start stop it.width .none
          pure (some (segment, { it with endJoin }))
        | _, _ => some none
      else some (some (segment, { it with stop := true }))

/-- All segments (`fuel` calls of `next`; a polyline with `n` vertices has `n - 1`). -/
def toListFuel : Nat → ThickSegmentIter → Option (List ThickSegment)
  | 0, _ => some []
  | fuel + 1, it => do
    match ← it.next with
    | none => pure []
    | some (s, it') =>
      let rest ← toListFuel fuel it'
      pure (s :: rest)

def toList (it : ThickSegmentIter) : Option (List ThickSegment) := it.toListFuel (it.points.length + 1)

end ThickSegmentIter

/-! ### `ClosedThickSegmentIter` (triangles) -/

/-- `ClosedThickSegmentIter`. -/
structure ClosedThickSegmentIter where
  windows : List Pt
  firstJoin : LineJoin
  startJoin : LineJoin
  width : Nat
  strokeOffset : StrokeOffset
  points : List Pt
  stop : Bool
  idx : Nat
  deriving Repr

namespace ClosedThickSegmentIter

/-- `ClosedThickSegmentIter::empty`. -/
def empty : ClosedThickSegmentIter := ⟨[], LineJoin.empty, LineJoin.empty, 0, .none, [], true, 1⟩

/-- `ClosedThickSegmentIter::new`. The general arm indexes `points[1]`; a one-element slice panics
there in the real code and is outside the model (`none`); triangles pass three points. -/
def new (points : List Pt) (width : Nat) (strokeOffset : StrokeOffset) :
    Option ClosedThickSegmentIter :=
  match points with
  | [start, stop] => do
    let startJoin ← LineJoin.start start stop width strokeOffset
    pure { windows := [], startJoin, width, strokeOffset, points, stop := false,
           firstJoin := startJoin, idx := 1 }
  | [] => some empty
  | [_] => none
  | p0 :: p1 :: _ => do
    let last ← points.getLast?
    let startJoin ← LineJoin.fromPoints last p0 p1 width strokeOffset
    pure { windows := points, startJoin, width, strokeOffset, points, stop := false,
           firstJoin := startJoin, idx := 1 }

/-- `Iterator::next`. -/
def next (it : ClosedThickSegmentIter) : Option (Option (ThickSegment × ClosedThickSegmentIter)) :=
  if it.stop then some none
  else
    let it := { it with idx := it.idx + 1 }
    let r : Option (Option (LineJoin × ClosedThickSegmentIter)) :=
      match windowsNext it.windows with
      | some ((start, mid, stop), windows) => do
        let j ← LineJoin.fromPoints start mid stop it.width it.strokeOffset
        pure (some (j, { it with windows }))
      | none =>
        if it.idx = it.points.length then
          match it.points[it.points.length - 2]?, it.points.getLast?, it.points.head? with
          | some start, some mid, some stop => do
            let j ← LineJoin.fromPoints start mid stop it.width it.strokeOffset
            pure (some (j, it))
          | _, _, _ => some none
        else some (some (it.firstJoin, { it with stop := true }))
    match r with
    | none => none
    | some none => some none
    | some (some (endJoin, it)) =>
      some (some (⟨it.startJoin, endJoin⟩, { it with startJoin := endJoin }))

def toListFuel : Nat → ClosedThickSegmentIter → Option (List ThickSegment)
  | 0, _ => some []
  | fuel + 1, it => do
    match ← it.next with
    | none => pure []
    | some (s, it') =>
      let rest ← toListFuel fuel it'
      pure (s :: rest)

def toList (it : ClosedThickSegmentIter) : Option (List ThickSegment) :=
  it.toListFuel (it.points.length + 2)

end ClosedThickSegmentIter

/-- The `fold` over `edges_bounding_box` shared by `polyline::styled::untranslated_bounding_box`
and `triangle::styled_bounding_box`: start from `(i32::MAX, i32::MIN)`. -/
def foldEdgeBoxes (segs : List ThickSegment) : Rect :=
  let init : Pt × Pt := (⟨2147483647, 2147483647⟩, ⟨-2147483648, -2147483648⟩)
  let (mn, mx) := segs.foldl (fun (acc : Pt × Pt) seg =>
    let bb := seg.edgesBoundingBox
    (acc.1.componentMin bb.tl, acc.2.componentMax (bb.bottomRight.getD bb.tl))) init
  Rect.withCorners mn mx

end Joins
end EG
