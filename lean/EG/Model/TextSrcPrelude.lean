/-
  EG.Model.TextSrcPrelude — the TRUSTED PRELUDE of the source translator for the TEXT code (tools/tr_textsrc.py).

  `EG/Generated/TextSrc.lean` is regenerated from /repo's Rust text (src/text/text.rs, src/text/mod.rs,
  src/mono_font/mono_text_style.rs, src/mono_font/mod.rs, src/mono_font/mapping.rs) and mirrors it arm for arm. It
  knows nothing about what an operation means: every Rust primitive it meets is a function of this file (or of
  EG/Model/RectSrcPrelude.lean for the `i32` / `u32` / `Point` / `Size` / `Rectangle` primitives, or a function of
  EG/Generated/RectSrc.lean for the `Point` / `Size` / `Rectangle` helpers, which tr_rect regenerates and C16 proves).

  What this file fixes (and what a reader has to believe):
  * DATA. The Rust structs / enums of the text layer ARE the hand model's types: `Baseline`, `Alignment`, `LineHeight`,
    `DecorationColor<C>`, `TextStyle`, `TextMetrics` are the types of EG.Model.Font / EG.Model.TextLayout with the
    Rust spelling of constructors and fields; `MonoFont` = the hand model's metric record + the atlas bitmap;
    `MonoTextStyle` = the four colour fields (`Font.Style`) + the font; `Text` = the four fields of the Rust struct with
    `S := MonoTextStyle` (the only `TextRenderer` of the crate). A `&str` is the list of its code points (`Str`),
    a `char` its code point; `'\n'` = 10, `'\r'` = 13, `'\0'` = 0.
  * ARITHMETIC. `u32` is `Nat`, `i32` is `Int`; `+ - * /` do not wrap (RectSrcPrelude: a debug build panics where
    they would, the hand models do not describe that: C08's topic); `saturating_*` saturate, `usize as u32` truncates
    (`usize_as_u32`), `u32 as i32` wraps (`u32_as_i32` of RectSrcPrelude), `i32 as u32` wraps.
  * ITERATORS are the finite lists of their items: `str::split`, `str::chars`, `Iterator::count`,
    `Iterator::map` with a closure that updates captured variables (`iter_map_mut`: the captured state is threaded
    from item to item in order), `for x in it { .. }` = a left fold over the items with the variables the body
    assigns as the accumulator (`for_in`).
  * EFFECTS. A function that takes `target: &mut D` returns the updated target next to its value; a target IS the
    list of calls made on it so far (`DrawTargetD := List Call`, the hand model's `Call`). `e?` on a `Result` is the
    success path (error propagation is C04's topic, checked on the draw-site skeletons). `MonoFontDrawTarget` is the
    parent log plus the colour mode; a call on it appends the hand model's lowering `Mode.lower` of that call (the
    lowering itself — src/mono_font/draw_target.rs — is hand-modelled in EG.Model.Font and checked by the C14 streams,
    not regenerated).
  * `core::iter::from_fn(move || ..)` is the captured state plus the closure as a step function (`FromFn`); a `for`
    over it whose body may `return` runs on explicit `fuel` (`for_from_fn`; a function containing such a loop, and
    its callers, take `fuel` as their first parameter).
  * `e?` on an `Option` inside a `from_fn` closure ends the closure with `None`; `start..=end` on chars is the list
    `Font.charRange` (the `Step` impl of `char`: surrogates skipped); `.flatten()` of a `from_fn` iterator of such
    ranges = their concatenation, at most `fuel` ranges.
  * NOT REGENERATED (bound here to the hand model, checked by correspondence only): `Image::new(&glyph, p).draw` (C09's image model: guard of
    `draw_sub_image` + one `fill_contiguous` of the cell), `MonoFontDrawTarget`'s lowering (`Mode.lower`).
-/
import EG.Model.TextLayout
import EG.Model.RectSrcPrelude
namespace EG.TextSrcPrelude
open EG EG.RectSrcPrelude

/-! ## strings and characters -/

abbrev Str := List Nat
abbrev Char_ := Nat
abbrev TColor := EG.Color

abbrev char_eq (a b : Nat) : Bool := decide (a = b)
abbrev char_ne (a b : Nat) : Bool := decide (a ≠ b)

/-- `str::split(c)`: always at least one item; `"a\n"` gives `["a", ""]`. -/
def str_split : Str → Nat → List Str
  | [], _ => [[]]
  | c :: cs, d =>
    if c = d then [] :: str_split cs d
    else
      match str_split cs d with
      | l :: ls => (c :: l) :: ls
      | [] => [[c]]

/-- `str::strip_suffix(c)`: `Some(rest)` when the last character is `c`. -/
abbrev str_strip_suffix (s : Str) (c : Nat) : Option Str := if s.getLast? = some c then some s.dropLast else none
abbrev str_chars (s : Str) : List Nat := s
abbrev iter_count {α : Type} (l : List α) : Nat := l.length
/-- `usize as u32` (64-bit `usize`): truncation. -/
abbrev usize_as_u32 (n : Nat) : Nat := n % 4294967296
abbrev option_unwrap_or {α : Type} (o : Option α) (d : α) : α := match o with | some v => v | none => d
abbrev option_is_none {α : Type} (o : Option α) : Bool := o.isNone
abbrev option_is_some {α : Type} (o : Option α) : Bool := o.isSome
abbrev option_map {α β : Type} (o : Option α) (f : α → β) : Option β := o.map f

/-- `iter.map(move |x| { .. })` where the closure assigns captured `mut` variables: the captured state `s` goes in,
`(item, new state)` comes out, items in order. -/
def iter_map_mut {α β σ : Type} : List α → σ → (σ → α → β × σ) → List β
  | [], _, _ => []
  | a :: as, s, f => (f s a).1 :: iter_map_mut as (f s a).2 f

/-- `for x in it { body }`: the variables the body assigns are the accumulator. -/
abbrev for_in {α σ : Type} (xs : List α) (s : σ) (body : σ → α → σ) : σ := xs.foldl body s

/-- `.enumerate().find(|(_, v)| P v).map(|(index, _)| index)`: `iter_enumerate` pairs with the running index,
`iter_find` returns the first item the predicate accepts. -/
abbrev iter_enumerate {α : Type} (l : List α) : List (Nat × α) := l.zipIdx.map (fun p => (p.2, p.1))
abbrev iter_find {α : Type} (l : List α) (p : α → Bool) : Option α := l.find? p
abbrev iter_any {α : Type} (l : List α) (p : α → Bool) : Bool := l.any p

/-! ## enums of src/text/mod.rs -/

abbrev Baseline := Font.Baseline
@[match_pattern] abbrev Baseline.Top : Baseline := Font.Baseline.top
@[match_pattern] abbrev Baseline.Bottom : Baseline := Font.Baseline.bottom
@[match_pattern] abbrev Baseline.Middle : Baseline := Font.Baseline.middle
@[match_pattern] abbrev Baseline.Alphabetic : Baseline := Font.Baseline.alphabetic

abbrev Alignment := TextLayout.Alignment
@[match_pattern] abbrev Alignment.Left : Alignment := TextLayout.Alignment.left
@[match_pattern] abbrev Alignment.Center : Alignment := TextLayout.Alignment.center
@[match_pattern] abbrev Alignment.Right : Alignment := TextLayout.Alignment.right

abbrev LineHeight := TextLayout.LineHeight
@[match_pattern] abbrev LineHeight.Pixels (px : Nat) : LineHeight := TextLayout.LineHeight.pixels px
@[match_pattern] abbrev LineHeight.Percent (pc : Nat) : LineHeight := TextLayout.LineHeight.percent pc

abbrev DecorationColor := Font.DecoColor
@[match_pattern] abbrev DecorationColor.None : DecorationColor := Font.DecoColor.none
@[match_pattern] abbrev DecorationColor.TextColor : DecorationColor := Font.DecoColor.textColor
@[match_pattern] abbrev DecorationColor.Custom (c : TColor) : DecorationColor := Font.DecoColor.custom c
abbrev DecorationColor_eq (a b : DecorationColor) : Bool := decide (a = b)
abbrev DecorationColor_ne (a b : DecorationColor) : Bool := decide (a ≠ b)

/-! ## structs -/

abbrev TextStyle := TextLayout.TextStyle
abbrev TextStyle_alignment (t : TextStyle) : Alignment := t.alignment
abbrev TextStyle_baseline (t : TextStyle) : Baseline := t.baseline
abbrev TextStyle_line_height (t : TextStyle) : LineHeight := t.lineHeight

abbrev TextMetrics := TextLayout.Metrics
abbrev TextMetrics_mk (bounding_box : Rectangle) (next_position : Point) : TextMetrics := ⟨bounding_box, next_position⟩
abbrev TextMetrics_bounding_box (m : TextMetrics) : Rectangle := m.bbox
abbrev TextMetrics_next_position (m : TextMetrics) : Point := m.next

structure DecorationDimensions where
  offset : Nat
  height : Nat
abbrev DecorationDimensions_offset (d : DecorationDimensions) : Nat := d.offset
abbrev DecorationDimensions_height (d : DecorationDimensions) : Nat := d.height

/-- `ImageRaw<'_, BinaryColor>` as far as the font code reads it: its size and its pixels. -/
structure ImageRawBinary where
  w : Nat
  h : Nat
  bit : Pt → Bool
abbrev ImageRawBinary_size (i : ImageRawBinary) : Size := ⟨i.w, i.h⟩

/-- `MonoFont<'_>`: the hand model's record plus the atlas bits. -/
structure MonoFont where
  f : Font.MonoFont
  atlas : Pt → Bool
abbrev MonoFont_image (m : MonoFont) : ImageRawBinary := ⟨m.f.imgW, m.f.imgH, m.atlas⟩
abbrev MonoFont_character_size (m : MonoFont) : Size := ⟨m.f.cw, m.f.ch⟩
abbrev MonoFont_character_spacing (m : MonoFont) : Nat := m.f.spacing
abbrev MonoFont_baseline (m : MonoFont) : Nat := m.f.baseline
abbrev MonoFont_strikethrough (m : MonoFont) : DecorationDimensions := ⟨m.f.stOff, m.f.stH⟩
abbrev MonoFont_underline (m : MonoFont) : DecorationDimensions := ⟨m.f.ulOff, m.f.ulH⟩
/-- `&dyn GlyphMapping`: any function `char -> usize`. -/
abbrev DynGlyphMapping := Nat → Nat
abbrev MonoFont_glyph_mapping (m : MonoFont) : DynGlyphMapping := m.f.index
abbrev DynGlyphMapping_index (g : DynGlyphMapping) (c : Nat) : Nat := g c

/-- `SubImage<'_, ImageRaw<BinaryColor>>`. -/
structure SubImage where
  parent : ImageRawBinary
  area : Rectangle
abbrev SubImage_new_unchecked (parent : ImageRawBinary) (area : Rectangle) : SubImage := ⟨parent, area⟩

structure MonoTextStyle where
  st : Font.Style
  font : MonoFont
abbrev MonoTextStyle_text_color (s : MonoTextStyle) : Option TColor := s.st.textColor
abbrev MonoTextStyle_background_color (s : MonoTextStyle) : Option TColor := s.st.bgColor
abbrev MonoTextStyle_underline_color (s : MonoTextStyle) : DecorationColor := s.st.underline
abbrev MonoTextStyle_strikethrough_color (s : MonoTextStyle) : DecorationColor := s.st.strikethrough
abbrev MonoTextStyle_font (s : MonoTextStyle) : MonoFont := s.font

structure Text where
  text : Str
  position : Point
  character_style : MonoTextStyle
  text_style : TextStyle
abbrev Text_text (t : Text) : Str := t.text
abbrev Text_position (t : Text) : Point := t.position
abbrev Text_character_style (t : Text) : MonoTextStyle := t.character_style
abbrev Text_text_style (t : Text) : TextStyle := t.text_style
abbrev Text_set_position (t : Text) (p : Point) : Text := { t with position := p }
/-- The hand model's `Text` (the font travels separately there). -/
abbrev Text.toModel (t : Text) : TextLayout.Text := ⟨t.text, t.position, t.character_style.st, t.text_style⟩

structure StrGlyphMapping where
  data : Str
  replacement_index : Nat
abbrev StrGlyphMapping_data (m : StrGlyphMapping) : Str := m.data
abbrev StrGlyphMapping_replacement_index (m : StrGlyphMapping) : Nat := m.replacement_index
/-- `start..=end` on `char`, as the list of the items its iterator yields: `<char as Step>` skips the surrogate gap
(the hand model's `Font.charRange`: `start`, then `forward(c, 1)` up to and including `end`; empty when `start > end`). -/
abbrev char_range_inclusive (s e : Nat) : List Nat := Font.charRange s e

/-! ## draw targets -/

/-- A target of the generic type `D` = the calls made on it so far. -/
abbrev DrawTargetD := List Call
abbrev DrawTargetD_fill_solid (t : DrawTargetD) (area : Rectangle) (c : TColor) : DrawTargetD := t ++ [Call.fillSolid area c]

abbrev ModeT := Font.Mode
abbrev Both (tc bc : TColor) : ModeT := Font.Mode.both tc bc
abbrev Foreground (tc : TColor) : ModeT := Font.Mode.fg tc
abbrev Background (bc : TColor) : ModeT := Font.Mode.bg bc

/-- `MonoFontDrawTarget<'_, D, M>`: the parent (borrowed `&mut`: what happens to the adapter happens to the parent)
and the colour mode. -/
structure MonoFontDrawTarget where
  parent : DrawTargetD
  mode : ModeT
abbrev MonoFontDrawTarget_new (parent : DrawTargetD) (mode : ModeT) : MonoFontDrawTarget := ⟨parent, mode⟩
/-- the parent after the adapter (which held the `&mut` borrow) is dropped -/
abbrev MonoFontDrawTarget_into_parent (t : MonoFontDrawTarget) : DrawTargetD := t.parent
abbrev MonoFontDrawTarget_calls (t : MonoFontDrawTarget) (cs : List Font.BCall) : MonoFontDrawTarget :=
  ⟨t.parent ++ cs.flatMap t.mode.lower, t.mode⟩

abbrev BinaryColor := Bool
abbrev BinaryColor.Off : BinaryColor := false
abbrev BinaryColor.On : BinaryColor := true
abbrev MonoFontDrawTarget_fill_solid (t : MonoFontDrawTarget) (area : Rectangle) (c : BinaryColor) : MonoFontDrawTarget :=
  MonoFontDrawTarget_calls t [Font.BCall.fillSolid area c]

/-- `Image<'_, SubImage<..>>`: a sub-image and the position it is drawn at. -/
structure Image where
  sub : SubImage
  pos : Point
abbrev Image_new (sub : SubImage) (pos : Point) : Image := ⟨sub, pos⟩
/-- NOT regenerated (C09's image model): `Image::new(&sub_image, p).draw(target)` = `SubImage::draw` ->
`ImageRaw::draw_sub_image(target.translated(p), area)`: nothing unless the area is non-empty and completely inside
the image (the guard of `draw_sub_image`, = `Font.MonoFont.areaDrawable`), else ONE
`fill_contiguous(Rectangle::new(p, area.size), the area's pixels row-major)`. -/
abbrev Image_draw (i : Image) (t : MonoFontDrawTarget) : MonoFontDrawTarget :=
  let a := i.sub.area
  MonoFontDrawTarget_calls t
    (if !(a.isZeroSized || decide (a.tl.x < 0) || decide (a.tl.y < 0)
        || decide (a.tl.x.toNat + a.size.w > i.sub.parent.w) || decide (a.tl.y.toNat + a.size.h > i.sub.parent.h))
     then [Font.BCall.fillContiguous ⟨i.pos, a.size⟩ (Font.cellBits i.sub.parent.bit a)] else [])

/-! ## `LineElement`, `core::iter::from_fn`, `for` with `return` over it -/

abbrev LineElement := Font.Elem
@[match_pattern] abbrev LineElement.Char (c : Nat) : LineElement := Font.Elem.char c
@[match_pattern] abbrev LineElement.Spacing : LineElement := Font.Elem.spacing
@[match_pattern] abbrev LineElement.Done : LineElement := Font.Elem.done

/-- `Iterator::next` on an iterator variable that is a list of the remaining items: (item, advanced iterator). -/
abbrev iter_next {α : Type} (l : List α) : Option α × List α := (l.head?, l.tail)

/-- `core::iter::from_fn(move || ..)`: the captured `mut` variables (`state`) and the closure as a step function
`state -> (returned Option, new state)`. -/
structure FromFn (σ β : Type) where
  state : σ
  step : σ → Option β × σ
abbrev from_fn_mk {σ β : Type} (state : σ) (step : σ → Option β × σ) : FromFn σ β := ⟨state, step⟩

/-- the first `fuel` items of a `from_fn` iterator (up to its first `None`) -/
def from_fn_to_list {σ β : Type} : Nat → FromFn σ β → List β
  | 0, _ => []
  | n + 1, it =>
    match it.step it.state with
    | (none, _) => []
    | (some x, s') => x :: from_fn_to_list n ⟨s', it.step⟩
/-- `from_fn(..).flatten()` where the items are themselves iterators (lists): their items in order -/
abbrev iter_flatten_from_fn {σ β : Type} (fuel : Nat) (it : FromFn σ (List β)) : List β := (from_fn_to_list fuel it).flatten

/-- what one run of a `for` body does: go on with the updated variables, or `return` from the function -/
inductive ForStep (τ ρ : Type) where
  | next (acc : τ)
  | ret (r : ρ)

/-- `for x in from_fn(..) { body }` where the body may `return`: at most `fuel` items are looked at (the iterator
may be endless; when the fuel is used up the loop counts as finished: the theorems show the value does not depend on
the fuel once it is `2 * len + 1`). -/
def for_from_fn {σ β τ ρ : Type} : Nat → FromFn σ β → τ → (τ → β → ForStep τ ρ) → ForStep τ ρ
  | 0, _, acc, _ => ForStep.next acc
  | n + 1, it, acc, body =>
    match it.step it.state with
    | (none, _) => ForStep.next acc
    | (some x, s') =>
      match body acc x with
      | ForStep.next acc' => for_from_fn n ⟨s', it.step⟩ acc' body
      | ForStep.ret r => ForStep.ret r

end EG.TextSrcPrelude
