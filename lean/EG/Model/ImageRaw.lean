/-
  EG.Model.ImageRaw — raw images, sub-images and the `Image` wrapper, arm for arm.

  Literal transcription of
    src/image/image_raw.rs          (`ImageRaw::{new, new_const, data_width}`, `bytes_per_row`,
                                     `ImageDrawable::{draw, draw_sub_image}`, `GetPixel::pixel`,
                                     `ContiguousPixels::{new, next}`)
    src/image/sub_image.rs          (`SubImage::{new, new_unchecked}`, `size`, `draw`, `draw_sub_image`)
    src/image/image_drawable_ext.rs (`sub_image`)
    src/image/mod.rs                (`Image::{new, with_center}`, `Transform`, `Drawable::draw`,
                                     `Dimensions::bounding_box`)
    src/draw_target/translated.rs   (the four forwarding methods `Image::draw` goes through)

  Conventions: colours are raw values (`Nat`; `C::from(raw)` is not modelled: the harness prints the
  raw value of every colour). The generic parameters `C::Raw` / `O` are the fields `bits` / `order`.
  `u32`/`usize` arithmetic is mathematical (`Nat`); the `as i32` casts of `pixel` wrap (`asI32`).
  Import-free apart from the shared models.
-/
import EG.Model.Target
import EG.Model.Raw
namespace EG.Img
open EG EG.Raw

/-- `u32 as i32` (wrapping cast). -/
def asI32 (n : Nat) : Int :=
  if n % 4294967296 < 2147483648 then ((n % 4294967296 : Nat) : Int)
  else ((n % 4294967296 : Nat) : Int) - 4294967296

/-- `bytes_per_row(width, bits_per_pixel) = (width * bpp + 7) / 8` -/
def bytesPerRow (width bits : Nat) : Nat := (width * bits + 7) / 8

/-- `ImageRaw<'a, C, O>`: `bits = C::Raw::BITS_PER_PIXEL`, `order = O`. -/
structure ImageRaw where
  bits : Nat
  order : Order
  data : List Nat
  size : Sz
  deriving Repr, DecidableEq

namespace ImageRaw

/-- `ImageRaw::new`: `Err(InvalidDataSize { expected_data_size })` is `.error expected`. -/
def new (bits : Nat) (o : Order) (data : List Nat) (size : Sz) : Except Nat ImageRaw :=
  let expectedSize := bytesPerRow size.w bits * size.h
  if data.length != expectedSize then .error expectedSize
  else .ok ⟨bits, o, data, size⟩

/-- `ImageRaw::new_const`: `none` is the panic "Invalid data size". -/
def newConst (bits : Nat) (o : Order) (data : List Nat) (size : Sz) : Option ImageRaw :=
  match new bits o data size with
  | .ok image => some image
  | .error _ => none

/-- `data_width`: the row width in pixels including the padding pixels. -/
def dataWidth (im : ImageRaw) : Nat :=
  if im.bits < 8 then
    let pixelsPerByte := 8 / im.bits
    bytesPerRow im.size.w im.bits * pixelsPerByte
  else im.size.w

/-- `OriginDimensions::size` + `Dimensions::bounding_box`. -/
def boundingBox (im : ImageRaw) : Rect := ⟨Pt.zero, im.size⟩

/-- `GetPixel::pixel` -/
def pixel (im : ImageRaw) (p : Pt) : Option Nat :=
  if p.x < 0 ∨ p.y < 0 ∨ p.x ≥ asI32 im.size.w ∨ p.y ≥ asI32 im.size.h then none
  else ((Iter.new im.bits im.order im.data).nth (p.x.toNat + p.y.toNat * im.dataWidth)).1

end ImageRaw

/-! ## `ContiguousPixels` -/

structure CP where
  iter : Iter
  remainingX : Nat
  width : Nat
  remainingY : Nat
  rowSkip : Nat
  deriving Repr

namespace CP

/-- `ContiguousPixels::new(image, size, initial_skip, row_skip)` -/
def new (im : ImageRaw) (size : Sz) (initialSkip rowSkip : Nat) : CP :=
  let iter := Iter.new im.bits im.order im.data
  let iter := if initialSkip > 0 then (iter.nth (initialSkip - 1)).2 else iter
  let rem : Nat × Nat := if size.w > 0 ∧ size.h > 0 then (size.w, size.h - 1) else (0, 0)
  ⟨iter, rem.1, size.w, rem.2, rowSkip⟩

/-- `Iterator::next`: the item and the state afterwards. (`self.width - 1` cannot underflow in a
state made by `new`: `remaining_y > 0` implies `width > 0`.) -/
def next (s : CP) : Option Nat × CP :=
  if s.remainingX > 0 then
    let r := s.iter.next
    (r.1, { s with remainingX := s.remainingX - 1, iter := r.2 })
  else if s.remainingY = 0 then (none, s)
  else
    let r := s.iter.nth s.rowSkip
    (r.1, { s with remainingY := s.remainingY - 1, remainingX := s.width - 1, iter := r.2 })

/-- Step budget: every `Some` step decreases `remainingX + remainingY * (width + 1)`. -/
def budget (s : CP) : Nat := s.remainingX + s.remainingY * (s.width + 1) + 1

def toListFuel : Nat → CP → List Nat
  | 0, _ => []
  | fuel + 1, s =>
    match s.next with
    | (none, _) => []
    | (some v, s') => v :: toListFuel fuel s'

/-- What a `for` loop over the colour iterator sees (also what a draining target pulls). -/
def toList (s : CP) : List Nat := s.toListFuel s.budget

end CP

namespace ImageRaw

/-- `ImageDrawable::draw` for `ImageRaw` -/
def draw (im : ImageRaw) : List Call :=
  let rowSkip := im.dataWidth - im.size.w
  [Call.fillContiguous im.boundingBox (CP.new im im.size 0 rowSkip).toList]

/-- `ImageDrawable::draw_sub_image` for `ImageRaw` -/
def drawSubImage (im : ImageRaw) (area : Rect) : List Call :=
  if area.isZeroSized = true
      ∨ area.tl.x < 0
      ∨ area.tl.y < 0
      ∨ area.tl.x.toNat + area.size.w > im.size.w
      ∨ area.tl.y.toNat + area.size.h > im.size.h then []
  else
    let dataWidth := im.dataWidth
    let initialSkip := area.tl.y.toNat * dataWidth + area.tl.x.toNat
    let rowSkip := dataWidth - area.size.w
    [Call.fillContiguous ⟨Pt.zero, area.size⟩ (CP.new im area.size initialSkip rowSkip).toList]

end ImageRaw

/-! ## `SubImage` over any `ImageDrawable` (here: a raw image or another sub-image) -/

inductive Drawable where
  | raw (im : ImageRaw)
  /-- `SubImage { parent, area }` (`new_unchecked`) -/
  | sub (parent : Drawable) (area : Rect)
  deriving Repr, DecidableEq

namespace Drawable

/-- `OriginDimensions::size` -/
def size : Drawable → Sz
  | raw im => im.size
  | sub _ area => area.size

/-- `Dimensions::bounding_box` of an `OriginDimensions` type -/
def boundingBox (d : Drawable) : Rect := ⟨Pt.zero, d.size⟩

/-- `SubImage::new(parent, area)` = `ImageDrawableExt::sub_image` -/
def subImage (d : Drawable) (area : Rect) : Drawable :=
  .sub d (d.boundingBox.intersection area)

/-- `ImageDrawable::draw_sub_image` -/
def drawSubImage : Drawable → Rect → List Call
  | raw im, area => im.drawSubImage area
  | sub parent a, area => parent.drawSubImage (area.translate a.tl)

/-- `ImageDrawable::draw` -/
def draw : Drawable → List Call
  | raw im => im.draw
  | sub parent a => parent.drawSubImage a

end Drawable

/-! ## `Image` -/

/-- What reaches the parent target of `Translated { parent, offset }` for a call made on the
translated target (`draw_iter`, `fill_contiguous`, `fill_solid`, `clear`). -/
def translatedCall (offset : Pt) : Call → Call
  | .drawIter px => .drawIter (px.map (fun w => (w.1 + offset, w.2)))
  | .fillContiguous area cs => .fillContiguous (area.translate offset) cs
  | .fillSolid area c => .fillSolid (area.translate offset) c
  | .clear c => .clear c

structure Image where
  drawable : Drawable
  offset : Pt
  deriving Repr, DecidableEq

namespace Image

def new (d : Drawable) (position : Pt) : Image := ⟨d, position⟩

def withCenter (d : Drawable) (center : Pt) : Image :=
  ⟨d, (Rect.withCenter center d.size).tl⟩

/-- `Transform::translate` -/
def translate (i : Image) (by' : Pt) : Image := ⟨i.drawable, i.offset + by'⟩

/-- `Transform::translate_mut` (`self.offset += by`), the value of `*self` afterwards -/
def translateMut (i : Image) (by' : Pt) : Image := { i with offset := i.offset + by' }

/-- `Dimensions::bounding_box` -/
def boundingBox (i : Image) : Rect := i.drawable.boundingBox.translate i.offset

/-- `Drawable::draw`: `image_drawable.draw(&mut display.translated(offset))`, as the calls that
reach `display`. -/
def draw (i : Image) : List Call := i.drawable.draw.map (translatedCall i.offset)

end Image

end EG.Img
