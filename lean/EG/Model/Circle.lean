/-
  EG.Model.Circle — `primitives::Circle`, arm for arm.
  Source: src/primitives/circle/{mod.rs, points.rs, styled.rs}, src/primitives/primitive_style.rs
  (`stroke_area` / `fill_area`), src/geometry/mod.rs (`length_squared`).

  Unbounded `Int`/`Nat`; saturating operations are modelled, plain `+ - *` are mathematical.
-/
import EG.Model.StyledScanline
import EG.Model.PrimStyle
namespace EG

structure Circle where
  tl : Pt      -- top_left
  d : Nat      -- diameter
  deriving DecidableEq, Repr, Inhabited

/-- `diameter_to_threshold` -/
def diameterToThreshold (d : Nat) : Nat :=
  if d ≤ 4 then d * d - d / 2 else d * d

/-- `PointExt::length_squared`: `x.pow(2) + y.pow(2)` -/
def lengthSquared (p : Pt) : Int := p.x * p.x + p.y * p.y

namespace Circle

/-- `Dimensions::bounding_box` -/
def boundingBox (c : Circle) : Rect := ⟨c.tl, ⟨c.d, c.d⟩⟩

/-- `Circle::with_center` -/
def withCenter (center : Pt) (d : Nat) : Circle := ⟨(Rect.withCenter center ⟨d, d⟩).tl, d⟩

/-- `Circle::center` -/
def center (c : Circle) : Pt := c.boundingBox.center

/-- `center_2x`: `top_left * 2 + Size::new(radius, radius)` with `radius = diameter.saturating_sub(1)` -/
def center2x (c : Circle) : Pt :=
  let radius : Nat := c.d - 1
  ⟨c.tl.x * 2 + (radius : Int), c.tl.y * 2 + (radius : Int)⟩

def threshold (c : Circle) : Nat := diameterToThreshold c.d

/-- `ContainsPoint::contains`: `delta = center_2x - point * 2`,
`(delta.length_squared() as u32) < threshold` -/
def contains (c : Circle) (p : Pt) : Bool :=
  let delta : Pt := c.center2x - ⟨p.x * 2, p.y * 2⟩
  decide ((lengthSquared delta).toNat < c.threshold)

/-- `OffsetOutline::offset` -/
def offset (c : Circle) (o : Int) : Circle :=
  if o ≥ 0 then
    -- growing moves the top left corner directly (a zero sized circle has no centre pixel)
    ⟨c.tl - ⟨o, o⟩, satAddU32 c.d (2 * o.toNat)⟩
  else withCenter c.center (c.d - 2 * (-o).toNat)

def translate (c : Circle) (by_ : Pt) : Circle := { c with tl := c.tl + by_ }

/-- `PrimitiveStyle::stroke_area(circle)` -/
def strokeArea (st : PrimStyle) (c : Circle) : Circle := c.offset st.strokeOffset
/-- `PrimitiveStyle::fill_area(circle)` (solid stroke) -/
def fillArea (st : PrimStyle) (c : Circle) : Circle := c.offset st.fillOffset

/-- `StyledDimensions::styled_bounding_box` -/
def styledBoundingBox (st : PrimStyle) (c : Circle) : Rect :=
  c.boundingBox.offset (satAsI32 st.outsideStrokeWidth)

/-! ### `circle::points::Scanlines` -/

structure ScanlinesIt where
  y : Int       -- rows.start
  yEnd : Int    -- rows.end
  xs : Int      -- columns.start
  xe : Int      -- columns.end
  center2x : Pt
  threshold : Nat
  deriving DecidableEq, Repr

/-- `Scanlines::new` -/
def scanlines (c : Circle) : ScanlinesIt :=
  let bb := c.boundingBox
  ⟨bb.tl.y, bb.rowsEnd, bb.tl.x, bb.columnsEnd, c.center2x, c.threshold⟩

/-- The closure of `find`: `delta = Point::new(x, y) * 2 - center_2x`,
`(delta.length_squared() as u32) < threshold`. -/
def hit (center2x : Pt) (threshold : Nat) (y x : Int) : Bool :=
  let delta : Pt := (⟨x * 2, y * 2⟩ : Pt) - center2x
  decide ((lengthSquared delta).toNat < threshold)

/-- The scanline of row `y`: `columns.clone().find(..).map(|x| Scanline::new(y, x..columns.end -
(x - columns.start)))`. -/
def ScanlinesIt.row (it : ScanlinesIt) (y : Int) : Option Scanline :=
  (mirroredRange (hit it.center2x it.threshold y) it.xs it.xe).map (fun r => ⟨y, r.1, r.2⟩)

/-- `Iterator::next` (not fused: a row without a hit yields `None` although rows remain). -/
def ScanlinesIt.next (it : ScanlinesIt) : Option Scanline × ScanlinesIt :=
  if it.y < it.yEnd then (it.row it.y, { it with y := it.y + 1 })   -- `let y = self.rows.next()?`
  else (none, it)

def ScanlinesIt.toListFuel : Nat → ScanlinesIt → List Scanline
  | 0, _ => []
  | fuel + 1, it =>
    match it.next with
    | (some s, it') => s :: toListFuel fuel it'
    | (none, _) => []

/-- What a `for` loop over the scanlines sees. -/
def ScanlinesIt.toList (it : ScanlinesIt) : List Scanline :=
  it.toListFuel ((it.yEnd - it.y).toNat + 1)

/-! ### `circle::Points` -/

structure PointsIt where
  scanlines : ScanlinesIt
  current : Scanline
  deriving DecidableEq, Repr

/-- `Points::new` -/
def pointsIt (c : Circle) : PointsIt := ⟨c.scanlines, Scanline.newEmpty 0⟩

/-- `Iterator::next`: `current.next().or_else(|| { current = scanlines.next()?; current.next() })` -/
def PointsIt.next (it : PointsIt) : Option (Pt × PointsIt) :=
  match it.current.next with
  | some (p, cur') => some (p, { it with current := cur' })
  | none =>
    match it.scanlines.next with
    | (none, _) => none
    | (some s, sl') =>
      match s.next with
      | some (p, cur') => some (p, ⟨sl', cur'⟩)
      | none => none

def PointsIt.toListFuel : Nat → PointsIt → List Pt
  | 0, _ => []
  | fuel + 1, it =>
    match it.next with
    | some (p, it') => p :: toListFuel fuel it'
    | none => []

/-- Step budget: every yielded point either advances the current scanline or starts a new row whose
scanline lies within the columns. -/
def PointsIt.budget (it : PointsIt) : Nat :=
  (it.current.xe - it.current.xs).toNat +
    (it.scanlines.yEnd - it.scanlines.y).toNat * (it.scanlines.xe - it.scanlines.xs).toNat

/-- What a `for` loop over `circle.points()` sees. -/
def points (c : Circle) : List Pt :=
  let it := c.pointsIt
  it.toListFuel (it.budget + 1)

/-! ### `circle::styled::StyledScanlines` (private to circle/styled.rs) -/

structure StyledScanlinesIt where
  scanlines : ScanlinesIt
  fillThreshold : Nat
  deriving DecidableEq, Repr

/-- `StyledScanlines::new(stroke_area, fill_area)` -/
def styledScanlines (strokeArea fillArea : Circle) : StyledScanlinesIt :=
  ⟨strokeArea.scanlines, fillArea.threshold⟩

/-- The closure of `.map(|scanline| ..)` in `StyledScanlines::next`: the fill range is searched
within the stroke scanline, with the *stroke* area's `center_2x` and the fill threshold. -/
def StyledScanlinesIt.style (it : StyledScanlinesIt) (s : Scanline) : StyledScanline :=
  StyledScanline.new s.y s.xs s.xe
    (mirroredRange (hit it.scanlines.center2x it.fillThreshold s.y) s.xs s.xe)

def StyledScanlinesIt.next (it : StyledScanlinesIt) : Option StyledScanline × StyledScanlinesIt :=
  match it.scanlines.next with
  | (some s, sl') => (some (it.style s), { it with scanlines := sl' })
  | (none, sl') => (none, { it with scanlines := sl' })

def StyledScanlinesIt.toListFuel : Nat → StyledScanlinesIt → List StyledScanline
  | 0, _ => []
  | fuel + 1, it =>
    match it.next with
    | (some s, it') => s :: toListFuel fuel it'
    | (none, _) => []

def StyledScanlinesIt.toList (it : StyledScanlinesIt) : List StyledScanline :=
  it.toListFuel ((it.scanlines.yEnd - it.scanlines.y).toNat + 1)

/-! ### `StyledDrawable::draw_styled` and `StyledPixels::pixels` -/

/-- The target calls of `circle.into_styled(style).draw(target)`. -/
def drawStyled (st : PrimStyle) (c : Circle) : List Call :=
  match st.effectiveStrokeColor, st.fillColor with
  | some sc, none =>
    drawLines sc none (styledScanlines (c.strokeArea st) (c.fillArea st)).toList
  | some sc, some fc =>
    drawLines sc (some fc) (styledScanlines (c.strokeArea st) (c.fillArea st)).toList
  | none, some fc => drawFillLines fc (c.fillArea st).scanlines.toList
  | none, none => []

/-- `circle.into_styled(style).pixels()` as an iterator state. -/
def styledPixelsIt (st : PrimStyle) (c : Circle) : StyledPixelsIt :=
  StyledPixelsIt.new (styledScanlines (c.strokeArea st) (c.fillArea st)).toList
    st.strokeColor st.fillColor

/-- What `draw_iter(styled.pixels())` receives. -/
def styledPixels (st : PrimStyle) (c : Circle) : Writes := (c.styledPixelsIt st).toList

end Circle
end EG
