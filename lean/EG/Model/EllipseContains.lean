/-
  EG.Model.EllipseContains — `primitives::ellipse::EllipseContains` (shared by `Ellipse` and by the
  corner quadrants of `RoundedRectangle`).
  Source: src/primitives/ellipse/mod.rs (`EllipseContains::new`, `contains`).
  Points are given in doubled coordinates relative to the centre (`2p - center_2x`).
  Unbounded `Nat` arithmetic: the real code computes in `u32` (being widened to `u64`); the
  products stay below 2^64 for sizes up to 1024 (range theorem in C08).
-/
import EG.Model.Circle
namespace EG

structure EllipseContains where
  a : Nat
  b : Nat
  threshold : Nat
  deriving DecidableEq, Repr, Inhabited

namespace EllipseContains

/-- `EllipseContains::new(size)`: `a = w^2`, `b = h^2`, threshold `a*b`, or the circle threshold
(with its special values for diameters <= 4) when `w = h`. -/
def new (size : Sz) : EllipseContains :=
  let a := size.w ^ 2
  let b := size.h ^ 2
  ⟨a, b, if size.w = size.h then diameterToThreshold size.w else b * a⟩

/-- `contains(point)`: `x = point.x^2`, `y = point.y^2`; circle case `x + y < threshold`,
otherwise `b*x + a*y < threshold`. -/
def contains (e : EllipseContains) (p : Pt) : Bool :=
  let x := (p.x ^ 2).toNat
  let y := (p.y ^ 2).toNat
  if e.a = e.b then decide (x + y < e.threshold) else decide (e.b * x + e.a * y < e.threshold)

end EllipseContains
end EG
