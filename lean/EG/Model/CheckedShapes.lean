/-
  EG.Model.CheckedShapes — checked kernels of `Circle`, `Ellipse`, `EllipseContains`
  (src/primitives/circle/mod.rs, src/primitives/ellipse/mod.rs, src/geometry/mod.rs), with the
  integer widths of the tree as it is NOW: `EllipseContains` squares in `u32` / `i32`, threshold
  and the weighted sum in `u64` (commit 848fbcc); `length_squared` in `i32`.
  `Chk.Old.*` keeps the arithmetic of the tree before the repair (all `u32`) for the witness
  theorems that show why the widening was needed.
-/
import EG.Model.Checked
import EG.Model.Ellipse
namespace EG.Chk
open EG

/-- `circle::diameter_to_threshold` (`u32`): `diameter.pow(2) - diameter / 2` for `diameter <= 4`,
else `diameter.pow(2)`. -/
def diameterToThreshold (d : Nat) : Option Nat :=
  if d ≤ 4 then do
    let sq ← chkU32 (d * d)
    subU sq (d / 2)
  else chkU32 (d * d)

/-- `PointExt::length_squared` (`i32`): `self.x.pow(2) + self.y.pow(2)`. -/
def lengthSquared (p : Pt) : Option Int := do
  let xx ← chkI32 (p.x * p.x)
  let yy ← chkI32 (p.y * p.y)
  chkI32 (xx + yy)

namespace Circle

/-- `Circle::center_2x`: `self.top_left * 2 + Size::new(radius, radius)`. -/
def center2x (c : EG.Circle) : Option Pt := do
  let radius := c.d - 1
  let t ← ptMul c.tl 2
  ptAddSize t ⟨radius, radius⟩

/-- `ContainsPoint::contains`: `delta = center_2x - point * 2`,
`distance = delta.length_squared() as u32`, `distance < threshold`. -/
def contains (c : EG.Circle) (p : Pt) : Option Bool := do
  let c2 ← center2x c
  let p2 ← ptMul p 2
  let delta ← ptSub c2 p2
  let ls ← lengthSquared delta
  let distance := i32AsU32 ls
  let t ← diameterToThreshold c.d
  pure (decide (distance < t))

/-- `Circle::with_center`. -/
def withCenter (center : Pt) (d : Nat) : Option EG.Circle := do
  let r ← Chk.withCenter center ⟨d, d⟩
  pure ⟨r.tl, d⟩

/-- `OffsetOutline::offset`: `2 * offset as u32` / `2 * (-offset) as u32` in `u32`. -/
def offset (c : EG.Circle) (o : Int) : Option EG.Circle := do
  if o ≥ 0 then do
    let tl ← ptSub c.tl ⟨o, o⟩
    let t ← chkU32 (2 * i32AsU32 o)
    pure ⟨tl, satAddU32 c.d t⟩
  else do
    let m ← chkI32 (-o)
    let t ← chkU32 (2 * i32AsU32 m)
    let ctr ← Chk.center c.boundingBox
    withCenter ctr (c.d - t)

end Circle

namespace EllipseContains

/-- `EllipseContains::new`: `a = width.pow(2)`, `b = height.pow(2)` in `u32`; the threshold is
`diameter_to_threshold(width) as u64` for circles, else `b as u64 * a as u64`. -/
def new (size : Sz) : Option EG.EllipseContains := do
  let a ← chkU32 (size.w ^ 2)
  let b ← chkU32 (size.h ^ 2)
  let threshold ←
    if size.w = size.h then diameterToThreshold size.w
    else chkU64 (b * a)
  pure ⟨a, b, threshold⟩

/-- `EllipseContains::contains`: `x = point.x.pow(2) as u64` (the square in `i32`), circles
`x + y < threshold`, else `b as u64 * x + a as u64 * y < threshold` in `u64`. -/
def contains (e : EG.EllipseContains) (p : Pt) : Option Bool := do
  let xx ← chkI32 (p.x ^ 2)
  let yy ← chkI32 (p.y ^ 2)
  let x := xx.toNat
  let y := yy.toNat
  if e.a = e.b then do
    let s ← chkU64 (x + y)
    pure (decide (s < e.threshold))
  else do
    let bx ← chkU64 (e.b * x)
    let ay ← chkU64 (e.a * y)
    let s ← chkU64 (bx + ay)
    pure (decide (s < e.threshold))

end EllipseContains

namespace Ellipse

/-- `ellipse::center_2x(top_left, size)`: `top_left * 2 + size.saturating_sub(Size::new(1, 1))`. -/
def center2xOf (tl : Pt) (size : Sz) : Option Pt := do
  let t ← ptMul tl 2
  ptAddSize t ⟨size.w - 1, size.h - 1⟩

def center2x (e : EG.Ellipse) : Option Pt := center2xOf e.tl e.size

/-- `ContainsPoint::contains`: `EllipseContains::new(size).contains(point * 2 - center_2x)`. -/
def contains (e : EG.Ellipse) (p : Pt) : Option Bool := do
  let ec ← EllipseContains.new e.size
  let p2 ← ptMul p 2
  let c2 ← center2x e
  let q ← ptSub p2 c2
  EllipseContains.contains ec q

/-- `Ellipse::with_center`. -/
def withCenter (center : Pt) (size : Sz) : Option EG.Ellipse := do
  let r ← Chk.withCenter center size
  pure ⟨r.tl, size⟩

/-- `OffsetOutline::offset`. -/
def offset (e : EG.Ellipse) (o : Int) : Option EG.Ellipse := do
  if o ≥ 0 then do
    let tl ← ptSub e.tl ⟨o, o⟩
    let t ← chkU32 (2 * i32AsU32 o)
    pure ⟨tl, e.size.satAdd (Sz.newEqual t)⟩
  else do
    let m ← chkI32 (-o)
    let t ← chkU32 (2 * i32AsU32 m)
    let ctr ← Chk.center e.boundingBox
    withCenter ctr (e.size.satSub (Sz.newEqual t))

end Ellipse

/-! ## The arithmetic before commit 848fbcc (all `u32`), for the witness theorems -/

namespace Old

/-- threshold `b * a` in `u32`; `contains`: `b * x + a * y` in `u32`. -/
def ellipseNew (size : Sz) : Option EG.EllipseContains := do
  let a ← chkU32 (size.w ^ 2)
  let b ← chkU32 (size.h ^ 2)
  let threshold ←
    if size.w = size.h then diameterToThreshold size.w
    else chkU32 (b * a)
  pure ⟨a, b, threshold⟩

def ellipseContains (e : EG.EllipseContains) (p : Pt) : Option Bool := do
  let xx ← chkI32 (p.x ^ 2)
  let yy ← chkI32 (p.y ^ 2)
  let x := xx.toNat
  let y := yy.toNat
  if e.a = e.b then do
    let s ← chkU32 (x + y)
    pure (decide (s < e.threshold))
  else do
    let bx ← chkU32 (e.b * x)
    let ay ← chkU32 (e.a * y)
    let s ← chkU32 (bx + ay)
    pure (decide (s < e.threshold))

end Old

end EG.Chk
