/-
  EG.Model.StyledArc — `Styled<Arc, PrimitiveStyle<C>>`, arm for arm.
  Source: src/primitives/arc/styled.rs (`StyledPixelsIterator::new`, `Iterator::next`,
  `StyledDrawable::draw_styled`, `StyledPixels::pixels`, `StyledDimensions::styled_bounding_box`),
  src/primitives/common/distance_iterator.rs (`DistanceIterator::empty`),
  src/primitives/primitive_style.rs (through `EG.Model.Style`).

  Trigonometry is not modelled: as in `EG.Model.Sector` the arc holds the `PlaneSector` value that
  `PlaneSector::new(angle_start, angle_sweep)` returns (operation tag + two integer normals, from the
  real code through the hook `verif_hooks::plane_sector`). Everything after that call is integer
  code and is modelled here:
    * the stroke is the ring between two concentric circles, `circle.offset(outside_stroke_width)`
      (outer edge; its bounding box is iterated, its threshold is the strict upper bound of the
      squared distance) and `circle.offset(-inside_stroke_width)` (inner edge; its threshold is the
      inclusive lower bound);
    * a point of the ring is drawn iff `plane_sector.contains(delta)`, `delta = 2 p - center_2x`;
    * the colour is `style.stroke_color` (NOT `effective_stroke_color`: with width 0 the ring is
      empty because both thresholds coincide); a style without stroke colour ends `next` at once;
    * a transparent style iterates `DistanceIterator::empty()`;
    * `draw_styled` is literally `target.draw_iter(StyledPixelsIterator::new(..))`: one call, also for
      a transparent style (then with no pixels).

  Unbounded `Int`/`Nat`; the saturating conversions of the stroke widths are modelled
  (`Style.strokeOffset` / `Style.fillOffset`); plain `+ - *` are mathematical (C08's topic).
-/
import EG.Model.Sector
import EG.Model.Style
namespace EG

/-- `DistanceIterator::empty()`: `center_2x = Point::zero()`, `rectangle::Points::empty()`. -/
def DistIt.empty : DistIt := ⟨⟨0, 0⟩, Rect.PointsIt.empty⟩

namespace Arc

/-- `arc::styled::StyledPixelsIterator<C>` -/
structure StyledPixelsIt where
  iter : DistIt
  planeSector : PlaneSector
  outerThreshold : Nat
  innerThreshold : Nat
  strokeColor : Option Color
  deriving DecidableEq, Repr

/-- The outer edge of the stroke: `circle.offset(style.outside_stroke_width().saturating_as())`. -/
def outsideEdge (st : Style) (a : Arc) : Circle := a.toCircle.offset st.strokeOffset

/-- The inner edge of the stroke:
`circle.offset(-style.inside_stroke_width().saturating_as::<i32>())`. -/
def insideEdge (st : Style) (a : Arc) : Circle := a.toCircle.offset st.fillOffset

/-- `StyledPixelsIterator::new(primitive, style)` -/
def styledPixelsIt (st : Style) (a : Arc) : StyledPixelsIt :=
  let outsideEdge := a.outsideEdge st
  let insideEdge := a.insideEdge st
  let iter := if !st.isTransparent then outsideEdge.distances else DistIt.empty
  { iter := iter
    planeSector := a.ps
    outerThreshold := outsideEdge.threshold
    innerThreshold := insideEdge.threshold
    strokeColor := st.stroke }

/-- The closure of `find`: `*distance < self.outer_threshold && *distance >= self.inner_threshold
&& self.plane_sector.contains(*delta)` -/
def StyledPixelsIt.pred (it : StyledPixelsIt) (x : DistItem) : Bool :=
  decide (x.2.2 < it.outerThreshold) && decide (x.2.2 ≥ it.innerThreshold) &&
    it.planeSector.contains x.2.1

/-- `Iterator::next`: `let stroke_color = self.stroke_color?;` then
`self.iter.find(..).map(|(point, ..)| Pixel(point, stroke_color))`. -/
def StyledPixelsIt.next (it : StyledPixelsIt) : Option ((Pt × Color) × StyledPixelsIt) :=
  match it.strokeColor with
  | none => none
  | some c =>
    match it.iter.find it.pred with
    | none => none
    | some (x, iter') => some ((x.1, c), { it with iter := iter' })

def StyledPixelsIt.toListFuel : Nat → StyledPixelsIt → Writes
  | 0, _ => []
  | fuel + 1, it =>
    match it.next with
    | some (w, it') => w :: toListFuel fuel it'
    | none => []

/-- What a `for` loop over `arc.into_styled(style).pixels()` sees (what `draw_iter` receives). -/
def styledPixels (st : Style) (a : Arc) : Writes :=
  let it := a.styledPixelsIt st
  it.toListFuel (it.iter.points.budget + 1)

/-- `StyledDrawable::draw_styled`: `target.draw_iter(StyledPixelsIterator::new(self, style))`. -/
def drawStyled (st : Style) (a : Arc) : List Call := [Call.drawIter (a.styledPixels st)]

/-- `StyledDimensions::styled_bounding_box`:
`self.bounding_box().offset(style.outside_stroke_width().saturating_as())` (the angles are not
taken into account: FIXME #405 in the source). -/
def styledBoundingBox (st : Style) (a : Arc) : Rect := a.boundingBox.offset st.strokeOffset

end Arc
end EG
