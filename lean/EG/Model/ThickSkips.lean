/-
  EG.Model.ThickSkips — counting the `Extra` perpendicular steps that `ParallelsIterator::next_parallel`
  takes WITHOUT returning a parallel ("skipped" steps: the parallel error did not wrap), the quantity
  behind the known finding `C17:thick-band:wide-stroke-overcount`. These are observers of the model
  `EG.Thick.ParallelsIterator` (EG/Model/ThickLine.lean), written as a second recursion over the same
  `loop`: `skipsFuel` mirrors `nextParallelFuel` arm for arm and counts its tail calls. The harness
  computes the same counters with its port of the loop (`joins_port::skipped_extras`,
  harness/src/m_thick.rs); the stream `thick.skips` compares the two.
-/
import EG.Model.ThickLine
namespace EG
namespace Thick
open ParallelsIterator

/-- The number of `Extra` perpendicular steps one call of `next_parallel(side)` skips (takes
without returning a parallel): the recursion of `nextParallelFuel`, counting its tail calls. -/
def skipsFuel : Nat → ParallelsIterator → LineSide → Nat
  | 0, _, _ => 0
  | fuel + 1, it, side =>
    let decreaseError := match side with
      | .left => it.flip
      | .right => !it.flip
    let (point, it) := match side with
      | .left =>
        let (p, b) := it.left.nextAll it.perpendicularParameters
        (p, { it with left := b })
      | .right =>
        let (p, b) := it.right.previousAll it.perpendicularParameters
        (p, { it with right := b })
    match point with
    | .normal _ => 0
    | .extra _ =>
      if decreaseError then
        let (e, stepped) := it.parallelParameters.decreaseError (it.sideError side)
        let it := it.setSideError side e
        if stepped then 0 else skipsFuel fuel it side + 1
      else
        let (e, stepped) := it.parallelParameters.increaseError (it.sideError side)
        let it := it.setSideError side e
        if stepped then 0 else skipsFuel fuel it side + 1

/-- The total numbers of `Extra` perpendicular steps the iterator skips on the left / right side
from the state `it` to the end of the run (`fuel` bounds the number of `next` calls; `none` = bound
exceeded). For the fresh iterator of a stroke these are the two counters of the harness port
`joins_port::skipped_extras` (harness/src/m_thick.rs; the call of `next_parallel` inside
`ParallelsIterator::new` starts from error 0 and never skips). -/
def skipTotals : Nat → ParallelsIterator → Option (Nat × Nat)
  | 0, _ => none
  | f + 1, it =>
    match it.next with
    | none => none
    | some (none, _) => some (0, 0)
    | some (some _, it') =>
      match skipTotals f it' with
      | none => none
      | some (a, b) =>
        match it.nextSide with
        | .left => some (a + skipsFuel loopFuel it .left, b)
        | .right => some (a, b + skipsFuel loopFuel it .right)

/-- The number of parallels the iterator yields from the state `it` (`none` = fuel exceeded). -/
def parCount : Nat → ParallelsIterator → Option Nat
  | 0, _ => none
  | f + 1, it =>
    match it.next with
    | none => none
    | some (none, _) => some 0
    | some (some _, it') =>
      match parCount f it' with
      | none => none
      | some n => some (n + 1)

/-- `thick.skips`: skipped `Extra` steps on the left / right side and the number of parallels of
`ParallelsIterator::new(line, width.saturating_as(), StrokeOffset::None)` run to its end. -/
def skipReport (line : Line) (width : Nat) : Option (Nat × Nat × Nat) :=
  match ParallelsIterator.new line (satAsI32 width) .none with
  | none => none
  | some it =>
    let fuel := it.thicknessThreshold.toNat + 2
    match skipTotals fuel it, parCount fuel it with
    | some (a, b), some n => some (a, b, n)
    | _, _ => none

end Thick
end EG
