/-
  EG.Model.CheckedSegment — checked kernels of the thick polyline / triangle scanline machinery
  above the join code (all `i32`):

    * `Line::midpoint` (src/primitives/line/mod.rs l. 175-177): `start + (end - start) / 2`;
      `Line::bounding_box` (l. 69-71): `Rectangle::with_corners(start, end)`;
    * `LineJoin::{cap, start_cap_lines, end_cap_lines}` (src/primitives/common/line_join.rs
      l. 235-256): the midpoint of the filler line;
    * `ThickSegment::{edges_bounding_box, intersection}` (common/thick_segment.rs l. 46-95):
      `Rectangle::with_corners` of the component-wise extremes; up to six
      `Scanline::bresenham_intersection` (cap lines, then both edges);
    * the `fold` over `edges_bounding_box` of `polyline::styled::untranslated_bounding_box`
      (polyline/styled.rs l. 20-35) and `triangle::styled_bounding_box` (triangle/styled.rs
      l. 128-150): `bb.bottom_right()` per segment, `Rectangle::with_corners(min, max)` at the end;
    * merging per-segment scanlines: `Scanline::try_extend` (`Chk.Scanline.tryExtend`, used by
      `polyline::ScanlineIntersections::next` and the `edge_intersections` closure of the triangle),
      `Scanline::to_rectangle` in `draw_thick` / `draw_styled`, `p + translate` in the polyline's
      `StyledPixelsIterator::next`; `rows()` is saturating.
  The joins themselves (`LineJoin::from_points`: extents, intersections, miter test) are the
  kernels of Model/CheckedLine.lean.
-/
import EG.Model.CheckedScanline
import EG.Model.ThickSegment
namespace EG.Chk.Joins
open EG EG.Joins

/-- `Line::midpoint`: `self.start + (self.end - self.start) / 2`. -/
def midpoint (l : Line) : Option Pt := do
  let d ← ptSub l.stop l.start
  ptAdd l.start ⟨tdiv2 d.x, tdiv2 d.y⟩

/-- `Line::bounding_box`. -/
def lineBoundingBox (l : Line) : Option Rect := withCorners l.start l.stop

/-- `LineJoin::cap`. -/
def cap (j : LineJoin) (c : EdgeCorners) : Option (Line × Option Line) :=
  match j.fillerLine with
  | some filler => do
    let mp ← midpoint filler
    pure (⟨c.left, mp⟩, some ⟨mp, c.right⟩)
  | none => pure (⟨c.left, c.right⟩, none)

namespace ThickSegment

/-- `edges_bounding_box`. -/
def edgesBoundingBox (s : EG.Joins.ThickSegment) : Option Rect :=
  let right := s.edges.1
  let left := s.edges.2
  if s.isSkeleton then lineBoundingBox right
  else
    withCorners
      (((right.start.componentMin right.stop).componentMin left.start).componentMin left.stop)
      (((right.start.componentMax right.stop).componentMax left.start).componentMax left.stop)

/-- The lines whose Bresenham intersections `intersection` accumulates, in order. -/
def outline (s : EG.Joins.ThickSegment) : Option (List Line) :=
  if s.isSkeleton then pure [s.edges.1]
  else do
    let optl : Option Line → List Line := fun o => match o with | some l => [l] | none => []
    let a ← cap s.startJoin s.startJoin.secondEdgeStart
    let b ← cap s.endJoin s.endJoin.firstEdgeEnd
    pure ([a.1] ++ optl a.2 ++ [b.1] ++ optl b.2 ++ [s.edges.1, s.edges.2])

def bintAll : List Line → EG.Scanline → Option EG.Scanline
  | [], s => some s
  | l :: rest, s => do
    let s ← Scanline.bresenhamIntersection s l
    bintAll rest s

/-- `intersection(scanline_y)`. -/
def intersection (s : EG.Joins.ThickSegment) (scanlineY : Int) : Option EG.Scanline := do
  let ls ← outline s
  bintAll ls (EG.Scanline.newEmpty scanlineY)

end ThickSegment

/-- One step of the `fold` over `edges_bounding_box`. -/
def foldBoxStep (acc : Pt × Pt) (seg : EG.Joins.ThickSegment) : Option (Pt × Pt) := do
  let bb ← ThickSegment.edgesBoundingBox seg
  let br ← bottomRight bb
  pure (acc.1.componentMin bb.tl, acc.2.componentMax (br.getD bb.tl))

def foldBoxes : List EG.Joins.ThickSegment → Pt × Pt → Option (Pt × Pt)
  | [], acc => some acc
  | s :: rest, acc => do
    let acc ← foldBoxStep acc s
    foldBoxes rest acc

/-- The whole fold, from `(i32::MAX, i32::MIN)`, and the final `Rectangle::with_corners`. -/
def foldEdgeBoxes (segs : List EG.Joins.ThickSegment) : Option Rect := do
  let r ← foldBoxes segs (⟨2147483647, 2147483647⟩, ⟨-2147483648, -2147483648⟩)
  withCorners r.1 r.2

end EG.Chk.Joins
