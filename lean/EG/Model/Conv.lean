/-
  EG.Model.Conv — the colour conversions of core/src/pixelcolor/conversion.rs, written once over
  pairs of `ColorSpec`s. Which pairs exist (and of which kind) is `EG.Generated.convTable`; the
  numeric literals (`SHIFT`, luma weights, thresholds, gray constants) are generated too.

    convert_channel::<FROM_MAX, TO_MAX>(value)
        if TO_MAX != FROM_MAX { ((value * ((TO_MAX << SHIFT) / FROM_MAX) + (1 << (SHIFT-1))) >> SHIFT) as u8 } else { value }
    luma(c: Rgb888) = ((r*77 + g*150 + b*29 + 128) / 256) as u8
    impl_rgb_conversion!        B::new(cc(r), cc(g), cc(b))
    impl_gray_conversion!       B::new(cc(luma))
    impl_rgb_to_and_from_gray!  gray -> rgb: B::new(cc(luma), cc(luma), cc(luma));
                                rgb -> gray: Gray8::new(luma(Rgb888::from(other))).into()
    impl_from_binary!           color.map_color(Self::BLACK, Self::WHITE)
    impl_gray_to_binary!        color.luma() >= GRAY_50.luma()
    impl_rgb_to_binary!         luma(Rgb888::from(color)) >= 128

  `X::from(y)` with `y : X` is the reflexive `impl From<T> for T` (identity); this happens for
  `Rgb888::from(other)` when the source is `Rgb888` and for `.into()` when the target is `Gray8`.
  The intermediate products stay below 2^32 (u32) resp. 2^16 (u16) for channel values within their
  maxima; they are modelled mathematically (overflow is C08's topic).
-/
import EG.Generated.ColorTable
import EG.Generated.ConvTable
namespace EG.Conv
open EG EG.Generated EG.ColorSpec

def findSpec (name : String) : Option ColorSpec := colorTable.find? (fun s => s.name == name)

/-- `convert_channel::<FROM_MAX, TO_MAX>(value)` -/
def convertChannel (fromMax toMax v : Nat) : Nat :=
  if toMax ≠ fromMax then
    ((v * ((toMax <<< ccShift) / fromMax) + (1 <<< (ccShift - 1))) >>> ccShift) % 256
  else v

/-- `MAX_LUMA = 0xFF >> (8 - BITS_PER_PIXEL)` -/
def maxLuma (s : ColorSpec) : Nat := grayMaxLit >>> (grayMaxShiftBase - s.rawBpp)

/-- `GRAY_50 = Self::new(0x80 >> (8 - BITS_PER_PIXEL))` -/
def gray50 (s : ColorSpec) : Nat := s.grayNew (gray50Lit >>> (gray50ShiftBase - s.rawBpp))

/-- `BLACK` (`BinaryColor`: `Off`, the value `map_color` / the thresholds treat as dark) -/
def black (s : ColorSpec) : Nat :=
  match s.kind with
  | .binary => 0
  | .gray => s.grayNew grayBlackArg
  | .rgb | .bgr => s.rgbNew 0 0 0

/-- `WHITE` (`BinaryColor`: `On`) -/
def white (s : ColorSpec) : Nat :=
  match s.kind with
  | .binary => 1
  | .gray => s.grayNew grayWhiteArg
  | .rgb | .bgr => s.rgbNew s.maxR s.maxG s.maxB

def rgbToRgb (a b : ColorSpec) (c : Nat) : Nat :=
  b.rgbNew (convertChannel a.maxR b.maxR (a.chanR c)) (convertChannel a.maxG b.maxG (a.chanG c))
    (convertChannel a.maxB b.maxB (a.chanB c))

def grayToGray (a b : ColorSpec) (c : Nat) : Nat :=
  b.grayNew (convertChannel (maxLuma a) (maxLuma b) (a.luma c))

def grayToRgb (a b : ColorSpec) (c : Nat) : Nat :=
  b.rgbNew (convertChannel (maxLuma a) b.maxR (a.luma c)) (convertChannel (maxLuma a) b.maxG (a.luma c))
    (convertChannel (maxLuma a) b.maxB (a.luma c))

/-- `luma(color)` on a value of the type `luma` takes -/
def lumaOf (v : ColorSpec) (c : Nat) : Nat :=
  ((v.chanR c * lumaWR + v.chanG c * lumaWG + v.chanB c * lumaWB + lumaRound) / lumaDiv) % 256

/-- `V::from(other)`: the identity when `other : V`, the RGB -> RGB conversion otherwise -/
def toVia (a v : ColorSpec) (c : Nat) : Nat := if a.name == v.name then c else rgbToRgb a v c

/-- `luma(Rgb888::from(other))` -/
def rgbLuma (a v : ColorSpec) (c : Nat) : Nat := lumaOf v (toVia a v c)

/-- `Gray8::new(intensity).into()` -/
def rgbToGray (a v g8 b : ColorSpec) (c : Nat) : Nat :=
  let g := g8.grayNew (rgbLuma a v c)
  if b.name == g8.name then g else grayToGray g8 b g

/-- `color.map_color(Self::BLACK, Self::WHITE)`: `On => WHITE`, `Off => BLACK` -/
def fromBinary (b : ColorSpec) (c : Nat) : Nat := if c = 1 then white b else black b

/-- `(color.luma() >= GRAY_50.luma()).into()` -/
def grayToBinary (a : ColorSpec) (c : Nat) : Nat := if a.luma c ≥ a.luma (gray50 a) then 1 else 0

/-- `(luma(Rgb888::from(color)) >= 128).into()` -/
def rgbToBinary (a v : ColorSpec) (c : Nat) : Nat := if rgbLuma a v c ≥ rgbBinaryThreshold then 1 else 0

/-- A conversion with its type names resolved to records. -/
structure Resolved where
  a : ColorSpec
  b : ColorSpec
  kind : ConvKind
  /-- the type `luma` takes and the gray type RGB -> gray builds first -/
  via : ColorSpec
  g8 : ColorSpec
  deriving DecidableEq

def resolve (e : ConvSpec) : Option Resolved :=
  match findSpec e.src, findSpec e.dst, findSpec lumaVia, findSpec grayVia with
  | some a, some b, some v, some g => some ⟨a, b, e.kind, v, g⟩
  | _, _, _, _ => none

/-- `B::from(c)` for a resolved conversion -/
def Resolved.apply (x : Resolved) (c : Nat) : Nat :=
  match x.kind with
  | .rgbRgb => rgbToRgb x.a x.b c
  | .grayGray => grayToGray x.a x.b c
  | .grayRgb => grayToRgb x.a x.b c
  | .rgbGray => rgbToGray x.a x.via x.g8 x.b c
  | .fromBinary => fromBinary x.b c
  | .grayBinary => grayToBinary x.a c
  | .rgbBinary => rgbToBinary x.a x.via c

/-- all generated conversions, resolved (`resolvedTable.length = convTable.length` is proved in C13) -/
def resolvedTable : List Resolved := convTable.filterMap resolve

def convert (e : ConvSpec) (c : Nat) : Option Nat := (resolve e).map (fun x => x.apply c)

/-- the source colour of a conversion op from up to three channel arguments -/
def mkColor (s : ColorSpec) (x y z : Nat) : Nat :=
  match s.kind with
  | .binary => if x ≠ 0 then 1 else 0
  | .gray => s.grayNew x
  | .rgb | .bgr => s.rgbNew x y z

end EG.Conv
