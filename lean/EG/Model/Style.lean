/-
  EG.Model.Style — `embedded_graphics::primitives::PrimitiveStyle` (solid stroke), arm for arm.
  Source: src/primitives/primitive_style.rs.

  `stroke_style` is not a field of the model: `StrokeStyle::Dotted` is outside every property
  (all of them say "with a solid stroke"), so the model is the `StrokeStyle::Solid` instance of
  every method (`fill_area` takes its first branch).
  A colour is a `Nat` (raw value), `Option Color` = `Option<C>`; `width : Nat` = `stroke_width: u32`.
  Shared by the styled rectangle / circle / ellipse / rounded rectangle / sector models: the
  shape-specific part is only `OffsetOutline::offset` applied to `strokeOffset` / `fillOffset`.
-/
import EG.Model.Target
namespace EG

/-- `StrokeAlignment` (op token: 0 = Inside, 1 = Center, 2 = Outside). -/
inductive StrokeAlignment | inside | center | outside
  deriving DecidableEq, Repr, Inhabited

/-- `PrimitiveStyle<C>` with `stroke_style = Solid`. -/
structure Style where
  fill : Option Color      -- fill_color
  stroke : Option Color    -- stroke_color
  width : Nat              -- stroke_width
  align : StrokeAlignment  -- stroke_alignment
  deriving DecidableEq, Repr, Inhabited

namespace Style

/-- `outside_stroke_width`. -/
def outsideStrokeWidth (s : Style) : Nat :=
  match s.align with
  | .inside => 0
  | .center => s.width / 2
  | .outside => s.width

/-- `inside_stroke_width` (`stroke_width.saturating_add(1) / 2` for `Center`). -/
def insideStrokeWidth (s : Style) : Nat :=
  match s.align with
  | .inside => s.width
  | .center => satAddU32 s.width 1 / 2
  | .outside => 0

/-- `is_transparent`. -/
def isTransparent (s : Style) : Bool :=
  (s.stroke.isNone || s.width == 0) && s.fill.isNone

/-- `effective_stroke_color`: `stroke_color.filter(|_| stroke_width > 0)`. -/
def effectiveStrokeColor (s : Style) : Option Color :=
  s.stroke.filter (fun _ => decide (s.width > 0))

/-- The offset handed to `OffsetOutline::offset` by `stroke_area` (and by every
`styled_bounding_box`): `outside_stroke_width().saturating_as::<i32>()`. -/
def strokeOffset (s : Style) : Int := satAsI32 s.outsideStrokeWidth

/-- The offset handed to `OffsetOutline::offset` by `fill_area` (solid stroke):
`-inside_stroke_width().saturating_as::<i32>()`. -/
def fillOffset (s : Style) : Int := -(satAsI32 s.insideStrokeWidth)

end Style
end EG
