/-
  EG.Model.LineSrcPrelude — the meaning of the Rust names that the GENERATED file EG/Generated/LineSrc.lean
  (written by tools/tr_linesrc.py from /repo's src/primitives/line/{bresenham,points,mod}.rs) calls, in addition to
  EG/Model/RectSrcPrelude.lean (integer / bool primitives, `Point`).

  TRUSTED BASE, and nothing but names: the structs of the line code ARE the hand model's structures
  (EG/Model/Bresenham.lean, EG/Model/Line.lean); this file only says which Rust field is which field of the model.
  The translator checks the Rust `struct` / `enum` declarations against exactly these field lists
  (`EXPECTED_STRUCTS` / `EXPECTED_DATA_ENUMS` of tools/tr_linesrc.py) and refuses to translate when they differ.

  * `Line { start, end }`                                     = `EG.Line` (`end` is the model's `stop`)
  * `MajorMinor<i32>`, `MajorMinor<Point>` (monomorphised)    = `EG.MajorMinor Int`, `EG.MajorMinor Pt`
  * `BresenhamParameters { error_threshold, error_step, position_step }` = `EG.BresenhamParameters`
  * `Bresenham { point, error }`                              = `EG.Bresenham`
  * `enum BresenhamPoint { Normal(Point), Extra(Point) }`     = `EG.BresenhamPoint`
  * `line::Points { parameters, bresenham, points_remaining }` = `EG.Line.PointsIt`
  `X_mk` is the struct literal, `X_f` reads field `f`, `X_set_f` is the assignment `x.f = v`.
  Every definition is an `abbrev` (see the note in RectSrcPrelude.lean). No arithmetic is defined here.
-/
import EG.Model.RectSrcPrelude
import EG.Model.Line
namespace EG.LineSrcPrelude
open EG.RectSrcPrelude

abbrev Line := EG.Line
abbrev Line_mk (start end_ : Point) : Line := ⟨start, end_⟩
abbrev Line_start (l : Line) : Point := l.start
abbrev Line_end (l : Line) : Point := l.stop
abbrev Line_set_start (l : Line) (v : Point) : Line := ⟨v, l.stop⟩
abbrev Line_set_end (l : Line) (v : Point) : Line := ⟨l.start, v⟩

abbrev MajorMinor_i32 := EG.MajorMinor Int
abbrev MajorMinor_i32_mk (major minor : Int) : MajorMinor_i32 := ⟨major, minor⟩
abbrev MajorMinor_i32_major (m : MajorMinor_i32) : Int := m.major
abbrev MajorMinor_i32_minor (m : MajorMinor_i32) : Int := m.minor
abbrev MajorMinor_i32_set_major (m : MajorMinor_i32) (v : Int) : MajorMinor_i32 := ⟨v, m.minor⟩
abbrev MajorMinor_i32_set_minor (m : MajorMinor_i32) (v : Int) : MajorMinor_i32 := ⟨m.major, v⟩

abbrev MajorMinor_Point := EG.MajorMinor EG.Pt
abbrev MajorMinor_Point_mk (major minor : Point) : MajorMinor_Point := ⟨major, minor⟩
abbrev MajorMinor_Point_major (m : MajorMinor_Point) : Point := m.major
abbrev MajorMinor_Point_minor (m : MajorMinor_Point) : Point := m.minor
abbrev MajorMinor_Point_set_major (m : MajorMinor_Point) (v : Point) : MajorMinor_Point := ⟨v, m.minor⟩
abbrev MajorMinor_Point_set_minor (m : MajorMinor_Point) (v : Point) : MajorMinor_Point := ⟨m.major, v⟩

abbrev BresenhamParameters := EG.BresenhamParameters
abbrev BresenhamParameters_mk (error_threshold : Int) (error_step : MajorMinor_i32) (position_step : MajorMinor_Point) :
    BresenhamParameters := ⟨error_threshold, error_step, position_step⟩
abbrev BresenhamParameters_error_threshold (p : BresenhamParameters) : Int := p.errorThreshold
abbrev BresenhamParameters_error_step (p : BresenhamParameters) : MajorMinor_i32 := p.errorStep
abbrev BresenhamParameters_position_step (p : BresenhamParameters) : MajorMinor_Point := p.positionStep
abbrev BresenhamParameters_set_error_threshold (p : BresenhamParameters) (v : Int) : BresenhamParameters :=
  ⟨v, p.errorStep, p.positionStep⟩
abbrev BresenhamParameters_set_error_step (p : BresenhamParameters) (v : MajorMinor_i32) : BresenhamParameters :=
  ⟨p.errorThreshold, v, p.positionStep⟩
abbrev BresenhamParameters_set_position_step (p : BresenhamParameters) (v : MajorMinor_Point) : BresenhamParameters :=
  ⟨p.errorThreshold, p.errorStep, v⟩

abbrev Bresenham := EG.Bresenham
abbrev Bresenham_mk (point : Point) (error : Int) : Bresenham := ⟨point, error⟩
abbrev Bresenham_point (b : Bresenham) : Point := b.point
abbrev Bresenham_error (b : Bresenham) : Int := b.error
abbrev Bresenham_set_point (b : Bresenham) (v : Point) : Bresenham := ⟨v, b.error⟩
abbrev Bresenham_set_error (b : Bresenham) (v : Int) : Bresenham := ⟨b.point, v⟩

abbrev BresenhamPoint := EG.BresenhamPoint
@[match_pattern] abbrev BresenhamPoint_Normal (p : Point) : BresenhamPoint := .normal p
@[match_pattern] abbrev BresenhamPoint_Extra (p : Point) : BresenhamPoint := .extra p

abbrev Points := EG.Line.PointsIt
abbrev Points_mk (parameters : BresenhamParameters) (bresenham : Bresenham) (points_remaining : Nat) : Points :=
  ⟨parameters, bresenham, points_remaining⟩
abbrev Points_parameters (p : Points) : BresenhamParameters := p.parameters
abbrev Points_bresenham (p : Points) : Bresenham := p.bresenham
abbrev Points_points_remaining (p : Points) : Nat := p.pointsRemaining
abbrev Points_set_parameters (p : Points) (v : BresenhamParameters) : Points := ⟨v, p.bresenham, p.pointsRemaining⟩
abbrev Points_set_bresenham (p : Points) (v : Bresenham) : Points := ⟨p.parameters, v, p.pointsRemaining⟩
abbrev Points_set_points_remaining (p : Points) (v : Nat) : Points := ⟨p.parameters, p.bresenham, v⟩

end EG.LineSrcPrelude
