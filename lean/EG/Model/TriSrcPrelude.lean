/-
  EG.Model.TriSrcPrelude — the meaning of every Rust primitive that the GENERATED file
  EG/Generated/TriSrc.lean (written by tools/tr_trisrc.py from /repo's Rust text of `Triangle`, its
  `ScanlineIterator` / `Points` and of `Polyline` / `polyline::Points`) calls and that
  EG/Model/RectSrcPrelude.lean does not already define.

  TRUSTED BASE (with RectSrcPrelude, whose conventions hold here too: `i32` is `Int`, plain `+ - *` are
  mathematical, references are transparent, a method that mutates its receiver returns the updated receiver).

  * `Triangle { vertices: [Point; 3] }` IS the hand model's `EG.Triangle` (three named vertices); a `[T; 3]` is a
    triple, `a[i]` with a literal `i < 3` (the translator refuses anything else) a projection.
  * `Polyline { translate, vertices: &[Point] }` IS `EG.Polyline`; a slice is a `List`.
  * `Ordering` is Lean's; `i32::cmp` compares.
  * `Option` combinators, `slice::split_first / first`, `Iterator::chain / any` on iterators that are consumed at once
    (an iterator value is the list of the items it yields), `Iterator::nth` (default body: `advance_by(n)` then
    `next`, stopping at the first `None`) over a given `next`.
  * `panic!` is an arbitrary value (`default`): the theorems say nothing about inputs that reach it.
  * NOT REGENERATED, bound to the hand models: `Scanline` (src/primitives/common/scanline.rs: the struct,
    `new_empty`, `Iterator::next`, `bresenham_intersection`, `try_take`), `Line::new`, `line::Points` (`Line::points`,
    `Points::empty`, `Iterator::next`, the items of a whole iteration), and the iterator returned by
    `ScanlineIntersections::edge_intersections` (thick strokes; yields `None` at once for stroke width 0).
    `Triangle::is_collapsed` (thick strokes) is an unspecified (`opaque`) function.

  Every definition is an `abbrev` (see RectSrcPrelude) except the recursive `iterator_nth`.
-/
import EG.Model.RectSrcPrelude
import EG.Model.Triangle
import EG.Model.Polyline
namespace EG.TriSrcPrelude
open EG EG.RectSrcPrelude

/-! ### arrays of three, tuples, slices -/

abbrev array3_mk {α : Type} (a b c : α) : α × α × α := (a, b, c)
/-- `a[i]` for a literal `i < 3`. -/
abbrev array3_index {α : Type} (a : α × α × α) (i : Nat) : α :=
  match i with
  | 0 => a.1
  | 1 => a.2.1
  | _ => a.2.2
abbrev tuple2_0 {α β : Type} (p : α × β) : α := p.1
abbrev tuple2_1 {α β : Type} (p : α × β) : β := p.2
abbrev slice_empty {α : Type} : List α := []
/-- `<[T]>::first`. -/
abbrev slice_first {α : Type} (s : List α) : Option α :=
  match s with
  | [] => none
  | a :: _ => some a
/-- `<[T]>::split_first`. -/
abbrev slice_split_first {α : Type} (s : List α) : Option (α × List α) :=
  match s with
  | [] => none
  | a :: rest => some (a, rest)

/-! ### the structs that are hand models -/

abbrev Triangle_mk (vertices : Point × Point × Point) : EG.Triangle := ⟨vertices.1, vertices.2.1, vertices.2.2⟩
abbrev Triangle_vertices (t : EG.Triangle) : Point × Point × Point := (t.v1, t.v2, t.v3)
abbrev Polyline_mk (translate : Point) (vertices : List Point) : EG.Polyline := ⟨translate, vertices⟩
abbrev Polyline_translate (p : EG.Polyline) : Point := p.translate
abbrev Polyline_vertices (p : EG.Polyline) : List Point := p.vertices
abbrev Polyline_set_translate (p : EG.Polyline) (v : Point) : EG.Polyline := ⟨v, p.vertices⟩
abbrev Polyline_set_vertices (p : EG.Polyline) (v : List Point) : EG.Polyline := ⟨p.translate, v⟩
/-- derived `PartialEq` of `Point`. -/
abbrev Point_eq (a b : Point) : Bool := decide (a = b)
abbrev Point_ne (a b : Point) : Bool := decide (a ≠ b)

/-- `Ord::cmp` on `i32`. -/
abbrev i32_cmp (a b : Int) : Ordering := if a < b then .lt else if a = b then .eq else .gt

/-- `common::StrokeOffset`. -/
inductive StrokeOffset where
  | None | Left | Right
  deriving DecidableEq, Repr

/-! ### `Option`, consumed iterators, `panic!` -/

abbrev option_and_then {α β : Type} (o : Option α) (f : α → Option β) : Option β :=
  match o with
  | some v => f v
  | none => none
abbrev option_map {α β : Type} (o : Option α) (f : α → β) : Option β :=
  match o with
  | some v => some (f v)
  | none => none
abbrev option_unwrap_or_else {α : Type} (o : Option α) (f : Unit → α) : α :=
  match o with
  | some v => v
  | none => f ()
abbrev option_unwrap_or {α : Type} (o : Option α) (d : α) : α :=
  match o with
  | some v => v
  | none => d
abbrev option_or_else {α : Type} (o : Option α) (f : Unit → Option α) : Option α :=
  match o with
  | some v => some v
  | none => f ()
/-- `o.or_else(|| { .. })` whose closure writes to `self`: the closure runs (on the current `self`) only for `None`. -/
abbrev option_or_else_st {α σ : Type} (o : Option α) (s : σ) (f : σ → Option α × σ) : Option α × σ :=
  match o with
  | some v => (some v, s)
  | none => f s
/-- `a.chain(b)` of two iterators that are consumed at once. -/
abbrev iter_chain {α : Type} (a b : List α) : List α := a ++ b
/-- `Iterator::any`. -/
abbrev iter_any {α : Type} (l : List α) (f : α → Bool) : Bool := l.any f
/-- the default `Iterator::nth(n)`: `n` calls of `next`, `None` at once when one of them yields `None`, then `next`. -/
def iterator_nth {σ α : Type} (next : σ → Option α × σ) : Nat → σ → Option α × σ
  | 0, s => next s
  | n + 1, s =>
    match next s with
    | (none, s') => (none, s')
    | (some _, s') => iterator_nth next n s'
/-- `panic!(..)`: an arbitrary value. -/
abbrev rust_panic {α : Type} [Inhabited α] : α := default

/-! ### code that is not regenerated here: the hand models -/

abbrev Scanline_new_empty (y : Int) : EG.Scanline := Scanline.newEmpty y
/-- `Iterator::next` of `Scanline` (an exhausted range is not changed by `next`). -/
abbrev Scanline_next (s : EG.Scanline) : Option Point × EG.Scanline :=
  match s.next with
  | some (p, s') => (some p, s')
  | none => (none, s)
abbrev Scanline_bresenham_intersection (s : EG.Scanline) (l : EG.Line) : EG.Scanline := s.bint l
abbrev Line_new (a b : Point) : EG.Line := ⟨a, b⟩
abbrev Line_points (l : EG.Line) : EG.Line.PointsIt := Line.pointsIt l
abbrev LinePoints_empty : EG.Line.PointsIt := Line.PointsIt.empty
/-- `Iterator::next` of `line::Points` (`None` leaves the state as it is). -/
abbrev LinePoints_next (it : EG.Line.PointsIt) : Option Point × EG.Line.PointsIt :=
  match it.next with
  | some (p, it') => (some p, it')
  | none => (none, it)
/-- the items of a `line::Points` that is consumed at once. -/
abbrev LinePoints_into_iter (it : EG.Line.PointsIt) : List Point := it.toList
/-- `Scanline { y, x: Range<i32> }` is the hand model's record with the two ends of the range. -/
abbrev Scanline_mk (y : Int) (x : RangeI32) : EG.Scanline := ⟨y, x.start, x.end_⟩
abbrev Scanline_y (s : EG.Scanline) : Int := s.y
abbrev Scanline_x (s : EG.Scanline) : RangeI32 := ⟨s.xs, s.xe⟩
abbrev Scanline_set_y (s : EG.Scanline) (v : Int) : EG.Scanline := ⟨v, s.xs, s.xe⟩
abbrev Scanline_set_x (s : EG.Scanline) (v : RangeI32) : EG.Scanline := ⟨s.y, v.start, v.end_⟩
/-- `Scanline::try_take` (value, scanline after). -/
abbrev Scanline_try_take (s : EG.Scanline) : Option EG.Scanline × EG.Scanline := s.tryTake

/-- The iterator `ScanlineIntersections::edge_intersections(scanline_y)` returns: a `from_fn` closure over `idx`,
`left`, `right` (the hand model's `EdgeIt`) that reads `self.triangle`, `self.stroke_width`, `self.stroke_offset`.
Thick strokes (`LineJoin`, `ThickSegment`) are not regenerated: the hand model is used, which covers stroke widths
0 and 1 and `StrokeOffset::None` (the offset is carried but not consulted). For stroke width 0 (`points()`) it yields
`None` at once. -/
structure EdgeIntersections where
  triangle : EG.Triangle
  strokeWidth : Nat
  strokeOffset : StrokeOffset
  y : Int
  st : EG.EdgeIt
abbrev ScanlineIntersections_edge_intersections (triangle : EG.Triangle) (stroke_width : Nat)
    (stroke_offset : StrokeOffset) (scanline_y : Int) : EdgeIntersections :=
  ⟨triangle, stroke_width, stroke_offset, scanline_y, ⟨0, Scanline.newEmpty scanline_y, Scanline.newEmpty scanline_y⟩⟩
abbrev EdgeIntersections_next (e : EdgeIntersections) : Option EG.Scanline × EdgeIntersections :=
  ((e.st.next e.strokeWidth (fun idx => e.triangle.skeletonSeg idx e.y) e.y).1,
   { e with st := (e.st.next e.strokeWidth (fun idx => e.triangle.skeletonSeg idx e.y) e.y).2 })
/-- `Triangle::is_collapsed(stroke_width, stroke_offset)` (thick strokes; not regenerated and NOT modelled here): an
unspecified function. `ScanlineIntersections::new` only uses it in `.. && stroke_offset == StrokeOffset::Right`. -/
opaque Triangle_is_collapsed (t : EG.Triangle) (stroke_width : Nat) (stroke_offset : StrokeOffset) : Bool
/-- derived `PartialEq` of `StrokeOffset`. -/
abbrev StrokeOffset_eq (a b : StrokeOffset) : Bool := decide (a = b)
abbrev StrokeOffset_ne (a b : StrokeOffset) : Bool := decide (a ≠ b)

end EG.TriSrcPrelude
