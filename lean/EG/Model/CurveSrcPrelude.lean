/-
  EG.Model.CurveSrcPrelude — the meaning of the Rust primitives that the GENERATED file
  EG/Generated/CurveSrc.lean (written by tools/tr_curve.py from the Rust text of the circle / ellipse primitives)
  calls and that `EG/Model/RectSrcPrelude.lean` does not already define.

  TRUSTED BASE (with RectSrcPrelude, whose conventions apply: `i32` is `Int`, `u32` is `Nat`, plain `+ - *` are the
  mathematical operations, `as` casts wrap, shared references / `*` / `&` / `.clone()` of `Copy`-like values are
  transparent). Additions:

  * `u64` is `Nat` as well; `u32 as u64` is the identity, `i32 as u64` sign-extends (a negative value becomes
    `2^64 + v`); plain `+ *` on `u64` are mathematical (C08's topic where they overflow), `<` is `<`.
  * `pow` is exponentiation (`i32::pow` / `u32::pow` panic on overflow in a checked build: mathematical here).
  * `Range<i32>::clone` is the range; `Iterator::find` on such a (temporary) range is the first value of
    `start .. end` in ascending order that satisfies the predicate (`EG.irange` lists these values); the advanced
    temporary is dropped. `Iterator::find_map` on a range PLACE advances it (`range_i32_find_map`).
  * `Option::map` is `Option.map`, `Option::unwrap_or_else` evaluates its closure on `None`.
  Every definition is an `abbrev` (see the note in RectSrcPrelude). Import-free apart from EG.Basic / EG.Model.
-/
import EG.Model.RectSrcPrelude
import EG.Model.Target
namespace EG.CurveSrcPrelude
open EG EG.RectSrcPrelude

/-- `i32::pow` -/
abbrev i32_pow (a : Int) (n : Nat) : Int := a ^ n
/-- `u32::pow` -/
abbrev u32_pow (a : Nat) (n : Nat) : Nat := a ^ n

/-- `x as u64` for `x : u32` -/
abbrev u32_as_u64 (a : Nat) : Nat := a
/-- `x as u64` for `x : i32`: sign extension, then reinterpretation. -/
abbrev i32_as_u64 (a : Int) : Nat := if 0 ≤ a then a.toNat else (a + 18446744073709551616).toNat
abbrev u64_add (a b : Nat) : Nat := a + b
/-- `u64 - u64` (panics below 0 in a checked build; truncated here). -/
abbrev u64_sub (a b : Nat) : Nat := a - b
abbrev u64_mul (a b : Nat) : Nat := a * b
abbrev u64_div (a b : Nat) : Nat := a / b
abbrev u64_eq (a b : Nat) : Bool := decide (a = b)
abbrev u64_ne (a b : Nat) : Bool := decide (a ≠ b)
abbrev u64_lt (a b : Nat) : Bool := decide (a < b)
abbrev u64_le (a b : Nat) : Bool := decide (a ≤ b)
abbrev u64_gt (a b : Nat) : Bool := decide (a > b)
abbrev u64_ge (a b : Nat) : Bool := decide (a ≥ b)

/-- `Range<i32>::clone` -/
abbrev range_i32_clone (r : RangeI32) : RangeI32 := r
/-- `Iterator::find` on a temporary `Range<i32>`: the first value of `start..end` satisfying `f`. -/
abbrev range_i32_find (r : RangeI32) (f : Int → Bool) : Option Int := (irange r.start r.end_).find? f
/-- The loop of `Iterator::find_map` on a `Range<i32>` whose `n` remaining values start at `s`: take the next value,
return the first `Some` of `f` (the range stays advanced past that value), go on otherwise. -/
def range_i32_find_map_loop {β : Type} (f : Int → Option β) : Nat → Int → Int → Option β × RangeI32
  | 0, s, e => (none, ⟨s, e⟩)
  | n + 1, s, e =>
    match f s with
    | some v => (some v, ⟨s + 1, e⟩)
    | none => range_i32_find_map_loop f n (s + 1) e
/-- `Iterator::find_map` on a `Range<i32>` place (a method that advances its receiver: value and updated receiver).
An empty range (`!(start < end)`) is left as it is. -/
abbrev range_i32_find_map {β : Type} (r : RangeI32) (f : Int → Option β) : Option β × RangeI32 :=
  if r.start < r.end_ then range_i32_find_map_loop f (r.end_ - r.start).toNat r.start r.end_ else (none, r)
/-- `Option::map` -/
abbrev option_map {α β : Type} (o : Option α) (f : α → β) : Option β := o.map f
/-- `Option::unwrap_or_else` (the closure takes no argument) -/
abbrev option_unwrap_or_else {α : Type} (o : Option α) (f : Unit → α) : α :=
  match o with
  | some v => v
  | none => f ()
/-- `Option::filter` -/
abbrev option_filter {α : Type} (o : Option α) (f : α → Bool) : Option α :=
  match o with
  | some v => if f v then some v else none
  | none => none
/-- `==` on a field-less enum (`#[derive(PartialEq)]`) -/
abbrev enum_eq {α : Type} [DecidableEq α] (a b : α) : Bool := decide (a = b)

/-! ### functions that draw on a generic target

Such a function is translated to the list of target calls it makes on a target that never fails (see tools/tr_curve.py):
the hand models' `EG.Call`. -/

/-- `target.fill_solid(&area, color)` -/
abbrev Target_fill_solid (area : Rectangle) (color : EG.Color) : List EG.Call := [EG.Call.fillSolid area color]

/-- The items a `for` loop takes from an iterator given by its `next` (value, updated iterator): up to the first `None`,
on explicit fuel (`fuel` items at most: the theorems state how much suffices). -/
def iter_collect {σ α : Type} (next : σ → Option α × σ) : Nat → σ → List α
  | 0, _ => []
  | fuel + 1, s =>
    match next s with
    | (some a, s') => a :: iter_collect next fuel s'
    | (none, _) => []
/-- `for x in it { body(x)?; }` on a target that never fails: the calls of `body` for every item, in order. -/
abbrev for_calls {σ α : Type} (next : σ → Option α × σ) (body : α → List EG.Call) (fuel : Nat) (it : σ) : List EG.Call :=
  (iter_collect next fuel it).flatMap body

end EG.CurveSrcPrelude
