/-
  EG.Model.ThickTriangle — styled triangles (any stroke width, alignment, fill): bounding box,
  `draw`, `pixels()`.
  Source: src/primitives/triangle/mod.rs (`bounding_box`, `area_doubled`, `sorted_clockwise`,
            `sorted_yx`, `sort_two_yx`, `scanline_intersection`, `joins`, `is_collapsed`),
          src/primitives/triangle/scanline_intersections.rs (`ScanlineIntersections`, `LineConfig`,
            `edge_intersections`, `generate_lines`),
          src/primitives/triangle/scanline_iterator.rs (`ScanlineIterator`),
          src/primitives/triangle/styled.rs (`draw_styled`, `StyledPixelsIterator`,
            `styled_bounding_box`),
          src/primitives/common/mod.rs (`PointType`, `StrokeOffset::from(StrokeAlignment)`).
  Everything is in the namespace `EG.Joins` (the fill-only / one-pixel triangle model of the `tri`
  topic has its own `Triangle`; this one carries the join code for every width).
  Colours are `Nat`s; a style is `(fill?, stroke?, width, alignment)`.
  Outer `none` = a loop bound of `Line::extents` or of `StyledPixelsIterator::next` was exceeded
  ("stuck"); it never happens: `triStyledBoundingBox_total`, `triDraw_total`, `triPixels_total`
  (EG/Lemmas/JoinsTotalTri.lean), for every triangle and style. The fuels of the drains (`toList`,
  `triPixelFuel`) are never used up either: the lists are complete (EG/Lemmas/C01ThickTri.lean).
  `ScanlineIterator::next` is NOT fused, and the model keeps that: `TriScanlines.next` returns the
  successor state together with `None` (a row of the box without any intersection gives `None`, the
  following call goes on with the row after it). `draw_styled`'s `for` loop stops at the first
  `None` (`TriScanlines.toList`); `StyledPixelsIterator::new` calls `next()` once, forgives a `None`
  (empty current line) and KEEPS the advanced iterator, `StyledPixelsIterator::next` stops at the
  first `None` it sees itself (`?`). So the two renderers differ exactly if the first call returns
  `None` and the second does not, i.e. if the first TWO rows of the styled bounding box have no
  scanline and a later row has a coloured one. EG/Lemmas/TriTopRow.lean proves that the FIRST row
  always has a scanline (unless no row has one): the case does not exist.
-/
import EG.Model.ThickSegment
namespace EG
namespace Joins
open Thick (LineSide StrokeOffset)

/-- `common::PointType`. -/
inductive PointType | stroke | fill
  deriving DecidableEq, Repr

/-- `StrokeAlignment`. -/
inductive StrokeAlignment | inside | center | outside
  deriving DecidableEq, Repr

/-- `StrokeOffset::from(StrokeAlignment)`. -/
def StrokeAlignment.toOffset : StrokeAlignment → StrokeOffset
  | .inside => .right
  | .outside => .left
  | .center => .none

/-- `Triangle { vertices: [Point; 3] }`. -/
structure Tri where
  v1 : Pt
  v2 : Pt
  v3 : Pt
  deriving DecidableEq, Repr

namespace Tri

/-- `self.vertices[i % 3]`. -/
def vertex (t : Tri) (i : Nat) : Pt :=
  match i % 3 with
  | 0 => t.v1
  | 1 => t.v2
  | _ => t.v3

def vertices (t : Tri) : List Pt := [t.v1, t.v2, t.v3]

/-- `Transform::translate`. -/
def translate (t : Tri) (d : Pt) : Tri := ⟨t.v1 + d, t.v2 + d, t.v3 + d⟩

/-- `Dimensions::bounding_box`. -/
def boundingBox (t : Tri) : Rect :=
  Rect.withCorners ⟨min (min t.v1.x t.v2.x) t.v3.x, min (min t.v1.y t.v2.y) t.v3.y⟩
    ⟨max (max t.v1.x t.v2.x) t.v3.x, max (max t.v1.y t.v2.y) t.v3.y⟩

/-- `area_doubled`. -/
def areaDoubled (t : Tri) : Int :=
  -t.v2.y * t.v3.x + t.v1.y * (t.v3.x - t.v2.x) + t.v1.x * (t.v2.y - t.v3.y) + t.v2.x * t.v3.y

/-- `sort_two_yx`. -/
def sortTwoYx (p1 p2 : Pt) : Pt × Pt :=
  if p1.y < p2.y ∨ (p1.y = p2.y ∧ p1.x < p2.x) then (p1, p2) else (p2, p1)

/-- `sorted_yx`. -/
def sortedYx (t : Tri) : Tri :=
  let (y1, y2) := sortTwoYx t.v1 t.v2
  let (y1, y3) := sortTwoYx t.v3 y1
  let (y2, y3) := sortTwoYx y3 y2
  ⟨y1, y2, y3⟩

/-- `sorted_clockwise`. -/
def sortedClockwise (t : Tri) : Tri :=
  if t.areaDoubled < 0 then ⟨t.v2, t.v1, t.v3⟩
  else if t.areaDoubled > 0 then t
  else t.sortedYx

/-- `scanline_intersection`. -/
def scanlineIntersection (t : Tri) (scanlineY : Int) : Scanline :=
  let s := t.sortedYx
  let scanline := Scanline.newEmpty scanlineY
  if t.areaDoubled = 0 then bint scanline ⟨s.v1, s.v3⟩
  else bint (bint (bint scanline ⟨s.v1, s.v2⟩) ⟨s.v1, s.v3⟩) ⟨s.v2, s.v3⟩

/-- `joins`. -/
def joins (t : Tri) (strokeWidth : Nat) (strokeOffset : StrokeOffset) : Option (List LineJoin) := do
  let j1 ← LineJoin.fromPoints t.v3 t.v1 t.v2 strokeWidth strokeOffset
  let j2 ← LineJoin.fromPoints t.v1 t.v2 t.v3 strokeWidth strokeOffset
  let j3 ← LineJoin.fromPoints t.v2 t.v3 t.v1 strokeWidth strokeOffset
  pure [j1, j2, j3]

/-- The closure of `is_collapsed` for join `i`. -/
def joinCollapsed (t : Tri) (strokeWidth : Nat) (strokeOffset : StrokeOffset) (i : Nat)
    (join : LineJoin) : Option Bool :=
  if join.isDegenerate then some true
  else do
    let innerPoint := join.firstEdgeEnd.right
    let (_, opposite) ← extents ⟨t.vertex (i + 1), t.vertex (i + 2)⟩ strokeWidth strokeOffset
    pure ((LinearEquation.fromLine opposite).checkSide innerPoint .left)

/-- `is_collapsed` (`any` over the three joins; all three are evaluated here, which differs from
the short-circuiting original only in work done). -/
def isCollapsed (t : Tri) (strokeWidth : Nat) (strokeOffset : StrokeOffset) : Option Bool := do
  let js ← t.joins strokeWidth strokeOffset
  match js with
  | [j1, j2, j3] =>
    let c1 ← t.joinCollapsed strokeWidth strokeOffset 0 j1
    let c2 ← t.joinCollapsed strokeWidth strokeOffset 1 j2
    let c3 ← t.joinCollapsed strokeWidth strokeOffset 2 j3
    pure (c1 || c2 || c3)
  | _ => none

end Tri

/-- The part of `PrimitiveStyle<C>` the triangle code looks at. -/
structure TriStyle where
  fillColor : Option Nat
  strokeColor : Option Nat
  strokeWidth : Nat
  strokeAlignment : StrokeAlignment
  deriving DecidableEq, Repr

namespace TriStyle
/-- `effective_stroke_color`. -/
def effectiveStrokeColor (s : TriStyle) : Option Nat := if s.strokeWidth > 0 then s.strokeColor else none
/-- `is_transparent`. -/
def isTransparent (s : TriStyle) : Bool :=
  (s.strokeColor.isNone || s.strokeWidth == 0) && s.fillColor.isNone
end TriStyle

/-- `StyledDimensions::styled_bounding_box` of a triangle. -/
def triStyledBoundingBox (t : Tri) (style : TriStyle) : Option Rect :=
  if style.strokeWidth < 2 ∨ style.strokeAlignment = .inside then some t.boundingBox
  else do
    let tc := t.sortedClockwise
    let it ← ClosedThickSegmentIter.new tc.vertices style.strokeWidth style.strokeAlignment.toOffset
    let segs ← it.toList
    pure (foldEdgeBoxes segs)

/-! ### `triangle::scanline_intersections::ScanlineIntersections` -/

/-- `LineConfig`. -/
structure LineConfig where
  first : Scanline
  second : Scanline
  internal : Scanline
  internalType : PointType
  deriving DecidableEq, Repr

/-- `ScanlineIntersections`. -/
structure TriIntersections where
  lines : LineConfig
  triangle : Tri
  strokeWidth : Nat
  strokeOffset : StrokeOffset
  hasFill : Bool
  isCollapsed : Bool
  deriving Repr

/-- The captured state of the `from_fn` closure of `edge_intersections`. -/
structure EdgeState where
  idx : Nat
  left : Scanline
  right : Scanline
  deriving Repr

namespace TriIntersections

/-- `ScanlineIntersections::empty`. -/
def empty : TriIntersections :=
  { lines := ⟨Scanline.newEmpty 0, Scanline.newEmpty 0, Scanline.newEmpty 0, .fill⟩
    triangle := ⟨Pt.zero, Pt.zero, Pt.zero⟩
    strokeWidth := 0, strokeOffset := .none, hasFill := false, isCollapsed := false }

/-- The `while idx < 3` loop of the `edge_intersections` closure. -/
def edgeLoop (it : TriIntersections) (scanlineY : Int) : Nat → EdgeState → Option EdgeState
  | 0, st => some st
  | fuel + 1, st =>
    if st.idx < 3 then do
      let idx := st.idx
      let t := it.triangle
      let start ← LineJoin.fromPoints (t.vertex idx) (t.vertex (idx + 1)) (t.vertex (idx + 2))
        it.strokeWidth it.strokeOffset
      let stop ← LineJoin.fromPoints (t.vertex (idx + 1)) (t.vertex (idx + 2)) (t.vertex (idx + 3))
        it.strokeWidth it.strokeOffset
      let st := { st with idx := idx + 1 }
      let scanline := (ThickSegment.mk start stop).intersection scanlineY
      if !st.left.isEmpty then
        let (extended, l) := st.left.tryExtend scanline
        if extended then edgeLoop it scanlineY fuel { st with left := l }
        else if !st.right.isEmpty then
          edgeLoop it scanlineY fuel { st with right := (st.right.tryExtend scanline).2 }
        else edgeLoop it scanlineY fuel { st with right := scanline }
      else edgeLoop it scanlineY fuel { st with left := scanline }
    else some st

/-- One call of the `from_fn` closure of `edge_intersections(scanline_y)`. -/
def edgeNext (it : TriIntersections) (scanlineY : Int) (st : EdgeState) :
    Option (Option Scanline × EdgeState) :=
  if it.strokeWidth = 0 then some (none, st)
  else do
    let st ← it.edgeLoop scanlineY 3 st
    -- Merge any overlap between final left/right results
    let (extended, l) := st.left.tryExtend st.right
    let st := if extended then { st with left := l, right := Scanline.newEmpty scanlineY } else st
    match st.left.tryTake with
    | (some r, l) => pure (some r, { st with left := l })
    | (none, _) =>
      let (r, rr) := st.right.tryTake
      pure (r, { st with right := rr })

/-- `generate_lines` (always `Some`). -/
def generateLines (it : TriIntersections) (scanlineY : Int) : Option LineConfig :=
  if it.isCollapsed then
    some { internal := it.triangle.scanlineIntersection scanlineY, internalType := .stroke
           first := Scanline.newEmpty 0, second := Scanline.newEmpty 0 }
  else do
    let st : EdgeState := ⟨0, Scanline.newEmpty scanlineY, Scanline.newEmpty scanlineY⟩
    let (first, st) ← it.edgeNext scanlineY st
    let (second, _) ← it.edgeNext scanlineY st
    let internal :=
      if it.hasFill then
        match first, second with
        | some f, some s => (⟨scanlineY, min f.xe s.xe, max f.xs s.xs⟩ : Scanline)
        | none, none => it.triangle.scanlineIntersection scanlineY
        | _, _ => Scanline.newEmpty scanlineY
      else Scanline.newEmpty scanlineY
    pure { first := first.getD (Scanline.newEmpty scanlineY)
           second := second.getD (Scanline.newEmpty scanlineY)
           internal, internalType := .fill }

/-- `reset_with_new_scanline`. -/
def resetWithNewScanline (it : TriIntersections) (scanlineY : Int) : Option TriIntersections := do
  let lines ← it.generateLines scanlineY
  pure { it with lines }

/-- `ScanlineIntersections::new` (the triangle passed in is already sorted clockwise). -/
def new (triangle : Tri) (strokeWidth : Nat) (strokeOffset : StrokeOffset) (hasFill : Bool)
    (scanlineY : Int) : Option TriIntersections := do
  let c ← triangle.isCollapsed strokeWidth strokeOffset
  let isCollapsed := c && strokeOffset == .right
  let self_ : TriIntersections := { empty with hasFill, triangle, strokeOffset, strokeWidth, isCollapsed }
  self_.resetWithNewScanline scanlineY

/-- `Iterator::next`. -/
def next (it : TriIntersections) : Option ((Scanline × PointType) × TriIntersections) :=
  match it.lines.internal.tryTake with
  | (some internal, rest) =>
    some ((internal, it.lines.internalType), { it with lines := { it.lines with internal := rest } })
  | (none, _) =>
    match it.lines.first.tryTake with
    | (some first, rest) => some ((first, .stroke), { it with lines := { it.lines with first := rest } })
    | (none, _) =>
      match it.lines.second.tryTake with
      | (some second, rest) =>
        some ((second, .stroke), { it with lines := { it.lines with second := rest } })
      | (none, _) => none

end TriIntersections

/-! ### `triangle::scanline_iterator::ScanlineIterator` -/

/-- `ScanlineIterator { rows, scanline_y, intersections }`. -/
structure TriScanlines where
  rowsStart : Int
  rowsEnd : Int
  scanlineY : Int
  intersections : TriIntersections
  deriving Repr

namespace TriScanlines

def empty : TriScanlines := ⟨0, 0, 0, TriIntersections.empty⟩

/-- `ScanlineIterator::new`. -/
def new (triangle : Tri) (strokeWidth : Nat) (strokeOffset : StrokeOffset) (hasFill : Bool)
    (boundingBox : Rect) : Option TriScanlines :=
  let triangle := triangle.sortedClockwise
  let rowsStart := boundingBox.tl.y
  let rowsEnd := boundingBox.rowsEnd
  if rowsStart < rowsEnd then do
    let intersections ← TriIntersections.new triangle strokeWidth strokeOffset hasFill rowsStart
    pure ⟨rowsStart + 1, rowsEnd, rowsStart, intersections⟩
  else some empty

/-- `Iterator::next`: `self.intersections.next().or_else(|| { self.scanline_y = self.rows.next()?;
reset; self.intersections.next() })`. NOT fused — the state after the call is returned with `None`
as well:
* the current row still has a scanline: that scanline, same row;
* the current row is used up and `rows` is exhausted: `None`, state unchanged (`?` leaves before any
  assignment; `ScanlineIntersections::next` changes nothing when it returns `None`);
* otherwise ONE row further (`scanline_y`, `reset_with_new_scanline`): the first scanline of that row —
  or `None` if that row has no intersection at all, with the iterator now standing ON that row, so
  that the following call moves on to the row after it. -/
def next (it : TriScanlines) : Option (Option (Scanline × PointType) × TriScanlines) :=
  match it.intersections.next with
  | some (r, ints) => some (some r, { it with intersections := ints })
  | none =>
    if it.rowsStart < it.rowsEnd then do
      let y := it.rowsStart
      let ints ← it.intersections.resetWithNewScanline y
      let it := { it with rowsStart := y + 1, scanlineY := y, intersections := ints }
      match ints.next with
      | some (r, ints) => pure (some r, { it with intersections := ints })
      | none => pure (none, it)
    else some (none, it)

/-- One `next()` call as seen by a caller that STOPS at the first `None` (a `for` loop; the `?` of
`StyledPixelsIterator::next`): the successor state is of interest only with `Some`. -/
def nextLoop (it : TriScanlines) : Option (Option ((Scanline × PointType) × TriScanlines)) :=
  match it.next with
  | none => none
  | some (none, _) => some none
  | some (some r, it') => some (some (r, it'))

/-- What a `for` loop sees (the prefix up to the first `None`). -/
def toListFuel : Nat → TriScanlines → Option (List (Scanline × PointType))
  | 0, _ => some []
  | fuel + 1, it => do
    match ← it.nextLoop with
    | none => pure []
    | some (r, it') =>
      let rest ← toListFuel fuel it'
      pure (r :: rest)

/-- At most three scanlines per row. -/
def toList (it : TriScanlines) : Option (List (Scanline × PointType)) :=
  it.toListFuel (3 * ((it.rowsEnd - it.rowsStart).toNat + 1) + 1)

end TriScanlines

/-- The `ScanlineIterator` that `draw_styled` and `StyledPixelsIterator::new` construct. -/
def triScanlines (t : Tri) (style : TriStyle) : Option TriScanlines := do
  let bb ← triStyledBoundingBox t style
  TriScanlines.new t style.strokeWidth style.strokeAlignment.toOffset style.fillColor.isSome bb

/-- The colour of a scanline of the given type. -/
def TriStyle.colorOf (style : TriStyle) : PointType → Option Nat
  | .stroke => style.effectiveStrokeColor
  | .fill => style.fillColor

/-- `draw_styled`: the `fill_solid` calls (rectangle, colour) in order. -/
def triDraw (t : Tri) (style : TriStyle) : Option (List (Rect × Nat)) :=
  if style.isTransparent then some []
  else do
    let it ← triScanlines t style
    let lines ← it.toList
    pure (lines.filterMap (fun (line, kind) =>
      match style.colorOf kind with
      | some color =>
        let rect := line.toRectangle
        if !rect.isZeroSized then some (rect, color) else none
      | none => none))

/-! ### `triangle::styled::StyledPixelsIterator` -/

structure TriPixels where
  linesIter : TriScanlines
  currentLine : Scanline
  currentColor : Option Nat
  fillColor : Option Nat
  strokeColor : Option Nat
  deriving Repr

namespace TriPixels

/-- `StyledPixelsIterator::new`: `lines_iter.next().unwrap_or_else(|| (Scanline::new_empty(0),
PointType::Stroke))` — the iterator is kept as that call left it, also when it returned `None`. -/
def new (t : Tri) (style : TriStyle) : Option TriPixels := do
  let linesIter ← triScanlines t style
  let (first, linesIter) ← linesIter.next
  let (currentLine, pointType) := first.getD (Scanline.newEmpty 0, PointType.stroke)
  pure { linesIter, currentLine, currentColor := style.colorOf pointType
         fillColor := style.fillColor, strokeColor := style.effectiveStrokeColor }

/-- `Iterator::next`: the `loop` (one iteration per scanline; `fuel` bounds it);
`self.lines_iter.next()?` ends the call with `None` at the first `None` of the scanline iterator
(`nextLoop`). Like every pixel iterator of the model this is the view of `draw_iter` / `collect`,
which stop at the first `None`: no successor state is given with `None`. -/
def nextFuel : Nat → TriPixels → Option (Option ((Pt × Nat) × TriPixels))
  | 0, _ => none
  | fuel + 1, it =>
    let hit : Option ((Pt × Nat) × TriPixels) :=
      match it.currentColor with
      | some color =>
        match it.currentLine.next with
        | some (p, l) => some ((p, color), { it with currentLine := l })
        | none => none
      | none => none
    match hit with
    | some r => some (some r)
    | none =>
      match it.linesIter.nextLoop with
      | none => none
      | some none => some none
      | some (some ((nextLine, nextType), li)) =>
        nextFuel fuel { it with
          linesIter := li, currentLine := nextLine
          currentColor := match nextType with
            | .stroke => it.strokeColor
            | .fill => it.fillColor }

def next (it : TriPixels) : Option (Option ((Pt × Nat) × TriPixels)) :=
  it.nextFuel (3 * ((it.linesIter.rowsEnd - it.linesIter.rowsStart).toNat + 1) + 2)

def toListFuel : Nat → TriPixels → Option (List (Pt × Nat))
  | 0, _ => some []
  | fuel + 1, it => do
    match ← it.next with
    | none => pure []
    | some (p, it') =>
      let rest ← toListFuel fuel it'
      pure (p :: rest)

end TriPixels

/-- Fuel for draining `pixels()` in the model (one unit per pixel, one to see the final `None`): the
total length of the scanlines a `for` loop over a fresh `ScanlineIterator` sees. Every pixel of
`pixels()` is a point of one of those scanlines, so the fuel is never used up
(`C01Thick.triPixels_eq_run`, EG/Lemmas/C01ThickTri.lean: `triPixels` is the COMPLETE pixel run). -/
def triPixelFuel (t : Tri) (style : TriStyle) : Option Nat := do
  let li ← triScanlines t style
  let lines ← li.toList
  pure ((lines.map (fun x => (x.1.xe - x.1.xs).toNat)).sum + 1)

/-- `triangle.into_styled(style).pixels()` in emission order (as `collect` / `draw_iter` see it: up to
the first `None`). -/
def triPixels (t : Tri) (style : TriStyle) : Option (List (Pt × Nat)) := do
  let fuel ← triPixelFuel t style
  let it ← TriPixels.new t style
  it.toListFuel fuel

end Joins
end EG
