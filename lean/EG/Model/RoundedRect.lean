/-
  EG.Model.RoundedRect — `primitives::RoundedRectangle`, arm for arm.
  Source: src/primitives/rounded_rectangle/{mod.rs, corner_radii.rs, ellipse_quadrant.rs, points.rs,
  styled.rs}, src/primitives/primitive_style.rs (`stroke_area` / `fill_area`).

  Unbounded `Int`/`Nat`; saturating operations are modelled (`satAddU32`, `Nat` subtraction,
  `satAddI32`/`satAsI32` inside `Rect.rowsEnd`/`columnsEnd`), plain `+ - *` are mathematical.
  `u32 as i32` casts of corner-box sizes are modelled as the plain value (after `confine` a radius is
  at most a side of the rectangle). `confine` computes its sums in `u64`, its cross products in `u128`
  (no overflow for `u32` operands); the `as u32` of the scaled length does not truncate because
  `size < corner_size`.
  The `EllipseContains` arithmetic is `u32` in the code (being widened under C08): unbounded here.
-/
import EG.Model.StyledScanline
import EG.Model.Style
import EG.Model.EllipseContains
namespace EG

/-- `Range<i32>::rfind(pred)` on a clone of the range `a..b`: the last `x` with `pred x`. -/
def rangeRFind (pred : Int → Bool) (a b : Int) : Option Int := (irange a b).reverse.find? pred

/-! ### `CornerRadii` -/

structure CornerRadii where
  tl : Sz   -- top_left
  tr : Sz   -- top_right
  br : Sz   -- bottom_right
  bl : Sz   -- bottom_left
  deriving DecidableEq, Repr, Inhabited

namespace CornerRadii

/-- `CornerRadii::new(radius)` -/
def new (r : Sz) : CornerRadii := ⟨r, r, r, r⟩

/-- The `sides` array of `confine`: `(side length, sum of the two radii along it)` for top, right,
bottom, left. The sums are `u64` in the code (`u64::from(a) + u64::from(b)`, exact for `u32`
radii), the cross products of the loop `u128`, the scaling `u64`: no clamp, no overflow. -/
def sides (c : CornerRadii) (bb : Sz) : List (Nat × Nat) :=
  [ (bb.w, c.tl.w + c.tr.w),
    (bb.h, c.tr.h + c.br.h),
    (bb.w, c.bl.w + c.br.w),
    (bb.h, c.tl.h + c.bl.h) ]

/-- Body of the `for` loop: `acc = (size, corner_size)`;
`if side_size * corner_size < size * side_corner_size { (size, corner_size) = side }`. -/
def confineStep (acc side : Nat × Nat) : Nat × Nat :=
  if side.1 * acc.2 < acc.1 * side.2 then side else acc

/-- Scale factor `size / corner_size` of the most constraining side (starting from `1 / 1`). -/
def factor (c : CornerRadii) (bb : Sz) : Nat × Nat := (c.sides bb).foldl confineStep (1, 1)

/-- `scale_length`: `(length * size / corner_size) as u32` -/
def scaleLength (f : Nat × Nat) (length : Nat) : Nat := length * f.1 / f.2

/-- the closure `scale` -/
def scaleSz (f : Nat × Nat) (r : Sz) : Sz := ⟨scaleLength f r.w, scaleLength f r.h⟩

/-- `CornerRadii::confine(bounding_box)` -/
def confine (c : CornerRadii) (bb : Sz) : CornerRadii :=
  let f := c.factor bb
  if f.1 < f.2 then ⟨scaleSz f c.tl, scaleSz f c.tr, scaleSz f c.br, scaleSz f c.bl⟩ else c

end CornerRadii

/-! ### `EllipseQuadrant` -/

inductive Quadrant | topLeft | topRight | bottomRight | bottomLeft
  deriving DecidableEq, Repr, Inhabited

structure EllipseQuadrant where
  bbox : Rect
  center2x : Pt
  ellipse : EllipseContains
  deriving DecidableEq, Repr, Inhabited

namespace EllipseQuadrant

/-- `ellipse::center_2x(top_left, size)`: `top_left * 2 + size.saturating_sub(1, 1)` -/
def ellipseCenter2x (tl : Pt) (size : Sz) : Pt :=
  ⟨tl.x * 2 + ((size.w - 1 : Nat) : Int), tl.y * 2 + ((size.h - 1 : Nat) : Int)⟩

/-- `EllipseQuadrant::new(top_left, radius, quadrant)` -/
def new (tl : Pt) (radius : Sz) (q : Quadrant) : EllipseQuadrant :=
  let etl : Pt := match q with
    | .topLeft => tl
    | .topRight => ⟨tl.x - radius.w, tl.y⟩
    | .bottomRight => ⟨tl.x - radius.w, tl.y - radius.h⟩
    | .bottomLeft => ⟨tl.x, tl.y - radius.h⟩
  let size2 : Sz := ⟨radius.w * 2, radius.h * 2⟩
  ⟨⟨tl, radius⟩, ellipseCenter2x etl size2, EllipseContains.new size2⟩

/-- `ContainsPoint::contains`: `self.ellipse.contains(point * 2 - self.center_2x)` -/
def contains (e : EllipseQuadrant) (p : Pt) : Bool :=
  e.ellipse.contains ⟨p.x * 2 - e.center2x.x, p.y * 2 - e.center2x.y⟩

/-- `bounding_box().columns().start` -/
def colsStart (e : EllipseQuadrant) : Int := e.bbox.tl.x
/-- `bounding_box().columns().end` -/
def colsEnd (e : EllipseQuadrant) : Int := e.bbox.columnsEnd

end EllipseQuadrant

/-! ### `RoundedRectangle` -/

structure RoundedRect where
  rect : Rect
  corners : CornerRadii
  deriving DecidableEq, Repr, Inhabited

namespace RoundedRect

/-- `RoundedRectangle::with_equal_corners` -/
def withEqualCorners (rect : Rect) (radius : Sz) : RoundedRect := ⟨rect, CornerRadii.new radius⟩

/-- `confine_radii` -/
def confineRadii (r : RoundedRect) : RoundedRect := ⟨r.rect, r.corners.confine r.rect.size⟩

/-- `Dimensions::bounding_box` -/
def boundingBox (r : RoundedRect) : Rect := r.rect

/-- `get_confined_corner_quadrant` -/
def cornerQuadrant (r : RoundedRect) (q : Quadrant) : EllipseQuadrant :=
  let tl := r.rect.tl
  let size := r.rect.size
  let c := r.corners.confine size
  match q with
  | .topLeft => EllipseQuadrant.new tl c.tl .topLeft
  | .topRight => EllipseQuadrant.new ⟨tl.x + size.w - c.tr.w, tl.y⟩ c.tr .topRight
  | .bottomRight => EllipseQuadrant.new ⟨tl.x + size.w - c.br.w, tl.y + size.h - c.br.h⟩ c.br .bottomRight
  | .bottomLeft => EllipseQuadrant.new ⟨tl.x, tl.y + size.h - c.bl.h⟩ c.bl .bottomLeft

/-- `OffsetOutline::offset` -/
def offset (r : RoundedRect) (o : Int) : RoundedRect :=
  let rect := r.rect.offset o
  let c := r.corners
  let corners : CornerRadii :=
    if o ≥ 0 then
      let k := Sz.newEqual o.toNat
      ⟨c.tl.satAdd k, c.tr.satAdd k, c.br.satAdd k, c.bl.satAdd k⟩
    else
      let k := Sz.newEqual (-o).toNat
      ⟨c.tl.satSub k, c.tr.satSub k, c.br.satSub k, c.bl.satSub k⟩
  ⟨rect, corners⟩

def translate (r : RoundedRect) (d : Pt) : RoundedRect := { r with rect := r.rect.translate d }

/-- `PrimitiveStyle::stroke_area(rounded_rectangle)` -/
def strokeArea (st : Style) (r : RoundedRect) : RoundedRect := r.offset st.strokeOffset
/-- `PrimitiveStyle::fill_area(rounded_rectangle)` (solid stroke) -/
def fillArea (st : Style) (r : RoundedRect) : RoundedRect := r.offset st.fillOffset

/-- `StyledDimensions::styled_bounding_box` -/
def styledBoundingBox (st : Style) (r : RoundedRect) : Rect :=
  r.boundingBox.offset (satAsI32 st.outsideStrokeWidth)

end RoundedRect

/-! ### `RoundedRectangleContains` (also the state of `points::Scanlines`, whose `next` advances
`rows.start`) -/

structure RRContains where
  rowsStart : Int   -- rows.start
  rowsEnd : Int     -- rows.end
  colsStart : Int   -- columns.start
  colsEnd : Int     -- columns.end
  slStart : Int     -- straight_rows_left.start
  slEnd : Int       -- straight_rows_left.end
  srStart : Int     -- straight_rows_right.start
  srEnd : Int       -- straight_rows_right.end
  topLeft : EllipseQuadrant
  topRight : EllipseQuadrant
  bottomLeft : EllipseQuadrant
  bottomRight : EllipseQuadrant
  deriving DecidableEq, Repr, Inhabited

namespace RRContains

/-- `RoundedRectangleContains::new` -/
def new (r : RoundedRect) : RRContains :=
  let topLeft := r.cornerQuadrant .topLeft
  let topRight := r.cornerQuadrant .topRight
  let bottomLeft := r.cornerQuadrant .bottomLeft
  let bottomRight := r.cornerQuadrant .bottomRight
  let rowsStart := r.rect.tl.y
  let rowsEnd := r.rect.rowsEnd
  { rowsStart := rowsStart, rowsEnd := rowsEnd,
    colsStart := r.rect.tl.x, colsEnd := r.rect.columnsEnd,
    slStart := rowsStart + (topLeft.bbox.size.h : Int),
    slEnd := rowsEnd - (bottomLeft.bbox.size.h : Int),
    srStart := rowsStart + (topRight.bbox.size.h : Int),
    srEnd := rowsEnd - (bottomRight.bbox.size.h : Int),
    topLeft := topLeft, topRight := topRight, bottomLeft := bottomLeft, bottomRight := bottomRight }

/-- The left corner responsible for row `y`:
`if y < straight_rows_left.start { Some(top_left) } else if y >= straight_rows_left.end
{ Some(bottom_left) } else { None }` -/
def leftCorner (c : RRContains) (y : Int) : Option EllipseQuadrant :=
  if y < c.slStart then some c.topLeft else if y ≥ c.slEnd then some c.bottomLeft else none

/-- The right corner responsible for row `y`. -/
def rightCorner (c : RRContains) (y : Int) : Option EllipseQuadrant :=
  if y < c.srStart then some c.topRight else if y ≥ c.srEnd then some c.bottomRight else none

/-- `RoundedRectangleContains::contains`: the left and the right corner are checked
independently; `left.into_iter().chain(right).all(|corner| corner.contains(point))`. -/
def contains (c : RRContains) (p : Pt) : Bool :=
  if !(decide (c.rowsStart ≤ p.y ∧ p.y < c.rowsEnd) && decide (c.colsStart ≤ p.x ∧ p.x < c.colsEnd)) then
    false
  else
    let left := (c.leftCorner p.y).filter (fun corner => decide (p.x < corner.colsEnd))
    let right := (c.rightCorner p.y).filter (fun corner => decide (p.x ≥ corner.colsStart))
    (left.toList ++ right.toList).all (fun corner => corner.contains p)

/-- `x_start` of the scanline of row `y`. -/
def xStart (c : RRContains) (y : Int) : Int :=
  ((c.leftCorner y).map (fun corner =>
    (rangeFind (fun x => corner.contains ⟨x, y⟩) corner.colsStart corner.colsEnd).getD
      corner.colsEnd)).getD c.colsStart

/-- `x_end` of the scanline of row `y`. -/
def xEnd (c : RRContains) (y : Int) : Int :=
  ((c.rightCorner y).map (fun corner =>
    ((rangeRFind (fun x => corner.contains ⟨x, y⟩) corner.colsStart corner.colsEnd).map
      (· + 1)).getD corner.colsStart)).getD c.colsEnd

/-- The scanline of row `y`: `Scanline::new(y, x_start..x_end)` (may be empty, also with
`x_start > x_end` when opposite corner boxes overlap). -/
def row (c : RRContains) (y : Int) : Scanline := ⟨y, c.xStart y, c.xEnd y⟩

/-- `Scanlines::next`: `let y = self.rounded_rectangle.rows.next()?; ..; Some(scanline)`. -/
def next (c : RRContains) : Option (Scanline × RRContains) :=
  if c.rowsStart < c.rowsEnd then some (c.row c.rowsStart, { c with rowsStart := c.rowsStart + 1 })
  else none

def toListFuel : Nat → RRContains → List Scanline
  | 0, _ => []
  | fuel + 1, c =>
    match c.next with
    | some (s, c') => s :: toListFuel fuel c'
    | none => []

/-- What a `for` loop over `Scanlines` sees. -/
def toList (c : RRContains) : List Scanline := c.toListFuel ((c.rowsEnd - c.rowsStart).toNat + 1)

end RRContains

namespace RoundedRect

/-- `ContainsPoint::contains` -/
def contains (r : RoundedRect) (p : Pt) : Bool := (RRContains.new r).contains p

/-- `Scanlines::new` -/
def scanlines (r : RoundedRect) : RRContains := RRContains.new r

/-! ### `rounded_rectangle::Points` -/

structure PointsIt where
  scanlines : RRContains
  current : Scanline
  deriving DecidableEq, Repr

/-- `Points::new` -/
def pointsIt (r : RoundedRect) : PointsIt := ⟨r.scanlines, Scanline.newEmpty 0⟩

/-- `Iterator::next`: `loop { if let Some(p) = current.next() { return Some(p) }
current = scanlines.next()?; }` — every turn of the loop consumes a row, `fuel` bounds the turns. -/
def PointsIt.nextFuel : Nat → PointsIt → Option (Pt × PointsIt)
  | 0, _ => none
  | fuel + 1, it =>
    match it.current.next with
    | some (p, cur') => some (p, { it with current := cur' })
    | none =>
      match it.scanlines.next with
      | none => none
      | some (s, sl') => nextFuel fuel ⟨sl', s⟩

def PointsIt.next (it : PointsIt) : Option (Pt × PointsIt) :=
  it.nextFuel ((it.scanlines.rowsEnd - it.scanlines.rowsStart).toNat + 1)

def PointsIt.toListFuel : Nat → PointsIt → List Pt
  | 0, _ => []
  | fuel + 1, it =>
    match it.next with
    | some (p, it') => p :: toListFuel fuel it'
    | none => []

/-- Step budget: the points of the current scanline plus those of all remaining rows, each of which
lies between the ends of the searched corner boxes. -/
def PointsIt.budget (it : PointsIt) : Nat :=
  (it.current.xe - it.current.xs).toNat +
    ((irange it.scanlines.rowsStart it.scanlines.rowsEnd).map
      (fun y => ((it.scanlines.row y).xe - (it.scanlines.row y).xs).toNat)).sum

/-- What a `for` loop over `rounded_rectangle.points()` sees. -/
def points (r : RoundedRect) : List Pt :=
  let it := r.pointsIt
  it.toListFuel (it.budget + 1)

/-! ### `rounded_rectangle::styled::StyledScanlines` -/

structure StyledScanlinesIt where
  scanlines : RRContains
  fillArea : RRContains
  deriving DecidableEq, Repr

/-- `StyledScanlines::new(stroke_area, fill_area)` -/
def styledScanlines (strokeArea fillArea : RoundedRect) : StyledScanlinesIt :=
  ⟨strokeArea.scanlines, RRContains.new fillArea⟩

/-- The `fill_range` of the closure in `StyledScanlines::next`: within the rows of the fill area
`find(..).zip(rfind(..).map(|x| x + 1))` over the stroke scanline, else `None`. -/
def StyledScanlinesIt.fillRange (it : StyledScanlinesIt) (s : Scanline) : Option (Int × Int) :=
  let f := it.fillArea
  if f.rowsStart ≤ s.y ∧ s.y < f.rowsEnd then
    match rangeFind (fun x => f.contains ⟨x, s.y⟩) s.xs s.xe,
          (rangeRFind (fun x => f.contains ⟨x, s.y⟩) s.xs s.xe).map (· + 1) with
    | some a, some b => some (a, b)
    | _, _ => none
  else none

/-- The closure of `.map(|scanline| ..)` in `StyledScanlines::next`:
`StyledScanline::new(scanline.y, scanline.x, fill_range)`. -/
def StyledScanlinesIt.style (it : StyledScanlinesIt) (s : Scanline) : StyledScanline :=
  StyledScanline.new s.y s.xs s.xe (it.fillRange s)

def StyledScanlinesIt.next (it : StyledScanlinesIt) : Option (StyledScanline × StyledScanlinesIt) :=
  match it.scanlines.next with
  | some (s, sl') => some (it.style s, { it with scanlines := sl' })
  | none => none

def StyledScanlinesIt.toListFuel : Nat → StyledScanlinesIt → List StyledScanline
  | 0, _ => []
  | fuel + 1, it =>
    match it.next with
    | some (s, it') => s :: toListFuel fuel it'
    | none => []

def StyledScanlinesIt.toList (it : StyledScanlinesIt) : List StyledScanline :=
  it.toListFuel ((it.scanlines.rowsEnd - it.scanlines.rowsStart).toNat + 1)

/-! ### `StyledDrawable::draw_styled` and `StyledPixels::pixels` -/

/-- The target calls of `rounded_rectangle.into_styled(style).draw(target)`. -/
def drawStyled (st : Style) (r : RoundedRect) : List Call :=
  match st.effectiveStrokeColor, st.fill with
  | some sc, none =>
    drawLines sc none (styledScanlines (r.strokeArea st) (r.fillArea st)).toList
  | some sc, some fc =>
    drawLines sc (some fc) (styledScanlines (r.strokeArea st) (r.fillArea st)).toList
  | none, some fc => drawFillLines fc (r.fillArea st).scanlines.toList
  | none, none => []

/-- `rounded_rectangle.into_styled(style).pixels()` as an iterator state (note `stroke_color`, not
`effective_stroke_color()`). -/
def styledPixelsIt (st : Style) (r : RoundedRect) : StyledPixelsIt :=
  StyledPixelsIt.new (styledScanlines (r.strokeArea st) (r.fillArea st)).toList st.stroke st.fill

/-- What `draw_iter(styled.pixels())` receives. -/
def styledPixels (st : Style) (r : RoundedRect) : Writes := (r.styledPixelsIt st).toList

end RoundedRect
end EG
