/-
  EG.Model.RectSrcPrelude — the meaning of every Rust primitive that the GENERATED file
  EG/Generated/RectSrc.lean (written by tools/tr_rect.py from /repo's Rust text) calls.

  TRUSTED BASE. The translator is syntax-directed and knows nothing about semantics: `a + b` on `i32` becomes
  `i32_add a b`, `w.saturating_as::<i32>()` becomes `u32_saturating_as_i32 w`, `x as i32` becomes `u32_as_i32 x`,
  `a..=b` becomes `rangeinclusive_i32_new a b`, a struct literal `Size { width, height }` becomes
  `Size_mk width height`, and so on. Each such name is defined HERE, by hand, in a line or two. Conventions
  (the same as the hand-written models, DESIGN.md section 4):

  * `i32` is `Int`, `u32` is `Nat` (no upper bound in the type; where a bound matters it is a hypothesis).
  * plain `+ - *` and unary `-` are the mathematical operations: in a checked build the real code panics where
    the mathematical result does not fit (C08's topic). `/` on `i32` truncates toward zero (`Int.tdiv`);
    `/` on `u32` is `Nat` division; `u32 - u32` is truncated at 0 (the real code panics below 0).
  * the EXPLICITLY saturating / wrapping operations are modelled exactly: `saturating_add`, `saturating_sub`,
    `saturating_as`, and the `as` casts (`u32 as i32` and `i32 as u32` wrap modulo 2^32, two's complement).
  * `debug_assert!(c, "..")` is the release-build no-op; it keeps its condition visible in the generated text.
    The equivalence theorems say under which guard the asserted condition holds (sizes up to `i32::MAX`).
  * shared references, `*` and `&` are transparent (every type involved is `Copy`).
  * `Point`, `Size`, `Rectangle` ARE the project's `EG.Pt`, `EG.Sz`, `EG.Rect`; the field names of the Rust structs
    (`x y`, `width height`, `top_left size`; checked by the translator against the `struct` declarations) are
    the accessor functions below.
  * a `Range<i32>` / `RangeInclusive<i32>` is its two ends (`range_i32_to_list` = `EG.irange` gives the values a
    `for` loop sees); `Range::next` and `&mut self` methods in general return the updated receiver.
  * `while` loops run on explicit fuel (`while_loop`), see the end of the file.

  Every definition is an `abbrev` (reducible): `simp` does not rewrite inside `Decidable` instance arguments, so the
  comparisons' instances keep mentioning `Size_width ..` etc.; they must unfold at reducible transparency for
  `decide_eq_true_eq` / closing `rfl`s to apply.

  Import-free apart from EG.Basic / EG.Model (it is imported by generated code that the theorems use; the
  driver does not link it).
-/
import EG.Model.Rect
namespace EG.RectSrcPrelude
open EG

/-! ### the three structs -/

abbrev Point := EG.Pt
abbrev Size := EG.Sz
abbrev Rectangle := EG.Rect

abbrev Point_mk (x y : Int) : Point := ⟨x, y⟩
abbrev Point_x (p : Point) : Int := p.x
abbrev Point_y (p : Point) : Int := p.y
abbrev Point_set_x (p : Point) (v : Int) : Point := ⟨v, p.y⟩
abbrev Point_set_y (p : Point) (v : Int) : Point := ⟨p.x, v⟩

abbrev Size_mk (width height : Nat) : Size := ⟨width, height⟩
abbrev Size_width (s : Size) : Nat := s.w
abbrev Size_height (s : Size) : Nat := s.h
abbrev Size_set_width (s : Size) (v : Nat) : Size := ⟨v, s.h⟩
abbrev Size_set_height (s : Size) (v : Nat) : Size := ⟨s.w, v⟩

abbrev Rectangle_mk (top_left : Point) (size : Size) : Rectangle := ⟨top_left, size⟩
abbrev Rectangle_top_left (r : Rectangle) : Point := r.tl
abbrev Rectangle_size (r : Rectangle) : Size := r.size
abbrev Rectangle_set_top_left (r : Rectangle) (v : Point) : Rectangle := ⟨v, r.size⟩
abbrev Rectangle_set_size (r : Rectangle) (v : Size) : Rectangle := ⟨r.tl, v⟩

/-! ### `i32` -/

abbrev i32_add (a b : Int) : Int := a + b
abbrev i32_sub (a b : Int) : Int := a - b
abbrev i32_mul (a b : Int) : Int := a * b
/-- Rust `/` on `i32`: truncation toward zero. -/
abbrev i32_div (a b : Int) : Int := Int.tdiv a b
abbrev i32_neg (a : Int) : Int := -a
abbrev i32_min (a b : Int) : Int := min a b
abbrev i32_max (a b : Int) : Int := max a b
abbrev i32_abs (a : Int) : Int := (a.natAbs : Int)
abbrev i32_unsigned_abs (a : Int) : Nat := a.natAbs
abbrev i32_eq (a b : Int) : Bool := decide (a = b)
abbrev i32_ne (a b : Int) : Bool := decide (a ≠ b)
abbrev i32_lt (a b : Int) : Bool := decide (a < b)
abbrev i32_le (a b : Int) : Bool := decide (a ≤ b)
abbrev i32_gt (a b : Int) : Bool := decide (a > b)
abbrev i32_ge (a b : Int) : Bool := decide (a ≥ b)
/-- `i32::saturating_add`. -/
abbrev i32_saturating_add (a b : Int) : Int :=
  if a + b > 2147483647 then 2147483647 else if a + b < -2147483648 then -2147483648 else a + b
/-- `i32::saturating_sub`. -/
abbrev i32_saturating_sub (a b : Int) : Int :=
  if a - b > 2147483647 then 2147483647 else if a - b < -2147483648 then -2147483648 else a - b
/-- `x as u32` for `x : i32`: two's complement reinterpretation. -/
abbrev i32_as_u32 (a : Int) : Nat := if 0 ≤ a then a.toNat else (a + 4294967296).toNat

/-! ### `u32` -/

abbrev u32_add (a b : Nat) : Nat := a + b
/-- `u32 - u32` (panics below 0 in a checked build; truncated here). -/
abbrev u32_sub (a b : Nat) : Nat := a - b
abbrev u32_mul (a b : Nat) : Nat := a * b
abbrev u32_div (a b : Nat) : Nat := a / b
abbrev u32_min (a b : Nat) : Nat := min a b
abbrev u32_max (a b : Nat) : Nat := max a b
abbrev u32_eq (a b : Nat) : Bool := decide (a = b)
abbrev u32_ne (a b : Nat) : Bool := decide (a ≠ b)
abbrev u32_lt (a b : Nat) : Bool := decide (a < b)
abbrev u32_le (a b : Nat) : Bool := decide (a ≤ b)
abbrev u32_gt (a b : Nat) : Bool := decide (a > b)
abbrev u32_ge (a b : Nat) : Bool := decide (a ≥ b)
/-- `u32::saturating_add`. -/
abbrev u32_saturating_add (a b : Nat) : Nat := if a + b ≤ 4294967295 then a + b else 4294967295
/-- `u32::saturating_sub`. -/
abbrev u32_saturating_sub (a b : Nat) : Nat := a - b
/-- `az::SaturatingAs`: `x.saturating_as::<i32>()` for `x : u32`. -/
abbrev u32_saturating_as_i32 (a : Nat) : Int := if a ≤ 2147483647 then (a : Int) else 2147483647
/-- `x as i32` for `x : u32`: wraps (values above `i32::MAX` become negative). -/
abbrev u32_as_i32 (a : Nat) : Int := if a ≤ 2147483647 then (a : Int) else (a : Int) - 4294967296

/-! ### `bool`, `Option`, ranges, `debug_assert!` -/

abbrev bool_and (a b : Bool) : Bool := a && b
abbrev bool_or (a b : Bool) : Bool := a || b
abbrev bool_not (a : Bool) : Bool := !a
abbrev bool_eq (a b : Bool) : Bool := a == b
abbrev bool_ne (a b : Bool) : Bool := a != b

/-- `Option::is_some_and`. -/
abbrev option_is_some_and {α : Type} (o : Option α) (f : α → Bool) : Bool :=
  match o with
  | some v => f v
  | none => false

/-- `Range<i32>`: `a..b`, the struct with its two public fields. -/
structure RangeI32 where
  start : Int
  end_ : Int
  deriving DecidableEq, Repr
abbrev range_i32_new (a b : Int) : RangeI32 := ⟨a, b⟩
abbrev RangeI32_start (r : RangeI32) : Int := r.start
abbrev RangeI32_end (r : RangeI32) : Int := r.end_
abbrev RangeI32_set_start (r : RangeI32) (v : Int) : RangeI32 := ⟨v, r.end_⟩
abbrev RangeI32_set_end (r : RangeI32) (v : Int) : RangeI32 := ⟨r.start, v⟩
/-- `Range::is_empty`: `!(start < end)`. -/
abbrev range_i32_is_empty (r : RangeI32) : Bool := !(decide (r.start < r.end_))
/-- `Iterator::next` of `Range<i32>` (a method that mutates its receiver: value and updated receiver):
`if start < end { let n = start; start = n + 1; Some(n) } else { None }`. -/
abbrev range_i32_next (r : RangeI32) : Option Int × RangeI32 :=
  if r.start < r.end_ then (some r.start, ⟨r.start + 1, r.end_⟩) else (none, r)
/-- The values a `for` loop over the range sees (not called by generated code; used to state theorems). -/
def range_i32_to_list (r : RangeI32) : List Int := irange r.start r.end_

/-- `RangeInclusive<i32>`: `a..=b`. -/
structure RangeInclusiveI32 where
  start : Int
  end_ : Int
abbrev rangeinclusive_i32_new (a b : Int) : RangeInclusiveI32 := ⟨a, b⟩
abbrev rangeinclusive_i32_start (r : RangeInclusiveI32) : Int := r.start
abbrev rangeinclusive_i32_end (r : RangeInclusiveI32) : Int := r.end_
/-- `RangeInclusive::contains`: `start <= x && x <= end`. -/
abbrev rangeinclusive_i32_contains (r : RangeInclusiveI32) (x : Int) : Bool := decide (r.start ≤ x ∧ x ≤ r.end_)

/-- `debug_assert!(c, "..")`: no effect in a release build (a checked build panics when `c` is false; the
equivalence theorems state the guard under which it is true). -/
abbrev debug_assert {α : Type} (_c : Bool) (k : α) : α := k

/-! ### `while` loops

A `while c { body }` whose only mutable state is `self` (the translator refuses anything else) becomes
`while_loop fuel (fun self => c) (fun self => body') self`: `body'` ends in `LoopStep.continue_ self` where the Rust
body reaches its end and in `LoopStep.return_ v` where it executes `return`. The loop runs on explicit fuel
(structural recursion; no `partial`): `none` means the fuel ran out and says nothing about the Rust code; the
theorems state how much fuel suffices. -/

inductive LoopStep (σ ρ : Type) where
  | continue_ (s : σ)
  | return_ (r : ρ)

/-- `some (continue_ s)`: the loop ended normally in state `s`; `some (return_ r)`: the body returned `r`. -/
def while_loop {σ ρ : Type} : Nat → (σ → Bool) → (σ → LoopStep σ ρ) → σ → Option (LoopStep σ ρ)
  | 0, _, _, _ => none
  | fuel + 1, c, b, s =>
    if c s then
      match b s with
      | .return_ r => some (.return_ r)
      | .continue_ s' => while_loop fuel c b s'
    else some (.continue_ s)

end EG.RectSrcPrelude
