/-
  EG.Model.CheckedTriangle — checked kernels of `Triangle` (src/primitives/triangle/mod.rs, all
  `i32`), in the operation order of the source:

    * `bounding_box` (l. 156-168): `min` / `max`, then `Rectangle::with_corners`;
    * `area_doubled` (l. 262-266): `-p2.y * p3.x + p1.y * (p3.x - p2.x) + p1.x * (p2.y - p3.y)
      + p2.x * p3.y` — one negation, four products, two differences, three sums;
    * `contains` (l. 95-153): bounding-box test, `s`, `t` (four products, two differences and
      three sums / differences each), `area_doubled`, the comparison chain with its
      short-circuit `&&` (`s + t` is only added when both signs fit), then `sorted_yx` and the
      three `Line::points()` of the sorted edges, built eagerly by `chain` and consumed lazily
      by `any`;
    * `sorted_yx`, `sort_two_yx` (l. 284-295, 387-396): comparisons only (no checked form needed);
      `sorted_clockwise` (l. 270-281): `area_doubled().cmp(&0)`;
    * `scanline_intersection` (l. 299-321): `sorted_yx`, `area_doubled`, one or three
      `Scanline::bresenham_intersection`.
-/
import EG.Model.CheckedScanline
import EG.Model.Triangle
namespace EG.Chk
open EG

namespace Triangle

/-- `Dimensions::bounding_box`. -/
def boundingBox (t : EG.Triangle) : Option Rect :=
  let xMin := min (min t.v1.x t.v2.x) t.v3.x
  let yMin := min (min t.v1.y t.v2.y) t.v3.y
  let xMax := max (max t.v1.x t.v2.x) t.v3.x
  let yMax := max (max t.v1.y t.v2.y) t.v3.y
  withCorners ⟨xMin, yMin⟩ ⟨xMax, yMax⟩

/-- `area_doubled`. -/
def areaDoubled (t : EG.Triangle) : Option Int := do
  let n ← chkI32 (-t.v2.y)
  let a ← chkI32 (n * t.v3.x)
  let d1 ← chkI32 (t.v3.x - t.v2.x)
  let b ← chkI32 (t.v1.y * d1)
  let ab ← chkI32 (a + b)
  let d2 ← chkI32 (t.v2.y - t.v3.y)
  let c ← chkI32 (t.v1.x * d2)
  let abc ← chkI32 (ab + c)
  let d ← chkI32 (t.v2.x * t.v3.y)
  chkI32 (abc + d)

/-- `s = p1.y * p3.x - p1.x * p3.y + (p3.y - p1.y) * p.x + (p1.x - p3.x) * p.y`. -/
def baryS (t : EG.Triangle) (p : Pt) : Option Int := do
  let a ← chkI32 (t.v1.y * t.v3.x)
  let b ← chkI32 (t.v1.x * t.v3.y)
  let c ← chkI32 (a - b)
  let d ← chkI32 (t.v3.y - t.v1.y)
  let e ← chkI32 (d * p.x)
  let f ← chkI32 (c + e)
  let g ← chkI32 (t.v1.x - t.v3.x)
  let h ← chkI32 (g * p.y)
  chkI32 (f + h)

/-- `t = p1.x * p2.y - p1.y * p2.x + (p1.y - p2.y) * p.x + (p2.x - p1.x) * p.y`. -/
def baryT (t : EG.Triangle) (p : Pt) : Option Int := do
  let a ← chkI32 (t.v1.x * t.v2.y)
  let b ← chkI32 (t.v1.y * t.v2.x)
  let c ← chkI32 (a - b)
  let d ← chkI32 (t.v1.y - t.v2.y)
  let e ← chkI32 (d * p.x)
  let f ← chkI32 (c + e)
  let g ← chkI32 (t.v2.x - t.v1.x)
  let h ← chkI32 (g * p.y)
  chkI32 (f + h)

/-- `if a < 0 { s <= 0 && t <= 0 && s + t >= a } else { s >= 0 && t >= 0 && s + t <= a }`:
the sum is evaluated only behind the two sign tests. -/
def isInsideOf (s u a : Int) : Option Bool :=
  if a < 0 then
    if s ≤ 0 ∧ u ≤ 0 then do
      let su ← chkI32 (s + u)
      pure (decide (su ≥ a))
    else pure false
  else
    if s ≥ 0 ∧ u ≥ 0 then do
      let su ← chkI32 (s + u)
      pure (decide (su ≤ a))
    else pure false

/-- The tail of `contains`: `Line::new(p1, p2).points().chain(Line::new(p1, p3).points())
.chain(Line::new(p2, p3).points()).any(|q| q == p)` on the `sorted_yx` vertices. The three
`Points::new` run before the first point is pulled. -/
def onEdge (t : EG.Triangle) (p : Pt) : Option Bool := do
  let s := t.sortedYx
  let i1 ← linePointsNew ⟨s.v1, s.v2⟩
  let i2 ← linePointsNew ⟨s.v1, s.v3⟩
  let i3 ← linePointsNew ⟨s.v2, s.v3⟩
  let r1 ← linePointsAny i1 p
  if r1 then pure true
  else do
    let r2 ← linePointsAny i2 p
    if r2 then pure true
    else linePointsAny i3 p

/-- `ContainsPoint::contains`. -/
def contains (t : EG.Triangle) (p : Pt) : Option Bool := do
  let bb ← boundingBox t
  let inBox ← Chk.contains bb p
  if !inBox then pure false
  else do
    let s ← baryS t p
    let u ← baryT t p
    let a ← areaDoubled t
    if a = 0 then pure false
    else do
      let inside ← isInsideOf s u a
      if inside then pure true
      else onEdge t p

/-- `sorted_clockwise`. -/
def sortedClockwise (t : EG.Triangle) : Option EG.Triangle := do
  let a ← areaDoubled t
  pure (if a < 0 then ⟨t.v2, t.v1, t.v3⟩ else if a > 0 then t else t.sortedYx)

/-- `scanline_intersection`. -/
def scanlineIntersection (t : EG.Triangle) (y : Int) : Option EG.Scanline := do
  let s := t.sortedYx
  let sc := EG.Scanline.newEmpty y
  let a ← areaDoubled t
  if a = 0 then Scanline.bresenhamIntersection sc ⟨s.v1, s.v3⟩
  else do
    let sc ← Scanline.bresenhamIntersection sc ⟨s.v1, s.v2⟩
    let sc ← Scanline.bresenhamIntersection sc ⟨s.v1, s.v3⟩
    Scanline.bresenhamIntersection sc ⟨s.v2, s.v3⟩

/-- `Transform::translate`: `*v += by` for the three vertices. -/
def translate (t : EG.Triangle) (d : Pt) : Option EG.Triangle := do
  let a ← ptAdd t.v1 d
  let b ← ptAdd t.v2 d
  let c ← ptAdd t.v3 d
  pure ⟨a, b, c⟩

end Triangle
end EG.Chk
