/-
  EG.Model.Bresenham — `Line`, `BresenhamParameters`, `Bresenham`, arm for arm.
  Source: src/primitives/line/bresenham.rs, src/primitives/line/mod.rs (struct `Line`,
          `perpendicular`, `delta`, `translate`), core/src/geometry/point.rs (`abs`, `x_axis`,
          `y_axis`), src/geometry/mod.rs (`length_squared`).
  `Int` for `i32`; plain `+ - *` are mathematical (overflow is C08's topic).
-/
import EG.Basic.Core
namespace EG

/-- `primitives::Line { start, end }`. -/
structure Line where
  start : Pt
  stop : Pt     -- Rust field `end`
  deriving DecidableEq, Repr, Inhabited

namespace Pt
/-- `Point::abs`. -/
def abs (p : Pt) : Pt := ⟨if p.x < 0 then -p.x else p.x, if p.y < 0 then -p.y else p.y⟩
/-- `Point::x_axis`. -/
def xAxis (p : Pt) : Pt := ⟨p.x, 0⟩
/-- `Point::y_axis`. -/
def yAxis (p : Pt) : Pt := ⟨0, p.y⟩
/-- `PointExt::length_squared`. -/
def lengthSquared (p : Pt) : Int := p.x * p.x + p.y * p.y
end Pt

namespace Line

/-- `Line::delta`. -/
def delta (l : Line) : Pt := l.stop - l.start

/-- `Line::perpendicular`. -/
def perpendicular (l : Line) : Line :=
  let d := l.stop - l.start
  let d : Pt := ⟨d.y, -d.x⟩
  ⟨l.start, l.start + d⟩

/-- `Transform::translate`. -/
def translate (l : Line) (by_ : Pt) : Line := ⟨l.start + by_, l.stop + by_⟩

end Line

/-- `MajorMinor<T>`. -/
structure MajorMinor (α : Type) where
  major : α
  minor : α
  deriving DecidableEq, Repr

/-- `BresenhamParameters`. -/
structure BresenhamParameters where
  errorThreshold : Int
  errorStep : MajorMinor Int
  positionStep : MajorMinor Pt
  deriving DecidableEq, Repr

namespace BresenhamParameters

/-- `BresenhamParameters::new`. -/
def new (line : Line) : BresenhamParameters :=
  let delta := line.stop - line.start
  let direction : Pt := ⟨if delta.x ≥ 0 then 1 else -1, if delta.y ≥ 0 then 1 else -1⟩
  let delta := delta.abs
  if delta.y ≥ delta.x then
    { errorThreshold := delta.y
      errorStep := ⟨2 * delta.x, 2 * delta.y⟩
      positionStep := ⟨direction.yAxis, direction.xAxis⟩ }
  else
    { errorThreshold := delta.x
      errorStep := ⟨2 * delta.y, 2 * delta.x⟩
      positionStep := ⟨direction.xAxis, direction.yAxis⟩ }

/-- `increase_error`: returns the new error and whether a minor step was taken. -/
def increaseError (p : BresenhamParameters) (error : Int) : Int × Bool :=
  let error := error + p.errorStep.major
  if error > p.errorThreshold then (error - p.errorStep.minor, true) else (error, false)

/-- `decrease_error`. -/
def decreaseError (p : BresenhamParameters) (error : Int) : Int × Bool :=
  let error := error - p.errorStep.major
  if error ≤ -p.errorThreshold then (error + p.errorStep.minor, true) else (error, false)

/-- `mirror_extra_points`. -/
def mirrorExtraPoints (p : BresenhamParameters) : Bool :=
  if p.positionStep.major.x ≠ 0 then
    p.positionStep.major.x == p.positionStep.minor.y
  else
    p.positionStep.major.y == -p.positionStep.minor.x

end BresenhamParameters

/-- `Bresenham { point, error }`. -/
structure Bresenham where
  point : Pt
  error : Int
  deriving DecidableEq, Repr

/-- `BresenhamPoint`. -/
inductive BresenhamPoint
  | normal (p : Pt)
  | extra (p : Pt)
  deriving DecidableEq, Repr

namespace Bresenham

/-- `Bresenham::new`. -/
def new (start : Pt) : Bresenham := ⟨start, 0⟩

/-- `Bresenham::with_initial_error`. -/
def withInitialError (start : Pt) (e : Int) : Bresenham := ⟨start, e⟩

/-- `Bresenham::next`: the returned point and the new state. -/
def next (b : Bresenham) (p : BresenhamParameters) : Pt × Bresenham :=
  let b : Bresenham :=
    if b.error > p.errorThreshold then
      ⟨b.point + p.positionStep.minor, b.error - p.errorStep.minor⟩
    else b
  (b.point, ⟨b.point + p.positionStep.major, b.error + p.errorStep.major⟩)

/-- `Bresenham::next_all`. -/
def nextAll (b : Bresenham) (p : BresenhamParameters) : BresenhamPoint × Bresenham :=
  let point := b.point
  if b.error > p.errorThreshold then
    let b' : Bresenham := ⟨b.point + p.positionStep.minor, b.error - p.errorStep.minor⟩
    let point :=
      if p.mirrorExtraPoints then point + p.positionStep.minor - p.positionStep.major else point
    (.extra point, b')
  else
    (.normal point, ⟨b.point + p.positionStep.major, b.error + p.errorStep.major⟩)

/-- `Bresenham::previous_all`. -/
def previousAll (b : Bresenham) (p : BresenhamParameters) : BresenhamPoint × Bresenham :=
  let point := b.point
  if b.error ≤ -p.errorThreshold then
    let b' : Bresenham := ⟨b.point - p.positionStep.minor, b.error + p.errorStep.minor⟩
    let point :=
      if !p.mirrorExtraPoints then point - p.positionStep.minor + p.positionStep.major else point
    (.extra point, b')
  else
    (.normal point, ⟨b.point - p.positionStep.major, b.error - p.errorStep.major⟩)

end Bresenham

/-- `bresenham::major_length`: `max(|dx|, |dy|) as u32 + 1`. -/
def majorLength (line : Line) : Nat :=
  let d := (line.stop - line.start).abs
  (max d.x d.y).toNat + 1

end EG
