/-
  EG.Model.MockDisplay — `embedded_graphics::mock_display::MockDisplay`, arm for arm.
  Source: src/mock_display/mod.rs, src/mock_display/color_mapping.rs
          (fancy_panic.rs is formatting only and is not modelled),
          core/src/draw_target/mod.rs (the three default methods, through `Call.lowerDefault`:
          `MockDisplay` implements `draw_iter` natively and nothing else).

  * the frame buffer `[Option<C>; 64 * 64]` is a `Vector (Option Color) 4096`, index `y * 64 + x`;
    a colour is its raw value (`Color = Nat`), as everywhere in the framework;
  * a panic is a result value. `Res.panic d` carries the state the display is left in when the
    panic unwinds (observable through `catch_unwind`; every panicking arm of `draw_pixel` fires
    before the store, so it is the state before the offending pixel);
  * `usize` index arithmetic is modelled as the *checked* build does it (`overflow-checks` are on
    in the harness): `i32 as usize` sign-extends to 64 bits, `+`/`*` panic on overflow, indexing
    panics outside `0..4096`;
  * `from_pattern` measures rows with `str::len()` (UTF-8 bytes) and converts `chars()`; both are
    modelled (`rowLen` = sum of `Char.utf8Size`).
-/
import EG.Model.Target
namespace EG
namespace Mock

/-- `SIZE`. -/
def SIZE : Nat := 64

/-- `DISPLAY_AREA = Rectangle::new(Point::zero(), Size::new_equal(64))`, also `bounding_box()`. -/
def displayArea : Rect := ⟨⟨0, 0⟩, ⟨64, 64⟩⟩

abbrev Cells := Vector (Option Color) 4096

/-- `struct MockDisplay<C>`. -/
structure MD where
  pixels : Cells
  allowOverdraw : Bool
  allowOob : Bool

/-- `Default::default()` / `new()`. -/
def MD.new : MD := ⟨Vector.replicate 4096 none, false, false⟩

def MD.setAllowOverdraw (d : MD) (v : Bool) : MD := { d with allowOverdraw := v }
def MD.setAllowOob (d : MD) (v : Bool) : MD := { d with allowOob := v }

/-! ### `usize` arithmetic of a checked build (64-bit host) -/

def U64 : Nat := 18446744073709551616

/-- `i32 as usize`: sign extension. -/
def asUsize (a : Int) : Nat := if 0 ≤ a then a.toNat else U64 - (-a).toNat

/-- `usize * usize`, `none` = "attempt to multiply with overflow". -/
def ckMul (a b : Nat) : Option Nat := if a * b < U64 then some (a * b) else none
/-- `usize + usize`, `none` = "attempt to add with overflow". -/
def ckAdd (a b : Nat) : Option Nat := if a + b < U64 then some (a + b) else none

/-- `get_pixel`: `self.pixels[x as usize + y as usize * SIZE]` — no bounds check of its own.
`none` = panic (arithmetic overflow or index out of range); for `x ≥ 64` with
`x + 64 y < 4096` the index aliases another cell. -/
def MD.getPixel (d : MD) (p : Pt) : Option (Option Color) :=
  match ckMul (asUsize p.y) SIZE with
  | none => none
  | some yy =>
    match ckAdd (asUsize p.x) yy with
    | none => none
    | some i => if h : i < 4096 then some d.pixels[i] else none

/-- `set_pixel_unchecked`: `let i = point.x + point.y * SIZE as i32; self.pixels[i as usize] = color`
(`i32` arithmetic is the mathematical one). `none` = index-out-of-range panic. -/
def MD.setPixelUnchecked (d : MD) (p : Pt) (c : Option Color) : Option MD :=
  let i := asUsize (p.x + p.y * 64)
  if h : i < 4096 then some { d with pixels := d.pixels.set i c h } else none

/-- `set_pixel`: the `assert!` then the same store. `none` = panic. -/
def MD.setPixel (d : MD) (p : Pt) (c : Option Color) : Option MD :=
  if p.x ≥ 0 ∧ p.y ≥ 0 ∧ p.x < 64 ∧ p.y < 64 then d.setPixelUnchecked p c else none

/-- Result of a mutating operation: finished, or panicked leaving the display in state `d`. -/
inductive Res where
  | ok (d : MD)
  | panic (d : MD)

def Res.state : Res → MD
  | .ok d => d
  | .panic d => d

def Res.isOk : Res → Bool
  | .ok _ => true
  | .panic _ => false

/-- `draw_pixel`, in the order of the source: bounds test first (panic, or silently return on the
allowed path), then the overdraw test (`get_pixel` is only evaluated when overdraw is not
allowed: `&&` short-circuits), then the store. -/
def MD.drawPixel (d : MD) (p : Pt) (c : Color) : Res :=
  if !displayArea.contains p then
    if !d.allowOob then .panic d else .ok d
  else
    let twice : Option Bool :=
      if !d.allowOverdraw then
        match d.getPixel p with
        | none => none
        | some old => some old.isSome
      else some false
    match twice with
    | none => .panic d
    | some true => .panic d
    | some false =>
      match d.setPixelUnchecked p (some c) with
      | some d' => .ok d'
      | none => .panic d

/-- `DrawTarget::draw_iter`: `for pixel in pixels { self.draw_pixel(point, color) }`. -/
def MD.drawIter (d : MD) : Writes → Res
  | [] => .ok d
  | w :: rest =>
    match d.drawPixel w.1 w.2 with
    | .ok d' => d'.drawIter rest
    | .panic d' => .panic d'

/-- `set_pixels`. -/
def MD.setPixels (d : MD) (c : Option Color) : List Pt → Res
  | [] => .ok d
  | p :: rest =>
    match d.setPixel p c with
    | some d' => d'.setPixels c rest
    | none => .panic d

/-- Any `DrawTarget` call: `draw_iter` is native, `fill_contiguous` / `fill_solid` / `clear` are
the trait defaults (lowered to `draw_iter` over `area.points().zip(colors)`). -/
def MD.drawCall (d : MD) (c : Call) : Res := d.drawIter (c.lowerDefault displayArea)

/-- One operation of a history. -/
inductive Op where
  | drawPixel (p : Pt) (c : Color)
  | call (c : Call)
  | setPixel (p : Pt) (c : Option Color)
  | setOverdraw (v : Bool)
  | setOob (v : Bool)

def MD.step (d : MD) : Op → Res
  | .drawPixel p c => d.drawPixel p c
  | .call c => d.drawCall c
  | .setPixel p c =>
    match d.setPixel p c with
    | some d' => .ok d'
    | none => .panic d
  | .setOverdraw v => .ok (d.setAllowOverdraw v)
  | .setOob v => .ok (d.setAllowOob v)

/-- A history: stops at the first panic. -/
def MD.run (d : MD) : List Op → Res
  | [] => .ok d
  | o :: rest =>
    match d.step o with
    | .ok d' => d'.run rest
    | .panic d' => .panic d'

/-! ### `affected_area` -/

/-- The closure of the `fold`. -/
def aaStep (acc : Option Pt × Option Pt) (point : Pt) : Option Pt × Option Pt :=
  ( (match acc.1 with
     | some tl => some (tl.componentMin point)
     | none => some point),
    (match acc.2 with
     | some br => some (br.componentMax point)
     | none => some point) )

/-- `bounding_box().points().zip(pixels.iter()).filter_map(|(point, color)| color.map(|_| point))`. -/
def MD.touched (d : MD) : List Pt :=
  (displayArea.points.zip d.pixels.toList).filterMap (fun pc => pc.2.map (fun _ => pc.1))

def MD.affectedArea (d : MD) : Rect :=
  match d.touched.foldl aaStep (none, none) with
  | (some tl, some br) => Rect.withCorners tl br
  | _ => Rect.zero

/-- `affected_area_origin` (private; used by the fancy panic only). -/
def MD.affectedAreaOrigin (d : MD) : Rect :=
  match d.affectedArea.bottomRight with
  | some br => Rect.withCorners Pt.zero br
  | none => Rect.zero

/-! ### `PartialEq`, `diff` -/

/-- `Iterator::eq`. -/
def iterEq : List (Option Color) → List (Option Color) → Bool
  | [], [] => true
  | a :: as, b :: bs => if a != b then false else iterEq as bs
  | _, _ => false

/-- `PartialEq::eq`: the cell arrays only (the two flags are not compared). -/
def MD.eq (a b : MD) : Bool := iterEq a.pixels.toList b.pixels.toList

def RED : Color := 0xFF0000
def GREEN : Color := 0x00FF00
def BLUE : Color := 0x0000FF

def diffColor : Option Color → Option Color → Option Color
  | some _, none => some GREEN
  | none, some _ => some RED
  | some s, some o => if s != o then some BLUE else none
  | none, none => none

/-- Body of the loop of `diff` (`none` = one of the unchecked accesses panicked). -/
def diffStep (a b : MD) (acc : Option MD) (point : Pt) : Option MD :=
  match acc with
  | none => none
  | some display =>
    match a.getPixel point, b.getPixel point with
    | some s, some o => display.setPixelUnchecked point (diffColor s o)
    | _, _ => none

/-- `diff`: a `MockDisplay<Rgb888>`. -/
def MD.diff (a b : MD) : Option MD :=
  displayArea.points.foldl (diffStep a b) (some MD.new)

/-- `swap_xy`. -/
def MD.swapXy (a : MD) : Option MD :=
  displayArea.points.foldl (fun acc point =>
    match acc with
    | none => none
    | some m =>
      match a.getPixel ⟨point.y, point.x⟩ with
      | some c => m.setPixelUnchecked point c
      | none => none) (some MD.new)

/-- `map`. -/
def MD.map (a : MD) (f : Color → Color) : Option MD :=
  displayArea.points.foldl (fun acc point =>
    match acc with
    | none => none
    | some m =>
      match a.getPixel point with
      | some c => m.setPixelUnchecked point (c.map f)
      | none => none) (some MD.new)

/-! ### `ColorMapping` (color_mapping.rs) -/

/-- The colour types that implement `ColorMapping`. -/
inductive CT where
  | binary | gray2 | gray4 | gray8
  | rgb332 | rgb444 | rgb555 | bgr555 | rgb565 | bgr565 | rgb888 | bgr888
  deriving DecidableEq, Repr

/-- Channel widths and positions of the `rgb_color!` invocations (core/src/pixelcolor/rgb_color.rs):
`Rgb = (r, g, b)` puts red in the high bits, `Bgr` blue. -/
structure RgbLayout where
  rb : Nat
  gb : Nat
  bb : Nat
  bgr : Bool

def RgbLayout.rpos (l : RgbLayout) : Nat := if l.bgr then 0 else l.gb + l.bb
def RgbLayout.gpos (l : RgbLayout) : Nat := if l.bgr then l.rb else l.bb
def RgbLayout.bpos (l : RgbLayout) : Nat := if l.bgr then l.rb + l.gb else 0

def CT.rgb : CT → Option RgbLayout
  | .rgb332 => some ⟨3, 3, 2, false⟩
  | .rgb444 => some ⟨4, 4, 4, false⟩
  | .rgb555 => some ⟨5, 5, 5, false⟩
  | .bgr555 => some ⟨5, 5, 5, true⟩
  | .rgb565 => some ⟨5, 6, 5, false⟩
  | .bgr565 => some ⟨5, 6, 5, true⟩
  | .rgb888 => some ⟨8, 8, 8, false⟩
  | .bgr888 => some ⟨8, 8, 8, true⟩
  | _ => none

/-- Number of raw bits of the colour type (raw values are masked to this width). -/
def CT.bits : CT → Nat
  | .binary => 1 | .gray2 => 2 | .gray4 => 4 | .gray8 => 8
  | .rgb332 => 8 | .rgb444 => 12 | .rgb555 => 15 | .bgr555 => 15
  | .rgb565 => 16 | .bgr565 => 16 | .rgb888 => 24 | .bgr888 => 24

/-- The eight named constants in the order of the two `match`es of `impl_rgb_color_mapping!`:
`BLACK RED GREEN BLUE YELLOW MAGENTA CYAN WHITE` with `Self::new(MAX_R, 0, 0)` etc. -/
def RgbLayout.named (l : RgbLayout) : List (Char × Color) :=
  let r := (2 ^ l.rb - 1) * 2 ^ l.rpos
  let g := (2 ^ l.gb - 1) * 2 ^ l.gpos
  let b := (2 ^ l.bb - 1) * 2 ^ l.bpos
  [('K', 0), ('R', r), ('G', g), ('B', b), ('Y', r + g), ('M', r + b), ('C', g + b), ('W', r + g + b)]

/-- `char::to_digit(16)`: ASCII only, both cases. -/
def toDigit16 (c : Char) : Option Nat :=
  let n := c.toNat
  if 48 ≤ n ∧ n ≤ 57 then some (n - 48)
  else if 97 ≤ n ∧ n ≤ 102 then some (n - 87)
  else if 65 ≤ n ∧ n ≤ 70 then some (n - 55)
  else none

/-- `char::to_digit(4)`. -/
def toDigit4 (c : Char) : Option Nat :=
  let n := c.toNat
  if 48 ≤ n ∧ n ≤ 51 then some (n - 48) else none

/-- `char::from_digit(n, 16).unwrap().to_ascii_uppercase()` for `n < 16`. -/
def hexUpper (n : Nat) : Char :=
  ['0', '1', '2', '3', '4', '5', '6', '7', '8', '9', 'A', 'B', 'C', 'D', 'E', 'F'].getD n '?'

/-- `ColorMapping::char_to_color`; `none` = "Invalid char in pattern" panic. -/
def charToColor (ct : CT) (c : Char) : Option Color :=
  match ct with
  | .binary => if c = '.' then some 0 else if c = '#' then some 1 else none
  | .gray2 => toDigit4 c
  | .gray4 => toDigit16 c
  | .gray8 => (toDigit16 c).map (· * 0x11)
  | ct =>
    match ct.rgb with
    | some l => l.named.lookup c
    | none => none

/-- `ColorMapping::color_to_char` (raw values are taken modulo the type's width, as the
constructors mask them). -/
def colorToChar (ct : CT) (c : Color) : Char :=
  match ct with
  | .binary => if c % 2 = 0 then '.' else '#'
  | .gray2 => hexUpper (c % 4)
  | .gray4 => hexUpper (c % 16)
  | .gray8 =>
    let luma := c % 256
    let lower := luma % 16
    let upper := luma / 16
    if lower ≠ upper then '?' else hexUpper lower
  | ct =>
    match ct.rgb with
    | some l =>
      match l.named.find? (fun e => e.2 == c % 2 ^ ct.bits) with
      | some e => e.1
      | none => '?'
    | none => '?'

/-! ### `from_pattern` -/

inductive PatRes where
  | ok (d : MD)
  | panicWidth    -- "Test pattern must not be wider than 64 columns"
  | panicHeight   -- "Test pattern must not be taller than 64 rows"
  | panicRow      -- "Row #k is n characters wide (must be ...)"
  | panicChar     -- `char_to_color` panicked

/-- `str::len()`: UTF-8 bytes. -/
def rowLen (row : List Char) : Nat := (row.map Char.utf8Size).sum

/-- `match c { ' ' => None, _ => Some(C::char_to_color(c)) }`; outer `none` = panic. -/
def convChar (ct : CT) (c : Char) : Option (Option Color) :=
  if c = ' ' then some none
  else match charToColor ct c with
    | some col => some (some col)
    | none => none

def convRow (ct : CT) : List Char → Option (List (Option Color))
  | [] => some []
  | c :: rest =>
    match convChar ct c, convRow ct rest with
    | some v, some vs => some (v :: vs)
    | _, _ => none

def convRows (ct : CT) : List (List Char) → Option (List (List (Option Color)))
  | [] => some []
  | r :: rest =>
    match convRow ct r, convRows ct rest with
    | some v, some vs => some (v :: vs)
    | _, _ => none

/-- `row.chars().map(..).chain(repeat(None)).take(SIZE)`. -/
def padRow (row : List (Option Color)) : List (Option Color) := (row ++ List.replicate 64 none).take 64

/-- `pattern.iter().flat_map(padded row).chain(repeat(None)).take(SIZE * SIZE)`. -/
def patternColors (rows : List (List (Option Color))) : List (Option Color) :=
  (rows.flatMap padRow ++ List.replicate 4096 none).take 4096

theorem patternColors_length (rows : List (List (Option Color))) : (patternColors rows).length = 4096 := by
  simp only [patternColors, List.length_take, List.length_append, List.length_replicate]
  omega

/-- `for (i, color) in pattern_colors.enumerate() { display.pixels[i] = color }`: the iterator has
exactly `SIZE * SIZE` items, so every cell is overwritten, in index order. -/
def cellsOfPattern (rows : List (List (Option Color))) : Cells :=
  ⟨(patternColors rows).toArray, by simp [patternColors_length]⟩

def fromPattern (ct : CT) (pattern : List (List Char)) : PatRes :=
  let width := match pattern with
    | [] => 0
    | r :: _ => rowLen r
  if ¬ width ≤ 64 then .panicWidth
  else if ¬ pattern.length ≤ 64 then .panicHeight
  else if ¬ pattern.all (fun r => rowLen r == width) then .panicRow
  else match convRows ct pattern with
    | none => .panicChar
    | some rows => .ok ⟨cellsOfPattern rows, false, false⟩

/-! ### `Debug` -/

/-- `slice.chunks(64)` of a slice of `n * 64` elements. -/
def chunks64 (l : List (Option Color)) : Nat → List (List (Option Color))
  | 0 => []
  | n + 1 => l.take 64 :: chunks64 (l.drop 64) n

def MD.rows (d : MD) : List (List (Option Color)) := chunks64 d.pixels.toList 64

/-- `pixels.rchunks(64).take_while(|row| row.iter().all(Option::is_none)).count()`. -/
def MD.emptyRows (d : MD) : Nat :=
  (d.rows.reverse.takeWhile (fun row => row.all Option.isNone)).length

/-- The character rows the `Debug` impl writes (`chunks(64).take(64 - empty_rows)`, each cell
`color.map_or(' ', C::color_to_char)`). -/
def MD.debugRows (ct : CT) (d : MD) : List (List Char) :=
  (d.rows.take (64 - d.emptyRows)).map (fun row => row.map (fun c =>
    match c with
    | none => ' '
    | some col => colorToChar ct col))

/-- The complete `{:?}` text. -/
def MD.debugText (ct : CT) (d : MD) : String :=
  let body := String.join ((d.debugRows ct).map (fun r => String.ofList r ++ "\n"))
  let skipped := if d.emptyRows > 0 then "(" ++ toString d.emptyRows ++ " empty rows skipped)\n" else ""
  "MockDisplay[\n" ++ body ++ skipped ++ "]\n"

end Mock
end EG
