/-
  EG.Model.AdaptSrcPrelude — the meaning of every Rust primitive that the GENERATED file
  EG/Generated/AdaptSrc.lean (written by tools/tr_adapt.py from the Rust text of the four draw-target adapters and of
  the `DrawTarget` trait's default methods) calls, beyond those of EG/Model/RectSrcPrelude.lean.

  TRUSTED BASE. The translator is syntax-directed; what a Rust primitive means is said HERE, by hand:

  * A colour (`Self::Color`, `T::Color`, the generic `C`) is its raw value (`EG.Color = Nat`, DESIGN.md section 4);
    `Pixel(p, c)` is the pair `(p, c)` (`EG.Writes = List (Pt × Color)` is a list of pixels).
  * An `I: IntoIterator<Item = X>` argument is THE FINITE LIST OF ITEMS IT YIELDS (`List X`); `into_iter` is the
    identity, `Iterator::map / filter / zip` are `List.map / filter / zip`. This is faithful for fused,
    side-effect-free iterators; laziness (how many items a failing parent pulled) is outside the model, as in
    the hand model (`-- [V]` lines of C03 / C04).
  * `core::iter::repeat(c)` is infinite: it is represented by `fuel` copies (`core_iter_repeat fuel c`), `fuel` an
    explicit parameter of the generated function, like `while_loop` of RectSrcPrelude. The theorems say how much
    fuel suffices (the number of points of the area: all a `zip` with `area.points()` can consume) and that
    any larger amount gives the same pixels.
  * An iterator adapter DEFINED IN THE CRATE whose `Iterator::next` is literally `self.iter.next().map(F)` yields
    `F` of every item of `self.iter`, in order (`iter_of_next_map`; `Option::map` of the inner `next`); the
    translator checks that shape and translates `F`.
  * A draw target of the generic parent type `T: DrawTarget` is represented by the ONLY value the adapter bodies
    read from it, its `bounding_box()` (`DrawTargetT`); calling one of the four `DrawTarget` methods on it IS the
    value of the hand model's `EG.Call` (`DrawTargetT_draw_iter` ...): the generated adapter methods return the
    parent call they make. That the method's `Result` is the parent call's is the SHAPE fact the translator
    checks separately (`adapterMethodShapes`: tail position, nothing applied to the `Result`).
  * `Rectangle::{intersection, translate, contains, points}`, `==` on rectangles, `-p`, `p + q` are the hand
    model's `EG.Rect` / `EG.Pt` functions. Their own tie to the Rust text is C16's (EG/Props/C16/Generated*.lean:
    regenerated bodies = these functions, `intersection` / `contains` under `FitsI32`; `Points` iterator).
  * `Iterator::next` / `Iterator::nth(n)` on an iterator that is a list: `listiter_next` takes the head, `listiter_nth n`
    drops `n` items and takes the next (the default `nth`: `advance_by(n).ok()?; next()`; a list that is too short
    is left empty and gives `None`). Both return the item and the rest (the translator rebinds the receiver).
  * An iterator DEFINED IN THE CRATE with a stateful `next` (`iterator::contiguous::Cropped`, the colour iterator
    `Clipped::fill_contiguous` builds; its `new` and `next` are regenerated) used where an `IntoIterator` is expected
    is the list of items its generated `next` yields until the first `None`, on explicit fuel (`iter_collect_fuel`;
    the theorems say the number of input colours + 1 suffices and more changes nothing).
  * `usize` is `Nat` with mathematical `+ * `, truncated `-`; `u32 as usize` is the identity (`usize` is at least 32
    bits on every supported target); `i32 as usize` sign-extends (stated for a 64-bit `usize`; the equivalence theorem
    shows the value cast is never negative, where the width does not matter).
  * `PhantomData` is `Unit`.

  All definitions are `abbrev`s (see RectSrcPrelude). Import-free apart from EG.Model.
-/
import EG.Model.RectSrcPrelude
import EG.Model.CroppedIter
namespace EG.AdaptSrcPrelude
open EG EG.RectSrcPrelude

-- `Color` and `Call` in the generated text are `EG.Color` (= `Nat`) and `EG.Call` of EG/Model/Target.lean

/-! ### `Pixel`, tuples, `PhantomData` -/

abbrev Pixel := Pt × EG.Color
abbrev Pixel_mk (p : Point) (c : Color) : Pixel := (p, c)
abbrev Pixel_0 (px : Pixel) : Point := px.1
abbrev Pixel_1 (px : Pixel) : Color := px.2
abbrev tuple_0 {α β : Type} (t : α × β) : α := t.1
abbrev tuple_1 {α β : Type} (t : α × β) : β := t.2
abbrev PhantomData := Unit
abbrev PhantomData_mk : PhantomData := ()

/-! ### iterators: the list of their items -/

abbrev into_iter {α : Type} (l : List α) : List α := l
abbrev iter_map {α β : Type} (l : List α) (f : α → β) : List β := l.map f
abbrev iter_filter {α : Type} (l : List α) (f : α → Bool) : List α := l.filter f
abbrev iter_zip {α β : Type} (a : List α) (b : List β) : List (α × β) := a.zip b
/-- `core::iter::repeat(c)`, cut to `fuel` items. -/
abbrev core_iter_repeat {α : Type} (fuel : Nat) (c : α) : List α := List.replicate fuel c
/-- an iterator whose `next` is `self.iter.next().map(f)`. -/
abbrev iter_of_next_map {α β : Type} (inner : List α) (f : α → β) : List β := inner.map f
/-- `Iterator::next` of an iterator that is a list: the item and the rest. -/
abbrev listiter_next {α : Type} (l : List α) : Option α × List α :=
  match l with
  | [] => (none, [])
  | a :: t => (some a, t)
/-- `Iterator::nth(n)`: skip `n` items, then `next`. -/
abbrev listiter_nth {α : Type} (l : List α) (n : Nat) : Option α × List α := listiter_next (l.drop n)
/-- The items a `for` loop sees from an iterator given by its `next` (value, updated state), on explicit fuel. -/
def iter_collect_fuel {σ α : Type} (next : σ → Option α × σ) : Nat → σ → List α
  | 0, _ => []
  | fuel + 1, s =>
    match next s with
    | (some a, s') => a :: iter_collect_fuel next fuel s'
    | (none, _) => []

/-! ### `usize` -/

abbrev usize_add (a b : Nat) : Nat := a + b
abbrev usize_mul (a b : Nat) : Nat := a * b
/-- `usize - usize` (panics below 0 in a checked build; truncated here). -/
abbrev usize_sub (a b : Nat) : Nat := a - b
abbrev usize_div (a b : Nat) : Nat := a / b
abbrev usize_eq (a b : Nat) : Bool := decide (a = b)
abbrev usize_ne (a b : Nat) : Bool := decide (a ≠ b)
abbrev usize_lt (a b : Nat) : Bool := decide (a < b)
abbrev usize_le (a b : Nat) : Bool := decide (a ≤ b)
abbrev usize_gt (a b : Nat) : Bool := decide (a > b)
abbrev usize_ge (a b : Nat) : Bool := decide (a ≥ b)
abbrev u32_as_usize (a : Nat) : Nat := a
/-- `x as usize` for `x : i32`: sign extension (64-bit `usize`). -/
abbrev i32_as_usize (a : Int) : Nat := if 0 ≤ a then a.toNat else (a + 18446744073709551616).toNat

/-! ### `Rectangle` / `Point` operations used by the adapters (the hand model's) -/

abbrev Rectangle_new (top_left : Point) (size : Size) : Rectangle := ⟨top_left, size⟩
abbrev Rectangle_intersection (a b : Rectangle) : Rectangle := a.intersection b
abbrev Rectangle_translate (r : Rectangle) (by_ : Point) : Rectangle := r.translate by_
abbrev Rectangle_contains (r : Rectangle) (p : Point) : Bool := r.contains p
abbrev Rectangle_points (r : Rectangle) : List Point := r.points
/-- derived `PartialEq` of `Rectangle` -/
abbrev Rectangle_eq (a b : Rectangle) : Bool := decide (a = b)
abbrev Rectangle_ne (a b : Rectangle) : Bool := decide (a ≠ b)
abbrev point_zero : Point := Pt.zero
abbrev Point_neg (p : Point) : Point := -p
abbrev Point_add (p q : Point) : Point := p + q
abbrev Point_sub (p q : Point) : Point := p - q

/-! ### the generic parent target -/

/-- A target of the generic type `T: DrawTarget`: its `bounding_box()`. -/
abbrev DrawTargetT := Rectangle
abbrev DrawTargetT_bounding_box (t : DrawTargetT) : Rectangle := t
/-- `t.draw_iter(pixels)` on a generic target: the call itself. -/
abbrev DrawTargetT_draw_iter (_t : DrawTargetT) (pixels : List Pixel) : Call := .drawIter pixels
abbrev DrawTargetT_fill_contiguous (_t : DrawTargetT) (area : Rectangle) (colors : List Color) : Call :=
  .fillContiguous area colors
abbrev DrawTargetT_fill_solid (_t : DrawTargetT) (area : Rectangle) (color : Color) : Call := .fillSolid area color
abbrev DrawTargetT_clear (_t : DrawTargetT) (color : Color) : Call := .clear color

end EG.AdaptSrcPrelude
