/-
  EG.Basic.Core — integer ranges, fixed-width integer helpers, points, sizes.
  Import-free (core Lean only) so that the driver links as a native executable.
-/
namespace EG

/-! ## Fixed-width integer helpers (Rust `i32` / `u32` semantics that the code relies on) -/

/-- `u32::saturating_as::<i32>()`, `as i32` after saturation. -/
def satAsI32 (n : Nat) : Int := if n ≤ 2147483647 then (n : Int) else 2147483647

/-- `i32::saturating_add`. -/
def satAddI32 (a b : Int) : Int :=
  if a + b > 2147483647 then 2147483647 else if a + b < -2147483648 then -2147483648 else a + b

/-- `u32::saturating_add`. -/
def satAddU32 (a b : Nat) : Nat := if a + b ≤ 4294967295 then a + b else 4294967295

/-- `i32` division by two, truncating toward zero (Rust `/`). -/
def tdiv2 (d : Int) : Int := if 0 ≤ d then d / 2 else -((-d) / 2)

/-- Rust `/` on `i32`: truncating division (`Int.tdiv`), written with `/` on naturals so that
`omega` can see through it. Division by zero is not reachable in the modelled code. -/
def tdiv (a b : Int) : Int := Int.tdiv a b

def inI32 (a : Int) : Prop := -2147483648 ≤ a ∧ a ≤ 2147483647
instance (a : Int) : Decidable (inI32 a) := by unfold inI32; exact inferInstance

/-! ## Half-open integer ranges `a..b` -/

/-- The Rust range `a..b` over `i32`, as a list. -/
def irange (a b : Int) : List Int := (List.range (b - a).toNat).map (fun (i : Nat) => a + (i : Int))

theorem mem_irange {a b x : Int} : x ∈ irange a b ↔ a ≤ x ∧ x < b := by
  unfold irange
  simp only [List.mem_map, List.mem_range]
  constructor
  · rintro ⟨i, hi, rfl⟩; omega
  · rintro ⟨h1, h2⟩; exact ⟨(x - a).toNat, by omega, by omega⟩

theorem irange_length (a b : Int) : (irange a b).length = (b - a).toNat := by
  simp [irange]

theorem irange_empty {a b : Int} (h : b ≤ a) : irange a b = [] := by
  unfold irange
  have : (b - a).toNat = 0 := by omega
  simp [this]

theorem irange_cons {a b : Int} (h : a < b) : irange a b = a :: irange (a + 1) b := by
  unfold irange
  have : (b - a).toNat = (b - (a + 1)).toNat + 1 := by omega
  rw [this, List.range_succ_eq_map]
  simp only [List.map_cons, List.map_map]
  congr 1
  · simp
  · apply List.map_congr_left
    intro i _
    simp only [Function.comp]
    omega

theorem irange_getElem (a b : Int) (i : Nat) (h : i < (irange a b).length) :
    (irange a b)[i] = a + i := by
  simp [irange]

theorem irange_pairwise_lt (a b : Int) : (irange a b).Pairwise (· < ·) := by
  unfold irange
  rw [List.pairwise_map]
  have : (List.range (b - a).toNat).Pairwise (· < ·) := List.pairwise_lt_range
  exact this.imp (by intro x y h; omega)

theorem irange_nodup (a b : Int) : (irange a b).Nodup :=
  (irange_pairwise_lt a b).imp (by intro x y h; exact Int.ne_of_lt h)

/-! ## Points, sizes -/

structure Pt where
  x : Int
  y : Int
  deriving DecidableEq, Repr, Inhabited

structure Sz where
  w : Nat
  h : Nat
  deriving DecidableEq, Repr, Inhabited

namespace Pt
def zero : Pt := ⟨0, 0⟩
def add (a b : Pt) : Pt := ⟨a.x + b.x, a.y + b.y⟩
def sub (a b : Pt) : Pt := ⟨a.x - b.x, a.y - b.y⟩
def neg (a : Pt) : Pt := ⟨-a.x, -a.y⟩
instance : Add Pt := ⟨add⟩
instance : Sub Pt := ⟨sub⟩
instance : Neg Pt := ⟨neg⟩
@[simp] theorem add_x (a b : Pt) : (a + b).x = a.x + b.x := rfl
@[simp] theorem add_y (a b : Pt) : (a + b).y = a.y + b.y := rfl
@[simp] theorem sub_x (a b : Pt) : (a - b).x = a.x - b.x := rfl
@[simp] theorem sub_y (a b : Pt) : (a - b).y = a.y - b.y := rfl
@[simp] theorem neg_x (a : Pt) : (-a).x = -a.x := rfl
@[simp] theorem neg_y (a : Pt) : (-a).y = -a.y := rfl
def componentMin (a b : Pt) : Pt := ⟨min a.x b.x, min a.y b.y⟩
def componentMax (a b : Pt) : Pt := ⟨max a.x b.x, max a.y b.y⟩
theorem ext_iff' {a b : Pt} : a = b ↔ a.x = b.x ∧ a.y = b.y := by
  cases a; cases b; simp
/-- Row-major order (the order of `Rectangle::points`). -/
def rowMajorLt (a b : Pt) : Prop := a.y < b.y ∨ (a.y = b.y ∧ a.x < b.x)
instance (a b : Pt) : Decidable (rowMajorLt a b) := by unfold rowMajorLt; exact inferInstance
end Pt

namespace Sz
def zero : Sz := ⟨0, 0⟩
def satSub (a b : Sz) : Sz := ⟨a.w - b.w, a.h - b.h⟩
def satAdd (a b : Sz) : Sz := ⟨satAddU32 a.w b.w, satAddU32 a.h b.h⟩
def newEqual (n : Nat) : Sz := ⟨n, n⟩
end Sz

end EG
