/-
  EG.Driver.C06 — model side of the C06 correspondence streams (harness/src/c06.rs).
-/
import EG.Driver.Util
namespace EG.Driver
open EG

def c06 (_stream : String) (_t : Toks) : Option String := none

end EG.Driver
