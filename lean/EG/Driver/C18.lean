/-
  EG.Driver.C18 — model side of the C18 correspondence streams (harness/src/c18.rs).
-/
import EG.Driver.Util
namespace EG.Driver
open EG

def c18 (_stream : String) (_t : Toks) : Option String := none

end EG.Driver
