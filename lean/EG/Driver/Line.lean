/-
  EG.Driver.Line — model side of the `line.*` correspondence streams (harness/src/m_line.rs).
-/
import EG.Driver.Util
namespace EG.Driver
open EG

def handleLine (_stream : String) (_t : Toks) : Option String := none

end EG.Driver
