/-
  EG.Driver.Line — model side of the `line.*` correspondence streams (harness/src/m_line.rs).
-/
import EG.Driver.Util
import EG.Model.Line
namespace EG.Driver
open EG

/-- Same digest as `pts_digest` in harness/src/m_line.rs. -/
def ptsHash (ps : List Pt) : Nat :=
  ps.foldl (fun h p =>
    (h * 1000003 + ((p.x + 2147483648).toNat % 18446744073709551616) * 65599
      + (p.y + 2147483648).toNat) % 18446744073709551616) 0

def fmtPtsDigest (ps : List Pt) : String :=
  if ps.length ≤ 64 then fmtPts ps
  else
    s!"n={ps.length} first={fmtOptPt ps.head?} last={fmtOptPt ps.getLast?} h={ptsHash ps}"

def handleLine (stream : String) (t : Toks) : Option String :=
  match stream with
  | "line.points" =>
    let (s, t) := t.pt
    let (e, _) := t.pt
    some (fmtPtsDigest (Line.points ⟨s, e⟩))
  | "line.translate" =>
    let (s, t) := t.pt
    let (e, t) := t.pt
    let (d, _) := t.pt
    some (fmtPtsDigest (Line.points ((⟨s, e⟩ : Line).translate d)))
  | _ => none

end EG.Driver
