/-
  EG.Driver.C10 — model side of the C10 correspondence streams (harness/src/c10.rs).
-/
import EG.Driver.Util
namespace EG.Driver
open EG

def c10 (_stream : String) (_t : Toks) : Option String := none

end EG.Driver
