/-
  EG.Driver.C11 — model side of the C11 correspondence streams (harness/src/c11.rs).
-/
import EG.Driver.Util
namespace EG.Driver
open EG

def c11 (_stream : String) (_t : Toks) : Option String := none

end EG.Driver
