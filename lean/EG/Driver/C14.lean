/-
  EG.Driver.C14 — model side of the C14 correspondence streams (harness/src/c14.rs).
-/
import EG.Driver.Util
namespace EG.Driver
open EG

def c14 (_stream : String) (_t : Toks) : Option String := none

end EG.Driver
