/-
  EG.Driver.ScaleAdapter — model side of the `scale.adapter` stream (harness/src/m_scale_adapter.rs)
  for `calls` jobs: target calls issued on a stack of clipped / cropped / translated / colour
  converted adapters over a display-scale root, lowered to root calls by `EG.Model.Adapters`
  (`lowerStack`, `stackBoxes`) and summarised exactly as the harness's non-allocating probe
  targets summarise what they receive. Colours are black / white only: every conversion of the
  real chain (`BinaryColor -> Rgb565 -> Rgb888`) maps black to black and white to white, and the
  probes print `0` for black, `1` otherwise, so the converted adapters are the identity here.
  Jobs that draw shapes / images / text have no model (`none`, printed `skip`), and so have ops
  whose lowered areas exceed `bigLimit` points (the list-based model would need a deep recursion).
-/
import EG.Driver.Util
import EG.Model.Adapters
namespace EG.Driver
open EG

private def saRect4 (s : String) : Rect :=
  match (s.splitOn ",") with
  | [x, y, w, h] => ⟨⟨parseInt x, parseInt y⟩, ⟨parseNat w, parseNat h⟩⟩
  | _ => Rect.zero

private def saStack (s : String) : Stack :=
  if s == "-" then [] else
  (s.splitOn "/").filterMap (fun a =>
    if a.startsWith "c:" then some (Adapter.clipped (saRect4 (a.drop 2).toString))
    else if a.startsWith "r:" then some (Adapter.cropped (saRect4 (a.drop 2).toString))
    else if a.startsWith "t:" then
      match ((a.drop 2).toString.splitOn ",") with
      | [x, y] => some (Adapter.translated ⟨parseInt x, parseInt y⟩)
      | _ => none
    else some (Adapter.converted id))

private def saPixel (s : String) : Pt × Color :=
  match s.splitOn "," with
  | [x, y, c] => (⟨parseInt x, parseInt y⟩, parseNat c)
  | _ => (Pt.zero, 0)

/-- one call of a `calls` job; `fc:<area>:<n>`: n colours, the k-th white iff `k % 3 = 0` -/
private def saCall (s : String) : Call :=
  if s.startsWith "di:" then Call.drawIter (((s.drop 3).toString.splitOn ";").map saPixel)
  else if s.startsWith "fc:" then
    match (s.drop 3).toString.splitOn ":" with
    | [a, n] => Call.fillContiguous (saRect4 a) ((List.range (parseNat n)).map (fun k => if k % 3 == 0 then 1 else 0))
    | _ => Call.clear 0
  else if s.startsWith "fs:" then
    match (s.drop 3).toString.splitOn ":" with
    | [a, c] => Call.fillSolid (saRect4 a) (parseNat c)
    | _ => Call.clear 0
  else Call.clear (parseNat (s.drop 3).toString)

private def bigLimit : Nat := 100000

/-- number of colours a `fc:` call carries (before the list is built) -/
private def saCallSize (s : String) : Nat :=
  if s.startsWith "fc:" then
    match (s.drop 3).toString.splitOn ":" with
    | [_, n] => parseNat n
    | _ => 0
  else 0

/-- points the default root iterates for a root call -/
private def saDefaultSize (B : Rect) : Call → Nat
  | .drawIter px => px.length
  | .fillContiguous a _ => a.size.w * a.size.h
  | .fillSolid a _ => a.size.w * a.size.h
  | .clear _ => B.size.w * B.size.h

private def b01n (c : Color) : Nat := if c == 0 then 0 else 1

/-- `di:<pixels>:<digest>`: steps `y + 2^31`, `x + 2^31`, `b + 1` per pixel, in order -/
private def saDi (px : Writes) : String :=
  let h := px.foldl (fun h w =>
    digestStep (digestStep (digestStep h (coordU64 w.1.y)) (coordU64 w.1.x)) (UInt64.ofNat (b01n w.2 + 1))) 0
  s!"di:{px.length}:{h}"

private def saNative : Call → String
  | .drawIter px => saDi px
  | .fillContiguous a cs =>
    let h := cs.foldl (fun h c => digestStep h (UInt64.ofNat (b01n c + 1))) 0
    s!"fc:{fmtRect a}:{cs.length}:{h}"
  | .fillSolid a c => s!"fs:{fmtRect a}:{b01n c}"
  | .clear c => s!"cl:{b01n c}"

def handleScaleAdapter (t : Toks) : Option String :=
  let (B, t) := t.rect
  let (st, t) := t.str
  let (kind, t) := t.str
  if kind != "calls" then none else
  let (cl, _) := t.str
  let parts := cl.splitOn "|"
  if parts.length > 8 || parts.any (fun s => saCallSize s > bigLimit) then none else
  let stack := saStack st
  let calls := parts.map saCall
  let rootCalls := calls.map (lowerStack B stack)
  if rootCalls.any (fun c => saDefaultSize B c > bigLimit) then none else
  let boxes := stackBoxes B stack
  let d := rootCalls.map (fun c => saDi (c.lowerDefault B))
  let n := rootCalls.map saNative
  some s!"bb={joinOr "/" (boxes.map fmtRect)} d={joinOr "|" d} n={joinOr "|" n} alloc=0"

end EG.Driver
