/-
  EG.Driver.Scale — model side of the `scale.*` correspondence streams (harness/src/m_scale.rs).
-/
import EG.Driver.Util
namespace EG.Driver
open EG

def handleScale (_stream : String) (_t : Toks) : Option String := none

end EG.Driver
