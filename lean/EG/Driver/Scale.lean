/-
  EG.Driver.Scale — model side of the `scale.chk.*` correspondence streams
  (harness/src/m_scale_chk.rs): every op runs ONE checked kernel of `EG.Model.Checked*` at the
  given integers and prints its canonical result, or `panic` where the checked kernel returns
  `none` (= a build with overflow checks and debug assertions panics there). `scale.adapter` ops
  with a `calls` job are served by Driver/ScaleAdapter.lean (adapter model at display scale).
  From the PLAIN models (see the section before `handleScale`): `scale.shape` for every shape kind
  (Driver/ShapeView.lean) whose styled bounding box and primitive box are at most `scaleShapeMaxArea`
  px, `scale.image`, `scale.text` for built-in fonts with both or neither of text / background colour,
  `scale.reject sub`. No model (`skip`): `scale.dotted`, the other `scale.reject` kinds, `scale.adapter`
  with other jobs, and the `scale.shape` / `scale.text` ops outside the slices just named.
-/
import EG.Driver.ShapeView
import EG.Model.ImageRaw
import EG.Model.TextLayout
import EG.Model.Checked
import EG.Model.CheckedShapes
import EG.Model.CheckedLine
import EG.Model.CheckedData
import EG.Driver.ScaleAdapter
import EG.Driver.ScaleChk2
namespace EG.Driver
open EG

private def orPanic {α : Type} (f : α → String) : Option α → String
  | some a => f a
  | none => "panic"

private def fmtBool (b : Bool) : String := if b then "1" else "0"

private def anchorXOf (n : Nat) : AnchorX := if n == 0 then .left else if n == 1 then .center else .right
private def anchorYOf (n : Nat) : AnchorY := if n == 0 then .top else if n == 1 then .center else .bottom

/-- `Line::points().take(n)`: `Points::new` (major length, parameters), then at most `n` calls. -/
private def linePointsTake (l : Line) (n : Nat) : Option (List Pt) := do
  let len ← Chk.majorLength l
  let params ← Chk.bresenhamParametersNew l
  Chk.linePointsFuel n ⟨params, Bresenham.new l.start, len⟩

/-- `line.into_styled(stroke w).pixels().take(n)`: the checked scalars of `ParallelsIterator::new`
decide about the panic, the points come from the plain thick-line model. -/
private def thickTake (l : Line) (w n : Nat) : String :=
  match Chk.thickScalars l (satAsI32 w) with
  | none => "panic"
  | some _ =>
    match Thick.ThickPointsIt.new l (satAsI32 w) with
    | none => "stuck"
    | some it =>
      if w = 0 then "-"
      else match it.toListFuel n with
        | none => "stuck"
        | some ps => fmtPts ps

/-- The arithmetic kernels on the path of `LineJoin::from_points(p0, p1, p2, w, StrokeOffset::None)`
in their order of evaluation; `none` = one of them overflows. The extents come from the plain
thick-line model (`some ()` when that model gives up). -/
private def joinKernel (p0 p1 p2 : Pt) (w : Nat) : Option Unit := do
  -- `Line::extents` of both segments starts with `ParallelsIterator::new`
  let _ ← Chk.thickScalars ⟨p0, p1⟩ (satAsI32 w)
  let _ ← Chk.thickScalars ⟨p1, p2⟩ (satAsI32 w)
  match Thick.extents ⟨p0, p1⟩ w, Thick.extents ⟨p1, p2⟩ w with
  | some (fl, fr), some (sl, sr) => do
    let r1 ← Chk.Isect.fromLines sl fl
    let i1 ← Chk.Isect.intersection r1.1 r1.2.1 r1.2.2
    match i1 with
    | none => pure ()
    | some (lpt, outerLeft) =>
      let nc1 ← Chk.Isect.nearlyColinearHasError sl fl r1.2.2
      let lInter := if !nc1 then lpt else fl.stop
      let r2 ← Chk.Isect.fromLines sr fr
      let i2 ← Chk.Isect.intersection r2.1 r2.2.1 r2.2.2
      match i2 with
      | none => pure ()
      | some (rpt, _) =>
        let nc2 ← Chk.Isect.nearlyColinearHasError sr fr r2.2.2
        let rInter := if !nc2 then rpt else fr.stop
        let selfIntersection ←
          if outerLeft then do
            let le ← Chk.Isect.fromLine fr
            let d ← Chk.Isect.distance le sr.stop
            pure (decide (d ≤ 0))
          else do
            let le ← Chk.Isect.fromLine fl
            let d ← Chk.Isect.distance le sl.stop
            pure (decide (d ≥ 0))
        if !selfIntersection then do
          let miterDelta ← Chk.ptSub (if outerLeft then lInter else rInter) p1
          let _ ← Chk.Isect.miterWithinLimit miterDelta w
          pure ()
        else pure ()
  | _, _ => pure ()

private def rawBuf (len : Nat) : List Nat := (List.range len).map (fun i => (i * 29 + 5) % 256)

private def rawLoad (bits : Nat) (o : Raw.Order) (buf : List Nat) (idx : Nat) : Option Nat :=
  if bits < 8 then Raw.loadBits bits o buf idx
  else if bits = 8 then Raw.loadU8 buf idx
  else Chk.loadBytes (bits / 8) o buf idx

private def rawStore (bits : Nat) (o : Raw.Order) (v : Nat) (buf : List Nat) (idx : Nat) : Raw.StoreRes :=
  if bits < 8 then Raw.storeBits bits o v buf idx
  else if bits = 8 then Raw.storeU8 v buf idx
  else Chk.storeBytes (bits / 8) o v buf idx

private def orderOf (n : Nat) : Raw.Order := if n == 0 then .le else .be

private def handleChk (kernel : String) (t : Toks) : Option String :=
  match kernel with
  | "pt.addsize" =>
    let (p, t) := t.pt; let (s, _) := t.sz
    some (orPanic fmtPt (Chk.ptAddSize p s))
  | "pt.subsize" =>
    let (p, t) := t.pt; let (s, _) := t.sz
    some (orPanic fmtPt (Chk.ptSubSize p s))
  | "rect.br" =>
    let (r, _) := t.rect
    some (orPanic fmtOptPt (Chk.bottomRight r))
  | "rect.contains" =>
    let (r, t) := t.rect; let (p, _) := t.pt
    some (orPanic fmtBool (Chk.contains r p))
  | "rect.isect" =>
    let (a, t) := t.rect; let (b, _) := t.rect
    some (orPanic fmtRect (Chk.intersection a b))
  | "rect.envelope" =>
    let (a, t) := t.rect; let (b, _) := t.rect
    some (orPanic fmtRect (Chk.envelope a b))
  | "rect.center" =>
    let (r, _) := t.rect
    some (orPanic fmtPt (Chk.center r))
  | "rect.withcenter" =>
    let (c, t) := t.pt; let (s, _) := t.sz
    some (orPanic fmtRect (Chk.withCenter c s))
  | "rect.offset" =>
    let (r, t) := t.rect; let (o, _) := t.int
    some (orPanic fmtRect (Chk.offset r o))
  | "rect.resized" =>
    let (r, t) := t.rect; let (s, t) := t.sz; let (ax, t) := t.nat; let (ay, _) := t.nat
    some (orPanic fmtRect (Chk.resized r s ⟨anchorXOf ax, anchorYOf ay⟩))
  | "rect.anchor" =>
    let (r, t) := t.rect; let (ax, t) := t.nat; let (ay, _) := t.nat
    some (orPanic fmtPt (Chk.anchorPoint r ⟨anchorXOf ax, anchorYOf ay⟩))
  | "rect.translate" =>
    let (r, t) := t.rect; let (d, _) := t.pt
    some (orPanic fmtRect (Chk.translate r d))
  | "circle.contains" =>
    let (tl, t) := t.pt; let (d, t) := t.nat; let (p, _) := t.pt
    some (orPanic fmtBool (Chk.Circle.contains ⟨tl, d⟩ p))
  | "circle.offset" =>
    let (tl, t) := t.pt; let (d, t) := t.nat; let (o, _) := t.int
    some (orPanic (fun (c : Circle) => s!"{c.tl.x},{c.tl.y},{c.d}") (Chk.Circle.offset ⟨tl, d⟩ o))
  | "ellipse.contains" =>
    let (tl, t) := t.pt; let (s, t) := t.sz; let (p, _) := t.pt
    some (orPanic fmtBool (Chk.Ellipse.contains ⟨tl, s⟩ p))
  | "ellipse.offset" =>
    let (tl, t) := t.pt; let (s, t) := t.sz; let (o, _) := t.int
    some (orPanic (fun (e : Ellipse) => fmtRect ⟨e.tl, e.size⟩) (Chk.Ellipse.offset ⟨tl, s⟩ o))
  | "line.points" =>
    let (a, t) := t.pt; let (b, t) := t.pt; let (n, _) := t.nat
    some (orPanic fmtPts (linePointsTake ⟨a, b⟩ n))
  | "thick" =>
    let (a, t) := t.pt; let (b, t) := t.pt; let (w, t) := t.nat; let (n, _) := t.nat
    some (thickTake ⟨a, b⟩ w n)
  | "join" =>
    let (p0, t) := t.pt; let (p1, t) := t.pt; let (p2, t) := t.pt; let (w, _) := t.nat
    match joinKernel p0 p1 p2 w with
    | none => some "panic"
    | some _ => none      -- no overflow in the modelled kernels; the rest of the drawing is not modelled
  | "img.new" =>
    let (bits, t) := t.nat; let (s, t) := t.sz; let (len, _) := t.nat
    some (orPanic (fun (r : Except Nat Img.ImageRaw) => match r with
        | .ok _ => "ok"
        | .error e => s!"err:{e}")
      (Chk.imageNew bits .le (List.replicate len 0) s))
  | "raw.load" =>
    let (bits, t) := t.nat; let (o, t) := t.nat; let (len, t) := t.nat; let (idx, _) := t.nat
    some (match rawLoad bits (orderOf o) (rawBuf len) idx with
      | none => "none"
      | some v => toString v)
  | "raw.store" =>
    let (bits, t) := t.nat; let (o, t) := t.nat; let (len, t) := t.nat; let (idx, _) := t.nat
    let r := rawStore bits (orderOf o) (Raw.rawNew bits 0x5A5A5A5A) (rawBuf len) idx
    some (if r.1 then s!"ok:{fmtNats r.2}" else "err")
  | "sub" =>
    let (ps, t) := t.sz; let (area, _) := t.rect
    some (orPanic (fun (p : Rect × Rect) => s!"{p.1.size.w},{p.1.size.h} {p.2.size.w},{p.2.size.h}")
      (do
        let a1 ← Chk.subImageArea ps area
        let a2 ← Chk.subImageArea a1.size area
        pure (a1, a2)))
  | "text" =>
    let (_fi, t) := t.nat
    let (cw, t) := t.nat; let (ch, t) := t.nat; let (sp, t) := t.nat; let (bl, t) := t.nat
    let (lhk, t) := t.nat; let (lhv, t) := t.nat
    let (baseline, t) := t.nat; let (align, t) := t.nat
    let (pos, t) := t.pt; let (nlines, t) := t.nat; let (nchars, _) := t.nat
    let lh : TextM.LineHeight :=
      if lhk == 0 then .percent 100 else if lhk == 1 then .pixels lhv else .percent lhv
    let b : TextM.Baseline :=
      if baseline == 0 then .top else if baseline == 1 then .bottom
      else if baseline == 2 then .middle else .alphabetic
    let al : TextM.Alignment :=
      if align == 0 then .left else if align == 1 then .center else .right
    some (orPanic fmtRect (Chk.TextM.boundingBox ⟨cw, ch, sp, bl⟩ lh b al pos nlines nchars))
  | other => handleChk2 other t     -- triangles, rounded rectangles, sectors, scanlines, glyphs (Driver/ScaleChk2.lean)

/-! ### `scale.shape` / `scale.image`: the result line of the harness from the plain models

The harness counts what its non-allocating `Null` targets are OFFERED (no clipping): on the draw_iter-only
target (`d1`) a `fill_solid` arrives as `area.points().zip(repeat(colour))`, a `fill_contiguous` as
`area.points().zip(colours)`; the native target (`d2`) counts `w * h` for `fill_solid` and every colour the
iterator yields for `fill_contiguous`. `alloc=0` is the model's statement that nothing allocates. -/

private def offered (native : Bool) : Call → Option Nat
  | .drawIter px => some px.length
  | .fillSolid a _ => some (a.size.w * a.size.h)
  | .fillContiguous a cs => some (if native then cs.length else min (a.size.w * a.size.h) cs.length)
  | .clear _ => none      -- no shape, text or image issues `clear`

private def offeredSum (native : Bool) (calls : List Call) : Option Nat :=
  calls.foldl (fun acc c => do let a ← acc; let k ← offered native c; pure (a + k)) (some 0)

/-- Largest box area (styled bounding box and primitive's bounding box, in px) for which `scale.shape` is
served by the model; ops above it are printed `skip` (the plain models build pixel LISTS: a 1024 x 1024
disc costs seconds). The slice is deterministic in the op text. -/
private def scaleShapeMaxArea : Nat := 100000

private def scaleShape (t : Toks) : Option String :=
  match parseShapeView t with
  | none => none
  | some (view, _) =>
    let v := view ⟨0, 0⟩
    match v.bbox () with
    | none => some "stuck"
    | some bb =>
      if bb.size.w * bb.size.h > scaleShapeMaxArea ∨ v.pbox.size.w * v.pbox.size.h > scaleShapeMaxArea then none
      else
        let r : Option String := do
          let calls ← v.calls ()
          let px ← v.pixels ()
          let n1 ← offeredSum false calls
          let n2 ← offeredSum true calls
          let n := n1 + n2 + px.length + v.npoints ()
          let pb := v.pbox
          let probes : List Pt := [pb.tl, pb.center, bb.tl, bb.center,
            ⟨pb.tl.x + (pb.size.w : Int), pb.tl.y + (pb.size.h : Int)⟩, ⟨0, 0⟩]
          let inside := match v.contains with
            | some f => (probes.filter f).length
            | none => 0
          pure s!"ok n={n} in={inside} alloc=0"
        match r with
        | some s => some s
        | none => some "stuck"

/-- `scale.image <bits> <order> w h x y <sub rect> <sub2 rect>`: the image, its sub-image and the nested
sub-image (`with_center`) drawn on both targets; `some` = number of the 8 probe points with a pixel. Bits
other than 1/2/4/8/16 use `Rgb888` (24 bpp) on a buffer sized for the `bits` of the op, as the harness does
(`ImageRaw::new` then rejects a non-empty 32-bpp buffer: `n=0 some=0`). -/
private def scaleImage (t : Toks) : Option String :=
  let (bits, t) := t.nat
  let (o, t) := t.nat
  let (sz, t) := t.sz
  let (pos, t) := t.pt
  let (sub, t) := t.rect
  let (sub2, _) := t.rect
  let bpr := (sz.w * bits + 7) / 8
  let data := (List.range (bpr * sz.h)).map (fun i => (i * 37 + 11) % 256)
  let mbits := if bits == 1 || bits == 2 || bits == 4 || bits == 8 || bits == 16 then bits else 24
  match Img.ImageRaw.new mbits (orderOf o) data sz with
  | .error _ => some "ok n=0 some=0 alloc=0"
  | .ok im =>
    let raw : Img.Drawable := .raw im
    let s1 := raw.subImage sub
    let s2 := s1.subImage sub2
    let calls := (Img.Image.new raw pos).draw ++ (Img.Image.new s1 pos).draw ++ (Img.Image.withCenter s2 pos).draw
    let probes : List Pt := [⟨-1, 0⟩, ⟨0, -1⟩, ⟨0, 0⟩, ⟨(sz.w : Int), 0⟩, ⟨0, (sz.h : Int)⟩,
      ⟨2147483647, 2147483647⟩, ⟨-2147483648, 3⟩, sub.tl]
    let some_ := (probes.filter (fun q => (im.pixel q).isSome)).length
    match offeredSum false calls, offeredSum true calls with
    | some n1, some n2 => some s!"ok n={n1 + n2} some={some_} alloc=0"
    | _, _ => none

/-- `scale.reject sub x y w h`: `sub_image(area)` of a 5 x 3 one-bit image (bytes `0x5A`), its box, and what the
native `Null` target is offered by drawing it and its nested `sub_image(area)`. The other `scale.reject` kinds
print only what the harness itself computed from the op (`inside=`), or need the recording target
(`drawsub`): no model side. -/
private def scaleRejectSub (t : Toks) : Option String :=
  let (x, t) := t.int
  let (y, t) := t.int
  let (w, t) := t.nat
  let (h, _) := t.nat
  match Img.ImageRaw.new 1 .be [90, 90, 90] ⟨5, 3⟩ with
  | .error _ => none
  | .ok im =>
    let area : Rect := ⟨⟨x, y⟩, ⟨w, h⟩⟩
    let s1 := (Img.Drawable.raw im).subImage area
    let s2 := s1.subImage area
    let calls := (Img.Image.new s1 ⟨1, 1⟩).draw ++ (Img.Image.new s2 ⟨1, 1⟩).draw
    match offeredSum true calls with
    | some n => some s!"ok bb={fmtRect s1.boundingBox} n={n}"
    | none => none

/-- `scale.text <font 0..3|null> <baseline> <align> <lh kind> <lh value> <colour mask> x y <codepoints>`. Served when
the result does not depend on glyph bitmaps (which are not part of the op): text AND background colour set
(every glyph is one `fill_contiguous` of the whole cell) or neither set (decorations only). With exactly one of
the two the number of pixels offered is the number of on / off bits of the glyphs: `skip`. The null font of a
builder without `font()` is not in the generated font table: `skip`. -/
private def scaleText (t : Toks) : Option String :=
  let (font, t) := t.str
  let (bl, t) := t.nat
  let (al, t) := t.nat
  let (lhk, t) := t.nat
  let (lhv, t) := t.nat
  let (mask, t) := t.nat
  let (pos, t) := t.pt
  let (cps, _) := t.natList
  let both := mask % 4 == 3
  let neither := mask % 4 == 0
  if font == "null" || !(both || neither) then none else
  let (mod_, name) := match font with
    | "0" => ("ascii", "FONT_4X6")
    | "1" => ("ascii", "FONT_6X10")
    | "2" => ("ascii", "FONT_10X20")
    | _ => ("iso_8859_1", "FONT_9X18_BOLD")
  match Generated.fontTable.find? (fun r => r.module == mod_ && r.name == name) with
  | none => none
  | some r =>
    let f := Font.fontOfRec r
    let rgb := fun (r g b : Nat) => r * 2048 + g * 32 + b
    let st : Font.Style :=
      ⟨if mask % 2 == 1 then some (rgb 1 2 3) else none,
       if mask / 2 % 2 == 1 then some (rgb 3 2 1) else none,
       if mask / 4 % 2 == 1 then .textColor else .none,
       if mask / 8 % 2 == 1 then .custom (rgb 9 9 9) else .none⟩
    let lh : TextLayout.LineHeight :=
      if lhk == 0 then .percent 100 else if lhk == 1 then .pixels lhv else .percent lhv
    let b : Font.Baseline := match bl with | 0 => .top | 1 => .bottom | 2 => .middle | _ => .alphabetic
    let a : TextLayout.Alignment := match al with | 0 => .left | 1 => .center | _ => .right
    let tx : TextLayout.Text := ⟨cps, pos, st, ⟨a, b, lh⟩⟩
    let (calls, next) := TextLayout.draw f (fun _ => false) tx
    match offeredSum false calls, offeredSum true calls with
    | some n1, some n2 =>
      some s!"ok n={n1 + n2} next={next.x},{next.y} bb={fmtRect (TextLayout.boundingBox f tx)} alloc=0"
    | _, _ => none

def handleScale (stream : String) (t : Toks) : Option String :=
  if stream.startsWith "scale.chk." then handleChk (stream.drop 10).toString t
  else if stream == "scale.adapter" then handleScaleAdapter t   -- `calls` jobs only (Driver/ScaleAdapter.lean)
  else if stream == "scale.shape" then scaleShape t
  else if stream == "scale.image" then scaleImage t
  else if stream == "scale.text" then scaleText t
  else if stream == "scale.reject" then
    match t with
    | "sub" :: t => scaleRejectSub t
    | _ => none
  else none

end EG.Driver
