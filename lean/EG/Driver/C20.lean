/-
  EG.Driver.C20 — model side of the C20 correspondence streams (harness/src/c20.rs).
-/
import EG.Driver.Util
namespace EG.Driver
open EG

def c20 (_stream : String) (_t : Toks) : Option String := none

end EG.Driver
