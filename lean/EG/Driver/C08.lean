/-
  EG.Driver.C08 — model side of the C08 correspondence streams (harness/src/c08.rs).
-/
import EG.Driver.Util
namespace EG.Driver
open EG

def c08 (_stream : String) (_t : Toks) : Option String := none

end EG.Driver
