/-
  EG.Driver.Mock — model side of the `mock.*` correspondence streams (harness/src/m_mock.rs).

  mock.hist <ty> <ao> <ab> <k> <op>*k <ao2> <ab2> <k2> <op>*k2
      -> n= st= c= aa= n2= st2= c2h= eq= diff= dh= rt=
  mock.pattern <ty> <k> <|row>*k   -> ok c= aa= e= dbg= rt= sw= mp=   |  err=<width|height|row|char>
  mock.get <x> <y>                 -> some:<c> | none | panic
  mock.c2ch <ty> <c,c,..>          -> char codes
  mock.ch2c <ty> <code,code,..>    -> colours, `p` where `char_to_color` panics
  mock.types                       -> the source's `ColorMapping` types (EG.Generated.MockTypes) by stream name, `?` if unknown
-/
import EG.Driver.Util
import EG.Model.MockDisplay
import EG.Model.MockTypes
import EG.Generated.MockTypes
namespace EG.Driver
open EG EG.Mock

def mockCT : String → Option CT
  | "binary" => some .binary | "gray2" => some .gray2 | "gray4" => some .gray4 | "gray8" => some .gray8
  | "rgb332" => some .rgb332 | "rgb444" => some .rgb444 | "rgb555" => some .rgb555
  | "bgr555" => some .bgr555 | "rgb565" => some .rgb565 | "bgr565" => some .bgr565
  | "rgb888" => some .rgb888 | "bgr888" => some .bgr888
  | _ => none

private def mockTyName : CT → String
  | .binary => "binary" | .gray2 => "gray2" | .gray4 => "gray4" | .gray8 => "gray8"
  | .rgb332 => "rgb332" | .rgb444 => "rgb444" | .rgb555 => "rgb555"
  | .bgr555 => "bgr555" | .rgb565 => "rgb565" | .bgr565 => "bgr565"
  | .rgb888 => "rgb888" | .bgr888 => "bgr888"

def mockFnv (s : String) : Nat :=
  (s.toUTF8.foldl (fun (h : UInt64) b => (h ^^^ b.toUInt64) * 0x100000001b3) 0xcbf29ce484222325).toNat

def mockWrites (s : String) : Writes :=
  if s == "-" then [] else
  (s.splitOn ";").map (fun e =>
    match e.splitOn "," with
    | [x, y, c] => (⟨parseInt x, parseInt y⟩, parseNat c)
    | _ => (⟨0, 0⟩, 0))

def mockOp (tok : String) : Option Op :=
  match tok.splitOn ":" with
  | ["p", a] =>
    match a.splitOn "," with
    | [x, y, c] => some (.drawPixel ⟨parseInt x, parseInt y⟩ (parseNat c))
    | _ => none
  | ["i", a] => some (.call (.drawIter (mockWrites a)))
  | ["f", a] =>
    match a.splitOn "," with
    | [x, y, w, h, c] => some (.call (.fillSolid ⟨⟨parseInt x, parseInt y⟩, ⟨parseNat w, parseNat h⟩⟩ (parseNat c)))
    | _ => none
  | ["g", a, cs] =>
    match a.splitOn "," with
    | [x, y, w, h] => some (.call (.fillContiguous ⟨⟨parseInt x, parseInt y⟩, ⟨parseNat w, parseNat h⟩⟩ (parseNatList cs)))
    | _ => none
  | ["s", a] =>
    match a.splitOn "," with
    | [x, y, c] => some (.setPixel ⟨parseInt x, parseInt y⟩ (if c == "n" then none else some (parseNat c)))
    | _ => none
  | ["c", c] => some (.call (.clear (parseNat c)))
  | ["o", v] => some (.setOverdraw (v == "1"))
  | ["b", v] => some (.setOob (v == "1"))
  | _ => none

/-- run a history, counting the operations that completed -/
def mockRun (d : MD) : List Op → Nat → MD × Nat × Bool
  | [], n => (d, n, true)
  | o :: rest, n =>
    match d.step o with
    | .ok d' => mockRun d' rest (n + 1)
    | .panic d' => (d', n, false)

/-- `get_pixel` over the 64 x 64 cells, row-major; `none` if any of them panics -/
def mockDump (d : MD) : Option (List (Pt × Nat)) :=
  (List.range 4096).foldr (fun i acc =>
    let p : Pt := ⟨((i % 64 : Nat) : Int), ((i / 64 : Nat) : Int)⟩
    match acc, d.getPixel p with
    | some l, some (some c) => some ((p, c) :: l)
    | some l, some none => some l
    | _, _ => none) (some [])

def mockFmtDump (d : MD) : String :=
  match mockDump d with
  | some l => fmtPix l
  | none => "panic"

def mockHistory (t : Toks) : Option (MD × Nat × Bool × Toks) :=
  let (ao, t) := t.nat
  let (ab, t) := t.nat
  let (k, t) := t.nat
  let opsToks := t.take k
  let rest := t.drop k
  match opsToks.mapM mockOp with
  | none => none
  | some ops =>
    let d0 : MD := (MD.new.setAllowOverdraw (ao == 1)).setAllowOob (ab == 1)
    let (d, n, ok) := mockRun d0 ops 0
    some (d, n, ok, rest)

def mockRoundTrip (ct : CT) (d : MD) : String :=
  match fromPattern ct (d.debugRows ct) with
  | .ok d' => if d'.eq d && d.eq d' then "1" else "0"
  | .panicWidth => "pw"
  | .panicHeight => "ph"
  | .panicRow => "pr"
  | .panicChar => "pc"

def mockOptDump : Option MD → String
  | some d => mockFmtDump d
  | none => "panic"

def handleMock (stream : String) (t : Toks) : Option String :=
  match stream with
  | "mock.hist" =>
    let (ty, t) := t.str
    match mockCT ty with
    | none => none
    | some ct =>
      match mockHistory t with
      | none => none
      | some (d, n, ok, t) =>
        match mockHistory t with
        | none => none
        | some (d2, n2, ok2, _) =>
          let st (b : Bool) := if b then "ok" else "panic"
          some s!"n={n} st={st ok} c={mockFmtDump d} aa={fmtRect d.affectedArea} n2={n2} st2={st ok2} c2h={mockFnv (mockFmtDump d2)} eq={if d.eq d2 then 1 else 0} diff={mockOptDump (d.diff d2)} dh={mockFnv (d.debugText ct)} rt={mockRoundTrip ct d}"
  | "mock.pattern" =>
    let (ty, t) := t.str
    match mockCT ty with
    | none => none
    | some ct =>
      let (k, t) := t.nat
      let rows := (t.take k).map (fun s => (s.toList.drop 1).map (fun c => if c == '_' then ' ' else c))
      match fromPattern ct rows with
      | .panicWidth => some "err=width"
      | .panicHeight => some "err=height"
      | .panicRow => some "err=row"
      | .panicChar => some "err=char"
      | .ok d =>
        let dbg := joinOr "/" ((d.debugRows ct).map (fun r => String.ofList (r.map (fun c => if c == ' ' then '_' else c))))
        let bits := ct.bits
        some s!"ok c={mockFmtDump d} aa={fmtRect d.affectedArea} e={d.emptyRows} dbg={dbg} rt={mockRoundTrip ct d} sw={mockFnv (mockOptDump d.swapXy)} mp={mockFnv (mockOptDump (d.map (fun c => (c + 1) % 2 ^ bits)))}"
  | "mock.get" =>
    let (p, _) := t.pt
    let d : MD := ⟨Vector.ofFn (fun i : Fin 4096 => if i.val % 3 = 0 then none else some (i.val + 1)), false, false⟩
    match d.getPixel p with
    | none => some "panic"
    | some none => some "none"
    | some (some c) => some s!"some:{c}"
  | "mock.types" =>
    some (joinOr "," (Generated.MockTypes.mappingTypes.map (fun e =>
      match ctOfRustName e.1 with
      | some ct => mockTyName ct
      | none => "?")))
  | "mock.c2ch" =>
    let (ty, t) := t.str
    match mockCT ty with
    | none => none
    | some ct =>
      let (cs, _) := t.natList
      some (fmtNats (cs.map (fun c => (colorToChar ct c).toNat)))
  | "mock.ch2c" =>
    let (ty, t) := t.str
    match mockCT ty with
    | none => none
    | some ct =>
      let (cs, _) := t.natList
      some (joinOr "," (cs.map (fun n =>
        match charToColor ct (Char.ofNat n) with
        | some c => toString c
        | none => "p")))
  | _ => none

end EG.Driver
