/-
  EG.Driver.Mock — model side of the `mock.*` correspondence streams (harness/src/m_mock.rs).
-/
import EG.Driver.Util
namespace EG.Driver
open EG

def handleMock (_stream : String) (_t : Toks) : Option String := none

end EG.Driver
