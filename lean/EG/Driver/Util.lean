/-
  EG.Driver.Util — line-protocol helpers shared by all driver handlers (parsing, canonical text).
  The formats mirror harness/src/common.rs exactly.
-/
import EG.Model.Rect
namespace EG.Driver
open EG

def parseInt (s : String) : Int :=
  match s.toInt? with
  | some i => i
  | none => 0

def parseNat (s : String) : Nat :=
  match s.toNat? with
  | some i => i
  | none => 0

/-- Token cursor. -/
abbrev Toks := List String

def toks (line : String) : Toks := line.trimAscii.toString.splitOn " "

def Toks.int : Toks → Int × Toks
  | [] => (0, [])
  | t :: ts => (parseInt t, ts)

def Toks.nat : Toks → Nat × Toks
  | [] => (0, [])
  | t :: ts => (parseNat t, ts)

def Toks.str : Toks → String × Toks
  | [] => ("", [])
  | t :: ts => (t, ts)

def Toks.pt (t : Toks) : Pt × Toks :=
  let (x, t) := t.int
  let (y, t) := t.int
  (⟨x, y⟩, t)

def Toks.sz (t : Toks) : Sz × Toks :=
  let (w, t) := t.nat
  let (h, t) := t.nat
  (⟨w, h⟩, t)

def Toks.rect (t : Toks) : Rect × Toks :=
  let (p, t) := t.pt
  let (s, t) := t.sz
  (⟨p, s⟩, t)

def parseNatList (s : String) : List Nat :=
  if s == "-" then [] else (s.splitOn ",").map parseNat

def parseIntList (s : String) : List Int :=
  if s == "-" then [] else (s.splitOn ",").map parseInt

def Toks.natList (t : Toks) : List Nat × Toks :=
  let (s, t) := t.str
  (parseNatList s, t)

def Toks.intList (t : Toks) : List Int × Toks :=
  let (s, t) := t.str
  (parseIntList s, t)

def fmtRect (r : Rect) : String := s!"{r.tl.x},{r.tl.y},{r.size.w},{r.size.h}"
def fmtPt (p : Pt) : String := s!"{p.x},{p.y}"
def fmtOptPt : Option Pt → String
  | some p => fmtPt p
  | none => "none"
def joinOr (sep : String) (xs : List String) : String :=
  if xs.isEmpty then "-" else sep.intercalate xs
def fmtPts (ps : List Pt) : String := joinOr ";" (ps.map fmtPt)
def fmtNats (xs : List Nat) : String := joinOr "," (xs.map toString)
def fmtInts (xs : List Int) : String := joinOr "," (xs.map toString)
def fmtBits (bs : List Bool) : String := String.ofList (bs.map (fun b => if b then '1' else '0'))
/-- pixel map entries `x,y,c;...` -/
def fmtPix (ps : List (Pt × Nat)) : String :=
  joinOr ";" (ps.map (fun (p, c) => s!"{p.x},{p.y},{c}"))

/-- Row-major order on points, as a Boolean (for sorting). -/
def ptLe (a b : Pt) : Bool := a.y < b.y || (a.y == b.y && a.x ≤ b.x)

/-- keep the last element of every run of equal keys -/
def lastOfRuns : List (Pt × Nat) → List (Pt × Nat)
  | [] => []
  | [a] => [a]
  | a :: b :: rest => if a.1 == b.1 then lastOfRuns (b :: rest) else a :: lastOfRuns (b :: rest)

/-- Canonical pixel map of a write sequence: last write wins, sorted row-major
(same text as `fmt_map` of the harness's `PMap`). -/
def canonPix (writes : List (Pt × Nat)) : List (Pt × Nat) :=
  lastOfRuns (writes.mergeSort (fun a b => ptLe a.1 b.1))

/-! Digests for results too long to print (same text as `digest_step` / `map_digest` /
`str_digest` / `small_map` / `small_text` of harness/src/common.rs): `h = 0`, and for every value
`v` of a sequence, in order, `h = h * 1000003 + v` in wrapping 64-bit arithmetic. -/
def digestStep (h v : UInt64) : UInt64 := h * 1000003 + v

/-- `(i as i64 + 2^31) as u64` for an `i32` coordinate. -/
def coordU64 (i : Int) : UInt64 := UInt64.ofNat (i + 2147483648).toNat

/-- Position- and colour-sensitive digest of a canonical (row-major) pixel map: three steps per
entry, `y + 2^31`, `x + 2^31`, `colour + 1`. -/
def pixDigest (m : List (Pt × Nat)) : UInt64 :=
  m.foldl (fun h w =>
    digestStep (digestStep (digestStep h (coordU64 w.1.y)) (coordU64 w.1.x)) (UInt64.ofNat (w.2 + 1))) 0

/-- Digest of a text, one step per byte (`byte + 1`). -/
def strDigest (s : String) : UInt64 :=
  s.toUTF8.foldl (fun h b => digestStep h (b.toUInt64 + 1)) 0

/-- `small_map`: a canonical pixel map in full up to 600 entries, beyond `big:<n>:<pixDigest>`. -/
def smallMap (m : List (Pt × Nat)) : String :=
  if m.length ≤ 600 then fmtPix m else s!"big:{m.length}:{pixDigest m}"

/-- `small_text`: a text in full up to `cap` bytes (ASCII only), beyond `big:<len>:<strDigest>`. -/
def smallText (s : String) (cap : Nat) : String :=
  if s.length ≤ cap then s else s!"big:{s.length}:{strDigest s}"

end EG.Driver
