/-
  EG.Driver.C19 — model side of the C19 correspondence streams (harness/src/c19.rs).
-/
import EG.Driver.Util
namespace EG.Driver
open EG

def c19 (_stream : String) (_t : Toks) : Option String := none

end EG.Driver
