/-
  EG.Driver.C04 — model side of the C04 correspondence streams (harness/src/c04.rs).
-/
import EG.Driver.Util
namespace EG.Driver
open EG

def c04 (_stream : String) (_t : Toks) : Option String := none

end EG.Driver
