/-
  EG.Driver.Circle — model side of the `circle.*` correspondence streams (harness/src/m_circle.rs).
-/
import EG.Driver.Util
import EG.Model.Circle
namespace EG.Driver
open EG

private def alignOf : Nat → StrokeAlignment | 0 => .inside | 1 => .center | _ => .outside

private def parseCol (s : String) : Option Color := if s == "-" then none else some (parseNat s)

private def fmtCircle (c : Circle) : String := s!"{c.tl.x},{c.tl.y},{c.d}"

private def fmtCall : Call → String
  | .drawIter px => "di:" ++ fmtPix px
  | .fillContiguous a cs => s!"fc:{fmtRect a}:{fmtNats cs}"
  | .fillSolid a c => s!"fs:{fmtRect a}:{c}"
  | .clear c => s!"cl:{c}"

private def fmtLog (cs : List Call) : String := joinOr "|" (cs.map fmtCall)

def handleCircle (stream : String) (t : Toks) : Option String :=
  match stream with
  | "circle.points" =>
    let (tl, t) := t.pt
    let (d, _) := t.nat
    let c : Circle := ⟨tl, d⟩
    let ys := irange (tl.y - 3) (tl.y + d + 3)
    let xs := irange (tl.x - 3) (tl.x + d + 3)
    let bits := ys.flatMap (fun y => xs.map (fun x => c.contains ⟨x, y⟩))
    some s!"bb={fmtRect c.boundingBox} c={fmtPt c.center} pts={fmtPts c.points} in={fmtBits bits}"
  | "circle.areas" =>
    let (tl, t) := t.pt
    let (d, t) := t.nat
    let (w, t) := t.nat
    let (a, _) := t.nat
    let c : Circle := ⟨tl, d⟩
    let st : PrimStyle := ⟨none, some 9, w, alignOf a⟩
    some s!"s={fmtCircle (c.strokeArea st)} f={fmtCircle (c.fillArea st)} sbb={fmtRect (c.styledBoundingBox st)}"
  | "circle.styled" =>
    let (tl, t) := t.pt
    let (d, t) := t.nat
    let (f, t) := t.str
    let (s, t) := t.str
    let (w, t) := t.nat
    let (a, t) := t.nat
    let (B, _) := t.rect
    let c : Circle := ⟨tl, d⟩
    let st : PrimStyle := ⟨parseCol f, parseCol s, w, alignOf a⟩
    let calls := c.drawStyled st
    let m1 := canonPix (calls.flatMap (Call.writesDefault B))
    let m2 := canonPix (calls.flatMap (Call.writesNative B))
    some s!"log={fmtLog calls} m1={fmtPix m1} m2={fmtPix m2} px={fmtPix (c.styledPixels st)}"
  | _ => none

end EG.Driver
