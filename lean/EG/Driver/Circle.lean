/-
  EG.Driver.Circle — model side of the `circle.*` correspondence streams (harness/src/m_circle.rs).
-/
import EG.Driver.Util
namespace EG.Driver
open EG

def handleCircle (_stream : String) (_t : Toks) : Option String := none

end EG.Driver
