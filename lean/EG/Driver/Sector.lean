/-
  EG.Driver.Sector — model side of the `sector.*` correspondence streams (harness/src/m_sector.rs).
-/
import EG.Driver.Util
namespace EG.Driver
open EG

def handleSector (_stream : String) (_t : Toks) : Option String := none

end EG.Driver
