/-
  EG.Driver.Sector — model side of the `sector.*` correspondence streams (harness/src/m_sector.rs).

    sector.points x y d start_mdeg sweep_mdeg tag lx ly rx ry
        -> ps=<tag,lx,ly,rx,ry> bb=<bounding box> pts=<Sector::points()> in=<Sector::contains() bitmap,
           row-major, over the bounding box grown by 2 px>
    sector.arc x y d start_mdeg sweep_mdeg tag lx ly rx ry
        -> ps=<tag,lx,ly,rx,ry> bb=<bounding box> pts=<Arc::points()>

    sector.sarc    x y d start_mdeg sweep_mdeg tag lx ly rx ry fill stroke width align tbx tby tbw tbh dx dy
    sector.ssector x y d start_mdeg sweep_mdeg tag lx ly rx ry bk bnx bny fill stroke width align tbx tby tbw tbh dx dy
        -> ps=<tag,lx,ly,rx,ry> [bv=<bk,bnx,bny,origin distance>] bb=<styled bounding box>
           log=<call log of draw(); `di:=px` when it is one draw_iter call with the sequence of px=>
           m=<map left on R1 with box tb; `=px` when its text equals px=> r2eq=<R2 map == R1 map>
           px=<pixels() sequence> bbd=<styled bounding box after translate(dx, dy)>
           sh=<picture of the translated shape == shifted picture>

  `tag lx ly rx ry` is what the real `PlaneSector::new(start, sweep)` computed (hook
  `verif_hooks::plane_sector`, written into the op line by the harness generator); `bk bnx bny` is
  the bevel kind and bevel-line normal the real `sector::StyledPixelsIterator::new` computed (hook
  `verif_bevel`); the angles themselves are not used by the model (the f32 trigonometry of the default
  build is not modelled).

  Streams of the `fixed_point` build only (the harness emits them only there; the trigonometry of that
  build is modelled: `EG.Model.FixedReal`, `FixedTrig`, `PlaneSectorNew`; angles are raw I16F16 bits):

    sector.consts
        -> c180=<Angle::from_degrees(180.0)> c55=<..(55.0)> c305=<..(360.0 - 55.0)> c360=<..(360.0)>
           nm=<modulus of Angle::normalize>        (the f32-derived constants of tools/tr_trig.py)
    sector.trig raw_start raw_sweep
        -> ps=<PlaneSector::new(start, sweep): tag,lx,ly,rx,ry | panic>
           bv=<bevel of the styled sector: kind,nx,ny | panic> nz=<start.normalize()> ab=<start.abs()>
           ng=<-start> ad=<start + sweep> sb=<start - sweep>          (each `panic` where the real code panics)
    sector.fxpoints x y d raw_start raw_sweep
        -> ps=<..> bb=<..> pts=<Sector::points()> in=<contains() bitmap> as for sector.points, the plane
           sector COMPUTED by the model from the raw angles | panic
-/
import EG.Driver.Util
import EG.Model.Sector
import EG.Model.StyledArc
import EG.Model.StyledSector
import EG.Model.PlaneSectorNew
namespace EG.Driver
open EG

private def opOfTag : Nat → PlaneOp
  | 0 => .intersection
  | 1 => .union
  | _ => .entirePlane

private def tagOfOp : PlaneOp → Nat
  | .intersection => 0
  | .union => 1
  | .entirePlane => 2

private def fmtPlaneSector (ps : PlaneSector) : String :=
  s!"{tagOfOp ps.op},{ps.left.x},{ps.left.y},{ps.right.x},{ps.right.y}"

/-- `x y d start sweep tag lx ly rx ry` -/
private def parseSectorArgs (t : Toks) : Pt × Nat × PlaneSector :=
  let (tl, t) := t.pt
  let (d, t) := t.nat
  let (_start, t) := t.int
  let (_sweep, t) := t.int
  let (tag, t) := t.nat
  let (l, t) := t.pt
  let (r, _) := t.pt
  (tl, d, ⟨opOfTag tag, l, r⟩)

private def parseOptColor (s : String) : Option Color := if s == "-" then none else some (parseNat s)

private def alignOf : Nat → StrokeAlignment | 0 => .inside | 1 => .center | _ => .outside

/-- style tokens: `fill stroke width align`. -/
private def parseStyle (t : Toks) : Style × Toks :=
  let (f, t) := t.str
  let (s, t) := t.str
  let (w, t) := t.nat
  let (a, t) := t.nat
  (⟨parseOptColor f, parseOptColor s, w, alignOf a⟩, t)

/-- `Rec::unbounded()` of the harness. -/
private def unboundedBox : Rect := ⟨⟨-1048576, -1048576⟩, ⟨2097152, 2097152⟩⟩

private def mapDefault (B : Rect) (calls : List Call) : List (Pt × Nat) :=
  canonPix (calls.flatMap (Call.writesDefault B))
private def mapNative (B : Rect) (calls : List Call) : List (Pt × Nat) :=
  canonPix (calls.flatMap (Call.writesNative B))

private def fmtCall : Call → String
  | .drawIter px => "di:" ++ fmtPix px
  | .fillContiguous a cs => s!"fc:{fmtRect a}:{fmtNats cs}"
  | .fillSolid a c => s!"fs:{fmtRect a}:{c}"
  | .clear c => s!"cl:{c}"

private def b01 (b : Bool) : String := if b then "1" else "0"

/-- What the styled streams observe of one styled shape. -/
private structure StyledObs where
  calls : List Call   -- `draw()` as target calls
  pixels : Writes     -- `pixels()`
  bbox : Rect         -- styled bounding box

/-- Result text after `ps=` / `bv=` (same layout as `styled_report` in m_sector.rs); `obs d` = the
observation of the shape translated by `d`. -/
private def styledReport (obs : Pt → StyledObs) (tb : Rect) (d : Pt) : String :=
  let o := obs ⟨0, 0⟩
  let pxText := fmtPix o.pixels
  let logText :=
    if o.calls == [Call.drawIter o.pixels] then "di:=px" else joinOr "|" (o.calls.map fmtCall)
  let m1 := mapDefault tb o.calls
  let m2 := mapNative tb o.calls
  let mText := let t := fmtPix m1; if t == pxText then "=px" else t
  let (bbd, sh) :=
    if d = ⟨0, 0⟩ then (o.bbox, true)
    else
      let od := obs d
      let mu := mapDefault unboundedBox o.calls
      let md := mapDefault unboundedBox od.calls
      (od.bbox, md == mu.map (fun w => (w.1 + d, w.2)))
  s!"bb={fmtRect o.bbox} log={logText} m={mText} r2eq={b01 (m1 == m2)} px={pxText} bbd={fmtRect bbd} sh={b01 sh}"

private def fmtOptInt : Option Int → String
  | none => "panic"
  | some v => toString v

private def fmtBevel : SectorBevel → String
  | none => "0,0,0"
  | some (.interior, n) => s!"1,{n.x},{n.y}"
  | some (.exterior, n) => s!"2,{n.x},{n.y}"

def handleSector (stream : String) (t : Toks) : Option String :=
  match stream with
  | "sector.consts" =>
    some s!"c180={Generated.withAngleSpecialBits} c55={Generated.bevelExteriorBits} c305={Generated.bevelInteriorLoBits} c360={Generated.bevelInteriorHiBits} nm={Generated.normalizeModBits}"
  | "sector.trig" =>
    let (a, t) := t.int
    let (b, _) := t.int
    let psText := match Fx.planeSectorNew a b with
      | none => "panic"
      | some ps => fmtPlaneSector ps
    let bvText := match Fx.styledSectorTrig a b with
      | none => "panic"
      | some (_, bv) => fmtBevel bv
    some s!"ps={psText} bv={bvText} nz={fmtOptInt (Fx.normalize a)} ab={fmtOptInt (Fx.angleAbs a)} ng={fmtOptInt (Fx.neg a)} ad={fmtOptInt (Fx.add a b)} sb={fmtOptInt (Fx.sub a b)}"
  | "sector.fxpoints" =>
    let (tl, t) := t.pt
    let (d, t) := t.nat
    let (a, t) := t.int
    let (b, _) := t.int
    match Fx.planeSectorNew a b with
    | none => some "panic"
    | some ps =>
      let s : Sector := ⟨tl, d, ps⟩
      let ys := irange (tl.y - 2) (tl.y + d + 2)
      let xs := irange (tl.x - 2) (tl.x + d + 2)
      let bits := ys.flatMap (fun y => xs.map (fun x => s.contains ⟨x, y⟩))
      some s!"ps={fmtPlaneSector ps} bb={fmtRect s.boundingBox} pts={fmtPts s.points} in={fmtBits bits}"
  | "sector.sarc" =>
    let (tl, t) := t.pt
    let (d, t) := t.nat
    let (_start, t) := t.int
    let (_sweep, t) := t.int
    let (tag, t) := t.nat
    let (l, t) := t.pt
    let (r, t) := t.pt
    let (st, t) := parseStyle t
    let (tb, t) := t.rect
    let (dd, _) := t.pt
    let ps : PlaneSector := ⟨opOfTag tag, l, r⟩
    let obs : Pt → StyledObs := fun by_ =>
      let a : Arc := (⟨tl, d, ps⟩ : Arc).translate by_
      ⟨a.drawStyled st, a.styledPixels st, a.styledBoundingBox st⟩
    some s!"ps={fmtPlaneSector ps} {styledReport obs tb dd}"
  | "sector.ssector" =>
    let (tl, t) := t.pt
    let (d, t) := t.nat
    let (_start, t) := t.int
    let (_sweep, t) := t.int
    let (tag, t) := t.nat
    let (l, t) := t.pt
    let (r, t) := t.pt
    let (bk, t) := t.nat
    let (bn, t) := t.pt
    let (st, t) := parseStyle t
    let (tb, t) := t.rect
    let (dd, _) := t.pt
    let ps : PlaneSector := ⟨opOfTag tag, l, r⟩
    let bevel : SectorBevel :=
      match bk with
      | 0 => none
      | 1 => some (.interior, bn)
      | _ => some (.exterior, bn)
    let obs : Pt → StyledObs := fun by_ =>
      let s : Sector := (⟨tl, d, ps⟩ : Sector).translate by_
      ⟨s.drawStyled st bevel, s.styledPixels st bevel, s.styledBoundingBox st⟩
    -- `bv=`: kind and normal are echoed, the origin distance is the model's
    let bvText :=
      match ((⟨tl, d, ps⟩ : Sector).styledPixelsIt st bevel).bevel with
      | none => "0,0,0,0"
      | some (k, eq) =>
        let kn := match k with | .interior => 1 | .exterior => 2
        s!"{kn},{eq.normalVector.x},{eq.normalVector.y},{eq.originDistance}"
    some s!"ps={fmtPlaneSector ps} bv={bvText} {styledReport obs tb dd}"
  | "sector.points" =>
    let (tl, d, ps) := parseSectorArgs t
    let s : Sector := ⟨tl, d, ps⟩
    let ys := irange (tl.y - 2) (tl.y + d + 2)
    let xs := irange (tl.x - 2) (tl.x + d + 2)
    let bits := ys.flatMap (fun y => xs.map (fun x => s.contains ⟨x, y⟩))
    some s!"ps={fmtPlaneSector ps} bb={fmtRect s.boundingBox} pts={fmtPts s.points} in={fmtBits bits}"
  | "sector.arc" =>
    let (tl, d, ps) := parseSectorArgs t
    let a : Arc := ⟨tl, d, ps⟩
    some s!"ps={fmtPlaneSector ps} bb={fmtRect a.boundingBox} pts={fmtPts a.points}"
  | _ => none

end EG.Driver
