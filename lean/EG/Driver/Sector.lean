/-
  EG.Driver.Sector — model side of the `sector.*` correspondence streams (harness/src/m_sector.rs).

    sector.points x y d start_mdeg sweep_mdeg tag lx ly rx ry
        -> ps=<tag,lx,ly,rx,ry> bb=<bounding box> pts=<Sector::points()> in=<Sector::contains() bitmap,
           row-major, over the bounding box grown by 2 px>
    sector.arc x y d start_mdeg sweep_mdeg tag lx ly rx ry
        -> ps=<tag,lx,ly,rx,ry> bb=<bounding box> pts=<Arc::points()>

  `tag lx ly rx ry` is what the real `PlaneSector::new(start, sweep)` computed (hook
  `verif_hooks::plane_sector`, written into the op line by the harness generator); the angles
  themselves are not used by the model (trigonometry is not modelled).
-/
import EG.Driver.Util
import EG.Model.Sector
namespace EG.Driver
open EG

private def opOfTag : Nat → PlaneOp
  | 0 => .intersection
  | 1 => .union
  | _ => .entirePlane

private def tagOfOp : PlaneOp → Nat
  | .intersection => 0
  | .union => 1
  | .entirePlane => 2

private def fmtPlaneSector (ps : PlaneSector) : String :=
  s!"{tagOfOp ps.op},{ps.left.x},{ps.left.y},{ps.right.x},{ps.right.y}"

/-- `x y d start sweep tag lx ly rx ry` -/
private def parseSectorArgs (t : Toks) : Pt × Nat × PlaneSector :=
  let (tl, t) := t.pt
  let (d, t) := t.nat
  let (_start, t) := t.int
  let (_sweep, t) := t.int
  let (tag, t) := t.nat
  let (l, t) := t.pt
  let (r, _) := t.pt
  (tl, d, ⟨opOfTag tag, l, r⟩)

def handleSector (stream : String) (t : Toks) : Option String :=
  match stream with
  | "sector.points" =>
    let (tl, d, ps) := parseSectorArgs t
    let s : Sector := ⟨tl, d, ps⟩
    let ys := irange (tl.y - 2) (tl.y + d + 2)
    let xs := irange (tl.x - 2) (tl.x + d + 2)
    let bits := ys.flatMap (fun y => xs.map (fun x => s.contains ⟨x, y⟩))
    some s!"ps={fmtPlaneSector ps} bb={fmtRect s.boundingBox} pts={fmtPts s.points} in={fmtBits bits}"
  | "sector.arc" =>
    let (tl, d, ps) := parseSectorArgs t
    let a : Arc := ⟨tl, d, ps⟩
    some s!"ps={fmtPlaneSector ps} bb={fmtRect a.boundingBox} pts={fmtPts a.points}"
  | _ => none

end EG.Driver
