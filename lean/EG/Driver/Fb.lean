/-
  EG.Driver.Fb — model side of the `fb.*` correspondence streams (harness/src/m_fb.rs).
-/
import EG.Driver.Util
namespace EG.Driver
open EG

def handleFb (_stream : String) (_t : Toks) : Option String := none

end EG.Driver
