/-
  EG.Driver.Fb — model side of the `fb.*` correspondence streams (harness/src/m_fb.rs).

  fb.hist <bits> <order 0|1> <W> <H> <extra> <op> <op> ...
     op = comma list of integers, first item the kind:
       0,x,y,c              set_pixel((x,y), c)
       1,x,y,c,x,y,c,...    draw_iter of those pixels
       2,x,y,w,h,c          fill_solid(Rectangle((x,y),(w,h)), c)
       3,c                  clear(c)
       4,x,y,w,h,c,c,...    fill_contiguous(Rectangle((x,y),(w,h)), [c, c, ...])
     The buffer has N = BUFFER_SIZE + extra bytes; the extra bytes are pre-set (through
     `data_mut()`) to 0xA5, 0x5A, 0xC3, ... so that a write into them is visible.
     -> `d=<data() bytes> p=<pixel() over y = -1..=H, x = -1..=W, row-major; n = None>
         img=<pixel map left by drawing as_image() at the origin>`
  fb.draw <bits> <order 0|1> <W> <H> <extra> <spec> <writes>
     a real drawable drawn into a fresh framebuffer; the model receives it as the pixel sequence `writes`
     (`x,y,c,x,y,c,..` | `-`) the drawable offers to a draw_iter-only target with the framebuffer's box
     (recorded from the real code by the harness): `Fb.drawIter`. Same result line.
-/
import EG.Driver.Util
import EG.Driver.Raw
import EG.Model.Framebuffer
namespace EG.Driver
open EG EG.Raw EG.Fb

def tailPattern : List Nat := [0xA5, 0x5A, 0xC3, 0x3C, 0x99, 0x66, 0xF0, 0x0F]

def fbInit (bits : Nat) (o : Order) (w h extra : Nat) : Fb :=
  ⟨bits, o, w, h, List.replicate (bufferSize w h bits) 0 ++ tailPattern.take extra⟩

def triples : List Int → Writes
  | x :: y :: c :: rest => (⟨x, y⟩, c.toNat) :: triples rest
  | _ => []

def fbOp (fb : Fb) (op : List Int) : Fb :=
  match op with
  | [0, x, y, c] => fb.setPixel ⟨x, y⟩ c.toNat
  | 1 :: rest => fb.call (.drawIter (triples rest))
  | [2, x, y, w, h, c] => fb.call (.fillSolid ⟨⟨x, y⟩, ⟨w.toNat, h.toNat⟩⟩ c.toNat)
  | [3, c] => fb.call (.clear c.toNat)
  | 4 :: x :: y :: w :: h :: cs => fb.call (.fillContiguous ⟨⟨x, y⟩, ⟨w.toNat, h.toNat⟩⟩ (cs.map Int.toNat))
  | _ => fb

def fmtOptN : Option Nat → String
  | some v => toString v
  | none => "n"

def fbGrid (fb : Fb) : String :=
  let ys := irange (-1) (fb.height + 1)
  let xs := irange (-1) (fb.width + 1)
  joinOr "," (ys.flatMap (fun y => xs.map (fun x => fmtOptN (fb.pixel ⟨x, y⟩))))

def fbImageMap (fb : Fb) : String :=
  let ys := irange 0 fb.height
  let xs := irange 0 fb.width
  joinOr ";" (ys.flatMap (fun y => xs.filterMap (fun x =>
    match fb.pixel ⟨x, y⟩ with
    | some c => some s!"{x},{y},{c}"
    | none => none)))

/-- the part of the image from (1,1) on, drawn in place (`sub=` of fb.hist) -/
def fbSubImageMap (fb : Fb) : String :=
  let ys := irange 1 fb.height
  let xs := irange 1 fb.width
  joinOr ";" (ys.flatMap (fun y => xs.filterMap (fun x =>
    match fb.pixel ⟨x, y⟩ with
    | some c => some s!"{x},{y},{c}"
    | none => none)))

def handleFb (stream : String) (t : Toks) : Option String :=
  match stream with
  | "fb.hist" =>
    let (bits, t) := t.nat
    let (o, t) := t.nat
    let (w, t) := t.nat
    let (h, t) := t.nat
    let (extra, t) := t.nat
    let fb := t.foldl (fun fb tok => fbOp fb (parseIntList tok)) (fbInit bits (orderOf o) w h extra)
    some s!"d={fmtNats fb.data} p={fbGrid fb} img={fbImageMap fb} sub={fbSubImageMap fb}"
  | "fb.draw" =>
    let (bits, t) := t.nat
    let (o, t) := t.nat
    let (w, t) := t.nat
    let (h, t) := t.nat
    let (extra, t) := t.nat
    let (_spec, t) := t.str
    let (ws, _) := t.str
    let fb := (fbInit bits (orderOf o) w h extra).drawIter (triples (parseIntList ws))
    some s!"d={fmtNats fb.data} p={fbGrid fb} img={fbImageMap fb}"
  | _ => none

end EG.Driver
