/-
  EG.Driver.C02 — model side of the C02 correspondence streams (harness/src/c02.rs).
-/
import EG.Driver.Util
namespace EG.Driver
open EG

def c02 (_stream : String) (_t : Toks) : Option String := none

end EG.Driver
