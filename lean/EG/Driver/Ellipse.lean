/-
  EG.Driver.Ellipse — model side of the `ellipse.*` correspondence streams (harness/src/m_ellipse.rs).
-/
import EG.Driver.Util
namespace EG.Driver
open EG

def handleEllipse (_stream : String) (_t : Toks) : Option String := none

end EG.Driver
