/-
  EG.Driver.Ellipse — model side of the `ellipse.*` correspondence streams (harness/src/m_ellipse.rs).
-/
import EG.Driver.Util
import EG.Model.Ellipse
namespace EG.Driver
open EG

private def alignOfE : Nat → StrokeAlignment | 0 => .inside | 1 => .center | _ => .outside

private def parseColE (s : String) : Option Color := if s == "-" then none else some (parseNat s)

private def fmtEllipse (e : Ellipse) : String := s!"{e.tl.x},{e.tl.y},{e.size.w},{e.size.h}"

private def fmtCallE : Call → String
  | .drawIter px => "di:" ++ fmtPix px
  | .fillContiguous a cs => s!"fc:{fmtRect a}:{fmtNats cs}"
  | .fillSolid a c => s!"fs:{fmtRect a}:{c}"
  | .clear c => s!"cl:{c}"

private def fmtLogE (cs : List Call) : String := joinOr "|" (cs.map fmtCallE)

def handleEllipse (stream : String) (t : Toks) : Option String :=
  match stream with
  | "ellipse.points" =>
    let (tl, t) := t.pt
    let (sz, _) := t.sz
    let e : Ellipse := ⟨tl, sz⟩
    let ys := irange (tl.y - 3) (tl.y + sz.h + 3)
    let xs := irange (tl.x - 3) (tl.x + sz.w + 3)
    let bits := ys.flatMap (fun y => xs.map (fun x => e.contains ⟨x, y⟩))
    some s!"bb={fmtRect e.boundingBox} c={fmtPt e.center} pts={fmtPts e.points} in={fmtBits bits}"
  | "ellipse.areas" =>
    let (tl, t) := t.pt
    let (sz, t) := t.sz
    let (w, t) := t.nat
    let (a, _) := t.nat
    let e : Ellipse := ⟨tl, sz⟩
    let st : PrimStyle := ⟨none, some 9, w, alignOfE a⟩
    some s!"s={fmtEllipse (e.strokeArea st)} f={fmtEllipse (e.fillArea st)} sbb={fmtRect (e.styledBoundingBox st)}"
  | "ellipse.styled" =>
    let (tl, t) := t.pt
    let (sz, t) := t.sz
    let (f, t) := t.str
    let (s, t) := t.str
    let (w, t) := t.nat
    let (a, t) := t.nat
    let (B, _) := t.rect
    let e : Ellipse := ⟨tl, sz⟩
    let st : PrimStyle := ⟨parseColE f, parseColE s, w, alignOfE a⟩
    let calls := e.drawStyled st
    let m1 := canonPix (calls.flatMap (Call.writesDefault B))
    let m2 := canonPix (calls.flatMap (Call.writesNative B))
    some s!"log={fmtLogE calls} m1={fmtPix m1} m2={fmtPix m2} px={fmtPix (e.styledPixels st)}"
  | _ => none

end EG.Driver
