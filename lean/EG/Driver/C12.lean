/-
  EG.Driver.C12 — model side of the C12 correspondence streams (harness/src/c12.rs).
-/
import EG.Driver.Util
namespace EG.Driver
open EG

def c12 (_stream : String) (_t : Toks) : Option String := none

end EG.Driver
