/-
  EG.Driver.C15 — model side of the C15 correspondence streams (harness/src/c15.rs).
-/
import EG.Driver.Util
namespace EG.Driver
open EG

def c15 (_stream : String) (_t : Toks) : Option String := none

end EG.Driver
