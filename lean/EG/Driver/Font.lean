/-
  EG.Driver.Font — model side of the `font.*` correspondence streams (harness/src/m_font.rs).

  Streams (formats documented in m_font.rs):
    font.index  <mid> <cp>                      -> glyph index in built-in mapping `mid`
    font.indexs <repl> <data cps> <cps>         -> n=<chars().count()> idx=<index per cp>   (any mapping string)
    font.info   <fid>                           -> the constants of built-in font `fid`
    font.glyph  <fontspec> <cps> <atlas>        -> per cp `idx:area:bits`
    font.draw   <fontspec> <via> <bl> <tc> <bg> <ul> <st> <x> <y> <cps> <atlas>
                                                -> next=<x,y> r1=<pixel map> r2=same|<pixel map>
  The atlas bits arrive inside the op line (read by the harness with `font.image.pixel()`); the model
  selects the cell itself.
-/
import EG.Driver.Util
import EG.Model.Font
namespace EG.Driver
open EG EG.Font

/-- `a:b:c` fields of one token -/
private def fields (s : String) : List String := s.splitOn ":"

private def hexVal (c : Char) : Nat :=
  if '0' ≤ c ∧ c ≤ '9' then c.toNat - '0'.toNat
  else if 'a' ≤ c ∧ c ≤ 'f' then c.toNat - 'a'.toNat + 10
  else 0

/-- hex string -> bits, most significant bit of every digit first -/
private def hexBits (s : String) : Array Bool :=
  s.foldl (fun acc c =>
    let v := hexVal c
    (((acc.push (v / 8 % 2 == 1)).push (v / 4 % 2 == 1)).push (v / 2 % 2 == 1)).push (v % 2 == 1)) #[]

/-- atlas function of an image of width `w`, height `h` from its row-major bits -/
private def atlasOf (w h : Nat) (bits : Array Bool) : Pt → Bool := fun p =>
  if 0 ≤ p.x ∧ 0 ≤ p.y ∧ p.x < (w : Int) ∧ p.y < (h : Int) then
    bits.getD (p.y.toNat * w + p.x.toNat) false
  else false

/-- `b:<fid>` or `c:<imgW>:<imgH>:<cw>:<ch>:<sp>:<bl>:<ulOff>:<ulH>:<stOff>:<stH>:<repl>:<data cps>` -/
private def parseFontSpec (s : String) : Option MonoFont :=
  match fields s with
  | ["b", fid] =>
    match Generated.fontTable[parseNat fid]? with
    | some r => some (fontOfRec r)
    | none => none
  | ["c", iw, ih, cw, ch, sp, bl, uo, uh, so, sh, repl, data] =>
    let m : StrMapping := ⟨parseNatList data, parseNat repl⟩
    some { imgW := parseNat iw, imgH := parseNat ih, cw := parseNat cw, ch := parseNat ch,
           spacing := parseNat sp, baseline := parseNat bl, ulOff := parseNat uo, ulH := parseNat uh,
           stOff := parseNat so, stH := parseNat sh, index := m.index }
  | _ => none

private def parseOptColor (s : String) : Option Color := if s == "-" then none else some (parseNat s)

private def parseDeco (s : String) : DecoColor :=
  if s == "n" then .none else if s == "t" then .textColor else .custom (parseNat s)

private def baselineOf : Nat → Baseline
  | 0 => .top
  | 1 => .bottom
  | 2 => .middle
  | _ => .alphabetic

/-- the harness's unbounded recording box -/
private def bigBox : Rect := ⟨⟨-1048576, -1048576⟩, ⟨2097152, 2097152⟩⟩

def handleFont (stream : String) (t : Toks) : Option String :=
  match stream with
  | "font.index" =>
    let (mid, t) := t.nat
    let (cp, _) := t.nat
    some (toString ((builtinMapping mid).index cp))
  | "font.indexs" =>
    let (repl, t) := t.nat
    let (data, t) := t.natList
    let (cps, _) := t.natList
    let m : StrMapping := ⟨data, repl⟩
    some s!"n={(expand data).length} idx={fmtNats (cps.map m.index)}"
  | "font.info" =>
    let (fid, _) := t.nat
    match Generated.fontTable[fid]? with
    | some r => some s!"{r.imgW} {r.imgH} {r.cw} {r.ch} {r.spacing} {r.baseline} {r.ulOff} {r.ulH} {r.stOff} {r.stH}"
    | none => some "nofont"
  | "font.glyph" =>
    let (spec, t) := t.str
    let (cps, t) := t.natList
    let (hex, _) := t.str
    match parseFontSpec spec with
    | none => some "nofont"
    | some f =>
      let atlas := atlasOf f.imgW f.imgH (hexBits hex)
      let items := cps.map (fun c =>
        let a := f.glyphArea c
        let bits := if f.areaDrawable a then fmtBits (cellBits atlas a) else "-"
        s!"{f.index c}:{fmtRect a}:{bits}")
      some (joinOr " " items)
  | "font.draw" =>
    let (spec, t) := t.str
    let (via, t) := t.str
    let (bl, t) := t.nat
    let (tc, t) := t.str
    let (bg, t) := t.str
    let (ul, t) := t.str
    let (st, t) := t.str
    let (pos, t) := t.pt
    let (cps, t) := t.natList
    let (hex, _) := t.str
    match parseFontSpec spec with
    | none => some "nofont"
    | some f =>
      let atlas := atlasOf f.imgW f.imgH (hexBits hex)
      let style : Style := ⟨parseOptColor tc, parseOptColor bg, parseDeco ul, parseDeco st⟩
      let (calls, next) :=
        if via.startsWith "w" then
          f.drawWhitespace style (parseNat (via.drop 1).toString) pos (baselineOf bl)
        else
          f.drawString atlas style cps pos (baselineOf bl)
      let r1 := fmtPix (canonPix (calls.flatMap (Call.writesDefault bigBox)))
      let r2 := fmtPix (canonPix (calls.flatMap (Call.writesNative bigBox)))
      some s!"next={fmtPt next} r1={r1} r2={if r2 == r1 then "same" else r2}"
  | _ => none

end EG.Driver
