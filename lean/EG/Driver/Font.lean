/-
  EG.Driver.Font — model side of the `font.*` correspondence streams (harness/src/m_font.rs).
-/
import EG.Driver.Util
namespace EG.Driver
open EG

def handleFont (_stream : String) (_t : Toks) : Option String := none

end EG.Driver
