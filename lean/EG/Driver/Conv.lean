/-
  EG.Driver.Conv — model side of the `conv.*` correspondence streams (harness/src/m_conv.rs).

    conv.pairs                     -> From>To:kind;... sorted (kind 0 rgbRgb 1 grayGray 2 grayRgb 3 rgbGray
                                      4 fromBinary 5 grayBinary 6 rgbBinary)
    conv.c <From> <To> x y z       -> raw value of To::from(src), src = From::new(x,y,z) / new(x) / (x != 0)
-/
import EG.Driver.Util
import EG.Model.Conv
namespace EG.Driver
open EG EG.Generated EG.Conv

def convKindCode : ConvKind → Nat
  | .rgbRgb => 0 | .grayGray => 1 | .grayRgb => 2 | .rgbGray => 3 | .fromBinary => 4 | .grayBinary => 5 | .rgbBinary => 6

def handleConv (stream : String) (t : Toks) : Option String :=
  match stream with
  | "conv.pairs" =>
    let xs := (convTable.map (fun e => s!"{e.src}>{e.dst}:{convKindCode e.kind}")).mergeSort (fun a b => decide (a ≤ b))
    some (joinOr ";" xs)
  | "conv.c" =>
    let (f, t) := t.str
    let (d, t) := t.str
    let (x, t) := t.nat
    let (y, t) := t.nat
    let (z, _) := t.nat
    match convTable.find? (fun e => e.src == f && e.dst == d) with
    | none => some "noconv"
    | some e =>
      match resolve e with
      | none => some "unresolved"
      | some r => some (toString (r.b.toRaw (r.apply (mkColor r.a x y z))))
  | _ => none

end EG.Driver
