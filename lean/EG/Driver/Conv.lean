/-
  EG.Driver.Conv — model side of the `conv.*` correspondence streams (harness/src/m_conv.rs).
-/
import EG.Driver.Util
namespace EG.Driver
open EG

def handleConv (_stream : String) (_t : Toks) : Option String := none

end EG.Driver
