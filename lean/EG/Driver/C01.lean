/-
  EG.Driver.C01 — model side of the C01 correspondence streams (harness/src/c01.rs).
-/
import EG.Driver.Util
namespace EG.Driver
open EG

def c01 (_stream : String) (_t : Toks) : Option String := none

end EG.Driver
