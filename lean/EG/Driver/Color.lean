/-
  EG.Driver.Color — model side of the `color.*` correspondence streams (harness/src/m_color.rs).

    color.types                 -> name:kind:bpp:storagebits:nbytes:maxr:maxg:maxb;... sorted by name
    color.new  <Type> r g b     -> c=<raw> ch=<r>,<g>,<b> st=<into_storage> be=<bytes> le=<bytes>
    color.gray <Type> l         -> c=<raw> ch=<luma> st=.. be=.. le=..
    color.raw  <Type> v         -> in=<Raw::from_u32(v)> c=<raw of C::from(raw)> ch=<channels> st=.. be=.. le=..
-/
import EG.Driver.Util
import EG.Generated.ColorTable
namespace EG.Driver
open EG EG.Generated

def findColor (name : String) : Option ColorSpec := colorTable.find? (fun s => s.name == name)

def kindCode : ColorKind → Nat
  | .binary => 0 | .gray => 1 | .rgb => 2 | .bgr => 3

def typeLine (s : ColorSpec) : String :=
  let (mr, mg, mb) :=
    if s.isRgb then (s.maxR, s.maxG, s.maxB) else (0, 0, 0)
  s!"{s.name}:{kindCode s.kind}:{s.rawBpp}:{s.rawStorageBits}:{s.nbytes}:{mr}:{mg}:{mb}"

/-- channels of a colour value as the public accessors return them -/
def channelsOf (s : ColorSpec) (c : Nat) : List Nat :=
  match s.kind with
  | .binary => [if c = 1 then 1 else 0]
  | .gray => [s.luma c]
  | _ => [s.chanR c, s.chanG c, s.chanB c]

def viewsOf (s : ColorSpec) (c : Nat) : String :=
  s!"c={s.toRaw c} ch={fmtNats (channelsOf s c)} st={s.intoStorage c} be={fmtNats (s.toBeBytes c)} le={fmtNats (s.toLeBytes c)}"

def handleColor (stream : String) (t : Toks) : Option String :=
  match stream with
  | "color.types" =>
    let names := (colorTable.map typeLine).mergeSort (fun a b => decide (a ≤ b))
    some (joinOr ";" names)
  | "color.new" =>
    let (n, t) := t.str
    let (r, t) := t.nat
    let (g, t) := t.nat
    let (b, _) := t.nat
    match findColor n with
    | some s => if s.isRgb then some (viewsOf s (s.rgbNew r g b)) else none
    | none => none
  | "color.gray" =>
    let (n, t) := t.str
    let (l, _) := t.nat
    match findColor n with
    | some s => if s.kind == .gray then some (viewsOf s (s.grayNew l)) else none
    | none => none
  | "color.raw" =>
    let (n, t) := t.str
    let (v, _) := t.nat
    match findColor n with
    | some s =>
      let raw := s.rawFromU32 v
      some s!"in={raw} {viewsOf s (s.fromRaw raw)}"
    | none => none
  | _ => none

end EG.Driver
