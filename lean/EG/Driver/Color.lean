/-
  EG.Driver.Color — model side of the `color.*` correspondence streams (harness/src/m_color.rs).
-/
import EG.Driver.Util
namespace EG.Driver
open EG

def handleColor (_stream : String) (_t : Toks) : Option String := none

end EG.Driver
