/-
  EG.Driver.Image — model side of the `image.*` correspondence streams (harness/src/m_image.rs).

  <img> = `<bits> <order 0|1> <w> <h> <bytes>`      (order 0 = LittleEndianMsb0, 1 = BigEndianLsb0)
  <obj> = `<img> <ox> <oy> <mode> <nsub> [<ax> <ay> <aw> <ah>]*nsub`
          mode 0: `Image::new(d, (ox,oy))`, mode 1: `Image::with_center(d, (ox,oy))`;
          `d` = the raw image with `sub_image(area)` applied `nsub` times (0..=2)

  image.new   <bits> <order> <w> <h> <len>     -> `ok` | `err:<expected_data_size>`
  image.pixel <img>                            -> `pixel()` for y in -1..=h, x in -1..=w (comma list)
  image.draw  <obj> <bx> <by> <bw> <bh>        -> `bb=<rect> r1=<map> r2=<map> log1=<calls> log2=<calls>`
  image.move  <obj> <dx> <dy>                  -> `bb=<rect> mut=<1|0> r1=<map>` of `.translate((dx,dy))`
  (`err:<expected>` when `ImageRaw::new` rejects the buffer)
-/
import EG.Driver.Util
import EG.Model.ImageRaw
namespace EG.Driver
open EG EG.Raw EG.Img

def imgOrderOf : Nat → Order
  | 0 => .le
  | _ => .be

def imgFmtOpt : Option Nat → String
  | some v => toString v
  | none => "none"

def imgFmtCall : Call → String
  | .drawIter px => "di:" ++ fmtPix px
  | .fillContiguous a cs => s!"fc:{fmtRect a}:{fmtNats cs}"
  | .fillSolid a c => s!"fs:{fmtRect a}:{c}"
  | .clear c => s!"cl:{c}"

def imgFmtLog (cs : List Call) : String := joinOr "|" (cs.map imgFmtCall)

/-- the box of `Rec::unbounded()` -/
def imgUnbounded : Rect := ⟨⟨-1048576, -1048576⟩, ⟨2097152, 2097152⟩⟩

def imgParseRaw (t : Toks) : Except Nat ImageRaw × Toks :=
  let (bits, t) := t.nat
  let (o, t) := t.nat
  let (sz, t) := t.sz
  let (bytes, t) := t.natList
  (ImageRaw.new bits (imgOrderOf o) bytes sz, t)

def imgSubs : Nat → Drawable → Toks → Drawable × Toks
  | 0, d, t => (d, t)
  | n + 1, d, t =>
    let (a, t) := t.rect
    imgSubs n (d.subImage a) t

def imgParseObj (im : ImageRaw) (t : Toks) : Image × Toks :=
  let (o, t) := t.pt
  let (mode, t) := t.nat
  let (nsub, t) := t.nat
  let (d, t) := imgSubs nsub (.raw im) t
  (if mode = 0 then Image.new d o else Image.withCenter d o, t)

def handleImage (stream : String) (t : Toks) : Option String :=
  match stream with
  | "image.new" =>
    let (bits, t) := t.nat
    let (o, t) := t.nat
    let (sz, t) := t.sz
    let (len, _) := t.nat
    match ImageRaw.new bits (imgOrderOf o) (List.replicate len 0) sz with
    | .ok _ => some "ok"
    | .error e => some s!"err:{e}"
  | "image.pixel" =>
    let (r, _) := imgParseRaw t
    match r with
    | .error e => some s!"err:{e}"
    | .ok im =>
      let ys := irange (-1) ((im.size.h : Int) + 1)
      let xs := irange (-1) ((im.size.w : Int) + 1)
      some (joinOr "," (ys.flatMap (fun y => xs.map (fun x => imgFmtOpt (im.pixel ⟨x, y⟩)))))
  | "image.draw" =>
    let (r, t) := imgParseRaw t
    match r with
    | .error e => some s!"err:{e}"
    | .ok im =>
      let (img, t) := imgParseObj im t
      let (B, _) := t.rect
      let calls := img.draw
      let r1 := canonPix (calls.flatMap (Call.writesDefault B))
      let r2 := canonPix (calls.flatMap (Call.writesNative B))
      let log1 := calls.map (fun c => Call.drawIter (c.lowerDefault B))
      some s!"bb={fmtRect img.boundingBox} r1={fmtPix r1} r2={fmtPix r2} log1={imgFmtLog log1} log2={imgFmtLog calls}"
  | "image.move" =>
    let (r, t) := imgParseRaw t
    match r with
    | .error e => some s!"err:{e}"
    | .ok im =>
      let (img, t) := imgParseObj im t
      let (d, _) := t.pt
      let moved := img.translate d
      let r1 := canonPix (moved.draw.flatMap (Call.writesDefault imgUnbounded))
      some s!"bb={fmtRect moved.boundingBox} mut={if img.translateMut d = moved then 1 else 0} r1={fmtPix r1}"
  | _ => none

end EG.Driver
