/-
  EG.Driver.Image — model side of the `image.*` correspondence streams (harness/src/m_image.rs).
-/
import EG.Driver.Util
namespace EG.Driver
open EG

def handleImage (_stream : String) (_t : Toks) : Option String := none

end EG.Driver
