/-
  EG.Driver.Styled — model side of the `styled.*` correspondence streams (harness/src/m_styled.rs).

  A shape kind is served through its `StyledView` (Driver/ShapeView.lean: what the streams observe of
  a styled shape - call list of `draw()`, `pixels()`, bounding boxes - as a function of the
  translation applied to the primitive); the result lines are formatted from the view exactly as
  `execute` in m_styled.rs formats the real results. Every shape kind of shapes.rs is served: `rect`
  (EG.Model.StyledRect), `circle`, `ellipse`, `rrect` (EG.Model.Circle / Ellipse / RoundedRect), `line`
  (EG.Model.ThickLine), `poly` (EG.Model.ThickPolyline), `tri` (EG.Model.ThickTriangle) with every
  stroke width, alignment and colour option, `arc` / `sector` (EG.Model.StyledArc / StyledSector) when
  the op line carries the hook tokens `hk tag lx ly rx ry [bk bnx bny]` (appended by the generator;
  lines without them are printed `skip`). `styled.areas` is served for the closed shapes only (the
  only ones it is generated for). Ops with a dotted stroke (`styled.* dotted ..`) have no model
  (`skip`). Where a model function is `Option`-valued and returns `none` (fuel), the line is `stuck`.
-/
import EG.Driver.ShapeView
namespace EG.Driver
open EG

/-- `Rec::unbounded()` of the harness. -/
private def unboundedBox : Rect := ⟨⟨-1048576, -1048576⟩, ⟨2097152, 2097152⟩⟩

/-- Canonical map left on `R1` (draw_iter only, box `B`) / `R2` (native fills) by a call list. -/
private def mapDefault (B : Rect) (calls : List Call) : List (Pt × Nat) :=
  canonPix (calls.flatMap (Call.writesDefault B))
private def mapNative (B : Rect) (calls : List Call) : List (Pt × Nat) :=
  canonPix (calls.flatMap (Call.writesNative B))

/-- Call log of `R1`: every call arrives as `draw_iter` and is logged with all pixels offered
(also those outside the box). -/
private def fmtLogR1 (B : Rect) (calls : List Call) : String :=
  if calls.isEmpty then "-"
  else "|".intercalate (calls.map (fun c => "di:" ++ fmtPix (c.lowerDefault B)))

private def shiftPix (d : Pt) (m : List (Pt × Nat)) : List (Pt × Nat) := m.map (fun w => (w.1 + d, w.2))

private def b01 (b : Bool) : String := if b then "1" else "0"

private def stuckOr (o : Option String) : Option String :=
  match o with
  | some s => some s
  | none => some "stuck"

/-- Result line of one `styled.*` op from the view of the shape (`view d` = the view of the
primitive translated by `d`); `t` = the tokens after the style. -/
private def styledResult (stream : String) (view : Pt → StyledView) (t : Toks) : Option String :=
  let v := view ⟨0, 0⟩
  match stream with
  | "styled.paths" => stuckOr do
    let (tb, _) := t.rect
    let calls ← v.calls ()
    let px ← v.pixels ()
    let m1 := mapDefault tb calls
    let m2 := mapNative tb calls
    let mp := mapDefault tb [Call.drawIter px]
    let l1 := fmtLogR1 tb calls
    pure s!"r1={smallMap m1} r2eq={b01 (m1 == m2)} pxeq={b01 (m1 == mp)} log={smallText l1 4000}"
  | "styled.bbox" => stuckOr do
    let calls ← v.calls ()
    let bbox ← v.bbox ()
    let m := mapDefault unboundedBox calls
    let out := m.filter (fun w => !bbox.contains w.1)
    pure s!"bb={fmtRect bbox} n={m.length} h={pixDigest m} out={out.length}"
  | "styled.areas" =>
    -- generated for closed shapes only (the harness panics on any other kind)
    match v.fa, v.sa with
    | some fa, some sa => stuckOr do
      let calls ← v.calls ()
      let m := mapDefault unboundedBox calls
      pure s!"m={smallMap m} fa={fmtRect fa} sa={fmtRect sa}"
    | _, _ => none
  | "styled.translate" => stuckOr do
    let (d, _) := t.pt
    let vd := view d
    let c0 ← v.calls ()
    let cd ← vd.calls ()
    let bb ← v.bbox ()
    let bbd ← vd.bbox ()
    let m0 := mapDefault unboundedBox c0
    let md := mapDefault unboundedBox cd
    pure s!"n={m0.length} h={pixDigest m0} shifted={b01 (md == shiftPix d m0)} bb={fmtRect bb} bbd={fmtRect bbd}"
  | _ => none

def handleStyled (stream : String) (t : Toks) : Option String :=
  if !stream.startsWith "styled." then none else
  match parseShapeView t with
  | some (view, t) => styledResult stream view t
  | none => none

end EG.Driver
