/-
  EG.Driver.Styled — model side of the `styled.*` correspondence streams (harness/src/m_styled.rs).
-/
import EG.Driver.Util
namespace EG.Driver
open EG

def handleStyled (_stream : String) (_t : Toks) : Option String := none

end EG.Driver
